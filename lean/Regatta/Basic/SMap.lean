import Regatta.Basic.Bytes
/-
  Association lists over byte-string keys kept strictly ascending in bytewise order: the shape of
  a Pebble store (and of the "plain sorted map" the properties compare it with).  `Sorted` is a
  separate predicate, not a subtype.
-/
namespace Regatta
namespace SMap

variable {ν : Type}

def Sorted (s : List (Bytes × ν)) : Prop := s.Pairwise (fun a b => bytesLt a.1 b.1 = true)

/-- insert or overwrite -/
def set (k : Bytes) (v : ν) : List (Bytes × ν) → List (Bytes × ν)
  | [] => [(k, v)]
  | (k', v') :: t =>
    if bytesLt k k' then (k, v) :: (k', v') :: t
    else if bytesLt k' k then (k', v') :: set k v t
    else (k, v) :: t

def get? (k : Bytes) : List (Bytes × ν) → Option ν
  | [] => none
  | (k', v') :: t => if k = k' then some v' else get? k t

/-- `lo ≤ k < hi` -/
def inRange (lo hi k : Bytes) : Bool := bytesLe lo k && bytesLt k hi

def erase (k : Bytes) (s : List (Bytes × ν)) : List (Bytes × ν) := s.filter (fun p => p.1 != k)
def eraseRange (lo hi : Bytes) (s : List (Bytes × ν)) : List (Bytes × ν) :=
  s.filter (fun p => !inRange lo hi p.1)
def range (lo hi : Bytes) (s : List (Bytes × ν)) : List (Bytes × ν) :=
  s.filter (fun p => inRange lo hi p.1)

theorem sorted_nil : Sorted ([] : List (Bytes × ν)) := List.Pairwise.nil

theorem sorted_filter (P : Bytes × ν → Bool) (s : List (Bytes × ν)) (h : Sorted s) :
    Sorted (s.filter P) := List.Pairwise.filter _ h

theorem sorted_erase (k : Bytes) (s : List (Bytes × ν)) (h : Sorted s) : Sorted (erase k s) :=
  sorted_filter _ s h
theorem sorted_eraseRange (lo hi : Bytes) (s : List (Bytes × ν)) (h : Sorted s) :
    Sorted (eraseRange lo hi s) := sorted_filter _ s h
theorem sorted_range (lo hi : Bytes) (s : List (Bytes × ν)) (h : Sorted s) :
    Sorted (range lo hi s) := sorted_filter _ s h

/-- On a sorted list, `set` is "everything below, the pair, everything above". -/
theorem set_eq_filter (k : Bytes) (v : ν) (s : List (Bytes × ν)) (h : Sorted s) :
    set k v s = s.filter (fun p => bytesLt p.1 k) ++ (k, v) :: s.filter (fun p => bytesLt k p.1) := by
  induction s with
  | nil => simp [set]
  | cons hd t ih =>
    obtain ⟨k', v'⟩ := hd
    unfold Sorted at h
    rw [List.pairwise_cons] at h
    obtain ⟨h1, h2⟩ := h
    simp only [set]
    by_cases e1 : bytesLt k k' = true
    · -- everything in (k',v')::t is above k
      have hall : ∀ p ∈ (k', v') :: t, bytesLt k p.1 = true := by
        intro p hp
        simp only [List.mem_cons] at hp
        rcases hp with rfl | hp
        · exact e1
        · exact bytesLt_trans _ _ _ e1 (h1 p hp)
      have hnone : ∀ p ∈ (k', v') :: t, bytesLt p.1 k = false := fun p hp =>
        bytesLt_asymm _ _ (hall p hp)
      have f1 : ((k', v') :: t).filter (fun p => bytesLt p.1 k) = [] := by
        rw [List.filter_eq_nil_iff]; intro p hp; simp [hnone p hp]
      have f2 : ((k', v') :: t).filter (fun p => bytesLt k p.1) = (k', v') :: t := by
        rw [List.filter_eq_self]; intro p hp; exact hall p hp
      rw [f1, f2]; simp [e1]
    · have e1' : bytesLt k k' = false := by simpa using e1
      by_cases e2 : bytesLt k' k = true
      · simp only [e1', e2, if_true, Bool.false_eq_true, if_false, List.filter_cons]
        rw [ih h2]; simp
      · have e2' : bytesLt k' k = false := by simpa using e2
        have hk : k = k' := by
          rcases bytesLt_tri k k' with h | h | h
          · rw [h] at e1'; cases e1'
          · exact h
          · rw [h] at e2'; cases e2'
        subst hk
        have hall : ∀ p ∈ t, bytesLt k p.1 = true := h1
        have f1 : t.filter (fun p => bytesLt p.1 k) = [] := by
          rw [List.filter_eq_nil_iff]; intro p hp; simp [bytesLt_asymm _ _ (hall p hp)]
        have f2 : t.filter (fun p => bytesLt k p.1) = t := by
          rw [List.filter_eq_self]; intro p hp; exact hall p hp
        simp only [e1', Bool.false_eq_true, if_false, List.filter_cons, f1, f2, List.nil_append]

theorem sorted_set (k : Bytes) (v : ν) (s : List (Bytes × ν)) (h : Sorted s) : Sorted (set k v s) := by
  rw [set_eq_filter k v s h]
  unfold Sorted
  rw [List.pairwise_append]
  refine ⟨List.Pairwise.filter _ h, ?_, ?_⟩
  · rw [List.pairwise_cons]
    refine ⟨?_, List.Pairwise.filter _ h⟩
    intro p hp
    simp only [List.mem_filter] at hp
    exact hp.2
  · intro a ha b hb
    simp only [List.mem_filter] at ha
    simp only [List.mem_cons, List.mem_filter] at hb
    rcases hb with rfl | hb
    · exact ha.2
    · exact bytesLt_trans _ _ _ ha.2 hb.2

theorem get?_eq_none_of_forall_ne (k : Bytes) (s : List (Bytes × ν)) (h : ∀ p ∈ s, p.1 ≠ k) :
    get? k s = none := by
  induction s with
  | nil => rfl
  | cons hd t ih =>
    obtain ⟨k', v'⟩ := hd
    simp only [get?]
    have : k ≠ k' := fun e => h (k', v') (by simp) e.symm
    simp only [this, if_false]
    exact ih (fun p hp => h p (by simp [hp]))

theorem get?_append (k : Bytes) (a b : List (Bytes × ν)) :
    get? k (a ++ b) = (get? k a).orElse (fun _ => get? k b) := by
  induction a with
  | nil => simp [get?]
  | cons hd t ih =>
    obtain ⟨k', v'⟩ := hd
    simp only [List.cons_append, get?]
    by_cases e : k = k' <;> simp [e, ih]

theorem get?_filter (k : Bytes) (P : Bytes → Bool) (s : List (Bytes × ν)) :
    get? k (s.filter (fun p => P p.1)) = if P k then get? k s else none := by
  induction s with
  | nil => simp [get?]
  | cons hd t ih =>
    obtain ⟨k', v'⟩ := hd
    simp only [List.filter_cons]
    by_cases hp : P k' = true
    · simp only [hp, if_true, get?]
      by_cases e : k = k'
      · subst e; simp [hp]
      · simp [e, ih]
    · simp only [hp, Bool.false_eq_true, if_false, get?]
      by_cases e : k = k'
      · subst e; simp [hp, ih]
      · simp [e, ih]

theorem get?_set (k k' : Bytes) (v : ν) (s : List (Bytes × ν)) (h : Sorted s) :
    get? k' (set k v s) = if k' = k then some v else get? k' s := by
  induction s with
  | nil => simp [set, get?]
  | cons hd t ih =>
    obtain ⟨k0, v0⟩ := hd
    unfold Sorted at h
    rw [List.pairwise_cons] at h
    obtain ⟨h1, h2⟩ := h
    simp only [set]
    split
    · simp [get?]
    · split
      · rename_i _ hlt
        simp only [get?]
        by_cases e : k' = k0
        · subst e
          have : k' ≠ k := bytesLt_ne _ _ hlt
          simp [this]
        · simp [e, ih h2]
      · rename_i h3 h4
        have : k = k0 := by
          rcases bytesLt_tri k k0 with h | h | h
          · simp [h] at h3
          · exact h
          · simp [h] at h4
        subst this
        simp only [get?]
        by_cases e : k' = k <;> simp [e]

theorem get?_erase (k k' : Bytes) (s : List (Bytes × ν)) :
    get? k' (erase k s) = if k' = k then none else get? k' s := by
  unfold erase
  rw [get?_filter k' (fun x => x != k) s]
  by_cases e : k' = k <;> simp [e]

theorem get?_eraseRange (lo hi k' : Bytes) (s : List (Bytes × ν)) :
    get? k' (eraseRange lo hi s) = if inRange lo hi k' then none else get? k' s := by
  unfold eraseRange
  rw [get?_filter k' (fun x => !inRange lo hi x) s]
  cases inRange lo hi k' <;> simp

theorem mem_range (lo hi : Bytes) (s : List (Bytes × ν)) (p : Bytes × ν) :
    p ∈ range lo hi s ↔ p ∈ s ∧ inRange lo hi p.1 = true := by
  simp [range, List.mem_filter]

theorem get?_of_mem (s : List (Bytes × ν)) (h : Sorted s) (p : Bytes × ν) (hp : p ∈ s) :
    get? p.1 s = some p.2 := by
  induction s with
  | nil => cases hp
  | cons hd t ih =>
    obtain ⟨k0, v0⟩ := hd
    unfold Sorted at h
    rw [List.pairwise_cons] at h
    obtain ⟨h1, h2⟩ := h
    simp only [List.mem_cons] at hp
    simp only [get?]
    rcases hp with rfl | hp
    · simp
    · have : p.1 ≠ k0 := fun e => by
        have := h1 p hp; rw [e, bytesLt_irrefl] at this; cases this
      simp [this, ih h2 hp]

/-! ### Abstraction through a key decoder -/

/-- keep the pairs whose key decodes, under the decoded key -/
def absMap (dec : Bytes → Option Bytes) (s : List (Bytes × ν)) : List (Bytes × ν) :=
  s.filterMap (fun p => (dec p.1).map (fun k => (k, p.2)))

theorem absMap_nil (dec : Bytes → Option Bytes) : absMap dec ([] : List (Bytes × ν)) = [] := rfl

theorem absMap_append (dec : Bytes → Option Bytes) (a b : List (Bytes × ν)) :
    absMap dec (a ++ b) = absMap dec a ++ absMap dec b := by
  simp [absMap, List.filterMap_append]

/-- filtering by a predicate on stored keys = filtering by the corresponding predicate on decoded
keys; what happens to undecodable keys is irrelevant, they are dropped by `absMap` anyway. -/
theorem absMap_filter (enc : Bytes → Bytes) (dec : Bytes → Option Bytes)
    (hed : ∀ x a, dec x = some a → x = enc a)
    (P P' : Bytes → Bool) (hP : ∀ a, P (enc a) = P' a) (s : List (Bytes × ν)) :
    absMap dec (s.filter (fun p => P p.1)) = (absMap dec s).filter (fun p => P' p.1) := by
  induction s with
  | nil => rfl
  | cons hd t ih =>
    obtain ⟨x, w⟩ := hd
    simp only [List.filter_cons]
    cases hx : dec x with
    | none =>
      have e1 : absMap dec ((x, w) :: t) = absMap dec t := by
        simp [absMap, hx]
      rw [e1, ← ih]
      split
      · simp [absMap, hx]
      · rfl
    | some a =>
      have e := hed _ _ hx
      subst e
      have e1 : absMap dec ((enc a, w) :: t) = (a, w) :: absMap dec t := by
        simp [absMap, hx]
      rw [e1, List.filter_cons, ← ih, ← hP a]
      split
      · simp [absMap, hx]
      · rfl

theorem sorted_absMap (enc : Bytes → Bytes) (dec : Bytes → Option Bytes)
    (hed : ∀ x a, dec x = some a → x = enc a)
    (hmono : ∀ a b, bytesLt (enc a) (enc b) = bytesLt a b)
    (s : List (Bytes × ν)) (h : Sorted s) : Sorted (absMap dec s) := by
  unfold Sorted absMap at *
  refine List.Pairwise.filterMap _ ?_ h
  intro p q hpq a ha b hb
  simp only [Option.map_eq_some_iff] at ha hb
  obtain ⟨a', ha1, rfl⟩ := ha
  obtain ⟨b', hb1, rfl⟩ := hb
  have e1 := hed _ _ ha1
  have e2 := hed _ _ hb1
  simp only
  rw [← hmono, ← e1, ← e2]; exact hpq

/-- writing `enc k` in the store = writing `k` in the abstract map (no condition on where the
undecodable keys lie) -/
theorem absMap_set (enc : Bytes → Bytes) (dec : Bytes → Option Bytes)
    (hed : ∀ x a, dec x = some a → x = enc a)
    (hmono : ∀ a b, bytesLt (enc a) (enc b) = bytesLt a b)
    (k : Bytes) (hde : dec (enc k) = some k) (v : ν) (s : List (Bytes × ν)) (hs : Sorted s) :
    absMap dec (set (enc k) v s) = set k v (absMap dec s) := by
  rw [set_eq_filter (enc k) v s hs, set_eq_filter k v _ (sorted_absMap enc dec hed hmono s hs)]
  rw [absMap_append]
  have e1 := absMap_filter (ν := ν) enc dec hed (fun x => bytesLt x (enc k)) (fun a => bytesLt a k)
    (fun a => hmono a k) s
  have e2 := absMap_filter (ν := ν) enc dec hed (fun x => bytesLt (enc k) x) (fun a => bytesLt k a)
    (fun a => hmono k a) s
  rw [e1]
  have e3 : absMap dec ((enc k, v) :: s.filter (fun p => bytesLt (enc k) p.1))
      = (k, v) :: absMap dec (s.filter (fun p => bytesLt (enc k) p.1)) := by
    simp [absMap, hde]
  rw [e3, e2]

/-- the undecodable part of the store (bookkeeping keys) -/
def restMap (dec : Bytes → Option Bytes) (s : List (Bytes × ν)) : List (Bytes × ν) :=
  s.filter (fun p => (dec p.1).isNone)

theorem restMap_filter (dec : Bytes → Option Bytes) (P : Bytes → Bool) (s : List (Bytes × ν))
    (h : ∀ p ∈ s, dec p.1 = none → P p.1 = true) :
    restMap dec (s.filter (fun p => P p.1)) = restMap dec s := by
  unfold restMap
  rw [List.filter_filter]
  apply List.filter_congr
  intro p hp
  cases hd : dec p.1 with
  | none => simp [h p hp hd]
  | some a => simp

end SMap
end Regatta
