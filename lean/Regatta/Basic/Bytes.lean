/-
  Byte strings as lists of `UInt8` with the bytewise (lexicographic) order that Pebble's
  default comparer and Go's `bytes.Compare` implement.  Core Lean only.
-/
namespace Regatta

abbrev Bytes := List UInt8

/-- strict bytewise order: `bytes.Compare a b == -1` -/
def bytesLt : Bytes → Bytes → Bool
  | [], [] => false
  | [], _ :: _ => true
  | _ :: _, [] => false
  | a :: as, b :: bs =>
    if a.toNat < b.toNat then true
    else if b.toNat < a.toNat then false
    else bytesLt as bs

/-- `bytes.Compare a b <= 0` -/
def bytesLe (a b : Bytes) : Bool := !bytesLt b a

theorem bytesLt_irrefl : ∀ a : Bytes, bytesLt a a = false
  | [] => rfl
  | a :: as => by simp [bytesLt, bytesLt_irrefl as]

theorem bytesLt_trans : ∀ a b c : Bytes, bytesLt a b = true → bytesLt b c = true → bytesLt a c = true
  | [], [], _ => by simp [bytesLt]
  | [], _ :: _, [] => by simp [bytesLt]
  | [], _ :: _, _ :: _ => by simp [bytesLt]
  | _ :: _, [], _ => by simp [bytesLt]
  | _ :: _, _ :: _, [] => by simp [bytesLt]
  | a :: as, b :: bs, c :: cs => by
    simp only [bytesLt]
    intro h1 h2
    by_cases e1 : a.toNat < b.toNat
    · by_cases e2 : b.toNat < c.toNat
      · have : a.toNat < c.toNat := by omega
        simp [this]
      · simp only [e2, if_false] at h2
        by_cases e3 : c.toNat < b.toNat
        · simp [e3] at h2
        · have : a.toNat < c.toNat := by omega
          simp [this]
    · simp only [e1, if_false] at h1
      by_cases e4 : b.toNat < a.toNat
      · simp [e4] at h1
      · simp only [e4, if_false] at h1
        have hab : a.toNat = b.toNat := by omega
        by_cases e2 : b.toNat < c.toNat
        · have : a.toNat < c.toNat := by omega
          simp [this]
        · simp only [e2, if_false] at h2
          by_cases e3 : c.toNat < b.toNat
          · simp [e3] at h2
          · simp only [e3, if_false] at h2
            have h5 : ¬ a.toNat < c.toNat := by omega
            have h6 : ¬ c.toNat < a.toNat := by omega
            simp only [h5, h6, if_false]
            exact bytesLt_trans as bs cs h1 h2

theorem bytesLt_tri : ∀ a b : Bytes, bytesLt a b = true ∨ a = b ∨ bytesLt b a = true
  | [], [] => by simp
  | [], _ :: _ => by simp [bytesLt]
  | _ :: _, [] => by simp [bytesLt]
  | a :: as, b :: bs => by
    simp only [bytesLt]
    by_cases e1 : a.toNat < b.toNat
    · simp [e1]
    · by_cases e2 : b.toNat < a.toNat
      · simp [e2]
      · have hab : a = b := UInt8.toNat_inj.mp (by omega)
        subst hab
        simp only [e1, if_false]
        rcases bytesLt_tri as bs with h | h | h
        · exact Or.inl h
        · exact Or.inr (Or.inl (by rw [h]))
        · exact Or.inr (Or.inr h)

theorem bytesLt_asymm (a b : Bytes) (h : bytesLt a b = true) : bytesLt b a = false := by
  cases hb : bytesLt b a with
  | false => rfl
  | true =>
    have := bytesLt_trans a b a h hb
    rw [bytesLt_irrefl] at this; cases this

theorem bytesLt_ne (a b : Bytes) (h : bytesLt a b = true) : a ≠ b := by
  intro e; subst e; rw [bytesLt_irrefl] at h; cases h

/-- a common prefix does not change the order -/
theorem bytesLt_append_left : ∀ (p a b : Bytes), bytesLt (p ++ a) (p ++ b) = bytesLt a b
  | [], _, _ => rfl
  | x :: p, a, b => by
    simp only [List.cons_append, bytesLt, Nat.lt_irrefl, if_false]
    exact bytesLt_append_left p a b

theorem bytesLe_refl (a : Bytes) : bytesLe a a = true := by simp [bytesLe, bytesLt_irrefl]

theorem bytesLe_of_lt (a b : Bytes) (h : bytesLt a b = true) : bytesLe a b = true := by
  simp [bytesLe, bytesLt_asymm a b h]

theorem bytesLt_of_lt_of_le (a b c : Bytes) (h1 : bytesLt a b = true) (h2 : bytesLe b c = true) :
    bytesLt a c = true := by
  simp only [bytesLe, Bool.not_eq_true'] at h2
  rcases bytesLt_tri b c with h | h | h
  · exact bytesLt_trans a b c h1 h
  · subst h; exact h1
  · rw [h] at h2; cases h2

theorem bytesLt_of_le_of_lt (a b c : Bytes) (h1 : bytesLe a b = true) (h2 : bytesLt b c = true) :
    bytesLt a c = true := by
  simp only [bytesLe, Bool.not_eq_true'] at h1
  rcases bytesLt_tri a b with h | h | h
  · exact bytesLt_trans a b c h h2
  · subst h; exact h2
  · rw [h] at h1; cases h1

theorem bytesLe_trans (a b c : Bytes) (h1 : bytesLe a b = true) (h2 : bytesLe b c = true) :
    bytesLe a c = true := by
  simp only [bytesLe, Bool.not_eq_true'] at *
  cases h : bytesLt c a with
  | false => rfl
  | true =>
    have := bytesLt_of_lt_of_le c a b h (by simp [bytesLe, h1])
    rw [this] at h2; cases h2

/-- `[] ≤ a` for every `a` -/
theorem bytesLt_nil_right (a : Bytes) : bytesLt a [] = false := by
  cases a <;> rfl

/-- the empty string is strictly below every non-empty one -/
theorem bytesLt_nil_left (a : Bytes) (h : a ≠ []) : bytesLt [] a = true := by
  cases a with
  | nil => exact absurd rfl h
  | cons _ _ => rfl

/-- three-way comparison as `bytes.Compare` returns it: -1, 0, 1 -/
def bytesCompare (a b : Bytes) : Int :=
  if bytesLt a b then -1 else if bytesLt b a then 1 else 0

end Regatta
