import Regatta.Proofs.LogCache
/-
  The `Replicate` loop over an exact query function streams exactly the requested log range.
-/
namespace Regatta.LogReader

theorem simpleQuery_exact (H : Nat → LEntry) (l : Log) (hl : EntriesSpec H l) (a F mx : Nat)
    (hFa : F ≤ a) (hal : a ≤ l.last) : Exact H F (a + 1) (simpleQuery l F (a + 1) mx) := by
  unfold simpleQuery
  have hne : ¬ F = a + 1 := by omega
  simp only [hne, if_false]
  rcases readLog_spec H l hl F (a + 1) mx (by omega) (by omega) with ⟨he, _⟩ | ⟨j, hj1, hj2, he⟩
  · rw [he]; exact Or.inl ⟨_, rfl⟩
  · rw [he]; exact Or.inr ⟨j, hj1, hj2, rfl⟩

/-- the entries shipped by a message list -/
def commandsOf (ms : List Msg) : List LEntry :=
  ms.flatMap (fun m => match m with
    | .commands es => es
    | _ => [])

/-- is the message a terminal one (everything except a batch of commands) -/
def Msg.isFinal : Msg → Bool
  | .commands _ => false
  | _ => true

/-- what is assumed of the query function the server loop is run with (proved for `Simple` and for
`Cached` with the cache invariant as `I`) -/
structure QExact {σ : Type} (H : Nat → LEntry) (a : Nat) (q : σ → Nat → Nat → Except LogErr (List LEntry) × σ)
    (I : σ → Prop) : Prop where
  exact : ∀ s F, I s → 0 < F → F ≤ a → Exact H F (a + 1) (q s F (a + 1)).1 ∧ I (q s F (a + 1)).2
  done : ∀ s, I s → (q s (a + 1) (a + 1)).1 = .ok [] ∧ I (q s (a + 1) (a + 1)).2

theorem replicateLoop_stream {σ : Type} (H : Nat → LEntry) (hH : IdxOK H) (a stale : Nat)
    (q : σ → Nat → Nat → Except LogErr (List LEntry) × σ) (I : σ → Prop) (hq : QExact H a q I) :
    ∀ (fuel : Nat) (s : σ) (F : Nat), I s → 0 < F → F ≤ a + 1 → a + 1 - F + 1 ≤ fuel →
    ∃ j, j ≤ a + 1 - F ∧ commandsOf (replicateLoop q stale fuel s F (a + 1)).1 = run H F j ∧
      I (replicateLoop q stale fuel s F (a + 1)).2 ∧
      (∃ m, (replicateLoop q stale fuel s F (a + 1)).1.getLast? = some m ∧ m.isFinal = true ∧
        (m = .upToDate stale → j = a + 1 - F) ∧ (j = a + 1 - F → m = .upToDate stale)) ∧
      (∀ m ∈ (replicateLoop q stale fuel s F (a + 1)).1.dropLast, ∃ es, m = .commands es ∧ es ≠ []) := by
  intro fuel
  induction fuel with
  | zero => intro s F _ _ _ hf; omega
  | succ fuel ih =>
    intro s F hI hF hFa hf
    by_cases hend : F = a + 1
    · -- nothing (more) to send: the final message with the applied index
      subst hend
      obtain ⟨hd, hI'⟩ := hq.done s hI
      have : q s (a + 1) (a + 1) = (.ok [], (q s (a + 1) (a + 1)).2) := by
        rw [← hd]
      simp only [replicateLoop]
      rw [this]
      simp only
      refine ⟨0, by omega, by simp [commandsOf, run], hI', ⟨.upToDate stale, rfl, rfl, ⟨fun _ => by omega, fun _ => rfl⟩⟩, ?_⟩
      intro m hm; simp at hm
    · obtain ⟨hex, hI'⟩ := hq.exact s F hI hF (by omega)
      rcases hex with ⟨e, he⟩ | ⟨j1, hj1, hj2, he⟩
      · -- an error of the log ends the stream
        have : q s F (a + 1) = (.error e, (q s F (a + 1)).2) := by rw [← he]
        simp only [replicateLoop]
        rw [this]
        cases e with
        | behind =>
          simp only
          refine ⟨0, by omega, by simp [commandsOf, run], hI', ⟨.leaderBehind, rfl, rfl, ⟨fun h => (by cases h), fun h => (by omega)⟩⟩, ?_⟩
          intro m hm; simp at hm
        | ahead =>
          simp only
          refine ⟨0, by omega, by simp [commandsOf, run], hI', ⟨.useSnapshot, rfl, rfl, ⟨fun h => (by cases h), fun h => (by omega)⟩⟩, ?_⟩
          intro m hm; simp at hm
      · -- a batch of commands, then the rest from the next index
        obtain ⟨j0, rfl⟩ : ∃ j0, j1 = j0 + 1 := ⟨j1 - 1, by omega⟩
        have hrun : run H F (j0 + 1) = H F :: run H (F + 1) j0 := run_succ H F j0
        have hq' : q s F (a + 1) = (.ok (H F :: run H (F + 1) j0), (q s F (a + 1)).2) := by
          rw [← hrun, ← he]
        simp only [replicateLoop]
        rw [hq']
        simp only
        have hnext : (((H F :: run H (F + 1) j0).getLast?.map (·.index)).getD 0 + 1) = F + (j0 + 1) := by
          rw [← hrun, getLast_index_run H hH F (j0 + 1) (by omega)]
          simp; omega
        rw [hnext]
        have hmin : min (F + (j0 + 1)) (a + 1) = F + (j0 + 1) := by omega
        rw [hmin]
        obtain ⟨j2, hj2', hcmd, hI2, ⟨m, hm1, hm2, hm3, hm4⟩, hinit⟩ :=
          ih (q s F (a + 1)).2 (F + (j0 + 1)) hI' (by omega) (by omega) (by omega)
        generalize hrest : replicateLoop q stale fuel (q s F (a + 1)).2 (F + (j0 + 1)) (a + 1) = rest at *
        obtain ⟨ms, s''⟩ := rest
        simp only at hcmd hI2 hm1 hinit ⊢
        have hmsne : ms ≠ [] := by intro h; rw [h] at hm1; simp at hm1
        refine ⟨(j0 + 1) + j2, by omega, ?_, hI2, ⟨m, ?_, hm2, fun h => by have := hm3 h; omega, fun h => hm4 (by omega)⟩, ?_⟩
        · simp only [commandsOf, List.flatMap_cons] at hcmd ⊢
          rw [hcmd, ← hrun, run_append]
        · rw [List.getLast?_cons_of_ne_nil hmsne]; exact hm1
        · intro m' hm'
          rw [List.dropLast_cons_of_ne_nil hmsne] at hm'
          simp only [List.mem_cons] at hm'
          rcases hm' with rfl | hm'
          · exact ⟨_, rfl, by simp⟩
          · exact hinit m' hm'

end Regatta.LogReader
