import Regatta.Model.Queue
/-
  The array heap of util/heap (model: `Queue.up`, `down`, `push`, `pop`, `heapify`):
  every operation permutes the slice; heap order is an invariant; the root is a minimum.
-/
namespace Regatta.Queue

theorem length_swap (l : Heap) (i j : Nat) : (swap l i j).length = l.length := by simp [swap]

theorem hget_eq (l : Heap) (i : Nat) (h : i < l.length) : hget l i = l[i] := by
  simp [hget, List.getD_eq_getElem?_getD, h]

theorem swap_perm (l : Heap) (i j : Nat) (hi : i < l.length) (hj : j < l.length) : (swap l i j).Perm l := by
  unfold swap
  rw [hget_eq l j hj, hget_eq l i hi]
  exact List.set_set_perm hi hj

theorem hget_swap (l : Heap) (i j k : Nat) (hi : i < l.length) (hj : j < l.length) :
    hget (swap l i j) k = if k = j then hget l i else if k = i then hget l j else hget l k := by
  unfold swap hget
  by_cases e1 : k = j
  · subst e1
    simp [List.getD_eq_getElem?_getD, List.getElem?_set, hi, hj]
  · by_cases e2 : k = i
    · subst e2
      have : ¬ j = k := fun h => e1 h.symm
      simp [List.getD_eq_getElem?_getD, List.getElem?_set, hi, hj, e1, this]
    · have h1 : ¬ j = k := fun h => e1 h.symm
      have h2 : ¬ i = k := fun h => e2 h.symm
      simp [List.getD_eq_getElem?_getD, List.getElem?_set, e1, e2, h1, h2]

/-! ### up -/

theorem parent_lt (j : Nat) (h : parent j ≠ j) : parent j < j := by unfold parent at *; omega
theorem parent_zero : parent 0 = 0 := rfl
theorem parent_eq_self (j : Nat) : parent j = j ↔ j = 0 := by unfold parent; omega

/-- more iterations than `j` change nothing -/
theorem upF_fuel (j : Nat) : ∀ (f : Nat) (l : Heap), j ≤ f → upF f l j = upF j l j := by
  induction j using Nat.strongRecOn with
  | _ j ih =>
    intro f l hf
    cases j with
    | zero =>
      cases f with
      | zero => rfl
      | succ f => simp [upF, parent]
    | succ k =>
      cases f with
      | zero => omega
      | succ f =>
        simp only [upF]
        split
        · rfl
        · split
          · rfl
          · rename_i h0 _
            have hp : parent (k + 1) < k + 1 := parent_lt _ h0
            rw [ih (parent (k + 1)) hp f _ (by omega), ih (parent (k + 1)) hp k _ (by omega)]

/-- one iteration of `up`, unfolded -/
theorem up_unfold (l : Heap) (j : Nat) :
    up l j = if parent j = j then l else
      if !less (hget l j) (hget l (parent j)) then l else up (swap l (parent j) j) (parent j) := by
  unfold up
  cases j with
  | zero => simp [upF, parent]
  | succ k =>
    simp only [upF]
    split
    · rfl
    · split
      · rfl
      · rename_i h0 _
        have hp : parent (k + 1) < k + 1 := parent_lt _ h0
        rw [upF_fuel (parent (k + 1)) k _ (by omega)]

theorem length_up (l : Heap) (j : Nat) : (up l j).length = l.length := by
  induction j using Nat.strongRecOn generalizing l with
  | _ j ih =>
    rw [up_unfold]
    split
    · rfl
    · split
      · rfl
      · rename_i h0 _
        rw [ih (parent j) (parent_lt j h0)]
        exact length_swap _ _ _

theorem up_perm (l : Heap) (j : Nat) (hj : j < l.length) : (up l j).Perm l := by
  induction j using Nat.strongRecOn generalizing l with
  | _ j ih =>
    rw [up_unfold]
    split
    · exact List.Perm.refl _
    · split
      · exact List.Perm.refl _
      · rename_i h0 _
        have hp := parent_lt j h0
        have hpl : parent j < l.length := by omega
        exact (ih (parent j) hp (swap l (parent j) j) (by rw [length_swap]; exact hpl)).trans
          (swap_perm l (parent j) j hpl hj)

/-- heap order on the first `n` positions: no element is smaller than its parent -/
def IsHeapN (l : Heap) (n : Nat) : Prop := ∀ k, 0 < k → k < n → (hget l (parent k)).rev ≤ (hget l k).rev

def IsHeap (l : Heap) : Prop := IsHeapN l l.length

/-- heap everywhere except possibly between `j` and its parent; children of `j` already dominate
`j`'s parent -/
def HeapExceptUp (l : Heap) (j : Nat) : Prop :=
  (∀ k, 0 < k → k < l.length → k ≠ j → (hget l (parent k)).rev ≤ (hget l k).rev) ∧
  (∀ c, 0 < c → c < l.length → parent c = j → 0 < j → (hget l (parent j)).rev ≤ (hget l c).rev)

theorem up_heap (l : Heap) (j : Nat) (hj : j < l.length) (h : HeapExceptUp l j) : IsHeap (up l j) := by
  induction j using Nat.strongRecOn generalizing l with
  | _ j ih =>
    obtain ⟨h1, h2⟩ := h
    rw [up_unfold]
    split
    · rename_i h0
      have hj0 : j = 0 := (parent_eq_self j).mp h0
      subst hj0
      intro k hk hkl
      exact h1 k hk hkl (by omega)
    · rename_i h0
      have hpj : parent j < j := parent_lt j h0
      have hpl : parent j < l.length := by omega
      split
      · rename_i hge
        intro k hk hkl
        by_cases e : k = j
        · subst e
          simp only [less, Bool.not_eq_true', decide_eq_false_iff_not, Nat.not_lt] at hge
          exact hge
        · exact h1 k hk hkl e
      · rename_i hlt
        simp only [less, Bool.not_eq_true', decide_eq_false_iff_not, Nat.not_lt, Nat.not_le] at hlt
        apply ih (parent j) hpj (swap l (parent j) j) (by rw [length_swap]; exact hpl)
        constructor
        · intro k hk hkl hne
          rw [length_swap] at hkl
          rw [hget_swap _ _ _ _ hpl hj, hget_swap _ _ _ _ hpl hj]
          by_cases e1 : k = j
          · subst e1
            have : parent k ≠ k := by omega
            simp only [this, if_false, if_true]
            omega
          · simp only [e1, if_false, hne, if_false]
            by_cases e2 : parent k = j
            · simp only [e2, if_true]
              exact h2 k hk hkl e2 (by omega)
            · simp only [e2, if_false]
              by_cases e3 : parent k = parent j
              · simp only [e3, if_true]
                have := h1 k hk hkl e1
                rw [e3] at this
                omega
              · simp only [e3, if_false]
                exact h1 k hk hkl e1
        · intro c hc hcl hpc hp0
          rw [length_swap] at hcl
          rw [hget_swap _ _ _ _ hpl hj, hget_swap _ _ _ _ hpl hj]
          have hpp : parent (parent j) ≠ j := by unfold parent at *; omega
          have hpp2 : parent (parent j) ≠ parent j := by unfold parent at *; omega
          simp only [hpp, if_false, hpp2]
          by_cases e1 : c = j
          · simp only [e1, if_true]
            exact h1 (parent j) hp0 hpl (by omega)
          · simp only [e1, if_false]
            have e2 : c ≠ parent j := by
              intro e; rw [e] at hpc; unfold parent at *; omega
            simp only [e2, if_false]
            have a := h1 c hc hcl e1
            rw [hpc] at a
            have b := h1 (parent j) hp0 hpl (by omega)
            omega

theorem hget_append_left (l : Heap) (x : Item) (k : Nat) (h : k < l.length) : hget (l ++ [x]) k = hget l k := by
  simp [hget, List.getD_eq_getElem?_getD, List.getElem?_append_left h]

/-- `Push` keeps heap order -/
theorem push_heap (l : Heap) (x : Item) (h : IsHeap l) : IsHeap (push l x) := by
  unfold push
  apply up_heap
  · simp
  · constructor
    · intro k hk hkl hne
      have hkl' : k < l.length := by simp at hkl; omega
      have hp : parent k < l.length := by unfold parent; omega
      rw [hget_append_left l x k hkl', hget_append_left l x (parent k) hp]
      exact h k hk hkl'
    · intro c _ hcl hpc _
      -- the new last position has no children
      simp at hcl
      unfold parent at hpc; omega

theorem push_perm (l : Heap) (x : Item) : (push l x).Perm (l ++ [x]) := by
  unfold push
  exact up_perm (l ++ [x]) l.length (by simp)

theorem push_length (l : Heap) (x : Item) : (push l x).length = l.length + 1 := by
  unfold push; rw [length_up]; simp

/-! ### down -/

theorem child_gt (l : Heap) (i n : Nat) : i < child l i n := by unfold child; split <;> omega
theorem child_lt (l : Heap) (i n : Nat) (h : 2 * i + 1 < n) : child l i n < n := by unfold child; split <;> omega

/-- more iterations than `n - i` change nothing -/
theorem downF_fuel (n : Nat) : ∀ (m : Nat) (f : Nat) (l : Heap) (i : Nat), n - i = m → m ≤ f →
    downF f l i n = downF m l i n := by
  intro m
  induction m using Nat.strongRecOn with
  | _ m ih =>
    intro f l i hm hf
    cases m with
    | zero =>
      cases f with
      | zero => rfl
      | succ f =>
        have : 2 * i + 1 ≥ n := by omega
        simp [downF, this]
    | succ k =>
      cases f with
      | zero => omega
      | succ f =>
        simp only [downF]
        split
        · rfl
        · split
          · rfl
          · rename_i h1 _
            have hg := child_gt l i n
            have hl := child_lt l i n (by omega)
            rw [ih (n - child l i n) (by omega) f _ _ rfl (by omega), ih (n - child l i n) (by omega) k _ _ rfl (by omega)]

/-- one iteration of `down`, unfolded -/
theorem down_unfold (l : Heap) (i n : Nat) :
    down l i n = if 2 * i + 1 ≥ n then (l, i) else
      if !less (hget l (child l i n)) (hget l i) then (l, i)
      else down (swap l i (child l i n)) (child l i n) n := by
  unfold down
  cases hm : n - i with
  | zero =>
    have : 2 * i + 1 ≥ n := by omega
    simp [downF, this]
  | succ k =>
    simp only [downF]
    split
    · rfl
    · split
      · rfl
      · rename_i h1 _
        have hg := child_gt l i n
        have hl := child_lt l i n (by omega)
        rw [downF_fuel n (n - child l i n) k _ _ rfl (by omega)]

theorem length_down (l : Heap) (i n : Nat) : (down l i n).1.length = l.length := by
  induction hm : n - i using Nat.strongRecOn generalizing l i with
  | _ m ih =>
    rw [down_unfold]
    split
    · rfl
    · split
      · rfl
      · rename_i h1 _
        have hg := child_gt l i n
        have hl := child_lt l i n (by omega)
        rw [ih (n - child l i n) (by omega) (swap l i (child l i n)) (child l i n) rfl]
        exact length_swap _ _ _

theorem down_perm (l : Heap) (i n : Nat) (hn : n ≤ l.length) : (down l i n).1.Perm l := by
  induction hm : n - i using Nat.strongRecOn generalizing l i with
  | _ m ih =>
    rw [down_unfold]
    split
    · exact List.Perm.refl _
    · split
      · exact List.Perm.refl _
      · rename_i h1 _
        have hg := child_gt l i n
        have hl := child_lt l i n (by omega)
        exact (ih (n - child l i n) (by omega) (swap l i (child l i n)) (child l i n)
          (by rw [length_swap]; exact hn) rfl).trans (swap_perm l i (child l i n) (by omega) (by omega))

/-- `down` does not touch positions `≥ n` nor positions `< i` -/
theorem down_get_outside (l : Heap) (i n : Nat) (hn : n ≤ l.length) (k : Nat) (hk : k ≥ n ∨ k < i) :
    hget (down l i n).1 k = hget l k := by
  induction hm : n - i using Nat.strongRecOn generalizing l i with
  | _ m ih =>
    rw [down_unfold]
    split
    · rfl
    · split
      · rfl
      · rename_i h1 _
        have hg := child_gt l i n
        have hl := child_lt l i n (by omega)
        rw [ih (n - child l i n) (by omega) (swap l i (child l i n)) (child l i n)
          (by rw [length_swap]; exact hn) (by omega) rfl]
        rw [hget_swap l i (child l i n) k (by omega) (by omega)]
        have e1 : k ≠ child l i n := by omega
        have e2 : k ≠ i := by omega
        simp [e1, e2]

/-- position `k` is ordered with respect to its parent -/
def Ord (l : Heap) (k : Nat) : Prop := (hget l (parent k)).rev ≤ (hget l k).rev

/-- heap order among the first `n` positions for all positions whose parent is at or beyond `lo`,
except possibly below `i`; the children of `i` already dominate `i`'s parent -/
def HeapFromExcept (l : Heap) (n lo i : Nat) : Prop :=
  (∀ k, 0 < k → k < n → lo ≤ parent k → parent k ≠ i → Ord l k) ∧
  (∀ c, 0 < c → c < n → parent c = i → 0 < i → lo ≤ parent i → (hget l (parent i)).rev ≤ (hget l c).rev)

def HeapFrom (l : Heap) (n lo : Nat) : Prop := ∀ k, 0 < k → k < n → lo ≤ parent k → Ord l k

theorem parent_child_cases (k i : Nat) (hk : 0 < k) : parent k = i ↔ (k = 2 * i + 1 ∨ k = 2 * i + 2) := by
  unfold parent; omega

theorem down_heap (l : Heap) (i n lo : Nat) (hn : n ≤ l.length) (hlo : lo ≤ i)
    (h : HeapFromExcept l n lo i) : HeapFrom (down l i n).1 n lo := by
  induction hm : n - i using Nat.strongRecOn generalizing l i with
  | _ m ih =>
    obtain ⟨h1, h2⟩ := h
    rw [down_unfold]
    split
    · -- no child inside the heap
      rename_i hnc
      intro k hk hkn hlok
      by_cases e : parent k = i
      · have := (parent_child_cases k i hk).mp e; omega
      · exact h1 k hk hkn hlok e
    · rename_i hc
      have hc' : 2 * i + 1 < n := by omega
      have hg := child_gt l i n
      have hl := child_lt l i n hc'
      have hil : i < l.length := by omega
      have hcl : child l i n < l.length := by omega
      -- the chosen child is the smaller one
      have hmin : ∀ c, 0 < c → c < n → parent c = i → (hget l (child l i n)).rev ≤ (hget l c).rev := by
        intro c hc0 hcn hpc
        have := (parent_child_cases c i hc0).mp hpc
        unfold child
        split
        · rename_i hcond
          simp only [less, decide_eq_true_eq] at hcond
          rcases this with rfl | rfl
          · omega
          · exact Nat.le_refl _
        · rename_i hcond
          simp only [less, decide_eq_true_eq, not_and, Nat.not_lt] at hcond
          rcases this with rfl | rfl
          · exact Nat.le_refl _
          · exact hcond hcn
      have hpc : parent (child l i n) = i := by
        rw [parent_child_cases _ _ (by omega)]; unfold child; split <;> omega
      split
      · -- the element at `i` is not larger than its smaller child: done
        rename_i hge
        simp only [less, Bool.not_eq_true', decide_eq_false_iff_not, Nat.not_lt] at hge
        intro k hk hkn hlok
        by_cases e : parent k = i
        · unfold Ord; rw [e]
          exact Nat.le_trans hge (hmin k hk hkn e)
        · exact h1 k hk hkn hlok e
      · rename_i hlt
        simp only [less, Bool.not_eq_true', decide_eq_false_iff_not, Nat.not_lt, Nat.not_le] at hlt
        generalize hcdef : child l i n = c at *
        apply ih (n - c) (by omega) (swap l i c) c (by rw [length_swap]; exact hn) (by omega) _ rfl
        constructor
        · intro k hk hkn hlok hne
          unfold Ord
          rw [hget_swap _ _ _ _ hil hcl, hget_swap _ _ _ _ hil hcl]
          by_cases e1 : k = c
          · -- the child itself: now holds the old parent, which is larger
            subst e1
            have hik : ¬ i = k := by omega
            simp only [hpc, if_true, hik, if_false]
            omega
          · simp only [e1, if_false]
            by_cases e2 : k = i
            · -- position i: now holds the child; its parent is untouched
              subst e2
              have hpk : parent k ≠ c := by have := parent_lt k (by unfold parent; omega); omega
              have hpk2 : parent k ≠ k := by unfold parent; omega
              simp only [if_true, hpk, if_false, hpk2]
              exact h2 c (by omega) (by omega) hpc hk hlok
            · simp only [e2, if_false]
              by_cases e3 : parent k = i
              · -- the sibling
                simp only [e3, if_true, hne, if_false]
                have := hmin k hk hkn e3
                rw [if_neg (by omega : ¬ i = c)]
                exact this
              · simp only [hne, if_false, e3]
                exact h1 k hk hkn hlok e3
        · intro d hd hdn hpd _ _
          rw [hget_swap _ _ _ _ hil hcl, hget_swap _ _ _ _ hil hcl]
          have e1 : d ≠ c := by have := parent_lt d (by unfold parent; omega); omega
          have e2 : d ≠ i := by have := parent_lt d (by unfold parent; omega); omega
          simp only [hpc, e1, e2, if_false, if_true]
          rw [if_neg (by omega : ¬ i = c)]
          -- old heap order between c and its child d
          have := h1 d hd hdn (by rw [hpd]; omega) (by rw [hpd]; omega)
          unfold Ord at this; rw [hpd] at this; exact this

/-! ### pop, heapify, the root -/

theorem hget_dropLast (l : Heap) (k : Nat) (h : k + 1 < l.length) : hget l.dropLast k = hget l k := by
  simp only [hget, List.getD_eq_getElem?_getD]
  rw [List.getElem?_dropLast]
  have : k < l.length - 1 := by omega
  simp [this]

/-- the element `Pop` returns is the root -/
theorem pop_item (l : Heap) (hne : l ≠ []) : (pop l).2 = hget l 0 := by
  have hlen : 0 < l.length := List.length_pos_iff.mpr hne
  unfold pop
  simp only
  rw [down_get_outside _ 0 _ (by rw [length_swap]; omega) _ (Or.inl (Nat.le_refl _))]
  rw [hget_swap l 0 (l.length - 1) (l.length - 1) hlen (by omega)]
  simp

/-- `Pop` removes exactly the root: what remains, with the root put back, is a permutation -/
theorem pop_perm (l : Heap) (hne : l ≠ []) : ((pop l).1 ++ [hget l 0]).Perm l := by
  have hlen : 0 < l.length := List.length_pos_iff.mpr hne
  have hitem := pop_item l hne
  unfold pop at hitem ⊢
  simp only at hitem ⊢
  generalize hl1 : (down (swap l 0 (l.length - 1)) 0 (l.length - 1)).1 = l1 at *
  have hlen1 : l1.length = l.length := by rw [← hl1, length_down, length_swap]
  have hperm : l1.Perm l := by
    rw [← hl1]
    exact (down_perm _ 0 _ (by rw [length_swap]; omega)).trans (swap_perm l 0 (l.length - 1) hlen (by omega))
  have hne1 : l1 ≠ [] := by intro h; rw [h] at hlen1; simp at hlen1; omega
  have hlast : l1.getLast hne1 = hget l 0 := by
    rw [← hitem, hget_eq l1 (l.length - 1) (by omega)]
    rw [List.getLast_eq_getElem]
    congr 1; omega
  have : l1.dropLast ++ [hget l 0] = l1 := by
    rw [← hlast]; exact List.dropLast_concat_getLast hne1
  rw [this]; exact hperm

theorem pop_length (l : Heap) (hne : l ≠ []) : (pop l).1.length = l.length - 1 := by
  unfold pop; simp only [List.length_dropLast, length_down, length_swap]

/-- `Pop` keeps heap order -/
theorem pop_heap (l : Heap) (hne : l ≠ []) (h : IsHeap l) : IsHeap (pop l).1 := by
  have hlen : 0 < l.length := List.length_pos_iff.mpr hne
  unfold pop
  simp only
  generalize hn : l.length - 1 = n
  have hfrom : HeapFrom (down (swap l 0 n) 0 n).1 n 0 := by
    apply down_heap _ 0 n 0 (by rw [length_swap]; omega) (Nat.le_refl _)
    constructor
    · intro k hk hkn _ hpk
      unfold Ord
      have hp : parent k < k := parent_lt k (by unfold parent; omega)
      rw [hget_swap l 0 n _ hlen (by omega), hget_swap l 0 n _ hlen (by omega)]
      have e1 : k ≠ n := by omega
      have e2 : k ≠ 0 := by omega
      have e3 : parent k ≠ n := by omega
      simp only [e1, e2, e3, hpk, if_false]
      exact h k hk (by omega)
    · intro c _ _ _ h0; omega
  intro k hk hkl
  rw [List.length_dropLast, length_down, length_swap] at hkl
  have hp : parent k < k := parent_lt k (by unfold parent; omega)
  rw [hget_dropLast _ _ (by rw [length_down, length_swap]; omega),
    hget_dropLast _ _ (by rw [length_down, length_swap]; omega)]
  exact hfrom k hk (by omega) (Nat.zero_le _)

theorem heapify_aux (n : Nat) : ∀ (m : Nat) (l : Heap), l.length = n → HeapFrom l n m →
    let r := (List.range m).reverse.foldl (fun acc i => (down acc i n).1) l
    HeapFrom r n 0 ∧ r.Perm l ∧ r.length = n := by
  intro m
  induction m with
  | zero => intro l hl hf; exact ⟨hf, List.Perm.refl _, hl⟩
  | succ m ih =>
    intro l hl hf
    simp only [List.range_succ, List.reverse_append, List.reverse_cons, List.reverse_nil, List.nil_append,
      List.singleton_append, List.foldl_cons]
    have hstep : HeapFrom (down l m n).1 n m := by
      apply down_heap l m n m (by omega) (Nat.le_refl _)
      constructor
      · intro k hk hkn hlok hne
        exact hf k hk hkn (by omega)
      · intro c _ _ _ h0 hlop
        have := parent_lt m (by unfold parent; omega); omega
    have := ih (down l m n).1 (by rw [length_down]; exact hl) hstep
    exact ⟨this.1, this.2.1.trans (down_perm l m n (by omega)), this.2.2⟩

/-- `New` establishes heap order and permutes its input -/
theorem heapify_heap (l : Heap) : IsHeap (heapify l) ∧ (heapify l).Perm l := by
  unfold heapify
  have hstart : HeapFrom l l.length (l.length / 2) := by
    intro k hk hkn hlo
    unfold parent at hlo; omega
  have := heapify_aux l.length (l.length / 2) l rfl hstart
  simp only at this
  refine ⟨?_, this.2.1⟩
  intro k hk hkl
  rw [this.2.2] at hkl
  exact this.1 k hk hkl (Nat.zero_le _)

/-- in a heap the root is a minimum -/
theorem root_min (l : Heap) (h : IsHeap l) (k : Nat) (hk : k < l.length) : (hget l 0).rev ≤ (hget l k).rev := by
  induction k using Nat.strongRecOn with
  | _ k ih =>
    by_cases h0 : k = 0
    · subst h0; exact Nat.le_refl _
    · have hp : parent k < k := parent_lt k (by unfold parent; omega)
      exact Nat.le_trans (ih (parent k) hp (by omega)) (h k (by omega) hk)

theorem root_min_mem (l : Heap) (h : IsHeap l) (x : Item) (hx : x ∈ l) : (hget l 0).rev ≤ x.rev := by
  obtain ⟨k, hk, rfl⟩ := List.getElem_of_mem hx
  rw [← hget_eq l k hk]
  exact root_min l h k hk

end Regatta.Queue
