import Regatta.Proofs.MetaStore
/-
  Invariants of the system "several managers over one metadata store", for every interleaving of
  their store calls (`System.run`).
-/
namespace Regatta.Meta

/-- equality of worlds up to the ghost history -/
def SameReal (a b : World) : Prop := a.store = b.store ∧ a.index = b.index ∧ a.now = b.now

theorem SameReal.rfl' (a : World) : SameReal a a := ⟨rfl, rfl, rfl⟩

/-- a step of a call either leaves the world alone or is one proposal (up to the ghost history) -/
theorem step_world (w : World) (c : Call) :
    SameReal (w.step c).1 w ∨ ∃ u, SameReal (w.step c).1 (w.propose u).1 := by
  cases c with
  | createStart name =>
    simp only [World.step]; split; · exact Or.inl (SameReal.rfl' _)
    split <;> exact Or.inl (SameReal.rfl' _)
  | createGetSeq name k =>
    simp only [World.step]; split <;> exact Or.inl (SameReal.rfl' _)
  | createSetSeq name cur ver k =>
    simp only [World.step]
    right; refine ⟨⟨.set, sequenceKey, .seq (cur + 1), ver⟩, ?_⟩
    split
    · rename_i heq; rw [heq]; exact ⟨rfl, rfl, rfl⟩
    · rename_i heq; rw [heq]; exact ⟨rfl, rfl, rfl⟩
  | restoreStart name =>
    simp only [World.step]; split; · exact Or.inl (SameReal.rfl' _)
    split <;> exact Or.inl (SameReal.rfl' _)
  | restoreMark name tbl tver id =>
    simp only [World.step]
    right; refine ⟨⟨.set, tableKey name, .table ⟨name, tbl.clusterID, id⟩, tver⟩, ?_⟩
    split <;> (rename_i heq; rw [heq]; exact ⟨rfl, rfl, rfl⟩)
  | restoreReread name id =>
    simp only [World.step]; split <;> exact Or.inl (SameReal.rfl' _)
  | restoreSwitch name id tbl ver =>
    simp only [World.step]
    right; refine ⟨⟨.set, tableKey name, .table ⟨tbl.name, id, 0⟩, ver⟩, ?_⟩
    split <;> (rename_i heq; rw [heq]; exact ⟨rfl, rfl, rfl⟩)
  | createSetRec name id =>
    simp only [World.step]
    right; refine ⟨⟨.set, tableKey name, .table ⟨name, id, 0⟩, 0⟩, ?_⟩
    split <;> (rename_i heq; rw [heq]; exact ⟨rfl, rfl, rfl⟩)
  | deleteStart name =>
    simp only [World.step]; split; · exact Or.inl (SameReal.rfl' _)
    split <;> exact Or.inl (SameReal.rfl' _)
  | deleteDel name ver =>
    simp only [World.step]
    right; refine ⟨⟨.delete, tableKey name, .none_, ver⟩, ?_⟩
    split <;> (rename_i heq; rw [heq]; exact ⟨rfl, rfl, rfl⟩)
  | leaseStart node name dur =>
    simp only [World.step]; split
    · exact Or.inl (SameReal.rfl' _)
    · split <;> exact Or.inl (SameReal.rfl' _)
    · exact Or.inl (SameReal.rfl' _)
  | leaseSet node name dur rv =>
    simp only [World.step]
    right; refine ⟨⟨.set, leaseKey name, .lease ⟨node, w.now + dur⟩, rv⟩, ?_⟩
    split <;> (rename_i heq; rw [heq]; exact ⟨rfl, rfl, rfl⟩)
  | returnStart node name =>
    simp only [World.step]; split
    · exact Or.inl (SameReal.rfl' _)
    · split <;> exact Or.inl (SameReal.rfl' _)
    · exact Or.inl (SameReal.rfl' _)
  | returnDel node name ver =>
    simp only [World.step]
    right; refine ⟨⟨.delete, leaseKey name, .none_, ver⟩, ?_⟩
    split <;> (rename_i heq; rw [heq]; exact ⟨rfl, rfl, rfl⟩)
  | doneTable t => exact Or.inl (SameReal.rfl' _)
  | doneOk => exact Or.inl (SameReal.rfl' _)
  | doneBool b => exact Or.inl (SameReal.rfl' _)
  | doneErr e => exact Or.inl (SameReal.rfl' _)

theorem propose_now (w : World) (u : Upd CVal) : (w.propose u).1.now = w.now := rfl
theorem propose_index (w : World) (u : Upd CVal) : (w.propose u).1.index = w.index + 1 := rfl
theorem propose_store (w : World) (u : Upd CVal) : (w.propose u).1.store = (applyUpd w.store w.index u).1 := rfl

/-- basic world invariant: stored versions are indices of past proposals, all ≥ 1 -/
structure WInv (w : World) : Prop where
  below : VersBelow w.store w.index
  pos : ∀ p ∈ w.store, 1 ≤ p.ver
  idx : 1 ≤ w.index

theorem winv_init : WInv {} := ⟨fun p hp => (by cases hp), fun p hp => (by cases hp), Nat.le_refl 1⟩

theorem pos_applyUpd (s : Store CVal) (i : Nat) (u : Upd CVal) (hi : 1 ≤ i) (h : ∀ p ∈ s, 1 ≤ p.ver) :
    ∀ p ∈ (applyUpd s i u).1, 1 ≤ p.ver := by
  intro p hp
  rcases applyUpd_cases s i u with ⟨he, _⟩ | ⟨cur, _, _, he⟩
  · rw [he] at hp
    unfold applyOp at hp
    cases hop : u.op with
    | set =>
      simp only [hop, Store.put, List.mem_cons, List.mem_filter] at hp
      rcases hp with rfl | ⟨hp, _⟩
      · exact hi
      · exact h p hp
    | delete =>
      simp only [hop, Store.erase, List.mem_filter] at hp
      exact h p hp.1
    | other => simp only [hop] at hp; exact h p hp
  · rw [he] at hp; exact h p hp

theorem winv_propose (w : World) (u : Upd CVal) (h : WInv w) : WInv (w.propose u).1 :=
  ⟨by rw [propose_store, propose_index]; exact versBelow_applyUpd _ _ _ u h.below (Nat.lt_succ_self _),
   by rw [propose_store]; exact pos_applyUpd _ _ u h.idx h.pos,
   by rw [propose_index]; exact Nat.le_succ_of_le h.idx⟩

theorem WInv.congr {a b : World} (h : WInv b) (e : SameReal a b) : WInv a :=
  ⟨by rw [e.1, e.2.1]; exact h.below, by rw [e.1]; exact h.pos, by rw [e.2.1]; exact h.idx⟩

theorem winv_step (w : World) (c : Call) (h : WInv w) : WInv (w.step c).1 := by
  rcases step_world w c with he | ⟨u, he⟩
  · exact h.congr he
  · exact (winv_propose w u h).congr he

/-! ### the lease -/

/-- the decision a pending `LeaseTable` call took is still justified whenever the record it read is
still the current one: the record is absent, or carries another version, or names the caller, or is
expired -/
def LeaseOK (w : World) : Call → Prop
  | .leaseSet node name _ rv =>
    rv < w.index ∧
    ∀ p, w.store.get? (leaseKey name) = some p → p.ver = rv →
      ∃ l, p.value = .lease l ∧ (l.id = node ∨ l.expires < w.now)
  | _ => True

structure LInv (s : System) : Prop where
  w : WInv s.w
  calls : ∀ e ∈ s.calls, LeaseOK s.w e.2

theorem linv_init : LInv {} := ⟨winv_init, fun e he => by cases he⟩

/-- a proposal of anybody keeps every pending decision justified: it either does not touch the
record, or replaces / removes it under a fresh version -/
theorem leaseOK_propose (w : World) (hw : WInv w) (u : Upd CVal) (c : Call) (h : LeaseOK w c) :
    LeaseOK (w.propose u).1 c := by
  cases c with
  | leaseSet node name dur rv =>
    obtain ⟨h1, h2⟩ := h
    refine ⟨by rw [propose_index]; omega, ?_⟩
    intro p hp hv
    rw [propose_store] at hp
    rcases applyUpd_get? w.store w.index u (leaseKey name) with hg | ⟨_, hg, _, _⟩ | ⟨_, hg, _, _⟩
    · rw [hg] at hp
      rw [propose_now]; exact h2 p hp hv
    · rw [hg] at hp; injection hp with hp; subst hp
      simp only at hv; omega
    · rw [hg] at hp; cases hp
  | _ => trivial

theorem leaseOK_tick (w : World) (d : Nat) (c : Call) (h : LeaseOK w c) :
    LeaseOK { w with now := w.now + d } c := by
  cases c with
  | leaseSet node name dur rv =>
    obtain ⟨h1, h2⟩ := h
    refine ⟨h1, ?_⟩
    intro p hp hv
    obtain ⟨l, hl, hor⟩ := h2 p hp hv
    refine ⟨l, hl, ?_⟩
    rcases hor with h | h
    · exact Or.inl h
    · right; show l.expires < w.now + (d : Int); omega
  | _ => trivial

theorem leaseOK_afterSeq (w : World) (name : String) (id : Nat) (k : Purpose) : LeaseOK w (afterSeq name id k) := by
  cases k <;> trivial

/-- the state a call moves to is justified -/
theorem leaseOK_step_self (w : World) (hw : WInv w) (c : Call) (h : LeaseOK w c) :
    LeaseOK (w.step c).1 (w.step c).2 := by
  cases c with
  | leaseStart node name dur =>
    simp only [World.step]
    split
    · rename_i hg
      exact ⟨hw.idx, fun p hp _ => by rw [hg] at hp; cases hp⟩
    · rename_i k l ver hg
      split
      · rename_i hdec
        refine ⟨?_, ?_⟩
        · exact hw.below _ (get?_mem _ _ _ hg)
        · intro p hp _
          rw [hg] at hp; injection hp with hp; subst hp
          exact ⟨l, rfl, hdec⟩
      · trivial
    · trivial
  | leaseSet node name dur rv => simp only [World.step]; split <;> trivial
  | createStart name => simp only [World.step]; split; · trivial
                        split <;> trivial
  | createGetSeq name k => simp only [World.step]; split <;> trivial
  | createSetSeq name cur ver k =>
    simp only [World.step]; split
    · exact leaseOK_afterSeq _ _ _ _
    · trivial
  | createSetRec name id => simp only [World.step]; split <;> trivial
  | restoreStart name => simp only [World.step]; split; · trivial
                         split <;> trivial
  | restoreMark name tbl tver id => simp only [World.step]; split <;> trivial
  | restoreReread name id => simp only [World.step]; split <;> trivial
  | restoreSwitch name id tbl ver => simp only [World.step]; split <;> trivial
  | deleteStart name => simp only [World.step]; split; · trivial
                        split <;> trivial
  | deleteDel name ver => simp only [World.step]; split <;> trivial
  | returnStart node name =>
    simp only [World.step]; split
    · trivial
    · split <;> trivial
    · trivial
  | returnDel node name ver => simp only [World.step]; split <;> trivial
  | doneTable t => trivial
  | doneOk => trivial
  | doneBool b => trivial
  | doneErr e => trivial

theorem LeaseOK.congr {a b : World} {c : Call} (h : LeaseOK b c) (e : SameReal a b) : LeaseOK a c := by
  cases c with
  | leaseSet node name dur rv =>
    obtain ⟨h1, h2⟩ := h
    exact ⟨by rw [e.2.1]; exact h1, by rw [e.1, e.2.2]; exact h2⟩
  | _ => trivial

theorem leaseOK_step_other (w : World) (hw : WInv w) (c other : Call) (h : LeaseOK w other) :
    LeaseOK (w.step c).1 other := by
  rcases step_world w c with he | ⟨u, he⟩
  · exact h.congr he
  · exact (leaseOK_propose w hw u other h).congr he

theorem linv_ev (s : System) (e : Ev) (h : LInv s) : LInv (s.ev e) := by
  cases e with
  | start id c =>
    simp only [System.ev]
    split
    · rename_i hinit
      refine ⟨h.w, ?_⟩
      intro x hx
      simp only [List.mem_cons, List.mem_filter] at hx
      rcases hx with rfl | ⟨hx, _⟩
      · cases c <;> first | trivial | (simp [Call.isInitial] at hinit)
      · exact h.calls x hx
    · exact h
  | sched id =>
    simp only [System.ev]
    split
    · rename_i c hfind
      have hmem : (id, c) ∈ s.calls := by
        have := List.mem_of_find?_eq_some hfind
        have hk := List.find?_some hfind
        simp only [beq_iff_eq] at hk
        rename_i id'
        subst hk
        exact this
      refine ⟨winv_step s.w c h.w, ?_⟩
      intro x hx
      simp only [List.mem_cons, List.mem_filter] at hx
      rcases hx with rfl | ⟨hx, _⟩
      · exact leaseOK_step_self s.w h.w c (h.calls _ hmem)
      · exact leaseOK_step_other s.w h.w c x.2 (h.calls x hx)
    · exact h
  | tick d =>
    simp only [System.ev]
    refine ⟨⟨h.w.below, h.w.pos, h.w.idx⟩, ?_⟩
    intro x hx
    exact leaseOK_tick s.w d x.2 (h.calls x hx)

theorem linv_run (evs : List Ev) (s : System) (h : LInv s) : LInv (s.run evs) := by
  induction evs generalizing s with
  | nil => exact h
  | cons e rest ih => exact ih _ (linv_ev s e h)

end Regatta.Meta
