import Regatta.Model.LogReader
/-
  Contiguous runs of log entries and how the cache primitives act on them.
-/
namespace Regatta.LogReader

/-- `k` consecutive entries of the history starting at index `s` -/
def run (H : Nat → LEntry) (s k : Nat) : List LEntry := (List.range' s k).map H

/-- the history stores entry `i` under index `i` -/
def IdxOK (H : Nat → LEntry) : Prop := ∀ i, (H i).index = i

theorem run_zero (H : Nat → LEntry) (s : Nat) : run H s 0 = [] := rfl

theorem run_succ (H : Nat → LEntry) (s k : Nat) : run H s (k + 1) = H s :: run H (s + 1) k := by
  simp [run, List.range'_succ]

theorem run_length (H : Nat → LEntry) (s k : Nat) : (run H s k).length = k := by simp [run]

theorem run_eq_nil (H : Nat → LEntry) (s k : Nat) : run H s k = [] ↔ k = 0 := by
  simp [run]

theorem run_append (H : Nat → LEntry) (s a b : Nat) : run H s a ++ run H (s + a) b = run H s (a + b) := by
  unfold run
  rw [← List.map_append]
  congr 1
  have := @List.range'_append s a b 1
  simpa using this

theorem take_run (H : Nat → LEntry) (s k j : Nat) : (run H s k).take j = run H s (min j k) := by
  induction k generalizing s j with
  | zero => simp [run]
  | succ k ih =>
    cases j with
    | zero => simp [run]
    | succ j =>
      rw [run_succ, List.take_succ_cons, ih]
      have : min (j + 1) (k + 1) = min j k + 1 := by omega
      rw [this, run_succ]

theorem drop_run (H : Nat → LEntry) (s k j : Nat) : (run H s k).drop j = run H (s + j) (k - j) := by
  unfold run
  rw [← List.map_drop, List.drop_range']
  simp

theorem head_run (H : Nat → LEntry) (s k : Nat) (hk : 0 < k) : (run H s k).head? = some (H s) := by
  cases k with
  | zero => omega
  | succ k => rw [run_succ]; rfl

theorem getLast_run (H : Nat → LEntry) (s k : Nat) (hk : 0 < k) : (run H s k).getLast? = some (H (s + k - 1)) := by
  unfold run
  rw [List.getLast?_map, List.getLast?_range']
  have : k ≠ 0 := by omega
  simp [this]

theorem mem_run (H : Nat → LEntry) (s k : Nat) (e : LEntry) : e ∈ run H s k ↔ ∃ i, s ≤ i ∧ i < s + k ∧ e = H i := by
  unfold run
  simp only [List.mem_map, List.mem_range'_1]
  constructor
  · rintro ⟨i, ⟨h1, h2⟩, rfl⟩; exact ⟨i, h1, h2, rfl⟩
  · rintro ⟨i, h1, h2, rfl⟩; exact ⟨i, ⟨h1, h2⟩, rfl⟩

/-- entries of a run before the first one whose index is at least `F` -/
theorem takeWhile_lt_run (H : Nat → LEntry) (hH : IdxOK H) (s k F : Nat) :
    (run H s k).takeWhile (fun e => !decide (e.index ≥ F)) = run H s (min k (F - s)) := by
  induction k generalizing s with
  | zero => simp [run]
  | succ k ih =>
    rw [run_succ, List.takeWhile_cons]
    by_cases h : s ≥ F
    · have : min (k + 1) (F - s) = 0 := by omega
      simp [hH s, h, this, run]
    · have h1 : min (k + 1) (F - s) = min k (F - (s + 1)) + 1 := by omega
      simp only [hH s, h, decide_false, Bool.not_false, if_true]
      rw [ih, h1, run_succ]

theorem findIndex_ge_run (H : Nat → LEntry) (hH : IdxOK H) (s k F : Nat) :
    findIndex (run H s k) (fun idx => decide (idx ≥ F)) = min k (F - s) := by
  unfold findIndex
  rw [takeWhile_lt_run H hH, run_length]

theorem findIndex_gt_run (H : Nat → LEntry) (hH : IdxOK H) (s k m : Nat) :
    findIndex (run H s k) (fun idx => decide (idx > m)) = min k (m + 1 - s) := by
  have : (fun idx => decide (idx > m)) = (fun idx => decide (idx ≥ m + 1)) := by
    funext idx; simp; omega
  rw [this, findIndex_ge_run H hH]

/-! ### fixSize returns a non-empty prefix -/

theorem fixRest_prefix (rest : List LEntry) (size max : Nat) : ∃ j, fixRest rest size max = rest.take j := by
  induction rest generalizing size with
  | nil => exact ⟨0, rfl⟩
  | cons e r ih =>
    unfold fixRest
    split
    · exact ⟨0, rfl⟩
    · obtain ⟨j, hj⟩ := ih (size + e.size)
      exact ⟨j + 1, by rw [hj]; rfl⟩

theorem fixSize_prefix (es : List LEntry) (max : Nat) (hne : es ≠ []) :
    ∃ j, 1 ≤ j ∧ fixSize es max = es.take j := by
  cases es with
  | nil => exact absurd rfl hne
  | cons e rest =>
    obtain ⟨j, hj⟩ := fixRest_prefix rest e.size max
    exact ⟨j + 1, by omega, by simp [fixSize, hj]⟩

theorem fixSize_nil (max : Nat) : fixSize [] max = [] := rfl

/-- `fixSize` of a run is a non-empty shorter run from the same start -/
theorem fixSize_run (H : Nat → LEntry) (s k max : Nat) (hk : 0 < k) :
    ∃ j, 1 ≤ j ∧ j ≤ k ∧ fixSize (run H s k) max = run H s j := by
  have hne : run H s k ≠ [] := by rw [Ne, run_eq_nil]; omega
  obtain ⟨j, hj1, hj2⟩ := fixSize_prefix (run H s k) max hne
  refine ⟨min j k, by omega, by omega, ?_⟩
  rw [hj2, take_run]

end Regatta.LogReader
