import Regatta.Spec.Kv
/-
  Facts about the sorted-map specification itself (no model, no encoding).
-/
namespace Regatta.Spec
open Regatta Regatta.Fsm

theorem applyLog_append (t : Table) (a b : List Entry) :
    applyLog t (a ++ b) =
      ((applyLog (applyLog t a).1 b).1, (applyLog t a).2 ++ (applyLog (applyLog t a).1 b).2) := by
  induction a generalizing t with
  | nil => simp [applyLog]
  | cons e rest ih =>
    simp only [List.cons_append, applyLog]
    rw [ih]

theorem applyLog_applied (t : Table) (es : List Entry) (hne : es ≠ []) :
    (applyLog t es).1.applied = (es.getLast hne).index := by
  induction es generalizing t with
  | nil => exact absurd rfl hne
  | cons e rest ih =>
    cases rest with
    | nil => simp [applyLog, applyEntry]
    | cons x xs =>
      simp only [applyLog]
      rw [List.getLast_cons (by simp)]
      exact ih _ (by simp)

theorem applyLog_length (t : Table) (es : List Entry) : (applyLog t es).2.length = es.length := by
  induction es generalizing t with
  | nil => rfl
  | cons e rest ih => simp [applyLog, ih]

/-- the leader index after a log: the one of the last entry that carried one, else unchanged -/
def lastLeader (l0 : Nat) (es : List Entry) : Nat := es.foldl (fun l e => e.leaderIndex.getD l) l0

theorem applyLog_leader (t : Table) (es : List Entry) : (applyLog t es).1.leader = lastLeader t.leader es := by
  induction es generalizing t with
  | nil => rfl
  | cons e rest ih =>
    simp only [applyLog, lastLeader, List.foldl_cons]
    rw [ih]
    rfl

/-- result of the `n`-th entry -/
theorem applyLog_results (t : Table) (es : List Entry) :
    ∀ r ∈ (applyLog t es).2, ∃ e ∈ es, ∃ t', r = (applyEntry t' e).2 := by
  induction es generalizing t with
  | nil => intro r hr; simp [applyLog] at hr
  | cons e rest ih =>
    intro r hr
    simp only [applyLog, List.mem_cons] at hr
    rcases hr with rfl | hr
    · exact ⟨e, by simp, t, rfl⟩
    · obtain ⟨e', he', t', rfl⟩ := ih _ r hr
      exact ⟨e', by simp [he'], t', rfl⟩

/-- read-only operation lists leave the map alone and answer each range operation on it -/
theorem txnOps_readonly (m : UMap) (ops : List ReqOp) (h : ops.all ReqOp.isRange = true) :
    (txnOps m ops).1 = m := by
  induction ops with
  | nil => rfl
  | cons op rest ih =>
    simp only [List.all_cons, Bool.and_eq_true] at h
    cases op with
    | range r => simp only [txnOps]; exact ih h.2
    | put k v pk => simp [ReqOp.isRange] at h
    | del k e pk c => simp [ReqOp.isRange] at h
    | none => simp [ReqOp.isRange] at h

end Regatta.Spec
