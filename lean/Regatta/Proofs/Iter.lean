import Regatta.Model.Fsm
/-
  The chunking loop of `iterate` (storage/table/fsm/iter.go), as modelled by `Fsm.iterLoop`:
  what the concatenated chunks contain, which chunks carry `more`, what `count` says.
-/
namespace Regatta.Fsm

/-- what follows after a pair has been filled in: the loop ends if `Next` fails -/
def tailOf (k : FillKind) (limit : Int) (rest : List (Bytes × Val)) (i : Nat) (r : RangeResp) : List RangeResp :=
  if rest.isEmpty then [r] else iterLoop k limit rest i r

/-- one iteration of the loop, unfolded -/
theorem iterLoop_cons (k : FillKind) (limit : Int) (key : Bytes) (v : Val) (rest : List (Bytes × Val))
    (i : Nat) (resp : RangeResp) :
    iterLoop k limit ((key, v) :: rest) i resp =
      if (i : Int) = limit ∧ limit ≠ 0 then [{ resp with more := true }]
      else if resp.sizeVT + sizeOf k key v ≥ maxRangeSize then
        { resp with more := true } :: tailOf k limit rest (i + 1) (fill k key v {})
      else tailOf k limit rest (i + 1) (fill k key v resp) := by
  unfold tailOf
  rw [iterLoop]
  by_cases hl : (i : Int) = limit ∧ limit ≠ 0
  · simp [hl]
  · by_cases hc : resp.sizeVT + sizeOf k key v ≥ maxRangeSize
    · simp only [hl, hc, if_false, if_true]
    · simp only [hl, hc, if_false]

theorem tailOf_nil (k : FillKind) (limit : Int) (i : Nat) (r : RangeResp) : tailOf k limit [] i r = [r] := rfl
theorem tailOf_cons (k : FillKind) (limit : Int) (p : Bytes × Val) (rest : List (Bytes × Val)) (i : Nat) (r : RangeResp) :
    tailOf k limit (p :: rest) i r = iterLoop k limit (p :: rest) i r := rfl

/-- the pair `fill` appends to `kvs` (none for count-only) -/
def kvOf (k : FillKind) (key : Bytes) (v : Val) : List KV :=
  match k with
  | .full => [⟨key, v⟩]
  | .keysOnly => [⟨key, ByteArray.empty⟩]
  | .countOnly => []

theorem fill_kvs (k : FillKind) (key : Bytes) (v : Val) (resp : RangeResp) :
    (fill k key v resp).kvs = resp.kvs ++ kvOf k key v := by
  cases k <;> simp [fill, kvOf]

theorem fill_more (k : FillKind) (key : Bytes) (v : Val) (resp : RangeResp) :
    (fill k key v resp).more = resp.more := by
  cases k <;> simp [fill]

/-- the pairs a request with this limit returns when `i` were already emitted: all of them for
`limit ≤ 0` (0 = no limit; negative values are refused by the API and behave like 0 here) -/
def taken (limit : Int) (i : Nat) (ps : List (Bytes × Val)) : List (Bytes × Val) :=
  if limit ≤ 0 then ps else ps.take (limit.toNat - i)

theorem taken_nil (limit : Int) (i : Nat) : taken limit i [] = [] := by unfold taken; split <;> simp

theorem taken_cons (limit : Int) (i : Nat) (p : Bytes × Val) (rest : List (Bytes × Val))
    (h : ¬ ((i : Int) = limit ∧ limit ≠ 0)) (hi : limit ≤ 0 ∨ (i : Int) ≤ limit) :
    taken limit i (p :: rest) = p :: taken limit (i + 1) rest := by
  unfold taken
  by_cases h0 : limit ≤ 0
  · simp [h0]
  · have : limit.toNat - i = (limit.toNat - (i + 1)) + 1 := by omega
    simp [h0, this, List.take_succ_cons]

theorem taken_stop (limit : Int) (i : Nat) (ps : List (Bytes × Val)) (h : (i : Int) = limit ∧ limit ≠ 0) :
    taken limit i ps = [] := by
  unfold taken
  have h1 : ¬ limit ≤ 0 := by omega
  have h2 : limit.toNat - i = 0 := by omega
  simp [h1, h2]

def allKvs (cs : List RangeResp) : List KV := cs.flatMap (·.kvs)

theorem allKvs_cons (c : RangeResp) (cs : List RangeResp) : allKvs (c :: cs) = c.kvs ++ allKvs cs := by
  simp [allKvs]

/-- concatenating the chunks gives exactly the first `limit` pairs of the range, in order -/
theorem iterLoop_kvs (k : FillKind) (limit : Int) (ps : List (Bytes × Val)) (hps : ps ≠ []) :
    ∀ (i : Nat) (resp : RangeResp), (limit ≤ 0 ∨ (i : Int) ≤ limit) →
    allKvs (iterLoop k limit ps i resp) =
      resp.kvs ++ (taken limit i ps).flatMap (fun p => kvOf k p.1 p.2) := by
  induction ps with
  | nil => exact absurd rfl hps
  | cons p rest ih =>
    obtain ⟨key, v⟩ := p
    intro i resp hi
    rw [iterLoop_cons]
    by_cases hl : (i : Int) = limit ∧ limit ≠ 0
    · rw [if_pos hl, taken_stop _ _ _ hl]
      simp [allKvs]
    · rw [if_neg hl, taken_cons _ _ _ _ hl hi]
      have hi' : limit ≤ 0 ∨ ((i + 1 : Nat) : Int) ≤ limit := by omega
      have tl : ∀ r, allKvs (tailOf k limit rest (i + 1) r) =
          r.kvs ++ (taken limit (i + 1) rest).flatMap (fun p => kvOf k p.1 p.2) := by
        intro r
        cases rest with
        | nil => simp [tailOf_nil, taken_nil, allKvs]
        | cons q rest' => rw [tailOf_cons]; exact ih (by simp) (i + 1) r hi'
      by_cases hc : resp.sizeVT + sizeOf k key v ≥ maxRangeSize
      · simp only [hc, if_true, allKvs_cons, tl, fill_kvs]
        simp
      · simp only [hc, if_false, tl, fill_kvs]
        simp

theorem iterLoop_ne_nil (k : FillKind) (limit : Int) (ps : List (Bytes × Val)) (i : Nat) (resp : RangeResp) :
    iterLoop k limit ps i resp ≠ [] := by
  induction ps generalizing i resp with
  | nil => simp [iterLoop]
  | cons p rest ih =>
    obtain ⟨key, v⟩ := p
    rw [iterLoop_cons]
    split
    · simp
    · split
      · simp
      · cases rest with
        | nil => simp [tailOf_nil]
        | cons q r => rw [tailOf_cons]; exact ih _ _

theorem tailOf_ne_nil (k : FillKind) (limit : Int) (rest : List (Bytes × Val)) (i : Nat) (r : RangeResp) :
    tailOf k limit rest i r ≠ [] := by
  cases rest with
  | nil => simp [tailOf_nil]
  | cons q rest' => rw [tailOf_cons]; exact iterLoop_ne_nil _ _ _ _ _

/-- every chunk but the last is flagged `more` -/
theorem iterLoop_more_init (k : FillKind) (limit : Int) (ps : List (Bytes × Val)) :
    ∀ (i : Nat) (resp : RangeResp), ∀ c ∈ (iterLoop k limit ps i resp).dropLast, c.more = true := by
  induction ps with
  | nil => intro i resp c hc; simp [iterLoop] at hc
  | cons p rest ih =>
    obtain ⟨key, v⟩ := p
    intro i resp c hc
    rw [iterLoop_cons] at hc
    have tl : ∀ r, ∀ c ∈ (tailOf k limit rest (i + 1) r).dropLast, c.more = true := by
      intro r
      cases rest with
      | nil => intro c hc; simp [tailOf_nil] at hc
      | cons q rest' => rw [tailOf_cons]; exact ih (i + 1) r
    by_cases hl : (i : Int) = limit ∧ limit ≠ 0
    · rw [if_pos hl] at hc; simp at hc
    · rw [if_neg hl] at hc
      by_cases hcut : resp.sizeVT + sizeOf k key v ≥ maxRangeSize
      · simp only [hcut, if_true] at hc
        rw [List.dropLast_cons_of_ne_nil (tailOf_ne_nil _ _ _ _ _)] at hc
        simp only [List.mem_cons] at hc
        rcases hc with rfl | hc
        · rfl
        · exact tl _ c hc
      · simp only [hcut, if_false] at hc
        exact tl _ c hc

/-- the last chunk is flagged `more` exactly when pairs of the range remain beyond those returned
(for a response under construction that is not itself flagged) -/
theorem iterLoop_more_last (k : FillKind) (limit : Int) (ps : List (Bytes × Val)) (hps : ps ≠ []) :
    ∀ (i : Nat) (resp : RangeResp), resp.more = false → (limit ≤ 0 ∨ (i : Int) ≤ limit) →
    (((iterLoop k limit ps i resp).getLast (iterLoop_ne_nil k limit ps i resp)).more = true ↔
      (taken limit i ps).length < ps.length) := by
  induction ps with
  | nil => exact absurd rfl hps
  | cons p rest ih =>
    obtain ⟨key, v⟩ := p
    intro i resp hm hi
    have key_fact : ∀ (l : List RangeResp) (hl : l ≠ []), l = iterLoop k limit ((key, v) :: rest) i resp →
        ((l.getLast hl).more = true ↔ (taken limit i ((key, v) :: rest)).length < ((key, v) :: rest).length) := by
      intro l hne hl
      rw [iterLoop_cons] at hl
      by_cases hstop : (i : Int) = limit ∧ limit ≠ 0
      · rw [if_pos hstop] at hl
        subst hl
        rw [taken_stop _ _ _ hstop]; simp
      · rw [if_neg hstop] at hl
        rw [taken_cons _ _ _ _ hstop hi]
        have hi' : limit ≤ 0 ∨ ((i + 1 : Nat) : Int) ≤ limit := by omega
        have tl : ∀ r, r.more = false → ∀ h, (((tailOf k limit rest (i + 1) r).getLast h).more = true ↔
            (taken limit (i + 1) rest).length < rest.length) := by
          intro r hr
          cases rest with
          | nil => intro h; simp [tailOf_nil, taken_nil, hr]
          | cons q rest' =>
            intro h
            exact ih (by simp) (i + 1) r hr hi'
        by_cases hc : resp.sizeVT + sizeOf k key v ≥ maxRangeSize
        · simp only [hc, if_true] at hl
          subst hl
          rw [List.getLast_cons (tailOf_ne_nil _ _ _ _ _)]
          rw [tl _ (by simp [fill_more])]
          simp
        · simp only [hc, if_false] at hl
          subst hl
          rw [tl _ (by simp [fill_more, hm])]
          simp
    exact key_fact _ _ rfl

/-! ### counts -/

def allCount (cs : List RangeResp) : Nat := (cs.map (·.count)).sum

/-- for keys-only and count-only reads `count` is a running counter: summed over the chunks it is
the number of pairs returned (plus what the response under construction had) -/
theorem iterLoop_count_counter (k : FillKind) (hk : k ≠ .full) (limit : Int) (ps : List (Bytes × Val)) (hps : ps ≠ []) :
    ∀ (i : Nat) (resp : RangeResp), (limit ≤ 0 ∨ (i : Int) ≤ limit) →
    allCount (iterLoop k limit ps i resp) = resp.count + (taken limit i ps).length := by
  have fill_count : ∀ key v (r : RangeResp), (fill k key v r).count = r.count + 1 := by
    intro key v r; cases k <;> simp [fill] at hk ⊢
  induction ps with
  | nil => exact absurd rfl hps
  | cons p rest ih =>
    obtain ⟨key, v⟩ := p
    intro i resp hi
    rw [iterLoop_cons]
    by_cases hl : (i : Int) = limit ∧ limit ≠ 0
    · rw [if_pos hl, taken_stop _ _ _ hl]
      simp [allCount]
    · rw [if_neg hl, taken_cons _ _ _ _ hl hi]
      have hi' : limit ≤ 0 ∨ ((i + 1 : Nat) : Int) ≤ limit := by omega
      have tl : ∀ r, allCount (tailOf k limit rest (i + 1) r) = r.count + (taken limit (i + 1) rest).length := by
        intro r
        cases rest with
        | nil => simp [tailOf_nil, taken_nil, allCount]
        | cons q rest' => rw [tailOf_cons]; exact ih (by simp) (i + 1) r hi'
      by_cases hc : resp.sizeVT + sizeOf k key v ≥ maxRangeSize
      · simp only [hc, if_true]
        have : allCount ({ resp with more := true } :: tailOf k limit rest (i + 1) (fill k key v {})) =
            resp.count + allCount (tailOf k limit rest (i + 1) (fill k key v {})) := by
          simp [allCount]
        rw [this, tl, fill_count]
        simp; omega
      · simp only [hc, if_false, tl, fill_count]
        simp; omega

/-- for full reads every chunk's `count` is the number of pairs in that chunk -/
theorem iterLoop_count_full (limit : Int) (ps : List (Bytes × Val)) :
    ∀ (i : Nat) (resp : RangeResp), resp.count = resp.kvs.length →
    ∀ c ∈ iterLoop .full limit ps i resp, c.count = c.kvs.length := by
  have fill_ok : ∀ key v (r : RangeResp), (fill .full key v r).count = (fill .full key v r).kvs.length := by
    intro key v r; simp [fill]
  induction ps with
  | nil => intro i resp h c hc; simp [iterLoop] at hc; subst hc; exact h
  | cons p rest ih =>
    obtain ⟨key, v⟩ := p
    intro i resp h c hc
    rw [iterLoop_cons] at hc
    have tl : ∀ r, r.count = r.kvs.length → ∀ c ∈ tailOf .full limit rest (i + 1) r, c.count = c.kvs.length := by
      intro r hr
      cases rest with
      | nil => intro c hc; simp [tailOf_nil] at hc; subst hc; exact hr
      | cons q rest' => rw [tailOf_cons]; exact ih (i + 1) r hr
    by_cases hl : (i : Int) = limit ∧ limit ≠ 0
    · rw [if_pos hl] at hc; simp at hc; subst hc; exact h
    · rw [if_neg hl] at hc
      by_cases hcut : resp.sizeVT + sizeOf .full key v ≥ maxRangeSize
      · simp only [hcut, if_true, List.mem_cons] at hc
        rcases hc with rfl | hc
        · exact h
        · exact tl _ (fill_ok _ _ _) c hc
      · simp only [hcut, if_false] at hc
        exact tl _ (fill_ok _ _ _) c hc

end Regatta.Fsm
