import Regatta.Model.SnapStream
import Regatta.Proofs.Refine
import Regatta.Proofs.SpecKv
/-
  Restoring a table stream reproduces the captured content, for every batching configuration.
-/
namespace Regatta.SnapStream
open Regatta Regatta.Fsm Regatta.Key Regatta.Refine

/-- the batches of all proposals, concatenated, are the pairs of all messages in order — wherever
the size thresholds fall (`maxInMem`, the message sizes and the carried-over state are arbitrary) -/
theorem readLoop_batches (maxInMem : Nat) (msgs : List (Nat × Msg)) :
    ∀ (size : Nat) (batch : List (Bytes × Val)) (li : Option Nat),
    ((readLoop maxInMem msgs size batch li).map (·.batch)).flatten = batch ++ msgs.map (·.2.kv) := by
  induction msgs with
  | nil => intro size batch li; simp [readLoop]
  | cons x rest ih =>
    obtain ⟨n, m⟩ := x
    intro size batch li
    simp only [readLoop]
    split
    · rw [ih]; simp
    · simp only [List.map_cons, List.flatten_cons]
      rw [ih]; simp

/-- the leader index of the last message that carries one is handed to exactly one proposal, and
no later proposal carries another -/
def lastLi (ps : List Proposal) : Option Nat := ps.foldl (fun acc p => if p.leaderIndex.isSome then p.leaderIndex else acc) none

theorem readLoop_li_last (maxInMem : Nat) (l : Nat) (msgs : List (Nat × Msg)) (hne : msgs ≠ [])
    (hlast : (msgs.getLast hne).2.li = some l) :
    ∀ (size : Nat) (batch : List (Bytes × Val)) (li : Option Nat) (acc : Nat),
    (readLoop maxInMem msgs size batch li).foldl (fun a p => p.leaderIndex.getD a) acc = l := by
  induction msgs with
  | nil => exact absurd rfl hne
  | cons x rest ih =>
    obtain ⟨n, m⟩ := x
    intro size batch li acc
    cases rest with
    | nil =>
      simp only [List.getLast_singleton] at hlast
      simp only [readLoop]
      split
      · simp [readLoop, hlast]
      · simp [readLoop, hlast]
    | cons y ys =>
      have hl2 : ((y :: ys).getLast (by simp)).2.li = some l := by
        rw [List.getLast_cons (by simp)] at hlast; exact hlast
      rw [readLoop]
      split
      · exact ih (by simp) hl2 _ _ _ _
      · rw [List.foldl_cons]
        exact ih (by simp) hl2 _ _ _ _

/-- every leader index a proposal carries comes from a message (or from the pending batch) -/
theorem readLoop_li_mem (maxInMem : Nat) (msgs : List (Nat × Msg)) :
    ∀ (size : Nat) (batch : List (Bytes × Val)) (li : Option Nat), ∀ p ∈ readLoop maxInMem msgs size batch li,
    ∀ v, p.leaderIndex = some v → li = some v ∨ ∃ x ∈ msgs, x.2.li = some v := by
  induction msgs with
  | nil => intro size batch li p hp v hv; simp [readLoop] at hp; subst hp; exact Or.inl hv
  | cons x rest ih =>
    obtain ⟨n, m⟩ := x
    intro size batch li p hp v hv
    rw [readLoop] at hp
    split at hp
    · rcases ih _ _ _ p hp v hv with h | ⟨y, hy, hyl⟩
      · exact Or.inr ⟨(n, m), by simp, h⟩
      · exact Or.inr ⟨y, by simp [hy], hyl⟩
    · simp only [List.mem_cons] at hp
      rcases hp with rfl | hp
      · exact Or.inr ⟨(n, m), by simp, hv⟩
      · rcases ih _ _ _ p hp v hv with h | ⟨y, hy, hyl⟩
        · cases h
        · exact Or.inr ⟨y, by simp [hy], hyl⟩

theorem readLoop_li_none (maxInMem : Nat) (msgs : List (Nat × Msg)) (hm : ∀ x ∈ msgs, x.2.li = none) :
    ∀ (size : Nat) (batch : List (Bytes × Val)), ∀ p ∈ readLoop maxInMem msgs size batch none, p.leaderIndex = none := by
  induction msgs with
  | nil => intro size batch p hp; simp [readLoop] at hp; subst hp; rfl
  | cons x rest ih =>
    obtain ⟨n, m⟩ := x
    intro size batch p hp
    have hmli : m.li = none := hm (n, m) (by simp)
    simp only [readLoop, hmli] at hp
    split at hp
    · exact ih (fun y hy => hm y (by simp [hy])) _ _ p hp
    · simp only [List.mem_cons] at hp
      rcases hp with rfl | hp
      · rfl
      · exact ih (fun y hy => hm y (by simp [hy])) _ _ p hp

/-- inserting the pairs of a strictly sorted map into a map whose keys are all smaller appends them -/
theorem foldl_set_sorted (m acc : List (Bytes × Val)) (hm : SMap.Sorted m)
    (hacc : ∀ a ∈ acc, ∀ p ∈ m, bytesLt a.1 p.1 = true) :
    m.foldl (fun s p => SMap.set p.1 p.2 s) acc = acc ++ m := by
  induction m generalizing acc with
  | nil => simp
  | cons p rest ih =>
    unfold SMap.Sorted at hm
    rw [List.pairwise_cons] at hm
    simp only [List.foldl_cons]
    have hset : SMap.set p.1 p.2 acc = acc ++ [p] := by
      clear ih
      induction acc with
      | nil => rfl
      | cons a t iht =>
        obtain ⟨ak, av⟩ := a
        have h1 : bytesLt ak p.1 = true := hacc (ak, av) (by simp) p (by simp)
        have h2 : bytesLt p.1 ak = false := bytesLt_asymm _ _ h1
        simp only [SMap.set, h2, Bool.false_eq_true, if_false, h1, if_true, List.cons_append]
        rw [iht (fun a ha q hq => hacc a (by simp [ha]) q hq)]
    rw [hset, ih _ hm.2]
    · simp
    · intro a ha q hq
      simp only [List.mem_append, List.mem_singleton] at ha
      rcases ha with ha | rfl
      · exact hacc a ha q (by simp [hq])
      · exact hm.1 q hq

theorem foldl_set_self (m : List (Bytes × Val)) (hm : SMap.Sorted m) :
    m.foldl (fun s p => SMap.set p.1 p.2 s) [] = m := by
  rw [foldl_set_sorted m [] hm (fun a ha => by cases ha)]; rfl

/-- the PUT commands of `commandSnapshot` are the pairs of the user map (in key order); bookkeeping
keys and the empty-user-key record produce nothing visible -/
theorem commandSnapshot_pairs (db : Db) (h : WF db) :
    ((commandSnapshot db).1.map Msg.kv).filter (fun p => !p.1.isEmpty) = absU db := by
  have hkeys := h.2
  clear h
  unfold commandSnapshot
  simp only
  induction db with
  | nil => rfl
  | cons hd t ih =>
    obtain ⟨x, w⟩ := hd
    have iht := ih (fun p hp => hkeys p (by simp [hp]))
    have hx := hkeys (x, w) (by simp)
    simp only [List.filterMap_cons]
    rcases hx with ⟨u, hu, rfl⟩ | hx | hx | hx
    · have e1 : absU ((encodeUser u, w) :: t) = (u, w) :: absU t := by
        simp [absU, SMap.absMap, decodeUserExact_encodeUser u hu]
      have hd : decodeBytes (encodeUser u) = .ok (typeUser, u) := decodeBytes_encode _ _ hu
      have hne : u.isEmpty = false := by cases u <;> simp_all
      rw [e1]
      simp only [hd, if_true, List.map_cons, Msg.kv, List.filter_cons, hne, Bool.not_false]
      rw [iht]
    · simp only at hx; subst hx
      have e1 : absU ((sysLocalIndex, w) :: t) = absU t := by simp [absU, SMap.absMap, dec_sysLocal]
      have hd : decodeBytes sysLocalIndex = .ok (typeSystem, [105, 110, 100, 101, 120]) := by
        rw [Props.C12.c12_sys_keys.1]; exact decodeBytes_encode _ _ (by simp)
      have hts : ¬ typeSystem = typeUser := by decide
      rw [e1]; simp only [hd, hts, if_false]; exact iht
    · simp only at hx; subst hx
      have e1 : absU ((sysLeaderIndex, w) :: t) = absU t := by simp [absU, SMap.absMap, dec_sysLeader]
      have hd : decodeBytes sysLeaderIndex = .ok (typeSystem, [108, 101, 97, 100, 101, 114, 95, 105, 110, 100, 101, 120]) := by
        rw [Props.C12.c12_sys_keys.2]; exact decodeBytes_encode _ _ (by simp)
      have hts : ¬ typeSystem = typeUser := by decide
      rw [e1]; simp only [hd, hts, if_false]; exact iht
    · simp only at hx; subst hx
      have e1 : absU ((emptyUserKey, w) :: t) = absU t := by simp [absU, SMap.absMap, dec_emptyUser]
      have hd : decodeBytes emptyUserKey = .ok (Extracted.typeUnknown, []) := rfl
      have hts : ¬ Extracted.typeUnknown = typeUser := by decide
      rw [e1]; simp only [hd, hts, if_false]; exact iht

/-- the specification applying the restore proposals: all non-empty-key pairs of all batches are
set in order; the leader index follows the proposals that carry one -/
theorem applyLog_proposals (ps : List Proposal) : ∀ (t : Spec.Table) (first : Nat),
    (Spec.applyLog t (toEntries first ps)).1.kv =
      (((ps.map (·.batch)).flatten).filter (fun p => !p.1.isEmpty)).foldl (fun m p => SMap.set p.1 p.2 m) t.kv ∧
    (Spec.applyLog t (toEntries first ps)).1.leader = ps.foldl (fun l p => p.leaderIndex.getD l) t.leader := by
  induction ps with
  | nil => intro t first; exact ⟨rfl, rfl⟩
  | cons p rest ih =>
    intro t first
    simp only [toEntries, Spec.applyLog]
    obtain ⟨h1, h2⟩ := ih (Spec.applyEntry t ⟨first, p.leaderIndex, .putBatch p.batch⟩).1 (first + 1)
    rw [h1, h2]
    constructor
    · simp [Spec.applyEntry, Spec.step, List.filter_append, List.foldl_append]
    · simp [Spec.applyEntry]

theorem toEntries_wf (ps : List Proposal) : ∀ (first : Nat), first + ps.length < 18446744073709551616 →
    (∀ p ∈ ps, ∀ li, p.leaderIndex = some li → li < 18446744073709551616) →
    ∀ e ∈ toEntries first ps, EntryWF e := by
  induction ps with
  | nil => intro first _ _ e he; cases he
  | cons p rest ih =>
    intro first hf hli e he
    simp only [toEntries, List.mem_cons] at he
    rcases he with rfl | he
    · exact ⟨trivial, by show first < _; simp only [List.length_cons] at hf; omega, fun li h => hli p (by simp) li h⟩
    · exact ih (first + 1) (by simp only [List.length_cons] at hf; omega) (fun q hq => hli q (by simp [hq])) e he

theorem toEntries_ne_nil (ps : List Proposal) (first : Nat) (h : ps ≠ []) : toEntries first ps ≠ [] := by
  cases ps with
  | nil => exact absurd rfl h
  | cons p rest => simp [toEntries]

theorem readLoop_ne_nil (maxInMem : Nat) (msgs : List (Nat × Msg)) :
    ∀ (size : Nat) (batch : List (Bytes × Val)) (li : Option Nat), readLoop maxInMem msgs size batch li ≠ [] := by
  induction msgs with
  | nil => intro _ _ _; simp [readLoop]
  | cons x rest ih =>
    obtain ⟨n, m⟩ := x
    intro size batch li
    rw [readLoop]
    split
    · exact ih _ _ _
    · simp

theorem readLoop_length (maxInMem : Nat) (msgs : List (Nat × Msg)) :
    ∀ (size : Nat) (batch : List (Bytes × Val)) (li : Option Nat),
    (readLoop maxInMem msgs size batch li).length ≤ msgs.length + 1 := by
  induction msgs with
  | nil => intro _ _ _; simp [readLoop]
  | cons x rest ih =>
    obtain ⟨n, m⟩ := x
    intro size batch li
    rw [readLoop]
    split
    · have := ih (size + n) (batch ++ [m.kv]) m.li; simp only [List.length_cons]; omega
    · have := ih 0 [] none; simp only [List.length_cons]; omega

/-- **restore is exact**: for every well-formed source store, every `MaxInMemLogSize` (0 included)
and every assignment of byte sizes to the messages (i.e. wherever batch thresholds fall), loading the
backup stream or the leader stream into a fresh shard succeeds and yields exactly the captured user
map — no pair lost, altered or added; for the leader stream the recorded leader index is the index
the stream declares -/
theorem restore_exact (src : Db) (h : WF src) (maxInMem : Nat) (msgs : List (Nat × Msg))
    (hsmall : msgs.length + 3 < 18446744073709551616)
    (hidx : readIndex src sysLocalIndex < 18446744073709551616)
    (hstream : msgs.map (·.2) = backupStream src ∨ msgs.map (·.2) = leaderStream src) :
    ∃ db' rs n, update [] (toEntries 1 (readIntoTable maxInMem msgs)) = .ok (db', rs, n) ∧ WF db' ∧
      absU db' = absU src ∧
      (msgs.map (·.2) = leaderStream src → readIndex db' sysLeaderIndex = readIndex src sysLocalIndex) := by
  unfold readIntoTable
  generalize hps : readLoop maxInMem msgs 0 [] none = ps
  have hpne : ps ≠ [] := by rw [← hps]; exact readLoop_ne_nil _ _ _ _ _
  have hplen : ps.length ≤ msgs.length + 1 := by rw [← hps]; exact readLoop_length _ _ _ _ _
  -- which leader indices can occur
  have hli : ∀ p ∈ ps, ∀ li, p.leaderIndex = some li → li < 18446744073709551616 := by
    intro p hp li hpl
    rw [← hps] at hp
    rcases readLoop_li_mem maxInMem msgs 0 [] none p hp li hpl with h0 | ⟨x, hx, hxl⟩
    · cases h0
    · have hxin : x.2 ∈ msgs.map (·.2) := List.mem_map_of_mem hx
      rcases hstream with hs | hs
      · rw [hs] at hxin
        simp only [backupStream, commandSnapshot, List.mem_filterMap] at hxin
        obtain ⟨q, _, hq⟩ := hxin
        split at hq
        · split at hq
          · injection hq with hq; rw [← hq] at hxl; cases hxl
          · cases hq
        · cases hq
      · rw [hs] at hxin
        simp only [leaderStream, commandSnapshot, List.mem_append, List.mem_filterMap, List.mem_singleton] at hxin
        rcases hxin with ⟨q, _, hq⟩ | hq
        · split at hq
          · split at hq
            · injection hq with hq; rw [← hq] at hxl; cases hxl
            · cases hq
          · cases hq
        · rw [hq] at hxl; simp only [Msg.li] at hxl; injection hxl with hxl; rw [← hxl]; exact hidx
  obtain ⟨db', n, e, w, a⟩ := update_refines [] wf_nil (toEntries 1 ps) (toEntries_ne_nil ps 1 hpne)
    (toEntries_wf ps 1 (by omega) hli)
  obtain ⟨hkv, hld⟩ := applyLog_proposals ps (absT []) 1
  refine ⟨db', _, n, e, w, ?_, ?_⟩
  · -- content
    have hkv' : absU db' = (Spec.applyLog (absT []) (toEntries 1 ps)).1.kv := congrArg Spec.Table.kv a
    rw [hkv', hkv]
    have hb := readLoop_batches maxInMem msgs 0 [] none
    rw [hps] at hb
    rw [hb]
    simp only [List.nil_append]
    have hpairs : (msgs.map (·.2.kv)).filter (fun p => !p.1.isEmpty) = absU src := by
      have : msgs.map (·.2.kv) = (msgs.map (·.2)).map Msg.kv := by simp
      rw [this]
      rcases hstream with hs | hs
      · rw [hs]; exact commandSnapshot_pairs src h
      · rw [hs]
        simp only [leaderStream, List.map_append, List.filter_append, List.map_cons, List.map_nil, Msg.kv]
        rw [commandSnapshot_pairs src h]
        simp
    rw [hpairs]
    show (absU src).foldl (fun m p => SMap.set p.1 p.2 m) (absU []) = absU src
    exact foldl_set_self (absU src) (sorted_absU src h)
  · -- leader index
    intro hs
    have hld' : readIndex db' sysLeaderIndex = (Spec.applyLog (absT []) (toEntries 1 ps)).1.leader :=
      congrArg Spec.Table.leader a
    rw [hld', hld]
    have hmne : msgs ≠ [] := by
      intro hm; rw [hm] at hs; simp [leaderStream] at hs
    rw [← hps]
    apply readLoop_li_last maxInMem _ msgs hmne
    have : (msgs.getLast hmne).2 = (msgs.map (·.2)).getLast (by simpa using hmne) := by
      rw [List.getLast_map]
    rw [this]
    have hl : ∀ (l : List Msg) (x : Msg) (hh : l ++ [x] ≠ []), (l ++ [x]).getLast hh = x := by
      intro l x hh; simp
    have hs' : msgs.map (·.2) = (commandSnapshot src).1 ++ [Msg.dummy (commandSnapshot src).2] := by
      rw [hs]; rfl
    simp only [hs']
    rw [hl]
    rfl

end Regatta.SnapStream
