import Regatta.Proofs.MetaSys
/-
  The table catalogue: key spaces are disjoint, the id sequence only grows and every id it hands
  out is larger than all handed out before — for every interleaving of manager calls.
-/
namespace Regatta.Meta

/-! ### the key spaces -/

theorem append_left_cancel' (a b c : String) (h : a ++ b = a ++ c) : b = c := by
  have := congrArg String.toList h
  simp only [String.toList_append] at this
  exact String.toList_inj.mp (List.append_cancel_left this)

/-- a valid table name never spells the id-sequence key -/
theorem tableKey_ne_seq (name : String) (hv : validTableName name = true) : tableKey name ≠ sequenceKey := by
  intro h
  have h2 : name = "sys/idseq" := append_left_cancel' keyPrefix name "sys/idseq" h
  subst h2
  revert hv; decide

/-- a lease key never is the id-sequence key, whatever the name -/
theorem leaseKey_ne_seq (name : String) : leaseKey name ≠ sequenceKey := by
  intro h
  unfold leaseKey sequenceKey at h
  have := congrArg String.toList h
  simp only [String.toList_append] at this
  have h2 := congrArg List.getLast? this
  have e0 : "/lease".toList = "/leas".toList ++ ['e'] := by decide
  rw [e0, ← List.append_assoc, List.getLast?_concat] at h2
  revert h2; decide

/-! ### the id sequence -/

/-- the current value of the sequence (its start value while the record does not exist) -/
def curSeq (w : World) : Nat :=
  match w.store.get? sequenceKey with
  | some ⟨_, .seq n, _⟩ => n
  | _ => tableIDsRangeStart

/-- does a proposal leave the sequence record alone, or is it a `set` of a sequence value? -/
def SeqSafe (u : Upd CVal) : Prop := u.key ≠ sequenceKey ∨ (u.op = .set ∧ ∃ n, u.value = .seq n)

/-- what a call in progress must satisfy for the sequence argument -/
def SeqOK (w : World) : Call → Prop
  | .createGetSeq name _ => validTableName name = true
  | .createSetSeq name cur ver _ =>
    validTableName name = true ∧ ver < w.index ∧
    (∀ p, w.store.get? sequenceKey = some p → p.ver = ver → p.value = .seq cur) ∧
    (w.store.get? sequenceKey = none → cur = tableIDsRangeStart)
  | .createSetRec name _ => validTableName name = true
  | .deleteDel name _ => validTableName name = true
  | .restoreMark name _ _ _ => validTableName name = true
  | .restoreReread name _ => validTableName name = true
  | .restoreSwitch name _ _ _ => validTableName name = true
  | _ => True

structure SeqInv (s : System) : Prop where
  w : WInv s.w
  ge : tableIDsRangeStart ≤ curSeq s.w
  typed : ∀ p, s.w.store.get? sequenceKey = some p → ∃ n, p.value = .seq n
  inc : s.w.issued.Pairwise (· < ·)
  le : ∀ i ∈ s.w.issued, i ≤ curSeq s.w
  gt : ∀ i ∈ s.w.issued, tableIDsRangeStart < i
  calls : ∀ e ∈ s.calls, SeqOK s.w e.2

theorem seqInv_init : SeqInv {} :=
  ⟨winv_init, Nat.le_refl _, fun p hp => (by cases hp), List.Pairwise.nil, fun i hi => (by cases hi), fun i hi => (by cases hi),
   fun e he => (by cases he)⟩

theorem SeqOK.congr {a b : World} {c : Call} (h : SeqOK b c) (e : SameReal a b) : SeqOK a c := by
  cases c with
  | createSetSeq name cur ver k =>
    obtain ⟨h1, h2, h3, h4⟩ := h
    exact ⟨h1, by rw [e.2.1]; exact h2, by rw [e.1]; exact h3, by rw [e.1]; exact h4⟩
  | createGetSeq name k => exact h
  | createSetRec name id => exact h
  | deleteDel name ver => exact h
  | restoreMark n t v i => exact h
  | restoreReread n i => exact h
  | restoreSwitch n i t v => exact h
  | _ => trivial

/-- a proposal that does not touch the sequence record keeps every pending sequence decision valid -/
theorem seqOK_propose_other (w : World) (u : Upd CVal) (hk : u.key ≠ sequenceKey) (c : Call) (h : SeqOK w c) :
    SeqOK (w.propose u).1 c := by
  have hget : (w.propose u).1.store.get? sequenceKey = w.store.get? sequenceKey := by
    rw [propose_store]
    rcases applyUpd_get? w.store w.index u sequenceKey with hg | ⟨hk', _⟩ | ⟨hk', _⟩
    · exact hg
    · exact absurd hk'.symm hk
    · exact absurd hk'.symm hk
  cases c with
  | createSetSeq name cur ver k =>
    obtain ⟨h1, h2, h3, h4⟩ := h
    exact ⟨h1, by rw [propose_index]; omega, by rw [hget]; exact h3, by rw [hget]; exact h4⟩
  | createGetSeq name k => exact h
  | createSetRec name id => exact h
  | deleteDel name ver => exact h
  | restoreMark n t v i => exact h
  | restoreReread n i => exact h
  | restoreSwitch n i t v => exact h
  | _ => trivial

theorem curSeq_propose_other (w : World) (u : Upd CVal) (hk : u.key ≠ sequenceKey) :
    curSeq (w.propose u).1 = curSeq w := by
  unfold curSeq
  have hget : (w.propose u).1.store.get? sequenceKey = w.store.get? sequenceKey := by
    rw [propose_store]
    rcases applyUpd_get? w.store w.index u sequenceKey with hg | ⟨hk', _⟩ | ⟨hk', _⟩
    · exact hg
    · exact absurd hk'.symm hk
    · exact absurd hk'.symm hk
  rw [hget]

theorem seqOK_afterSeq (w : World) (name : String) (id : Nat) (k : Purpose) (h : validTableName name = true) :
    SeqOK w (afterSeq name id k) := by
  cases k <;> exact h

/-- the proposal a call makes is not on the sequence record, except for `createSetSeq` -/
theorem step_key_other (w : World) (c : Call) (hc : SeqOK w c) (hns : ∀ name cur ver k, c ≠ .createSetSeq name cur ver k) :
    SameReal (w.step c).1 w ∨ ∃ u, u.key ≠ sequenceKey ∧ SameReal (w.step c).1 (w.propose u).1 ∧ (w.step c).1.issued = w.issued := by
  cases c with
  | createStart name =>
    simp only [World.step]; split; · exact Or.inl (SameReal.rfl' _)
    split <;> exact Or.inl (SameReal.rfl' _)
  | createGetSeq name k =>
    simp only [World.step]; split <;> exact Or.inl (SameReal.rfl' _)
  | createSetSeq name cur ver k => exact absurd rfl (hns name cur ver k)
  | createSetRec name id =>
    simp only [World.step]
    right; refine ⟨⟨.set, tableKey name, .table ⟨name, id, 0⟩, 0⟩, tableKey_ne_seq name hc, ?_⟩
    split <;> (rename_i heq; have hi := congrArg (fun x => x.1.issued) heq; exact ⟨by rw [heq]; exact ⟨rfl, rfl, rfl⟩, hi.symm⟩)
  | deleteStart name =>
    simp only [World.step]; split; · exact Or.inl (SameReal.rfl' _)
    split <;> exact Or.inl (SameReal.rfl' _)
  | deleteDel name ver =>
    simp only [World.step]
    right; refine ⟨⟨.delete, tableKey name, .none_, ver⟩, tableKey_ne_seq name hc, ?_⟩
    split <;> (rename_i heq; have hi := congrArg (fun x => x.1.issued) heq; exact ⟨by rw [heq]; exact ⟨rfl, rfl, rfl⟩, hi.symm⟩)
  | restoreStart name =>
    simp only [World.step]; split; · exact Or.inl (SameReal.rfl' _)
    split <;> exact Or.inl (SameReal.rfl' _)
  | restoreMark name tbl tver id =>
    simp only [World.step]
    right; refine ⟨⟨.set, tableKey name, .table ⟨name, tbl.clusterID, id⟩, tver⟩, tableKey_ne_seq name hc, ?_⟩
    split <;> (rename_i heq; have hi := congrArg (fun x => x.1.issued) heq; exact ⟨by rw [heq]; exact ⟨rfl, rfl, rfl⟩, hi.symm⟩)
  | restoreReread name id =>
    simp only [World.step]; split <;> exact Or.inl (SameReal.rfl' _)
  | restoreSwitch name id tbl ver =>
    simp only [World.step]
    right; refine ⟨⟨.set, tableKey name, .table ⟨tbl.name, id, 0⟩, ver⟩, tableKey_ne_seq name hc, ?_⟩
    split <;> (rename_i heq; have hi := congrArg (fun x => x.1.issued) heq; exact ⟨by rw [heq]; exact ⟨rfl, rfl, rfl⟩, hi.symm⟩)
  | leaseStart node name dur =>
    simp only [World.step]; split
    · exact Or.inl (SameReal.rfl' _)
    · split <;> exact Or.inl (SameReal.rfl' _)
    · exact Or.inl (SameReal.rfl' _)
  | leaseSet node name dur rv =>
    simp only [World.step]
    right; refine ⟨⟨.set, leaseKey name, .lease ⟨node, w.now + dur⟩, rv⟩, leaseKey_ne_seq name, ?_⟩
    split <;> (rename_i heq; have hi := congrArg (fun x => x.1.issued) heq; exact ⟨by rw [heq]; exact ⟨rfl, rfl, rfl⟩, hi.symm⟩)
  | returnStart node name =>
    simp only [World.step]; split
    · exact Or.inl (SameReal.rfl' _)
    · split <;> exact Or.inl (SameReal.rfl' _)
    · exact Or.inl (SameReal.rfl' _)
  | returnDel node name ver =>
    simp only [World.step]
    right; refine ⟨⟨.delete, leaseKey name, .none_, ver⟩, leaseKey_ne_seq name, ?_⟩
    split <;> (rename_i heq; have hi := congrArg (fun x => x.1.issued) heq; exact ⟨by rw [heq]; exact ⟨rfl, rfl, rfl⟩, hi.symm⟩)
  | doneTable t => exact Or.inl (SameReal.rfl' _)
  | doneOk => exact Or.inl (SameReal.rfl' _)
  | doneBool b => exact Or.inl (SameReal.rfl' _)
  | doneErr e => exact Or.inl (SameReal.rfl' _)

theorem curSeq_congr {a b : World} (e : SameReal a b) : curSeq a = curSeq b := by
  unfold curSeq; rw [e.1]

/-- the state a call (other than `createSetSeq`) moves to satisfies `SeqOK` in the world it leaves -/
theorem seqOK_step_self (w : World) (hw : WInv w) (c : Call) (h : SeqOK w c)
    (hns : ∀ name cur ver k, c ≠ .createSetSeq name cur ver k) : SeqOK (w.step c).1 (w.step c).2 := by
  cases c with
  | createStart name =>
    simp only [World.step]
    split
    · trivial
    · rename_i hv
      split
      · trivial
      · show validTableName name = true
        simpa using hv
  | createGetSeq name k =>
    simp only [World.step]
    split
    · rename_i k n ver hg
      refine ⟨h, hw.below _ (get?_mem _ _ _ hg), ?_, ?_⟩
      · intro p hp _; rw [hg] at hp; injection hp with hp; subst hp; rfl
      · intro hn; rw [hg] at hn; cases hn
    · trivial
    · rename_i hg
      refine ⟨h, hw.idx, ?_, fun _ => rfl⟩
      intro p hp; rw [hg] at hp; cases hp
  | createSetSeq name cur ver k => exact absurd rfl (hns name cur ver k)
  | createSetRec name id => simp only [World.step]; split <;> trivial
  | deleteStart name =>
    simp only [World.step]
    split
    · trivial
    · rename_i hv
      split
      · show validTableName name = true
        simpa using hv
      · trivial
  | deleteDel name ver => simp only [World.step]; split <;> trivial
  | restoreStart name =>
    simp only [World.step]
    split
    · trivial
    · rename_i hv
      split
      · show validTableName name = true
        simpa using hv
      · trivial
      · show validTableName name = true
        simpa using hv
  | restoreMark name tbl tver id =>
    simp only [World.step]; split
    · exact h
    · trivial
  | restoreReread name id =>
    simp only [World.step]; split
    · exact h
    · trivial
  | restoreSwitch name id tbl ver => simp only [World.step]; split <;> trivial
  | leaseStart node name dur =>
    simp only [World.step]; split
    · trivial
    · split <;> trivial
    · trivial
  | leaseSet node name dur rv => simp only [World.step]; split <;> trivial
  | returnStart node name =>
    simp only [World.step]; split
    · trivial
    · split <;> trivial
    · trivial
  | returnDel node name ver => simp only [World.step]; split <;> trivial
  | doneTable t => trivial
  | doneOk => trivial
  | doneBool b => trivial
  | doneErr e => trivial

theorem get?_seq_congr {a b : World} (e : SameReal a b) : a.store.get? sequenceKey = b.store.get? sequenceKey := by
  rw [e.1]

/-- one event preserves the sequence invariant -/
theorem seqInv_ev (s : System) (e : Ev) (h : SeqInv s) : SeqInv (s.ev e) := by
  cases e with
  | start id c =>
    simp only [System.ev]
    split
    · rename_i hinit
      refine ⟨h.w, h.ge, h.typed, h.inc, h.le, h.gt, ?_⟩
      intro x hx
      simp only [List.mem_cons, List.mem_filter] at hx
      rcases hx with rfl | ⟨hx, _⟩
      · cases c <;> first | trivial | (simp [Call.isInitial] at hinit)
      · exact h.calls x hx
    · exact h
  | tick d =>
    simp only [System.ev]
    have e : SameReal { s.w with now := s.w.now + (d : Int) } { s.w with now := s.w.now + (d : Int) } := SameReal.rfl' _
    refine ⟨⟨h.w.below, h.w.pos, h.w.idx⟩, h.ge, h.typed, h.inc, h.le, h.gt, ?_⟩
    intro x hx
    have := h.calls x hx
    cases hc : x.2 with
    | createSetSeq name cur ver k => rw [hc] at this; exact this
    | createGetSeq name k => rw [hc] at this; exact this
    | createSetRec name id => rw [hc] at this; exact this
    | deleteDel name ver => rw [hc] at this; exact this
    | restoreMark n t v i => rw [hc] at this; exact this
    | restoreReread n i => rw [hc] at this; exact this
    | restoreSwitch n i t v => rw [hc] at this; exact this
    | _ => trivial
  | sched id =>
    simp only [System.ev]
    split
    · rename_i c hfind
      have hmem : (id, c) ∈ s.calls := by
        have := List.mem_of_find?_eq_some hfind
        have hk := List.find?_some hfind
        simp only [beq_iff_eq] at hk
        rename_i id'
        subst hk
        exact this
      have hc := h.calls _ hmem
      simp only at hc
      by_cases hns : ∀ name cur ver k, c ≠ .createSetSeq name cur ver k
      · -- any call but the sequence write: the sequence record and the history are untouched
        have hself := seqOK_step_self s.w h.w c hc hns
        rcases step_key_other s.w c hc hns with he | ⟨u, hk, he, hiss⟩
        · have hiss : (s.w.step c).1.issued = s.w.issued ∨ True := Or.inr trivial
          -- issued may only change in createSetSeq; show it is unchanged by cases on c
          have hiss' : (s.w.step c).1.issued = s.w.issued := by
            cases c with
            | createSetSeq name cur ver k => exact absurd rfl (hns name cur ver k)
            | createStart name => simp only [World.step]; split; · rfl
                                  split <;> rfl
            | createGetSeq name k => simp only [World.step]; split <;> rfl
            | createSetRec name id =>
              simp only [World.step]; split <;> (rename_i heq; exact (congrArg (fun x => x.1.issued) heq).symm)
            | deleteStart name => simp only [World.step]; split; · rfl
                                  split <;> rfl
            | deleteDel name ver =>
              simp only [World.step]; split <;> (rename_i heq; exact (congrArg (fun x => x.1.issued) heq).symm)
            | restoreStart name => simp only [World.step]; split; · rfl
                                   split <;> rfl
            | restoreMark name tbl tver id =>
              simp only [World.step]; split <;> (rename_i heq; exact (congrArg (fun x => x.1.issued) heq).symm)
            | restoreReread name id => simp only [World.step]; split <;> rfl
            | restoreSwitch name id tbl ver =>
              simp only [World.step]; split <;> (rename_i heq; exact (congrArg (fun x => x.1.issued) heq).symm)
            | leaseStart node name dur =>
              simp only [World.step]; split
              · rfl
              · split <;> rfl
              · rfl
            | leaseSet node name dur rv =>
              simp only [World.step]; split <;> (rename_i heq; exact (congrArg (fun x => x.1.issued) heq).symm)
            | returnStart node name =>
              simp only [World.step]; split
              · rfl
              · split <;> rfl
              · rfl
            | returnDel node name ver =>
              simp only [World.step]; split <;> (rename_i heq; exact (congrArg (fun x => x.1.issued) heq).symm)
            | doneTable t => rfl
            | doneOk => rfl
            | doneBool b => rfl
            | doneErr e => rfl
          refine ⟨h.w.congr he, by rw [curSeq_congr he]; exact h.ge, by rw [get?_seq_congr he]; exact h.typed,
            by rw [hiss']; exact h.inc, by rw [hiss', curSeq_congr he]; exact h.le, by rw [hiss']; exact h.gt, ?_⟩
          intro x hx
          simp only [List.mem_cons, List.mem_filter] at hx
          rcases hx with rfl | ⟨hx, _⟩
          · exact hself
          · exact (h.calls x hx).congr he
        · have hcs : curSeq (s.w.step c).1 = curSeq s.w := by
            rw [curSeq_congr he, curSeq_propose_other s.w u hk]
          have hget : (s.w.step c).1.store.get? sequenceKey = s.w.store.get? sequenceKey := by
            rw [get?_seq_congr he, propose_store]
            rcases applyUpd_get? s.w.store s.w.index u sequenceKey with hg | ⟨hk', _⟩ | ⟨hk', _⟩
            · exact hg
            · exact absurd hk'.symm hk
            · exact absurd hk'.symm hk
          refine ⟨(winv_propose s.w u h.w).congr he, by rw [hcs]; exact h.ge, by rw [hget]; exact h.typed,
            by rw [hiss]; exact h.inc, by rw [hiss, hcs]; exact h.le, by rw [hiss]; exact h.gt, ?_⟩
          intro x hx
          simp only [List.mem_cons, List.mem_filter] at hx
          rcases hx with rfl | ⟨hx, _⟩
          · exact hself
          · exact (seqOK_propose_other s.w u hk x.2 (h.calls x hx)).congr he
      · -- the sequence write
        have : ∃ name cur ver k, c = .createSetSeq name cur ver k := by
          by_cases hex : ∃ name cur ver k, c = .createSetSeq name cur ver k
          · exact hex
          · exfalso; apply hns; intro name cur ver k heq; exact hex ⟨name, cur, ver, k, heq⟩
        obtain ⟨name, cur, ver, k, rfl⟩ := this
        obtain ⟨hvalid, hver, h3, h4⟩ := hc
        -- the value the call read is the current one whenever its write can succeed
        rcases applyUpd_cases s.w.store s.w.index ⟨.set, sequenceKey, .seq (cur + 1), ver⟩ with ⟨he, hv⟩ | ⟨p, hp, hne, he⟩
        · -- success: the sequence moves from `cur` to `cur + 1`, which is handed out
          have hcur : curSeq s.w = cur := by
            unfold curSeq
            cases hg : s.w.store.get? sequenceKey with
            | none => simp only; exact (h4 hg).symm
            | some p =>
              have hpv := h3 p hg (hv p hg)
              obtain ⟨k, v, vr⟩ := p
              simp only at hpv; subst hpv; rfl
          obtain ⟨w2, hstep, hst, hix, hnw, hiss⟩ : ∃ w2 : World,
              s.w.step (.createSetSeq name cur ver k) = (w2, afterSeq name (cur + 1) k) ∧
              w2.store = s.w.store.put ⟨sequenceKey, .seq (cur + 1), s.w.index⟩ ∧ w2.index = s.w.index + 1 ∧
              w2.now = s.w.now ∧ w2.issued = s.w.issued ++ [cur + 1] := by
            refine ⟨(s.w.step (.createSetSeq name cur ver k)).1, ?_, ?_, ?_, ?_, ?_⟩ <;>
              simp only [World.step, World.propose, he, applyOp]
          rw [hstep]
          have hgetnew : w2.store.get? sequenceKey = some ⟨sequenceKey, .seq (cur + 1), s.w.index⟩ := by
            rw [hst]; exact get?_put_same _ _
          have hcsnew : curSeq w2 = cur + 1 := by
            unfold curSeq; simp only [hgetnew]
          have hwnew : WInv w2 := by
            have := winv_propose s.w ⟨.set, sequenceKey, .seq (cur + 1), ver⟩ h.w
            refine this.congr ⟨?_, hix, hnw⟩
            rw [hst]
            simp only [propose_store, he, applyOp]
          refine ⟨hwnew, by rw [hcsnew]; have := h.ge; omega, ?_, ?_, ?_, ?_, ?_⟩
          · intro p hp; simp only at hp; rw [hgetnew] at hp; injection hp with hp; subst hp; exact ⟨_, rfl⟩
          · simp only
            rw [hiss, List.pairwise_append]
            refine ⟨h.inc, List.pairwise_singleton _ _, ?_⟩
            intro a ha b hb
            simp only [List.mem_singleton] at hb; subst hb
            have := h.le a ha; omega
          · intro i hi
            simp only [hiss, List.mem_append, List.mem_singleton] at hi
            simp only [hcsnew]
            rcases hi with hi | rfl
            · have := h.le i hi; omega
            · exact Nat.le_refl _
          · intro i hi
            simp only [hiss, List.mem_append, List.mem_singleton] at hi
            rcases hi with hi | rfl
            · exact h.gt i hi
            · have := h.ge; omega
          · intro x hx
            simp only [List.mem_cons, List.mem_filter] at hx
            rcases hx with rfl | ⟨hx, _⟩
            · exact seqOK_afterSeq _ _ _ _ hvalid
            · have hx' := h.calls x hx
              cases hxc : x.2 with
              | createSetSeq name' cur' ver' k' =>
                rw [hxc] at hx'
                obtain ⟨g1, g2, g3, g4⟩ := hx'
                refine ⟨g1, by simp only [hix]; omega, ?_, ?_⟩
                · intro p hp hpv
                  simp only at hp; rw [hgetnew] at hp; injection hp with hp; subst hp
                  simp only at hpv; omega
                · intro hn; simp only at hn; rw [hgetnew] at hn; cases hn
              | createGetSeq name' k' => rw [hxc] at hx'; exact hx'
              | createSetRec name' id' => rw [hxc] at hx'; exact hx'
              | deleteDel name' ver' => rw [hxc] at hx'; exact hx'
              | restoreMark n' t' v' i' => rw [hxc] at hx'; exact hx'
              | restoreReread n' i' => rw [hxc] at hx'; exact hx'
              | restoreSwitch n' i' t' v' => rw [hxc] at hx'; exact hx'
              | _ => trivial
        · -- version mismatch: nothing changes but the index
          have hstep : s.w.step (.createSetSeq name cur ver k) =
              ({ s.w with index := s.w.index + 1 }, .doneErr .versionMismatch) := by
            simp only [World.step, World.propose, he]
          rw [hstep]
          refine ⟨⟨fun q hq => Nat.lt_succ_of_lt (h.w.below q hq), h.w.pos, Nat.le_succ_of_le h.w.idx⟩,
            h.ge, h.typed, h.inc, h.le, h.gt, ?_⟩
          intro x hx
          simp only [List.mem_cons, List.mem_filter] at hx
          rcases hx with rfl | ⟨hx, _⟩
          · trivial
          · have hx' := h.calls x hx
            cases hxc : x.2 with
            | createSetSeq name' cur' ver' k' =>
              rw [hxc] at hx'
              obtain ⟨g1, g2, g3, g4⟩ := hx'
              exact ⟨g1, by simp only; omega, g3, g4⟩
            | createGetSeq name' k' => rw [hxc] at hx'; exact hx'
            | createSetRec name' id' => rw [hxc] at hx'; exact hx'
            | deleteDel name' ver' => rw [hxc] at hx'; exact hx'
            | restoreMark n' t' v' i' => rw [hxc] at hx'; exact hx'
            | restoreReread n' i' => rw [hxc] at hx'; exact hx'
            | restoreSwitch n' i' t' v' => rw [hxc] at hx'; exact hx'
            | _ => trivial
    · exact h

theorem seqInv_run (evs : List Ev) (s : System) (h : SeqInv s) : SeqInv (s.run evs) := by
  induction evs generalizing s with
  | nil => exact h
  | cons e rest ih => exact ih _ (seqInv_ev s e h)

end Regatta.Meta
