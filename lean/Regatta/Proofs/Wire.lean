import Regatta.Model.Wire
/-
  Round trips of the wire formats.
-/
namespace Regatta.Wire
open Regatta

theorem toUInt8_toNat_lt (n : Nat) (h : n < 256) : n.toUInt8.toNat = n := by
  simp [Nat.toUInt8, UInt8.toNat_ofNat, Nat.mod_eq_of_lt h]

/-- varint round trip, for every natural number and every continuation of the stream -/
theorem dec_enc_varint (n : Nat) (rest : Bytes) : decVarint (encVarint n ++ rest) = some (n, rest) := by
  induction n using Nat.strongRecOn with
  | _ n ih =>
    unfold encVarint
    split
    · rename_i h
      simp [decVarint, toUInt8_toNat_lt n (by omega), h]
    · rename_i h
      have h1 : (n % 128 + 128).toUInt8.toNat = n % 128 + 128 := toUInt8_toNat_lt _ (by omega)
      simp only [List.cons_append, decVarint, h1]
      have : ¬ (n % 128 + 128 < 128) := by omega
      simp only [this, if_false]
      rw [ih (n / 128) (by omega)]
      simp
      omega

theorem encVarint_ne_nil (n : Nat) : encVarint n ≠ [] := by
  unfold encVarint; split <;> simp

/-! ### frames -/

theorem unLe64_le64 (n : Nat) (h : n < 18446744073709551616) : unLe64 (le64 n) = n := by
  simp only [unLe64, le64, List.getD_cons_zero, List.getD_cons_succ]
  simp only [toUInt8_toNat_lt _ (Nat.mod_lt _ (by decide : 256 > 0))]
  omega

theorem le64_length (n : Nat) : (le64 n).length = 8 := rfl

/-- every message shorter than 2^64 bytes -/
def MsgsOK (ms : List Bytes) : Prop := ∀ m ∈ ms, m.length < 18446744073709551616

/-- **framing round trip**: reading the file back yields the non-empty messages that were written,
in order, with the same boundaries — for every message sequence -/
theorem parse_frames (ms : List Bytes) (hok : MsgsOK ms) :
    ∀ fuel, (ms.filter (fun m => !m.isEmpty)).length ≤ fuel →
      parseFrames fuel (frames ms) = some (ms.filter (fun m => !m.isEmpty)) := by
  induction ms with
  | nil => intro fuel _; cases fuel <;> simp [frames, parseFrames]
  | cons m rest ih =>
    intro fuel hf
    have hrest : MsgsOK rest := fun x hx => hok x (by simp [hx])
    have hfr : frames (m :: rest) = (if m.isEmpty then [] else le64 m.length ++ m) ++ frames rest := by
      simp [frames]
    rw [hfr]
    by_cases hm : m.isEmpty = true
    · simp only [hm, if_true, List.nil_append, List.filter_cons, Bool.not_true, Bool.false_eq_true, if_false] at hf ⊢
      exact ih hrest fuel hf
    · simp only [hm, Bool.false_eq_true, if_false, List.filter_cons, Bool.not_eq_true', Bool.not_false, if_true] at hf ⊢
      cases fuel with
      | zero => simp only [List.length_cons] at hf; omega
      | succ fuel =>
        have hne : (le64 m.length ++ m ++ frames rest).isEmpty = false := by simp [le64]
        simp only [parseFrames, hne, Bool.false_eq_true, if_false]
        have htake : (le64 m.length ++ m ++ frames rest).take 8 = le64 m.length := by
          rw [List.append_assoc, List.take_append_of_le_length (by rw [le64_length]; exact Nat.le_refl 8)]
          exact List.take_of_length_le (by rw [le64_length]; exact Nat.le_refl 8)
        have hdrop : (le64 m.length ++ m ++ frames rest).drop 8 = m ++ frames rest := by
          rw [List.append_assoc, List.drop_append_of_le_length (by rw [le64_length]; exact Nat.le_refl 8)]
          have : (le64 m.length).drop 8 = [] := List.drop_of_length_le (by rw [le64_length]; exact Nat.le_refl 8)
          rw [this]; rfl
        rw [htake, hdrop, le64_length, unLe64_le64 _ (hok m (by simp))]
        have h8 : ¬ 8 < 8 := by omega
        simp only [h8, if_false]
        have htake2 : (m ++ frames rest).take m.length = m := by simp
        have hdrop2 : (m ++ frames rest).drop m.length = frames rest := by simp
        rw [htake2, hdrop2]
        have hml : ¬ m.length < m.length := by omega
        simp only [hml, if_false]
        rw [ih hrest fuel (by simp only [List.length_cons] at hf; omega)]

/-! ### chunks -/

/-- **the chunk stream is the identity on the byte stream**: whatever sizes the reads of the file
return (i.e. wherever chunk boundaries fall), the receiver writes exactly the sender's bytes -/
theorem chunks_identity (reads : List Bytes) : readerWriteTo (writerReadFrom reads) = reads.flatten := by
  induction reads with
  | nil => rfl
  | cons r rest ih =>
    unfold readerWriteTo writerReadFrom at *
    simp only [List.filter_cons]
    by_cases hr : r.isEmpty = true
    · simp only [hr, Bool.not_true, Bool.false_eq_true, if_false, List.flatten_cons]
      rw [ih]
      have : r = [] := by simpa using hr
      simp [this]
    · simp only [hr, Bool.not_eq_true', Bool.not_false, if_true, List.map_cons, List.flatten_cons]
      rw [ih]

/-- every chunk the sender emits declares the length of its data -/
theorem chunks_len (reads : List Bytes) : ∀ c ∈ writerReadFrom reads, c.len = c.data.length ∧ c.data ≠ [] := by
  intro c hc
  unfold writerReadFrom at hc
  simp only [List.mem_map, List.mem_filter] at hc
  obtain ⟨r, ⟨_, hr⟩, rfl⟩ := hc
  exact ⟨rfl, by simpa using hr⟩

/-- `Reader.Read` with a buffer at least as large as the chunk returns the chunk's data unchanged -/
theorem reader_read (c : SnapshotChunk) (n : Nat) (hc : c.len = c.data.length) (hn : c.len ≤ n) :
    readerRead c n = some c.data := by
  unfold readerRead
  have : ¬ n < c.len := by omega
  simp only [this, if_false]
  rw [List.take_of_length_le (by omega)]

/-! ### flat messages -/

theorem tag_small (f wt : Nat) (h : f * 8 + wt < 128) : tag f wt = [(f * 8 + wt).toUInt8] := by
  unfold tag encVarint; simp [h]

theorem decField_bytes (f : Nat) (b rest : Bytes) (hf : f * 8 + 2 < 128) :
    decField (tag f 2 ++ encVarint b.length ++ b ++ rest) = some (.bytes f b, rest) := by
  unfold decField
  rw [tag_small f 2 hf]
  have h1 : decVarint ([(f * 8 + 2).toUInt8] ++ encVarint b.length ++ b ++ rest) = some (f * 8 + 2, encVarint b.length ++ b ++ rest) := by
    have e : (f * 8 + 2) % 256 = f * 8 + 2 := by omega
    simp [decVarint, e, hf]
  simp only [h1, bind, Option.bind]
  have hm : (f * 8 + 2) % 8 = 2 := by omega
  have hd : (f * 8 + 2) / 8 = f := by omega
  simp only [hm, hd]
  rw [List.append_assoc, dec_enc_varint]
  simp

theorem decField_varint (f n : Nat) (rest : Bytes) (hf : f * 8 < 128) :
    decField (tag f 0 ++ encVarint n ++ rest) = some (.varint f n, rest) := by
  unfold decField
  rw [tag_small f 0 (by omega)]
  have h1 : decVarint ([(f * 8 + 0).toUInt8] ++ encVarint n ++ rest) = some (f * 8, encVarint n ++ rest) := by
    have e : f * 8 % 256 = f * 8 := by omega
    simp [decVarint, e, hf]
  simp only [h1, bind, Option.bind]
  have hm : (f * 8) % 8 = 0 := by omega
  have hd : (f * 8) / 8 = f := by omega
  simp only [hm, hd, if_true]
  rw [dec_enc_varint]
  rfl

def Field.enc : Field → Bytes
  | .varint f n => tag f 0 ++ encVarint n
  | .bytes f b => tag f 2 ++ encVarint b.length ++ b

def Field.num : Field → Nat
  | .varint f _ => f
  | .bytes f _ => f

def encFields (fs : List Field) : Bytes := (fs.map Field.enc).flatten

theorem field_enc_ne_nil (f : Field) : f.enc ≠ [] := by
  cases f with
  | varint f n => simp [Field.enc, tag, encVarint_ne_nil]
  | bytes f b => simp [Field.enc, tag, encVarint_ne_nil]

theorem decField_enc (f : Field) (rest : Bytes) (hf : f.num < 15) : decField (f.enc ++ rest) = some (f, rest) := by
  cases f with
  | varint f n =>
    simp only [Field.num] at hf
    simp only [Field.enc]
    exact decField_varint f n rest (by omega)
  | bytes f b =>
    simp only [Field.num] at hf
    simp only [Field.enc]
    exact decField_bytes f b rest (by omega)

/-- a sequence of encoded fields decodes to that sequence -/
theorem decFields_enc (fs : List Field) (hf : ∀ f ∈ fs, f.num < 15) :
    ∀ fuel, fs.length ≤ fuel → decFields fuel (encFields fs) = some fs := by
  induction fs with
  | nil => intro fuel _; cases fuel <;> simp [encFields, decFields]
  | cons f rest ih =>
    intro fuel hfu
    cases fuel with
    | zero => simp only [List.length_cons] at hfu; omega
    | succ fuel =>
      have henc : encFields (f :: rest) = f.enc ++ encFields rest := by simp [encFields]
      rw [henc]
      have hne : (f.enc ++ encFields rest).isEmpty = false := by
        have := field_enc_ne_nil f
        cases hfe : f.enc with
        | nil => exact absurd hfe this
        | cons a t => rfl
      simp only [decFields, hne, Bool.false_eq_true, if_false]
      rw [decField_enc f _ (hf f (by simp))]
      simp only [bind, Option.bind]
      rw [ih (fun x hx => hf x (by simp [hx])) fuel (by simp only [List.length_cons] at hfu; omega)]
      rfl

/-- the fields `SnapshotChunk.MarshalVT` writes -/
def SnapshotChunk.fields (c : SnapshotChunk) : List Field :=
  (if c.data.isEmpty then [] else [.bytes 1 c.data]) ++ (if c.len = 0 then [] else [.varint 2 c.len]) ++
  (if c.index = 0 then [] else [.varint 3 c.index])

theorem SnapshotChunk.enc_eq (c : SnapshotChunk) : c.enc = encFields c.fields := by
  unfold SnapshotChunk.enc SnapshotChunk.fields encFields bytesField varintField
  cases hd : c.data.isEmpty <;> by_cases hl : c.len = 0 <;> by_cases hi : c.index = 0 <;>
    simp [hd, hl, hi, Field.enc]

theorem encFields_length (fs : List Field) : fs.length ≤ (encFields fs).length := by
  induction fs with
  | nil => simp [encFields]
  | cons f rest ih =>
    have h1 : encFields (f :: rest) = f.enc ++ encFields rest := by simp [encFields]
    have h2 : 1 ≤ f.enc.length := by
      have := field_enc_ne_nil f
      cases hfe : f.enc with
      | nil => exact absurd hfe this
      | cons a t => simp
    rw [h1, List.length_append, List.length_cons]; omega

theorem SnapshotChunk.decFields_enc (c : SnapshotChunk) : decFields c.enc.length c.enc = some c.fields := by
  rw [SnapshotChunk.enc_eq]
  have hnum : ∀ f ∈ c.fields, f.num < 15 := by
    intro f hf
    unfold SnapshotChunk.fields at hf
    simp only [List.mem_append] at hf
    rcases hf with (hf | hf) | hf <;> (split at hf <;> simp at hf <;> subst hf <;> simp [Field.num])
  exact Wire.decFields_enc c.fields hnum _ (encFields_length _)

/-- **SnapshotChunk survives encode/decode unchanged** -/
theorem SnapshotChunk.dec_enc (c : SnapshotChunk) : SnapshotChunk.dec c.enc = some c := by
  unfold SnapshotChunk.dec
  rw [SnapshotChunk.decFields_enc]
  simp only [bind, Option.bind, pure]
  obtain ⟨d, l, i⟩ := c
  unfold SnapshotChunk.fields
  cases hd : d.isEmpty <;> by_cases hl : l = 0 <;> by_cases hi : i = 0 <;>
    simp_all [List.foldl]

/-- `SnapshotChunk.ResetVT` as the generated code does it: `Data = Data[:0]`, scalars zeroed -/
def SnapshotChunk.resetVT (_ : SnapshotChunk) : SnapshotChunk := ⟨[], 0, 0⟩

/-- unmarshalling into an existing object: present fields overwrite, absent ones keep what is there -/
def SnapshotChunk.decInto (prev : SnapshotChunk) (b : Bytes) : Option SnapshotChunk := do
  let fs ← decFields b.length b
  pure (fs.foldl (fun c f => match f with
    | .bytes 1 d => { c with data := d }
    | .varint 2 n => { c with len := n }
    | .varint 3 n => { c with index := n }
    | _ => c) prev)

/-- **pool reuse**: decoding into an object recycled by `ResetVT` equals decoding into a fresh one,
whatever the object held before -/
theorem SnapshotChunk.pool_reuse (dirty : SnapshotChunk) (b : Bytes) :
    SnapshotChunk.decInto dirty.resetVT b = SnapshotChunk.dec b := rfl

/-- … and `ResetVT` is needed: without it a field absent from the message keeps the old value
(here the index 9 of the previous message survives) -/
theorem SnapshotChunk.no_reset_witness :
    SnapshotChunk.decInto ⟨[7], 1, 9⟩ (SnapshotChunk.enc ⟨[5], 1, 0⟩) = some ⟨[5], 1, 9⟩ ∧
    SnapshotChunk.dec (SnapshotChunk.enc ⟨[5], 1, 0⟩) = some ⟨[5], 1, 0⟩ := by
  refine ⟨?_, SnapshotChunk.dec_enc _⟩
  unfold SnapshotChunk.decInto
  rw [SnapshotChunk.decFields_enc]
  simp [SnapshotChunk.fields, bind, Option.bind, pure]

end Regatta.Wire
