import Regatta.Model.View
/-
  Helper lemmas about `mergeShardInfo` (model: `Regatta.View.merge`).
  The record splits into two independent halves (membership, leader), each a "max with payload".
-/
namespace Regatta.View

/-- invariant of views built from the empty view: no leader ⇒ term 0 -/
def Inv (s : ShardView) : Prop := s.leader = 0 → s.term = 0

theorem inv_empty (id : Nat) : Inv (empty id) := by intro _; rfl

theorem inv_merge (c u : ShardView) (h : Inv c) : Inv (merge c u) := by
  unfold Inv merge noLeader at *
  simp only
  split <;> split <;> (try split) <;> simp_all

theorem merge_idem (c u : ShardView) : merge (merge c u) u = merge c u := by
  unfold merge noLeader
  simp only
  split <;> split <;> (try split) <;> simp_all <;> omega

theorem term_mono (c u : ShardView) (h : Inv c) : c.term ≤ (merge c u).term := by
  unfold merge Inv noLeader at *
  simp only
  split <;> split <;> (try split) <;> simp_all <;> omega

theorem cci_mono (c u : ShardView) : c.cci ≤ (merge c u).cci := by
  unfold merge noLeader
  simp only
  split <;> split <;> (try split) <;> simp_all <;> omega

theorem shard_merge (c u : ShardView) : (merge c u).shard = c.shard := by
  unfold merge noLeader
  simp only
  split <;> split <;> (try split) <;> simp_all

/-- two updates are consistent if they do not contradict Raft's guarantees: one leader per term,
one membership per config-change index -/
def Cons (a b : ShardView) : Prop :=
  (a.leader ≠ 0 → b.leader ≠ 0 → a.term = b.term → a.leader = b.leader) ∧
  (a.cci = b.cci → a.replicas = b.replicas)

theorem Cons.symm {a b : ShardView} (h : Cons a b) : Cons b a :=
  ⟨fun hb ha e => (h.1 ha hb e.symm).symm, fun e => (h.2 e.symm).symm⟩

def mem (c : ShardView) : List Nat × Nat := (c.replicas, c.cci)
def lead (c : ShardView) : Nat × Nat := (c.leader, c.term)

def mergeMem (c u : List Nat × Nat) : List Nat × Nat := if c.2 < u.2 then u else c
def mergeLead (c u : Nat × Nat) : Nat × Nat :=
  if u.1 ≠ 0 then (if c.1 = 0 ∨ u.2 > c.2 then u else c) else c

theorem mem_merge (c u : ShardView) : mem (merge c u) = mergeMem (mem c) (mem u) := by
  unfold merge mem mergeMem noLeader
  simp only
  split <;> split <;> (try split) <;> simp_all

theorem lead_merge (c u : ShardView) : lead (merge c u) = mergeLead (lead c) (lead u) := by
  unfold merge lead mergeLead noLeader
  simp only
  split <;> split <;> (try split) <;> simp_all

theorem sv_ext (a b : ShardView) (h0 : a.shard = b.shard) (h1 : mem a = mem b) (h2 : lead a = lead b) : a = b := by
  rcases a with ⟨as, ar, ac, al, at'⟩
  rcases b with ⟨bs, br, bc, bl, bt⟩
  simp [mem, lead] at h0 h1 h2
  simp [h0, h1, h2]

theorem mergeMem_comm (c a b : List Nat × Nat) (h : a.2 = b.2 → a.1 = b.1) :
    mergeMem (mergeMem c a) b = mergeMem (mergeMem c b) a := by
  rcases c with ⟨cr, cc⟩; rcases a with ⟨ar, ac⟩; rcases b with ⟨br, bc⟩
  unfold mergeMem
  simp only at *
  by_cases e1 : cc < ac <;> by_cases e2 : cc < bc <;> simp only [e1, e2, if_true, if_false]
  · by_cases e3 : ac < bc
    · have : ¬ bc < ac := by omega
      simp [e3, this]
    · by_cases e4 : bc < ac
      · simp [e3, e4]
      · have e : ac = bc := by omega
        simp [e3, e4, h e, e]
  · have : ¬ ac < bc := by omega
    simp [this, e1]
  · have : ¬ bc < ac := by omega
    simp [this, e2]

theorem mergeLead_comm (c a b : Nat × Nat) (hc : c.1 = 0 → c.2 = 0)
    (h : a.1 ≠ 0 → b.1 ≠ 0 → a.2 = b.2 → a.1 = b.1)
    (ha : a.1 ≠ 0 → 0 < a.2) (hb : b.1 ≠ 0 → 0 < b.2) :
    mergeLead (mergeLead c a) b = mergeLead (mergeLead c b) a := by
  rcases c with ⟨cl, ct⟩; rcases a with ⟨al, at'⟩; rcases b with ⟨bl, bt⟩
  unfold mergeLead
  simp only at *
  by_cases l1 : al = 0
  · subst l1; simp
  by_cases l2 : bl = 0
  · subst l2; simp
  have ha' := ha l1
  have hb' := hb l2
  have h' := h l1 l2
  simp only [ne_eq, l1, l2, not_false_eq_true, if_true]
  by_cases l3 : cl = 0
  · have := hc l3; subst l3; subst this
    simp only [true_or, if_true, l1, l2, false_or]
    by_cases t3 : at' < bt
    · have : ¬ bt < at' := by omega
      simp [t3, this]
    · by_cases t4 : bt < at'
      · simp [t3, t4]
      · have e : at' = bt := by omega
        simp [t3, t4, h' e, e]
  · simp only [l3, false_or]
    by_cases t1 : ct < at' <;> by_cases t2 : ct < bt <;> simp only [t1, t2, if_true, if_false, l1, l2, l3, false_or]
    · by_cases t3 : at' < bt
      · have : ¬ bt < at' := by omega
        simp [t3, this]
      · by_cases t4 : bt < at'
        · simp [t3, t4]
        · have e : at' = bt := by omega
          simp [t3, t4, h' e, e]
    · have : ¬ at' < bt := by omega
      simp [this, t1]
    · have : ¬ bt < at' := by omega
      simp [this, t2]

/-- a named leader has a positive term (Raft terms start at 1) -/
def LeaderTermPos (u : ShardView) : Prop := u.leader ≠ 0 → 0 < u.term

theorem merge_comm (c a b : ShardView) (h : Inv c) (hab : Cons a b)
    (ha : LeaderTermPos a) (hb : LeaderTermPos b) :
    merge (merge c a) b = merge (merge c b) a := by
  apply sv_ext
  · simp [shard_merge]
  · rw [mem_merge, mem_merge, mem_merge, mem_merge]
    exact mergeMem_comm _ _ _ hab.2
  · rw [lead_merge, lead_merge, lead_merge, lead_merge]
    exact mergeLead_comm _ _ _ h hab.1 ha hb

/-- fold of `merge` over a list of updates for one shard -/
def viewOf (c : ShardView) (us : List ShardView) : ShardView := us.foldl merge c

theorem inv_viewOf (c : ShardView) (us : List ShardView) (h : Inv c) : Inv (viewOf c us) := by
  induction us generalizing c with
  | nil => exact h
  | cons u us ih => exact ih _ (inv_merge c u h)

/-- the updates of a list are pairwise consistent and name leaders only with positive terms -/
def Consistent (us : List ShardView) : Prop :=
  (∀ a ∈ us, ∀ b ∈ us, Cons a b) ∧ (∀ a ∈ us, LeaderTermPos a)

/-- order independence: every permutation of a consistent update list gives the same view -/
theorem viewOf_perm (c : ShardView) (us vs : List ShardView) (hc : Inv c) (hp : us.Perm vs)
    (hcons : Consistent us) : viewOf c us = viewOf c vs := by
  -- fold in the subtype of views satisfying `Inv`, where `merge` commutes unconditionally
  let f : {z : ShardView // Inv z} → ShardView → {z : ShardView // Inv z} :=
    fun z u => ⟨merge z.1 u, inv_merge z.1 u z.2⟩
  have key : ∀ (l : List ShardView) (z : {z : ShardView // Inv z}), (l.foldl f z).1 = l.foldl merge z.1 := by
    intro l
    induction l with
    | nil => intro z; rfl
    | cons u l ih => intro z; simp only [List.foldl]; rw [ih]
  have hcomm : ∀ x ∈ us, ∀ y ∈ us, ∀ z, f (f z x) y = f (f z y) x := by
    intro x hx y hy z
    apply Subtype.ext
    exact merge_comm z.1 x y z.2 (hcons.1 x hx y hy) (hcons.2 x hx) (hcons.2 y hy)
  have := List.Perm.foldl_eq' hp hcomm ⟨c, hc⟩
  have := congrArg Subtype.val this
  rw [key, key] at this
  exact this

/-- monotonicity along any update list once a leader is known -/
theorem viewOf_mono (l : List ShardView) (z : ShardView) (hz : Inv z) (hzl : z.leader ≠ 0) :
    z.term ≤ (viewOf z l).term ∧ (viewOf z l).leader ≠ 0 := by
  induction l generalizing z with
  | nil => exact ⟨Nat.le_refl _, hzl⟩
  | cons y l ihl =>
    have h2 : (merge z y).leader ≠ 0 := by
      unfold merge noLeader
      simp only
      split <;> split <;> (try split) <;> simp_all
    have h3 := term_mono z y hz
    have := ihl (merge z y) (inv_merge z y hz) h2
    exact ⟨Nat.le_trans h3 this.1, this.2⟩

/-- the term of the view is at least the term of every update that names a leader -/
theorem viewOf_term_ge (c : ShardView) (us : List ShardView) (hc : Inv c) (u : ShardView)
    (hu : u ∈ us) (hl : u.leader ≠ 0) : u.term ≤ (viewOf c us).term ∧ (viewOf c us).leader ≠ 0 := by
  induction us generalizing c with
  | nil => cases hu
  | cons x xs ih =>
    simp only [List.mem_cons] at hu
    rcases hu with rfl | hu
    · have h1 : u.term ≤ (merge c u).term ∧ (merge c u).leader ≠ 0 := by
        unfold merge noLeader Inv at *
        simp only
        split <;> split <;> (try split) <;> simp_all <;> omega
      have := viewOf_mono xs (merge c u) (inv_merge c u hc) h1.2
      exact ⟨Nat.le_trans h1.1 this.1, this.2⟩
    · exact ih (merge c x) (inv_merge c x hc) hu

/-- the leader/term pair of the view is the initial one or that of some update naming a leader -/
theorem viewOf_lead_from (c : ShardView) (us : List ShardView) :
    lead (viewOf c us) = lead c ∨ ∃ u ∈ us, u.leader ≠ 0 ∧ lead (viewOf c us) = lead u := by
  induction us generalizing c with
  | nil => exact Or.inl rfl
  | cons x xs ih =>
    have hx : lead (merge c x) = lead c ∨ (x.leader ≠ 0 ∧ lead (merge c x) = lead x) := by
      rw [lead_merge]
      unfold mergeLead lead
      simp only
      split
      · split
        · exact Or.inr ⟨by assumption, rfl⟩
        · exact Or.inl rfl
      · exact Or.inl rfl
    rcases ih (merge c x) with h | ⟨u, hu, hl, he⟩
    · rcases hx with hx | ⟨hl, hx⟩
      · exact Or.inl (by simp only [viewOf, List.foldl] at h ⊢; rw [h, hx])
      · exact Or.inr ⟨x, by simp, hl, by simp only [viewOf, List.foldl] at h ⊢; rw [h, hx]⟩
    · exact Or.inr ⟨u, by simp [hu], hl, he⟩

/-- same for the membership half -/
theorem viewOf_mem_from (c : ShardView) (us : List ShardView) :
    mem (viewOf c us) = mem c ∨ ∃ u ∈ us, c.cci < u.cci ∧ mem (viewOf c us) = mem u := by
  induction us generalizing c with
  | nil => exact Or.inl rfl
  | cons x xs ih =>
    have hx : mem (merge c x) = mem c ∨ (c.cci < x.cci ∧ mem (merge c x) = mem x) := by
      rw [mem_merge]
      unfold mergeMem mem
      simp only
      split
      · exact Or.inr ⟨by assumption, rfl⟩
      · exact Or.inl rfl
    have hm := cci_mono c x
    rcases ih (merge c x) with h | ⟨u, hu, hl, he⟩
    · rcases hx with hx | ⟨hl, hx⟩
      · exact Or.inl (by simp only [viewOf, List.foldl] at h ⊢; rw [h, hx])
      · exact Or.inr ⟨x, by simp, hl, by simp only [viewOf, List.foldl] at h ⊢; rw [h, hx]⟩
    · exact Or.inr ⟨u, by simp [hu], by omega, he⟩

theorem viewOf_cci_mono (l : List ShardView) (z : ShardView) : z.cci ≤ (viewOf z l).cci := by
  induction l generalizing z with
  | nil => exact Nat.le_refl _
  | cons y l ihl => exact Nat.le_trans (cci_mono z y) (ihl (merge z y))

theorem viewOf_cci_ge (c : ShardView) (us : List ShardView) (u : ShardView) (hu : u ∈ us) :
    u.cci ≤ (viewOf c us).cci := by
  induction us generalizing c with
  | nil => cases hu
  | cons x xs ih =>
    simp only [List.mem_cons] at hu
    rcases hu with rfl | hu
    · have h1 : u.cci ≤ (merge c u).cci := by
        unfold merge noLeader
        simp only
        split <;> split <;> (try split) <;> simp_all <;> omega
      exact Nat.le_trans h1 (viewOf_cci_mono xs (merge c u))
    · exact ih (merge c x) hu

end Regatta.View

namespace Regatta.View

/-! ### the multi-shard view -/

theorem get_put_same (v : View) (id : Nat) (s : ShardView) : (v.put id s).get id = some s := by
  induction v with
  | nil => simp [View.put, View.get]
  | cons hd t ih =>
    obtain ⟨i, x⟩ := hd
    simp only [View.put]
    split
    · simp [View.get]
    · rename_i hne
      simp only [View.get, List.find?_cons] at ih ⊢
      have : (i == id) = false := by simpa using hne
      simp only [this]
      exact ih

theorem get_put_other (v : View) (id id' : Nat) (s : ShardView) (h : id' ≠ id) :
    (v.put id s).get id' = v.get id' := by
  induction v with
  | nil =>
    have : (id == id') = false := by simpa using h.symm
    simp [View.put, View.get, this]
  | cons hd t ih =>
    obtain ⟨i, x⟩ := hd
    simp only [View.put]
    split
    · rename_i he
      have he' : i = id := by simpa using he
      subst he'
      have : (i == id') = false := by simpa using h.symm
      simp [View.get, List.find?_cons, this]
    · simp only [View.get, List.find?_cons] at ih ⊢
      split
      · rfl
      · exact ih

/-- the entry the merge loop works on: the stored view or the empty one -/
def View.cur (v : View) (id : Nat) : ShardView := (v.get id).getD (empty id)

theorem cur_update1 (v : View) (u : ShardView) (id : Nat) :
    (v.update1 u).cur id = if u.shard = id then merge (v.cur id) u else v.cur id := by
  unfold View.update1 View.cur
  by_cases h : u.shard = id
  · subst h; simp [get_put_same]
  · have : id ≠ u.shard := fun e => h e.symm
    simp [h, get_put_other _ _ _ _ this]

theorem cur_update (v : View) (us : List ShardView) (id : Nat) :
    (v.update us).cur id = viewOf (v.cur id) (us.filter (fun u => u.shard = id)) := by
  induction us generalizing v with
  | nil => rfl
  | cons u us ih =>
    simp only [View.update, List.foldl] at ih ⊢
    rw [ih, cur_update1]
    by_cases h : u.shard = id
    · simp [h, viewOf]
    · simp [h]

end Regatta.View
