import Regatta.Proofs.LogRun
/-
  The cache invariant and exactness of `Cached.QueryRaftLog` (model: `cachedQuery`).
-/
namespace Regatta.LogReader

/-- what is assumed about dragonboat's `Entries(low, high, maxSize)`: for a range inside the log it
returns a non-empty prefix of the history's `[low, high)` -/
def EntriesSpec (H : Nat → LEntry) (l : Log) : Prop :=
  ∀ F L max, l.first ≤ F → F < L → L ≤ l.last + 1 →
    ∃ j, 1 ≤ j ∧ j ≤ L - F ∧ l.entriesFn F L max = run H F j

/-- cache invariant: empty, or a contiguous run of history entries, none beyond index `a` -/
def CacheInv (H : Nat → LEntry) (a : Nat) (c : Cache) : Prop :=
  c.buffer = [] ∨ ∃ s k, 0 < k ∧ 0 < s ∧ c.buffer = run H s k ∧ s + k - 1 ≤ a

theorem CacheInv.mono {H : Nat → LEntry} {a b : Nat} {c : Cache} (h : CacheInv H a c) (hab : a ≤ b) :
    CacheInv H b c := by
  rcases h with h | ⟨s, k, h1, h2, h3, h4⟩
  · exact Or.inl h
  · exact Or.inr ⟨s, k, h1, h2, h3, by omega⟩

/-- the fresh cache created after an invalidation -/
theorem cacheInv_empty (H : Nat → LEntry) (a n : Nat) : CacheInv H a { size := n } := Or.inl rfl

theorem readLog_spec (H : Nat → LEntry) (l : Log) (hl : EntriesSpec H l) (F L max : Nat)
    (h1 : F < L) (h2 : L ≤ l.last + 1) :
    (readLog l F L max = .error .ahead ∧ F < l.first) ∨
    ∃ j, 1 ≤ j ∧ j ≤ L - F ∧ readLog l F L max = .ok (run H F j) := by
  unfold readLog
  have e1 : ¬ l.last + 1 = F := by omega
  have e2 : ¬ l.last < F := by omega
  simp only [e1, e2, if_false]
  by_cases e3 : F < l.first
  · exact Or.inl ⟨by simp [e3], e3⟩
  · obtain ⟨j, hj1, hj2, hj3⟩ := hl F L max (by omega) h1 h2
    exact Or.inr ⟨j, hj1, hj2, by simp [e3, hj3]⟩

theorem largest_run (H : Nat → LEntry) (hH : IdxOK H) (c : Cache) (s k : Nat) (hk : 0 < k)
    (hb : c.buffer = run H s k) : c.largest = s + k - 1 := by
  unfold Cache.largest
  rw [hb, getLast_run H s k hk]
  simp [hH (s + k - 1)]

theorem smallest_run (H : Nat → LEntry) (hH : IdxOK H) (c : Cache) (s k : Nat) (hk : 0 < k)
    (hb : c.buffer = run H s k) : c.smallest = s := by
  unfold Cache.smallest
  rw [hb, head_run H s k hk]
  simp [hH s]

theorem largest_empty (c : Cache) (hb : c.buffer = []) : c.largest = 0 := by
  simp [Cache.largest, hb]

/-- `put` of a run that is adjacent to the cached run (or into an empty cache) keeps the invariant -/
theorem put_inv (H : Nat → LEntry) (hH : IdxOK H) (a : Nat) (c : Cache) (hc : CacheInv H a c)
    (F j : Nat) (hj : 0 < j) (hF : 0 < F) (ha : F + j - 1 ≤ a)
    (hadj : c.buffer = [] ∨ F = c.largest + 1) : CacheInv H a (c.put (run H F j)) := by
  unfold Cache.put
  have hne : (run H F j).isEmpty = false := by
    rw [List.isEmpty_eq_false_iff, Ne, run_eq_nil]; omega
  simp only [hne, Bool.false_eq_true, if_false]
  -- the entries considered: the last `min size j` of the run
  have hes : (if (run H F j).length > c.size then (run H F j).drop ((run H F j).length - c.size) else run H F j)
      = run H (F + (j - min c.size j)) (min c.size j) := by
    rw [run_length]
    by_cases h : j > c.size
    · simp only [h, if_true, drop_run]
      have e1 : min c.size j = c.size := by omega
      rw [e1]
      congr 1
      omega
    · simp only [h, if_false]
      have e1 : min c.size j = j := by omega
      rw [e1]; simp
  rw [hes]
  generalize hm : min c.size j = m
  generalize hF' : F + (j - m) = F'
  by_cases hm0 : m = 0
  · -- cache of size 0: nothing is ever stored
    subst hm0
    rcases hc with hb | ⟨s, k, hk, hs, hb, hka⟩
    · simp [largest_empty c hb, Cache.makeRoomAndAppend, run, hb, CacheInv]
    · have hl := largest_run H hH c s k hk hb
      have : c.largest ≠ 0 := by omega
      simp only [this, if_false]
      simp [findIndex, run]
      exact Or.inr ⟨s, k, hk, hs, hb, hka⟩
  have hmpos : 0 < m := by omega
  have hmle : m ≤ c.size := by omega
  have hF'a : F' + m - 1 ≤ a := by omega
  have hF'pos : 0 < F' := by omega
  rcases hc with hb | ⟨s, k, hk, hs, hb, hka⟩
  · -- empty cache
    simp only [largest_empty c hb, if_true]
    unfold Cache.makeRoomAndAppend
    rw [run_length, hb]
    have : ¬ c.size < m + ([] : List LEntry).length := by simp; omega
    simp only [this, if_false, List.nil_append]
    exact Or.inr ⟨F', m, hmpos, hF'pos, rfl, hF'a⟩
  · have hl := largest_run H hH c s k hk hb
    have hadj' : F = s + k := by
      rcases hadj with h | h
      · rw [hb, run_eq_nil] at h; omega
      · omega
    have : c.largest ≠ 0 := by omega
    simp only [this, if_false]
    rw [findIndex_gt_run H hH, run_length]
    have hi : min m (c.largest + 1 - F') = 0 := by omega
    simp only [hi]
    have : ¬ (0 = m) := by omega
    simp only [this, if_false, List.drop_zero]
    unfold Cache.makeRoomAndAppend
    rw [run_length, hb, run_length]
    by_cases hroom : c.size < m + k
    · simp only [hroom, if_true, drop_run]
      by_cases hall : m + k - c.size ≥ k
      · -- the old run is dropped completely
        have : k - (m + k - c.size) = 0 := by omega
        rw [this, run_zero, List.nil_append]
        exact Or.inr ⟨F', m, hmpos, hF'pos, rfl, hF'a⟩
      · -- part of the old run stays; then the new entries are the whole run and adjacent
        have hmj : m = j := by omega
        have hF'F : F' = F := by omega
        have hd : m + k - c.size < k := by omega
        have hadj2 : F' = (s + (m + k - c.size)) + (k - (m + k - c.size)) := by omega
        rw [hadj2, run_append]
        exact Or.inr ⟨s + (m + k - c.size), k - (m + k - c.size) + m, by omega, by omega, rfl, by omega⟩
    · simp only [hroom, if_false]
      have hmj : m = j := by omega
      have hF'F : F' = s + k := by omega
      rw [hF'F, run_append]
      exact Or.inr ⟨s, k + m, by omega, hs, rfl, by omega⟩

/-- `cache.get` on a cached run `[s, s+k)` for a query `[F, L)` whose end lies beyond the run -/
theorem get_spec (H : Nat → LEntry) (hH : IdxOK H) (c : Cache) (s k F L : Nat) (hk : 0 < k)
    (hb : c.buffer = run H s k) (hFL : F < L) (hL : s + k - 1 < L) :
    c.get F L =
      if s + k - 1 < F then ([], (0, 0), (F, L))
      else (run H (max s F) (s + k - max s F),
            if F < s then (F, s) else (0, 0),
            if L > s + k then (s + k, L) else (0, 0)) := by
  unfold Cache.get
  have hne : c.buffer.isEmpty = false := by
    rw [hb, List.isEmpty_eq_false_iff, Ne, run_eq_nil]; omega
  rw [smallest_run H hH c s k hk hb, largest_run H hH c s k hk hb]
  simp only [hne, Bool.false_eq_true, if_false]
  have e1 : ¬ s > L := by omega
  simp only [e1, if_false]
  by_cases e2 : s + k - 1 < F
  · simp [e2]
  · simp only [e2, if_false]
    rw [hb, findIndex_ge_run H hH, findIndex_ge_run H hH]
    have hstop : min k (L - s) = k := by omega
    rw [hstop, take_run, drop_run]
    have hmin : min k k = k := by omega
    rw [hmin]
    have hstart : s + min k (F - s) = max s F := by omega
    have hlen : k - min k (F - s) = s + k - max s F := by omega
    rw [hstart, hlen]
    have hne2 : (run H (max s F) (s + k - max s F)).isEmpty = false := by
      rw [List.isEmpty_eq_false_iff, Ne, run_eq_nil]; omega
    simp only [hne2, Bool.false_eq_true, if_false]
    have e3 : (L > s + k - 1 + 1) = (L > s + k) := by
      have : s + k - 1 + 1 = s + k := by omega
      rw [this]
    have e4 : s + k - 1 + 1 = s + k := by omega
    simp only [e4]

/-- a query answer is exact: an error, or a non-empty run of the history starting at the requested
index and staying inside `[F, L)` -/
def Exact (H : Nat → LEntry) (F L : Nat) (ans : Except LogErr (List LEntry)) : Prop :=
  (∃ e, ans = .error e) ∨ ∃ j, 1 ≤ j ∧ j ≤ L - F ∧ ans = .ok (run H F j)

theorem getLast_index_run (H : Nat → LEntry) (hH : IdxOK H) (s k : Nat) (hk : 0 < k) :
    (run H s k).getLast?.map (·.index) = some (s + k - 1) := by
  rw [getLast_run H s k hk]; simp [hH (s + k - 1)]

theorem head_index_run (H : Nat → LEntry) (hH : IdxOK H) (s k : Nat) (hk : 0 < k) :
    (run H s k).head?.map (·.index) = some s := by
  rw [head_run H s k hk]; simp [hH s]

/-- **the cache never changes the answer**: for every cache state satisfying the invariant, every
requested index `F ≤ a` and every size limit, `Cached.QueryRaftLog` on `[F, a+1)` answers with an
error of the log or with a non-empty run of the log's own entries starting at `F`, none beyond `a`;
and the invariant holds for the new cache -/
theorem cachedQuery_exact (H : Nat → LEntry) (hH : IdxOK H) (l : Log) (hl : EntriesSpec H l)
    (c : Cache) (a : Nat) (hc : CacheInv H a c) (F mx : Nat) (hF : 0 < F) (hFa : F ≤ a) (hal : a ≤ l.last) :
    Exact H F (a + 1) (cachedQuery l c F (a + 1) mx).1 ∧ CacheInv H a (cachedQuery l c F (a + 1) mx).2 := by
  unfold cachedQuery
  have hne : ¬ F = a + 1 := by omega
  simp only [hne, if_false]
  rcases hc with hb | ⟨s, k, hk, hs, hb, hka⟩
  · -- empty cache: everything comes from the log and is cached
    have hget : c.get F (a + 1) = ([], (F, a + 1), (0, 0)) := by
      unfold Cache.get; simp [hb]
    rw [hget]
    have hpre : F ≠ 0 ∧ a + 1 ≠ 0 := by omega
    rw [if_pos hpre]
    rcases readLog_spec H l hl F (a + 1) mx (by omega) (by omega) with ⟨he, _⟩ | ⟨j, hj1, hj2, he⟩
    · rw [he]; exact ⟨Or.inl ⟨_, rfl⟩, Or.inl hb⟩
    · rw [he]
      have hne2 : (run H F j).isEmpty = false := by rw [List.isEmpty_eq_false_iff, Ne, run_eq_nil]; omega
      simp only [hne2, Bool.false_eq_true, if_false, List.isEmpty_nil, Bool.not_true, false_and]
      refine ⟨Or.inr ⟨j, hj1, hj2, rfl⟩, ?_⟩
      have : c.buffer.length = 0 := by simp [hb]
      simp only [this, if_true]
      exact put_inv H hH a c (Or.inl hb) F j (by omega) hF (by omega) (Or.inl hb)
  · have hcinv : CacheInv H a c := Or.inr ⟨s, k, hk, hs, hb, hka⟩
    rw [get_spec H hH c s k F (a + 1) hk hb (by omega) (by omega)]
    by_cases e2 : s + k - 1 < F
    · -- cached run entirely below the request: read from the log, cache if adjacent
      simp only [e2, if_true]
      have hpre : ¬ ((0 : Nat) ≠ 0 ∧ (0 : Nat) ≠ 0) := by simp
      have happ : F ≠ 0 ∧ a + 1 ≠ 0 := by omega
      rw [if_neg hpre, if_pos happ]
      rcases readLog_spec H l hl F (a + 1) mx (by omega) (by omega) with ⟨he, _⟩ | ⟨j, hj1, hj2, he⟩
      · rw [he]; exact ⟨Or.inl ⟨_, rfl⟩, hcinv⟩
      · rw [he]
        have hne2 : (run H F j).isEmpty = false := by rw [List.isEmpty_eq_false_iff, Ne, run_eq_nil]; omega
        simp only [hne2, Bool.false_eq_true, if_false, List.isEmpty_nil, Bool.not_true]
        refine ⟨Or.inr ⟨j, hj1, hj2, rfl⟩, ?_⟩
        split
        · rename_i hadj
          rw [head_run H F j (by omega)] at hadj
          simp only [Option.map_some, hH F, Option.some.injEq] at hadj
          exact put_inv H hH a c hcinv F j (by omega) hF (by omega) (Or.inr (by omega))
        · exact hcinv
    · simp only [e2, if_false]
      have hcl : 0 < s + k - max s F := by omega
      have hcne : (run H (max s F) (s + k - max s F)).isEmpty = false := by
        rw [List.isEmpty_eq_false_iff, Ne, run_eq_nil]; omega
      by_cases e3 : F < s
      · -- the request starts before the cached run: read the gap from the log
        have hmax : max s F = s := by omega
        have hpre : F ≠ 0 ∧ s ≠ 0 := by omega
        have hlen : s + k - s = k := by omega
        simp only [e3, if_true, hmax, hlen]
        rw [if_pos hpre]
        rcases readLog_spec H l hl F s mx e3 (by omega) with ⟨he, _⟩ | ⟨j, hj1, hj2, he⟩
        · rw [he]; exact ⟨Or.inl ⟨_, rfl⟩, hcinv⟩
        · rw [he]
          have hne2 : (run H F j).isEmpty = false := by rw [List.isEmpty_eq_false_iff, Ne, run_eq_nil]; omega
          have hcne' : (run H s k).isEmpty = false := by rw [List.isEmpty_eq_false_iff, Ne, run_eq_nil]; omega
          simp only [hne2, Bool.false_eq_true, if_false, hcne', Bool.not_false, true_and]
          rw [getLast_index_run H hH F j (by omega), head_run H s k hk]
          simp only [Option.map_some, hH s, Option.some.injEq]
          by_cases hjoin : F + j - 1 = s - 1
          · -- joins without a hole: log slice ++ cached run, cut by fixSize
            simp only [hjoin, if_true]
            have hsj : s = F + j := by omega
            rw [hsj, run_append]
            obtain ⟨j', h1, h2, h3⟩ := fixSize_run H F (j + k) mx (by omega)
            rw [h3]
            exact ⟨Or.inr ⟨j', h1, by omega, rfl⟩, hcinv⟩
          · simp only [hjoin, if_false]
            refine ⟨Or.inr ⟨j, hj1, by omega, rfl⟩, ?_⟩
            have : ¬ c.buffer.length = 0 := by rw [hb, run_length]; omega
            simp only [this, if_false]
            exact hcinv
      · -- the request starts inside the cached run
        have hmax : max s F = F := by omega
        have hpre : ¬ ((0 : Nat) ≠ 0 ∧ (0 : Nat) ≠ 0) := by simp
        simp only [e3, if_false, hmax]
        rw [if_neg hpre]
        by_cases e4 : a + 1 > s + k
        · -- more entries beyond the cached run: read them, cache them, answer cached ++ log
          have happ : s + k ≠ 0 ∧ a + 1 ≠ 0 := by omega
          simp only [e4, if_true]
          rw [if_pos happ]
          rcases readLog_spec H l hl (s + k) (a + 1) mx (by omega) (by omega) with ⟨he, _⟩ | ⟨j, hj1, hj2, he⟩
          · rw [he]; exact ⟨Or.inl ⟨_, rfl⟩, hcinv⟩
          · rw [he]
            have hne2 : (run H (s + k) j).isEmpty = false := by rw [List.isEmpty_eq_false_iff, Ne, run_eq_nil]; omega
            have hcne' : (run H F (s + k - F)).isEmpty = false := by rw [List.isEmpty_eq_false_iff, Ne, run_eq_nil]; omega
            simp only [hne2, Bool.false_eq_true, if_false, hcne', Bool.not_false, if_true]
            have : run H F (s + k - F) ++ run H (s + k) j = run H F (s + k - F + j) := by
              have h := run_append H F (s + k - F) j
              have hadj : F + (s + k - F) = s + k := by omega
              rw [hadj] at h
              exact h
            rw [this]
            obtain ⟨j', h1, h2, h3⟩ := fixSize_run H F (s + k - F + j) mx (by omega)
            rw [h3]
            refine ⟨Or.inr ⟨j', h1, by omega, rfl⟩, ?_⟩
            exact put_inv H hH a c hcinv (s + k) j (by omega) (by omega) (by omega)
              (Or.inr (by rw [largest_run H hH c s k hk hb]; omega))
        · -- the cached run reaches the end of the range
          have happ : ¬ ((0 : Nat) ≠ 0 ∧ (0 : Nat) ≠ 0) := by simp
          simp only [e4, if_false]
          rw [if_neg happ]
          obtain ⟨j', h1, h2, h3⟩ := fixSize_run H F (s + k - F) mx (by omega)
          rw [h3]
          exact ⟨Or.inr ⟨j', h1, by omega, rfl⟩, hcinv⟩

end Regatta.LogReader
