import Regatta.Model.Crash
/-
  Crash safety of the directory protocol: an invariant `Inv` that holds between operations and
  after every crash, and a durable-side condition `DurSafe` that holds after EVERY file-system step
  of every operation and makes the crash image satisfy `Inv` again.
-/
namespace Regatta.Crash

/-- the durable `current` names a durably linked directory whose durable store is not behind the last sync -/
def GoodD (s : St) (n : Name) : Prop := n ∈ s.entsD ∧ s.lastSync ≤ (s.pd n).dur.idx

/-- what a crash at this very moment needs -/
def DurSafe (s : St) : Prop :=
  (s.dirD = true → ∀ f, s.curD = some f → ∃ n, f.sdata = some n ∧ GoodD s n) ∧
  ((s.dirD = false ∨ s.curD = none) → s.lastSync = 0)

structure Inv (s : St) : Prop where
  dur : DurSafe s
  volCur : ∀ f, s.cur = some f → ∃ n, f.data = some n ∧ f.sdata = some n ∧ n ∈ s.ents ∧ s.lastSync ≤ (s.pd n).dur.idx
  volNone : s.cur = none → s.lastSync = 0
  curEq : s.curD = s.cur
  dirs : s.cur.isSome = true → s.dirD = true
  dirVD : s.dirD = true → s.dirV = true
  mono : ∀ n, (s.pd n).dur.idx ≤ (s.pd n).vol.idx
  live : ∀ m, s.live = some m → s.curName = some m

theorem DurSafe.frame {s s' : St} (h : DurSafe s) (h1 : s'.dirD = s.dirD) (h2 : s'.curD = s.curD)
    (h3 : s'.entsD = s.entsD) (h4 : s'.pd = s.pd) (h5 : s'.lastSync = s.lastSync) : DurSafe s' := by
  unfold DurSafe GoodD at *
  rw [h1, h2, h3, h4, h5]; exact h

/-- nothing durable was lost or re-pointed: only durable stores moved forward -/
theorem DurSafe.of_le {s s' : St} (h : DurSafe s) (h1 : s'.dirD = s.dirD) (h2 : s'.curD = s.curD)
    (h3 : s'.entsD = s.entsD) (h4 : ∀ n, n ∈ s.entsD → (s.pd n).dur.idx ≤ (s'.pd n).dur.idx)
    (h5 : s'.lastSync = s.lastSync) : DurSafe s' := by
  unfold DurSafe GoodD at *
  rw [h1, h2, h3, h5]
  refine ⟨?_, h.2⟩
  intro hd f hf
  obtain ⟨n, hn, hm, hl⟩ := h.1 hd f hf
  exact ⟨n, hn, hm, Nat.le_trans hl (h4 n hm)⟩

/-- the crash image of a safe state satisfies the invariant (with no process running) -/
theorem inv_crash {s : St} (h : DurSafe s) : Inv s.crash ∧ s.crash.live = none ∧ s.crash.lastSync = s.lastSync := by
  obtain ⟨h1, h2⟩ := h
  unfold St.crash
  by_cases hd : s.dirD = true
  · rw [if_pos hd]
    refine ⟨⟨⟨?_, ?_⟩, ?_, ?_, rfl, ?_, ?_, ?_, ?_⟩, rfl, rfl⟩
    · intro _ f hf
      simp only [Option.map_eq_some_iff] at hf
      obtain ⟨g, hg, rfl⟩ := hf
      obtain ⟨n, hn, hm, hl⟩ := h1 hd g hg
      exact ⟨n, hn, hm, hl⟩
    · intro hc
      simp only [Option.map_eq_none_iff] at hc
      rcases hc with hc | hc
      · exact absurd hd (by simpa using hc)
      · exact h2 (Or.inr hc)
    · intro f hf
      simp only [Option.map_eq_some_iff] at hf
      obtain ⟨g, hg, rfl⟩ := hf
      obtain ⟨n, hn, hm, hl⟩ := h1 hd g hg
      exact ⟨n, hn, hn, hm, hl⟩
    · intro hc
      simp only [Option.map_eq_none_iff] at hc
      exact h2 (Or.inr hc)
    · intro _; exact hd
    · intro _; rfl
    · intro n; exact Nat.le_refl _
    · intro m hm; cases hm
  · have hd' : s.dirD = false := by cases h : s.dirD <;> simp_all
    rw [if_neg (by simp [hd'])]
    have h0 := h2 (Or.inl hd')
    refine ⟨⟨⟨?_, ?_⟩, ?_, ?_, rfl, ?_, ?_, ?_, ?_⟩, rfl, rfl⟩
    · intro hc; exact absurd hc hd
    · intro _; exact h0
    · intro f hf; cases hf
    · intro _; exact h0
    · intro hc; cases hc
    · intro hc; exact absurd hc hd
    · intro n; exact Nat.le_refl _
    · intro m hm; cases hm

/-- every prefix of a list of steps ends in a state satisfying `C` -/
def Along (C : St → Prop) (s : St) (l : List FsOp) : Prop := ∀ k, C (s.run (l.take k))

theorem along_nil {C : St → Prop} {s : St} (h : C s) : Along C s [] := by
  intro k; simpa [St.run] using h

theorem along_cons {C : St → Prop} {s : St} {op : FsOp} {l : List FsOp} (h : C s) (hl : Along C (s.apply op) l) :
    Along C s (op :: l) := by
  intro k
  cases k with
  | zero => simpa [St.run] using h
  | succ k => simpa [St.run] using hl k

theorem run_append (s : St) (a b : List FsOp) : s.run (a ++ b) = (s.run a).run b := by
  simp [St.run, List.foldl_append]

theorem along_append {C : St → Prop} {s : St} {a b : List FsOp} (ha : Along C s a) (hb : Along C (s.run a) b) :
    Along C s (a ++ b) := by
  intro k
  rw [List.take_append]
  rw [run_append]
  by_cases hk : k ≤ a.length
  · have : k - a.length = 0 := by omega
    rw [this, List.take_zero]
    simpa [St.run] using ha k
  · have : a.take k = a := List.take_of_length_le (by omega)
    rw [this]
    exact hb _

/-- every prefix of a list of steps ends in a crash-safe state -/
abbrev SafeAlong (s : St) (l : List FsOp) : Prop := Along DurSafe s l

theorem safeAlong_nil {s : St} (h : DurSafe s) : SafeAlong s [] := along_nil h
theorem safeAlong_cons {s : St} {op : FsOp} {l : List FsOp} (h : DurSafe s) (hl : SafeAlong (s.apply op) l) :
    SafeAlong s (op :: l) := along_cons h hl
theorem safeAlong_append {s : St} {a b : List FsOp} (ha : SafeAlong s a) (hb : SafeAlong (s.run a) b) :
    SafeAlong s (a ++ b) := along_append ha hb

/-! ### publishing a directory: SaveCurrentDBDirName + ReplaceCurrentDBFile -/

theorem publish_run (s : St) (n : Name) :
    s.run (publish n) = { s with cur := some ⟨some n, some n⟩, upd := none, curD := some ⟨some n, some n⟩,
                                 updD := none, entsD := s.ents } := rfl

/-- what has to be true of the directory that is about to be published -/
structure Publishable (s : St) (n : Name) : Prop where
  dur : DurSafe s
  dirD : s.dirD = true
  volCur : ∀ f, s.cur = some f → ∃ m, f.sdata = some m ∧ m ∈ s.ents ∧ s.lastSync ≤ (s.pd m).dur.idx
  volNone : s.cur = none → s.lastSync = 0
  mem : n ∈ s.ents
  good : s.lastSync ≤ (s.pd n).dur.idx

theorem publish_safe {s : St} {n : Name} (h : Publishable s n) : SafeAlong s (publish n) := by
  have hd := h.dur
  unfold publish
  refine safeAlong_cons hd (safeAlong_cons (hd.frame rfl rfl rfl rfl rfl) (safeAlong_cons (hd.frame rfl rfl rfl rfl rfl)
    (safeAlong_cons (hd.frame rfl rfl rfl rfl rfl) ?_)))
  -- after the first directory sync: the durable `current` is the volatile one
  have h4 : DurSafe ((((s.apply .createUpd).apply (.writeUpd n)).apply .syncUpd).apply .syncDir) := by
    refine ⟨?_, ?_⟩
    · intro _ f hf
      obtain ⟨m, hm, hme, hl⟩ := h.volCur f hf
      exact ⟨m, hm, hme, hl⟩
    · intro hc
      rcases hc with hc | hc
      · exact absurd h.dirD (by simpa [St.apply] using hc)
      · exact h.volNone hc
  refine safeAlong_cons h4 (safeAlong_cons (h4.frame ?_ ?_ ?_ ?_ ?_) (safeAlong_nil ?_))
  · rfl
  · rfl
  · rfl
  · rfl
  · rfl
  · refine ⟨?_, ?_⟩
    · intro _ f hf
      cases hf
      exact ⟨n, rfl, h.mem, h.good⟩
    · intro hc
      rcases hc with hc | hc
      · exact absurd h.dirD (by simpa [St.apply] using hc)
      · cases hc


/-! ### the operations -/

/-- when an operation may start -/
def Enabled (s : St) : Event → Prop
  | .open n => s.live = none ∧ n ∉ s.ents ∧ n ∉ s.entsD
  | .update j => ∃ m, s.live = some m ∧ (s.pd m).vol.idx ≤ j
  | .sync => s.live.isSome = true
  | .flush => s.live.isSome = true
  | .close => s.live.isSome = true
  | .saveCkpt => True
  -- a snapshot is only installed if it is not behind the replica (dragonboat)
  | .recoverSnap n j => (∃ m, s.live = some m ∧ (s.pd m).vol.idx ≤ j) ∧ n ∉ s.ents ∧ n ∉ s.entsD
  | .recoverCkpt n j => (∃ m, s.live = some m ∧ (s.pd m).vol.idx ≤ j) ∧ n ∉ s.ents ∧ n ∉ s.entsD

/-- facts about the live store of a running state machine -/
theorem Inv.liveFacts {s : St} (h : Inv s) {m : Name} (hm : s.live = some m) :
    s.cur = some ⟨some m, some m⟩ ∧ s.curD = some ⟨some m, some m⟩ ∧ m ∈ s.ents ∧ m ∈ s.entsD ∧
      s.lastSync ≤ (s.pd m).dur.idx ∧ s.dirD = true := by
  have hn := h.live m hm
  unfold St.curName at hn
  cases hc : s.cur with
  | none => rw [hc] at hn; cases hn
  | some f =>
    rw [hc] at hn
    obtain ⟨n, h1, h2, h3, h4⟩ := h.volCur f hc
    have hnm : n = m := by
      have : f.data = some m := hn
      rw [h1] at this; exact Option.some.inj this
    subst hnm
    have hf : f = ⟨some n, some n⟩ := by cases f; simp_all
    subst hf
    have hdd : s.dirD = true := h.dirs (by rw [hc]; rfl)
    have hcd : s.curD = some ⟨some n, some n⟩ := by rw [h.curEq, hc]
    obtain ⟨n', hn', hm', _⟩ := h.dur.1 hdd _ hcd
    cases hn'
    exact ⟨rfl, hcd, h3, hm', h4, hdd⟩

theorem setPd_pd (s : St) (n : Name) (p : PDir) (m : Name) : (s.setPd n p).pd m = if m = n then p else s.pd m := rfl

theorem update_ok {s : St} {j : Nat} (h : Inv s) (he : Enabled s (.update j)) :
    SafeAlong s (ops s (.update j)) ∧ Inv (s.run (ops s (.update j))) := by
  obtain ⟨m, hm, hj⟩ := he
  obtain ⟨hc, hcd, hme, hmd, hl, hdd⟩ := h.liveFacts hm
  have e : s.apply (.dbApply j) = s.setPd m ⟨.db j, (s.pd m).dur⟩ := by simp [St.apply, hm]
  have hs : DurSafe (s.setPd m ⟨.db j, (s.pd m).dur⟩) := by
    refine h.dur.of_le rfl rfl rfl ?_ rfl
    intro n _; rw [setPd_pd]; split
    · subst_vars; exact Nat.le_refl _
    · exact Nat.le_refl _
  have hr : s.run (ops s (.update j)) = s.setPd m ⟨.db j, (s.pd m).dur⟩ := by simp [ops, St.run, e]
  refine ⟨?_, ?_⟩
  · unfold ops; exact safeAlong_cons h.dur (by rw [e]; exact safeAlong_nil hs)
  · rw [hr]
    refine ⟨hs, ?_, h.volNone, h.curEq, h.dirs, h.dirVD, ?_, h.live⟩
    · intro f hf
      obtain ⟨n, h1, h2, h3, h4⟩ := h.volCur f hf
      refine ⟨n, h1, h2, h3, ?_⟩
      rw [setPd_pd]; split
      · subst_vars; exact h4
      · exact h4
    · intro n; rw [setPd_pd]; split
      · subst_vars; exact Nat.le_trans (h.mono _) hj
      · exact h.mono n

/-- after a flush of the live store -/
theorem flush_state {s : St} {m : Name} (h : Inv s) (hm : s.live = some m) :
    let s' := s.setPd m ⟨(s.pd m).vol, (s.pd m).vol⟩
    s.apply .dbFlush = s' ∧ Inv s' := by
  obtain ⟨hc, hcd, hme, hmd, hl, hdd⟩ := h.liveFacts hm
  have e : s.apply .dbFlush = s.setPd m ⟨(s.pd m).vol, (s.pd m).vol⟩ := by simp [St.apply, hm]
  have hs : DurSafe (s.setPd m ⟨(s.pd m).vol, (s.pd m).vol⟩) := by
    refine h.dur.of_le rfl rfl rfl ?_ rfl
    intro n _; rw [setPd_pd]; split
    · subst_vars; exact h.mono _
    · exact Nat.le_refl _
  refine ⟨e, hs, ?_, h.volNone, h.curEq, h.dirs, h.dirVD, ?_, h.live⟩
  · intro f hf
    obtain ⟨n, h1, h2, h3, h4⟩ := h.volCur f hf
    refine ⟨n, h1, h2, h3, ?_⟩
    rw [setPd_pd]; split
    · subst_vars; exact Nat.le_trans h4 (h.mono _)
    · exact h4
  · intro n; rw [setPd_pd]; split
    · exact Nat.le_refl _
    · exact h.mono n

theorem flush_ok {s : St} (h : Inv s) (he : Enabled s .flush) :
    SafeAlong s (ops s .flush) ∧ Inv (s.run (ops s .flush)) := by
  obtain ⟨m, hm⟩ := Option.isSome_iff_exists.mp he
  obtain ⟨e, hi⟩ := flush_state h hm
  refine ⟨?_, ?_⟩
  · unfold ops; exact safeAlong_cons h.dur (by rw [e]; exact safeAlong_nil hi.dur)
  · have : s.run (ops s .flush) = s.apply .dbFlush := rfl
    rw [this, e]; exact hi

theorem close_ok {s : St} (h : Inv s) (he : Enabled s .close) :
    SafeAlong s (ops s .close) ∧ Inv (s.run (ops s .close)) ∧ (s.run (ops s .close)).live = none := by
  obtain ⟨m, hm⟩ := Option.isSome_iff_exists.mp he
  obtain ⟨e, hi⟩ := flush_state h hm
  have hr : s.run (ops s .close) = (s.apply .dbFlush).apply .dropLive := rfl
  have hi2 : Inv ((s.apply .dbFlush).apply .dropLive) := by
    rw [e]
    exact ⟨hi.dur.frame rfl rfl rfl rfl rfl, hi.volCur, hi.volNone, hi.curEq, hi.dirs, hi.dirVD, hi.mono,
      fun m hm => by cases hm⟩
  refine ⟨?_, ?_, ?_⟩
  · unfold ops
    refine safeAlong_cons h.dur (safeAlong_cons (by rw [e]; exact hi.dur) (safeAlong_nil hi2.dur))
  · rw [hr]; exact hi2
  · rw [hr]; rfl

theorem sync_ok {s : St} (h : Inv s) (he : Enabled s .sync) :
    SafeAlong s (ops s .sync) ∧ Inv (s.run (ops s .sync)) ∧
      (s.run (ops s .sync)).liveIdx = some (s.run (ops s .sync)).lastSync := by
  obtain ⟨m, hm⟩ := Option.isSome_iff_exists.mp he
  obtain ⟨e, hi⟩ := flush_state h hm
  have hm' : (s.setPd m ⟨(s.pd m).vol, (s.pd m).vol⟩).live = some m := hm
  obtain ⟨hc, hcd, hme, hmd, hl, hdd⟩ := hi.liveFacts hm'
  have e2 : (s.apply .dbFlush).apply .noteSync =
      { s.setPd m ⟨(s.pd m).vol, (s.pd m).vol⟩ with lastSync := (s.pd m).vol.idx } := by
    rw [e]; simp [St.apply, hm', setPd_pd]
  have hr : s.run (ops s .sync) = (s.apply .dbFlush).apply .noteSync := rfl
  have hi2 : Inv { s.setPd m ⟨(s.pd m).vol, (s.pd m).vol⟩ with lastSync := (s.pd m).vol.idx } := by
    refine ⟨⟨?_, ?_⟩, ?_, ?_, hi.curEq, hi.dirs, hi.dirVD, hi.mono, hi.live⟩
    · intro _ f hf
      have : f = ⟨some m, some m⟩ := by
        have h' : some f = some (⟨some m, some m⟩ : SFile) := hf.symm.trans hcd
        exact Option.some.inj h'
      subst this
      refine ⟨m, rfl, hmd, ?_⟩
      show (s.pd m).vol.idx ≤ ((s.setPd m ⟨(s.pd m).vol, (s.pd m).vol⟩).pd m).dur.idx
      rw [setPd_pd]; simp
    · intro hcase
      rcases hcase with hcase | hcase
      · exact absurd hdd (by simpa using hcase)
      · have : (s.setPd m ⟨(s.pd m).vol, (s.pd m).vol⟩).curD = none := hcase
        rw [hcd] at this; cases this
    · intro f hf
      have : f = ⟨some m, some m⟩ := by
        have h' : some f = some (⟨some m, some m⟩ : SFile) := hf.symm.trans hc
        exact Option.some.inj h'
      subst this
      refine ⟨m, rfl, rfl, hme, ?_⟩
      show (s.pd m).vol.idx ≤ ((s.setPd m ⟨(s.pd m).vol, (s.pd m).vol⟩).pd m).dur.idx
      rw [setPd_pd]; simp
    · intro hn
      have : (s.setPd m ⟨(s.pd m).vol, (s.pd m).vol⟩).cur = none := hn
      rw [hc] at this; cases this
  refine ⟨?_, ?_, ?_⟩
  · unfold ops
    refine safeAlong_cons h.dur (safeAlong_cons (by rw [e]; exact hi.dur) (safeAlong_nil (by rw [e2]; exact hi2.dur)))
  · rw [hr, e2]; exact hi2
  · rw [hr, e2]; simp [St.liveIdx, St.setPd, hm]

theorem saveCkpt_ok {s : St} (h : Inv s) :
    SafeAlong s (ops s .saveCkpt) ∧ Inv (s.run (ops s .saveCkpt)) := by
  have hs : DurSafe (s.apply .syncDir) := by
    refine ⟨?_, ?_⟩
    · intro _ f hf
      obtain ⟨n, h1, h2, h3, h4⟩ := h.volCur f hf
      exact ⟨n, h2, h3, h4⟩
    · intro hc
      rcases hc with hc | hc
      · cases hcur : s.cur with
        | none => exact h.volNone hcur
        | some f => exact absurd (h.dirs (by rw [hcur]; rfl)) (by simpa [St.apply] using hc)
      · exact h.volNone hc
  refine ⟨?_, ?_⟩
  · unfold ops; exact safeAlong_cons h.dur (safeAlong_nil hs)
  · exact ⟨hs, h.volCur, h.volNone, rfl, h.dirs, h.dirVD, h.mono, h.live⟩


/-- the state after a freshly built directory `n` has been installed -/
def installed (s : St) (n : Name) : St :=
  { s with cur := some ⟨some n, some n⟩, upd := none, curD := some ⟨some n, some n⟩, updD := none,
           entsD := s.ents, live := some n, ents := s.ents.filter (fun k => some n == some k) }

/-- installing a freshly built directory `n` that holds state `j` (the common tail of both recoverers):
publish it, switch the handle, clean up -/
theorem install_ok {s : St} {n : Name} {j : Nat} (hp : Publishable s n)
    (hdv : s.dirV = true) (hn : (s.pd n) = ⟨.db j, .db j⟩) (hmono : ∀ k, (s.pd k).dur.idx ≤ (s.pd k).vol.idx) :
    let tail := publish n ++ [.setLive n, .removeUpd, .removeOthers]
    SafeAlong s tail ∧ Inv (s.run tail) ∧ (s.run tail).liveIdx = some j ∧ (s.run tail).lastSync = s.lastSync := by
  intro tail
  have hpub := publish_safe hp
  have hgood : s.lastSync ≤ j := by have := hp.good; rw [hn] at this; exact this
  -- the state after publishing
  have hP : DurSafe (s.run (publish n)) := by
    have := hpub (publish n).length
    rwa [List.take_length] at this
  have hrun : s.run tail = (((s.run (publish n)).apply (.setLive n)).apply .removeUpd).apply .removeOthers := by
    show s.run (publish n ++ _) = _
    rw [run_append]; rfl
  have hfin : (((s.run (publish n)).apply (.setLive n)).apply .removeUpd).apply .removeOthers =
      installed s n := by
    rw [publish_run]; rfl
  have hI : Inv (installed s n) := by
    unfold installed
    refine ⟨?_, ?_, ?_, rfl, ?_, ?_, hmono, ?_⟩
    · exact hP.frame rfl rfl rfl rfl rfl
    · intro f hf
      cases hf
      refine ⟨n, rfl, rfl, ?_, hp.good⟩
      rw [List.mem_filter]; exact ⟨hp.mem, by simp⟩
    · intro hc; cases hc
    · intro _; exact hp.dirD
    · intro _; exact hdv
    · intro k hk; cases hk; rfl
  refine ⟨?_, ?_, ?_, ?_⟩
  · refine safeAlong_append hpub ?_
    refine safeAlong_cons hP (safeAlong_cons (hP.frame rfl rfl rfl rfl rfl)
      (safeAlong_cons ((hP.frame rfl rfl rfl rfl rfl).frame rfl rfl rfl rfl rfl) (safeAlong_nil ?_)))
    exact ((hP.frame rfl rfl rfl rfl rfl).frame rfl rfl rfl rfl rfl).frame rfl rfl rfl rfl rfl
  · rw [hrun, hfin]; exact hI
  · rw [hrun, hfin]; simp [St.liveIdx, installed, hn, Content.idx]
  · rw [hrun, hfin]; rfl

theorem recoverSnap_ok {s : St} {n : Name} {j : Nat} (h : Inv s) (he : Enabled s (.recoverSnap n j)) :
    SafeAlong s (ops s (.recoverSnap n j)) ∧ Inv (s.run (ops s (.recoverSnap n j))) ∧
      (s.run (ops s (.recoverSnap n j))).liveIdx = some j ∧
      (s.run (ops s (.recoverSnap n j))).lastSync = s.lastSync := by
  obtain ⟨⟨m, hm, hj⟩, hne, hnd⟩ := he
  obtain ⟨hc, hcd, hme, hmd, hl, hdd⟩ := h.liveFacts hm
  have hmn : m ≠ n := fun e => hne (e ▸ hme)
  -- the state after creating the store and ingesting the snapshot
  let s2 : St := { s with ents := n :: s.ents, pd := fun k => if k = n then ⟨.db j, .db j⟩ else s.pd k }
  have e1 : ((s.apply (.dbOpen n)).apply (.dbIngest n j)) = s2 := by
    simp only [St.apply, hne, if_false, St.setPd, s2]
    congr 1
    funext k
    by_cases hk : k = n <;> simp [hk]
  have hs1 : DurSafe (s.apply (.dbOpen n)) := by
    refine h.dur.of_le (by simp [St.apply, hne, St.setPd]) (by simp [St.apply, hne, St.setPd])
      (by simp [St.apply, hne, St.setPd]) ?_ (by simp [St.apply, hne, St.setPd])
    intro k hk
    have : k ≠ n := fun e => hnd (e ▸ hk)
    simp [St.apply, hne, St.setPd, this]
  have hs2 : DurSafe s2 := by
    refine h.dur.of_le rfl rfl rfl ?_ rfl
    intro k hk
    have : k ≠ n := fun e => hnd (e ▸ hk)
    simp [s2, this]
  have hp : Publishable s2 n := by
    refine ⟨hs2, hdd, ?_, ?_, List.mem_cons_self, ?_⟩
    · intro f hf
      obtain ⟨k, h1, h2, h3, h4⟩ := h.volCur f hf
      have : k ≠ n := fun e => hne (e ▸ h3)
      exact ⟨k, h2, List.mem_cons_of_mem _ h3, by simpa [s2, this] using h4⟩
    · intro hcn; exact h.volNone hcn
    · show s.lastSync ≤ (if n = n then (⟨.db j, .db j⟩ : PDir) else s.pd n).dur.idx
      simp [Content.idx]
      exact Nat.le_trans hl (Nat.le_trans (h.mono m) hj)
  have hmono2 : ∀ k, (s2.pd k).dur.idx ≤ (s2.pd k).vol.idx := by
    intro k
    by_cases hk : k = n <;> simp [s2, hk]
    exact h.mono k
  have hinst := install_ok (s := s2) (n := n) (j := j) hp (h.dirVD hdd)
    (by simp [s2]) hmono2
  have hops : ops s (.recoverSnap n j) = [.dbOpen n, .dbIngest n j] ++ (publish n ++ [.setLive n, .removeUpd, .removeOthers]) := by
    simp [ops]
  have hrun : s.run (ops s (.recoverSnap n j)) = s2.run (publish n ++ [.setLive n, .removeUpd, .removeOthers]) := by
    rw [hops, run_append]
    show (((s.apply (.dbOpen n)).apply (.dbIngest n j))).run _ = _
    rw [e1]
  refine ⟨?_, ?_, ?_, ?_⟩
  · rw [hops]
    refine safeAlong_append ?_ ?_
    · exact safeAlong_cons h.dur (safeAlong_cons hs1 (safeAlong_nil (by rw [e1]; exact hs2)))
    · show SafeAlong (((s.apply (.dbOpen n)).apply (.dbIngest n j))) _
      rw [e1]; exact hinst.1
  · rw [hrun]; exact hinst.2.1
  · rw [hrun]; exact hinst.2.2.1
  · rw [hrun]; exact hinst.2.2.2


theorem recoverCkpt_ok {s : St} {n : Name} {j : Nat} (h : Inv s) (he : Enabled s (.recoverCkpt n j)) :
    SafeAlong s (ops s (.recoverCkpt n j)) ∧ Inv (s.run (ops s (.recoverCkpt n j))) ∧
      (s.run (ops s (.recoverCkpt n j))).liveIdx = some j ∧
      (s.run (ops s (.recoverCkpt n j))).lastSync = s.lastSync := by
  obtain ⟨⟨m, hm, hj⟩, hne, hnd⟩ := he
  obtain ⟨hc, hcd, hme, hmd, hl, hdd⟩ := h.liveFacts hm
  let s2 : St := { s with ents := n :: s.ents, pd := fun k => if k = n then ⟨.db j, .db j⟩ else s.pd k }
  have e1 : (((s.apply (.mkDb n)).apply (.dbFiles n j)).apply (.dbOpen n)) = s2 := by
    simp only [St.apply, hne, if_false, St.setPd, s2, List.mem_cons, true_or, if_true]
    congr 1
    funext k
    by_cases hk : k = n <;> simp [hk, Content.idx]
  have hframe : ∀ s' : St, s'.dirD = s.dirD → s'.curD = s.curD → s'.entsD = s.entsD → s'.lastSync = s.lastSync →
      (∀ k, k ≠ n → s'.pd k = s.pd k) → DurSafe s' := by
    intro s' a b c d e
    refine h.dur.of_le a b c ?_ d
    intro k hk
    have : k ≠ n := fun e => hnd (e ▸ hk)
    rw [e k this]; exact Nat.le_refl _
  have hs1 : DurSafe (s.apply (.mkDb n)) :=
    hframe _ (by simp [St.apply, hne, St.setPd]) (by simp [St.apply, hne, St.setPd]) (by simp [St.apply, hne, St.setPd])
      (by simp [St.apply, hne, St.setPd]) (by intro k hk; simp [St.apply, hne, St.setPd, hk])
  have hs1b : DurSafe ((s.apply (.mkDb n)).apply (.dbFiles n j)) :=
    hframe _ (by simp [St.apply, hne, St.setPd]) (by simp [St.apply, hne, St.setPd]) (by simp [St.apply, hne, St.setPd])
      (by simp [St.apply, hne, St.setPd]) (by intro k hk; simp [St.apply, hne, St.setPd, hk])
  have hs2 : DurSafe s2 := hframe _ rfl rfl rfl rfl (by intro k hk; simp [s2, hk])
  have hp : Publishable s2 n := by
    refine ⟨hs2, hdd, ?_, ?_, List.mem_cons_self, ?_⟩
    · intro f hf
      obtain ⟨k, h1, h2, h3, h4⟩ := h.volCur f hf
      have : k ≠ n := fun e => hne (e ▸ h3)
      exact ⟨k, h2, List.mem_cons_of_mem _ h3, by simpa [s2, this] using h4⟩
    · intro hcn; exact h.volNone hcn
    · show s.lastSync ≤ (if n = n then (⟨.db j, .db j⟩ : PDir) else s.pd n).dur.idx
      simp [Content.idx]
      exact Nat.le_trans hl (Nat.le_trans (h.mono m) hj)
  have hmono2 : ∀ k, (s2.pd k).dur.idx ≤ (s2.pd k).vol.idx := by
    intro k
    by_cases hk : k = n <;> simp [s2, hk]
    exact h.mono k
  have hinst := install_ok (s := s2) (n := n) (j := j) hp (h.dirVD hdd) (by simp [s2]) hmono2
  have hops : ops s (.recoverCkpt n j) =
      [.mkDb n, .dbFiles n j, .dbOpen n] ++ (publish n ++ [.setLive n, .removeUpd, .removeOthers]) := by
    simp [ops]
  have hrun : s.run (ops s (.recoverCkpt n j)) = s2.run (publish n ++ [.setLive n, .removeUpd, .removeOthers]) := by
    rw [hops, run_append]
    show ((((s.apply (.mkDb n)).apply (.dbFiles n j)).apply (.dbOpen n))).run _ = _
    rw [e1]
  refine ⟨?_, ?_, ?_, ?_⟩
  · rw [hops]
    refine safeAlong_append ?_ ?_
    · exact safeAlong_cons h.dur (safeAlong_cons hs1 (safeAlong_cons hs1b (safeAlong_nil (by rw [e1]; exact hs2))))
    · show SafeAlong ((((s.apply (.mkDb n)).apply (.dbFiles n j)).apply (.dbOpen n))) _
      rw [e1]; exact hinst.1
  · rw [hrun]; exact hinst.2.1
  · rw [hrun]; exact hinst.2.2.1
  · rw [hrun]; exact hinst.2.2.2


/-- `Open` on a directory that has a `current` (restart after a clean close or after a crash) -/
theorem open_rerun_ok {s : St} {n : Name} (h : Inv s) (he : Enabled s (.open n)) (hcur : s.cur.isSome = true) :
    SafeAlong s (ops s (.open n)) ∧ Inv (s.run (ops s (.open n))) ∧
      (∃ i, (s.run (ops s (.open n))).liveIdx = some i ∧ s.lastSync ≤ i) ∧
      (s.run (ops s (.open n))).lastSync = s.lastSync := by
  obtain ⟨f, hf⟩ := Option.isSome_iff_exists.mp hcur
  obtain ⟨m, h1, h2, h3, h4⟩ := h.volCur f hf
  have hff : f = ⟨some m, some m⟩ := by cases f; simp_all
  subst hff
  have hname : s.curName = some m := by simp [St.curName, hf]
  have hdd := h.dirs hcur
  have hdv := h.dirVD hdd
  have hops : ops s (.open n) = [.mkTableDir, .syncAnc, .removeUpd, .removeOthers, .dbOpen m, .setLive m] := by
    simp [ops, hf, hname]
  let v := (s.pd m).vol.idx
  let sF : St := { s with upd := none, ents := s.ents.filter (fun k => some m == some k), live := some m,
                          pd := fun k => if k = m then ⟨.db v, .db v⟩ else s.pd k }
  have hmem : m ∈ s.ents.filter (fun k => some m == some k) := by rw [List.mem_filter]; exact ⟨h3, by simp⟩
  have e4 : (((s.apply .mkTableDir).apply .syncAnc).apply .removeUpd).apply .removeOthers =
      { s with upd := none, ents := s.ents.filter (fun k => some m == some k) } := by
    simp only [St.apply, St.curName, hf, hdv, Option.bind_some]
    cases s; simp_all
  have e6 : s.run (ops s (.open n)) = sF := by
    rw [hops]
    show ((((((s.apply .mkTableDir).apply .syncAnc).apply .removeUpd).apply .removeOthers).apply (.dbOpen m)).apply (.setLive m)) = sF
    rw [e4]
    simp only [St.apply, hmem, if_true, St.setPd, sF, v]
  have hs1 : DurSafe (s.apply .mkTableDir) := h.dur.frame rfl rfl rfl rfl rfl
  have hs2 : DurSafe ((s.apply .mkTableDir).apply .syncAnc) := by
    refine h.dur.frame ?_ rfl rfl rfl rfl
    simp [St.apply, hdd]
  have hs3 : DurSafe (((s.apply .mkTableDir).apply .syncAnc).apply .removeUpd) := hs2.frame rfl rfl rfl rfl rfl
  have hs4 : DurSafe ((((s.apply .mkTableDir).apply .syncAnc).apply .removeUpd).apply .removeOthers) :=
    hs3.frame rfl rfl rfl rfl rfl
  have hsF : DurSafe sF := by
    refine h.dur.of_le rfl rfl rfl ?_ rfl
    intro k _
    by_cases hk : k = m
    · subst hk; simp [sF, v, Content.idx]; exact h.mono k
    · simp [sF, hk]
  have hs5 : DurSafe (((((s.apply .mkTableDir).apply .syncAnc).apply .removeUpd).apply .removeOthers).apply (.dbOpen m)) := by
    rw [e4]
    refine h.dur.of_le ?_ ?_ ?_ ?_ ?_
    · simp [St.apply, h3, St.setPd]
    · simp [St.apply, h3, St.setPd]
    · simp [St.apply, h3, St.setPd]
    · intro k _
      by_cases hk : k = m
      · subst hk; simp [St.apply, h3, St.setPd, Content.idx]; exact h.mono k
      · simp [St.apply, h3, St.setPd, hk]
    · simp [St.apply, h3, St.setPd]
  refine ⟨?_, ?_, ?_, ?_⟩
  · rw [hops]
    refine safeAlong_cons h.dur (safeAlong_cons hs1 (safeAlong_cons hs2 (safeAlong_cons hs3 (safeAlong_cons hs4
      (safeAlong_cons hs5 (safeAlong_nil ?_))))))
    have := e6; rw [hops] at this
    show DurSafe (St.run s [.mkTableDir, .syncAnc, .removeUpd, .removeOthers, .dbOpen m, .setLive m])
    rw [this]; exact hsF
  · rw [e6]
    refine ⟨hsF, ?_, ?_, h.curEq, h.dirs, h.dirVD, ?_, ?_⟩
    · intro g hg
      have : g = ⟨some m, some m⟩ := Option.some.inj (hg.symm.trans hf)
      subst this
      refine ⟨m, rfl, rfl, hmem, ?_⟩
      simp [sF, v, Content.idx]; exact Nat.le_trans h4 (h.mono m)
    · intro hc; exact h.volNone hc
    · intro k
      by_cases hk : k = m
      · subst hk; simp [sF]
      · simp [sF, hk]; exact h.mono k
    · intro k hk
      have : k = m := (Option.some.inj hk).symm
      subst this; exact hname
  · rw [e6]
    refine ⟨v, by simp [St.liveIdx, sF, Content.idx], Nat.le_trans h4 (h.mono m)⟩
  · rw [e6]

/-- `Open` on a directory without `current`: the first start (or a crash before the first start got
as far as publishing `current`) -/
theorem open_new_ok {s : St} {n : Name} (h : Inv s) (he : Enabled s (.open n)) (hcur : s.cur = none) :
    SafeAlong s (ops s (.open n)) ∧ Inv (s.run (ops s (.open n))) ∧
      (s.run (ops s (.open n))).liveIdx = some 0 ∧ s.lastSync = 0 ∧
      (s.run (ops s (.open n))).lastSync = 0 := by
  obtain ⟨_, hne, hnd⟩ := he
  have hl0 := h.volNone hcur
  have hcd : s.curD = none := by rw [h.curEq, hcur]
  have hops : ops s (.open n) = [.mkTableDir, .syncAnc, .mkDb n] ++ (publish n ++ [.dbOpen n, .setLive n]) := by
    simp [ops, hcur]
  let s3 : St := { s with dirV := true, dirD := true, ents := n :: s.ents,
                          pd := fun k => if k = n then ⟨.empty, .empty⟩ else s.pd k }
  have e3 : ((s.apply .mkTableDir).apply .syncAnc).apply (.mkDb n) = s3 := by
    simp only [St.apply, hne, if_false, St.setPd, s3]
  have trivialSafe : ∀ s' : St, s'.curD = none → s'.lastSync = 0 → DurSafe s' := by
    intro s' a b
    exact ⟨fun _ f hf => (by rw [a] at hf; cases hf), fun _ => b⟩
  have hs1 : DurSafe (s.apply .mkTableDir) := trivialSafe _ hcd hl0
  have hs2 : DurSafe ((s.apply .mkTableDir).apply .syncAnc) := trivialSafe _ hcd hl0
  have hs3 : DurSafe s3 := trivialSafe _ hcd hl0
  have hp : Publishable s3 n := by
    refine ⟨hs3, rfl, ?_, fun _ => hl0, List.mem_cons_self, ?_⟩
    · intro f hf
      have : s.cur = some f := hf
      rw [hcur] at this; cases this
    · show s.lastSync ≤ _
      rw [hl0]; exact Nat.zero_le _
  have hpub := publish_safe hp
  have hP : DurSafe (s3.run (publish n)) := by
    have := hpub (publish n).length
    rwa [List.take_length] at this
  let sF : St := { s3 with cur := some ⟨some n, some n⟩, upd := none, curD := some ⟨some n, some n⟩, updD := none,
                           entsD := s3.ents, live := some n,
                           pd := fun k => if k = n then ⟨.db 0, .db 0⟩ else s.pd k }
  have e5 : ((s3.run (publish n)).apply (.dbOpen n)).apply (.setLive n) = sF := by
    rw [publish_run]
    simp only [St.apply, St.setPd, s3, sF, List.mem_cons, true_or, if_true, Content.idx]
    congr 1
    funext k
    by_cases hk : k = n <;> simp [hk]
  have hsF : DurSafe sF := by
    refine ⟨?_, ?_⟩
    · intro _ f hf
      have : f = ⟨some n, some n⟩ := (Option.some.inj hf).symm
      subst this
      refine ⟨n, rfl, List.mem_cons_self, ?_⟩
      show s.lastSync ≤ _
      rw [hl0]; exact Nat.zero_le _
    · intro hc
      rcases hc with hc | hc
      · cases hc
      · cases hc
  have hs4 : DurSafe ((s3.run (publish n)).apply (.dbOpen n)) := by
    rw [publish_run]
    refine ⟨?_, ?_⟩
    · intro _ f hf
      have hf' : some (⟨some n, some n⟩ : SFile) = some f := by
        simpa [St.apply, St.setPd, s3] using hf
      have : f = ⟨some n, some n⟩ := (Option.some.inj hf').symm
      subst this
      refine ⟨n, rfl, ?_, ?_⟩
      · simp [St.apply, St.setPd, s3]
      · show _ ≤ _
        simp [St.apply, St.setPd, s3, hl0]
    · intro _
      simp [St.apply, St.setPd, s3, hl0]
  have hrun : s.run (ops s (.open n)) = sF := by
    rw [hops, run_append]
    show (((s.apply .mkTableDir).apply .syncAnc).apply (.mkDb n)).run _ = _
    rw [e3, run_append]
    exact e5
  refine ⟨?_, ?_, ?_, hl0, ?_⟩
  · rw [hops]
    refine safeAlong_append (safeAlong_cons h.dur (safeAlong_cons hs1 (safeAlong_cons hs2 (safeAlong_nil (by rw [e3]; exact hs3))))) ?_
    show SafeAlong (((s.apply .mkTableDir).apply .syncAnc).apply (.mkDb n)) _
    rw [e3]
    refine safeAlong_append hpub (safeAlong_cons hP (safeAlong_cons hs4 (safeAlong_nil (by rw [e5]; exact hsF))))
  · rw [hrun]
    refine ⟨hsF, ?_, ?_, rfl, fun _ => rfl, fun _ => rfl, ?_, ?_⟩
    · intro f hf
      have : f = ⟨some n, some n⟩ := (Option.some.inj hf).symm
      subst this
      refine ⟨n, rfl, rfl, List.mem_cons_self, ?_⟩
      show s.lastSync ≤ _
      rw [hl0]; exact Nat.zero_le _
    · intro hc; cases hc
    · intro k
      by_cases hk : k = n
      · subst hk; simp [sF]
      · simp [sF, hk]; exact h.mono k
    · intro k hk
      have : k = n := (Option.some.inj hk).symm
      subst this; rfl
  · rw [hrun]; simp [St.liveIdx, sF, Content.idx]
  · rw [hrun]; exact hl0


/-! ### installing a snapshot is atomic w.r.t. crashes (C08) -/

/-- the durable `current` names the old directory `m` (whose durable store is what it was when the
recovery started) or the new one `n` (whose durable store is the snapshot state `j`) -/
def OldOrNew (m n : Name) (d : Content) (j : Nat) (s' : St) : Prop :=
  s'.dirD = true ∧ ((s'.curD = some ⟨some m, some m⟩ ∧ (s'.pd m).dur = d) ∨
                    (s'.curD = some ⟨some n, some n⟩ ∧ (s'.pd n).dur = .db j))

theorem install_atomic {s : St} {m n : Name} {d : Content} {j : Nat}
    (hc : s.cur = some ⟨some m, some m⟩) (hcd : s.curD = some ⟨some m, some m⟩) (hdd : s.dirD = true)
    (hm : (s.pd m).dur = d) (hn : (s.pd n).dur = .db j) :
    Along (OldOrNew m n d j) s (publish n ++ [.setLive n, .removeUpd, .removeOthers]) := by
  have old : ∀ s' : St, s'.dirD = true → s'.curD = some ⟨some m, some m⟩ → s'.pd = s.pd → OldOrNew m n d j s' :=
    fun s' a b c => ⟨a, Or.inl ⟨b, by rw [c]; exact hm⟩⟩
  have new : ∀ s' : St, s'.dirD = true → s'.curD = some ⟨some n, some n⟩ → s'.pd = s.pd → OldOrNew m n d j s' :=
    fun s' a b c => ⟨a, Or.inr ⟨b, by rw [c]; exact hn⟩⟩
  unfold publish
  refine along_cons (old _ hdd hcd rfl) (along_cons (old _ hdd hcd rfl) (along_cons (old _ hdd hcd rfl)
    (along_cons (old _ hdd hcd rfl) (along_cons (old _ hdd hc rfl) (along_cons (old _ hdd hc rfl)
    (along_cons (new _ hdd rfl rfl) (along_cons (new _ hdd rfl rfl) (along_cons (new _ hdd rfl rfl)
    (along_nil (new _ hdd rfl rfl))))))))))

theorem recoverSnap_atomic {s : St} {n : Name} {j : Nat} (h : Inv s) (he : Enabled s (.recoverSnap n j))
    (m : Name) (hm : s.live = some m) :
    Along (OldOrNew m n (s.pd m).dur j) s (ops s (.recoverSnap n j)) := by
  obtain ⟨_, hne, hnd⟩ := he
  obtain ⟨hc, hcd, hme, hmd, hl, hdd⟩ := h.liveFacts hm
  have hmn : m ≠ n := fun e => hne (e ▸ hme)
  let s2 : St := { s with ents := n :: s.ents, pd := fun k => if k = n then ⟨.db j, .db j⟩ else s.pd k }
  have e1 : ((s.apply (.dbOpen n)).apply (.dbIngest n j)) = s2 := by
    simp only [St.apply, hne, if_false, St.setPd, s2]
    congr 1
    funext k
    by_cases hk : k = n <;> simp [hk]
  have hops : ops s (.recoverSnap n j) = [.dbOpen n, .dbIngest n j] ++ (publish n ++ [.setLive n, .removeUpd, .removeOthers]) := by
    simp [ops]
  rw [hops]
  refine along_append ?_ ?_
  · refine along_cons ⟨hdd, Or.inl ⟨hcd, rfl⟩⟩ (along_cons ⟨?_, Or.inl ⟨?_, ?_⟩⟩ (along_nil ?_))
    · simp [St.apply, hne, St.setPd, hdd]
    · simp [St.apply, hne, St.setPd, hcd]
    · simp [St.apply, hne, St.setPd, hmn]
    · rw [e1]; exact ⟨hdd, Or.inl ⟨hcd, by simp [s2, hmn]⟩⟩
  · show Along _ ((s.apply (.dbOpen n)).apply (.dbIngest n j)) _
    rw [e1]
    exact install_atomic (s := s2) hc hcd hdd (by simp [s2, hmn]) (by simp [s2])

theorem recoverCkpt_atomic {s : St} {n : Name} {j : Nat} (h : Inv s) (he : Enabled s (.recoverCkpt n j))
    (m : Name) (hm : s.live = some m) :
    Along (OldOrNew m n (s.pd m).dur j) s (ops s (.recoverCkpt n j)) := by
  obtain ⟨_, hne, hnd⟩ := he
  obtain ⟨hc, hcd, hme, hmd, hl, hdd⟩ := h.liveFacts hm
  have hmn : m ≠ n := fun e => hne (e ▸ hme)
  let s2 : St := { s with ents := n :: s.ents, pd := fun k => if k = n then ⟨.db j, .db j⟩ else s.pd k }
  have e1 : (((s.apply (.mkDb n)).apply (.dbFiles n j)).apply (.dbOpen n)) = s2 := by
    simp only [St.apply, hne, if_false, St.setPd, s2, List.mem_cons, true_or, if_true]
    congr 1
    funext k
    by_cases hk : k = n <;> simp [hk, Content.idx]
  have hops : ops s (.recoverCkpt n j) =
      [.mkDb n, .dbFiles n j, .dbOpen n] ++ (publish n ++ [.setLive n, .removeUpd, .removeOthers]) := by
    simp [ops]
  rw [hops]
  refine along_append ?_ ?_
  · refine along_cons ⟨hdd, Or.inl ⟨hcd, rfl⟩⟩ (along_cons ⟨?_, Or.inl ⟨?_, ?_⟩⟩ (along_cons ⟨?_, Or.inl ⟨?_, ?_⟩⟩ (along_nil ?_)))
    · simp [St.apply, hne, St.setPd, hdd]
    · simp [St.apply, hne, St.setPd, hcd]
    · simp [St.apply, hne, St.setPd, hmn]
    · simp [St.apply, hne, St.setPd, hdd]
    · simp [St.apply, hne, St.setPd, hcd]
    · simp [St.apply, hne, St.setPd, hmn]
    · rw [e1]; exact ⟨hdd, Or.inl ⟨hcd, by simp [s2, hmn]⟩⟩
  · show Along _ (((s.apply (.mkDb n)).apply (.dbFiles n j)).apply (.dbOpen n)) _
    rw [e1]
    exact install_atomic (s := s2) hc hcd hdd (by simp [s2, hmn]) (by simp [s2])

/-- what `Open` finds after a crash in a state where the durable `current` names `x` -/
theorem reopen_finds {s : St} (hs : DurSafe s) {x : Name} (hdd : s.dirD = true) (hcd : s.curD = some ⟨some x, some x⟩)
    (n' : Name) (hfresh : n' ∉ s.crash.ents ∧ n' ∉ s.crash.entsD) :
    (s.crash.run (ops s.crash (.open n'))).live = some x ∧
    (s.crash.run (ops s.crash (.open n'))).liveIdx = some (s.pd x).dur.idx := by
  obtain ⟨hI, hl, _⟩ := inv_crash hs
  have hcur : s.crash.cur = some ⟨some x, some x⟩ := by
    unfold St.crash; rw [if_pos hdd]; simp [hcd]
  have hname : s.crash.curName = some x := by simp [St.curName, hcur]
  obtain ⟨m, h1, h2, h3, h4⟩ := hI.volCur _ hcur
  have hmx : m = x := (Option.some.inj h1).symm
  subst hmx
  have hops : ops s.crash (.open n') = [.mkTableDir, .syncAnc, .removeUpd, .removeOthers, .dbOpen m, .setLive m] := by
    simp [ops, hcur, hname]
  have hpd : (s.crash.pd m) = ⟨(s.pd m).dur, (s.pd m).dur⟩ := by
    unfold St.crash; rw [if_pos hdd]
  rw [hops]
  have e4 : (((s.crash.apply .mkTableDir).apply .syncAnc).apply .removeUpd).apply .removeOthers =
      { s.crash with dirV := true, dirD := true, upd := none, ents := s.crash.ents.filter (fun k => some m == some k) } := by
    simp only [St.apply, St.curName, hcur, Option.bind_some]
  have hmem : m ∈ s.crash.ents.filter (fun k => some m == some k) := by rw [List.mem_filter]; exact ⟨h3, by simp⟩
  have e6 : s.crash.run [.mkTableDir, .syncAnc, .removeUpd, .removeOthers, .dbOpen m, .setLive m] =
      { s.crash with dirV := true, dirD := true, upd := none, ents := s.crash.ents.filter (fun k => some m == some k),
                     live := some m,
                     pd := fun k => if k = m then ⟨.db (s.pd m).dur.idx, .db (s.pd m).dur.idx⟩ else s.crash.pd k } := by
    show ((((((s.crash.apply .mkTableDir).apply .syncAnc).apply .removeUpd).apply .removeOthers).apply (.dbOpen m)).apply (.setLive m)) = _
    rw [e4]
    simp only [St.apply, hmem, if_true, St.setPd, hpd]
  rw [e6]
  exact ⟨rfl, by simp [St.liveIdx, Content.idx]⟩

end Regatta.Crash
