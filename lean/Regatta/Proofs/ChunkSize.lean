import Regatta.Model.Fsm
/-
  Size of the chunks of a range read (C09): every message the paging loop emits stays below the
  gRPC message limit, with room for the response header, provided every stored pair respects the
  key and value limits the API enforces (C16).
-/
namespace Regatta.ChunkSize
open Regatta Regatta.Fsm

theorem sov_le_10 (x : Nat) : sov x ≤ 10 := by unfold sov; (repeat' split) <;> omega
theorem sov_pos (x : Nat) : 1 ≤ sov x := by unfold sov; (repeat' split) <;> omega
theorem sov_small (x : Nat) (h : x < 16384) : sov x ≤ 2 := by unfold sov; (repeat' split) <;> omega
theorem sov_mid (x : Nat) (h : x < 268435456) : sov x ≤ 4 := by unfold sov; (repeat' split) <;> omega

theorem lenField_le (l : Nat) : lenField l ≤ 1 + l + sov l := by unfold lenField; split <;> omega

/-- the pairs part of the encoded size -/
def base (r : RangeResp) : Nat := (r.kvs.map (fun kv => 1 + kv.sizeVT + sov kv.sizeVT)).sum

theorem sizeVT_eq (r : RangeResp) :
    r.sizeVT = base r + (if r.more then 2 else 0) + (if r.count ≠ 0 then 1 + sov r.count else 0) := rfl

theorem sizeVT_le (r : RangeResp) : r.sizeVT ≤ base r + 2 + 11 := by
  rw [sizeVT_eq]
  have := sov_le_10 r.count
  split <;> split <;> omega

theorem base_le_sizeVT (r : RangeResp) : base r ≤ r.sizeVT := by rw [sizeVT_eq]; omega

/-- the key and value limits (storage/table/table.go: key.LatestVersionLen, MaxValueLen) -/
def PairOK (p : Bytes × Val) : Prop := p.1.length ≤ 1024 ∧ p.2.size ≤ 2097152

theorem pairBytes_le (key : Bytes) (v : Val) (h : PairOK (key, v)) :
    1 + KV.sizeVT ⟨key, v⟩ + sov (KV.sizeVT ⟨key, v⟩) ≤ key.length + v.size + 13 := by
  obtain ⟨hk, hv⟩ := h
  simp only at hk hv
  have h1 := lenField_le key.length
  have h2 := lenField_le v.size
  have h3 := sov_small key.length (by omega)
  have h4 := sov_mid v.size (by omega)
  have hs : KV.sizeVT ⟨key, v⟩ ≤ key.length + v.size + 8 := by unfold KV.sizeVT; simp only; omega
  have h5 := sov_mid (KV.sizeVT ⟨key, v⟩) (by omega)
  omega

theorem pairBytes_keyOnly_le (key : Bytes) (h : key.length ≤ 1024) :
    1 + KV.sizeVT ⟨key, ByteArray.empty⟩ + sov (KV.sizeVT ⟨key, ByteArray.empty⟩) ≤ key.length + 13 := by
  have h1 := lenField_le key.length
  have h3 := sov_small key.length (by omega)
  have hs : KV.sizeVT ⟨key, ByteArray.empty⟩ ≤ key.length + 3 := by
    unfold KV.sizeVT; simp only [ByteArray.size_empty, lenField]; split <;> simp <;> omega
  have h5 := sov_small (KV.sizeVT ⟨key, ByteArray.empty⟩) (by omega)
  omega

/-- the response under construction: not marked `more`, pairs part below the budget plus one pair's
overhead -/
def Building (r : RangeResp) : Prop := r.more = false ∧ base r < maxRangeSize + 13

theorem base_fill (k : FillKind) (key : Bytes) (v : Val) (r : RangeResp) (hp : PairOK (key, v)) :
    base (fill k key v r) ≤ base r + Fsm.sizeOf k key v + 13 ∧ (fill k key v r).more = r.more := by
  cases k with
  | full =>
    refine ⟨?_, rfl⟩
    simp only [fill, base, Fsm.sizeOf, List.map_append, List.sum_append, List.map_cons, List.map_nil, List.sum_cons, List.sum_nil]
    have := pairBytes_le key v hp
    omega
  | keysOnly =>
    refine ⟨?_, rfl⟩
    simp only [fill, base, Fsm.sizeOf, List.map_append, List.sum_append, List.map_cons, List.map_nil, List.sum_cons, List.sum_nil]
    have := pairBytes_keyOnly_le key hp.1
    omega
  | countOnly =>
    refine ⟨?_, rfl⟩
    simp only [fill, base, Fsm.sizeOf]
    omega

/-- the relations between the source's current constants that the argument needs - not their values: the
chunk budget leaves more than 538 bytes below the transport limit (13 for the encoding of the pair that
crossed the cut, 13 for `more` / `count`, 512 for the response header), and one pair of maximal key and
value fits into an empty chunk -/
theorem budget_slack : maxRangeSize + 538 < Extracted.defaultMaxGRPCSize := by decide
theorem one_pair_fits : 1024 + 2097152 < maxRangeSize := by decide

/-- **every chunk fits**: for every fill kind, limit, position and response under construction, all
chunks the loop emits are smaller than the gRPC message limit by at least 512 bytes (room for the
response header), provided the pairs respect the size limits -/
theorem iterLoop_sizes (k : FillKind) (limit : Int) (pairs : List (Bytes × Val)) (i : Nat) (resp : RangeResp)
    (hb : Building resp) (hp : ∀ p ∈ pairs, PairOK p) :
    ∀ c ∈ iterLoop k limit pairs i resp, c.sizeVT + 512 < Extracted.defaultMaxGRPCSize := by
  have emit : ∀ r : RangeResp, base r < maxRangeSize + 13 → r.sizeVT + 512 < Extracted.defaultMaxGRPCSize := by
    intro r hr
    have := sizeVT_le r
    have := budget_slack
    omega
  induction pairs generalizing i resp with
  | nil =>
    intro c hc
    simp only [iterLoop, List.mem_singleton] at hc
    subst hc; exact emit _ hb.2
  | cons p rest ih =>
    obtain ⟨key, v⟩ := p
    have hpk : PairOK (key, v) := hp _ List.mem_cons_self
    have hrest : ∀ q ∈ rest, PairOK q := fun q hq => hp q (List.mem_cons_of_mem _ hq)
    intro c hc
    unfold iterLoop at hc
    by_cases hlim : (i : Int) = limit ∧ limit ≠ 0
    · rw [if_pos hlim] at hc
      simp only [List.mem_singleton] at hc
      subst hc
      exact emit _ (by simpa [base] using hb.2)
    · rw [if_neg hlim] at hc
      simp only at hc
      -- the response after this pair
      by_cases hcut : resp.sizeVT + Fsm.sizeOf k key v ≥ maxRangeSize
      · -- the pair opens a new chunk
        have hnew : Building (fill k key v {}) := by
          obtain ⟨h1, h2⟩ := base_fill k key v {} hpk
          refine ⟨by rw [h2], ?_⟩
          have hsz : Fsm.sizeOf k key v ≤ key.length + v.size := by cases k <;> simp [Fsm.sizeOf]
          have : base ({} : RangeResp) = 0 := rfl
          have := one_pair_fits
          have := hpk.1; have := hpk.2
          simp only at *
          omega
        simp only [hcut, if_true] at hc
        rcases List.mem_cons.mp hc with hc | hc
        · subst hc; exact emit _ (by simpa [base] using hb.2)
        · by_cases hre : rest.isEmpty = true
          · rw [if_pos hre] at hc
            simp only [List.mem_singleton] at hc
            subst hc; exact emit _ hnew.2
          · rw [if_neg hre] at hc
            exact ih (i + 1) _ hnew hrest c hc
      · -- the pair joins the chunk under construction
        have hlt : resp.sizeVT + Fsm.sizeOf k key v < maxRangeSize := by omega
        have hnew : Building (fill k key v resp) := by
          obtain ⟨h1, h2⟩ := base_fill k key v resp hpk
          refine ⟨by rw [h2]; exact hb.1, ?_⟩
          have := base_le_sizeVT resp
          omega
        have hcut' : ¬ (resp.sizeVT + Fsm.sizeOf k key v ≥ maxRangeSize) := hcut
        simp only [hcut', if_false] at hc
        by_cases hre : rest.isEmpty = true
        · rw [if_pos hre] at hc
          simp only [List.mem_singleton] at hc
          subst hc; exact emit _ hnew.2
        · rw [if_neg hre] at hc
          exact ih (i + 1) _ hnew hrest c hc

end Regatta.ChunkSize
