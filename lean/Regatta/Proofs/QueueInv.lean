import Regatta.Proofs.Heap
/-
  The notification queue: answering never blocks, every waiter is answered exactly once and leaves
  its heap when answered, a notification releases every waiter at or below the notified revision.
-/
namespace Regatta.Queue

/-- every waiter still in the heap has an empty, open channel -/
def Fresh (s : QState) (h : Heap) : Prop := ∀ it ∈ h, s.chan it.id = {}

/-- one heap entry per waiter -/
def IdsNodup (h : Heap) : Prop := (h.map (·.id)).Nodup

/-- the state differs from `s` only in the channels of the listed waiters -/
structure OnlyChans (s s' : QState) (ws : List Nat) : Prop where
  heaps : s'.heaps = s.heaps
  tables : s'.tables = s.tables
  ended : s'.ended = s.ended
  other : ∀ w, w ∉ ws → s'.chan w = s.chan w

theorem OnlyChans.refl (s : QState) : OnlyChans s s [] := ⟨rfl, rfl, rfl, fun _ _ => rfl⟩

theorem OnlyChans.trans {a b c : QState} {x y : List Nat} (h1 : OnlyChans a b x) (h2 : OnlyChans b c y) :
    OnlyChans a c (x ++ y) :=
  ⟨h2.heaps.trans h1.heaps, h2.tables.trans h1.tables, h2.ended.trans h1.ended,
   fun w hw => by
     rw [h2.other w (fun h => hw (List.mem_append_right _ h)), h1.other w (fun h => hw (List.mem_append_left _ h))]⟩

theorem ctxErr_congr {s s' : QState} (h : s'.ended = s.ended) (c : Nat) : s'.ctxErr c = s.ctxErr c := by
  unfold QState.ctxErr; rw [h]

/-- a send into an empty open channel succeeds -/
theorem send_fresh (s : QState) (w : Nat) (e : CtxErr) (hr : s.status = .running) (hf : s.chan w = {}) :
    (s.send w e).status = .running ∧ (s.send w e).chan w = { buf := some e } ∧ OnlyChans s (s.send w e) [w] := by
  unfold QState.send
  simp only [hf]
  refine ⟨hr, ?_, ⟨rfl, rfl, rfl, ?_⟩⟩
  · simp [QState.setChan, QState.chan]
  · intro w' hw'
    simp only [List.mem_singleton] at hw'
    simp [QState.setChan, QState.chan, hw']

/-- closing an open channel succeeds -/
theorem close_fresh (s : QState) (w : Nat) (hr : s.status = .running) (hf : s.chan w = {}) :
    (s.close w).status = .running ∧ (s.close w).chan w = { closed := true } ∧ OnlyChans s (s.close w) [w] := by
  unfold QState.close
  simp only [hf]
  refine ⟨hr, ?_, ⟨rfl, rfl, rfl, ?_⟩⟩
  · simp [QState.setChan, QState.chan]
  · intro w' hw'
    simp only [List.mem_singleton] at hw'
    simp [QState.setChan, QState.chan, hw']

/-- the answer a waiter gets from a notification of revision `n` -/
def answerOf (s : QState) (n : Nat) (it : Item) : Chan :=
  match s.ctxErr it.ctx with
  | some e => { buf := some e }
  | none => { closed := true }

theorem hget_zero_cons (x : Item) (t : Heap) : hget (x :: t) 0 = x := rfl

/-- consequences of `Pop` for the bookkeeping: the remaining entries are the old ones without the
root, still one per waiter, none of them the root's waiter -/
theorem pop_facts (root : Item) (t : Heap) (hn : IdsNodup (root :: t)) :
    ((pop (root :: t)).1 ++ [root]).Perm (root :: t) ∧ IdsNodup (pop (root :: t)).1 ∧
    (∀ it ∈ (pop (root :: t)).1, it ∈ root :: t ∧ it.id ≠ root.id) := by
  have hp := pop_perm (root :: t) (by simp)
  rw [hget_zero_cons] at hp
  have hids : (((pop (root :: t)).1 ++ [root]).map (·.id)).Nodup := (hp.map _).nodup_iff.mpr hn
  rw [List.map_append, List.nodup_append] at hids
  refine ⟨hp, hids.1, ?_⟩
  intro it hit
  refine ⟨hp.subset (List.mem_append_left _ hit), ?_⟩
  intro he
  have := hids.2.2 it.id (List.mem_map_of_mem hit) root.id (by simp)
  exact this he

/-- **the notification loop**: started on a heap-ordered slice whose waiters all have fresh
channels, with at least `h.Len()` iterations, it never blocks or panics; it removes a set of
waiters, answers each of them exactly once (error for an ended context, close otherwise), touches
no other channel, leaves a heap-ordered slice of waiters with fresh channels — and every waiter it
leaves has a revision above the notified one -/
theorem notifyLoop_spec (n : Nat) : ∀ (fuel : Nat) (s : QState) (h : Heap),
    s.status = .running → IsHeap h → Fresh s h → IdsNodup h → h.length ≤ fuel →
    ∃ removed : List Item,
      (notifyLoop n fuel s h).1.status = .running ∧
      ((notifyLoop n fuel s h).2 ++ removed).Perm h ∧
      IsHeap (notifyLoop n fuel s h).2 ∧ Fresh (notifyLoop n fuel s h).1 (notifyLoop n fuel s h).2 ∧
      IdsNodup (notifyLoop n fuel s h).2 ∧
      (∀ it ∈ (notifyLoop n fuel s h).2, n < it.rev) ∧
      (∀ it ∈ removed, (notifyLoop n fuel s h).1.chan it.id = answerOf s n it ∧ (it.rev ≤ n ∨ (s.ctxErr it.ctx).isSome)) ∧
      OnlyChans s (notifyLoop n fuel s h).1 (removed.map (·.id)) := by
  intro fuel
  induction fuel with
  | zero =>
    intro s h hr hh hf hn hl
    have : h = [] := List.length_eq_zero_iff.mp (by omega)
    subst this
    exact ⟨[], hr, List.Perm.refl _, hh, hf, hn, fun it hit => (by cases hit), fun it hit => (by cases hit), OnlyChans.refl s⟩
  | succ fuel ih =>
    intro s h hr hh hf hn hl
    unfold notifyLoop
    have hrun : ¬ s.status ≠ .running := by simp [hr]
    simp only [hrun, if_false]
    cases h with
    | nil =>
      exact ⟨[], hr, List.Perm.refl _, hh, hf, hn, fun it hit => (by cases hit), fun it hit => (by cases hit), OnlyChans.refl s⟩
    | cons root t =>
      simp only
      obtain ⟨hperm, hnd, hmem⟩ := pop_facts root t hn
      have hfr : s.chan root.id = {} := hf root (by simp)
      have hheap' : IsHeap (pop (root :: t)).1 := pop_heap _ (by simp) hh
      have hlen' : (pop (root :: t)).1.length ≤ fuel := by
        rw [pop_length _ (by simp)]; simp at hl ⊢; omega
      -- common continuation once the root has been answered in state `s1`
      have cont : ∀ (s1 : QState), s1.status = .running → OnlyChans s s1 [root.id] →
          s1.chan root.id = answerOf s n root → (root.rev ≤ n ∨ (s.ctxErr root.ctx).isSome) →
          ∃ removed : List Item,
            (notifyLoop n fuel s1 (pop (root :: t)).1).1.status = .running ∧
            ((notifyLoop n fuel s1 (pop (root :: t)).1).2 ++ removed).Perm (root :: t) ∧
            IsHeap (notifyLoop n fuel s1 (pop (root :: t)).1).2 ∧
            Fresh (notifyLoop n fuel s1 (pop (root :: t)).1).1 (notifyLoop n fuel s1 (pop (root :: t)).1).2 ∧
            IdsNodup (notifyLoop n fuel s1 (pop (root :: t)).1).2 ∧
            (∀ it ∈ (notifyLoop n fuel s1 (pop (root :: t)).1).2, n < it.rev) ∧
            (∀ it ∈ removed, (notifyLoop n fuel s1 (pop (root :: t)).1).1.chan it.id = answerOf s n it ∧
              (it.rev ≤ n ∨ (s.ctxErr it.ctx).isSome)) ∧
            OnlyChans s (notifyLoop n fuel s1 (pop (root :: t)).1).1 (removed.map (·.id)) := by
        intro s1 hr1 hoc hans hwhy
        have hf1 : Fresh s1 (pop (root :: t)).1 := by
          intro it hit
          obtain ⟨hin, hne⟩ := hmem it hit
          rw [hoc.other it.id (by simpa using hne)]
          exact hf it hin
        obtain ⟨rem, r1, r2, r3, r4, r5, r6, r7, r8⟩ := ih s1 (pop (root :: t)).1 hr1 hheap' hf1 hnd hlen'
        refine ⟨root :: rem, r1, ?_, r3, r4, r5, r6, ?_, ?_⟩
        · -- result ++ root :: rem ~ (pop ++ [root]) ~ root :: t
          have : ((notifyLoop n fuel s1 (pop (root :: t)).1).2 ++ root :: rem).Perm
              ((pop (root :: t)).1 ++ [root]) := by
            have h1 : ((notifyLoop n fuel s1 (pop (root :: t)).1).2 ++ root :: rem).Perm
                (root :: ((notifyLoop n fuel s1 (pop (root :: t)).1).2 ++ rem)) := List.perm_middle
            have h2 : ((pop (root :: t)).1 ++ [root]).Perm (root :: (pop (root :: t)).1) := by
              simpa using (List.perm_append_comm (l₁ := (pop (root :: t)).1) (l₂ := [root]))
            exact h1.trans ((List.Perm.cons root r2).trans h2.symm)
          exact this.trans hperm
        · intro it hit
          simp only [List.mem_cons] at hit
          have hanseq : ∀ x : Item, answerOf s1 n x = answerOf s n x := by
            intro x; unfold answerOf; rw [ctxErr_congr hoc.ended]
          rcases hit with rfl | hit
          · -- the root's channel is not touched again: its id is not among the later removals
            have hnotin : it.id ∉ rem.map (·.id) := by
              intro hin
              obtain ⟨x, hx, hxid⟩ := List.mem_map.mp hin
              have hx' : x ∈ (pop (it :: t)).1 :=
                (r2.subset (List.mem_append_right _ hx))
              exact (hmem x hx').2 hxid
            rw [r8.other it.id hnotin]
            exact ⟨hans, hwhy⟩
          · obtain ⟨a1, a2⟩ := r7 it hit
            rw [hanseq] at a1
            rw [ctxErr_congr hoc.ended] at a2
            exact ⟨a1, a2⟩
        · have := hoc.trans r8
          simpa using this
      cases hctx : s.ctxErr root.ctx with
      | some e =>
        simp only
        obtain ⟨q1, q2, q3⟩ := send_fresh s root.id e hr hfr
        exact cont (s.send root.id e) q1 q3 (by rw [q2]; unfold answerOf; rw [hctx]) (Or.inr (by rw [hctx]; rfl))
      | none =>
        simp only
        by_cases hrev : root.rev ≤ n
        · simp only [hrev, if_true]
          obtain ⟨q1, q2, q3⟩ := close_fresh s root.id hr hfr
          exact cont (s.close root.id) q1 q3 (by rw [q2]; unfold answerOf; rw [hctx]) (Or.inl hrev)
        · simp only [hrev, if_false]
          refine ⟨[], hr, by simp, hh, hf, hn, ?_, fun it hit => (by cases hit), OnlyChans.refl s⟩
          intro it hit
          have := root_min_mem (root :: t) hh it hit
          rw [hget_zero_cons] at this
          omega

/-- **the sweep's first pass**: every expired waiter of the slice is answered (exactly once, with
its context's error) without blocking, the live ones are kept in order, no other channel is touched -/
theorem sweepItems_spec : ∀ (h : Heap) (s : QState), s.status = .running → Fresh s h → IdsNodup h →
    (sweepItems s h).1.status = .running ∧
    (sweepItems s h).2 = h.filter (fun it => (s.ctxErr it.ctx).isNone) ∧
    (∀ it ∈ h, ∀ e, s.ctxErr it.ctx = some e → (sweepItems s h).1.chan it.id = { buf := some e }) ∧
    OnlyChans s (sweepItems s h).1 ((h.filter (fun it => (s.ctxErr it.ctx).isSome)).map (·.id)) := by
  intro h
  induction h with
  | nil => intro s hr _ _; exact ⟨hr, rfl, fun it hit => (by cases hit), OnlyChans.refl s⟩
  | cons x t ih =>
    intro s hr hf hn
    have hnt : IdsNodup t := by unfold IdsNodup at *; simp at hn; exact hn.2
    have hxt : ∀ it ∈ t, it.id ≠ x.id := by
      intro it hit he
      unfold IdsNodup at hn; simp only [List.map_cons, List.nodup_cons, List.mem_map, not_exists, not_and] at hn
      exact hn.1 it hit he
    unfold sweepItems
    cases hctx : s.ctxErr x.ctx with
    | some e =>
      simp only
      obtain ⟨q1, q2, q3⟩ := send_fresh s x.id e hr (hf x (by simp))
      have hrun : ¬ (s.send x.id e).status ≠ .running := by simp [q1]
      simp only [hrun, if_false]
      have hf1 : Fresh (s.send x.id e) t := by
        intro it hit
        rw [q3.other it.id (by simpa using hxt it hit)]
        exact hf it (by simp [hit])
      obtain ⟨r1, r2, r3, r4⟩ := ih (s.send x.id e) q1 hf1 hnt
      have hce : ∀ c, (s.send x.id e).ctxErr c = s.ctxErr c := fun c => ctxErr_congr q3.ended c
      refine ⟨r1, ?_, ?_, ?_⟩
      · rw [r2]; simp [hctx, hce]
      · intro it hit e' he'
        simp only [List.mem_cons] at hit
        rcases hit with rfl | hit
        · -- x itself: not touched by the rest (its id does not occur in t)
          rw [hctx] at he'; injection he' with he'; subst he'
          rw [r4.other it.id (by
            intro hin
            obtain ⟨y, hy, hyid⟩ := List.mem_map.mp hin
            exact hxt y (List.mem_filter.mp hy).1 hyid)]
          exact q2
        · exact r3 it hit e' (by rw [hce]; exact he')
      · have := q3.trans r4
        simpa [hctx, hce] using this
    | none =>
      simp only
      obtain ⟨r1, r2, r3, r4⟩ := ih s hr (fun it hit => hf it (by simp [hit])) hnt
      refine ⟨r1, by rw [r2]; simp [hctx], ?_, by simpa [hctx] using r4⟩
      intro it hit e' he'
      simp only [List.mem_cons] at hit
      rcases hit with rfl | hit
      · rw [hctx] at he'; cases he'
      · exact r3 it hit e' he'

/-! ### the whole queue -/

/-- invariant of the queue over any sequence of events -/
structure QInv (s : QState) : Prop where
  running : s.status = .running
  ord : ∀ t, IsHeap (s.heaps t)
  fresh : ∀ t, Fresh s (s.heaps t)
  nodup : ∀ t, IdsNodup (s.heaps t)
  disjoint : ∀ t t', t ≠ t' → ∀ it ∈ s.heaps t, ∀ it' ∈ s.heaps t', it.id ≠ it'.id
  known : ∀ t, s.heaps t ≠ [] → t ∈ s.tables

theorem isHeap_nil : IsHeap [] := fun k _ hk => by simp at hk

theorem qinv_init : QInv {} :=
  ⟨rfl, fun _ => isHeap_nil, fun _ it hit => (by cases hit), fun _ => List.nodup_nil,
   fun _ _ _ it hit => (by cases hit), fun _ h => absurd rfl h⟩

/-- is waiter id `w` unused by every entry of every heap? (every `Add` creates a new channel) -/
def FreshId (s : QState) (w : Nat) : Prop := ∀ t, ∀ it ∈ s.heaps t, it.id ≠ w

theorem mem_setHeap_tables (s : QState) (t : String) (h : Heap) : t ∈ (s.setHeap t h).tables := by
  unfold QState.setHeap
  simp only
  split
  · rename_i hc; simpa using hc
  · simp

theorem tables_setHeap_mono (s : QState) (t t' : String) (h : Heap) (hm : t' ∈ s.tables) : t' ∈ (s.setHeap t h).tables := by
  unfold QState.setHeap
  simp only
  split
  · exact hm
  · simp [hm]

/-- `Add` keeps the invariant -/
theorem qinv_add (s : QState) (hq : QInv s) (w : Nat) (t : String) (rev ctx : Nat) (hw : FreshId s w) :
    QInv (s.add w t rev ctx) := by
  unfold QState.add
  have hrun : ¬ s.status ≠ .running := by simp [hq.running]
  simp only [hrun, if_false]
  have hheap : ∀ t', ((s.setChan w {}).setHeap t (push (s.heap t) ⟨w, rev, ctx⟩)).heaps t' =
      if t' = t then push (s.heaps t) ⟨w, rev, ctx⟩ else s.heaps t' := by
    intro t'; simp [QState.setHeap, QState.setChan, QState.heap]
  have hchan : ∀ w', ((s.setChan w {}).setHeap t (push (s.heap t) ⟨w, rev, ctx⟩)).chan w' =
      if w' = w then {} else s.chan w' := by
    intro w'; simp [QState.setHeap, QState.setChan, QState.chan]
  have hpp := push_perm (s.heaps t) ⟨w, rev, ctx⟩
  have hmem : ∀ it, it ∈ push (s.heaps t) ⟨w, rev, ctx⟩ ↔ it ∈ s.heaps t ∨ it = ⟨w, rev, ctx⟩ := by
    intro it; rw [hpp.mem_iff]; simp
  refine ⟨hq.running, ?_, ?_, ?_, ?_, ?_⟩
  · intro t'; rw [hheap]; split
    · exact push_heap _ _ (hq.ord t)
    · exact hq.ord t'
  · intro t' it hit
    rw [hheap] at hit
    rw [hchan]
    split
    · rfl
    · rename_i hne
      split at hit
      · rename_i ht; subst ht
        rcases (hmem it).mp hit with h | h
        · exact hq.fresh _ it h
        · subst h; exact absurd rfl hne
      · exact hq.fresh t' it hit
  · intro t'; rw [hheap]; split
    · unfold IdsNodup
      rw [(hpp.map _).nodup_iff, List.map_append, List.nodup_append]
      refine ⟨hq.nodup t, by simp, ?_⟩
      intro a ha b hb
      simp only [List.map_cons, List.map_nil, List.mem_singleton] at hb
      subst hb
      obtain ⟨it, hit, rfl⟩ := List.mem_map.mp ha
      exact hw t it hit
    · exact hq.nodup t'
  · intro t1 t2 hne it hit it' hit'
    rw [hheap] at hit hit'
    split at hit <;> split at hit'
    · rename_i h1 h2; exact absurd (h1.trans h2.symm) hne
    · rename_i h1 h2; subst h1
      rcases (hmem it).mp hit with h | h
      · exact hq.disjoint _ _ hne it h it' hit'
      · subst h; exact fun e => hw t2 it' hit' e.symm
    · rename_i h1 h2; subst h2
      rcases (hmem it').mp hit' with h | h
      · exact hq.disjoint _ _ hne it hit it' h
      · subst h; exact hw t1 it hit
    · exact hq.disjoint _ _ hne it hit it' hit'
  · intro t' hne
    rw [hheap] at hne
    split at hne
    · rename_i ht; subst ht; exact mem_setHeap_tables _ _ _
    · exact tables_setHeap_mono _ _ _ _ (hq.known t' hne)

theorem eq_of_nodup_ids (l : Heap) (h : IdsNodup l) (x y : Item) (hx : x ∈ l) (hy : y ∈ l) (he : x.id = y.id) : x = y := by
  induction l with
  | nil => cases hx
  | cons a t ih =>
    unfold IdsNodup at h
    simp only [List.map_cons, List.nodup_cons, List.mem_map, not_exists, not_and] at h
    simp only [List.mem_cons] at hx hy
    rcases hx with rfl | hx <;> rcases hy with rfl | hy
    · rfl
    · exact absurd he.symm (h.1 y hy)
    · exact absurd he (h.1 x hx)
    · exact ih h.2 hx hy

/-- replacing one table's heap by a sub-collection of its entries, after answering some of that
table's waiters, keeps the invariant -/
theorem qinv_replace (s s1 : QState) (hq : QInv s) (t : String) (ws : List Nat) (h' : Heap)
    (hoc : OnlyChans s s1 ws) (hws : ∀ w ∈ ws, ∃ it ∈ s.heaps t, it.id = w) (hr : s1.status = .running)
    (hh : IsHeap h') (hf : Fresh s1 h') (hn : IdsNodup h') (hsub : ∀ it ∈ h', it ∈ s.heaps t) :
    QInv (s1.setHeap t h') := by
  have hheap : ∀ t', (s1.setHeap t h').heaps t' = if t' = t then h' else s.heaps t' := by
    intro t'; simp [QState.setHeap, hoc.heaps]
  have hchan : ∀ w, (s1.setHeap t h').chan w = s1.chan w := fun w => rfl
  refine ⟨hr, ?_, ?_, ?_, ?_, ?_⟩
  · intro t'; rw [hheap]; split
    · exact hh
    · exact hq.ord t'
  · intro t' it hit
    rw [hheap] at hit
    rw [hchan]
    split at hit
    · exact hf it hit
    · rename_i hne
      rw [hoc.other it.id (by
        intro hin
        obtain ⟨it2, hit2, hid⟩ := hws it.id hin
        exact hq.disjoint t' t hne it hit it2 hit2 hid.symm)]
      exact hq.fresh t' it hit
  · intro t'; rw [hheap]; split
    · exact hn
    · exact hq.nodup t'
  · intro t1 t2 hne it hit it' hit'
    rw [hheap] at hit hit'
    split at hit <;> split at hit'
    · rename_i h1 h2; exact absurd (h1.trans h2.symm) hne
    · rename_i h1 h2; subst h1; exact hq.disjoint _ _ hne it (hsub it hit) it' hit'
    · rename_i h1 h2; subst h2; exact hq.disjoint _ _ hne it hit it' (hsub it' hit')
    · exact hq.disjoint _ _ hne it hit it' hit'
  · intro t' hne
    rw [hheap] at hne
    split at hne
    · rename_i ht; subst ht; exact mem_setHeap_tables _ _ _
    · refine tables_setHeap_mono _ _ _ _ ?_
      rw [hoc.tables]; exact hq.known t' hne

/-- `Notify` keeps the invariant, and afterwards every waiter left on the table has a revision
above the notified one -/
theorem qinv_notify (s : QState) (hq : QInv s) (t : String) (n : Nat) :
    QInv (s.notify t n) ∧ ∀ it ∈ (s.notify t n).heaps t, n < it.rev := by
  unfold QState.notify
  have hrun : ¬ s.status ≠ .running := by simp [hq.running]
  simp only [hrun, if_false, QState.heap]
  obtain ⟨removed, r1, r2, r3, r4, r5, r6, r7, r8⟩ :=
    notifyLoop_spec n (s.heaps t).length s (s.heaps t) hq.running (hq.ord t) (hq.fresh t) (hq.nodup t) (Nat.le_refl _)
  simp only [r1, if_true]
  constructor
  · apply qinv_replace s _ hq t (removed.map (·.id)) _ r8 _ r1 r3 r4 r5
    · intro it hit; exact r2.subset (List.mem_append_left _ hit)
    · intro w hw
      obtain ⟨it, hit, rfl⟩ := List.mem_map.mp hw
      exact ⟨it, r2.subset (List.mem_append_right _ hit), rfl⟩
  · intro it hit
    simp only [QState.setHeap, if_true] at hit
    exact r6 it hit

theorem qinv_sweepTable (s : QState) (hq : QInv s) (t : String) : QInv (s.sweepTable t) := by
  unfold QState.sweepTable
  have hrun : ¬ s.status ≠ .running := by simp [hq.running]
  simp only [hrun, if_false, QState.heap, sweepHeap]
  obtain ⟨r1, r2, r3, r4⟩ := sweepItems_spec (s.heaps t) s hq.running (hq.fresh t) (hq.nodup t)
  simp only [r1, if_true]
  obtain ⟨hh, hp⟩ := heapify_heap (sweepItems s (s.heaps t)).2
  have hsub : ∀ it ∈ heapify (sweepItems s (s.heaps t)).2, it ∈ s.heaps t ∧ (s.ctxErr it.ctx).isNone = true := by
    intro it hit
    have := hp.subset hit
    rw [r2] at this
    exact List.mem_filter.mp this
  apply qinv_replace s _ hq t _ _ r4 _ r1 hh
  · -- live waiters keep their fresh channels: only expired ones were answered
    intro it hit
    obtain ⟨hin, hlive⟩ := hsub it hit
    rw [r4.other it.id (by
      intro hmem
      obtain ⟨y, hy, hyid⟩ := List.mem_map.mp hmem
      obtain ⟨hyin, hyexp⟩ := List.mem_filter.mp hy
      -- same id in one heap means same entry
      have : y = it := by
        exact eq_of_nodup_ids _ (hq.nodup t) y it hyin hin hyid
      subst this
      cases hc : s.ctxErr y.ctx <;> simp [hc] at hlive hyexp)]
    exact hq.fresh t it hin
  · unfold IdsNodup
    rw [(hp.map _).nodup_iff, r2]
    exact ((hq.nodup t).sublist (List.filter_sublist.map _))
  · intro it hit; exact (hsub it hit).1
  · intro w hw
    obtain ⟨it, hit, rfl⟩ := List.mem_map.mp hw
    exact ⟨it, (List.mem_filter.mp hit).1, rfl⟩

theorem qinv_sweep (s : QState) (hq : QInv s) : QInv s.sweep := by
  unfold QState.sweep
  have hrun : ¬ s.status ≠ .running := by simp [hq.running]
  simp only [hrun, if_false]
  generalize s.tables = ts
  induction ts generalizing s with
  | nil => exact hq
  | cons t rest ih => exact ih (s.sweepTable t) (qinv_sweepTable s hq t) (by simp [(qinv_sweepTable s hq t).running])

theorem qinv_cancel (s : QState) (hq : QInv s) (c : Nat) (e : CtxErr) : QInv (s.cancel c e) := by
  unfold QState.cancel
  split
  · exact hq
  · exact ⟨hq.running, hq.ord, hq.fresh, hq.nodup, hq.disjoint, hq.known⟩

end Regatta.Queue
