import Regatta.Model.WireDec
import Regatta.Proofs.Wire
/-
  Round trips of the mvcc messages: decode (encode m) = m for KeyValue, RequestOp (all arms and the
  empty oneof), Compare (with and without the oneof value), Txn and Command (recursive, any nesting
  depth), with empty vs absent optional fields kept apart.
-/
namespace Regatta.Wire
open Regatta

/-! ### fields with arbitrary field numbers -/

theorem decField_bytes' (f : Nat) (b rest : Bytes) :
    decField (tag f 2 ++ encVarint b.length ++ b ++ rest) = some (.bytes f b, rest) := by
  unfold decField tag
  rw [List.append_assoc, List.append_assoc, dec_enc_varint]
  simp only [bind, Option.bind]
  have hm : (f * 8 + 2) % 8 = 2 := by omega
  have hd : (f * 8 + 2) / 8 = f := by omega
  simp only [hm, hd]
  rw [dec_enc_varint]
  simp

theorem decField_varint' (f n : Nat) (rest : Bytes) :
    decField (tag f 0 ++ encVarint n ++ rest) = some (.varint f n, rest) := by
  unfold decField tag
  rw [List.append_assoc, dec_enc_varint]
  simp only [bind, Option.bind]
  have hm : (f * 8 + 0) % 8 = 0 := by omega
  have hd : (f * 8 + 0) / 8 = f := by omega
  simp only [hm, hd, if_true]
  rw [dec_enc_varint]
  rfl

theorem decField_enc' (f : Field) (rest : Bytes) : decField (f.enc ++ rest) = some (f, rest) := by
  cases f with
  | varint f n => simp only [Field.enc]; exact decField_varint' f n rest
  | bytes f b => simp only [Field.enc]; exact decField_bytes' f b rest

theorem decFields_enc' (fs : List Field) : ∀ fuel, fs.length ≤ fuel → decFields fuel (encFields fs) = some fs := by
  induction fs with
  | nil => intro fuel _; cases fuel <;> simp [encFields, decFields]
  | cons f rest ih =>
    intro fuel hfu
    cases fuel with
    | zero => simp only [List.length_cons] at hfu; omega
    | succ fuel =>
      have henc : encFields (f :: rest) = f.enc ++ encFields rest := by simp [encFields]
      rw [henc]
      have hne : (f.enc ++ encFields rest).isEmpty = false := by
        have := field_enc_ne_nil f
        cases hfe : f.enc with
        | nil => exact absurd hfe this
        | cons a t => rfl
      simp only [decFields, hne, Bool.false_eq_true, if_false]
      rw [decField_enc' f _]
      simp only [bind, Option.bind]
      rw [ih fuel (by simp only [List.length_cons] at hfu; omega)]
      rfl

theorem fieldsOf_enc (fs : List Field) : fieldsOf (encFields fs) = some fs :=
  decFields_enc' fs _ (encFields_length fs)

theorem encFields_append (a b : List Field) : encFields (a ++ b) = encFields a ++ encFields b := by
  simp [encFields]

/-! ### the field lists the encoders write -/

def bytesF (f : Nat) (b : Bytes) : List Field := if b.isEmpty then [] else [.bytes f b]
def varintF (f n : Nat) : List Field := if n = 0 then [] else [.varint f n]
def boolF (f : Nat) (b : Bool) : List Field := if b then [.varint f 1] else []
def optBytesF (f : Nat) : Option Bytes → List Field
  | none => []
  | some b => [.bytes f b]
def optVarintF (f : Nat) : Option Nat → List Field
  | none => []
  | some n => [.varint f n]

theorem enc_bytesF (f : Nat) (b : Bytes) : encFields (bytesF f b) = bytesField f b := by
  unfold bytesF bytesField; split <;> simp [encFields, Field.enc]
theorem enc_varintF (f n : Nat) : encFields (varintF f n) = varintField f n := by
  unfold varintF varintField; split <;> simp [encFields, Field.enc]
theorem enc_boolF (f : Nat) (b : Bool) : encFields (boolF f b) = boolField f b := by
  unfold boolF boolField; cases b <;> simp [encFields, Field.enc, encVarint]
theorem enc_optBytesF (f : Nat) (o : Option Bytes) : encFields (optBytesF f o) = optBytesField f o := by
  cases o <;> simp [optBytesF, optBytesField, encFields, Field.enc]
theorem enc_optVarintF (f : Nat) (o : Option Nat) : encFields (optVarintF f o) = optVarintField f o := by
  cases o <;> simp [optVarintF, optVarintField, encFields, Field.enc]
theorem enc_msgF (f : Nat) (m : Bytes) : encFields [.bytes f m] = msgField f m := by
  simp [encFields, Field.enc, msgField]

/-! ### KeyValue -/

def KeyValue.fields (kv : KeyValue) : List Field :=
  bytesF 1 kv.key ++ varintF 2 kv.createRev ++ varintF 3 kv.modRev ++ bytesF 4 kv.value

theorem KeyValue.enc_eq (kv : KeyValue) : kv.enc = encFields kv.fields := by
  simp only [KeyValue.enc, KeyValue.fields, encFields_append, enc_bytesF, enc_varintF]

theorem KeyValue.ofFields_fields (kv : KeyValue) : KeyValue.ofFields kv.fields = kv := by
  obtain ⟨k, c, m, v⟩ := kv
  by_cases hk : k = [] <;> by_cases hc : c = 0 <;> by_cases hm : m = 0 <;> by_cases hv : v = [] <;>
    simp [KeyValue.fields, KeyValue.ofFields, bytesF, varintF, hk, hc, hm, hv]

theorem KeyValue.decode_enc (kv : KeyValue) : KeyValue.decode kv.enc = some kv := by
  unfold KeyValue.decode
  rw [KeyValue.enc_eq, fieldsOf_enc]
  simp [KeyValue.ofFields_fields]

/-! ### RequestOp -/

def RangeMsg.fields (k e : Bytes) (l : Nat) (ko co : Bool) : List Field :=
  bytesF 1 k ++ bytesF 2 e ++ varintF 3 l ++ boolF 4 ko ++ boolF 5 co
def PutMsg.fields (k v : Bytes) (pk : Bool) : List Field := bytesF 1 k ++ bytesF 2 v ++ boolF 3 pk
def DelMsg.fields (k e : Bytes) (pk c : Bool) : List Field := bytesF 1 k ++ bytesF 2 e ++ boolF 4 pk ++ boolF 5 c

theorem RangeMsg.ofFields_fields (k e : Bytes) (l : Nat) (ko co : Bool) :
    RangeMsg.ofFields (RangeMsg.fields k e l ko co) = ⟨k, e, l, ko, co⟩ := by
  by_cases hk : k = [] <;> by_cases he : e = [] <;> by_cases hl : l = 0 <;> cases ko <;> cases co <;>
    simp [RangeMsg.fields, RangeMsg.ofFields, bytesF, varintF, boolF, hk, he, hl]

theorem PutMsg.ofFields_fields (k v : Bytes) (pk : Bool) : PutMsg.ofFields (PutMsg.fields k v pk) = ⟨k, v, pk⟩ := by
  by_cases hk : k = [] <;> by_cases hv : v = [] <;> cases pk <;>
    simp [PutMsg.fields, PutMsg.ofFields, bytesF, boolF, hk, hv]

theorem DelMsg.ofFields_fields (k e : Bytes) (pk c : Bool) : DelMsg.ofFields (DelMsg.fields k e pk c) = ⟨k, e, pk, c⟩ := by
  by_cases hk : k = [] <;> by_cases he : e = [] <;> cases pk <;> cases c <;>
    simp [DelMsg.fields, DelMsg.ofFields, bytesF, boolF, hk, he]

theorem RequestOp.decode_enc (o : RequestOp) : RequestOp.decode o.enc = some o := by
  cases o with
  | none => simp [RequestOp.enc, RequestOp.decode, fieldsOf, decFields]
  | range k e l ko co =>
    have h1 : RequestOp.enc (.range k e l ko co) = encFields [.bytes 1 (encFields (RangeMsg.fields k e l ko co))] := by
      rw [enc_msgF]
      simp only [RequestOp.enc, RangeMsg.fields, encFields_append, enc_bytesF, enc_varintF, enc_boolF]
    unfold RequestOp.decode
    rw [h1, fieldsOf_enc]
    simp [RequestOp.step, fieldsOf_enc, RangeMsg.ofFields_fields]
  | put k v pk =>
    have h1 : RequestOp.enc (.put k v pk) = encFields [.bytes 2 (encFields (PutMsg.fields k v pk))] := by
      rw [enc_msgF]
      simp only [RequestOp.enc, PutMsg.fields, encFields_append, enc_bytesF, enc_boolF]
    unfold RequestOp.decode
    rw [h1, fieldsOf_enc]
    simp [RequestOp.step, fieldsOf_enc, PutMsg.ofFields_fields]
  | del k e pk c =>
    have h1 : RequestOp.enc (.del k e pk c) = encFields [.bytes 3 (encFields (DelMsg.fields k e pk c))] := by
      rw [enc_msgF]
      simp only [RequestOp.enc, DelMsg.fields, encFields_append, enc_bytesF, enc_boolF]
    unfold RequestOp.decode
    rw [h1, fieldsOf_enc]
    simp [RequestOp.step, fieldsOf_enc, DelMsg.ofFields_fields]

/-! ### Compare -/

def Compare.fields (c : Compare) : List Field :=
  varintF 1 c.result ++ varintF 2 c.target ++ bytesF 3 c.key ++ bytesF 64 c.rangeEnd ++ optBytesF 4 c.value

theorem Compare.enc_eq (c : Compare) : c.enc = encFields c.fields := by
  simp only [Compare.enc, Compare.fields, encFields_append, enc_bytesF, enc_varintF, enc_optBytesF]

theorem Compare.ofFields_fields (c : Compare) : Compare.ofFields c.fields = c := by
  obtain ⟨r, t, k, v, e⟩ := c
  by_cases hr : r = 0 <;> by_cases ht : t = 0 <;> by_cases hk : k = [] <;> by_cases he : e = [] <;> cases v <;>
    simp [Compare.fields, Compare.ofFields, bytesF, varintF, optBytesF, hr, ht, hk, he]

theorem Compare.decode_enc (c : Compare) : Compare.decode c.enc = some c := by
  unfold Compare.decode
  rw [Compare.enc_eq, fieldsOf_enc]
  simp [Compare.ofFields_fields]


/-! ### Txn -/

def Txn.fields (t : Txn) : List Field :=
  t.compare.map (fun c => .bytes 1 c.enc) ++ t.success.map (fun o => .bytes 2 o.enc) ++ t.failure.map (fun o => .bytes 3 o.enc)

theorem encFields_map_msg {α : Type} (f : Nat) (enc : α → Bytes) (l : List α) :
    encFields (l.map (fun x => Field.bytes f (enc x))) = (l.map (fun x => msgField f (enc x))).flatten := by
  induction l with
  | nil => rfl
  | cons x rest ih =>
    have : encFields (Field.bytes f (enc x) :: rest.map (fun x => Field.bytes f (enc x))) =
        msgField f (enc x) ++ encFields (rest.map (fun x => Field.bytes f (enc x))) := by
      simp [encFields, Field.enc, msgField]
    simp only [List.map_cons, List.flatten_cons, this, ih]

theorem Txn.enc_eq (t : Txn) : t.enc = encFields t.fields := by
  simp only [Txn.enc, Txn.fields, encFields_append, encFields_map_msg]

theorem Txn.fold_compare (t : Txn) (cs : List Compare) :
    (cs.map (fun c => Field.bytes 1 c.enc)).foldlM Txn.step t = some { t with compare := t.compare ++ cs } := by
  induction cs generalizing t with
  | nil => simp
  | cons c rest ih =>
    have hstep : Txn.step t (.bytes 1 c.enc) = some { t with compare := t.compare ++ [c] } := by
      simp [Txn.step, Compare.decode_enc]
    rw [List.map_cons, List.foldlM_cons, hstep]
    simp [ih]

theorem Txn.fold_success (t : Txn) (os : List RequestOp) :
    (os.map (fun o => Field.bytes 2 o.enc)).foldlM Txn.step t = some { t with success := t.success ++ os } := by
  induction os generalizing t with
  | nil => simp
  | cons o rest ih =>
    have hstep : Txn.step t (.bytes 2 o.enc) = some { t with success := t.success ++ [o] } := by
      simp [Txn.step, RequestOp.decode_enc]
    rw [List.map_cons, List.foldlM_cons, hstep]
    simp [ih]

theorem Txn.fold_failure (t : Txn) (os : List RequestOp) :
    (os.map (fun o => Field.bytes 3 o.enc)).foldlM Txn.step t = some { t with failure := t.failure ++ os } := by
  induction os generalizing t with
  | nil => simp
  | cons o rest ih =>
    have hstep : Txn.step t (.bytes 3 o.enc) = some { t with failure := t.failure ++ [o] } := by
      simp [Txn.step, RequestOp.decode_enc]
    rw [List.map_cons, List.foldlM_cons, hstep]
    simp [ih]

theorem Txn.decode_enc (t : Txn) : Txn.decode t.enc = some t := by
  unfold Txn.decode
  rw [Txn.enc_eq, fieldsOf_enc]
  simp [Txn.fields, List.foldlM_append, Txn.fold_compare, Txn.fold_success, Txn.fold_failure]


/-! ### Command -/

def optMsgF (f : Nat) : Option Bytes → List Field
  | none => []
  | some m => [.bytes f m]

def Command.fields : Command → List Field
  | .mk table type kv li batch txn re pk sq cnt =>
    bytesF 1 table ++ varintF 2 type ++ optMsgF 3 (kv.map KeyValue.enc) ++ optVarintF 5 li ++
    batch.map (fun kv => .bytes 6 kv.enc) ++ optMsgF 7 (txn.map Txn.enc) ++ optBytesF 8 re ++ boolF 9 pk ++
    sq.map (fun c => .bytes 10 c.enc) ++ boolF 11 cnt

theorem Command.encList_eq (sq : List Command) :
    Command.encList sq = encFields (sq.map (fun c => Field.bytes 10 c.enc)) := by
  induction sq with
  | nil => simp [Command.encList, encFields]
  | cons c rest ih =>
    simp only [Command.encList, List.map_cons]
    rw [ih]
    simp [encFields, Field.enc, msgField]

theorem Command.enc_eq (c : Command) : c.enc = encFields c.fields := by
  obtain ⟨table, type, kv, li, batch, txn, re, pk, sq, cnt⟩ := c
  simp only [Command.enc, Command.fields, encFields_append, enc_bytesF, enc_varintF, enc_optVarintF, enc_optBytesF,
    enc_boolF, encFields_map_msg, Command.encList_eq]
  cases kv <;> cases txn <;> simp [optMsgF, encFields, Field.enc, msgField]

section segments
variable (dec : Bytes → Option Command)

theorem seg_table (a : CmdAcc) (t : Bytes) (h : a.table = []) :
    (bytesF 1 t).foldlM (CmdAcc.step dec) a = some { a with table := t } := by
  unfold bytesF
  by_cases ht : t = []
  · subst ht; simp; cases a; simp_all
  · simp [ht, CmdAcc.step]

theorem seg_type (a : CmdAcc) (n : Nat) (h : a.type = 0) :
    (varintF 2 n).foldlM (CmdAcc.step dec) a = some { a with type := n } := by
  unfold varintF
  by_cases hn : n = 0
  · subst hn; simp; cases a; simp_all
  · simp [hn, CmdAcc.step]

theorem seg_kv (a : CmdAcc) (kv : Option KeyValue) (h : a.kv = none) :
    (optMsgF 3 (kv.map KeyValue.enc)).foldlM (CmdAcc.step dec) a = some { a with kv := kv } := by
  cases kv with
  | none => simp [optMsgF]; cases a; simp_all
  | some k => simp [optMsgF, CmdAcc.step, KeyValue.decode_enc]

theorem seg_li (a : CmdAcc) (li : Option Nat) (h : a.leaderIndex = none) :
    (optVarintF 5 li).foldlM (CmdAcc.step dec) a = some { a with leaderIndex := li } := by
  cases li with
  | none => simp [optVarintF]; cases a; simp_all
  | some n => simp [optVarintF, CmdAcc.step]

theorem seg_batch (a : CmdAcc) (batch : List KeyValue) :
    (batch.map (fun kv => Field.bytes 6 kv.enc)).foldlM (CmdAcc.step dec) a = some { a with batch := a.batch ++ batch } := by
  induction batch generalizing a with
  | nil => simp
  | cons kv rest ih =>
    have hstep : CmdAcc.step dec a (.bytes 6 kv.enc) = some { a with batch := a.batch ++ [kv] } := by
      simp [CmdAcc.step, KeyValue.decode_enc]
    rw [List.map_cons, List.foldlM_cons, hstep]
    simp [ih]

theorem seg_txn (a : CmdAcc) (t : Option Txn) (h : a.txn = none) :
    (optMsgF 7 (t.map Txn.enc)).foldlM (CmdAcc.step dec) a = some { a with txn := t } := by
  cases t with
  | none => simp [optMsgF]; cases a; simp_all
  | some k => simp [optMsgF, CmdAcc.step, Txn.decode_enc]

theorem seg_re (a : CmdAcc) (re : Option Bytes) (h : a.rangeEnd = none) :
    (optBytesF 8 re).foldlM (CmdAcc.step dec) a = some { a with rangeEnd := re } := by
  cases re with
  | none => simp [optBytesF]; cases a; simp_all
  | some n => simp [optBytesF, CmdAcc.step]

theorem seg_pk (a : CmdAcc) (b : Bool) (h : a.prevKvs = false) :
    (boolF 9 b).foldlM (CmdAcc.step dec) a = some { a with prevKvs := b } := by
  cases b with
  | false => simp [boolF]; cases a; simp_all
  | true => simp [boolF, CmdAcc.step]

theorem seg_cnt (a : CmdAcc) (b : Bool) (h : a.count = false) :
    (boolF 11 b).foldlM (CmdAcc.step dec) a = some { a with count := b } := by
  cases b with
  | false => simp [boolF]; cases a; simp_all
  | true => simp [boolF, CmdAcc.step]

theorem seg_seq (a : CmdAcc) (sq : List Command) (hdec : ∀ c ∈ sq, dec c.enc = some c) :
    (sq.map (fun c => Field.bytes 10 c.enc)).foldlM (CmdAcc.step dec) a = some { a with sequence := a.sequence ++ sq } := by
  induction sq generalizing a with
  | nil => simp
  | cons c rest ih =>
    have hstep : CmdAcc.step dec a (.bytes 10 c.enc) = some { a with sequence := a.sequence ++ [c] } := by
      simp [CmdAcc.step, hdec c (by simp)]
    rw [List.map_cons, List.foldlM_cons, hstep]
    simp only [Option.bind_eq_bind, Option.bind_some]
    rw [ih _ (fun x hx => hdec x (List.mem_cons_of_mem _ hx))]
    simp

end segments

/-- the fold over all fields of an encoded command, given that the sub-commands decode -/
theorem Command.fold_fields (dec : Bytes → Option Command) (table : Bytes) (type : Nat) (kv : Option KeyValue)
    (li : Option Nat) (batch : List KeyValue) (txn : Option Txn) (re : Option Bytes) (pk : Bool) (sq : List Command)
    (cnt : Bool) (hdec : ∀ c ∈ sq, dec c.enc = some c) :
    (Command.fields (.mk table type kv li batch txn re pk sq cnt)).foldlM (CmdAcc.step dec) {} =
      some ⟨table, type, kv, li, batch, txn, re, pk, sq, cnt⟩ := by
  simp only [Command.fields, List.foldlM_append]
  rw [seg_table dec {} table rfl]
  simp only [Option.bind_eq_bind, Option.bind_some]
  rw [seg_type dec _ type rfl]
  simp only [Option.bind_some]
  rw [seg_kv dec _ kv rfl]
  simp only [Option.bind_some]
  rw [seg_li dec _ li rfl]
  simp only [Option.bind_some]
  rw [seg_batch dec _ batch]
  simp only [Option.bind_some]
  rw [seg_txn dec _ txn rfl]
  simp only [Option.bind_some]
  rw [seg_re dec _ re rfl]
  simp only [Option.bind_some]
  rw [seg_pk dec _ pk rfl]
  simp only [Option.bind_some]
  rw [seg_seq dec _ sq hdec]
  simp only [Option.bind_some]
  rw [seg_cnt dec _ cnt rfl]
  simp

mutual
/-- **Command round trip**, any nesting depth: with fuel at least the depth, decoding the encoding
gives the command back — every field, every oneof arm, absent vs present-empty optional fields -/
theorem Command.decode_enc : (c : Command) → (fuel : Nat) → c.depth ≤ fuel → Command.decode fuel c.enc = some c
  | .mk table type kv li batch txn re pk sq cnt, fuel, h => by
    cases fuel with
    | zero => simp [Command.depth] at h
    | succ fuel =>
      have hd : Command.depthList sq ≤ fuel := by simp only [Command.depth] at h; omega
      have hsq := Command.decodeList_enc sq fuel hd
      simp only [Command.decode]
      rw [Command.enc_eq, fieldsOf_enc]
      simp only [Option.bind_eq_bind, Option.bind_some]
      rw [Command.fold_fields (Command.decode fuel) table type kv li batch txn re pk sq cnt hsq]
      rfl
theorem Command.decodeList_enc : (cs : List Command) → (fuel : Nat) → Command.depthList cs ≤ fuel →
    ∀ c ∈ cs, Command.decode fuel c.enc = some c
  | [], _, _ => by intro c hc; cases hc
  | x :: rest, fuel, h => by
    intro c hc
    simp only [Command.depthList] at h
    rcases List.mem_cons.mp hc with hc | hc
    · rw [hc]; exact Command.decode_enc x fuel (by omega)
    · exact Command.decodeList_enc rest fuel (by omega) c hc
end

end Regatta.Wire
