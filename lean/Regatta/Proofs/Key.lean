import Regatta.Model.Key
import Regatta.Basic.SMap
/-
  Helper lemmas about the key codec model (used by Props/C12 and by the table refinement proofs).
-/
namespace Regatta.Key
open Regatta

theorem bytesLt_cons_of_lt (a b : UInt8) (as bs : Bytes) (h : a.toNat < b.toNat) :
    bytesLt (a :: as) (b :: bs) = true := by
  simp [bytesLt, h]

theorem bytesLt_cons_same (a : UInt8) (as bs : Bytes) :
    bytesLt (a :: as) (a :: bs) = bytesLt as bs := by
  simp [bytesLt]

/-- stored keys with the same type byte compare like their key parts -/
theorem encode_lt (t : UInt8) (a b : Bytes) : bytesLt (encode t a) (encode t b) = bytesLt a b := by
  unfold encode
  rw [bytesLt_append_left, bytesLt_cons_same]

/-- a smaller type byte sorts first, whatever the key parts -/
theorem encode_lt_of_type_lt (t u : UInt8) (a b : Bytes) (h : t.toNat < u.toNat) :
    bytesLt (encode t a) (encode u b) = true := by
  unfold encode
  rw [bytesLt_append_left]
  exact bytesLt_cons_of_lt _ _ _ _ h

theorem encode_injective (t : UInt8) (a b : Bytes) (h : encode t a = encode t b) : a = b := by
  unfold encode at h
  have := List.append_cancel_left h
  simpa using this

theorem hdr_length : hdr.length = Extracted.keyHeaderLen := by
  simp [hdr, Extracted.keyHeaderLen]

theorem hdr_head : hdr.head? = some Extracted.keyV1 := by simp [hdr]

theorem decodeBytes_encode (t : UInt8) (k : Bytes) (hk : k ≠ []) :
    decodeBytes (encode t k) = .ok (t, k) := by
  unfold decodeBytes encode
  have h1 : ¬ (hdr ++ t :: k).length < Extracted.keyHeaderLen := by
    simp [hdr_length]
  have h2 : (hdr ++ t :: k).head? = some Extracted.keyV1 := by simp [hdr]
  have h3 : (hdr ++ t :: k).drop Extracted.keyHeaderLen = t :: k := by
    rw [← hdr_length]; simp
  simp only [h1, if_false, h2, if_true, h3]
  cases k with
  | nil => exact absurd rfl hk
  | cons x xs => rfl

/-- exact inverse of `encodeUser` on stored keys: strip `hdr ++ [typeUser]`, require a non-empty rest -/
def decodeUserExact (raw : Bytes) : Option Bytes :=
  if (hdr ++ [typeUser]).isPrefixOf raw then
    let k := raw.drop (hdr.length + 1)
    if k = [] then none else some k
  else none

theorem decodeUserExact_encodeUser (k : Bytes) (hk : k ≠ []) : decodeUserExact (encodeUser k) = some k := by
  unfold decodeUserExact encodeUser encode
  have h1 : (hdr ++ [typeUser]).isPrefixOf (hdr ++ typeUser :: k) = true := by
    rw [List.isPrefixOf_iff_prefix]
    exact ⟨k, by simp⟩
  have h2 : (hdr ++ typeUser :: k).drop (hdr.length + 1) = k := by
    have : hdr ++ typeUser :: k = (hdr ++ [typeUser]) ++ k := by simp
    rw [this, List.drop_append_of_le_length (by simp)]
    simp
  simp [h1, h2, hk]

theorem decodeUserExact_some (x a : Bytes) (h : decodeUserExact x = some a) : x = encodeUser a ∧ a ≠ [] := by
  unfold decodeUserExact at h
  split at h
  · rename_i hp
    rw [List.isPrefixOf_iff_prefix] at hp
    obtain ⟨r, hr⟩ := hp
    subst hr
    have h2 : ((hdr ++ [typeUser]) ++ r).drop (hdr.length + 1) = r := by
      rw [List.drop_append_of_le_length (by simp)]
      simp
    simp only [h2] at h
    split at h
    · cases h
    · rename_i hne
      injection h with h
      subst h
      exact ⟨by simp [encodeUser, encode], hne⟩
  · cases h

/-- on a stored user key the production path (`DecodeBytes` + type test) recovers the key -/
theorem decodeUser_encodeUser (k : Bytes) (hk : k ≠ []) : decodeUser (encodeUser k) = some k := by
  unfold decodeUser encodeUser
  rw [decodeBytes_encode _ _ hk]
  simp [hk]

/-! ### incrementRightmostByte -/

theorem incRev_carry (n : Nat) (t : UInt8) (rest : Bytes) (ht : t + 1 ≠ 0) :
    incRev (List.replicate n 255 ++ t :: rest) = (List.replicate n 0 ++ (t + 1) :: rest, false) := by
  induction n with
  | zero => simp [incRev, ht]
  | succ n ih =>
    rw [List.replicate_succ, List.cons_append]
    simp only [incRev]
    have : (255 : UInt8) + 1 = 0 := by decide
    simp [this, ih, List.replicate_succ]

/-- the carry runs through a tail of `0xFF` bytes into the byte before it -/
theorem increment_carry (p : Bytes) (t : UInt8) (n : Nat) (ht : t + 1 ≠ 0) :
    incrementRightmostByte (p ++ t :: List.replicate n 255) = p ++ (t + 1) :: List.replicate n 0 := by
  unfold incrementRightmostByte
  have hne : p ++ t :: List.replicate n 255 ≠ [] := by simp
  simp only [hne, if_false]
  have hrev : (p ++ t :: List.replicate n 255).reverse = List.replicate n 255 ++ t :: p.reverse := by
    simp [List.reverse_append, List.reverse_replicate]
  rw [hrev, incRev_carry n t _ ht]
  simp [List.reverse_append, List.reverse_replicate]

theorem u8_succ_lt (t : UInt8) (ht : t + 1 ≠ 0) : t.toNat < (t + 1).toNat := by
  have h1 : (t + 1).toNat = (t.toNat + 1) % 256 := by simp [UInt8.toNat_add]
  have h2 : t.toNat < 256 := t.toNat_lt
  by_cases h : t.toNat = 255
  · exfalso; apply ht
    apply UInt8.toNat_inj.mp
    rw [h1, h]; rfl
  · rw [h1, Nat.mod_eq_of_lt (by omega)]; omega

/-- the bound computed for a prefix lies above EVERY key that starts with the prefix, whatever
follows and however long the run of 0xFF bytes the carry has to cross -/
theorem increment_above_prefix (p : Bytes) (t : UInt8) (n : Nat) (ht : t + 1 ≠ 0) (s : Bytes) :
    bytesLt ((p ++ t :: List.replicate n 255) ++ s) (incrementRightmostByte (p ++ t :: List.replicate n 255)) = true := by
  rw [increment_carry p t n ht, List.append_assoc, bytesLt_append_left, List.cons_append]
  exact bytesLt_cons_of_lt _ _ _ _ (u8_succ_lt t ht)

/-- … and it is tight: a key below the bound that is not below the prefix starts with the prefix
bytes up to the incremented one -/
theorem increment_keeps_length (p : Bytes) (t : UInt8) (n : Nat) (ht : t + 1 ≠ 0) :
    (incrementRightmostByte (p ++ t :: List.replicate n 255)).length = (p ++ t :: List.replicate n 255).length := by
  rw [increment_carry p t n ht]; simp

end Regatta.Key
