import Regatta.Model.History
/-
  A history that passes the real-time check (`checkHistory`) and whose answers are the sequential
  specification's at the recorded log positions is LINEARIZABLE: there is one sequential order of
  all its operations - the committed writes and the completed reads - that

    * is a permutation of the history,
    * never puts a call after one that started only when it had already returned, and
    * run on the sequential specification produces exactly the answers the clients saw.
-/
namespace Regatta.History
open List

variable {S W Q A B : Type}

/-- the definition (Herlihy / Wing), with the committed log as the completed and pending writes -/
def Linearizable (sp : Seq S W Q A B) (s0 : S) (log : List (WEntry W A)) (rs : List (ROp Q B)) : Prop :=
  ∃ l : List (Op W Q A B),
    l.Perm (log.map .w ++ rs.map .r) ∧
    l.Pairwise (fun x y => y.prec x = false) ∧
    (exec sp s0 l).2 = l.map Op.out

/-- the answers of the log entries are the specification's, in log order -/
def WLegal (sp : Seq S W Q A B) : S → List (WEntry W A) → Prop
  | _, [] => True
  | s, e :: l => e.out = (sp.write s e.cmd).2 ∧ WLegal sp (sp.write s e.cmd).1 l

/-- the answer of every read is the specification's on the state after `seen` entries -/
def RLegal (sp : Seq S W Q A B) (s0 : S) (log : List (WEntry W A)) (rs : List (ROp Q B)) : Prop :=
  ∀ r ∈ rs, r.out = sp.read (advance sp s0 log r.seen) r.req

/-! ### sequential execution -/

theorem exec_append (sp : Seq S W Q A B) (s : S) (l1 l2 : List (Op W Q A B)) :
    exec sp s (l1 ++ l2) = ((exec sp (exec sp s l1).1 l2).1, (exec sp s l1).2 ++ (exec sp (exec sp s l1).1 l2).2) := by
  induction l1 generalizing s with
  | nil => simp [exec]
  | cons x l ih =>
    cases x with
    | w e => simp only [List.cons_append, exec, ih]
    | r o => simp only [List.cons_append, exec, ih]

theorem exec_reads (sp : Seq S W Q A B) (s : S) (rs : List (ROp Q B)) :
    exec sp s (rs.map .r) = (s, rs.map (fun o => .inr (sp.read s o.req))) := by
  induction rs with
  | nil => rfl
  | cons o l ih => simp only [List.map_cons, exec, ih]

@[simp] theorem advance_zero (sp : Seq S W Q A B) (s : S) (log : List (WEntry W A)) : advance sp s log 0 = s := by
  cases log <;> rfl

/-! ### the linearization is a permutation of the history -/

theorem sortInv_perm (rs : List (ROp Q B)) : (sortInv rs).Perm rs := mergeSort_perm _ _

theorem build_perm (log : List (WEntry W A)) : ∀ rs : List (ROp Q B),
    (build log rs).Perm (log.map Op.w ++ rs.map Op.r) := by
  induction log with
  | nil => intro rs; simpa [build] using (sortInv_perm rs).map Op.r
  | cons e l ih =>
    intro rs
    simp only [build, List.map_cons, List.cons_append]
    refine perm_middle.trans (Perm.cons _ ?_)
    have h1 := ((sortInv_perm (rs.filter (fun r => decide (r.seen < e.pos)))).map (Op.r (W := W) (A := A))).append
      (ih (rs.filter (fun r => !decide (r.seen < e.pos))))
    refine h1.trans ?_
    -- A ++ (L ++ B) ~ L ++ (A ++ B)
    refine (perm_append_comm_assoc _ _ _).trans (Perm.append_left _ ?_)
    rw [← List.map_append]
    exact (filter_append_perm _ rs).map _

theorem mem_build {log : List (WEntry W A)} {rs : List (ROp Q B)} {x : Op W Q A B} (h : x ∈ build log rs) :
    (∃ e ∈ log, x = .w e) ∨ (∃ r ∈ rs, x = .r r) := by
  have := (build_perm log rs).mem_iff.mp h
  rcases List.mem_append.mp this with h | h
  · obtain ⟨e, he, rfl⟩ := List.mem_map.mp h; exact .inl ⟨e, he, rfl⟩
  · obtain ⟨r, hr, rfl⟩ := List.mem_map.mp h; exact .inr ⟨r, hr, rfl⟩

/-! ### the linearization is legal -/

theorem build_legal (sp : Seq S W Q A B) (log : List (WEntry W A)) :
    ∀ (k : Nat) (s : S) (rs : List (ROp Q B)),
      positionsFrom k log = true → WLegal sp s log →
      (∀ r ∈ rs, k ≤ r.seen ∧ r.seen ≤ k + log.length ∧ r.out = sp.read (advance sp s log (r.seen - k)) r.req) →
      (exec sp s (build log rs)).2 = (build log rs).map Op.out := by
  induction log with
  | nil =>
    intro k s rs _ _ hR
    simp only [build, exec_reads, List.map_map]
    apply List.map_congr_left
    intro r hr
    have hr' : r ∈ rs := (sortInv_perm rs).mem_iff.mp hr
    obtain ⟨h1, h2, h3⟩ := hR r hr'
    simp only [Function.comp, Op.out, h3]
    cases (r.seen - k) <;> rfl
  | cons e l ih =>
    intro k s rs hpos hW hR
    simp only [positionsFrom, Bool.and_eq_true, decide_eq_true_eq] at hpos
    obtain ⟨hp, hpos'⟩ := hpos
    obtain ⟨hout, hW'⟩ := hW
    simp only [build, exec_append, exec_reads, List.map_append, List.map_map, List.map_cons, exec]
    have ihh := ih (k + 1) (sp.write s e.cmd).1 (rs.filter (fun r => !decide (r.seen < e.pos))) hpos' hW' (by
      intro r hr
      obtain ⟨hr', hf⟩ := List.mem_filter.mp hr
      simp only [Bool.not_eq_true', decide_eq_false_iff_not, Nat.not_lt] at hf
      obtain ⟨h1, h2, h3⟩ := hR r hr'
      refine ⟨by omega, by simp only [List.length_cons] at h2; omega, ?_⟩
      rw [h3]
      have : r.seen - k = (r.seen - (k + 1)) + 1 := by omega
      rw [this]
      rfl)
    congr 1
    · apply List.map_congr_left
      intro r hr
      have hr' := (sortInv_perm _).mem_iff.mp hr
      obtain ⟨hr'', hf⟩ := List.mem_filter.mp hr'
      simp only [decide_eq_true_eq] at hf
      obtain ⟨h1, h2, h3⟩ := hR r hr''
      have : r.seen - k = 0 := by omega
      simp only [Function.comp, Op.out, h3, this, advance_zero]
    · simp only [Op.out, hout]
      congr 1

/-! ### the linearization respects real time -/

theorem sortInv_sorted (rs : List (ROp Q B)) : (sortInv rs).Pairwise (fun a b => a.inv ≤ b.inv) := by
  have := pairwise_mergeSort (le := fun (a b : ROp Q B) => decide (a.inv ≤ b.inv))
    (fun a b c h1 h2 => by simp only [decide_eq_true_eq] at *; omega)
    (fun a b => by
      by_cases h : a.inv ≤ b.inv
      · simp [h]
      · have : b.inv ≤ a.inv := by omega
        simp [this]) rs
  exact this.imp (by intro a b h; simpa using h)

theorem reads_block_rt (rs : List (ROp Q B)) (hwf : ∀ r ∈ rs, r.inv ≤ r.resp) :
    ((sortInv rs).map (Op.r (W := W) (A := A))).Pairwise (fun x y => y.prec x = false) := by
  rw [List.pairwise_map]
  refine (sortInv_sorted rs).imp_of_mem ?_
  intro a b _ hb hab
  have hb' := hwf b ((sortInv_perm rs).mem_iff.mp hb)
  simp only [Op.prec, Op.resp?, Op.inv, before]
  exact decide_eq_false (by omega)

theorem build_rt (log : List (WEntry W A)) :
    ∀ (rs : List (ROp Q B)),
      log.Pairwise (fun e1 e2 => e1.pos < e2.pos) →
      log.Pairwise (fun e1 e2 => before e2.resp e1.inv = false) →
      (∀ e ∈ log, ∀ r ∈ rs, before e.resp r.inv = true → e.pos ≤ r.seen) →
      (∀ e ∈ log, ∀ r ∈ rs, before (some r.resp) e.inv = true → r.seen < e.pos) →
      (∀ r1 ∈ rs, ∀ r2 ∈ rs, before (some r1.resp) r2.inv = true → r1.seen ≤ r2.seen) →
      (∀ r ∈ rs, r.inv ≤ r.resp) →
      (build log rs).Pairwise (fun x y => y.prec x = false) := by
  induction log with
  | nil => intro rs _ _ _ _ _ hwf; exact reads_block_rt rs hwf
  | cons e l ih =>
    intro rs hpi hww hwr hrw hrr hwf
    obtain ⟨hpe, hpi'⟩ := List.pairwise_cons.mp hpi
    obtain ⟨hwe, hww'⟩ := List.pairwise_cons.mp hww
    simp only [build]
    have hsub1 : ∀ r, r ∈ rs.filter (fun r => decide (r.seen < e.pos)) → r ∈ rs ∧ r.seen < e.pos := by
      intro r hr
      obtain ⟨h1, h2⟩ := List.mem_filter.mp hr
      exact ⟨h1, by simpa using h2⟩
    have hsub2 : ∀ r, r ∈ rs.filter (fun r => !decide (r.seen < e.pos)) → r ∈ rs ∧ e.pos ≤ r.seen := by
      intro r hr
      obtain ⟨h1, h2⟩ := List.mem_filter.mp hr
      exact ⟨h1, by simpa using h2⟩
    have ihh := ih (rs.filter (fun r => !decide (r.seen < e.pos))) hpi' hww'
      (fun e' he' r hr => hwr e' (List.mem_cons_of_mem _ he') r (hsub2 r hr).1)
      (fun e' he' r hr => hrw e' (List.mem_cons_of_mem _ he') r (hsub2 r hr).1)
      (fun r1 h1 r2 h2 => hrr r1 (hsub2 r1 h1).1 r2 (hsub2 r2 h2).1)
      (fun r hr => hwf r (hsub2 r hr).1)
    rw [List.pairwise_append]
    refine ⟨reads_block_rt _ (fun r hr => hwf r (hsub1 r hr).1), ?_, ?_⟩
    · -- the entry, then the rest
      rw [List.pairwise_cons]
      refine ⟨?_, ihh⟩
      intro y hy
      rcases mem_build hy with ⟨e2, he2, rfl⟩ | ⟨r2, hr2, rfl⟩
      · exact hwe e2 he2
      · -- a read that reflects `e` did not return before `e` was invoked
        obtain ⟨hr2', hge⟩ := hsub2 r2 hr2
        cases hb : before (some r2.resp) e.inv with
        | false => simpa [Op.prec, Op.resp?, Op.inv] using hb
        | true =>
          have := hrw e (List.mem_cons_self ..) r2 hr2' hb
          omega
    · -- the reads before `e` against everything from `e` on
      intro x hx y hy
      obtain ⟨r, hr, rfl⟩ := List.mem_map.mp hx
      obtain ⟨hr', hlt⟩ := hsub1 r ((sortInv_perm _).mem_iff.mp hr)
      have hy' : y = .w e ∨ y ∈ build l (rs.filter (fun r => !decide (r.seen < e.pos))) := List.mem_cons.mp hy
      have key : ∀ e' ∈ e :: l, (Op.w e' : Op W Q A B).prec (.r r) = false := by
        intro e' he'
        cases hb : before e'.resp r.inv with
        | false => simpa [Op.prec, Op.resp?, Op.inv] using hb
        | true =>
          have h1 := hwr e' he' r hr' hb
          have h2 : e.pos ≤ e'.pos := by
            rcases List.mem_cons.mp he' with rfl | h
            · exact Nat.le_refl _
            · exact Nat.le_of_lt (hpe e' h)
          omega
      rcases hy' with rfl | hy'
      · exact key e (List.mem_cons_self ..)
      · rcases mem_build hy' with ⟨e2, he2, rfl⟩ | ⟨r2, hr2, rfl⟩
        · exact key e2 (List.mem_cons_of_mem _ he2)
        · obtain ⟨hr2', hge⟩ := hsub2 r2 hr2
          cases hb : before (some r2.resp) r.inv with
          | false => simpa [Op.prec, Op.resp?, Op.inv] using hb
          | true =>
            have := hrr r2 hr2' r hr' hb
            omega

/-! ### from the decidable check to the hypotheses -/

theorem positions_inc : ∀ (k : Nat) (log : List (WEntry W A)), positionsFrom k log = true →
    (∀ e ∈ log, k < e.pos) ∧ log.Pairwise (fun e1 e2 => e1.pos < e2.pos) := by
  intro k log
  induction log generalizing k with
  | nil => intro _; exact ⟨by simp, List.Pairwise.nil⟩
  | cons e l ih =>
    intro h
    simp only [positionsFrom, Bool.and_eq_true, decide_eq_true_eq] at h
    obtain ⟨h1, h2⟩ := ih (k + 1) h.2
    refine ⟨?_, List.pairwise_cons.mpr ⟨?_, h2⟩⟩
    · intro e' he'
      rcases List.mem_cons.mp he' with rfl | he'
      · omega
      · have := h1 e' he'; omega
    · intro e' he'
      have := h1 e' he'; omega

theorem wwOK_pairwise : ∀ log : List (WEntry W A), wwOK log = true →
    log.Pairwise (fun e1 e2 => before e2.resp e1.inv = false) := by
  intro log
  induction log with
  | nil => intro _; exact List.Pairwise.nil
  | cons e l ih =>
    intro h
    simp only [wwOK, Bool.and_eq_true, List.all_eq_true, Bool.not_eq_true'] at h
    exact List.pairwise_cons.mpr ⟨h.1, ih h.2⟩

/-- **a history that passes the check and is legal position by position is linearizable** -/
theorem linearizable_of_check (sp : Seq S W Q A B) (s0 : S) (log : List (WEntry W A)) (rs : List (ROp Q B))
    (hc : checkHistory log rs = true) (hW : WLegal sp s0 log) (hR : RLegal sp s0 log rs) :
    Linearizable sp s0 log rs := by
  simp only [checkHistory, Bool.and_eq_true] at hc
  obtain ⟨⟨⟨⟨⟨hpos, hwf⟩, hww⟩, hwr⟩, hrw⟩, hrr⟩ := hc
  have hwf' : ∀ r ∈ rs, r.inv ≤ r.resp ∧ r.seen ≤ log.length := by
    intro r hr
    simp only [readsWF, List.all_eq_true, Bool.and_eq_true, decide_eq_true_eq] at hwf
    exact hwf r hr
  refine ⟨build log rs, build_perm log rs, ?_, ?_⟩
  · refine build_rt log rs (positions_inc 0 log hpos).2 (wwOK_pairwise log hww) ?_ ?_ ?_ (fun r hr => (hwf' r hr).1)
    · intro e he r hr hb
      simp only [wrOK, List.all_eq_true, Bool.or_eq_true, Bool.not_eq_true', decide_eq_true_eq] at hwr
      rcases hwr e he r hr with h | h
      · rw [hb] at h; cases h
      · exact h
    · intro e he r hr hb
      simp only [rwOK, List.all_eq_true, Bool.or_eq_true, Bool.not_eq_true', decide_eq_true_eq] at hrw
      rcases hrw e he r hr with h | h
      · rw [hb] at h; cases h
      · exact h
    · intro r1 h1 r2 h2 hb
      simp only [rrOK, List.all_eq_true, Bool.or_eq_true, Bool.not_eq_true', decide_eq_true_eq] at hrr
      rcases hrr r1 h1 r2 h2 with h | h
      · rw [hb] at h; cases h
      · exact h
  · refine build_legal sp log 0 s0 rs hpos hW ?_
    intro r hr
    exact ⟨Nat.zero_le _, by have := (hwf' r hr).2; omega, by simpa using hR r hr⟩

end Regatta.History
