import Regatta.Spec.Kv
import Regatta.Props.C12
/-
  Refinement of the table state machine model (`Regatta.Fsm`, over stored keys, with bookkeeping
  keys and the apply batch) to the plain sorted map (`Regatta.Spec`).  Helper lemmas; the property
  statements are in Props/C01, C02, C03, C10.
-/
namespace Regatta.Refine
open Regatta Regatta.Fsm Regatta.Key

/-- the record a restored leader snapshot leaves behind (observation O1): user type, empty key -/
def emptyUserKey : Bytes := encodeUser []

/-- well-formed store: strictly sorted; every key is the stored form of a non-empty user key, one
of the two bookkeeping keys, or the empty-user-key record -/
def WF (db : Db) : Prop :=
  SMap.Sorted db ∧ ∀ p ∈ db, (∃ u, u ≠ [] ∧ p.1 = encodeUser u) ∨ p.1 = sysLocalIndex ∨
    p.1 = sysLeaderIndex ∨ p.1 = emptyUserKey

/-- the user map stored in `db` -/
def absU (db : Db) : Spec.UMap := SMap.absMap decodeUserExact db

theorem wf_nil : WF [] := ⟨SMap.sorted_nil, by intro p hp; cases hp⟩

theorem hed : ∀ x a, decodeUserExact x = some a → x = encodeUser a :=
  fun x a h => (decodeUserExact_some x a h).1

theorem hmono : ∀ a b, bytesLt (encodeUser a) (encodeUser b) = bytesLt a b := Props.C12.c12_order

theorem encodeUser_inj (a b : Bytes) (h : encodeUser a = encodeUser b) : a = b := encode_injective _ a b h

theorem dec_sysLocal : decodeUserExact sysLocalIndex = none := by decide
theorem dec_sysLeader : decodeUserExact sysLeaderIndex = none := by decide
theorem dec_emptyUser : decodeUserExact emptyUserKey = none := by decide

theorem sorted_absU (db : Db) (h : WF db) : SMap.Sorted (absU db) :=
  SMap.sorted_absMap encodeUser decodeUserExact hed hmono db h.1

/-! ### reads -/

/-- exact-match read of a stored user key = read of the user key in the user map -/
theorem get_absU (db : Db) (k : Bytes) (hk : k ≠ []) :
    SMap.get? (encodeUser k) db = SMap.get? k (absU db) := by
  induction db with
  | nil => rfl
  | cons hd t ih =>
    obtain ⟨x, w⟩ := hd
    simp only [SMap.get?]
    cases hx : decodeUserExact x with
    | none =>
      have e1 : absU ((x, w) :: t) = absU t := by simp [absU, SMap.absMap, hx]
      have hne : encodeUser k ≠ x := by
        intro e; rw [← e, decodeUserExact_encodeUser k hk] at hx; cases hx
      rw [e1]; simp only [hne, if_false]; exact ih
    | some a =>
      have e := hed _ _ hx
      subst e
      have e1 : absU ((encodeUser a, w) :: t) = (a, w) :: absU t := by simp [absU, SMap.absMap, hx]
      rw [e1]
      simp only [SMap.get?]
      by_cases hka : k = a
      · subst hka; simp
      · have : encodeUser k ≠ encodeUser a := fun e => hka (encodeUser_inj _ _ e)
        simp only [this, hka, if_false]; exact ih

theorem singleLookup_refines (db : Db) (r : RangeReq) (hk : r.key ≠ []) :
    singleLookup db r = Spec.single (absU db) r := by
  unfold singleLookup Spec.single
  rw [get_absU db r.key hk]
  cases SMap.get? r.key (absU db) with
  | none => rfl
  | some v => cases r.countOnly <;> cases r.keysOnly <;> rfl

/-- membership of a stored user key in the stored range = membership of the user key in the user range -/
theorem inRange_enc (lo hi u : Bytes) :
    SMap.inRange (bounds lo hi).1 (bounds lo hi).2 (encodeUser u) = Spec.inRange lo hi u := by
  unfold Spec.inRange
  by_cases hw : hi = Extracted.wildcard
  · subst hw
    rw [Props.C12.c12_range_wildcard]; simp
  · rw [Props.C12.c12_range_same lo hi u hw]
    have : (hi == Extracted.wildcard) = false := by simpa using hw
    simp [SMap.inRange, this]

/-- the empty-user-key record lies below every range with a non-empty lower bound -/
theorem emptyUser_outside (lo hi : Bytes) (hlo : lo ≠ []) :
    SMap.inRange (bounds lo hi).1 (bounds lo hi).2 emptyUserKey = false := by
  have : bytesLt emptyUserKey (encodeUser lo) = true := by
    unfold emptyUserKey; rw [hmono]; exact bytesLt_nil_left lo hlo
  simp [SMap.inRange, bounds, bytesLe, this]

/-- the pairs the bounded iterator sees are exactly the stored forms of the pairs of the user
range: no bookkeeping key, no empty-user-key record -/
theorem range_raw (db : Db) (h : WF db) (lo hi : Bytes) (hlo : lo ≠ []) :
    SMap.range (bounds lo hi).1 (bounds lo hi).2 db =
      (Spec.rangePairs (absU db) lo hi).map (fun p => (encodeUser p.1, p.2)) := by
  have hkeys := h.2
  clear h
  induction db with
  | nil => rfl
  | cons hd t ih =>
    obtain ⟨x, w⟩ := hd
    have iht := ih (fun p hp => hkeys p (by simp [hp]))
    have hx := hkeys (x, w) (by simp)
    simp only [SMap.range, List.filter_cons] at iht ⊢
    rcases hx with ⟨u, hu, rfl⟩ | hx | hx | hx
    · have e1 : absU ((encodeUser u, w) :: t) = (u, w) :: absU t := by
        simp [absU, SMap.absMap, decodeUserExact_encodeUser u hu]
      rw [e1, inRange_enc]
      simp only [Spec.rangePairs, List.filter_cons]
      by_cases hin : Spec.inRange lo hi u = true
      · simp only [hin, if_true, List.map_cons]
        rw [iht]; rfl
      · simp only [hin, Bool.false_eq_true, if_false]
        exact iht
    · simp only at hx; subst hx
      have e1 : absU ((sysLocalIndex, w) :: t) = absU t := by simp [absU, SMap.absMap, dec_sysLocal]
      rw [e1, (Props.C12.c12_sys_outside_every_range lo hi).1]
      simpa using iht
    · simp only at hx; subst hx
      have e1 : absU ((sysLeaderIndex, w) :: t) = absU t := by simp [absU, SMap.absMap, dec_sysLeader]
      rw [e1, (Props.C12.c12_sys_outside_every_range lo hi).2]
      simpa using iht
    · simp only at hx; subst hx
      have e1 : absU ((emptyUserKey, w) :: t) = absU t := by simp [absU, SMap.absMap, dec_emptyUser]
      rw [e1, emptyUser_outside lo hi hlo]
      simpa using iht

/-- user keys in the user map are non-empty -/
theorem absU_keys_ne (db : Db) : ∀ p ∈ absU db, p.1 ≠ [] := by
  intro p hp
  simp only [absU, SMap.absMap, List.mem_filterMap, Option.map_eq_some_iff] at hp
  obtain ⟨q, _, a, ha, rfl⟩ := hp
  exact (decodeUserExact_some _ _ ha).2

theorem mapM_map_ok {α β : Type} (f : β → Except Fsm.Err α) (g : α → β) (l : List α)
    (h : ∀ x ∈ l, f (g x) = .ok x) : (l.map g).mapM f = .ok l := by
  induction l with
  | nil => rfl
  | cons x t ih =>
    rw [List.map_cons, List.mapM_cons, h x (by simp), ih (fun y hy => h y (by simp [hy]))]
    rfl

/-- decoded as the loop of `iterate` decodes them, they are the pairs of the user range — in
particular decoding never fails -/
theorem range_decode (db : Db) (h : WF db) (lo hi : Bytes) (hlo : lo ≠ []) :
    (SMap.range (bounds lo hi).1 (bounds lo hi).2 db).mapM
      (fun p => do let k ← decodeKeyPart p.1; pure (k, p.2)) = .ok (Spec.rangePairs (absU db) lo hi) := by
  rw [range_raw db h lo hi hlo]
  apply mapM_map_ok
  intro p hp
  have hne : p.1 ≠ [] := absU_keys_ne db p (List.mem_filter.mp hp).1
  have hd : decodeKeyPart (encodeUser p.1) = .ok p.1 := by
    unfold decodeKeyPart encodeUser; rw [decodeBytes_encode _ _ hne]
  simp only [hd]
  rfl

theorem iterate_refines (db : Db) (h : WF db) (r : RangeReq) (hk : r.key ≠ []) :
    iterate db r = .ok (Spec.iterate (absU db) r) := by
  unfold iterate Spec.iterate
  simp only
  rw [range_decode db h r.key (r.rangeEnd.getD []) hk]
  simp only [bind, Except.bind, pure, Except.pure]
  split <;> rfl

theorem rangeLookup_refines (db : Db) (h : WF db) (r : RangeReq) (hk : r.key ≠ []) :
    rangeLookup db r = .ok (Spec.rangeLookup (absU db) r) := by
  unfold rangeLookup Spec.rangeLookup
  rw [iterate_refines db h r hk]; rfl

theorem lookup_refines (db : Db) (h : WF db) (r : RangeReq) (hk : r.key ≠ []) :
    lookup db r = .ok (Spec.lookup (absU db) r) := by
  unfold lookup Spec.lookup
  split
  · exact rangeLookup_refines db h r hk
  · rw [singleLookup_refines db r hk]; rfl

/-! ### writes -/

theorem absU_set (db : Db) (h : WF db) (k : Bytes) (hk : k ≠ []) (v : Val) :
    absU (SMap.set (encodeUser k) v db) = SMap.set k v (absU db) :=
  SMap.absMap_set encodeUser decodeUserExact hed hmono k (decodeUserExact_encodeUser k hk) v db h.1

theorem absU_erase (db : Db) (k : Bytes) :
    absU (SMap.erase (encodeUser k) db) = SMap.erase k (absU db) := by
  unfold absU SMap.erase
  exact SMap.absMap_filter encodeUser decodeUserExact hed (fun x => x != encodeUser k) (fun a => a != k)
    (fun a => by
      by_cases e : a = k
      · subst e; simp
      · have : encodeUser a ≠ encodeUser k := fun h => e (encodeUser_inj _ _ h)
        have h1 : (encodeUser a != encodeUser k) = true := by simpa using this
        have h2 : (a != k) = true := by simpa using e
        rw [h1, h2]) db

theorem absU_eraseRange (db : Db) (lo hi : Bytes) :
    absU (SMap.eraseRange (encodeUser lo) (deleteEnd hi) db) = Spec.eraseRange (absU db) lo hi := by
  unfold absU SMap.eraseRange Spec.eraseRange
  exact SMap.absMap_filter encodeUser decodeUserExact hed
    (fun x => !SMap.inRange (encodeUser lo) (deleteEnd hi) x) (fun a => !Spec.inRange lo hi a)
    (fun a => by
      have := inRange_enc lo hi a
      simp only [bounds] at this
      simp only [deleteEnd, this]) db

/-! ### well-formedness is preserved -/

theorem wf_set_user (db : Db) (h : WF db) (k : Bytes) (hk : k ≠ []) (v : Val) :
    WF (SMap.set (encodeUser k) v db) := by
  refine ⟨SMap.sorted_set _ _ _ h.1, ?_⟩
  intro p hp
  rw [SMap.set_eq_filter _ _ _ h.1] at hp
  simp only [List.mem_append, List.mem_filter, List.mem_cons] at hp
  rcases hp with ⟨hp, _⟩ | rfl | ⟨hp, _⟩
  · exact h.2 p hp
  · exact Or.inl ⟨k, hk, rfl⟩
  · exact h.2 p hp

theorem wf_filter (db : Db) (h : WF db) (P : Bytes × Val → Bool) : WF (db.filter P) :=
  ⟨SMap.sorted_filter P db h.1, fun p hp => h.2 p (List.mem_filter.mp hp).1⟩

theorem wf_erase (db : Db) (h : WF db) (k : Bytes) : WF (SMap.erase k db) := wf_filter db h _
theorem wf_eraseRange (db : Db) (h : WF db) (lo hi : Bytes) : WF (SMap.eraseRange lo hi db) := wf_filter db h _

theorem wf_set_sys (db : Db) (h : WF db) (k : Bytes) (hk : k = sysLocalIndex ∨ k = sysLeaderIndex) (v : Val) :
    WF (SMap.set k v db) := by
  refine ⟨SMap.sorted_set _ _ _ h.1, ?_⟩
  intro p hp
  rw [SMap.set_eq_filter _ _ _ h.1] at hp
  simp only [List.mem_append, List.mem_filter, List.mem_cons] at hp
  rcases hp with ⟨hp, _⟩ | rfl | ⟨hp, _⟩
  · exact h.2 p hp
  · rcases hk with hk | hk
    · exact Or.inr (Or.inl hk)
    · exact Or.inr (Or.inr (Or.inl hk))
  · exact h.2 p hp

/-! ### bookkeeping keys are not touched by user writes -/

/-- the two bookkeeping records -/
def sysOf (db : Db) : Option Val × Option Val := (SMap.get? sysLocalIndex db, SMap.get? sysLeaderIndex db)

theorem sysOf_set_user (db : Db) (h : WF db) (k : Bytes) (v : Val) :
    sysOf (SMap.set (encodeUser k) v db) = sysOf db := by
  unfold sysOf
  rw [SMap.get?_set _ _ _ _ h.1, SMap.get?_set _ _ _ _ h.1]
  have h1 := (Props.C12.c12_sys_not_user k).1
  have h2 := (Props.C12.c12_sys_not_user k).2
  simp [Ne.symm h1, Ne.symm h2]

theorem sysOf_erase_user (db : Db) (k : Bytes) : sysOf (SMap.erase (encodeUser k) db) = sysOf db := by
  unfold sysOf
  rw [SMap.get?_erase, SMap.get?_erase]
  have h1 := (Props.C12.c12_sys_not_user k).1
  have h2 := (Props.C12.c12_sys_not_user k).2
  simp [Ne.symm h1, Ne.symm h2]

theorem sysOf_eraseRange_user (db : Db) (lo hi : Bytes) :
    sysOf (SMap.eraseRange (encodeUser lo) (deleteEnd hi) db) = sysOf db := by
  unfold sysOf
  rw [SMap.get?_eraseRange, SMap.get?_eraseRange]
  have := Props.C12.c12_sys_outside_every_range lo hi
  simp only [bounds] at this
  simp [deleteEnd, this.1, this.2]

/-! ### the command handlers, as explicit results -/

theorem handlePut_eq (b : Batch) (k : Bytes) (hk : k ≠ []) (v : Val) (pk : Bool) :
    handlePut b k v pk = .ok ({ view := SMap.set (encodeUser k) v b.view, indexed := b.indexed || pk },
      (Spec.put (absU b.view) k v pk).2) := by
  unfold handlePut Spec.put
  cases pk with
  | false => simp [pure, Except.pure]
  | true =>
    simp only [if_true, Batch.ensureIndexed, Batch.reader, bind, Except.bind, pure, Except.pure, Bool.or_true]
    rw [singleLookup_refines _ _ (by simpa using hk)]
    unfold Spec.single
    simp only
    cases SMap.get? k (absU b.view) with
    | none => rfl
    | some old => rfl

theorem handleDelete_eq (b : Batch) (h : WF b.view) (k : Bytes) (hk : k ≠ []) (e : Option Bytes) (pk cnt : Bool) :
    handleDelete b k e pk cnt = .ok ({ view := match e with
        | some hi => SMap.eraseRange (encodeUser k) (deleteEnd hi) b.view
        | none => SMap.erase (encodeUser k) b.view, indexed := b.indexed || (pk || cnt) },
      (Spec.delete (absU b.view) k e pk cnt).2) := by
  unfold handleDelete Spec.delete
  cases e with
  | some hi =>
    simp only
    by_cases hb : (pk || cnt) = true
    · simp only [hb, if_true, Batch.ensureIndexed, Batch.reader, bind, Except.bind, pure, Except.pure, Bool.or_true]
      rw [rangeLookup_refines _ h _ (by simpa using hk)]
    · have hb' : (pk || cnt) = false := by simpa using hb
      simp only [hb', Bool.false_eq_true, if_false, bind, Except.bind, pure, Except.pure, Bool.or_false]
  | none =>
    simp only
    by_cases hb : (pk || cnt) = true
    · simp only [hb, if_true, Batch.ensureIndexed, Batch.reader, bind, Except.bind, pure, Except.pure, Bool.or_true]
      rw [singleLookup_refines _ _ (by simpa using hk)]
    · have hb' : (pk || cnt) = false := by simpa using hb
      simp only [hb', Bool.false_eq_true, if_false, bind, Except.bind, pure, Except.pure, Bool.or_false]

/-! ### transactions -/

/-- the values a range predicate looks at are the values of the user range -/
theorem range_values (db : Db) (h : WF db) (lo hi : Bytes) (hlo : lo ≠ []) :
    (SMap.range (bounds lo hi).1 (bounds lo hi).2 db).map (·.2) = (Spec.rangePairs (absU db) lo hi).map (·.2) := by
  rw [range_raw db h lo hi hlo, List.map_map]
  rfl

theorem all_snd (l : List (Bytes × Val)) (P : Val → Bool) : l.all (fun p => P p.2) = (l.map (·.2)).all P := by
  induction l with
  | nil => rfl
  | cons p t ih => simp [List.all_cons, ih]

theorem isEmpty_snd (l : List (Bytes × Val)) : l.isEmpty = (l.map (·.2)).isEmpty := by
  cases l <;> rfl

def CompareWF (c : Compare) : Prop := c.key ≠ []

theorem txnCompare1_refines (db : Db) (h : WF db) (c : Compare) (hc : CompareWF c) :
    txnCompare1 db c = Spec.compare1 (absU db) c := by
  unfold txnCompare1 Spec.compare1
  cases hre : c.rangeEnd with
  | some hi =>
    simp only
    rw [all_snd, isEmpty_snd, range_values db h c.key hi hc, ← all_snd, ← isEmpty_snd]
  | none =>
    simp only
    rw [get_absU db c.key hc]
    rfl

theorem txnCompare_refines (db : Db) (h : WF db) (cs : List Compare) (hc : ∀ c ∈ cs, CompareWF c) :
    txnCompare db cs = Spec.compare (absU db) cs := by
  unfold txnCompare Spec.compare
  induction cs with
  | nil => rfl
  | cons c t ih =>
    simp only [List.all_cons]
    rw [txnCompare1_refines db h c (hc c (by simp)), ih (fun c hc' => hc c (by simp [hc']))]

def ReqOpWF : ReqOp → Prop
  | .range r => r.key ≠ []
  | .put k _ _ => k ≠ []
  | .del k _ _ _ => k ≠ []
  | .none => True

/-- what a simulation step establishes: the handler succeeds with the specification's output, the
new view is well-formed, abstracts to the specification's new map, leaves the bookkeeping records
alone and keeps an indexed batch indexed -/
structure StepOK (b b' : Batch) (m' : Spec.UMap) : Prop where
  wf : WF b'.view
  abs : absU b'.view = m'
  sys : sysOf b'.view = sysOf b.view
  idx : b.indexed = true → b'.indexed = true

theorem put_stepOK (b : Batch) (h : WF b.view) (k : Bytes) (hk : k ≠ []) (v : Val) (pk : Bool) :
    StepOK b { view := SMap.set (encodeUser k) v b.view, indexed := b.indexed || pk }
      (Spec.put (absU b.view) k v pk).1 :=
  ⟨wf_set_user _ h k hk v, absU_set _ h k hk v, sysOf_set_user _ h k v, fun hi => by simp [hi]⟩

theorem delete_stepOK (b : Batch) (h : WF b.view) (k : Bytes) (e : Option Bytes) (pk cnt : Bool) :
    StepOK b { view := match e with
        | some hi => SMap.eraseRange (encodeUser k) (deleteEnd hi) b.view
        | none => SMap.erase (encodeUser k) b.view, indexed := b.indexed || (pk || cnt) }
      (Spec.delete (absU b.view) k e pk cnt).1 := by
  cases e with
  | some hi =>
    exact ⟨wf_eraseRange _ h _ _, by simp only [Spec.delete]; exact absU_eraseRange _ _ _,
      sysOf_eraseRange_user _ _ _, fun hi => by simp [hi]⟩
  | none =>
    exact ⟨wf_erase _ h _, by simp only [Spec.delete]; exact absU_erase _ _,
      sysOf_erase_user _ _, fun hi => by simp [hi]⟩

theorem StepOK.trans {b b1 b2 : Batch} {m1 m2 : Spec.UMap} (h1 : StepOK b b1 m1) (h2 : StepOK b1 b2 m2) :
    StepOK b b2 m2 :=
  ⟨h2.wf, h2.abs, h2.sys.trans h1.sys, fun hi => h2.idx (h1.idx hi)⟩

theorem StepOK.refl (b : Batch) (h : WF b.view) : StepOK b b (absU b.view) := ⟨h, rfl, rfl, id⟩

theorem handleTxnOps_refines (ops : List ReqOp) (hops : ∀ o ∈ ops, ReqOpWF o) :
    ∀ (b : Batch), WF b.view → b.indexed = true →
    ∃ b', handleTxnOps b ops = .ok (b', (Spec.txnOps (absU b.view) ops).2) ∧
      StepOK b b' (Spec.txnOps (absU b.view) ops).1 := by
  induction ops with
  | nil => intro b h _; exact ⟨b, rfl, StepOK.refl b h⟩
  | cons op rest ih =>
    intro b h hidx
    have ihr := ih (fun o ho => hops o (by simp [ho]))
    have hop := hops op (by simp)
    cases op with
    | range r =>
      obtain ⟨b', e, ok⟩ := ihr b h hidx
      refine ⟨b', ?_, ?_⟩
      · simp only [handleTxnOps, Batch.reader, hidx, if_true, bind, Except.bind, pure, Except.pure]
        rw [lookup_refines _ h r hop]
        simp only [e, Spec.txnOps]
      · simpa [Spec.txnOps] using ok
    | put k v pk =>
      have s1 := put_stepOK b h k hop v pk
      obtain ⟨b', e, ok⟩ := ihr _ s1.wf (s1.idx hidx)
      refine ⟨b', ?_, ?_⟩
      · simp only [handleTxnOps, bind, Except.bind, pure, Except.pure]
        rw [handlePut_eq b k hop v pk]
        simp only [e, Spec.txnOps, s1.abs]
      · have := s1.trans ok
        simpa [Spec.txnOps, s1.abs] using this
    | del k e pk cnt =>
      have s1 := delete_stepOK b h k e pk cnt
      obtain ⟨b', e', ok⟩ := ihr _ s1.wf (s1.idx hidx)
      refine ⟨b', ?_, ?_⟩
      · simp only [handleTxnOps, bind, Except.bind, pure, Except.pure]
        rw [handleDelete_eq b h k hop e pk cnt]
        simp only [e', Spec.txnOps, s1.abs]
      · have := s1.trans ok
        simpa [Spec.txnOps, s1.abs] using this
    | none =>
      obtain ⟨b', e, ok⟩ := ihr b h hidx
      exact ⟨b', by simpa [handleTxnOps, Spec.txnOps] using e, by simpa [Spec.txnOps] using ok⟩

theorem handleTxn_refines (b : Batch) (h : WF b.view) (cmp : List Compare) (succ fail : List ReqOp)
    (hc : ∀ c ∈ cmp, CompareWF c) (hs : ∀ o ∈ succ, ReqOpWF o) (hf : ∀ o ∈ fail, ReqOpWF o) :
    ∃ b', handleTxn b cmp succ fail = .ok (b', (Spec.txn (absU b.view) cmp succ fail).2.1,
        (Spec.txn (absU b.view) cmp succ fail).2.2) ∧
      StepOK b b' (Spec.txn (absU b.view) cmp succ fail).1 := by
  unfold handleTxn Spec.txn
  simp only [Batch.ensureIndexed, Batch.reader, if_true, bind, Except.bind, pure, Except.pure]
  rw [txnCompare_refines b.view h cmp hc]
  have hops : ∀ o ∈ (if Spec.compare (absU b.view) cmp = true then succ else fail), ReqOpWF o := by
    split <;> assumption
  obtain ⟨b', e, ok⟩ := handleTxnOps_refines _ hops { view := b.view, indexed := true } h rfl
  refine ⟨b', ?_, ?_⟩
  · simp only at e
    rw [e]
  · exact ⟨ok.wf, ok.abs, ok.sys, fun _ => ok.idx rfl⟩

/-- writing an undecodable (bookkeeping) key does not change the user map -/
theorem absMap_set_none (dec : Bytes → Option Bytes) (k : Bytes) (hk : dec k = none) (v : Val) (s : Db) :
    SMap.absMap dec (SMap.set k v s) = SMap.absMap dec s := by
  induction s with
  | nil => simp [SMap.set, SMap.absMap, hk]
  | cons hd t ih =>
    obtain ⟨k', v'⟩ := hd
    simp only [SMap.set]
    split
    · simp [SMap.absMap, hk]
    · split
      · have : SMap.absMap dec ((k', v') :: SMap.set k v t) =
            ((dec k').map (fun a => (a, v'))).toList ++ SMap.absMap dec (SMap.set k v t) := by
          simp only [SMap.absMap, List.filterMap_cons]; cases dec k' <;> rfl
        rw [this, ih]
        simp only [SMap.absMap, List.filterMap_cons]; cases dec k' <;> rfl
      · rename_i h3 h4
        have : k = k' := by
          rcases bytesLt_tri k k' with h | h | h
          · simp [h] at h3
          · exact h
          · simp [h] at h4
        subst this
        simp [SMap.absMap, hk]

/-- a put of the empty key (no previous-pair read) writes the empty-user-key record: the user map,
the bookkeeping records and well-formedness are unaffected -/
theorem putEmpty_stepOK (b : Batch) (h : WF b.view) (v : Val) :
    StepOK b { view := SMap.set (encodeUser []) v b.view, indexed := b.indexed || false } (absU b.view) := by
  refine ⟨?_, ?_, sysOf_set_user _ h [] v, fun hi => by simp [hi]⟩
  · refine ⟨SMap.sorted_set _ _ _ h.1, ?_⟩
    intro p hp
    rw [SMap.set_eq_filter _ _ _ h.1] at hp
    simp only [List.mem_append, List.mem_filter, List.mem_cons] at hp
    rcases hp with ⟨hp, _⟩ | rfl | ⟨hp, _⟩
    · exact h.2 p hp
    · exact Or.inr (Or.inr (Or.inr rfl))
    · exact h.2 p hp
  · exact absMap_set_none decodeUserExact (encodeUser []) dec_emptyUser v b.view

theorem handlePut_noprev (b : Batch) (k : Bytes) (v : Val) :
    handlePut b k v false = .ok ({ view := SMap.set (encodeUser k) v b.view, indexed := b.indexed || false }, none) := by
  simp [handlePut, pure, Except.pure]

theorem foldPuts_refines (kvs : List (Bytes × Val)) :
    ∀ (b : Batch), WF b.view →
    ∃ b', foldPuts b kvs = .ok (b', kvs.map (fun _ => RespOp.put none)) ∧
      StepOK b b' ((kvs.filter (fun p => !p.1.isEmpty)).foldl (fun m p => SMap.set p.1 p.2 m) (absU b.view)) := by
  induction kvs with
  | nil => intro b h; exact ⟨b, rfl, StepOK.refl b h⟩
  | cons p rest ih =>
    obtain ⟨k, v⟩ := p
    intro b h
    by_cases hk0 : k = []
    · subst hk0
      have s1 := putEmpty_stepOK b h v
      obtain ⟨b', e, ok⟩ := ih _ s1.wf
      refine ⟨b', ?_, ?_⟩
      · simp only [foldPuts, bind, Except.bind, pure, Except.pure]
        rw [handlePut_noprev b [] v]
        simp only [e]
        rfl
      · have := s1.trans ok
        simpa [s1.abs] using this
    · have s1 := put_stepOK b h k hk0 v false
      obtain ⟨b', e, ok⟩ := ih _ s1.wf
      refine ⟨b', ?_, ?_⟩
      · simp only [foldPuts, bind, Except.bind, pure, Except.pure]
        rw [handlePut_eq b k hk0 v false]
        simp only [e, Spec.put]
        rfl
      · have := s1.trans ok
        have hne : (k.isEmpty) = false := by cases k <;> simp_all
        simpa [Spec.put, s1.abs, List.foldl_cons, hne] using this

theorem foldDels_refines (ks : List Bytes) (hk : ∀ k ∈ ks, k ≠ []) :
    ∀ (b : Batch), WF b.view →
    ∃ b', foldDels b ks = .ok (b', ks.map (fun _ => RespOp.del 0 [])) ∧
      StepOK b b' (ks.foldl (fun m k => SMap.erase k m) (absU b.view)) := by
  induction ks with
  | nil => intro b h; exact ⟨b, rfl, StepOK.refl b h⟩
  | cons k rest ih =>
    intro b h
    have hk0 : k ≠ [] := hk k (by simp)
    have s1 := delete_stepOK b h k none false false
    obtain ⟨b', e, ok⟩ := ih (fun p hp => hk p (by simp [hp])) _ s1.wf
    refine ⟨b', ?_, ?_⟩
    · simp only [foldDels, bind, Except.bind, pure, Except.pure]
      rw [handleDelete_eq b h k hk0 none false false]
      simp only [e, Spec.delete]
      rfl
    · have := s1.trans ok
      simpa [Spec.delete, s1.abs, List.foldl_cons] using this

mutual
/-- every key a command names is non-empty (what the API layer guarantees, property C16) -/
def CmdWF : Cmd → Prop
  | .put k _ _ => k ≠ []
  | .del k _ _ _ => k ≠ []
  | .putBatch _ => True
  | .delBatch ks => ∀ k ∈ ks, k ≠ []
  | .txn cmp s f => (∀ c ∈ cmp, CompareWF c) ∧ (∀ o ∈ s, ReqOpWF o) ∧ (∀ o ∈ f, ReqOpWF o)
  | .seq cmds => CmdsWF cmds
  | .dummy => True
def CmdsWF : List Cmd → Prop
  | [] => True
  | c :: rest => CmdWF c ∧ CmdsWF rest
end

mutual
/-- the command handlers refine the sorted-map specification -/
theorem handle_refines : ∀ (cmd : Cmd), CmdWF cmd → ∀ (b : Batch), WF b.view →
    ∃ b', handle b cmd = .ok (b', (Spec.step (absU b.view) cmd).2.1, (Spec.step (absU b.view) cmd).2.2) ∧
      StepOK b b' (Spec.step (absU b.view) cmd).1
  | .put k v pk, hw, b, h => by
    simp only [CmdWF] at hw
    refine ⟨_, ?_, by simpa [Spec.step] using put_stepOK b h k hw v pk⟩
    simp only [handle, bind, Except.bind, pure, Except.pure]
    rw [handlePut_eq b k hw v pk]
    simp [Spec.step]
  | .del k e pk cnt, hw, b, h => by
    simp only [CmdWF] at hw
    refine ⟨_, ?_, by simpa [Spec.step] using delete_stepOK b h k e pk cnt⟩
    simp only [handle, bind, Except.bind, pure, Except.pure]
    rw [handleDelete_eq b h k hw e pk cnt]
    simp [Spec.step]
  | .putBatch kvs, _, b, h => by
    obtain ⟨b', e, ok⟩ := foldPuts_refines kvs b h
    refine ⟨b', ?_, by simpa [Spec.step] using ok⟩
    simp only [handle, bind, Except.bind, pure, Except.pure, e]
    simp [Spec.step]
  | .delBatch ks, hw, b, h => by
    simp only [CmdWF] at hw
    obtain ⟨b', e, ok⟩ := foldDels_refines ks hw b h
    refine ⟨b', ?_, by simpa [Spec.step] using ok⟩
    simp only [handle, bind, Except.bind, pure, Except.pure, e]
    simp [Spec.step]
  | .txn cmp s f, hw, b, h => by
    simp only [CmdWF] at hw
    obtain ⟨b', e, ok⟩ := handleTxn_refines b h cmp s f hw.1 hw.2.1 hw.2.2
    refine ⟨b', ?_, by simpa [Spec.step] using ok⟩
    simp only [handle, bind, Except.bind, pure, Except.pure, e]
    simp [Spec.step]
  | .seq cmds, hw, b, h => by
    simp only [CmdWF] at hw
    obtain ⟨b', e, ok⟩ := handleSeq_refines cmds hw b h
    refine ⟨b', ?_, by simpa [Spec.step] using ok⟩
    simp only [handle, bind, Except.bind, pure, Except.pure, e]
    simp [Spec.step]
  | .dummy, _, b, h => ⟨b, by simp [handle, Spec.step, pure, Except.pure], by simpa [Spec.step] using StepOK.refl b h⟩
theorem handleSeq_refines : ∀ (cmds : List Cmd), CmdsWF cmds → ∀ (b : Batch), WF b.view →
    ∃ b', handleSeq b cmds = .ok (b', (Spec.stepSeq (absU b.view) cmds).2) ∧
      StepOK b b' (Spec.stepSeq (absU b.view) cmds).1
  | [], _, b, h => ⟨b, by simp [handleSeq, Spec.stepSeq, pure, Except.pure], by simpa [Spec.stepSeq] using StepOK.refl b h⟩
  | c :: rest, hw, b, h => by
    simp only [CmdsWF] at hw
    obtain ⟨b1, e1, ok1⟩ := handle_refines c hw.1 b h
    obtain ⟨b', e2, ok2⟩ := handleSeq_refines rest hw.2 b1 ok1.wf
    refine ⟨b', ?_, ?_⟩
    · simp only [handleSeq, bind, Except.bind, pure, Except.pure, e1, e2, ok1.abs]
      simp [Spec.stepSeq]
    · have := ok1.trans ok2
      simpa [Spec.stepSeq, ok1.abs] using this
end

/-! ### apply batches -/

theorem unLe64_le64 (n : Nat) (h : n < 18446744073709551616) : unLe64 (le64 n) = n := by
  simp only [unLe64, le64, ByteArray.get!, Array.getElem!_eq_getD, Array.getD]
  simp
  omega

/-- the table as the properties see it: user map, applied index, leader index -/
def absT (db : Db) : Spec.Table :=
  { kv := absU db, applied := readIndex db sysLocalIndex, leader := readIndex db sysLeaderIndex }

def EntryWF (e : Entry) : Prop :=
  CmdWF e.cmd ∧ e.index < 18446744073709551616 ∧ ∀ li, e.leaderIndex = some li → li < 18446744073709551616

/-- relation between the apply context and the specification's table while a batch is being
applied; `L0` is the leader index stored before the batch -/
structure Rel (c : Ctx) (t : Spec.Table) (L0 : Nat) : Prop where
  wf : WF c.batch.view
  kv : t.kv = absU c.batch.view
  leader : t.leader = c.leaderIndex.getD L0
  liBound : ∀ li, c.leaderIndex = some li → li < 18446744073709551616

theorem applyEntry_refines (c : Ctx) (t : Spec.Table) (L0 : Nat) (r : Rel c t L0) (e : Entry) (he : EntryWF e) :
    ∃ c', applyEntry c e = .ok (c', (Spec.applyEntry t e).2) ∧ Rel c' (Spec.applyEntry t e).1 L0 ∧
      sysOf c'.batch.view = sysOf c.batch.view ∧ c'.index = e.index ∧ (Spec.applyEntry t e).1.applied = e.index := by
  obtain ⟨b', eq, ok⟩ := handle_refines e.cmd he.1 c.batch r.wf
  refine ⟨{ c.parse e with batch := b' }, ?_, ?_, ok.sys, rfl, rfl⟩
  · simp only [applyEntry, Ctx.parse, bind, Except.bind, pure, Except.pure, eq, Spec.applyEntry, r.kv]
  · refine ⟨ok.wf, ?_, ?_, ?_⟩
    · simp only [Spec.applyEntry, r.kv]; exact ok.abs.symm
    · simp only [Spec.applyEntry, Ctx.parse, r.leader]
      cases e.leaderIndex <;> rfl
    · intro li hli
      simp only [Ctx.parse] at hli
      cases hle : e.leaderIndex with
      | none => simp only [hle] at hli; exact r.liBound li hli
      | some l => simp only [hle] at hli; exact he.2.2 li (by simpa [hle] using hli)

theorem applyEntries_refines (es : List Entry) (hes : ∀ e ∈ es, EntryWF e) :
    ∀ (c : Ctx) (t : Spec.Table) (L0 : Nat), Rel c t L0 →
    ∃ c', applyEntries c es = .ok (c', (Spec.applyLog t es).2) ∧ Rel c' (Spec.applyLog t es).1 L0 ∧
      sysOf c'.batch.view = sysOf c.batch.view ∧
      (es ≠ [] → c'.index = (Spec.applyLog t es).1.applied ∧ c'.index < 18446744073709551616) := by
  induction es with
  | nil => intro c t L0 r; exact ⟨c, rfl, r, rfl, fun h => absurd rfl h⟩
  | cons e rest ih =>
    intro c t L0 r
    obtain ⟨c1, e1, r1, s1, i1, a1⟩ := applyEntry_refines c t L0 r e (hes e (by simp))
    obtain ⟨c', e2, r2, s2, i2⟩ := ih (fun x hx => hes x (by simp [hx])) c1 _ L0 r1
    refine ⟨c', ?_, ?_, s2.trans s1, ?_⟩
    · simp only [applyEntries, bind, Except.bind, pure, Except.pure, e1, e2, Spec.applyLog]
    · simpa [Spec.applyLog] using r2
    · intro _
      cases rest with
      | nil =>
        simp only [applyEntries, pure, Except.pure] at e2
        injection e2 with e2; injection e2 with e2 _; subst e2
        simp only [Spec.applyLog]
        exact ⟨by rw [i1, a1], by rw [i1]; exact (hes e (by simp)).2.1⟩
      | cons x xs => simpa [Spec.applyLog] using i2 (by simp)

theorem sys_ne : sysLocalIndex ≠ sysLeaderIndex := by decide

/-- **refinement of `FSM.Update`**: for every well-formed store, every non-empty apply batch of
entries whose commands name only non-empty keys: the update succeeds (no error, in particular no
read of a batch that is not indexed), the new store is well-formed, and results, user map, applied
index and leader index are those of the sorted-map specification applying the entries one after
another -/
theorem update_refines (db : Db) (h : WF db) (es : List Entry) (hne : es ≠ []) (hes : ∀ e ∈ es, EntryWF e) :
    ∃ db' n, update db es = .ok (db', (Spec.applyLog (absT db) es).2, n) ∧ WF db' ∧
      absT db' = (Spec.applyLog (absT db) es).1 := by
  have r0 : Rel { batch := { view := db } } (absT db) (readIndex db sysLeaderIndex) :=
    ⟨h, rfl, rfl, fun li hli => by cases hli⟩
  obtain ⟨c', e, r, s, i⟩ := applyEntries_refines es hes _ _ _ r0
  obtain ⟨i1, i2⟩ := i hne
  refine ⟨commit c', c'.notified, ?_, ?_, ?_⟩
  · simp only [update, bind, Except.bind, pure, Except.pure, e]
  · unfold commit
    cases c'.leaderIndex with
    | none => exact wf_set_sys _ r.wf _ (Or.inl rfl) _
    | some li => exact wf_set_sys _ (wf_set_sys _ r.wf _ (Or.inr rfl) _) _ (Or.inl rfl) _
  · have hkv : absU (commit c') = (Spec.applyLog (absT db) es).1.kv := by
      unfold commit absU
      rw [absMap_set_none _ _ dec_sysLocal]
      cases c'.leaderIndex with
      | none => exact r.kv.symm
      | some li => simp only; rw [absMap_set_none _ _ dec_sysLeader]; exact r.kv.symm
    have hidx : readIndex (commit c') sysLocalIndex = (Spec.applyLog (absT db) es).1.applied := by
      unfold commit readIndex
      cases c'.leaderIndex with
      | none =>
        simp only
        rw [SMap.get?_set _ _ _ _ r.wf.1]
        simp only [if_true]
        rw [unLe64_le64 _ i2, i1]
      | some li =>
        simp only
        rw [SMap.get?_set _ _ _ _ (SMap.sorted_set _ _ _ r.wf.1)]
        simp only [if_true]
        rw [unLe64_le64 _ i2, i1]
    have hlead : readIndex (commit c') sysLeaderIndex = (Spec.applyLog (absT db) es).1.leader := by
      rw [r.leader]
      unfold commit readIndex
      cases hl : c'.leaderIndex with
      | none =>
        simp only [Option.getD]
        rw [SMap.get?_set _ _ _ _ r.wf.1]
        simp only [Ne.symm sys_ne, if_false]
        have := congrArg Prod.snd s
        simp only [sysOf] at this
        rw [this]
      | some li =>
        simp only [Option.getD]
        rw [SMap.get?_set _ _ _ _ (SMap.sorted_set _ _ _ r.wf.1)]
        simp only [Ne.symm sys_ne, if_false]
        rw [SMap.get?_set _ _ _ _ r.wf.1]
        simp only [if_true]
        exact unLe64_le64 _ (r.liBound li hl)
    show ({ kv := absU (commit c'), applied := readIndex (commit c') sysLocalIndex,
            leader := readIndex (commit c') sysLeaderIndex } : Spec.Table) = _
    rw [hkv, hidx, hlead]

/-- what `FSM.Update` tells the applied-index listener is what the committed store reports: the
leader index when an entry of the batch carried one, else the local index -/
theorem update_notified (db : Db) (h : WF db) (es : List Entry) (hne : es ≠ []) (hes : ∀ e ∈ es, EntryWF e) :
    ∃ db' rs n, update db es = .ok (db', rs, n) ∧
      (n = readIndex db' sysLeaderIndex ∨ (n = readIndex db' sysLocalIndex ∧ ∀ e ∈ es, e.leaderIndex = none)) := by
  have r0 : Rel { batch := { view := db } } (absT db) (readIndex db sysLeaderIndex) :=
    ⟨h, rfl, rfl, fun li hli => by cases hli⟩
  obtain ⟨c', e, r, s, i⟩ := applyEntries_refines es hes _ _ _ r0
  obtain ⟨i1, i2⟩ := i hne
  refine ⟨commit c', (Spec.applyLog (absT db) es).2, c'.notified, by simp only [update, bind, Except.bind, pure, Except.pure, e], ?_⟩
  cases hl : c'.leaderIndex with
  | some li =>
    left
    unfold Ctx.notified commit readIndex
    simp only [hl]
    rw [SMap.get?_set _ _ _ _ (SMap.sorted_set _ _ _ r.wf.1)]
    simp only [Ne.symm sys_ne, if_false]
    rw [SMap.get?_set _ _ _ _ r.wf.1]
    simp only [if_true]
    exact (unLe64_le64 _ (r.liBound li hl)).symm
  | none =>
    right
    constructor
    · unfold Ctx.notified commit readIndex
      simp only [hl]
      rw [SMap.get?_set _ _ _ _ r.wf.1]
      simp only [if_true]
      exact (unLe64_le64 _ i2).symm
    · -- no entry carried a leader index: otherwise the context would hold the last one
      have key : ∀ (l : List Entry) (c c2 : Ctx) (rs : List Result), applyEntries c l = .ok (c2, rs) →
          c2.leaderIndex = none → (c.leaderIndex = none ∧ ∀ e ∈ l, e.leaderIndex = none) := by
        intro l
        induction l with
        | nil =>
          intro c c2 rs he hn
          simp only [applyEntries, pure, Except.pure] at he
          injection he with he; injection he with he _; subst he
          exact ⟨hn, fun e he => by cases he⟩
        | cons x xs ih =>
          intro c c2 rs he hn
          simp only [applyEntries, bind, Except.bind] at he
          cases h1 : applyEntry c x with
          | error err => simp [h1] at he
          | ok p1 =>
            obtain ⟨c1, r1⟩ := p1
            simp only [h1] at he
            cases h2 : applyEntries c1 xs with
            | error err => simp [h2] at he
            | ok p2 =>
              obtain ⟨c3, rs2⟩ := p2
              simp only [h2, pure, Except.pure] at he
              injection he with he; injection he with he _; subst he
              obtain ⟨hc1, hxs⟩ := ih c1 c3 rs2 h2 hn
              -- c1.leaderIndex = (c.parse x).leaderIndex
              have hc1' : c1.leaderIndex = (c.parse x).leaderIndex := by
                simp only [applyEntry, bind, Except.bind] at h1
                cases h3 : handle (c.parse x).batch x.cmd with
                | error err => simp [h3] at h1
                | ok p3 =>
                  simp only [h3, pure, Except.pure] at h1
                  injection h1 with h1; injection h1 with h1 _; subst h1; rfl
              rw [hc1'] at hc1
              simp only [Ctx.parse] at hc1
              cases hx : x.leaderIndex with
              | some v => simp [hx] at hc1
              | none =>
                simp only [hx] at hc1
                refine ⟨by simpa using hc1, ?_⟩
                intro e he
                simp only [List.mem_cons] at he
                rcases he with rfl | he
                · exact hx
                · exact hxs e he
      exact (key es _ c' _ e hl).2

end Regatta.Refine
