import Regatta.Model.WireTree
import Regatta.Proofs.WireMsg
/-
  The wire format loses nothing of ANY message: for every schema and every field tree that conforms
  to it, decoding the encoding gives the tree back — every field in order, embedded messages to any
  depth.
-/
namespace Regatta.Wire
open Regatta

/-! ### the four wire types -/

def XField.enc : XField → Bytes
  | .varint f n => tag f 0 ++ encVarint n
  | .bytes f b => tag f 2 ++ encVarint b.length ++ b
  | .fixed64 f b => tag f 1 ++ b
  | .fixed32 f b => tag f 5 ++ b

/-- fixed-width payloads have their width -/
def XField.ok : XField → Prop
  | .fixed64 _ b => b.length = 8
  | .fixed32 _ b => b.length = 4
  | _ => True

def encXFields (fs : List XField) : Bytes := (fs.map XField.enc).flatten

theorem xfield_enc_ne_nil (f : XField) : f.enc ≠ [] := by
  cases f <;> simp [XField.enc, tag, encVarint_ne_nil]

theorem decXField_enc (f : XField) (hf : f.ok) (rest : Bytes) : decXField (f.enc ++ rest) = some (f, rest) := by
  cases f with
  | varint f n =>
    simp only [XField.enc]
    unfold decXField tag
    rw [List.append_assoc, dec_enc_varint]
    simp only [bind, Option.bind]
    have hm : (f * 8 + 0) % 8 = 0 := by omega
    have hd : (f * 8 + 0) / 8 = f := by omega
    simp only [hm, hd, if_true]
    rw [dec_enc_varint]
    rfl
  | bytes f b =>
    simp only [XField.enc]
    unfold decXField tag
    rw [List.append_assoc, List.append_assoc, dec_enc_varint]
    simp only [bind, Option.bind]
    have hm : (f * 8 + 2) % 8 = 2 := by omega
    have hd : (f * 8 + 2) / 8 = f := by omega
    simp only [hm, hd]
    rw [dec_enc_varint]
    simp
  | fixed64 f b =>
    simp only [XField.ok] at hf
    simp only [XField.enc]
    unfold decXField tag
    rw [List.append_assoc, dec_enc_varint]
    simp only [bind, Option.bind]
    have hm : (f * 8 + 1) % 8 = 1 := by omega
    have hd : (f * 8 + 1) / 8 = f := by omega
    simp only [hm, hd]
    simp [hf, List.take_left', List.drop_left']
  | fixed32 f b =>
    simp only [XField.ok] at hf
    simp only [XField.enc]
    unfold decXField tag
    rw [List.append_assoc, dec_enc_varint]
    simp only [bind, Option.bind]
    have hm : (f * 8 + 5) % 8 = 5 := by omega
    have hd : (f * 8 + 5) / 8 = f := by omega
    simp only [hm, hd]
    simp [hf, List.take_left', List.drop_left']

theorem decXFields_enc (fs : List XField) (hok : ∀ f ∈ fs, f.ok) :
    ∀ fuel, fs.length ≤ fuel → decXFields fuel (encXFields fs) = some fs := by
  induction fs with
  | nil => intro fuel _; cases fuel <;> simp [encXFields, decXFields]
  | cons f rest ih =>
    intro fuel hfu
    cases fuel with
    | zero => simp only [List.length_cons] at hfu; omega
    | succ fuel =>
      have henc : encXFields (f :: rest) = f.enc ++ encXFields rest := by simp [encXFields]
      rw [henc]
      have hne : (f.enc ++ encXFields rest).isEmpty = false := by
        have := xfield_enc_ne_nil f
        cases hfe : f.enc with
        | nil => exact absurd hfe this
        | cons a t => rfl
      simp only [decXFields, hne, Bool.false_eq_true, if_false]
      rw [decXField_enc f (hok f (by simp)) _]
      simp only [bind, Option.bind]
      rw [ih (fun x hx => hok x (by simp [hx])) fuel (by simp only [List.length_cons] at hfu; omega)]
      rfl

theorem encXFields_length (fs : List XField) : fs.length ≤ (encXFields fs).length := by
  induction fs with
  | nil => simp
  | cons f rest ih =>
    have henc : encXFields (f :: rest) = f.enc ++ encXFields rest := by simp [encXFields]
    have := xfield_enc_ne_nil f
    have hl : 1 ≤ f.enc.length := by
      cases hfe : f.enc with
      | nil => exact absurd hfe this
      | cons a t => simp
    rw [henc, List.length_append, List.length_cons]
    omega

/-- the (number, payload) triple a populated field is written as -/
def Tree.toField : Tree → XField
  | .varint f n => .varint f n
  | .bytes f b => .bytes f b
  | .fixed64 f b => .fixed64 f b
  | .fixed32 f b => .fixed32 f b
  | .sub f kids => .bytes f (Tree.encList kids)

theorem Tree.enc_eq (t : Tree) : t.enc = t.toField.enc := by
  cases t <;> simp [Tree.enc, Tree.toField, XField.enc]

theorem Tree.encList_eq (ts : List Tree) : Tree.encList ts = encXFields (ts.map Tree.toField) := by
  induction ts with
  | nil => simp [Tree.encList, encXFields]
  | cons t rest ih =>
    simp only [Tree.encList, List.map_cons, ih, Tree.enc_eq]
    simp [encXFields]

/-- if every element decodes, the whole field list does -/
theorem mapM_pointwise (s : Schema) (dec : Schema → Bytes → Option (List Tree)) (ts : List Tree)
    (h : ∀ t ∈ ts, Tree.ofField s dec t.toField = some t) :
    (ts.map Tree.toField).mapM (Tree.ofField s dec) = some ts := by
  induction ts with
  | nil => rfl
  | cons t rest ih =>
    rw [List.map_cons, List.mapM_cons, h t (by simp)]
    simp only [Option.bind_eq_bind, Option.bind_some]
    rw [ih (fun x hx => h x (by simp [hx]))]
    rfl

/-- a whole message, given that its fields decode one by one -/
theorem decode_of_pointwise (s : Schema) (fuel : Nat) (ts : List Tree) (hok : ∀ t ∈ ts, t.toField.ok)
    (h : ∀ t ∈ ts, Tree.ofField s (Tree.decode fuel) t.toField = some t) :
    Tree.decode (fuel + 1) s (Tree.encList ts) = some ts := by
  simp only [Tree.decode]
  have hok' : ∀ f ∈ ts.map Tree.toField, f.ok := by
    intro f hf
    obtain ⟨t, ht, rfl⟩ := List.mem_map.mp hf
    exact hok t ht
  rw [Tree.encList_eq, decXFields_enc _ hok' _ (encXFields_length _)]
  simp only [Option.bind_eq_bind, Option.bind_some]
  exact mapM_pointwise s _ ts h

/-- conforming trees have well-formed fields at the top level -/
theorem Tree.conforms_ok (s : Schema) (ts : List Tree) (hc : Tree.conformsList s ts = true) : ∀ t ∈ ts, t.toField.ok := by
  induction ts with
  | nil => intro t ht; cases ht
  | cons x rest ih =>
    simp only [Tree.conformsList, Bool.and_eq_true] at hc
    intro t ht
    rcases List.mem_cons.mp ht with ht | ht
    · subst ht
      cases t with
      | varint f n => trivial
      | bytes f b => trivial
      | sub f kids => trivial
      | fixed64 f b => simpa [Tree.conforms, Tree.toField, XField.ok] using hc.1
      | fixed32 f b => simpa [Tree.conforms, Tree.toField, XField.ok] using hc.1
    · exact ih hc.2 t ht

mutual
theorem Tree.decode_field : (t : Tree) → (s : Schema) → (fuel : Nat) → Tree.conforms s t = true → t.depth ≤ fuel →
    Tree.ofField s (Tree.decode fuel) t.toField = some t
  | .varint f n, _, _, _, _ => rfl
  | .fixed64 f b, _, _, _, _ => rfl
  | .fixed32 f b, _, _, _, _ => rfl
  | .bytes f b, s, _, hc, _ => by
    simp only [Tree.conforms, Option.isNone_iff_eq_none] at hc
    simp [Tree.toField, Tree.ofField, hc]
  | .sub f kids, s, fuel, hc, hd => by
    simp only [Tree.conforms] at hc
    cases hs : s.sub? f with
    | none => rw [hs] at hc; cases hc
    | some s' =>
      rw [hs] at hc
      simp only [Tree.depth] at hd
      cases fuel with
      | zero => omega
      | succ fuel' =>
        have hk := Tree.decode_fields kids s' fuel' hc (by omega)
        simp only [Tree.toField, Tree.ofField, hs]
        rw [decode_of_pointwise s' fuel' kids (Tree.conforms_ok s' kids hc) hk]
        rfl
theorem Tree.decode_fields : (ts : List Tree) → (s : Schema) → (fuel : Nat) → Tree.conformsList s ts = true →
    Tree.depthList ts ≤ fuel → ∀ t ∈ ts, Tree.ofField s (Tree.decode fuel) t.toField = some t
  | [], _, _, _, _ => by intro t ht; cases ht
  | x :: rest, s, fuel, hc, hd => by
    intro t ht
    simp only [Tree.conformsList, Bool.and_eq_true] at hc
    simp only [Tree.depthList] at hd
    rcases List.mem_cons.mp ht with ht | ht
    · rw [ht]; exact Tree.decode_field x s fuel hc.1 (by omega)
    · exact Tree.decode_fields rest s fuel hc.2 (by omega) t ht
end

/-- **every message of every schema survives encode / decode**: for every schema, every field tree
conforming to it and every nesting budget above the tree's depth -/
theorem Tree.decode_enc (s : Schema) (ts : List Tree) (fuel : Nat) (hc : Tree.conformsList s ts = true)
    (hd : Tree.depthList ts ≤ fuel) : Tree.decode (fuel + 1) s (Tree.encList ts) = some ts :=
  decode_of_pointwise s fuel ts (Tree.conforms_ok s ts hc) (Tree.decode_fields ts s fuel hc hd)

end Regatta.Wire
