import Regatta.Model.Meta
/-
  Laws of the versioned register map (`Meta.Store`, `Meta.applyUpd`).
-/
namespace Regatta.Meta

variable {ν : Type}

theorem get?_put_same (s : Store ν) (p : Pair ν) : (s.put p).get? p.key = some p := by
  simp [Store.get?, Store.put]

theorem get?_filter_ne (s : Store ν) (k k' : String) (h : k' ≠ k) :
    Store.get? (s.filter (·.key != k)) k' = s.get? k' := by
  unfold Store.get?
  induction s with
  | nil => rfl
  | cons q t ih =>
    simp only [List.filter_cons]
    by_cases hq : q.key = k
    · have h1 : (q.key != k) = false := by simp [hq]
      have h2 : (q.key == k') = false := by simp [hq]; exact fun e => h e.symm
      simp only [h1, Bool.false_eq_true, if_false, List.find?_cons, h2]
      exact ih
    · have h1 : (q.key != k) = true := by simpa using hq
      simp only [h1, if_true, List.find?_cons]
      split
      · rfl
      · exact ih

theorem get?_put_other (s : Store ν) (p : Pair ν) (k : String) (h : k ≠ p.key) :
    (s.put p).get? k = s.get? k := by
  unfold Store.put
  have h2 : (p.key == k) = false := by simp; exact fun e => h e.symm
  show Store.get? (p :: s.filter (·.key != p.key)) k = _
  rw [show Store.get? (p :: s.filter (·.key != p.key)) k = Store.get? (s.filter (·.key != p.key)) k from by
    simp [Store.get?, List.find?_cons, h2]]
  exact get?_filter_ne s p.key k h

theorem get?_erase_same (s : Store ν) (k : String) : (s.erase k).get? k = none := by
  unfold Store.get? Store.erase
  rw [List.find?_eq_none]
  intro q hq
  simp only [List.mem_filter] at hq
  simpa using hq.2

theorem get?_erase_other (s : Store ν) (k k' : String) (h : k' ≠ k) : (s.erase k).get? k' = s.get? k' :=
  get?_filter_ne s k k' h

theorem get?_key (s : Store ν) (k : String) (p : Pair ν) (h : s.get? k = some p) : p.key = k := by
  unfold Store.get? at h
  have := List.find?_some h
  simpa using this

theorem get?_mem (s : Store ν) (k : String) (p : Pair ν) (h : s.get? k = some p) : p ∈ s :=
  List.mem_of_find?_eq_some h

/-- **compare-and-set on an existing key**: the update takes effect iff the supplied version is the
stored one; otherwise the store is unchanged and the answer reports the current pair -/
theorem applyUpd_existing (s : Store ν) (i : Nat) (u : Upd ν) (cur : Pair ν) (h : s.get? u.key = some cur) :
    (cur.ver ≠ u.ver → applyUpd s i u = (s, .mismatch cur)) ∧
    (cur.ver = u.ver → u.op = .set → applyUpd s i u = (s.put ⟨u.key, u.value, i⟩, .ok ⟨u.key, u.value, i⟩)) ∧
    (cur.ver = u.ver → u.op = .delete → applyUpd s i u = (s.erase u.key, .ok ⟨u.key, u.value, i⟩)) := by
  refine ⟨fun hne => ?_, fun he hop => ?_, fun he hop => ?_⟩
  · simp [applyUpd, h, hne]
  · simp [applyUpd, applyOp, h, he, hop]
  · simp [applyUpd, applyOp, h, he, hop]

/-- an absent key is not version-checked at all -/
theorem applyUpd_absent (s : Store ν) (i : Nat) (u : Upd ν) (h : s.get? u.key = none) :
    (u.op = .set → applyUpd s i u = (s.put ⟨u.key, u.value, i⟩, .ok ⟨u.key, u.value, i⟩)) ∧
    (u.op = .delete → applyUpd s i u = (s.erase u.key, .ok ⟨u.key, u.value, i⟩)) := by
  constructor <;> intro hop <;> simp [applyUpd, applyOp, h, hop]

/-- the update either passed the version check (and then is `applyOp`) or left the store alone -/
theorem applyUpd_cases (s : Store ν) (i : Nat) (u : Upd ν) :
    (applyUpd s i u = applyOp s i u ∧ ∀ cur, s.get? u.key = some cur → cur.ver = u.ver) ∨
    (∃ cur, s.get? u.key = some cur ∧ cur.ver ≠ u.ver ∧ applyUpd s i u = (s, .mismatch cur)) := by
  unfold applyUpd
  cases hg : s.get? u.key with
  | none => exact Or.inl ⟨rfl, fun cur hc => by cases hc⟩
  | some cur =>
    by_cases hv : cur.ver = u.ver
    · left
      simp only [hv, ne_eq, not_true_eq_false, if_false, true_and]
      intro c hc; injection hc with hc; subst hc; exact hv
    · right
      exact ⟨cur, rfl, hv, by simp [hv]⟩

theorem applyOp_get? (s : Store ν) (i : Nat) (u : Upd ν) (k : String) :
    (applyOp s i u).1.get? k = s.get? k ∨
    (k = u.key ∧ (applyOp s i u).1.get? k = some ⟨u.key, u.value, i⟩ ∧ u.op = .set) ∨
    (k = u.key ∧ (applyOp s i u).1.get? k = none ∧ u.op = .delete) := by
  unfold applyOp
  cases hop : u.op with
  | set =>
    simp only
    by_cases hk : k = u.key
    · subst hk
      exact Or.inr (Or.inl ⟨rfl, get?_put_same s ⟨u.key, u.value, i⟩, trivial⟩)
    · exact Or.inl (get?_put_other s ⟨u.key, u.value, i⟩ k hk)
  | delete =>
    simp only
    by_cases hk : k = u.key
    · subst hk
      exact Or.inr (Or.inr ⟨rfl, get?_erase_same s u.key, trivial⟩)
    · exact Or.inl (get?_erase_other s u.key k hk)
  | other => exact Or.inl rfl

/-- what an update can do to the pair stored under a key `k`: nothing, or — having passed the
version check — replace it by the pair stamped with the entry's index, or remove it -/
theorem applyUpd_get? (s : Store ν) (i : Nat) (u : Upd ν) (k : String) :
    (applyUpd s i u).1.get? k = s.get? k ∨
    (k = u.key ∧ (applyUpd s i u).1.get? k = some ⟨u.key, u.value, i⟩ ∧ u.op = .set ∧
      (∀ cur, s.get? u.key = some cur → cur.ver = u.ver)) ∨
    (k = u.key ∧ (applyUpd s i u).1.get? k = none ∧ u.op = .delete ∧
      (∀ cur, s.get? u.key = some cur → cur.ver = u.ver)) := by
  rcases applyUpd_cases s i u with ⟨he, hv⟩ | ⟨cur, _, _, he⟩
  · rw [he]
    rcases applyOp_get? s i u k with h | ⟨h1, h2, h3⟩ | ⟨h1, h2, h3⟩
    · exact Or.inl h
    · exact Or.inr (Or.inl ⟨h1, h2, h3, hv⟩)
    · exact Or.inr (Or.inr ⟨h1, h2, h3, hv⟩)
  · rw [he]; exact Or.inl rfl

/-- every stored version is below the next index: versions are log indices of past entries -/
def VersBelow (s : Store ν) (i : Nat) : Prop := ∀ p ∈ s, p.ver < i

theorem versBelow_applyUpd (s : Store ν) (i j : Nat) (u : Upd ν) (h : VersBelow s i) (hij : i < j) :
    VersBelow (applyUpd s i u).1 j := by
  intro p hp
  rcases applyUpd_cases s i u with ⟨he, _⟩ | ⟨cur, _, _, he⟩
  · rw [he] at hp
    unfold applyOp at hp
    cases hop : u.op with
    | set =>
      simp only [hop, Store.put, List.mem_cons, List.mem_filter] at hp
      rcases hp with rfl | ⟨hp, _⟩
      · exact hij
      · exact Nat.lt_trans (h p hp) hij
    | delete =>
      simp only [hop, Store.erase, List.mem_filter] at hp
      exact Nat.lt_trans (h p hp.1) hij
    | other =>
      simp only [hop] at hp
      exact Nat.lt_trans (h p hp) hij
  · rw [he] at hp
    exact Nat.lt_trans (h p hp) hij

/-- batching independence: applying `a ++ b` = applying `a`, then `b` -/
theorem applyBatch_append (s : Store ν) (a b : List (Nat × Upd ν)) :
    applyBatch s (a ++ b) = ((applyBatch (applyBatch s a).1 b).1, (applyBatch s a).2 ++ (applyBatch (applyBatch s a).1 b).2) := by
  induction a generalizing s with
  | nil => simp [applyBatch]
  | cons e rest ih =>
    obtain ⟨i, u⟩ := e
    simp only [List.cons_append, applyBatch]
    rw [ih]

end Regatta.Meta
