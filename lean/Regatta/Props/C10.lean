import Regatta.Proofs.Refine
import Regatta.Proofs.SpecKv
/-
  C10 — Revisions follow commit order; linearizable reads see all acknowledged writes.
  (revision part; the read-path part is in Regatta/Props/C10Reads.lean)
-/
namespace Regatta.Props.C10
open Regatta Regatta.Fsm Regatta.Refine Regatta.Key

/-- commands that are acknowledged mutations of the API: put, delete range, transaction -/
def Cmd.isMutation : Cmd → Bool
  | .put .. => true
  | .del .. => true
  | .txn .. => true
  | _ => false

/-- the specification's result for a mutation always carries a payload whose revision is the
entry's own index — also for a transaction whose executed branch performs no operation (this is
what defect D4 broke: no payload, revision 0) -/
theorem c10_spec_revision (t : Spec.Table) (e : Entry) (hm : Cmd.isMutation e.cmd = true) :
    ∃ rs, (Spec.applyEntry t e).2.data = some (e.index, rs) := by
  unfold Spec.applyEntry
  cases hc : e.cmd with
  | put k v pk => simp [Spec.step, Cmd.isTxn]
  | del k en pk cnt => simp [Spec.step, Cmd.isTxn]
  | txn cmp s f => simp [Cmd.isTxn]
  | putBatch kvs => simp [hc, Cmd.isMutation] at hm
  | delBatch ks => simp [hc, Cmd.isMutation] at hm
  | seq cs => simp [hc, Cmd.isMutation] at hm
  | dummy => simp [hc, Cmd.isMutation] at hm

/-- **revision = position in the log**: in every apply batch on every well-formed store, the
result of every put / delete / transaction entry carries `revision = entry.index` -/
theorem c10_revision (db : Db) (h : WF db) (es : List Entry) (hne : es ≠ []) (hes : ∀ e ∈ es, EntryWF e) :
    ∃ db' rs n, update db es = .ok (db', rs, n) ∧ rs.length = es.length ∧
      ∀ i (hi : i < es.length) (hr : i < rs.length), Cmd.isMutation es[i].cmd = true →
        ∃ resp, rs[i].data = some (es[i].index, resp) := by
  obtain ⟨db', n, e, _, _⟩ := update_refines db h es hne hes
  refine ⟨db', _, n, e, Spec.applyLog_length _ _, ?_⟩
  -- pointwise: the i-th result is the result of applying the i-th entry to some table
  have key : ∀ (l : List Entry) (t : Spec.Table) i (hi : i < l.length) (hr : i < (Spec.applyLog t l).2.length),
      ∃ t', (Spec.applyLog t l).2[i] = (Spec.applyEntry t' l[i]).2 := by
    intro l
    induction l with
    | nil => intro t i hi; simp at hi
    | cons x xs ih =>
      intro t i hi hr
      cases i with
      | zero => exact ⟨t, by simp [Spec.applyLog]⟩
      | succ j =>
        simp only [Spec.applyLog, List.getElem_cons_succ]
        exact ih _ j (by simpa using hi) _
  intro i hi hr hm
  obtain ⟨t', ht'⟩ := key es (absT db) i hi hr
  rw [ht']
  exact c10_spec_revision t' es[i] hm

/-- with indices increasing along the log (Raft) revisions strictly increase in commit order, and
are non-zero because log indices start at 1 -/
theorem c10_revisions_increase (es : List Entry) (hinc : es.Pairwise (fun a b => a.index < b.index))
    (i j : Nat) (hi : i < es.length) (hj : j < es.length) (hij : i < j) : es[i].index < es[j].index :=
  List.pairwise_iff_getElem.mp hinc i j hi hj hij

/-- ordering the writes by revision explains every response: the responses are those of the sorted
map applying the entries in index order (C01's refinement, restated) -/
theorem c10_responses_explained (db : Db) (h : WF db) (es : List Entry) (hne : es ≠ []) (hes : ∀ e ∈ es, EntryWF e) :
    ∃ db' n, update db es = .ok (db', (Spec.applyLog (absT db) es).2, n) := by
  obtain ⟨db', n, e, _, _⟩ := update_refines db h es hne hes
  exact ⟨db', n, e⟩

/-- regression witness for D4: a transaction whose compare fails and whose failure list is empty
still reports its revision -/
example :
    (match update [] [⟨7, none, .txn [⟨.equal, [97], none, none⟩] [.put [98] ⟨#[2]⟩ false] []⟩] with
      | .ok (_, [r], _) => r.value == 0 && (r.data.map (·.1)) == some 7
      | _ => false) = true := by
  decide +kernel

end Regatta.Props.C10
