import Regatta.Proofs.Iter
import Regatta.Proofs.ChunkSize
import Regatta.Proofs.Key
/-
  C09 — Range reads are sorted, bounded, truthful about `more`, and page losslessly.

  `Fsm.iterate` is the transcription of `iterate` in storage/table/fsm/iter.go (bounds, decode, the
  loop with the limit test, the size cut with vtproto's exact SizeVT arithmetic, the three fill/size
  function pairs); it returns the list of chunks a fully consumed sequence yields.  The unary read
  (`rangeLookup`) is its first chunk.  The correspondence check runs it against the real code on
  generated tables, bounds, limits around the number of matches, all flag variants, and on values
  of 0.3–2 MiB so that size cuts occur.

  The statements below are for every list of pairs, every limit, every `FillKind`, every size
  threshold position; `pairs` is the content of the bounded Pebble iterator in key order.
-/
namespace Regatta.Props.C09
open Regatta Regatta.Fsm

/-- the pairs a fully consumed stream delivers: concatenating the chunks gives exactly the pairs
of the range, in iterator order, truncated to `limit` when a limit is given — nothing lost,
duplicated or reordered at chunk boundaries, wherever the size cuts fall -/
theorem c09_stream (k : FillKind) (limit : Int) (pairs : List (Bytes × Val)) (h : pairs ≠ []) :
    allKvs (iterLoop k limit pairs 0 {}) = (taken limit 0 pairs).flatMap (fun p => kvOf k p.1 p.2) := by
  have := iterLoop_kvs k limit pairs h 0 {} (by omega)
  simpa using this

/-- at most `limit` pairs are returned -/
theorem c09_bounded (k : FillKind) (limit : Int) (pairs : List (Bytes × Val)) (hl : 0 < limit) :
    (taken limit 0 pairs).length ≤ limit.toNat := by
  unfold taken
  have : ¬ limit ≤ 0 := by omega
  simp only [this, if_false, List.length_take]
  omega

/-- every message but the last is flagged `more` -/
theorem c09_more_all_but_last (k : FillKind) (limit : Int) (pairs : List (Bytes × Val)) :
    ∀ c ∈ (iterLoop k limit pairs 0 {}).dropLast, c.more = true :=
  iterLoop_more_init k limit pairs 0 {}

/-- the last message is flagged `more` exactly when pairs of the range remain beyond those returned
(this is the statement the unchanged tree violated for `limit = matches − 1`, defect D1) -/
theorem c09_more_last_iff_remaining (k : FillKind) (limit : Int) (pairs : List (Bytes × Val)) (h : pairs ≠ []) :
    ((iterLoop k limit pairs 0 {}).getLast (iterLoop_ne_nil k limit pairs 0 {})).more = true ↔
      (taken limit 0 pairs).length < pairs.length :=
  iterLoop_more_last k limit pairs h 0 {} rfl (by omega)

/-- full reads: `count` of every message is the number of pairs in it -/
theorem c09_count_full (limit : Int) (pairs : List (Bytes × Val)) :
    ∀ c ∈ iterLoop .full limit pairs 0 {}, c.count = c.kvs.length :=
  iterLoop_count_full limit pairs 0 {} rfl

/-- keys-only / count-only reads: the counts of the messages add up to the number of pairs
returned (counted, for count-only) -/
theorem c09_count_counter (k : FillKind) (hk : k ≠ .full) (limit : Int) (pairs : List (Bytes × Val)) (h : pairs ≠ []) :
    allCount (iterLoop k limit pairs 0 {}) = (taken limit 0 pairs).length := by
  have := iterLoop_count_counter k hk limit pairs h 0 {} (by omega)
  simpa using this

/-- keys-only agrees with the full read: same keys, in the same order -/
theorem c09_keys_only_agrees (limit : Int) (pairs : List (Bytes × Val)) (h : pairs ≠ []) :
    (allKvs (iterLoop .keysOnly limit pairs 0 {})).map (·.key) =
    (allKvs (iterLoop .full limit pairs 0 {})).map (·.key) := by
  rw [c09_stream _ _ _ h, c09_stream _ _ _ h]
  simp [kvOf, List.map_flatMap]

/-- count-only agrees with the full read: the counted number is the number of pairs the full read returns -/
theorem c09_count_only_agrees (limit : Int) (pairs : List (Bytes × Val)) (h : pairs ≠ []) :
    allCount (iterLoop .countOnly limit pairs 0 {}) = (allKvs (iterLoop .full limit pairs 0 {})).length := by
  rw [c09_count_counter _ (by decide) _ _ h, c09_stream _ _ _ h]
  generalize taken limit 0 pairs = l
  induction l with
  | nil => rfl
  | cons p l ih => simp [kvOf, List.flatMap_cons] at ih ⊢; omega

/-- an empty range is answered by one empty message without `more` -/
theorem c09_empty_range (db : Db) (r : RangeReq)
    (h : SMap.range (Key.bounds r.key (r.rangeEnd.getD [])).1 (Key.bounds r.key (r.rangeEnd.getD [])).2 db = []) :
    iterate db r = .ok [{}] := by
  unfold iterate
  simp only [h]
  rfl

/-- the unary read is the first message of the stream -/
theorem c09_unary_is_first_chunk (db : Db) (r : RangeReq) (chunks : List RangeResp)
    (h : iterate db r = .ok chunks) : rangeLookup db r = .ok (chunks.headD {}) := by
  unfold rangeLookup
  rw [h]; rfl

/-- the pairs of the bounded iterator are strictly ascending in stored-key order (one Pebble
iterator = one point-in-time view of a sorted store); with C12's order preservation the returned
user keys are strictly ascending and duplicate-free -/
theorem c09_sorted (db : Db) (lo hi : Bytes) (h : SMap.Sorted db) : SMap.Sorted (SMap.range lo hi db) :=
  SMap.sorted_range lo hi db h

/-- **every message fits**: whatever the fill kind and limit, every chunk of the stream (hence also
the unary answer, which is the first chunk) is smaller than the gRPC message limit by at least 512
bytes — the room the response header needs — provided every pair respects the key and value limits
that every record-creating path enforces (C16).  The size cut compares the encoded size so far plus
the raw size of the next pair with `maxRangeSize` = limit − 1 KiB; the per-pair encoding overhead
(≤ 13 bytes) and the `more` / `count` fields (≤ 13 bytes) are absorbed by that 1 KiB -/
theorem c09_chunk_size (k : FillKind) (limit : Int) (pairs : List (Bytes × Val))
    (hp : ∀ p ∈ pairs, p.1.length ≤ Extracted.latestVersionLen ∧ p.2.size ≤ Extracted.maxValueLen) :
    ∀ c ∈ iterLoop k limit pairs 0 {}, c.sizeVT + 512 < Extracted.defaultMaxGRPCSize :=
  -- the limits are the source's current constants (regenerated on every run)
  ChunkSize.iterLoop_sizes k limit pairs 0 {} ⟨rfl, by decide⟩ hp

/-- non-vacuity / regression witness for D1: five pairs, `limit = 4` — the answer carries four
pairs and `more`; with `limit = 5` it carries five and no `more` -/
example :
    let ps : List (Bytes × Val) := [([1], .empty), ([2], .empty), ([3], .empty), ([4], .empty), ([5], .empty)]
    (iterLoop .full 4 ps 0 {}).map (fun c => (c.kvs.length, c.more)) = [(4, true)] ∧
    (iterLoop .full 5 ps 0 {}).map (fun c => (c.kvs.length, c.more)) = [(5, false)] ∧
    (iterLoop .full 0 ps 0 {}).map (fun c => (c.kvs.length, c.more)) = [(5, false)] := by
  decide

end Regatta.Props.C09
