import Regatta.Model.Api
/-
  C16 — Invalid requests are rejected without effect; no request can crash a server.

  Model: `Regatta.Api` — the acceptance decision of every KV and Tables method as the code takes it
  (gRPC layer checks, table lookup, table layer checks incl. the operations nested in a transaction,
  table-name validation, follower variants).  The decision functions are total: there is no input on
  which they have no answer.  Tied to the code by mode `api`: a real leader process and a real
  follower process (cmd/ wiring), generated requests over every field combination incl. over-long
  and empty byte fields, nested operations, empty oneofs, hostile table names and undecodable
  bytes; per request the status code must be the model's, every refused request must leave all
  tables unchanged, and both processes must stay alive.
-/
namespace Regatta.Props.C16
open Regatta Regatta.Api

/-- what the documentation forbids in a Range / IterateRange request -/
def RangeReq.malformed (r : RangeReq) : Prop :=
  r.limit < 0 ∨ (r.keysOnly = true ∧ r.countOnly = true) ∨ r.table = [] ∨ r.klen = 0
def RangeReq.unsupported (r : RangeReq) : Prop :=
  r.minMod > 0 ∨ r.maxMod > 0 ∨ r.minCreate > 0 ∨ r.maxCreate > 0

theorem shape_cases (r : RangeReq) :
    (rangeShape r = some .invalidArgument ∧ RangeReq.malformed r) ∨
    (rangeShape r = some .unimplemented ∧ RangeReq.unsupported r ∧ ¬ r.limit < 0 ∧ ¬ (r.keysOnly = true ∧ r.countOnly = true)) ∨
    (rangeShape r = none ∧ ¬ RangeReq.malformed r ∧ ¬ RangeReq.unsupported r) := by
  unfold rangeShape RangeReq.malformed RangeReq.unsupported
  by_cases h1 : r.limit < 0
  · simp [h1]
  by_cases h2 : (r.keysOnly && r.countOnly) = true
  · simp only [if_neg h1, if_pos h2]; simp at h2; simp [h2]
  by_cases h3 : r.minMod > 0
  · simp only [if_neg h1, if_neg h2, if_pos h3]; simp at h2; simp [h1, h3]; exact h2
  by_cases h4 : r.maxMod > 0
  · simp only [if_neg h1, if_neg h2, if_neg h3, if_pos h4]; simp at h2; simp [h1, h4]; exact h2
  by_cases h5 : r.minCreate > 0
  · simp only [if_neg h1, if_neg h2, if_neg h3, if_neg h4, if_pos h5]; simp at h2; simp [h1, h5]; exact h2
  by_cases h6 : r.maxCreate > 0
  · simp only [if_neg h1, if_neg h2, if_neg h3, if_neg h4, if_neg h5, if_pos h6]; simp at h2; simp [h1, h6]; exact h2
  by_cases h7 : r.table.isEmpty = true
  · simp only [if_neg h1, if_neg h2, if_neg h3, if_neg h4, if_neg h5, if_neg h6, if_pos h7]; simp at h7; simp [h7]
  by_cases h8 : r.klen = 0
  · simp only [if_neg h1, if_neg h2, if_neg h3, if_neg h4, if_neg h5, if_neg h6, if_neg h7, if_pos h8]; simp [h8]
  · simp only [if_neg h1, if_neg h2, if_neg h3, if_neg h4, if_neg h5, if_neg h6, if_neg h7, if_neg h8]
    simp at h2 h7
    simp [h1, h3, h4, h5, h6, h7, h8]
    exact h2

/-- every malformed or unsupported read is refused, with InvalidArgument or Unimplemented (one of
the classes it falls into); a read that is only malformed gets InvalidArgument, one that is only
unsupported gets Unimplemented — for every table set, i.e. before any table is looked at -/
theorem c16_range_refused (tables : List Bytes) (r : RangeReq) :
    (RangeReq.malformed r ∨ RangeReq.unsupported r →
      kvRange tables r = .invalidArgument ∨ kvRange tables r = .unimplemented) ∧
    (RangeReq.malformed r → ¬ RangeReq.unsupported r → kvRange tables r = .invalidArgument) ∧
    (RangeReq.unsupported r → ¬ RangeReq.malformed r → kvRange tables r = .unimplemented) := by
  unfold kvRange
  rcases shape_cases r with ⟨h, hm⟩ | ⟨h, hu, _⟩ | ⟨h, hm, hu⟩
  · rw [h]; exact ⟨fun _ => Or.inl rfl, fun _ _ => rfl, fun _ hn => absurd hm hn⟩
  · rw [h]; exact ⟨fun _ => Or.inr rfl, fun _ hn => absurd hu hn, fun _ _ => rfl⟩
  · exact ⟨fun hh => (hh.elim (fun x => absurd x hm) (fun x => absurd x hu)), fun x => absurd x hm, fun x => absurd x hu⟩

/-- a well-formed, supported read of an unknown table: NotFound; of a known table with an over-long
key or range end: refused (FailedPrecondition); IterateRange decides exactly as Range (D13) -/
theorem c16_range_table_and_limits (tables : List Bytes) (r : RangeReq) (h : rangeShape r = none) :
    (r.table ∉ tables → kvRange tables r = .notFound) ∧
    (r.table ∈ tables → (r.klen > maxKey ∨ r.relen > maxKey) → kvRange tables r = .failedPrecondition) ∧
    (r.table ∈ tables → r.klen ≤ maxKey → r.relen ≤ maxKey → kvRange tables r = .ok) ∧
    kvIterate tables r = kvRange tables r := by
  unfold kvRange rangeLimits
  rw [h]
  refine ⟨?_, ?_, ?_, by simp [kvIterate, kvRange, rangeLimits, h]⟩
  · intro ht; simp [ht]
  · intro ht hk
    by_cases h1 : r.klen > maxKey
    · simp [ht, h1]
    · have h2 : r.relen > maxKey := hk.resolve_left h1
      simp [ht, h1, h2]
  · intro ht h1 h2
    have h1' : ¬ r.klen > maxKey := by omega
    have h2' : ¬ r.relen > maxKey := by omega
    simp [ht, h1', h2']

/-- Put / DeleteRange: missing table or key → InvalidArgument; unknown table → NotFound; over-long
key or over-large value → refused; otherwise accepted -/
theorem c16_put (tables : List Bytes) (r : PutReq) :
    ((r.table = [] ∨ r.klen = 0) → kvPut tables r = .invalidArgument) ∧
    (r.table ≠ [] → r.klen ≠ 0 → r.table ∉ tables → kvPut tables r = .notFound) ∧
    ((r.klen > maxKey ∨ r.vlen > maxVal) → kvPut tables r ≠ .ok) ∧
    (kvPut tables r = .ok → r.table ≠ [] ∧ 0 < r.klen ∧ r.klen ≤ maxKey ∧ r.vlen ≤ maxVal ∧ r.table ∈ tables) := by
  unfold kvPut
  by_cases h1 : r.table.isEmpty = true <;> by_cases h2 : r.klen = 0 <;> by_cases h3 : r.table ∈ tables <;>
    by_cases h4 : r.klen > maxKey <;> by_cases h5 : r.vlen > maxVal <;> simp_all <;> omega

theorem c16_delete (tables : List Bytes) (r : DelReq) :
    ((r.table = [] ∨ r.klen = 0) → kvDelete tables r = .invalidArgument) ∧
    (r.table ≠ [] → r.klen ≠ 0 → r.table ∉ tables → kvDelete tables r = .notFound) ∧
    (r.klen > maxKey → kvDelete tables r ≠ .ok) ∧
    (kvDelete tables r = .ok → r.table ≠ [] ∧ 0 < r.klen ∧ r.klen ≤ maxKey ∧ r.table ∈ tables) := by
  unfold kvDelete
  by_cases h1 : r.table.isEmpty = true <;> by_cases h2 : r.klen = 0 <;> by_cases h3 : r.table ∈ tables <;>
    by_cases h4 : r.klen > maxKey <;> simp_all <;> omega

/-- **the same limits hold on every path that can create a record** (regression D9): a transaction
is accepted only if EVERY operation of BOTH branches — taken or not — and every comparison is within
the limits: keys non-empty and not over-long, values not over-large, no operation with an empty
oneof; so no accepted request of any kind writes a record that a plain Put would refuse -/
theorem c16_txn_limits_on_every_path (tables : List Bytes) (r : TxnReq) (h : kvTxn tables r = .ok) :
    r.table ≠ [] ∧ tables.contains r.table = true ∧
    (∀ c ∈ r.compare, 0 < c.klen ∧ c.klen ≤ maxKey ∧ c.relen ≤ maxKey) ∧
    (∀ o ∈ r.success ++ r.failure, o ≠ .none ∧
      (∀ k v, o = .put k v → 0 < k ∧ k ≤ maxKey ∧ v ≤ maxVal) ∧
      (∀ k e, o = .del k e → 0 < k ∧ k ≤ maxKey) ∧
      (∀ k e, o = .range k e → 0 < k ∧ k ≤ maxKey ∧ e ≤ maxKey)) := by
  unfold kvTxn at h
  by_cases h1 : r.table.isEmpty = true
  · rw [if_pos h1] at h; cases h
  rw [if_neg h1] at h
  by_cases h2 : (!tables.contains r.table) = true
  · rw [if_pos h2] at h; cases h
  rw [if_neg h2] at h
  by_cases h3 : (!r.compare.all cmpOK) = true
  · rw [if_pos h3] at h; cases h
  rw [if_neg h3] at h
  by_cases h4 : (!r.success.all opOK) = true
  · rw [if_pos h4] at h; cases h
  rw [if_neg h4] at h
  by_cases h5 : (!r.failure.all opOK) = true
  · rw [if_pos h5] at h; cases h
  have h2' : tables.contains r.table = true := by simpa using h2
  have h3' : r.compare.all cmpOK = true := by simpa using h3
  have h4' : r.success.all opOK = true := by simpa using h4
  have h5' : r.failure.all opOK = true := by simpa using h5
  refine ⟨by simpa using h1, h2', ?_, ?_⟩
  · intro c hc
    have := List.all_eq_true.mp h3' c hc
    simp [cmpOK] at this
    omega
  · intro o ho
    have hok : opOK o = true := by
      rcases List.mem_append.mp ho with ho | ho
      · exact List.all_eq_true.mp h4' o ho
      · exact List.all_eq_true.mp h5' o ho
    cases o with
    | none => simp [opOK] at hok
    | put k v => simp [opOK] at hok; refine ⟨by simp, ?_, by simp, by simp⟩; intro k' v' e; cases e; omega
    | del k e => simp [opOK] at hok; refine ⟨by simp, by simp, ?_, by simp⟩; intro k' e' he; cases he; omega
    | range k e => simp [opOK] at hok; refine ⟨by simp, by simp, by simp, ?_⟩; intro k' e' he; cases he; omega

/-- a transaction without table → InvalidArgument, on an unknown table → NotFound, with any
offending nested operation or comparison → refused -/
theorem c16_txn_refused (tables : List Bytes) (r : TxnReq) :
    (r.table = [] → kvTxn tables r = .invalidArgument) ∧
    (r.table ≠ [] → r.table ∉ tables → kvTxn tables r = .notFound) ∧
    ((∃ o ∈ r.success ++ r.failure, opOK o = false) → kvTxn tables r ≠ .ok) ∧
    ((∃ c ∈ r.compare, cmpOK c = false) → kvTxn tables r ≠ .ok) := by
  refine ⟨?_, ?_, ?_, ?_⟩
  · intro h; simp [kvTxn, h]
  · intro h1 h2; simp [kvTxn, h1, h2]
  · intro ⟨o, ho, hbad⟩ hok
    have := (c16_txn_limits_on_every_path tables r hok).2.2.2 o ho
    cases o with
    | none => exact this.1 rfl
    | put k v => have := this.2.1 k v rfl; simp [opOK] at hbad; omega
    | del k e => have := this.2.2.1 k e rfl; simp [opOK] at hbad; omega
    | range k e => have := this.2.2.2 k e rfl; simp [opOK] at hbad; omega
  · intro ⟨c, hc, hbad⟩ hok
    have := (c16_txn_limits_on_every_path tables r hok).2.2.1 c hc
    simp [cmpOK] at hbad; omega

/-- table mutations: a refused Create / Delete leaves the table set as it was; names that are empty,
over-long, not UTF-8, or contain `/` or NUL are refused with InvalidArgument (D10, D12); on a follower
every table mutation is Unimplemented -/
theorem c16_tables (tables : List Bytes) (n : Bytes) :
    ((tablesCreate tables n).1 ≠ .ok → (tablesCreate tables n).2 = tables) ∧
    ((tablesDelete tables n).1 ≠ .ok → (tablesDelete tables n).2 = tables) ∧
    (validName n = false → (tablesCreate tables n).1 = .invalidArgument ∧ (tablesDelete tables n).1 = .invalidArgument) ∧
    followerTablesMutation = .unimplemented := by
  unfold tablesCreate tablesDelete
  refine ⟨?_, ?_, ?_, rfl⟩
  · by_cases h1 : n.isEmpty = true <;> by_cases h2 : validName n = true <;> by_cases h3 : tables.contains n = true <;> simp_all
  · by_cases h1 : n.isEmpty = true <;> by_cases h2 : validName n = true <;> by_cases h3 : tables.contains n = true <;> simp_all
  · intro h
    by_cases h1 : n.isEmpty = true <;> simp_all

/-- hostile names are invalid: a `/` anywhere (the catalogue's own key space), NUL, over-long -/
theorem c16_hostile_names (n : Bytes) (h : (0x2F : UInt8) ∈ n ∨ (0 : UInt8) ∈ n ∨ n.length > maxTableNameLen ∨ n = []) :
    validName n = false := by
  unfold validName
  rcases h with h | h | h | h
  · simp [h]
  · simp [h]
  · have : ¬ n.length ≤ maxTableNameLen := by omega
    simp [this]
  · simp [h]

/-- on a follower a write is decided by the leader, a read-only transaction locally -/
theorem c16_follower_txn (lt ft : List Bytes) (r : TxnReq) :
    followerTxn lt ft r = if r.readonly then kvTxn ft r else kvTxn lt r := rfl

/-- non-vacuity and regression witnesses: a transaction whose untaken branch holds a put with an
empty key, a 2000-byte key or a 3 MiB value is refused (D9); an accepted one exists -/
example :
    kvTxn [[116]] ⟨[116], [], [.put 3 10], [.put 0 1]⟩ = .failedPrecondition ∧
    kvTxn [[116]] ⟨[116], [], [.put 2000 10], []⟩ = .failedPrecondition ∧
    kvTxn [[116]] ⟨[116], [], [], [.put 1 3145728]⟩ = .failedPrecondition ∧
    kvTxn [[116]] ⟨[116], [], [.none], []⟩ = .failedPrecondition ∧
    kvTxn [[116]] ⟨[116], [⟨1, 0⟩], [.put 3 10, .range 1 0], [.del 1 4]⟩ = .ok := by
  decide

end Regatta.Props.C16
