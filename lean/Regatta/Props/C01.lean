import Regatta.Proofs.Refine
import Regatta.Proofs.SpecKv
import Regatta.Proofs.Iter
/-
  C01 — A table behaves as an ordered byte-string map for every command history.

  `Fsm.update` / `Fsm.lookup` / `Fsm.iteratorLookup` are the transcription of FSM.Update /
  FSM.Lookup over a Pebble store modelled as a sorted association list of *stored* keys
  (header + type byte + user key, plus the two bookkeeping records), with the apply batch and its
  lazy switch to an indexed batch.  `Spec.applyLog` / `Spec.lookup` is the plain sorted map from
  non-empty user keys to values that applies the commands one after another.  `absT` reads the
  specification's table out of a store.

  Hypotheses, all decidable and all met by what the API layer lets through (C16): every key a
  command or read names is non-empty (`EntryWF`, `r.key ≠ []`), indices fit in 64 bits, an apply
  batch is non-empty (dragonboat never delivers an empty one).
-/
namespace Regatta.Props.C01
open Regatta Regatta.Fsm Regatta.Refine Regatta.Key

/-- the empty store is well-formed … -/
theorem c01_wf_init : WF [] := wf_nil

/-- **responses and state**: for every well-formed store and every apply batch, the update
succeeds — no error, in particular never a read on a batch that is not indexed — the new store is
well-formed, and per-entry results (result value, revision, previous pair, deleted count, previous
pairs, in-transaction reads) as well as the resulting user map, applied index and leader index are
exactly those of the sorted map applying the entries one after another: every command sees the
effects of the earlier commands of the same apply batch -/
theorem c01_update_refines (db : Db) (h : WF db) (es : List Entry) (hne : es ≠ []) (hes : ∀ e ∈ es, EntryWF e) :
    ∃ db' n, update db es = .ok (db', (Spec.applyLog (absT db) es).2, n) ∧ WF db' ∧
      absT db' = (Spec.applyLog (absT db) es).1 :=
  update_refines db h es hne hes

/-- … so for every history of apply batches starting from the empty store, every state along the
way is well-formed and equals the sorted map applying the concatenated log -/
theorem c01_history_refines (batches : List (List Entry)) (hb : ∀ b ∈ batches, b ≠ [] ∧ ∀ e ∈ b, EntryWF e) :
    ∀ (db : Db), WF db →
    ∃ db', batches.foldlM (fun d b => (update d b).map (·.1)) db = .ok db' ∧ WF db' ∧
      absT db' = (Spec.applyLog (absT db) batches.flatten).1 := by
  induction batches with
  | nil => intro db h; exact ⟨db, rfl, h, rfl⟩
  | cons b rest ih =>
    intro db h
    obtain ⟨hne, hes⟩ := hb b (by simp)
    obtain ⟨db1, n, e1, w1, a1⟩ := update_refines db h b hne hes
    obtain ⟨db', e2, w2, a2⟩ := ih (fun x hx => hb x (by simp [hx])) db1 w1
    refine ⟨db', ?_, w2, ?_⟩
    · simp only [List.foldlM_cons, e1, Except.map, bind, Except.bind]
      exact e2
    · rw [a2, a1, List.flatten_cons, Spec.applyLog_append]

/-- **later reads**: every read shape (single key, `[key, range_end)`, the `\0` wildcard, inverted and
empty ranges, keys-only, count-only, limits) answers as the sorted map does -/
theorem c01_lookup_refines (db : Db) (h : WF db) (r : RangeReq) (hk : r.key ≠ []) :
    lookup db r = .ok (Spec.lookup (absT db).kv r) := lookup_refines db h r hk

/-- … also as a stream -/
theorem c01_iterator_refines (db : Db) (h : WF db) (r : RangeReq) (hk : r.key ≠ []) :
    iteratorLookup db r = .ok (if r.rangeEnd.isSome then Spec.iterate (absT db).kv r else [Spec.single (absT db).kv r]) := by
  unfold iteratorLookup
  split
  · exact iterate_refines db h r hk
  · rw [singleLookup_refines db r hk]; rfl

/-- **applied index**: after an apply batch the reported applied index is the index of the last
entry applied -/
theorem c01_applied_index (db : Db) (h : WF db) (es : List Entry) (hne : es ≠ []) (hes : ∀ e ∈ es, EntryWF e)
    (db' : Db) (rs : List Result) (n : Nat) (hu : update db es = .ok (db', rs, n)) :
    readIndex db' sysLocalIndex = (es.getLast hne).index := by
  obtain ⟨db2, n2, e, _, a⟩ := update_refines db h es hne hes
  rw [hu] at e
  injection e with e; injection e with e1 _; subst e1
  have := congrArg Spec.Table.applied a
  simp only [absT] at this
  rw [this, Spec.applyLog_applied]

/-- **bookkeeping is isolated**: no command handler — whatever keys, bounds and flags it carries —
changes the two bookkeeping records of the batch it works on; together with `c01_lookup_refines`
(reads are functions of the user map alone) no user command can read, shadow or alter them -/
theorem c01_bookkeeping_isolated (b b' : Batch) (h : WF b.view) (cmd : Cmd) (hw : CmdWF cmd) (v : Nat)
    (rs : List RespOp) (hh : handle b cmd = .ok (b', v, rs)) : sysOf b'.view = sysOf b.view := by
  obtain ⟨b2, e, ok⟩ := handle_refines cmd hw b h
  rw [hh] at e
  injection e with e; injection e with e1 _; subst e1
  exact ok.sys

/-- range deletes: what the answer reports (`deleted`, `prev_kvs`) is the *first message* of the
corresponding range read; the removal itself always covers the whole range.  When the pairs of the
range exceed the 4 MiB message budget the report therefore covers only part of what was removed:
known finding K2, demonstrated on the real code by the size scenarios of the correspondence check. -/
theorem c01_delete_reports_first_message (m : Spec.UMap) (k hi : Bytes) (pk cnt : Bool) (h : (pk || cnt) = true) :
    (Spec.delete m k (some hi) pk cnt).1 = Spec.eraseRange m k hi ∧
    (Spec.delete m k (some hi) pk cnt).2 =
      (let first := (Spec.iterate m { key := k, rangeEnd := some hi, countOnly := cnt && !pk }).headD {}
       (first.count, first.kvs)) := by
  simp [Spec.delete, h, Spec.rangeLookup]

/-- non-vacuity: a three-entry apply batch on a store that already holds bookkeeping records —
put, range delete over it with count, put with prev_kv — meets every hypothesis; the model's
answers are the expected ones -/
example :
    let db : Db := [(Key.encodeUser [97], ⟨#[1]⟩), (Key.sysLocalIndex, le64 4)]
    let es : List Entry := [⟨5, none, .put [98] ⟨#[2]⟩ false⟩, ⟨6, some 9, .del [97] (some [0]) false true⟩,
      ⟨7, none, .put [98] ⟨#[3]⟩ true⟩]
    (match update db es with
      | .ok (db', rs, n) => (db'.map (·.1), rs.map (·.value), n) ==
          ([Key.encodeUser [98], Key.sysLocalIndex, Key.sysLeaderIndex], [1, 1, 1], 9)
      | .error _ => false) = true := by
  decide +kernel

end Regatta.Props.C01
