import Regatta.Proofs.MetaStore
/-
  C13 — The metadata store is a deterministic compare-and-set register map.

  `Meta.applyUpd` transcribes one entry of `LFSM.Update` (storage/kv/raft.go) over `MapStore`
  (map.go); `Meta.getAll`, `getAllValues`, `list`, `listDir` the lookups.  Versions are log indices.
-/
namespace Regatta.Props.C13
open Regatta.Meta

variable {ν : Type}

/-- **CAS on an existing key**: set / delete succeed iff the supplied version equals the key's
current version; otherwise nothing changes and the answer is a version mismatch carrying the
current pair -/
theorem c13_cas (s : Store ν) (i : Nat) (u : Upd ν) (cur : Pair ν) (h : s.get? u.key = some cur) :
    (cur.ver ≠ u.ver → applyUpd s i u = (s, .mismatch cur)) ∧
    (cur.ver = u.ver → u.op = .set → applyUpd s i u = (s.put ⟨u.key, u.value, i⟩, .ok ⟨u.key, u.value, i⟩)) ∧
    (cur.ver = u.ver → u.op = .delete → applyUpd s i u = (s.erase u.key, .ok ⟨u.key, u.value, i⟩)) :=
  applyUpd_existing s i u cur h

/-- an absent key is created / "deleted" whatever version is supplied (the code checks versions of
existing keys only; callers rely on this with version 0) -/
theorem c13_absent (s : Store ν) (i : Nat) (u : Upd ν) (h : s.get? u.key = none) :
    (u.op = .set → applyUpd s i u = (s.put ⟨u.key, u.value, i⟩, .ok ⟨u.key, u.value, i⟩)) ∧
    (u.op = .delete → applyUpd s i u = (s.erase u.key, .ok ⟨u.key, u.value, i⟩)) :=
  applyUpd_absent s i u h

/-- **new versions are larger than every version handed out before**: with log indices increasing,
every stored version stays below the next index, and a successful set stamps exactly that index -/
theorem c13_versions_increase (s : Store ν) (i j : Nat) (u : Upd ν) (h : VersBelow s i) (hij : i < j) :
    VersBelow (applyUpd s i u).1 j ∧
    (∀ p, (applyUpd s i u).2 = .ok p → p.ver = i ∧ ∀ q ∈ s, q.ver < p.ver) := by
  refine ⟨versBelow_applyUpd s i j u h hij, ?_⟩
  intro p hp
  rcases applyUpd_cases s i u with ⟨he, _⟩ | ⟨cur, _, _, he⟩
  · rw [he] at hp
    have : p.ver = i := by
      unfold applyOp at hp
      cases hop : u.op <;> simp only [hop] at hp <;> injection hp with hp <;> subst hp <;> rfl
    exact ⟨this, fun q hq => by rw [this]; exact h q hq⟩
  · rw [he] at hp; cases hp

/-- … for whole histories: starting from the empty store with indices increasing from 1 -/
theorem c13_versions_history (us : List (Nat × Upd ν)) (hinc : us.Pairwise (fun a b => a.1 < b.1))
    (hpos : ∀ e ∈ us, 0 < e.1) (n : Nat) (hn : ∀ e ∈ us, e.1 < n) :
    VersBelow (applyBatch ([] : Store ν) us).1 n := by
  suffices H : ∀ (s : Store ν) (m : Nat), VersBelow s m → (∀ e ∈ us, m ≤ e.1) → VersBelow (applyBatch s us).1 n ∨ us = [] ∧ VersBelow s m by
    rcases H [] 1 (fun p hp => by cases hp) (fun e he => hpos e he) with h | ⟨h1, _⟩
    · exact h
    · subst h1; intro p hp; cases hp
  induction us with
  | nil => intro s m hs _; exact Or.inr ⟨rfl, hs⟩
  | cons e rest ih =>
    obtain ⟨i, u⟩ := e
    intro s m hs hm
    rw [List.pairwise_cons] at hinc
    left
    simp only [applyBatch]
    have hmi : m ≤ i := hm (i, u) (by simp)
    have hs' : VersBelow s i := fun p hp => Nat.lt_of_lt_of_le (hs p hp) hmi
    cases rest with
    | nil =>
      simp only [applyBatch]
      exact versBelow_applyUpd s i n u hs' (hn (i, u) (by simp))
    | cons e2 rest2 =>
      have hlt : i < e2.1 := hinc.1 e2 (by simp)
      have h1 := versBelow_applyUpd s i e2.1 u hs' hlt
      rcases ih hinc.2 (fun e he => hpos e (by simp [he])) (fun e he => hn e (by simp [he]))
          (applyUpd s i u).1 e2.1 h1 (fun e he => by
            simp only [List.mem_cons] at he
            rcases he with rfl | he
            · exact Nat.le_refl _
            · exact Nat.le_of_lt ((List.pairwise_cons.mp hinc.2).1 e he)) with h | ⟨h, _⟩
      · exact h
      · cases h

/-- **lookups reflect exactly the successful updates**: reading a key after an update gives what was
there before, unless the update passed the version check on that very key — then the new pair
(set) or nothing (delete) -/
theorem c13_get_reflects (s : Store ν) (i : Nat) (u : Upd ν) (k : String) :
    (applyUpd s i u).1.get? k = s.get? k ∨
    (k = u.key ∧ (applyUpd s i u).1.get? k = some ⟨u.key, u.value, i⟩ ∧ u.op = .set ∧
      (∀ cur, s.get? u.key = some cur → cur.ver = u.ver)) ∨
    (k = u.key ∧ (applyUpd s i u).1.get? k = none ∧ u.op = .delete ∧
      (∀ cur, s.get? u.key = some cur → cur.ver = u.ver)) :=
  applyUpd_get? s i u k

/-- glob listings are the matching stored pairs (membership; the order is by key) -/
theorem c13_getAll_mem (s : Store String) (pattern : String) (p : Pair String) :
    p ∈ getAll s pattern ↔ p ∈ s ∧ globMatch pattern p.key = true := by
  unfold getAll
  rw [List.mem_mergeSort, List.mem_filter]

/-- **replicas agree** (the state machine is a function of the entry sequence) and the result does
not depend on how entries are grouped into apply calls -/
theorem c13_batching_independent (s : Store ν) (a b : List (Nat × Upd ν)) :
    applyBatch s (a ++ b) =
      ((applyBatch (applyBatch s a).1 b).1, (applyBatch s a).2 ++ (applyBatch (applyBatch s a).1 b).2) :=
  applyBatch_append s a b

/-- **catch-up by snapshot = catch-up by log**: a replica that held anything (`stale`), installs the
snapshot a peer took after the entries `a` and applies `b` holds the store - and answers `b` with
the results - of a replica that applied `a ++ b`; in particular records deleted in `a` do not come
back (C13-c / C14-f regression: the `msnap` lines of the `meta` run tie `restoreSnapshot`) -/
theorem c13_snapshot_catchup (s stale : Store ν) (a b : List (Nat × Upd ν)) :
    applyBatch (restoreSnapshot stale (applyBatch s a).1) b =
      ((applyBatch s (a ++ b)).1, (applyBatch s (a ++ b)).2.drop (applyBatch s a).2.length) := by
  rw [applyBatch_append]; simp [restoreSnapshot]

/-- … so what the receiver held before is irrelevant -/
theorem c13_snapshot_forgets (old old' snap : Store ν) : restoreSnapshot old snap = restoreSnapshot old' snap := rfl

/-- non-vacuity and regression: two sets with version 0 on one key — the second is a mismatch
reporting the pair stamped by the first; a set with the current version succeeds; a set on a key
that was deleted and re-created cannot succeed with the old version (no ABA: versions are indices) -/
example :
    let us : List (Nat × Upd String) := [(3, ⟨.set, "/k", "a", 0⟩), (4, ⟨.set, "/k", "b", 0⟩), (5, ⟨.set, "/k", "c", 3⟩),
      (6, ⟨.delete, "/k", "", 5⟩), (7, ⟨.set, "/k", "d", 0⟩), (8, ⟨.set, "/k", "e", 5⟩)]
    ((applyBatch [] us).2.map (fun r => match r with | .ok p => (1, p.value, p.ver) | .mismatch c => (2, c.value, c.ver)))
      = [(1, "a", 3), (2, "a", 3), (1, "c", 5), (1, "", 6), (1, "d", 7), (2, "d", 7)] := by
  decide

end Regatta.Props.C13
