import Regatta.Proofs.LogStream
import Regatta.Extracted.Consts
/-
  C06 — Replication log stream is exact: consecutive applied entries, no gap or repeat.

  Model: `Regatta.LogReader` — `readLog`, `Simple.QueryRaftLog` (`simpleQuery`), the cache
  (`get`, `put`, `makeRoomAndAppend`, `findIndex`), `Cached.QueryRaftLog` (`cachedQuery`), `fixSize`
  and the loop of `LogServer.Replicate` (`replicate`), transcribed from storage/logreader and
  regattaserver/replication.go and run against the real readers and the real server loop by the
  correspondence check.

  `H` is the immutable history of the shard's Raft log (`H i` = the entry at index `i`), `a` the
  leader's applied index at call time; the end of every queried range is `a + 1`, as the server
  computes it.  About dragonboat's `Entries` only `EntriesSpec` is assumed: inside the log it returns
  a non-empty prefix of the history's range.
-/
namespace Regatta.Props.C06
open Regatta.LogReader

/-- **cache invariant**: the buffer is always empty or a contiguous ascending run of the log's own
entries, none beyond the applied index — established by the fresh cache and by a cache dropped on
compaction, preserved by every query, and monotone in the applied index -/
theorem c06_cache_inv (H : Nat → LEntry) (hH : IdxOK H) (l : Log) (hl : EntriesSpec H l) (c : Cache) (a : Nat)
    (hc : CacheInv H a c) (F mx : Nat) (hF : 0 < F) (hFa : F ≤ a) (hal : a ≤ l.last) :
    CacheInv H a (cachedQuery l c F (a + 1) mx).2 :=
  (cachedQuery_exact H hH l hl c a hc F mx hF hFa hal).2

theorem c06_cache_inv_init (H : Nat → LEntry) (a n : Nat) : CacheInv H a { size := n } := cacheInv_empty H a n

theorem c06_cache_inv_mono (H : Nat → LEntry) (a b : Nat) (c : Cache) (h : CacheInv H a c) (hab : a ≤ b) :
    CacheInv H b c := h.mono hab

/-- **exactness, cached reader**: whatever earlier queries shaped the cache, whatever the size limit
and cache size: a non-error answer for the range `[F, a+1)` consists of the log's own entries with
consecutive indices starting at `F`, none beyond `a`, and — the range being non-empty — at least
one entry (this last part is what defect D7 broke) -/
theorem c06_exact_cached (H : Nat → LEntry) (hH : IdxOK H) (l : Log) (hl : EntriesSpec H l) (c : Cache) (a : Nat)
    (hc : CacheInv H a c) (F mx : Nat) (hF : 0 < F) (hFa : F ≤ a) (hal : a ≤ l.last)
    (es : List LEntry) (hok : (cachedQuery l c F (a + 1) mx).1 = .ok es) :
    ∃ j, 1 ≤ j ∧ j ≤ a + 1 - F ∧ es = run H F j := by
  rcases (cachedQuery_exact H hH l hl c a hc F mx hF hFa hal).1 with ⟨e, he⟩ | ⟨j, h1, h2, he⟩
  · rw [he] at hok; cases hok
  · rw [he] at hok; injection hok with hok; exact ⟨j, h1, h2, hok.symm⟩

/-- **exactness, uncached reader** -/
theorem c06_exact_simple (H : Nat → LEntry) (l : Log) (hl : EntriesSpec H l) (a F mx : Nat)
    (hFa : F ≤ a) (hal : a ≤ l.last) (es : List LEntry) (hok : simpleQuery l F (a + 1) mx = .ok es) :
    ∃ j, 1 ≤ j ∧ j ≤ a + 1 - F ∧ es = run H F j := by
  rcases simpleQuery_exact H l hl a F mx hFa hal with ⟨e, he⟩ | ⟨j, h1, h2, he⟩
  · rw [he] at hok; cases hok
  · rw [he] at hok; injection hok with hok; exact ⟨j, h1, h2, hok.symm⟩

/-- hence the cached answer and the uncached answer are prefixes of the same run: they agree up
to where a size limit cuts -/
theorem c06_cache_agrees (H : Nat → LEntry) (hH : IdxOK H) (l : Log) (hl : EntriesSpec H l) (c : Cache) (a : Nat)
    (hc : CacheInv H a c) (F mx : Nat) (hF : 0 < F) (hFa : F ≤ a) (hal : a ≤ l.last)
    (es es' : List LEntry) (h1 : (cachedQuery l c F (a + 1) mx).1 = .ok es)
    (h2 : simpleQuery l F (a + 1) mx = .ok es') :
    es = es'.take es.length ∨ es' = es.take es'.length := by
  obtain ⟨j, _, _, rfl⟩ := c06_exact_cached H hH l hl c a hc F mx hF hFa hal es h1
  obtain ⟨j', _, _, rfl⟩ := c06_exact_simple H l hl a F mx hFa hal es' h2
  rw [run_length, run_length, take_run, take_run]
  by_cases h : j ≤ j'
  · left; congr 1; omega
  · right; congr 1; omega

/-- **classification**: a request for a compacted index is answered "use snapshot" by the log
(uncached reader; cached reader with an empty — i.e. invalidated — cache) … -/
theorem c06_compacted_use_snapshot (l : Log) (a F mx : Nat) (hF : 0 < F) (hFa : F ≤ a) (hal : a ≤ l.last) (hcomp : F < l.first) :
    simpleQuery l F (a + 1) mx = .error .ahead ∧
    ∀ n, (cachedQuery l { size := n } F (a + 1) mx).1 = .error .ahead := by
  have hne : ¬ F = a + 1 := by omega
  have e1 : ¬ l.last + 1 = F := by omega
  have e2 : ¬ l.last < F := by omega
  have hr : readLog l F (a + 1) mx = .error .ahead := by simp [readLog, e1, e2, hcomp]
  constructor
  · simp [simpleQuery, hne, hr]
  · intro n
    unfold cachedQuery
    have hget : ({ size := n } : Cache).get F (a + 1) = ([], (F, a + 1), (0, 0)) := by
      unfold Cache.get; simp
    simp only [hne, if_false, hget]
    have hpre : F ≠ 0 ∧ a + 1 ≠ 0 := ⟨by omega, by omega⟩
    rw [if_pos hpre, hr]

/-- … a request at `applied + 1` is answered by an empty batch (both readers, any cache) … -/
theorem c06_up_to_date (l : Log) (c : Cache) (a mx : Nat) :
    simpleQuery l (a + 1) (a + 1) mx = .ok [] ∧ cachedQuery l c (a + 1) (a + 1) mx = (.ok [], c) := by
  simp [simpleQuery, cachedQuery]

/-- … and a request beyond `applied + 1` with "leader behind" by the server, whatever the reader -/
theorem c06_leader_behind {σ : Type} (q : σ → Nat → Nat → Except LogErr (List LEntry) × σ) (s : σ)
    (req a stale : Nat) (h : a + 1 < req) : (replicate q s req a stale).1 = [.leaderBehind] := by
  simp [replicate, h]

/-- **the stream**: for a requested index `1 ≤ req ≤ a + 1` the messages of `Replicate` are batches
of commands — every one non-empty, their concatenation exactly the log's entries with consecutive
indices from `req`, none beyond `a` — followed by one final message; the final message is the
"up to date" one exactly when the whole range `[req, a+1)` was delivered, otherwise it is the error
the log reported ("use snapshot" / "leader behind").  Stated for any exact query function; the two
corollaries instantiate it with the uncached and the cached reader. -/
theorem c06_stream {σ : Type} (H : Nat → LEntry) (hH : IdxOK H) (a stale : Nat)
    (q : σ → Nat → Nat → Except LogErr (List LEntry) × σ) (I : σ → Prop) (hq : QExact H a q I)
    (s : σ) (hI : I s) (req : Nat) (h0 : 0 < req) (h1 : req ≤ a + 1) :
    ∃ j, j ≤ a + 1 - req ∧ commandsOf (replicate q s req a stale).1 = run H req j ∧
      I (replicate q s req a stale).2 ∧
      (∃ m, (replicate q s req a stale).1.getLast? = some m ∧ m.isFinal = true ∧
        (m = .upToDate stale ↔ j = a + 1 - req)) ∧
      (∀ m ∈ (replicate q s req a stale).1.dropLast, ∃ es, m = .commands es ∧ es ≠ []) := by
  unfold replicate
  have : ¬ a + 1 < req := by omega
  simp only [this, if_false]
  obtain ⟨j, h2, h3, h4, ⟨m, h5, h6, h7, h8⟩, h9⟩ :=
    replicateLoop_stream H hH a stale q I hq (a + 2 - req + 1) s req hI h0 h1 (by omega)
  exact ⟨j, h2, h3, h4, ⟨m, h5, h6, ⟨h7, h8⟩⟩, h9⟩

/-- the uncached reader is an exact query function … -/
theorem c06_simple_qexact (H : Nat → LEntry) (l : Log) (hl : EntriesSpec H l) (a mx : Nat) (hal : a ≤ l.last) :
    QExact H a (fun (_ : Unit) F L => (simpleQuery l F L mx, ())) (fun _ => True) :=
  ⟨fun _ F _ _ hFa => ⟨simpleQuery_exact H l hl a F mx hFa hal, trivial⟩,
   fun _ _ => ⟨by simp [simpleQuery], trivial⟩⟩

/-- … and so is the cached reader, with the cache invariant as loop invariant -/
theorem c06_cached_qexact (H : Nat → LEntry) (hH : IdxOK H) (l : Log) (hl : EntriesSpec H l) (a mx : Nat)
    (hal : a ≤ l.last) : QExact H a (fun c F L => cachedQuery l c F L mx) (CacheInv H a) :=
  ⟨fun c F hc hF hFa => cachedQuery_exact H hH l hl c a hc F mx hF hFa hal,
   fun c hc => ⟨by simp [cachedQuery], by simpa [cachedQuery] using hc⟩⟩

/-- the size limit the server passes when none is configured (tie to the current source) -/
theorem c06_default_limit : Regatta.Extracted.defaultMaxGRPCSize = 4 * 1024 * 1024 := by decide

/-- non-vacuity: the stub log of the correspondence harness with entry sizes 200, cache of size 2,
request 1 with limit 450 and applied index 5 — the stream is 1,2 | 3,4 | 5 | up-to-date, and the
second pass (cache now holding 4,5) delivers the same -/
example :
    let H : Nat → LEntry := fun i => ⟨i, 200, true⟩
    let l : Log := { first := 1, last := 5, ent := H, entriesFn := stubEntries H 5 }
    let r1 := replicate (fun c F L => cachedQuery l c F L 450) ({ size := 2 } : Cache) 1 5 5
    let r2 := replicate (fun c F L => cachedQuery l c F L 450) r1.2 1 5 5
    (commandsOf r1.1).map (·.index) = [1, 2, 3, 4, 5] ∧ r1.1.length = 4 ∧
    (commandsOf r2.1).map (·.index) = [1, 2, 3, 4, 5] ∧ r1.2.buffer.map (·.index) = [4, 5] := by
  decide

end Regatta.Props.C06
