import Regatta.Props.C11
import Regatta.Props.C05
/-
  C11 ∘ C05 — read-your-writes through a follower, end to end at the level of the specifications.

  A client writes through follower node F: the write is forwarded to the leader cluster, which
  acknowledges it at leader index (= revision) `r`; F's forwarding server then parks the call in the
  notification queue until the table's state machine on F reports a leader index at or beyond `r`,
  and only then answers the client without error.  C11 gives "answered without error ⇒ `r ≤ n`
  where `n` is the notified index" (`c11_ok_answer_means_applied`) and "`n` is the leader index the
  store reports after the very batch that was just committed" (`c11_notified_is_committed`); C05
  gives "the follower's content is the leader's at its recorded leader index" (`Repl.Inv`, kept by
  every round and recovery).  Together: when the client is answered, the node's table is the
  leader's table after a prefix of the leader's log that contains the client's write - and with it
  every write the leader ordered before it.
-/
namespace Regatta.Props.C11Compose
open Regatta Regatta.Queue Regatta.Repl Regatta.Props.C11

/-- **read your writes**: the follower keeps C05's invariant; a waiter for revision `it.rev` is
answered without error by the notification of index `n`, and `n` is a leader index the table has
recorded (`n ≤ f.li`: recorded indices only grow, `c05_index_monotone`).  Then the follower's content
is the leader's content after `f.li ≥ it.rev` entries: the leader's prefix up to and including the
client's write is a prefix of what the follower reflects. -/
theorem c11_read_your_writes (L : LLog) (f : Follower) (hinv : Repl.Inv L f)
    (s : QState) (hq : QInv s) (t : String) (n : Nat) (it : Item) (hit : it ∈ s.heaps t)
    (hc : (notifyLoop n (s.heaps t).length s (s.heaps t)).1.chan it.id = { closed := true })
    (hn : n ≤ f.li) :
    it.rev ≤ f.li ∧ f.kv = leaderAt L f.li ∧ (L.take f.li).take it.rev = L.take it.rev := by
  obtain ⟨hrev, _⟩ := c11_ok_answer_means_applied s hq t n it hit hc
  refine ⟨Nat.le_trans hrev hn, hinv.1, ?_⟩
  rw [List.take_take, Nat.min_eq_left (Nat.le_trans hrev hn)]

/-- … and the content the client reads afterwards is obtained from the state right after its own
write by applying the leader's later commands only: nothing of the write is lost or reordered -/
theorem c11_later_state_extends_write (L : LLog) (r li : Nat) (h : r ≤ li) :
    leaderAt L li = ((L.take li).drop r).foldl (fun m c => (Spec.step m c).1) (leaderAt L r) := by
  unfold leaderAt
  have : L.take li = L.take r ++ (L.take li).drop r := by
    have h1 : (L.take li).take r = L.take r := by rw [List.take_take, Nat.min_eq_left h]
    rw [← h1, List.take_append_drop]
  conv => lhs; rw [this]
  rw [List.foldl_append]

end Regatta.Props.C11Compose
