import Regatta.Extracted.Facts
import Regatta.Proofs.Refine
import Regatta.Proofs.SpecKv
/-
  C02 — Transactions are atomic if/then/else: one branch, in order, all or nothing.

  `Fsm.handleTxn` transcribes handleTxn / txnCompare / txnCompareSingle / handleTxnOps of
  command_txn.go (compare on the indexed batch, then exactly one of the two op lists applied into
  the same batch); `Fsm.lookupTxn` the read-only path of FSM.Lookup(*TxnRequest).  `Spec.txn` is
  the if/then/else on the sorted map.
-/
namespace Regatta.Props.C02
open Regatta Regatta.Fsm Regatta.Refine Regatta.Key

/-- **the write path refines if/then/else**: for every predicate list, both operation lists, every
prior state of the batch (any history, any position inside an apply batch): the predicates are
evaluated on the state immediately before the transaction (including earlier commands of the same
apply batch), exactly the operations of the chosen branch run, in order, each observing the earlier
ones, the n-th response is the answer of the n-th operation, the flag says which branch ran -/
theorem c02_txn_refines (b : Batch) (h : WF b.view) (cmp : List Compare) (succ fail : List ReqOp)
    (hc : ∀ c ∈ cmp, CompareWF c) (hs : ∀ o ∈ succ, ReqOpWF o) (hf : ∀ o ∈ fail, ReqOpWF o) :
    ∃ b', handleTxn b cmp succ fail = .ok (b', (Spec.txn (absU b.view) cmp succ fail).2.1,
        (Spec.txn (absU b.view) cmp succ fail).2.2) ∧
      WF b'.view ∧ absU b'.view = (Spec.txn (absU b.view) cmp succ fail).1 ∧ sysOf b'.view = sysOf b.view := by
  obtain ⟨b', e, ok⟩ := handleTxn_refines b h cmp succ fail hc hs hf
  exact ⟨b', e, ok.wf, ok.abs, ok.sys⟩

/-- the specification really is if/then/else: the conjunction of the predicates picks the branch … -/
theorem c02_spec_branch (m : Spec.UMap) (cmp : List Compare) (succ fail : List ReqOp) :
    Spec.txn m cmp succ fail =
      if Spec.compare m cmp = true then ((Spec.txnOps m succ).1, true, (Spec.txnOps m succ).2)
      else ((Spec.txnOps m fail).1, false, (Spec.txnOps m fail).2) := by
  unfold Spec.txn
  split <;> simp_all

/-- … a predicate on a missing key is false … -/
theorem c02_missing_key_false (m : Spec.UMap) (c : Compare) (h1 : c.rangeEnd = none)
    (h2 : SMap.get? c.key m = none) : Spec.compare1 m c = false := by
  simp [Spec.compare1, h1, h2]

/-- … a predicate on an empty range is false … -/
theorem c02_empty_range_false (m : Spec.UMap) (c : Compare) (hi : Bytes) (h1 : c.rangeEnd = some hi)
    (h2 : Spec.rangePairs m c.key hi = []) : Spec.compare1 m c = false := by
  simp [Spec.compare1, h1, h2]

/-- … a range predicate holds only if every key of the range satisfies the comparison … -/
theorem c02_range_all (m : Spec.UMap) (c : Compare) (hi : Bytes) (h1 : c.rangeEnd = some hi)
    (h : Spec.compare1 m c = true) : ∀ p ∈ Spec.rangePairs m c.key hi, txnCompareSingle c p.2 = true := by
  simp only [Spec.compare1, h1, Bool.and_eq_true, List.all_eq_true] at h
  exact h.2

/-- … with the stored value on the left-hand side: GREATER means stored > given -/
theorem c02_stored_on_left (c : Compare) (t stored : Val) (h1 : c.target = some t) :
    (c.result = .greater → txnCompareSingle c stored = valLt t stored) ∧
    (c.result = .less → txnCompareSingle c stored = valLt stored t) := by
  constructor <;> intro h2 <;> simp [txnCompareSingle, h1, h2]

/-- **read-only transactions**: the read-only path returns exactly what the write path would
return on the same state, and the write path leaves the table unchanged -/
theorem c02_readonly_agrees (db : Db) (h : WF db) (cmp : List Compare) (succ fail : List ReqOp)
    (hc : ∀ c ∈ cmp, CompareWF c) (hs : ∀ o ∈ succ, ReqOpWF o) (hf : ∀ o ∈ fail, ReqOpWF o)
    (hro : isReadonly succ fail = true) :
    lookupTxn db cmp succ fail = .ok ((Spec.txn (absU db) cmp succ fail).2.1, (Spec.txn (absU db) cmp succ fail).2.2) ∧
    (Spec.txn (absU db) cmp succ fail).1 = absU db := by
  simp only [isReadonly, Bool.and_eq_true] at hro
  have key : ∀ (ops : List ReqOp), (∀ o ∈ ops, ReqOpWF o) → ops.all ReqOp.isRange = true →
      ops.mapM (lookupTxnOp db) = .ok (Spec.txnOps (absU db) ops).2 := by
    intro ops
    induction ops with
    | nil => intro _ _; rfl
    | cons op rest ih =>
      intro hw hr
      simp only [List.all_cons, Bool.and_eq_true] at hr
      cases op with
      | range r =>
        have hk : r.key ≠ [] := hw (.range r) (by simp)
        rw [List.mapM_cons, ih (fun o ho => hw o (by simp [ho])) hr.2]
        simp only [lookupTxnOp, lookup_refines db h r hk, bind, Except.bind, pure, Except.pure, Spec.txnOps]
      | put k v pk => simp [ReqOp.isRange] at hr
      | del k e pk c => simp [ReqOp.isRange] at hr
      | none => simp [ReqOp.isRange] at hr
  constructor
  · unfold lookupTxn
    simp only
    rw [txnCompare_refines db h cmp hc, c02_spec_branch]
    by_cases hcmp : Spec.compare (absU db) cmp = true
    · simp only [hcmp, if_true]
      rw [key succ hs hro.1]; rfl
    · simp only [hcmp, Bool.false_eq_true, if_false]
      rw [key fail hf hro.2]; rfl
  · rw [c02_spec_branch]
    split
    · exact Spec.txnOps_readonly _ _ hro.1
    · exact Spec.txnOps_readonly _ _ hro.2

/-- **all or nothing**: an apply batch is one function from store to store (`update`): the effects
of the executed branch, of every other entry of the batch and the applied index become the new
store together; there is no intermediate store a read could observe (reads take the committed
store as argument).  Pebble's atomic batch commit is the assumption that makes the real store
behave like this value. -/
theorem c02_atomic (db : Db) (h : WF db) (es : List Entry) (hne : es ≠ []) (hes : ∀ e ∈ es, EntryWF e) :
    ∃ db' n, update db es = .ok (db', (Spec.applyLog (absT db) es).2, n) ∧
      absT db' = (Spec.applyLog (absT db) es).1 := by
  obtain ⟨db', n, e, _, a⟩ := update_refines db h es hne hes
  exact ⟨db', n, e, a⟩

/-- non-vacuity: the predicate of a transaction is decided by an earlier entry of the same apply
batch (put a=1, then txn: if a == 1 then put b else put c) -/
example :
    let es : List Entry := [⟨1, none, .put [97] ⟨#[1]⟩ false⟩,
      ⟨2, none, .txn [⟨.equal, [97], none, some ⟨#[1]⟩⟩] [.put [98] ⟨#[2]⟩ false] [.put [99] ⟨#[3]⟩ false]⟩]
    (match update [] es with
      | .ok (db', rs, _) => (db'.map (·.1), rs.map (·.value)) ==
          ([encodeUser [97], encodeUser [98], sysLocalIndex], [1, 1])
      | .error _ => false) = true := by
  decide +kernel

end Regatta.Props.C02

namespace Regatta.Props.C02

/-- **which transactions skip the log is decided as the model says**: `TxnRequest.IsReadonly`
(regattapb/extensions.go), read with go/parser on every run, ranges over the SUCCESS list and over the
FAILURE list and lets only range requests through - the model's `isReadonly succ fail`
(`succ.all isRange && fail.all isRange`).  A transaction classified read-only is evaluated by
`FSM.Lookup(*TxnRequest)`, whose operation handler exists for range requests only (`lookupTxnOp`: any
other operation is a nil dereference): `c02_readonly_agrees` covers exactly the transactions this
function lets through. -/
theorem c02_isReadonly_shape_matches_source :
    Regatta.Extracted.isReadonlyShape =
      ["range x1.Success", "only *RequestOp_RequestRange", "return false",
       "range x1.Failure", "only *RequestOp_RequestRange", "return false", "return true"] := by
  decide

end Regatta.Props.C02
