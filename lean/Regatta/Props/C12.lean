import Regatta.Proofs.Key
/-
  C12 — Key encoding is injective, order-preserving, and isolates bookkeeping keys.

  All statements are for arbitrary byte strings (any length, any bytes) and are stated over the
  constants extracted from the current source (`Regatta.Extracted.Consts`): header length, version
  byte, the two type bytes, the maximal user key, the wildcard and the two bookkeeping keys. Side
  conditions on those constants are discharged by `decide`, so a change of the layout re-checks (and
  possibly breaks) exactly the facts the argument depends on.
-/
namespace Regatta.Props.C12
open Regatta Regatta.Key

/-! #### facts about the extracted layout the proofs rely on -/

/-- user keys sort strictly below system keys -/
theorem c12_type_order : typeUser.toNat < typeSystem.toNat := by decide

/-- incrementing the user type byte gives the system type byte, without wrapping -/
theorem c12_type_succ : typeUser + 1 = typeSystem ∧ typeUser + 1 ≠ 0 := by decide

/-- the code's `maxUserKey` is the user-typed key of `latestMaxKeyLen` bytes `0xFF`, and the model's
`maxUserKey` has the same length and head as the one the running code computed -/
theorem c12_maxUserKey_shape :
    Extracted.latestMaxKeyAllFF = true ∧ maxUserKey.length = Extracted.maxUserKeyLen ∧
    maxUserKey.take (Extracted.keyHeaderLen + 1) = Extracted.maxUserKeyHead := by
  refine ⟨by decide, ?_, ?_⟩
  · simp only [maxUserKey, encode, List.length_append, List.length_cons, List.length_replicate, hdr_length]
    decide
  · have : maxUserKey = (hdr ++ [typeUser]) ++ List.replicate Extracted.latestMaxKeyLen 255 := by
      simp [maxUserKey, encode]
    rw [this, List.take_append_of_le_length (by simp [hdr_length])]
    decide

/-- the two bookkeeping keys are system-typed keys -/
theorem c12_sys_keys :
    sysLocalIndex = encode typeSystem [105, 110, 100, 101, 120] ∧
    sysLeaderIndex = encode typeSystem [108, 101, 97, 100, 101, 114, 95, 105, 110, 100, 101, 120] := by
  decide

/-! #### the property -/

/-- decoding an encoded key returns it (production decoder `DecodeBytes`), for every type byte and
every non-empty key of any length -/
theorem c12_roundtrip (t : UInt8) (k : Bytes) (hk : k ≠ []) : decodeBytes (encode t k) = .ok (t, k) :=
  decodeBytes_encode t k hk

/-- … in particular the user-key path used by the iterator and by `commandSnapshot` -/
theorem c12_roundtrip_user (k : Bytes) (hk : k ≠ []) : decodeUser (encodeUser k) = some k :=
  decodeUser_encodeUser k hk

/-- the stream decoder round-trips keys of up to `keyV1BodyLen - 1` bytes … -/
theorem c12_roundtrip_stream (t : UInt8) (k : Bytes) (hk : k.length + 1 ≤ Extracted.keyV1BodyLen) :
    decodeStream (encode t k) = .ok (t, k) := by
  unfold decodeStream encode
  have h1 : ¬ (hdr ++ t :: k).length < Extracted.keyHeaderLen := by simp [hdr_length]
  have h2 : (hdr ++ t :: k).head? = some Extracted.keyV1 := by simp [hdr]
  have h3 : (hdr ++ t :: k).drop Extracted.keyHeaderLen = t :: k := by rw [← hdr_length]; simp
  have h4 : ((hdr ++ t :: k).take Extracted.keyHeaderLen).drop 1 = List.replicate (Extracted.keyHeaderLen - 1) 0 := by
    rw [← hdr_length]; simp [hdr]
  have h5 : (List.replicate (Extracted.keyHeaderLen - 1) (0 : UInt8)).any (· != 0) = false := by
    simp
  simp only [h1, if_false, h4, h5, Bool.false_eq_true, h2, if_true, h3]
  have h6 : (t :: k).take Extracted.keyV1BodyLen = t :: k := by
    apply List.take_of_length_le; simpa using hk
  rw [h6]

/-- … and truncates longer ones (observation O2: the stream form is not used on the production path) -/
theorem c12_stream_truncates_witness :
    (decodeStream (encode typeUser (List.replicate 1020 7))).toOption.map (·.2.length) = some 1019 := by
  decide +kernel

/-- two different keys never encode to the same stored key -/
theorem c12_injective (t : UInt8) (a b : Bytes) (h : encode t a = encode t b) : a = b :=
  encode_injective t a b h

/-- the byte order of stored user keys is the byte order of the user keys -/
theorem c12_order (a b : Bytes) : bytesLt (encodeUser a) (encodeUser b) = bytesLt a b :=
  encode_lt typeUser a b

theorem c12_order_le (a b : Bytes) : bytesLe (encodeUser a) (encodeUser b) = bytesLe a b := by
  simp [bytesLe, c12_order]

/-- the wildcard bound is the first key of the system type: the carry runs through all `0xFF` bytes
of the maximal user key into the type byte (proved with the carry lemma, not by evaluation) -/
theorem c12_wildcardBound_eq :
    wildcardBound = encode typeSystem (List.replicate Extracted.latestMaxKeyLen 0) := by
  unfold wildcardBound maxUserKey encode
  rw [increment_carry hdr typeUser _ c12_type_succ.2, c12_type_succ.1]

/-- every user key, of any length, lies below the wildcard bound … -/
theorem c12_inside_wildcard (k : Bytes) : bytesLt (encodeUser k) wildcardBound = true := by
  rw [c12_wildcardBound_eq]
  exact encode_lt_of_type_lt _ _ _ _ c12_type_order

/-- … and at or above the `\0` lower bound when it is non-empty -/
theorem c12_above_zero (k : Bytes) (hk : k ≠ []) : bytesLe (encodeUser [0]) (encodeUser k) = true := by
  rw [c12_order_le]
  cases k with
  | nil => exact absurd rfl hk
  | cons x xs =>
    simp only [bytesLe, bytesLt, Bool.not_eq_true']
    have : ¬ x.toNat < (0 : UInt8).toNat := by simp
    simp only [this, if_false]
    split
    · rfl
    · exact bytesLt_nil_right xs

/-- hence the full wildcard range `[\0, \0)` contains every non-empty user key -/
theorem c12_wildcard_range_total (k : Bytes) (hk : k ≠ []) :
    SMap.inRange (bounds [0] Extracted.wildcard).1 (bounds [0] Extracted.wildcard).2 (encodeUser k) = true := by
  simp only [bounds, upperBound, SMap.inRange, if_true, Bool.and_eq_true]
  exact ⟨c12_above_zero k hk, c12_inside_wildcard k⟩

/-- every upper bound a request can express is at or below the wildcard bound … -/
theorem c12_upper_le_wildcard (hi : Bytes) : bytesLe (upperBound hi) wildcardBound = true := by
  unfold upperBound
  split
  · exact bytesLe_refl _
  · exact bytesLe_of_lt _ _ (c12_inside_wildcard hi)

/-- … and the wildcard bound is at or below both bookkeeping keys -/
theorem c12_wildcard_le_sys :
    bytesLe wildcardBound sysLocalIndex = true ∧ bytesLe wildcardBound sysLeaderIndex = true := by
  rw [c12_wildcardBound_eq, c12_sys_keys.1, c12_sys_keys.2]
  have e : Extracted.latestMaxKeyLen = 1018 + 1 := by decide
  rw [e, List.replicate_succ]
  constructor
  · apply bytesLe_of_lt; rw [encode_lt]; exact bytesLt_cons_of_lt _ _ _ _ (by decide)
  · apply bytesLe_of_lt; rw [encode_lt]; exact bytesLt_cons_of_lt _ _ _ _ (by decide)

/-- bookkeeping keys lie outside every range `[key, range_end)` a user request can express
(any `key`, any `range_end` including the wildcard) -/
theorem c12_sys_outside_every_range (lo hi : Bytes) :
    SMap.inRange (bounds lo hi).1 (bounds lo hi).2 sysLocalIndex = false ∧
    SMap.inRange (bounds lo hi).1 (bounds lo hi).2 sysLeaderIndex = false := by
  have h1 := bytesLe_trans _ _ _ (c12_upper_le_wildcard hi) c12_wildcard_le_sys.1
  have h2 := bytesLe_trans _ _ _ (c12_upper_le_wildcard hi) c12_wildcard_le_sys.2
  simp only [bytesLe, Bool.not_eq_true'] at h1 h2
  simp [bounds, SMap.inRange, h1, h2]

/-- a bookkeeping key is never the stored form of a user key (so no single-key request addresses it) -/
theorem c12_sys_not_user (k : Bytes) : encodeUser k ≠ sysLocalIndex ∧ encodeUser k ≠ sysLeaderIndex := by
  constructor
  · intro h
    have := encode_lt_of_type_lt typeUser typeSystem k [105, 110, 100, 101, 120] c12_type_order
    rw [← c12_sys_keys.1, ← h, encodeUser, bytesLt_irrefl] at this
    cases this
  · intro h
    have := encode_lt_of_type_lt typeUser typeSystem k [108, 101, 97, 100, 101, 114, 95, 105, 110, 100, 101, 120] c12_type_order
    rw [← c12_sys_keys.2, ← h, encodeUser, bytesLt_irrefl] at this
    cases this

/-- range bounds mean the same in both key spaces: a stored user key is inside the stored range
iff the user key is inside the user range (for a non-wildcard end) -/
theorem c12_range_same (lo hi k : Bytes) (hw : hi ≠ Extracted.wildcard) :
    SMap.inRange (bounds lo hi).1 (bounds lo hi).2 (encodeUser k) = SMap.inRange lo hi k := by
  simp [bounds, upperBound, hw, SMap.inRange, c12_order, c12_order_le]

/-- … and for the wildcard end: iff the user key is at or above the lower bound -/
theorem c12_range_wildcard (lo k : Bytes) :
    SMap.inRange (bounds lo Extracted.wildcard).1 (bounds lo Extracted.wildcard).2 (encodeUser k) = bytesLe lo k := by
  simp [bounds, upperBound, SMap.inRange, c12_order_le, c12_inside_wildcard]

/-- non-vacuity: a concrete maximal-length key satisfies every hypothesis used above and the
statements compute as expected -/
example : (decodeBytes (encodeUser [255, 255, 0])).toOption = some (typeUser, [255, 255, 0]) ∧
    bytesLt (encodeUser [97]) (encodeUser [97, 0]) = true ∧
    SMap.inRange (bounds [0] [0]).1 (bounds [0] [0]).2 (encodeUser (List.replicate 1024 255)) = true := by
  decide +kernel

/-- **the exclusive upper bound of a prefix / wildcard scan is sound for every byte pattern**: for a
bound input whose last non-0xFF byte is `t` (followed by any number of 0xFF bytes, preceded by
anything), `incrementRightmostByte` carries through the 0xFF run, keeps the length, and the result
is above EVERY key that starts with the input - so no such key drops out of the scan (C12-g
regression: no carry, the bound fell below the 1020-1024-byte keys that start with 1019 × 0xFF) -/
theorem c12_increment_above_prefix (p : Bytes) (t : UInt8) (n : Nat) (ht : t + 1 ≠ 0) (s : Bytes) :
    bytesLt ((p ++ t :: List.replicate n 255) ++ s)
      (incrementRightmostByte (p ++ t :: List.replicate n 255)) = true :=
  increment_above_prefix p t n ht s

theorem c12_increment_keeps_length (p : Bytes) (t : UInt8) (n : Nat) (ht : t + 1 ≠ 0) :
    (incrementRightmostByte (p ++ t :: List.replicate n 255)).length =
      (p ++ t :: List.replicate n 255).length :=
  increment_keeps_length p t n ht

end Regatta.Props.C12
