import Regatta.Proofs.Linearizable
import Regatta.Props.C01
import Regatta.Props.C02
import Regatta.Props.C03
/-
  C10 at the level of whole concurrent histories: "all concurrent client histories on one table".

  A history is the committed log of the table - every entry with the invocation / return time of
  the client call that proposed it and the result the state machine produced - and the completed
  linearizable reads (Range / IterateRange with `linearizable`, read-only transactions), each with
  the number of log entries the replica that answered had applied.

  `c10_history_linearizable`: if the answers are the ones the state-machine model produces (under
  ANY cutting of the log into apply batches, on any replica) and the history passes the real-time
  check `History.checkHistory` - the four pairwise conditions that dragonboat's commit order and
  ReadIndex give (`c10_raft_timing_passes_check`) - then the history is linearizable with respect
  to the sorted-map table: one sequential order of all writes and reads, compatible with real time,
  in which the sorted map gives every answer the clients saw.

  The check is executable; mode `conc` runs it on histories recorded from a real three-node cluster
  under concurrent clients, with the answers compared against the model position by position.
-/
namespace Regatta.Props.C10History
open Regatta Regatta.Fsm Regatta.Refine Regatta.History

/-- the reads that take the consensus path -/
inductive ReadReq
  | range (r : RangeReq)
  | iterate (r : RangeReq)
  | txn (cmp : List Compare) (succ fail : List ReqOp)

inductive ReadResp
  | range (r : RangeResp)
  | iterate (rs : List RangeResp)
  | txn (ok : Bool) (rs : List RespOp)

/-- the sequential specification: the sorted-map table -/
def tableSpec : Seq Spec.Table Entry ReadReq Result ReadResp where
  write := Spec.applyEntry
  read t q :=
    match q with
    | .range r => .range (Spec.lookup t.kv r)
    | .iterate r => .iterate (if r.rangeEnd.isSome then Spec.iterate t.kv r else [Spec.single t.kv r])
    | .txn c s f => .txn (Spec.txn t.kv c s f).2.1 (Spec.txn t.kv c s f).2.2

/-- the state-machine model's answer (FSM.Lookup of the three request types) -/
def fsmRead (db : Db) : ReadReq → Except Err ReadResp
  | .range r => (lookup db r).map .range
  | .iterate r => (iteratorLookup db r).map .iterate
  | .txn c s f => (lookupTxn db c s f).map (fun p => .txn p.1 p.2)

/-- what the API lets through (C16): no empty key anywhere; a transaction read through Lookup is read-only -/
def ReadWF : ReadReq → Prop
  | .range r => r.key ≠ []
  | .iterate r => r.key ≠ []
  | .txn c s f => (∀ x ∈ c, CompareWF x) ∧ (∀ o ∈ s, ReqOpWF o) ∧ (∀ o ∈ f, ReqOpWF o) ∧ isReadonly s f = true

theorem fsmRead_refines (db : Db) (h : WF db) (q : ReadReq) (hq : ReadWF q) :
    fsmRead db q = .ok (tableSpec.read (absT db) q) := by
  cases q with
  | range r => simp only [fsmRead, lookup_refines db h r hq]; rfl
  | iterate r => simp only [fsmRead, Regatta.Props.C01.c01_iterator_refines db h r hq]; rfl
  | txn c s f =>
    obtain ⟨hc, hs, hf, hro⟩ := hq
    simp only [fsmRead, (Regatta.Props.C02.c02_readonly_agrees db h c s f hc hs hf hro).1]; rfl

/-! ### the specification's states and results along the log -/

theorem advance_eq (t : Spec.Table) (log : List (WEntry Entry Result)) (n : Nat) :
    advance tableSpec t log n = (Spec.applyLog t ((log.map (·.cmd)).take n)).1 := by
  induction log generalizing t n with
  | nil => simp [advance, Spec.applyLog]
  | cons e l ih =>
    cases n with
    | zero => simp [Spec.applyLog]
    | succ n => simp only [advance, List.map_cons, List.take_succ_cons, Spec.applyLog, ih]; rfl

theorem wlegal_of_results (t : Spec.Table) (log : List (WEntry Entry Result))
    (h : log.map (·.out) = (Spec.applyLog t (log.map (·.cmd))).2) : WLegal tableSpec t log := by
  induction log generalizing t with
  | nil => trivial
  | cons e l ih =>
    simp only [List.map_cons, Spec.applyLog, List.cons.injEq] at h
    exact ⟨h.1, ih _ h.2⟩

/-- a replica that applied the first `n` entries of the log, cut into apply batches in any way -/
def ReplicaAt (cmds : List Entry) (n : Nat) (db : Db) : Prop :=
  ∃ batches : List (List Entry), (∀ b ∈ batches, b ≠ []) ∧ batches.flatten = cmds.take n ∧
    batches.foldlM (fun d b => (update d b).map (·.1)) [] = .ok db

/-- **every concurrent history of the table is linearizable**, provided it passes the real-time check -/
theorem c10_history_linearizable
    (log : List (WEntry Entry Result)) (rs : List (ROp ReadReq ReadResp))
    (hwf : ∀ e ∈ log, EntryWF e.cmd) (hq : ∀ r ∈ rs, ReadWF r.req)
    -- the results the clients got are the state machine's, for the log applied in one call (C03: or in any other cutting)
    (hwrites : log = [] ∨ ∃ db n, update [] (log.map (·.cmd)) = .ok (db, log.map (·.out), n))
    -- every read was answered by some replica that had applied the first `seen` entries, in whatever batches
    (hreads : ∀ r ∈ rs, ∃ db, ReplicaAt (log.map (·.cmd)) r.seen db ∧ fsmRead db r.req = .ok r.out)
    (hcheck : checkHistory log rs = true) :
    Linearizable tableSpec (absT []) log rs := by
  have hes : ∀ e ∈ log.map (·.cmd), EntryWF e := by
    intro e he
    obtain ⟨x, hx, rfl⟩ := List.mem_map.mp he
    exact hwf x hx
  refine linearizable_of_check tableSpec (absT []) log rs hcheck ?_ ?_
  · rcases hwrites with rfl | ⟨db, n, hu⟩
    · trivial
    · by_cases hne : log.map (·.cmd) = []
      · have : log = [] := by simpa using hne
        subst this; trivial
      · obtain ⟨db', n', e, _, _⟩ := update_refines [] wf_nil (log.map (·.cmd)) hne hes
        rw [hu] at e
        injection e with e
        have : log.map (·.out) = (Spec.applyLog (absT []) (log.map (·.cmd))).2 := by
          injection e with _ e2; injection e2
        exact wlegal_of_results _ _ this
  · intro r hr
    obtain ⟨db, ⟨batches, hne, hflat, hfold⟩, hread⟩ := hreads r hr
    have hb : ∀ b ∈ batches, b ≠ [] ∧ ∀ e ∈ b, EntryWF e := by
      intro b hbm
      refine ⟨hne b hbm, fun e he => hes e ?_⟩
      have : e ∈ batches.flatten := List.mem_flatten.mpr ⟨b, hbm, he⟩
      rw [hflat] at this
      exact List.mem_of_mem_take this
    obtain ⟨db', hf', hw', ha'⟩ := Regatta.Props.C01.c01_history_refines batches hb [] wf_nil
    rw [hfold] at hf'
    injection hf' with hf'; subst hf'
    rw [fsmRead_refines db hw' r.req (hq r hr)] at hread
    injection hread with hread
    rw [← hread, ha', hflat, advance_eq]

/-! ### where the check's conditions come from: the timing of Raft -/

/-- dragonboat, as far as real time is concerned: entry `p` is committed at time `ct p`; commit
times do not decrease along the log; a proposal is committed between its invocation and its
return; a consensus read (ReadIndex) is answered from a state that reflects every entry committed
before the read was invoked and only entries committed before it returned -/
structure RaftTiming (log : List (WEntry Entry Result)) (rs : List (ROp ReadReq ReadResp)) (ct : Nat → Nat) : Prop where
  positions : positionsFrom 0 log = true
  mono : ∀ p q, p ≤ q → ct p ≤ ct q
  propose : ∀ e ∈ log, e.inv ≤ ct e.pos ∧ ∀ t, e.resp = some t → ct e.pos ≤ t
  readWF : ∀ r ∈ rs, r.inv ≤ r.resp ∧ r.seen ≤ log.length
  readIndex : ∀ r ∈ rs, ∀ p, 1 ≤ p → p ≤ log.length → ct p < r.inv → p ≤ r.seen
  readApplied : ∀ r ∈ rs, 1 ≤ r.seen → ct r.seen ≤ r.resp

theorem pos_bounds : ∀ (k : Nat) (log : List (WEntry Entry Result)), positionsFrom k log = true →
    ∀ e ∈ log, k + 1 ≤ e.pos ∧ e.pos ≤ k + log.length := by
  intro k log
  induction log generalizing k with
  | nil => intro _ e he; cases he
  | cons x l ih =>
    intro h e he
    simp only [positionsFrom, Bool.and_eq_true, decide_eq_true_eq] at h
    rcases List.mem_cons.mp he with rfl | he
    · simp only [List.length_cons]; omega
    · have := ih (k + 1) h.2 e he
      simp only [List.length_cons]; omega

theorem pos_inc : ∀ (k : Nat) (log : List (WEntry Entry Result)), positionsFrom k log = true →
    log.Pairwise (fun e1 e2 => e1.pos < e2.pos) := fun k log h => (positions_inc k log h).2

/-- **the timing of Raft makes every history pass the check** -/
theorem c10_raft_timing_passes_check (log : List (WEntry Entry Result)) (rs : List (ROp ReadReq ReadResp))
    (ct : Nat → Nat) (h : RaftTiming log rs ct) : checkHistory log rs = true := by
  have hb := pos_bounds 0 log h.positions
  simp only [checkHistory, Bool.and_eq_true]
  refine ⟨⟨⟨⟨⟨h.positions, ?_⟩, ?_⟩, ?_⟩, ?_⟩, ?_⟩
  · simp only [readsWF, List.all_eq_true, Bool.and_eq_true, decide_eq_true_eq]
    exact h.readWF
  · -- writes: a later entry cannot have returned before an earlier one was invoked
    have hp := pos_inc 0 log h.positions
    have hm : ∀ e ∈ log, e ∈ log := fun _ h => h
    clear hb
    have : ∀ (l : List (WEntry Entry Result)), (∀ e ∈ l, e ∈ log) → l.Pairwise (fun e1 e2 => e1.pos < e2.pos) → wwOK l = true := by
      intro l
      induction l with
      | nil => intro _ _; rfl
      | cons e l ih =>
        intro hsub hpw
        obtain ⟨h1, h2⟩ := List.pairwise_cons.mp hpw
        simp only [wwOK, Bool.and_eq_true, List.all_eq_true, Bool.not_eq_true']
        refine ⟨?_, ih (fun x hx => hsub x (List.mem_cons_of_mem _ hx)) h2⟩
        intro e2 he2
        cases hr : e2.resp with
        | none => rfl
        | some t =>
          simp only [before]
          apply decide_eq_false
          have a1 := (h.propose e (hsub e (List.mem_cons_self ..))).1
          have a2 := (h.propose e2 (hsub e2 (List.mem_cons_of_mem _ he2))).2 t hr
          have a3 := h.mono e.pos e2.pos (Nat.le_of_lt (h1 e2 he2))
          omega
    exact this log hm hp
  · simp only [wrOK, List.all_eq_true, Bool.or_eq_true, Bool.not_eq_true', decide_eq_true_eq]
    intro e he r hr
    cases hresp : e.resp with
    | none => left; rfl
    | some t =>
      by_cases hlt : t < r.inv
      · right
        have a2 := (h.propose e he).2 t hresp
        have := hb e he
        exact h.readIndex r hr e.pos (by omega) (by omega) (by omega)
      · left; simp [before, hlt]
  · simp only [rwOK, List.all_eq_true, Bool.or_eq_true, Bool.not_eq_true', decide_eq_true_eq]
    intro e he r hr
    by_cases hlt : r.resp < e.inv
    · right
      have a1 := (h.propose e he).1
      by_cases hs : 1 ≤ r.seen
      · have a2 := h.readApplied r hr hs
        -- ct seen ≤ r.resp < e.inv ≤ ct e.pos, so seen < e.pos
        by_cases hle : e.pos ≤ r.seen
        · have := h.mono e.pos r.seen hle; omega
        · omega
      · have := hb e he; omega
    · left; simp [before, hlt]
  · simp only [rrOK, List.all_eq_true, Bool.or_eq_true, Bool.not_eq_true', decide_eq_true_eq]
    intro r1 h1 r2 h2
    by_cases hlt : r1.resp < r2.inv
    · right
      by_cases hs : 1 ≤ r1.seen
      · have a2 := h.readApplied r1 h1 hs
        exact h.readIndex r2 h2 r1.seen hs (h.readWF r1 h1).2 (by omega)
      · omega
    · left; simp [before, hlt]

/-- non-vacuity and a test of the definitions: two clients, a put that is still in flight when a
linearizable read starts (the read may or may not see it; here it does), a second put after the read
returned (the read must not see it).  The check passes, and the same history with the read claiming to
have seen the later put does not. -/
example :
    let w1 : WEntry Entry Result := { pos := 1, cmd := ⟨1, none, .put [97] ⟨#[1]⟩ false⟩, inv := 0, resp := some 10, out := ⟨0, none⟩ }
    let w2 : WEntry Entry Result := { pos := 2, cmd := ⟨2, none, .put [98] ⟨#[2]⟩ false⟩, inv := 20, resp := some 30, out := ⟨0, none⟩ }
    let r (seen : Nat) : ROp ReadReq ReadResp := { req := .range { key := [97] }, inv := 5, resp := 15, seen := seen, out := .range {} }
    checkHistory [w1, w2] [r 1] = true ∧ checkHistory [w1, w2] [r 0] = true ∧ checkHistory [w1, w2] [r 2] = false := by
  decide

end Regatta.Props.C10History

namespace Regatta.Props.C10History
open Regatta Regatta.Fsm Regatta.Refine Regatta.History

/-! ### non-vacuity of `c10_history_linearizable`: a concrete concurrent history meets every hypothesis -/

def demoE1 : Entry := ⟨1, none, .put [97] ⟨#[1]⟩ false⟩
def demoE2 : Entry := ⟨2, none, .put [97] ⟨#[2]⟩ true⟩
def demoOut1 : Result := (Spec.applyEntry (absT []) demoE1).2
def demoOut2 : Result := (Spec.applyEntry (Spec.applyEntry (absT []) demoE1).1 demoE2).2

/-- client A puts `a` (time 0 … 10), client B overwrites it (20 … 30); client C reads `a` linearizably
from time 5 to 25 - overlapping both - and is answered by a replica that had applied one entry -/
def demoLog : List (WEntry Entry Result) :=
  [{ pos := 1, cmd := demoE1, inv := 0, resp := some 10, out := demoOut1 },
   { pos := 2, cmd := demoE2, inv := 20, resp := some 30, out := demoOut2 }]

def demoRead : ROp ReadReq ReadResp :=
  { req := .range { key := [97] }, inv := 5, resp := 25, seen := 1,
    out := tableSpec.read (Spec.applyLog (absT []) [demoE1]).1 (.range { key := [97] }) }

theorem demoWF : ∀ e ∈ [demoE1, demoE2], EntryWF e := by
  intro e he
  simp only [List.mem_cons, List.not_mem_nil, or_false] at he
  rcases he with rfl | rfl <;> refine ⟨?_, by decide, by intro li h; cases h⟩ <;> simp [demoE1, demoE2, CmdWF]

example : Linearizable tableSpec (absT []) demoLog [demoRead] := by
  refine c10_history_linearizable demoLog [demoRead] ?_ ?_ ?_ ?_ (by decide)
  · intro e he
    simp only [demoLog, List.mem_cons, List.not_mem_nil, or_false] at he
    rcases he with rfl | rfl
    · exact demoWF demoE1 (by simp)
    · exact demoWF demoE2 (by simp)
  · intro r hr
    simp only [List.mem_cons, List.not_mem_nil, or_false] at hr
    subst hr
    simp [demoRead, ReadWF]
  · right
    obtain ⟨db, n, h, _, _⟩ := update_refines [] wf_nil [demoE1, demoE2] (by simp) demoWF
    exact ⟨db, n, h⟩
  · intro r hr
    simp only [List.mem_cons, List.not_mem_nil, or_false] at hr
    subst hr
    obtain ⟨db, hf, hw, ha⟩ := Regatta.Props.C01.c01_history_refines [[demoE1]]
      (by intro b hb; simp only [List.mem_cons, List.not_mem_nil, or_false] at hb; subst hb
          exact ⟨by simp, fun e he => demoWF e (by simp only [List.mem_cons, List.not_mem_nil, or_false] at he; simp [he])⟩)
      [] wf_nil
    refine ⟨db, ⟨[[demoE1]], by simp, by simp [demoRead, demoLog], hf⟩, ?_⟩
    rw [fsmRead_refines db hw _ (by simp [demoRead, ReadWF]), ha]
    rfl

end Regatta.Props.C10History

namespace Regatta.Props.C10History
open Regatta Regatta.Fsm Regatta.Refine Regatta.History

/-- **a default (serializable) read reflects some prefix of the log and never a state that did not
exist**: whatever replica answers it, having applied the first `seen` entries in whatever batches,
the answer is the sorted map's on the table after exactly those entries -/
theorem c10_default_read_is_a_prefix_state (cmds : List Entry) (hes : ∀ e ∈ cmds, EntryWF e)
    (q : ReadReq) (hq : ReadWF q) (seen : Nat) (db : Db) (hrep : ReplicaAt cmds seen db) :
    fsmRead db q = .ok (tableSpec.read (Spec.applyLog (absT []) (cmds.take seen)).1 q) := by
  obtain ⟨batches, hne, hflat, hfold⟩ := hrep
  have hb : ∀ b ∈ batches, b ≠ [] ∧ ∀ e ∈ b, EntryWF e := by
    intro b hbm
    refine ⟨hne b hbm, fun e he => hes e ?_⟩
    have : e ∈ batches.flatten := List.mem_flatten.mpr ⟨b, hbm, he⟩
    rw [hflat] at this
    exact List.mem_of_mem_take this
  obtain ⟨db', hf', hw', ha'⟩ := Regatta.Props.C01.c01_history_refines batches hb [] wf_nil
  rw [hfold] at hf'
  injection hf' with hf'; subst hf'
  rw [fsmRead_refines db hw' q hq, ha', hflat]

end Regatta.Props.C10History
