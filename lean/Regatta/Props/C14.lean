import Regatta.Proofs.MetaCat
/-
  C14 — Table catalogue: unique names, never-reused ids, empty when (re)created.

  `World.step` on `Call.createStart … createSetRec`, `deleteStart / deleteDel` transcribes
  Manager.createTable (validTableName, Exists, incAndGetIDSeq = Get + Set-with-read-version,
  setTableVersion(tab, 0)) and Manager.DeleteTable as sequences of single metadata-store calls;
  `System.run` is any interleaving of such calls of any number of managers.  `World.issued` is a
  ghost history of the ids the sequence handed out (Restore takes its recover id from the same
  `incAndGetIDSeq`, so it is covered by the same argument).  `diffTables` is transcribed literally.
-/
namespace Regatta.Props.C14
open Regatta.Meta

/-- the sequence invariant holds in every reachable state, for every interleaving -/
theorem c14_invariant (evs : List Ev) : SeqInv (System.run {} evs) := seqInv_run evs {} seqInv_init

/-- **ids are never reused**: in every reachable state the ids handed out so far are strictly
increasing in the order they were handed out, and all lie beyond the reserved range — whatever
creations, deletions, re-creations and lease traffic were interleaved -/
theorem c14_ids_increasing (evs : List Ev) :
    (System.run {} evs).w.issued.Pairwise (· < ·) ∧ ∀ i ∈ (System.run {} evs).w.issued, tableIDsRangeStart < i :=
  ⟨(c14_invariant evs).inc, (c14_invariant evs).gt⟩

/-- … and at the moment an id is handed out it is greater than every id assigned before: when the
sequence write of a pending creation succeeds, the id it returns exceeds all ids in the history -/
theorem c14_fresh_id (evs : List Ev) (id : Nat) (name : String) (cur ver : Nat)
    (hmem : (id, Call.createSetSeq name cur ver) ∈ (System.run {} evs).calls) (newId : Nat)
    (hok : ((System.run {} evs).w.step (.createSetSeq name cur ver)).2 = .createSetRec name newId) :
    ∀ i ∈ (System.run {} evs).w.issued, i < newId := by
  have hinv := c14_invariant evs
  generalize System.run {} evs = s at *
  obtain ⟨_, _, h3, h4⟩ : SeqOK s.w (.createSetSeq name cur ver) := hinv.calls _ hmem
  rcases applyUpd_cases s.w.store s.w.index ⟨.set, sequenceKey, .seq (cur + 1), ver⟩ with ⟨he, hv⟩ | ⟨p, _, _, he⟩
  · have hcur : curSeq s.w = cur := by
      unfold curSeq
      cases hg : s.w.store.get? sequenceKey with
      | none => simp only; exact (h4 hg).symm
      | some p =>
        have hpv := h3 p hg (hv p hg)
        obtain ⟨k, v, vr⟩ := p
        simp only at hpv; subst hpv; rfl
    simp only [World.step, World.propose, he, applyOp] at hok
    injection hok with _ hid
    intro i hi
    have := hinv.le i hi
    omega
  · simp only [World.step, World.propose, he] at hok
    cases hok

/-- the key layout and limits the catalogue model uses are the current source's (constants
regenerated on every run) -/
theorem c14_constants_match_source :
    keyPrefix = Regatta.Extracted.metaKeyPrefix ∧ sequenceKey = Regatta.Extracted.metaSequenceKey ∧
    tableIDsRangeStart = Regatta.Extracted.tableIDsRangeStart ∧ Regatta.Extracted.maxTableNameLen = 200 :=
  ⟨rfl, rfl, rfl, rfl⟩

/-! ### table content by shard id: a new table is empty, tables are isolated

Each table's data lives in a Pebble directory and a Raft shard keyed by the table's id
(`<name>-<id>` under the state machine directory, shard id = id; storage/table/manager.go startTable,
fsm.New).  Content is therefore a function of the id, and an id that was never handed out has never
been written. -/

/-- content of every shard id -/
abbrev ShardData := Nat → List (List UInt8 × List UInt8)

/-- an operation on the table with shard id `id` -/
def ShardData.write (d : ShardData) (id : Nat) (f : List (List UInt8 × List UInt8) → List (List UInt8 × List UInt8)) :
    ShardData := fun i => if i = id then f (d i) else d i

/-- ids never handed out hold nothing -/
def Untouched (d : ShardData) (issued : List Nat) : Prop := ∀ i, i ∉ issued → d i = []

/-- operations on tables that exist (their ids were handed out) keep never-issued ids empty -/
theorem c14_untouched_preserved (d : ShardData) (issued : List Nat) (h : Untouched d issued) (id : Nat)
    (hid : id ∈ issued) (f : List (List UInt8 × List UInt8) → List (List UInt8 × List UInt8)) :
    Untouched (d.write id f) issued := by
  intro i hi
  have : i ≠ id := fun e => hi (e ▸ hid)
  simp [ShardData.write, this, h i hi]

/-- **a newly created table is empty — also one recreated under a previously used name, also a
restored one's recovery shard**: the id a creation (or `Restore`, which draws from the same sequence)
receives is greater than every id handed out before (`c14_fresh_id`), hence was never handed out,
hence holds nothing; the old incarnation's data sits under the old id -/
theorem c14_new_table_empty (evs : List Ev) (id : Nat) (name : String) (cur ver : Nat)
    (hmem : (id, Call.createSetSeq name cur ver) ∈ (System.run {} evs).calls) (newId : Nat)
    (hok : ((System.run {} evs).w.step (.createSetSeq name cur ver)).2 = .createSetRec name newId)
    (d : ShardData) (hd : Untouched d (System.run {} evs).w.issued) : d newId = [] := by
  apply hd
  intro hin
  have := c14_fresh_id evs id name cur ver hmem newId hok newId hin
  omega

/-- **operations on one table never change the content of another** -/
theorem c14_tables_isolated (d : ShardData) (a b : Nat) (hab : a ≠ b)
    (f : List (List UInt8 × List UInt8) → List (List UInt8 × List UInt8)) : (d.write a f) b = d b := by
  simp [ShardData.write, Ne.symm hab]

/-- **creation succeeds only if no table of that name exists** at the moment of its record write:
on an existing record the write (version 0) is refused as "table exists" and changes nothing — this
is also what decides races: of several creations of one name, every one whose write comes after
another's successful write fails -/
theorem c14_create_only_if_absent (w : World) (hw : WInv w) (name : String) (id : Nat) (p : Pair CVal)
    (hex : w.store.get? (tableKey name) = some p) :
    (w.step (.createSetRec name id)).2 = .doneErr .tableExists ∧ (w.step (.createSetRec name id)).1.store = w.store := by
  have hp : p.ver ≠ 0 := by have := hw.pos p (get?_mem _ _ _ hex); omega
  simp only [World.step, World.propose]
  rw [(applyUpd_existing w.store w.index ⟨.set, tableKey name, .table ⟨name, id, 0⟩, 0⟩ p hex).1 hp]
  exact ⟨rfl, rfl⟩

/-- … and when it is absent the write succeeds and creates exactly that record -/
theorem c14_create_if_absent (w : World) (name : String) (id : Nat) (hab : w.store.get? (tableKey name) = none) :
    (w.step (.createSetRec name id)).2 = .doneTable ⟨name, id, 0⟩ ∧
    (w.step (.createSetRec name id)).1.store.get? (tableKey name) = some ⟨tableKey name, .table ⟨name, id, 0⟩, w.index⟩ := by
  simp only [World.step, World.propose]
  rw [(applyUpd_absent w.store w.index ⟨.set, tableKey name, .table ⟨name, id, 0⟩, 0⟩ hab).1 rfl]
  exact ⟨rfl, get?_put_same _ _⟩

/-- the existence check at the start refuses an existing or invalid name without any write -/
theorem c14_create_start (w : World) (name : String) :
    (validTableName name = false → w.step (.createStart name) = (w, .doneErr .invalidName)) ∧
    (validTableName name = true → (w.store.get? (tableKey name)).isSome = true →
      w.step (.createStart name) = (w, .doneErr .tableExists)) := by
  constructor
  · intro h; simp [World.step, h]
  · intro h1 h2; simp [World.step, h1, h2]

/-- **deletion succeeds only if the table exists**, and removes exactly the record version it read -/
theorem c14_delete (w : World) (name : String) (hv : validTableName name = true) :
    (w.store.get? (tableKey name) = none → w.step (.deleteStart name) = (w, .doneErr .tableNotFound)) ∧
    (∀ p, w.store.get? (tableKey name) = some p →
      w.step (.deleteStart name) = (w, .deleteDel name p.ver) ∧
      (w.step (.deleteDel name p.ver)).2 = .doneOk ∧
      (w.step (.deleteDel name p.ver)).1.store.get? (tableKey name) = none) := by
  constructor
  · intro h; simp [World.step, hv, h]
  · intro p hp
    refine ⟨by simp [World.step, hv, hp], ?_, ?_⟩
    · simp only [World.step, World.propose]
      rw [(applyUpd_existing w.store w.index ⟨.delete, tableKey name, .none_, p.ver⟩ p hp).2.2 rfl rfl]
    · simp only [World.step, World.propose]
      rw [(applyUpd_existing w.store w.index ⟨.delete, tableKey name, .none_, p.ver⟩ p hp).2.2 rfl rfl]
      exact get?_erase_same _ _

/-- **listing reflects precisely the records**: a table is listed iff its record is stored under a
key the catalogue glob matches -/
theorem c14_tables_reflect (w : World) (t : Table) :
    t ∈ w.tables ↔ ∃ p ∈ w.store, p.value = .table t ∧ globMatch "/tables/*" p.key = true := by
  unfold World.tables
  simp only [List.mem_filterMap]
  constructor
  · rintro ⟨p, hp, h⟩
    refine ⟨p, hp, ?_⟩
    cases hv : p.value with
    | table t' =>
      simp only [hv] at h
      split at h
      · rename_i hg; injection h with h; subst h; exact ⟨rfl, hg⟩
      · cases h
    | lease l => simp [hv] at h
    | seq n => simp [hv] at h
    | none_ => simp [hv] at h
  · rintro ⟨p, hp, hv, hg⟩
    exact ⟨p, hp, by simp [hv, hg]⟩

/-- **reconciliation**: `toStart` is exactly the catalogued ids (cluster or recover id, non-zero)
beyond the reserved range that are not running; `toStop` exactly the running ids beyond the reserved
range that are not catalogued -/
theorem c14_diff (tables : List Table) (running : List Nat) (i : Nat) :
    (i ∈ (diffTables tables running).1 ↔
      (∃ t ∈ tables, (t.clusterID = i ∨ t.recoverID = i)) ∧ i ≠ 0 ∧ i ∉ running ∧ tableIDsRangeStart < i) ∧
    (i ∈ (diffTables tables running).2 ↔
      i ∈ running ∧ ¬ ((∃ t ∈ tables, (t.clusterID = i ∨ t.recoverID = i)) ∧ i ≠ 0) ∧ tableIDsRangeStart < i) := by
  unfold diffTables
  simp only [List.mem_eraseDups, List.mem_filter, List.mem_append, List.mem_map, Bool.and_eq_true,
    Bool.not_eq_true', decide_eq_true_eq, List.contains_eq_mem, decide_eq_false_iff_not]
  constructor
  · constructor
    · rintro ⟨⟨h1, h2⟩, h3, h4⟩
      refine ⟨?_, h2, h3, h4⟩
      rcases h1 with ⟨t, ht, rfl⟩ | ⟨t, ht, rfl⟩
      · exact ⟨t, ht, Or.inl rfl⟩
      · exact ⟨t, ht, Or.inr rfl⟩
    · rintro ⟨⟨t, ht, h1⟩, h2, h3, h4⟩
      refine ⟨⟨?_, h2⟩, h3, h4⟩
      rcases h1 with rfl | rfl
      · exact Or.inl ⟨t, ht, rfl⟩
      · exact Or.inr ⟨t, ht, rfl⟩
  · constructor
    · rintro ⟨h1, h2, h3⟩
      refine ⟨h1, ?_, h3⟩
      rintro ⟨⟨t, ht, h4⟩, h5⟩
      apply h2
      refine ⟨?_, h5⟩
      rcases h4 with rfl | rfl
      · exact Or.inl ⟨t, ht, rfl⟩
      · exact Or.inr ⟨t, ht, rfl⟩
    · rintro ⟨h1, h2, h3⟩
      refine ⟨h1, ?_, h3⟩
      rintro ⟨h4, h5⟩
      apply h2
      refine ⟨?_, h5⟩
      rcases h4 with ⟨t, ht, rfl⟩ | ⟨t, ht, rfl⟩
      · exact ⟨t, ht, Or.inl rfl⟩
      · exact ⟨t, ht, Or.inr rfl⟩

/-- non-vacuity: two managers race to create table "a" (both pass the existence check, both get an
id), the second record write is refused; delete and re-create yields a larger id; the history is
10001, 10002, 10003 -/
example :
    let s := System.run {} [.start 1 (.createStart "a"), .start 2 (.createStart "a"), .sched 1, .sched 2,
      .sched 1, .sched 1, .sched 2, .sched 2, .sched 1, .sched 2,
      .start 3 (.deleteStart "a"), .sched 3, .sched 3, .start 4 (.createStart "a"), .sched 4, .sched 4, .sched 4, .sched 4]
    s.w.issued = [10001, 10002, 10003] ∧
    (s.calls.map (fun c => (c.1, match c.2 with
      | .doneTable t => t.clusterID | .doneErr .tableExists => 1 | .doneOk => 2 | _ => 0)))
      = [(4, 10003), (3, 2), (2, 1), (1, 10001)] := by decide

end Regatta.Props.C14
