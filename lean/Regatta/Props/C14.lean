import Regatta.Extracted.Facts
import Regatta.Proofs.MetaCat
/-
  C14 — Table catalogue: unique names, never-reused ids, empty when (re)created.

  `World.step` on `Call.createStart … createSetRec`, `deleteStart / deleteDel` transcribes
  Manager.createTable (validTableName, Exists, incAndGetIDSeq = Get + Set-with-read-version,
  setTableVersion(tab, 0)) and Manager.DeleteTable as sequences of single metadata-store calls;
  `System.run` is any interleaving of such calls of any number of managers.  `World.issued` is a
  ghost history of the ids the sequence handed out (Restore takes its recover id from the same
  `incAndGetIDSeq`, so it is covered by the same argument).  `diffTables` is transcribed literally.
-/
namespace Regatta.Props.C14
open Regatta.Meta

/-- the sequence invariant holds in every reachable state, for every interleaving -/
theorem c14_invariant (evs : List Ev) : SeqInv (System.run {} evs) := seqInv_run evs {} seqInv_init

/-- **ids are never reused**: in every reachable state the ids handed out so far are strictly
increasing in the order they were handed out, and all lie beyond the reserved range — whatever
creations, deletions, re-creations, restores and lease traffic were interleaved -/
theorem c14_ids_increasing (evs : List Ev) :
    (System.run {} evs).w.issued.Pairwise (· < ·) ∧ ∀ i ∈ (System.run {} evs).w.issued, tableIDsRangeStart < i :=
  ⟨(c14_invariant evs).inc, (c14_invariant evs).gt⟩

/-- … and at the moment an id is handed out it is greater than every id assigned before: when the
sequence write of a pending creation or restore succeeds (`k` says which), the id it returns exceeds all ids in the history -/
theorem c14_fresh_id (evs : List Ev) (id : Nat) (name : String) (cur ver : Nat) (k : Purpose)
    (hmem : (id, Call.createSetSeq name cur ver k) ∈ (System.run {} evs).calls) (newId : Nat)
    (hok : ((System.run {} evs).w.step (.createSetSeq name cur ver k)).2 = afterSeq name newId k) :
    ∀ i ∈ (System.run {} evs).w.issued, i < newId := by
  have hinv := c14_invariant evs
  generalize System.run {} evs = s at *
  obtain ⟨_, _, h3, h4⟩ : SeqOK s.w (.createSetSeq name cur ver k) := hinv.calls _ hmem
  rcases applyUpd_cases s.w.store s.w.index ⟨.set, sequenceKey, .seq (cur + 1), ver⟩ with ⟨he, hv⟩ | ⟨p, _, _, he⟩
  · have hcur : curSeq s.w = cur := by
      unfold curSeq
      cases hg : s.w.store.get? sequenceKey with
      | none => simp only; exact (h4 hg).symm
      | some p =>
        have hpv := h3 p hg (hv p hg)
        obtain ⟨k, v, vr⟩ := p
        simp only at hpv; subst hpv; rfl
    simp only [World.step, World.propose, he, applyOp] at hok
    have hid : cur + 1 = newId := by
      cases k with
      | create => simp only [afterSeq] at hok; injection hok
      | restore t v => simp only [afterSeq] at hok; injection hok
    intro i hi
    have := hinv.le i hi
    omega
  · simp only [World.step, World.propose, he] at hok
    cases k <;> simp [afterSeq] at hok

/-- the key layout and limits the catalogue model uses are the current source's (constants
regenerated on every run) -/
theorem c14_constants_match_source :
    keyPrefix = Regatta.Extracted.metaKeyPrefix ∧ sequenceKey = Regatta.Extracted.metaSequenceKey ∧
    tableIDsRangeStart = Regatta.Extracted.tableIDsRangeStart ∧ Regatta.Extracted.maxTableNameLen = 200 :=
  ⟨rfl, rfl, rfl, rfl⟩

/-! ### table content by shard id: a new table is empty, tables are isolated

Each table's data lives in a Pebble directory and a Raft shard keyed by the table's id
(`<name>-<id>` under the state machine directory, shard id = id; storage/table/manager.go startTable,
fsm.New).  Content is therefore a function of the id, and an id that was never handed out has never
been written. -/

/-- content of every shard id -/
abbrev ShardData := Nat → List (List UInt8 × List UInt8)

/-- an operation on the table with shard id `id` -/
def ShardData.write (d : ShardData) (id : Nat) (f : List (List UInt8 × List UInt8) → List (List UInt8 × List UInt8)) :
    ShardData := fun i => if i = id then f (d i) else d i

/-- ids never handed out hold nothing -/
def Untouched (d : ShardData) (issued : List Nat) : Prop := ∀ i, i ∉ issued → d i = []

/-- operations on tables that exist (their ids were handed out) keep never-issued ids empty -/
theorem c14_untouched_preserved (d : ShardData) (issued : List Nat) (h : Untouched d issued) (id : Nat)
    (hid : id ∈ issued) (f : List (List UInt8 × List UInt8) → List (List UInt8 × List UInt8)) :
    Untouched (d.write id f) issued := by
  intro i hi
  have : i ≠ id := fun e => hi (e ▸ hid)
  simp [ShardData.write, this, h i hi]

/-- **a newly created table is empty — also one recreated under a previously used name, also a
restored one's recovery shard**: the id a creation (or `Restore`, which draws from the same sequence)
receives is greater than every id handed out before (`c14_fresh_id`), hence was never handed out,
hence holds nothing; the old incarnation's data sits under the old id -/
theorem c14_new_table_empty (evs : List Ev) (id : Nat) (name : String) (cur ver : Nat) (k : Purpose)
    (hmem : (id, Call.createSetSeq name cur ver k) ∈ (System.run {} evs).calls) (newId : Nat)
    (hok : ((System.run {} evs).w.step (.createSetSeq name cur ver k)).2 = afterSeq name newId k)
    (d : ShardData) (hd : Untouched d (System.run {} evs).w.issued) : d newId = [] := by
  apply hd
  intro hin
  have := c14_fresh_id evs id name cur ver k hmem newId hok newId hin
  omega

/-- **operations on one table never change the content of another** -/
theorem c14_tables_isolated (d : ShardData) (a b : Nat) (hab : a ≠ b)
    (f : List (List UInt8 × List UInt8) → List (List UInt8 × List UInt8)) : (d.write a f) b = d b := by
  simp [ShardData.write, Ne.symm hab]

/-- **creation succeeds only if no table of that name exists** at the moment of its record write:
on an existing record the write (version 0) is refused as "table exists" and changes nothing — this
is also what decides races: of several creations of one name, every one whose write comes after
another's successful write fails -/
theorem c14_create_only_if_absent (w : World) (hw : WInv w) (name : String) (id : Nat) (p : Pair CVal)
    (hex : w.store.get? (tableKey name) = some p) :
    (w.step (.createSetRec name id)).2 = .doneErr .tableExists ∧ (w.step (.createSetRec name id)).1.store = w.store := by
  have hp : p.ver ≠ 0 := by have := hw.pos p (get?_mem _ _ _ hex); omega
  simp only [World.step, World.propose]
  rw [(applyUpd_existing w.store w.index ⟨.set, tableKey name, .table ⟨name, id, 0⟩, 0⟩ p hex).1 hp]
  exact ⟨rfl, rfl⟩

/-- … and when it is absent the write succeeds and creates exactly that record -/
theorem c14_create_if_absent (w : World) (name : String) (id : Nat) (hab : w.store.get? (tableKey name) = none) :
    (w.step (.createSetRec name id)).2 = .doneTable ⟨name, id, 0⟩ ∧
    (w.step (.createSetRec name id)).1.store.get? (tableKey name) = some ⟨tableKey name, .table ⟨name, id, 0⟩, w.index⟩ := by
  simp only [World.step, World.propose]
  rw [(applyUpd_absent w.store w.index ⟨.set, tableKey name, .table ⟨name, id, 0⟩, 0⟩ hab).1 rfl]
  exact ⟨rfl, get?_put_same _ _⟩

/-- the existence check at the start refuses an existing or invalid name without any write -/
theorem c14_create_start (w : World) (name : String) :
    (validTableName name = false → w.step (.createStart name) = (w, .doneErr .invalidName)) ∧
    (validTableName name = true → (w.store.get? (tableKey name)).isSome = true →
      w.step (.createStart name) = (w, .doneErr .tableExists)) := by
  constructor
  · intro h; simp [World.step, h]
  · intro h1 h2; simp [World.step, h1, h2]

/-- **deletion succeeds only if the table exists**, and removes exactly the record version it read -/
theorem c14_delete (w : World) (name : String) (hv : validTableName name = true) :
    (w.store.get? (tableKey name) = none → w.step (.deleteStart name) = (w, .doneErr .tableNotFound)) ∧
    (∀ p, w.store.get? (tableKey name) = some p →
      w.step (.deleteStart name) = (w, .deleteDel name p.ver) ∧
      (w.step (.deleteDel name p.ver)).2 = .doneOk ∧
      (w.step (.deleteDel name p.ver)).1.store.get? (tableKey name) = none) := by
  constructor
  · intro h; simp [World.step, hv, h]
  · intro p hp
    refine ⟨by simp [World.step, hv, hp], ?_, ?_⟩
    · simp only [World.step, World.propose]
      rw [(applyUpd_existing w.store w.index ⟨.delete, tableKey name, .none_, p.ver⟩ p hp).2.2 rfl rfl]
    · simp only [World.step, World.propose]
      rw [(applyUpd_existing w.store w.index ⟨.delete, tableKey name, .none_, p.ver⟩ p hp).2.2 rfl rfl]
      exact get?_erase_same _ _

/-- **listing reflects precisely the records**: a table is listed iff its record is stored under a
key the catalogue glob matches -/
theorem c14_tables_reflect (w : World) (t : Table) :
    t ∈ w.tables ↔ ∃ p ∈ w.store, p.value = .table t ∧ globMatch "/tables/*" p.key = true := by
  unfold World.tables
  simp only [List.mem_filterMap]
  constructor
  · rintro ⟨p, hp, h⟩
    refine ⟨p, hp, ?_⟩
    cases hv : p.value with
    | table t' =>
      simp only [hv] at h
      split at h
      · rename_i hg; injection h with h; subst h; exact ⟨rfl, hg⟩
      · cases h
    | lease l => simp [hv] at h
    | seq n => simp [hv] at h
    | none_ => simp [hv] at h
  · rintro ⟨p, hp, hv, hg⟩
    exact ⟨p, hp, by simp [hv, hg]⟩

/-- **reconciliation**: `toStart` is exactly the catalogued ids (cluster or recover id, non-zero)
beyond the reserved range that are not running; `toStop` exactly the running ids beyond the reserved
range that are not catalogued -/
theorem c14_diff (tables : List Table) (running : List Nat) (i : Nat) :
    (i ∈ (diffTables tables running).1 ↔
      (∃ t ∈ tables, (t.clusterID = i ∨ t.recoverID = i)) ∧ i ≠ 0 ∧ i ∉ running ∧ tableIDsRangeStart < i) ∧
    (i ∈ (diffTables tables running).2 ↔
      i ∈ running ∧ ¬ ((∃ t ∈ tables, (t.clusterID = i ∨ t.recoverID = i)) ∧ i ≠ 0) ∧ tableIDsRangeStart < i) := by
  unfold diffTables
  simp only [List.mem_eraseDups, List.mem_filter, List.mem_append, List.mem_map, Bool.and_eq_true,
    Bool.not_eq_true', decide_eq_true_eq, List.contains_eq_mem, decide_eq_false_iff_not]
  constructor
  · constructor
    · rintro ⟨⟨h1, h2⟩, h3, h4⟩
      refine ⟨?_, h2, h3, h4⟩
      rcases h1 with ⟨t, ht, rfl⟩ | ⟨t, ht, rfl⟩
      · exact ⟨t, ht, Or.inl rfl⟩
      · exact ⟨t, ht, Or.inr rfl⟩
    · rintro ⟨⟨t, ht, h1⟩, h2, h3, h4⟩
      refine ⟨⟨?_, h2⟩, h3, h4⟩
      rcases h1 with rfl | rfl
      · exact Or.inl ⟨t, ht, rfl⟩
      · exact Or.inr ⟨t, ht, rfl⟩
  · constructor
    · rintro ⟨h1, h2, h3⟩
      refine ⟨h1, ?_, h3⟩
      rintro ⟨⟨t, ht, h4⟩, h5⟩
      apply h2
      refine ⟨?_, h5⟩
      rcases h4 with rfl | rfl
      · exact Or.inl ⟨t, ht, rfl⟩
      · exact Or.inr ⟨t, ht, rfl⟩
    · rintro ⟨h1, h2, h3⟩
      refine ⟨h1, ?_, h3⟩
      rintro ⟨h4, h5⟩
      apply h2
      refine ⟨?_, h5⟩
      rcases h4 with ⟨t, ht, rfl⟩ | ⟨t, ht, rfl⟩
      · exact ⟨t, ht, Or.inl rfl⟩
      · exact ⟨t, ht, Or.inr rfl⟩

/-- non-vacuity: two managers race to create table "a" (both pass the existence check, both get an
id), the second record write is refused; delete and re-create yields a larger id; the history is
the first three ids beyond the reserved range -/
example :
    let s := System.run {} [.start 1 (.createStart "a"), .start 2 (.createStart "a"), .sched 1, .sched 2,
      .sched 1, .sched 1, .sched 2, .sched 2, .sched 1, .sched 2,
      .start 3 (.deleteStart "a"), .sched 3, .sched 3, .start 4 (.createStart "a"), .sched 4, .sched 4, .sched 4, .sched 4]
    s.w.issued = [tableIDsRangeStart + 1, tableIDsRangeStart + 2, tableIDsRangeStart + 3] ∧
    (s.calls.map (fun c => (c.1, match c.2 with
      | .doneTable t => t.clusterID | .doneErr .tableExists => 1 | .doneOk => 2 | _ => 0)))
      = [(4, tableIDsRangeStart + 3), (3, 2), (2, 1), (1, tableIDsRangeStart + 1)] := by decide +kernel

end Regatta.Props.C14

namespace Regatta.Props.C14
open Regatta.Meta

/-! ### Restore: the store calls of `Manager.Restore` (storage/table/manager.go)

`getTableVersion` (a missing record is not an error), `incAndGetIDSeq` (the same two store calls as
for a creation: `c14_fresh_id` / `c14_new_table_empty` are stated for both purposes), then the record
is marked with the recovery shard, the stream is loaded into that shard (no store call), the record
is read again and switched to the recovery shard.  The shape of the function in the current source
is a regenerated fact (`c14_restore_shape_matches_source`). -/

/-- an invalid name is refused before any store call; otherwise the id sequence is asked, with the
record that was read - or the zero record at version 0 when there is none - kept for later -/
theorem c14_restore_start (w : World) (name : String) :
    (validTableName name = false → w.step (.restoreStart name) = (w, .doneErr .invalidName)) ∧
    (validTableName name = true → w.store.get? (tableKey name) = none →
      w.step (.restoreStart name) = (w, .createGetSeq name (.restore ⟨"", 0, 0⟩ 0))) ∧
    (validTableName name = true → ∀ k t ver, w.store.get? (tableKey name) = some ⟨k, .table t, ver⟩ →
      w.step (.restoreStart name) = (w, .createGetSeq name (.restore t ver))) := by
  refine ⟨fun h => ?_, fun h hn => ?_, fun h k t ver hs => ?_⟩ <;> simp [World.step, *]

/-- **while the stream is loaded the table keeps serving from its old shard**: the first record write
of a restore keeps the cluster id that was read and only adds the recovery shard; it is a compare-and-set
on the version read at the start, so a record that changed in between (another restore's mark, a
deletion and re-creation) refuses it and nothing is written -/
theorem c14_restore_mark (w : World) (name : String) (tbl : Table) (tver id : Nat) :
    (∀ cur, w.store.get? (tableKey name) = some cur → cur.ver ≠ tver →
      (w.step (.restoreMark name tbl tver id)).2 = .doneErr .versionMismatch ∧
      (w.step (.restoreMark name tbl tver id)).1.store = w.store) ∧
    ((∀ cur, w.store.get? (tableKey name) = some cur → cur.ver = tver) →
      (w.step (.restoreMark name tbl tver id)).2 = .restoreReread name id ∧
      (w.step (.restoreMark name tbl tver id)).1.store.get? (tableKey name) =
        some ⟨tableKey name, .table ⟨name, tbl.clusterID, id⟩, w.index⟩) := by
  constructor
  · intro cur hc hne
    simp only [World.step, World.propose]
    rw [(applyUpd_existing w.store w.index ⟨.set, tableKey name, .table ⟨name, tbl.clusterID, id⟩, tver⟩ cur hc).1 hne]
    exact ⟨rfl, rfl⟩
  · intro hv
    simp only [World.step, World.propose]
    cases hg : w.store.get? (tableKey name) with
    | none =>
      rw [(applyUpd_absent w.store w.index ⟨.set, tableKey name, .table ⟨name, tbl.clusterID, id⟩, tver⟩ hg).1 rfl]
      exact ⟨rfl, get?_put_same _ _⟩
    | some cur =>
      rw [(applyUpd_existing w.store w.index ⟨.set, tableKey name, .table ⟨name, tbl.clusterID, id⟩, tver⟩ cur hg).2.1
        (hv cur hg) rfl]
      exact ⟨rfl, get?_put_same _ _⟩

/-- **a restore that completes has switched the table to ITS OWN shard**: the final record write
names the id this call drew from the sequence - not whatever recovery shard the record carries by
then (a second, overlapping restore may have marked the record with its shard in the meantime) - and
clears the recovery id; it too is a compare-and-set on the version just read -/
theorem c14_restore_switch (w : World) (name : String) (id : Nat) (tbl : Table) (ver : Nat) (cur : Pair CVal)
    (hc : w.store.get? (tableKey name) = some cur) :
    (cur.ver = ver →
      (w.step (.restoreSwitch name id tbl ver)).2 = .doneOk ∧
      (w.step (.restoreSwitch name id tbl ver)).1.store.get? (tableKey name) =
        some ⟨tableKey name, .table ⟨tbl.name, id, 0⟩, w.index⟩) ∧
    (cur.ver ≠ ver →
      (w.step (.restoreSwitch name id tbl ver)).2 = .doneErr .versionMismatch ∧
      (w.step (.restoreSwitch name id tbl ver)).1.store = w.store) := by
  constructor
  · intro hv
    simp only [World.step, World.propose]
    rw [(applyUpd_existing w.store w.index ⟨.set, tableKey name, .table ⟨tbl.name, id, 0⟩, ver⟩ cur hc).2.1 hv rfl]
    exact ⟨rfl, get?_put_same _ _⟩
  · intro hne
    simp only [World.step, World.propose]
    rw [(applyUpd_existing w.store w.index ⟨.set, tableKey name, .table ⟨tbl.name, id, 0⟩, ver⟩ cur hc).1 hne]
    exact ⟨rfl, rfl⟩

/-- the record of a table, as the catalogue shows it -/
def recordOf (s : System) (name : String) : Option Table :=
  match s.w.store.get? (tableKey name) with
  | some ⟨_, .table t, _⟩ => some t
  | _ => none

/-- a restore on its own: of a table that exists (created first) - the table moves from its shard to a
fresh one; of a name that does not exist - the table comes into being on a fresh shard -/
example :
    let s := System.run {} [.start 1 (.createStart "t"), .sched 1, .sched 1, .sched 1, .sched 1,
      .start 2 (.restoreStart "t"), .sched 2, .sched 2, .sched 2, .sched 2, .sched 2, .sched 2,
      .start 3 (.restoreStart "u"), .sched 3, .sched 3, .sched 3, .sched 3, .sched 3, .sched 3]
    recordOf s "t" = some ⟨"t", tableIDsRangeStart + 2, 0⟩ ∧ recordOf s "u" = some ⟨"u", tableIDsRangeStart + 3, 0⟩ ∧
    s.w.issued = [tableIDsRangeStart + 1, tableIDsRangeStart + 2, tableIDsRangeStart + 3] ∧
    (s.calls.map (·.2.isDone)).all id = true := by
  decide +kernel

/-- **two overlapping restores of one table**: the second starts after the first has marked the
record and is itself still loading when the first completes - the first leaves the table on the
first's shard (while the record shows the second's recovery shard being loaded), the second then
moves it to the second's shard; both return without error.  (With `ClusterID := record's RecoverID`
instead of the call's own id - seeded change C07-c - the first would have put the table on the
second's half-loaded shard.) -/
example :
    let pre := [Ev.start 1 (.createStart "t"), .sched 1, .sched 1, .sched 1, .sched 1,
      .start 2 (.restoreStart "t"), .sched 2, .sched 2, .sched 2, .sched 2,     -- first: marked, loading
      .start 3 (.restoreStart "t"), .sched 3, .sched 3, .sched 3, .sched 3]      -- second: marked, loading
    let mid := System.run {} (pre ++ [.sched 2, .sched 2])                        -- first: re-read, switch
    let fin := System.run {} (pre ++ [.sched 2, .sched 2, .sched 3, .sched 3])    -- second: re-read, switch
    recordOf mid "t" = some ⟨"t", tableIDsRangeStart + 2, 0⟩ ∧
    recordOf fin "t" = some ⟨"t", tableIDsRangeStart + 3, 0⟩ ∧
    (fin.calls.map (·.2)).all (fun c => match c with | .doneOk | .doneTable _ => true | _ => false) = true := by
  decide +kernel

end Regatta.Props.C14

namespace Regatta.Props.C14

/-- **the restore steps of the model are those of the current source**: `Manager.Restore`, read with
go/parser on every run - its calls on the manager and its writes to the table record, in source
order, with the function's own identifiers renamed in order of declaration (x1 = the manager, x2 = name,
x3 = reader, x4 = tbl, x5 = version, x6 = err, x7 = recoveryID), so that the fact does not depend on names.  The model's calls transcribe them one by one: `restoreStart` = the name check and the first
`getTableVersion`; `createGetSeq` / `createSetSeq` (purpose `restore`) = `incAndGetIDSeq`;
`restoreMark` = `Name := name`, `RecoverID := recoveryID`, `setTableVersion(tbl, version)` (the shard
start before it and the wait and the load after it make no store call); `restoreReread` = the second
`getTableVersion`; `restoreSwitch` = `ClusterID := recoveryID` - the id this call drew, not the
record's -, `RecoverID := 0`, `setTableVersion(tbl, version)`. -/
theorem c14_restore_shape_matches_source :
    Regatta.Extracted.restoreShape =
      ["call validTableName(x2)",
       "x4,x5,x6 <- x1.getTableVersion(x2)",
       "x7,x6 <- x1.incAndGetIDSeq()",
       "set x4.Name = x2",
       "set x4.RecoverID = x7",
       "x6 <- x1.startTable(x4.Name, x4.RecoverID)",
       "x6 <- x1.setTableVersion(x4, x5)",
       "x6 <- x1.waitForLeader(x4.RecoverID)",
       "x6 <- x1.readIntoTable(x4.RecoverID, x3)",
       "x4,x5,x6 <- x1.getTableVersion(x2)",
       "set x4.ClusterID = x7",
       "set x4.RecoverID = 0",
       "x6 <- x1.setTableVersion(x4, x5)"] := by
  decide

end Regatta.Props.C14

namespace Regatta.Props.C14
open Regatta.Meta

/-- **while a restore loads, every node is asked to start its recovery shard**: once the record is
marked (`c14_restore_mark`), reconciliation on any node where shard `id` is not running lists `id`
among the shards to start - this is what gives the recovery shard its quorum when the restore was
asked of another node (seeded change C14-c started the table's serving shard a second time instead) -
and never lists it among the shards to stop.  (`hglob`: the catalogue glob matches the record's key - true of
every valid name, which contains no `/`; the listings of the catalog and catreal runs compare exactly this.) -/
theorem c14_recovery_shard_is_started (w : World) (name : String) (c id ver : Nat) (running : List Nat)
    (hrec : ⟨tableKey name, .table ⟨name, c, id⟩, ver⟩ ∈ w.store)
    (hglob : globMatch "/tables/*" (tableKey name) = true)
    (hid : tableIDsRangeStart < id) :
    (id ∉ running → id ∈ (diffTables w.tables running).1) ∧ id ∉ (diffTables w.tables running).2 := by
  have hmem : (⟨name, c, id⟩ : Table) ∈ w.tables :=
    (c14_tables_reflect w ⟨name, c, id⟩).mpr ⟨_, hrec, rfl, hglob⟩
  have hne : id ≠ 0 := by omega
  constructor
  · intro hnr
    exact ((c14_diff w.tables running id).1).mpr ⟨⟨_, hmem, Or.inr rfl⟩, hne, hnr, hid⟩
  · intro hstop
    have := ((c14_diff w.tables running id).2).mp hstop
    exact this.2.1 ⟨⟨_, hmem, Or.inr rfl⟩, hne⟩

end Regatta.Props.C14
