import Regatta.Model.ReadPath
import Regatta.Props.C10
/-
  C10, read paths — a read requested as linearizable, and every read-only transaction, reflects all
  writes acknowledged before it started even when served by a replica that lags; a default read
  reflects some prefix of the acknowledged writes.

  Tied to the code by mode `rpath`: the real table.ActiveTable (Range, Iterator, Txn, Put, Delete)
  over a stub Raft handler backed by two real state machines — one with everything committed
  applied, one that lags by a controlled amount; which of the two a request's answer reflects must be
  the model's.
-/
namespace Regatta.Props.C10Reads
open Regatta Regatta.Fsm Regatta.ReadPath

/-- **linearizable reads and read-only transactions see every acknowledged write**: a write is
acknowledged once committed (its revision `w` is a committed log position), so for every replica,
however far it lags, the state that answers the request is the state after at least `w` entries -/
theorem c10_linearizable_sees_acknowledged (rep : Replica) (r : Request)
    (h : ((r.kind = .range ∨ r.kind = .iterate) ∧ r.linearizable = true) ∨ r.readonlyTxn = true)
    (w : Nat) (hw : w ≤ rep.committed) : w ≤ observedAt rep (path r) := by
  have hp : path r = .consensusRead := by
    unfold path
    rcases h with ⟨hk | hk, hl⟩ | hro
    · simp [hk, hl]
    · simp [hk, hl]
    · have hk : r.kind = .txn := by
        unfold Request.readonlyTxn at hro
        cases hkk : r.kind <;> simp_all
      simp [hk, hro]
  rw [hp]; exact hw

/-- **the routing looks at nothing else**: key, range end, limit, keys-only and count-only of the
request play no part in the choice of the read path, so the statement above holds for every flag
variant of a read (C10-g regression: a linearizable count-only read answered locally) -/
theorem c10_path_ignores_range_fields (r : Request) (q : Option RangeReq) :
    path { r with range := q } = path r := by
  unfold path Request.readonlyTxn
  cases r.kind <;> rfl

theorem c10_linearizable_every_variant (rep : Replica) (q : RangeReq) (it : Bool)
    (w : Nat) (hw : w ≤ rep.committed) :
    w ≤ observedAt rep (path { kind := if it then .iterate else .range, linearizable := true, range := some q }) := by
  cases it <;> exact hw

/-- **every read-only transaction takes the consensus read**, with or without comparisons, whatever
its ranges ask for -/
theorem c10_readonly_txn_path (r : Request) (hk : r.kind = .txn) (hs : readonlyOps r.success = true)
    (hf : readonlyOps r.failure = true) : path r = .consensusRead := by
  simp [path, hk, Request.readonlyTxn, hs, hf]

/-- a transaction with any write goes through the log (and gets a revision: C10's first part) -/
theorem c10_write_txn_proposed (r : Request) (hk : r.kind = .txn)
    (hw : readonlyOps r.success = false ∨ readonlyOps r.failure = false) : path r = .proposal := by
  rcases hw with hw | hw <;> simp [path, hk, Request.readonlyTxn, hw]

/-- **a default (serializable) read reflects a prefix of the acknowledged writes**: it is answered
from the state after `applied ≤ committed` entries — a state that existed, never one ahead of what
is committed -/
theorem c10_serializable_prefix (rep : Replica) (r : Request) (hk : r.kind = .range ∨ r.kind = .iterate)
    (hl : r.linearizable = false) : observedAt rep (path r) = rep.applied ∧ rep.applied ≤ rep.committed := by
  refine ⟨?_, rep.lag⟩
  rcases hk with hk | hk <;> simp [path, hk, hl, observedAt]

/-- non-vacuity: a replica lagging by three entries; a range-only transaction without comparison
is answered at 10, a default range read at 7 -/
example :
    let rep : Replica := ⟨10, 7, by omega⟩
    observedAt rep (path { kind := .txn, success := [.range { key := [97] }], failure := [] }) = 10 ∧
    observedAt rep (path { kind := .range }) = 7 ∧
    observedAt rep (path { kind := .iterate, linearizable := true }) = 10 := by
  decide

end Regatta.Props.C10Reads

