import Regatta.Model.Repl
/-
  C05 — A follower table always equals the leader table at its recorded leader index.

  Model: `Regatta.Repl` on top of the table specification.  Tied to the code by mode `repl`: a real
  leader engine with its replication servers and a real follower engine with the real
  replication.Manager and workers; random leader histories (puts, range deletes, non-idempotent
  transactions) on several tables, message-size limits from 600 bytes, leader log compaction before
  the follower starts (snapshot recovery), follower restarts, tables created and deleted on the
  leader; the follower is sampled (index, content, index) all along and every sample must be the
  leader's content at an index between the two reads, indices never move backwards, after
  quiescence content and index are the leader's and the table sets agree.
-/
namespace Regatta.Props.C05
open Regatta Regatta.Fsm Regatta.Spec Regatta.Repl

/-- a SEQUENCE is its commands one after another -/
theorem stepSeq_foldl (m : UMap) (cmds : List Cmd) :
    (Spec.stepSeq m cmds).1 = cmds.foldl (fun m c => (Spec.step m c).1) m := by
  induction cmds generalizing m with
  | nil => simp [Spec.stepSeq]
  | cons c rest ih =>
    simp only [Spec.stepSeq, List.foldl_cons]
    exact ih _

theorem step_seq (m : UMap) (cmds : List Cmd) :
    (Spec.step m (.seq cmds)).1 = cmds.foldl (fun m c => (Spec.step m c).1) m := by
  simp only [Spec.step]
  exact stepSeq_foldl m cmds

theorem leaderAt_add (L : LLog) (i k : Nat) :
    leaderAt L (i + k) = ((L.drop i).take k).foldl (fun m c => (Spec.step m c).1) (leaderAt L i) := by
  unfold leaderAt
  rw [← List.foldl_append]
  congr 1
  rw [List.take_add]

/-- one proposal keeps the invariant and moves the index forward by exactly the commands it carries -/
theorem applySeq_inv (L : LLog) (f : Follower) (chunk : List Cmd) (h : Inv L f)
    (hc : chunk = (L.drop f.li).take chunk.length) (hl : f.li + chunk.length ≤ L.length) :
    Inv L (applySeq f chunk) := by
  refine ⟨?_, hl⟩
  show (Spec.step f.kv (.seq chunk)).1 = leaderAt L (f.li + chunk.length)
  rw [step_seq, leaderAt_add, ← hc, h.1]

/-- **a replication round, however the stream is cut into messages and proposals, and wherever it
stops**: if the worker's read of the leader index is fresh and the proposals, concatenated, are the
leader's commands right after that index (C06: the stream is exactly the requested range), then
after ALL of them — and, since every prefix of a list of proposals is again such a list, after ANY
prefix of them — the follower's content is the leader's at the new recorded index, which is the old
one plus the number of commands: each leader command took effect exactly once, in leader order -/
theorem c05_round (L : LLog) (f : Follower) (chunks : List (List Cmd)) (h : Inv L f)
    (hs : chunks.flatten = (L.drop f.li).take chunks.flatten.length)
    (hl : f.li + chunks.flatten.length ≤ L.length) :
    Inv L (proposeAll f chunks) ∧ (proposeAll f chunks).li = f.li + chunks.flatten.length := by
  induction chunks generalizing f with
  | nil => exact ⟨h, by simp [proposeAll]⟩
  | cons c rest ih =>
    simp only [List.flatten_cons, List.length_append] at hs hl
    rw [List.take_add] at hs
    have hlen : c.length = (List.take c.length (L.drop f.li)).length := by
      rw [List.length_take, List.length_drop]; omega
    obtain ⟨hc, hr⟩ := List.append_inj hs hlen
    have h1 := applySeq_inv L f c h hc (by omega)
    have hs' : rest.flatten = (L.drop (applySeq f c).li).take rest.flatten.length := by
      rw [List.drop_drop] at hr
      exact hr
    obtain ⟨h2, h3⟩ := ih (applySeq f c) h1 hs' (by show f.li + c.length + _ ≤ _; omega)
    refine ⟨h2, ?_⟩
    show (proposeAll (applySeq f c) rest).li = _
    rw [h3]; show f.li + c.length + _ = _
    simp [List.flatten_cons, List.length_append]; omega

/-- the recorded index never moves backwards in a round -/
theorem c05_index_monotone (f : Follower) (chunks : List (List Cmd)) : f.li ≤ (proposeAll f chunks).li := by
  induction chunks generalizing f with
  | nil => exact Nat.le_refl _
  | cons c rest ih => exact Nat.le_trans (Nat.le_add_right _ _) (ih (applySeq f c))

/-- the invariant does not care that the leader keeps writing -/
theorem c05_leader_appends (L more : LLog) (f : Follower) (h : Inv L f) : Inv (L ++ more) f := by
  refine ⟨?_, by simp; have := h.2; omega⟩
  rw [h.1]
  unfold leaderAt
  rw [List.take_append_of_le_length h.2]

/-- **snapshot recovery** (the leader compacted its log): the follower switches to the leader's
content at the snapshot index `s` (C07), recorded with `s`; the invariant holds and, a snapshot being
taken at the leader's applied index which is at least anything the follower ever received, the index
does not move backwards -/
theorem c05_recover (L : LLog) (f : Follower) (s : Nat) (hs : s ≤ L.length) (hli : f.li ≤ s) :
    Inv L (recoverTo L s) ∧ f.li ≤ (recoverTo L s).li := ⟨⟨rfl, hs⟩, hli⟩

/-- **convergence**: once the leader stops changing, a round that gets through (the stream runs to
the leader's applied index: C06) leaves the follower with the leader's latest content and index -/
theorem c05_catches_up (L : LLog) (f : Follower) (chunks : List (List Cmd)) (h : Inv L f)
    (hs : chunks.flatten = L.drop f.li) :
    (proposeAll f chunks).kv = leaderAt L L.length ∧ (proposeAll f chunks).li = L.length := by
  have hlen : chunks.flatten.length = L.length - f.li := by rw [hs]; simp
  have h2 := h.2
  obtain ⟨hi, hli⟩ := c05_round L f chunks h (by rw [hs]; exact (List.take_of_length_le (Nat.le_refl _)).symm) (by omega)
  have : (proposeAll f chunks).li = L.length := by omega
  exact ⟨by rw [hi.1, this], this⟩

/-- **the set of replicated tables converges to the leader's**: one reconciliation leaves the
follower with exactly the leader's table names (tables created on the leader appear, tables deleted
there disappear), whatever it had before; and afterwards exactly those tables have a worker -/
theorem c05_tables_converge (leader follower : List String) (n : String) :
    n ∈ reconcileTables leader follower ↔ n ∈ leader := by
  simp only [reconcileTables, List.mem_append, List.mem_filter, List.contains_eq_mem, decide_eq_true_eq,
    Bool.not_eq_true', decide_eq_false_iff_not, Bool.and_eq_true, not_and, Classical.not_imp, Decidable.not_not]
  constructor
  · rintro (⟨hf, h⟩ | ⟨hl, _⟩)
    · exact Classical.byContradiction fun hn => by
        have := h hf
        simp_all
    · exact hl
  · intro hl
    by_cases hf : n ∈ follower
    · exact Or.inl ⟨hf, fun _ => by simp_all⟩
    · exact Or.inr ⟨hl, hf⟩

theorem c05_workers_converge (tables workers : List String) (n : String) :
    n ∈ reconcileWorkers tables workers ↔ n ∈ tables := by
  simp only [reconcileWorkers, List.mem_append, List.mem_filter, List.contains_eq_mem, decide_eq_true_eq,
    Bool.not_eq_true', decide_eq_false_iff_not]
  constructor
  · rintro (⟨_, h⟩ | ⟨h, _⟩) <;> exact h
  · intro h
    by_cases hw : n ∈ workers
    · exact Or.inl ⟨hw, h⟩
    · exact Or.inr ⟨h, hw⟩

/-- what the follower's state machine does with a proposal, at the level of the table
specification: the whole sequence and the leader index in one entry -/
theorem c05_sequence_entry (t : Spec.Table) (idx last : Nat) (cmds : List Cmd) :
    (Spec.applyEntry t ⟨idx, some last, .seq cmds⟩).1 =
      { kv := cmds.foldl (fun m c => (Spec.step m c).1) t.kv, applied := idx, leader := last } := by
  simp only [Spec.applyEntry]
  rw [← step_seq]
  rfl

/-- **known finding K3**: the worker reads the recorded leader index with a local, non-linearizable
read (`tableState`: `LeaderIndex(ctx, false)`).  If that read is stale — a proposal that timed out
for the worker but was committed and applied afterwards — the next round asks for commands the
follower already has and applies them a second time.  With a non-idempotent command the invariant
breaks: here the leader's single command "if k = x then k := y else k := x" applied twice. -/
def flip : Cmd :=
  .txn [⟨.equal, [107], none, some (ByteArray.mk #[120])⟩] [.put [107] (ByteArray.mk #[121]) false] [.put [107] (ByteArray.mk #[120]) false]

theorem c05_k3_stale_read_witness :
    let L : LLog := [.put [107] (ByteArray.mk #[120]) false, flip]
    let f : Follower := proposeAll {} [[L[0]], [L[1]]]          -- properly replicated: li = 2
    let f' : Follower := roundFrom f 1 [[L[1]]]                  -- a round that read the stale index 1
    f.li = 2 ∧ f.kv = leaderAt L 2 ∧ f'.li = 2 ∧ f'.kv ≠ leaderAt L 2 := by
  decide +kernel

/-- **known finding K4**: tables are matched by name.  When the leader deletes a table and creates
it again, the new table starts an empty log of its own; a follower that still holds the old table
(recorded index 2 here) is outside the invariant for the new log, and no round can repair it: the
leader answers "behind" to a request beyond its applied index -/
theorem c05_k4_recreate_witness :
    let old : LLog := [.put [107] (ByteArray.mk #[120]) false, .put [108] (ByteArray.mk #[120]) false]
    let f : Follower := proposeAll {} [old]
    let fresh : LLog := [.put [102] (ByteArray.mk #[115]) false]
    Inv old f ∧ ¬ Inv fresh f := by
  refine ⟨?_, ?_⟩
  · exact ⟨by decide +kernel, by decide +kernel⟩
  · intro h; exact absurd h.2 (by decide +kernel)

/-- non-vacuity of the round theorem: three commands in two proposals of sizes 2 and 1 -/
example :
    let L : LLog := [.put [107] (ByteArray.mk #[120]) false, flip, .del [107] none false false]
    Inv L {} ∧ (proposeAll {} [[L[0], L[1]], [L[2]]]).li = 3 ∧ (proposeAll {} [[L[0], L[1]], [L[2]]]).kv = leaderAt L 3 := by
  refine ⟨⟨by decide +kernel, by decide +kernel⟩, by decide +kernel, by decide +kernel⟩

end Regatta.Props.C05
