import Regatta.Proofs.View
/-
  C19 — The gossiped shard view converges and never regresses to an older leader.

  `merge` is the transcription of `mergeShardInfo`, `View.update` of `shardView.update`,
  `Node.notify` / `gossip` of the Cluster event handlers and the memberlist delegate
  (`LocalState` / `MergeRemoteState`); all are run against the real code by the correspondence
  check.  Order independence needs what Raft guarantees about the updates (`Consistent`: one leader
  per term, one membership per config-change index, leaders only with positive terms); two
  witnesses show that without it the merge does depend on the order.
-/
namespace Regatta.Props.C19
open Regatta.View

/-- repetition: merging an update a second time changes nothing -/
theorem c19_idempotent (c u : ShardView) : merge (merge c u) u = merge c u := merge_idem c u

/-- views built from the empty view satisfy `leader = 0 → term = 0`, for every update sequence -/
theorem c19_inv (id : Nat) (us : List ShardView) : Inv (viewOf (empty id) us) :=
  inv_viewOf _ _ (inv_empty id)

/-- adjacent updates commute (under the Raft guarantees) -/
theorem c19_commute (c a b : ShardView) (h : Inv c) (hab : Cons a b)
    (ha : LeaderTermPos a) (hb : LeaderTermPos b) :
    merge (merge c a) b = merge (merge c b) a := merge_comm c a b h hab ha hb

/-- order independence: the same multiset of updates delivered in any order gives the same view -/
theorem c19_order_independent (id : Nat) (us vs : List ShardView) (hp : us.Perm vs)
    (hcons : Consistent us) : viewOf (empty id) us = viewOf (empty id) vs :=
  viewOf_perm _ us vs (inv_empty id) hp hcons

/-- … also when delivery continues from any view reached earlier -/
theorem c19_order_independent_from (c : ShardView) (hc : Inv c) (us vs : List ShardView)
    (hp : us.Perm vs) (hcons : Consistent us) : viewOf c us = viewOf c vs :=
  viewOf_perm c us vs hc hp hcons

/-- without the Raft guarantees the merge depends on the order: two leaders in one term … -/
theorem c19_order_dependence_witness_leader :
    viewOf (empty 1) [⟨1, [], 0, 2, 5⟩, ⟨1, [], 0, 3, 5⟩] ≠ viewOf (empty 1) [⟨1, [], 0, 3, 5⟩, ⟨1, [], 0, 2, 5⟩] := by
  decide

/-- … or two memberships under one config-change index -/
theorem c19_order_dependence_witness_membership :
    viewOf (empty 1) [⟨1, [1], 4, 0, 0⟩, ⟨1, [1, 2], 4, 0, 0⟩] ≠ viewOf (empty 1) [⟨1, [1, 2], 4, 0, 0⟩, ⟨1, [1], 4, 0, 0⟩] := by
  decide

/-- the view retains a leader announced with the highest term: its term is at least the term of
every update that names a leader, a leader is known as soon as one was announced, and the pair
(leader, term) it shows is the pair of one of the updates -/
theorem c19_keeps_max_term_leader (id : Nat) (us : List ShardView) (u : ShardView) (hu : u ∈ us)
    (hl : u.leader ≠ 0) :
    u.term ≤ (viewOf (empty id) us).term ∧ (viewOf (empty id) us).leader ≠ 0 ∧
    ∃ w ∈ us, w.leader ≠ 0 ∧ (viewOf (empty id) us).leader = w.leader ∧ (viewOf (empty id) us).term = w.term := by
  have h1 := viewOf_term_ge (empty id) us (inv_empty id) u hu hl
  refine ⟨h1.1, h1.2, ?_⟩
  rcases viewOf_lead_from (empty id) us with h | ⟨w, hw, hwl, he⟩
  · exfalso
    have : (viewOf (empty id) us).leader = 0 := by
      have := congrArg Prod.fst h; simpa [lead, empty] using this
    exact h1.2 this
  · refine ⟨w, hw, hwl, ?_, ?_⟩
    · have := congrArg Prod.fst he; simpa [lead] using this
    · have := congrArg Prod.snd he; simpa [lead] using this

/-- with consistent updates that is *the* leader of the highest term -/
theorem c19_leader_of_max_term (id : Nat) (us : List ShardView) (hcons : Consistent us)
    (u : ShardView) (hu : u ∈ us) (hl : u.leader ≠ 0) (hmax : ∀ w ∈ us, w.leader ≠ 0 → w.term ≤ u.term) :
    (viewOf (empty id) us).leader = u.leader ∧ (viewOf (empty id) us).term = u.term := by
  obtain ⟨h1, _, w, hw, hwl, e1, e2⟩ := c19_keeps_max_term_leader id us u hu hl
  have h2 := hmax w hw hwl
  have ht : w.term = u.term := by omega
  have := hcons.1 w hw u hu
  exact ⟨by rw [e1]; exact this.1 hwl hl ht, by rw [e2]; exact ht⟩

/-- the membership retained is the one with the highest config-change index (> 0) -/
theorem c19_keeps_max_cci (id : Nat) (us : List ShardView) (u : ShardView) (hu : u ∈ us) :
    u.cci ≤ (viewOf (empty id) us).cci ∧
    ((viewOf (empty id) us).cci = 0 ∧ (viewOf (empty id) us).replicas = [] ∨
     ∃ w ∈ us, (viewOf (empty id) us).cci = w.cci ∧ (viewOf (empty id) us).replicas = w.replicas) := by
  refine ⟨viewOf_cci_ge _ us u hu, ?_⟩
  rcases viewOf_mem_from (empty id) us with h | ⟨w, hw, _, he⟩
  · left
    have h1 := congrArg Prod.fst h
    have h2 := congrArg Prod.snd h
    simp only [mem, empty] at h1 h2
    exact ⟨h2, h1⟩
  · right
    have h1 := congrArg Prod.fst he
    have h2 := congrArg Prod.snd he
    simp only [mem] at h1 h2
    exact ⟨w, hw, h2, h1⟩

/-- an update with no leader never changes the leader or the term -/
theorem c19_no_leader_update_keeps_leader (c u : ShardView) (h : u.leader = 0) :
    (merge c u).leader = c.leader ∧ (merge c u).term = c.term := by
  unfold merge noLeader
  simp only
  split <;> split <;> simp_all

/-- an update with an older (or equal) term never replaces a known leader -/
theorem c19_older_term_keeps_leader (c u : ShardView) (hc : c.leader ≠ 0) (h : u.term ≤ c.term) :
    (merge c u).leader = c.leader ∧ (merge c u).term = c.term := by
  unfold merge noLeader
  simp only
  split <;> split <;> (try split) <;> simp_all <;> omega

/-- terms never move backwards, for any update (consistent or not) -/
theorem c19_term_monotone (c u : ShardView) (h : Inv c) : c.term ≤ (merge c u).term := term_mono c u h

/-- the per-shard entry of the node's view after `shardView.update` is the fold of `merge` over
exactly the updates of that shard, in delivery order -/
theorem c19_update_per_shard (v : View) (us : List ShardView) (id : Nat) :
    (v.update us).cur id = viewOf (v.cur id) (us.filter (fun u => u.shard = id)) := cur_update v us id

/-- hence the whole view does not depend on the delivery order of a consistent multiset of updates
(updates of different shards never interact) -/
theorem c19_view_order_independent (us vs : List ShardView) (hp : us.Perm vs) (id : Nat)
    (hcons : Consistent (us.filter (fun u => u.shard = id))) :
    (View.update [] us).cur id = (View.update [] vs).cur id := by
  rw [cur_update, cur_update]
  exact viewOf_perm _ _ _ (inv_empty id) (hp.filter _) hcons

/-- and the term reported for a shard (what `getHeader` copies into response headers) never moves
backwards under any further updates, in any order, consistent or not -/
theorem c19_header_term_monotone (us more : List ShardView) (id : Nat) :
    ((View.update [] us).cur id).term ≤ ((View.update (View.update [] us) more).cur id).term := by
  rw [cur_update (View.update [] us) more id]
  have hinv : Inv ((View.update [] us).cur id) := by
    rw [cur_update]; exact inv_viewOf _ _ (inv_empty id)
  generalize (View.update [] us).cur id = z at hinv ⊢
  generalize more.filter (fun u => u.shard = id) = l
  induction l generalizing z with
  | nil => exact Nat.le_refl _
  | cons y l ih => exact Nat.le_trans (term_mono z y hinv) (ih (merge z y) (inv_merge z y hinv))

/-- non-vacuity: a consistent list with two leaders in different terms, a no-leader update and a
duplicate satisfies the hypotheses, and the merge picks the term-7 leader in either order -/
example :
    let us : List ShardView := [⟨1, [1, 2], 3, 2, 5⟩, ⟨1, [1, 2, 3], 4, 3, 7⟩, ⟨1, [1, 2], 3, 0, 0⟩, ⟨1, [1, 2], 3, 2, 5⟩]
    (viewOf (empty 1) us).leader = 3 ∧ (viewOf (empty 1) us.reverse).leader = 3 ∧
    (viewOf (empty 1) us).term = 7 ∧ (viewOf (empty 1) us).replicas = [1, 2, 3] := by decide

end Regatta.Props.C19
