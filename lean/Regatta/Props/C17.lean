import Regatta.Model.Auth
import Regatta.Extracted.Facts
/-
  C17 — Protected endpoints reject callers lacking the right token or certificate.

  Model: `Regatta.Auth`.  Tied to the code by mode `auth`: real leader and follower processes
  started with `--tables.token` / `--maintenance.token` (the wiring of cmd/ is what runs), every
  method of Tables and Maintenance — unary, server-streaming, client-streaming — and of KV / Cluster
  with ~20 shapes of the authorization metadata; Unauthenticated must coincide with the model and
  an unauthenticated call must have no effect; and real TLS handshakes against
  security.TLSInfo.ServerConfig() for the option combinations × certificates of two CAs, self-signed,
  CN and SAN variants.
-/
namespace Regatta.Props.C17
open Regatta Regatta.Auth

theorem cut_spec (v : Bytes) (a c : Bytes) : cut v = some (a, c) ↔ v = a ++ 32 :: c ∧ (32 : UInt8) ∉ a := by
  induction v generalizing a c with
  | nil => simp [cut]
  | cons b rest ih =>
    unfold cut
    by_cases hb : b = 32
    · subst hb
      simp only [if_true]
      constructor
      · intro h; cases h; simp
      · intro ⟨h1, h2⟩
        cases a with
        | nil => simp at h1; simp [h1]
        | cons x xs =>
          simp at h1
          exact absurd (h1.1 ▸ List.mem_cons_self) h2
    · simp only [if_neg hb]
      cases hc : cut rest with
      | none =>
        simp only
        constructor
        · intro h; cases h
        · intro ⟨h1, h2⟩
          cases a with
          | nil => simp at h1; exact absurd h1.1 hb
          | cons x xs =>
            simp at h1
            have := (ih xs c).mpr ⟨h1.2, fun hm => h2 (List.mem_cons_of_mem _ hm)⟩
            rw [hc] at this; cases this
      | some p =>
        obtain ⟨a', c'⟩ := p
        simp only
        have hih := (ih a' c').mp hc
        constructor
        · intro h
          cases h
          refine ⟨by rw [hih.1]; simp, ?_⟩
          intro hm
          rcases List.mem_cons.mp hm with h | h
          · exact hb h.symm
          · exact hih.2 h
        · intro ⟨h1, h2⟩
          cases a with
          | nil => simp at h1; exact absurd h1.1 hb
          | cons x xs =>
            simp at h1
            have := (ih xs c).mpr ⟨h1.2, fun hm => h2 (List.mem_cons_of_mem _ hm)⟩
            rw [hc] at this
            cases this
            rw [h1.1]

/-- **the token check**: with a token configured, a call is let through iff the FIRST authorization
value is `<scheme> <token>` where the scheme (the part before the first space) is "bearer" in any
letter case and the rest is EXACTLY the configured token — nothing let through without the header, with
an empty value, with another scheme, with a prefix, suffix, case variant or padded form of the token -/
theorem c17_token (configured : Bytes) (hc : configured ≠ []) (values : List Bytes) :
    authorize configured values = true ↔
      ∃ scheme rest, values = (scheme ++ 32 :: configured) :: rest ∧ (32 : UInt8) ∉ scheme ∧
        scheme.map lower = bearer := by
  unfold authorize
  have hne : configured.isEmpty = false := by cases configured <;> simp_all
  simp only [hne, Bool.false_eq_true, if_false]
  cases values with
  | nil => simp
  | cons v rest =>
    simp only
    by_cases hv : v.isEmpty = true
    · simp only [hv, if_true]
      constructor
      · intro h; cases h
      · intro ⟨s, r, h, _, _⟩
        have : v = s ++ 32 :: configured := (List.cons.inj h).1
        rw [this] at hv; simp at hv
    · simp only [hv, if_false]
      cases hcut : cut v with
      | none =>
        simp only
        constructor
        · intro h; cases h
        · intro ⟨s, r, h, hs, _⟩
          have hv' : v = s ++ 32 :: configured := (List.cons.inj h).1
          have := (cut_spec v s configured).mpr ⟨hv', hs⟩
          rw [hcut] at this; cases this
      | some p =>
        obtain ⟨scheme, token⟩ := p
        simp only
        have hsp := (cut_spec v scheme token).mp hcut
        constructor
        · intro h
          simp [isBearer] at h
          refine ⟨scheme, rest, ?_, hsp.2, h.1⟩
          rw [hsp.1, h.2]
        · intro ⟨s, r, h, hs, hb⟩
          have hv' : v = s ++ 32 :: configured := (List.cons.inj h).1
          have := (cut_spec v s configured).mpr ⟨hv', hs⟩
          rw [hcut] at this
          cases this
          simp [isBearer, hb]

/-- with no token configured everything is let through -/
theorem c17_no_token_configured (values : List Bytes) : authorize [] values = true := rfl

/-- **only the protected services are affected, each by its own token**: KV and Cluster calls are
let through whatever the metadata; a Tables call is decided by the tables token alone, a Maintenance
call by the maintenance token alone (so the other service's token does not help) -/
theorem c17_services (t : Tokens) (values : List Bytes) :
    allowCall t .kv values = true ∧ allowCall t .cluster values = true ∧
    allowCall t .tables values = authorize t.tables values ∧
    allowCall t .maintenance values = authorize t.maintenance values := ⟨rfl, rfl, rfl, rfl⟩

/-- **the wiring the model assumes is the wiring of the current source** (facts regenerated from
cmd/leader.go, cmd/follower.go and cmd/common.go by go/parser on every run): on both kinds of node
the API server registers KV and Cluster with the default (accept-all) auth function, Tables with
`authFunc(tables.token)` and Maintenance with `authFunc(maintenance.token)` — exactly `allowCall` —
and both interceptor chains, unary and streaming, start with the auth interceptor -/
theorem c17_wiring_facts :
    Regatta.Extracted.apiWiring =
      ["cmd/leader.go KVServer default", "cmd/leader.go ClusterServer default",
       "cmd/leader.go TablesServer authFunc(viper.GetString(\"tables.token\"))",
       "cmd/leader.go MaintenanceServer authFunc(viper.GetString(\"maintenance.token\"))",
       "cmd/follower.go KVServer default", "cmd/follower.go ClusterServer default",
       "cmd/follower.go MaintenanceServer authFunc(viper.GetString(\"maintenance.token\"))",
       "cmd/follower.go TablesServer authFunc(viper.GetString(\"tables.token\"))"] ∧
    Regatta.Extracted.apiInterceptors =
      ["grpc.ChainStreamInterceptor: auth.StreamServerInterceptor(defaultAuthFunc), grpcmetrics.StreamServerInterceptor()",
       "grpc.ChainUnaryInterceptor: auth.UnaryServerInterceptor(defaultAuthFunc), grpcmetrics.UnaryServerInterceptor()"] :=
  ⟨rfl, rfl⟩

/-- the other service's token is refused (when the two differ) -/
theorem c17_other_token (t : Tokens) (h1 : t.tables ≠ []) (h2 : t.tables ≠ t.maintenance) (scheme : Bytes)
    (hsp : (32 : UInt8) ∉ scheme) (rest : List Bytes) :
    allowCall t .tables ((scheme ++ 32 :: t.maintenance) :: rest) = false := by
  have : ¬ allowCall t .tables ((scheme ++ 32 :: t.maintenance) :: rest) = true := by
    intro h
    have h' : authorize t.tables ((scheme ++ 32 :: t.maintenance) :: rest) = true := h
    obtain ⟨s, r, hv, hs, _⟩ := (c17_token t.tables h1 _).mp h'
    have hv' : scheme ++ 32 :: t.maintenance = s ++ 32 :: t.tables := (List.cons.inj hv).1
    have hl := (cut_spec (scheme ++ 32 :: t.maintenance) scheme t.maintenance).mpr ⟨rfl, hsp⟩
    rw [hv'] at hl
    have hr := (cut_spec (s ++ 32 :: t.tables) s t.tables).mpr ⟨rfl, hs⟩
    rw [hl] at hr
    have := (Prod.mk.inj (Option.some.inj hr)).2
    exact h2 this.symm
  cases h : allowCall t .tables ((scheme ++ 32 :: t.maintenance) :: rest) <;> simp_all

/-- a token that differs from the configured one in any way — prefix, suffix, letter case, padding —
is refused, under every scheme spelling -/
theorem c17_wrong_token (configured token scheme : Bytes) (hc : configured ≠ []) (hne : token ≠ configured)
    (hsp : (32 : UInt8) ∉ scheme) (rest : List Bytes) :
    authorize configured ((scheme ++ 32 :: token) :: rest) = false := by
  have : ¬ authorize configured ((scheme ++ 32 :: token) :: rest) = true := by
    intro h
    obtain ⟨s, r, hv, hs, _⟩ := (c17_token configured hc _).mp h
    have hv' : scheme ++ 32 :: token = s ++ 32 :: configured := (List.cons.inj hv).1
    have hl := (cut_spec (scheme ++ 32 :: token) scheme token).mpr ⟨rfl, hsp⟩
    rw [hv'] at hl
    have hr := (cut_spec (s ++ 32 :: configured) s configured).mpr ⟨rfl, hs⟩
    rw [hl] at hr
    have := (Prod.mk.inj (Option.some.inj hr)).2
    exact hne this
  cases h : authorize configured ((scheme ++ 32 :: token) :: rest) <;> simp_all

/-! ### TLS -/

/-- **trusted CA + allowed CN**: a connection is accepted iff the client presents a certificate
that chains to the trusted CA and whose common name is exactly the allowed one -/
theorem c17_tls_cn (o : TlsOpts) (cn : String) (hca : o.trustedCA = true) (hcn : o.allowedCN = some cn)
    (hh : o.allowedHostname = none) (cert : Option ClientCert) :
    accepts o cert = true ↔ ∃ c, cert = some c ∧ c.chainsToTrustedCA = true ∧ c.cn = cn := by
  unfold accepts
  simp only [hca, Bool.true_or, if_true, hcn, hh]
  cases cert with
  | none => simp
  | some c => simp

/-- **trusted CA + allowed hostname**: accepted iff the certificate chains to the trusted CA and is
valid for that hostname -/
theorem c17_tls_hostname (o : TlsOpts) (h : String) (hca : o.trustedCA = true) (hcn : o.allowedCN = none)
    (hh : o.allowedHostname = some h) (cert : Option ClientCert) :
    accepts o cert = true ↔ ∃ c, cert = some c ∧ c.chainsToTrustedCA = true ∧ c.validFor h = true := by
  unfold accepts
  simp only [hca, Bool.true_or, if_true, hcn, hh]
  cases cert with
  | none => simp
  | some c => simp

/-- a trusted CA alone: any certificate of that CA, none without; both restrictions together are a
configuration error -/
theorem c17_tls_ca_only (o : TlsOpts) (hca : o.trustedCA = true) (hcn : o.allowedCN = none) (hh : o.allowedHostname = none)
    (cert : Option ClientCert) :
    accepts o cert = true ↔ ∃ c, cert = some c ∧ c.chainsToTrustedCA = true := by
  unfold accepts
  simp only [hca, Bool.true_or, if_true, hcn, hh]
  cases cert with
  | none => simp
  | some c => simp

theorem c17_tls_exclusive (o : TlsOpts) (cn h : String) (h1 : o.allowedCN = some cn) (h2 : o.allowedHostname = some h) :
    configOK o = false := by simp [configOK, h1, h2]

/-- non-vacuity: the token `s3cret`, three spellings of the scheme, and shapes that must fail -/
example :
    let t : Bytes := [115, 51, 99, 114, 101, 116]
    authorize t [[66, 101, 97, 114, 101, 114, 32] ++ t] = true ∧          -- "Bearer s3cret"
    authorize t [[98, 69, 65, 82, 69, 82, 32] ++ t] = true ∧              -- "bEARER s3cret"
    authorize t [] = false ∧
    authorize t [[]] = false ∧
    authorize t [t] = false ∧                                             -- no scheme
    authorize t [[66, 101, 97, 114, 101, 114, 32, 32] ++ t] = false ∧     -- two spaces
    authorize t [[66, 97, 115, 105, 99, 32] ++ t] = false ∧               -- "Basic s3cret"
    authorize t [[66, 101, 97, 114, 101, 114, 32] ++ t ++ [120]] = false ∧ -- suffix
    authorize t [[120], [66, 101, 97, 114, 101, 114, 32] ++ t] = false := by -- right value second
  decide

end Regatta.Props.C17
