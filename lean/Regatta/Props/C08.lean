import Regatta.Model.Snapshot
import Regatta.Proofs.Crash
import Regatta.Props.C04
/-
  C08 — In-cluster snapshots are faithful, point-in-time and installed atomically.

  Model: `Regatta.Snap` (what PrepareSnapshot pins, the header that selects the recoverer, what the
  receiver holds afterwards, which store handle a read uses) and `Regatta.Crash` (the file-system
  side of an install and its interruption by a crash at any step).
  Tie: mode `snap` (two real state machines of either format: writes between prepare and save,
  stop signals on save and at random points of recover, reads obtained before and consumed after an
  install, the receiver carrying on with the saver's log) and mode `crash` (recoveries inside
  crash scenarios).
-/
namespace Regatta.Props.C08
open Regatta Regatta.Fsm Regatta.Snap Regatta.Crash

/-- the format codes of the model are the current source's (`RecoveryTypeSnapshot`,
`RecoveryTypeCheckpoint`; regenerated on every run) -/
theorem c08_codes_match_source :
    (Fmt.code .snapshot).toNat = Regatta.Extracted.recoveryTypeSnapshot ∧
    (Fmt.code .checkpoint).toNat = Regatta.Extracted.recoveryTypeCheckpoint := ⟨rfl, rfl⟩

/-- the header written for a format selects exactly that format's recoverer -/
theorem c08_header_selects (f : Fmt) : recovererOf (header f) = some f := by
  cases f <;> rfl

/-- **faithful and point-in-time, for both formats and across formats**: whatever is written to the
saver between PrepareSnapshot and SaveSnapshot (`later` is any store value), whatever the receiver
held before and however saver and receiver are configured, the receiver ends up with exactly the
store the saver had at prepare time — content, applied index and leader index are all keys of that
store — and the install reports success -/
theorem c08_faithful (a b : Rep) (later : Db) :
    ∃ s, save (a.setDb later) (prepare a) false = some s ∧
      (recover b s false).2 = .done ∧ (recover b s false).1.db = a.db := by
  refine ⟨⟨header a.fmt, prepare a⟩, ?_, ?_, ?_⟩
  · simp [save, Rep.setDb]
  · simp [recover, c08_header_selects]
  · simp [recover, c08_header_selects, Rep.db, prepare]

/-- in particular the indices: they are read from the installed store -/
theorem c08_indices (a b : Rep) (later : Db) (s : Stream) (h : save (a.setDb later) (prepare a) false = some s) :
    readIndex (recover b s false).1.db Key.sysLocalIndex = readIndex a.db Key.sysLocalIndex ∧
    readIndex (recover b s false).1.db Key.sysLeaderIndex = readIndex a.db Key.sysLeaderIndex := by
  obtain ⟨s', hs', _, hdb⟩ := c08_faithful a b later
  rw [h] at hs'; cases hs'
  rw [hdb]; exact ⟨rfl, rfl⟩

/-- **complete replacement**: nothing of what the receiver held survives a completed install -/
theorem c08_replaces_completely (b b' : Rep) (s : Stream) (h : (recover b s false).2 = .done)
    (h' : (recover b' s false).2 = .done) : (recover b s false).1.db = (recover b' s false).1.db := by
  unfold recover at *
  cases hr : recovererOf s.hdr with
  | none => rw [hr] at h; cases h
  | some f => simp [Rep.db]

/-- **a stopped install changes nothing**; a stopped save produces nothing -/
theorem c08_stop_leaves_old (b : Rep) (s : Stream) : (recover b s true).1 = b := by
  unfold recover; cases recovererOf s.hdr <;> rfl

theorem c08_stopped_save (a : Rep) (p : Db) : save a p true = none := rfl

/-- a read obtained and consumed before an install sees the old state; one obtained after sees the new -/
theorem c08_read_before (b : Rep) (q : RangeReq) (hb : b.closed b.cur = false) :
    consume b (lookupIter b q) = some (iteratorLookup b.db q) := by
  simp [consume, lookupIter, hb, Rep.db]

theorem c08_read_after (b : Rep) (s : Stream) (q : RangeReq) (hd : (recover b s false).2 = .done)
    (hc : b.closed (b.cur + 1) = false) :
    consume (recover b s false).1 (lookupIter (recover b s false).1 q) = some (iteratorLookup s.body q) := by
  unfold recover at *
  cases hr : recovererOf s.hdr with
  | none => rw [hr] at hd; cases hd
  | some f => simp [consume, lookupIter, hc]

/-- **known finding K1** (the clause "reads that overlap an install … never bring the process
down" fails): a lazy range read obtained before an install and consumed after it runs on the closed
store handle — Pebble panics, and nothing recovers the panic on the serving path -/
theorem c08_k1_lazy_read_across_install (b : Rep) (s : Stream) (q : RangeReq)
    (hd : (recover b s false).2 = .done) :
    consume (recover b s false).1 (lookupIter b q) = none := by
  unfold recover at *
  cases hr : recovererOf s.hdr with
  | none => rw [hr] at hd; cases hd
  | some f => simp [consume, lookupIter]

/-- **installed completely or not at all, whatever step a crash interrupts** (both recoverers): in
every reachable state with a live store `m`, for a recovery into directory `n` of a snapshot at
index `j` cut by a crash after any number `k` of its file-system steps, the reopened replica runs
on the old directory with exactly what that had durably, or on the new one with exactly the
snapshot state — never a mixture, never a half-built directory -/
theorem c08_install_atomic_under_crash {s : St} (h : C04.Reach s) (n : Name) (j : Nat) (snapFmt : Bool)
    (he : if snapFmt then Enabled s (.recoverSnap n j) else Enabled s (.recoverCkpt n j))
    (m : Name) (hm : s.live = some m) (k : Nat) (n' : Name) :
    let e : Event := if snapFmt then .recoverSnap n j else .recoverCkpt n j
    let atCrash := s.run ((ops s e).take k)
    (n' ∉ atCrash.crash.ents ∧ n' ∉ atCrash.crash.entsD) →
    let s' := atCrash.crash.run (ops atCrash.crash (.open n'))
    (s'.live = some m ∧ s'.liveIdx = some (s.pd m).dur.idx) ∨ (s'.live = some n ∧ s'.liveIdx = some j) := by
  intro e atCrash hfresh s'
  have hI := C04.c04_invariant h
  cases snapFmt with
  | true =>
    have he' : Enabled s (.recoverSnap n j) := by simpa using he
    have hsafe := (recoverSnap_ok hI he').1 k
    obtain ⟨hdd, hcase⟩ := recoverSnap_atomic hI he' m hm k
    rcases hcase with ⟨hcd, hd⟩ | ⟨hcd, hd⟩
    · obtain ⟨h1, h2⟩ := reopen_finds hsafe hdd hcd n' hfresh
      exact Or.inl ⟨h1, h2.trans (by rw [hd])⟩
    · obtain ⟨h1, h2⟩ := reopen_finds hsafe hdd hcd n' hfresh
      exact Or.inr ⟨h1, h2.trans (by rw [hd]; rfl)⟩
  | false =>
    have he' : Enabled s (.recoverCkpt n j) := by simpa using he
    have hsafe := (recoverCkpt_ok hI he').1 k
    obtain ⟨hdd, hcase⟩ := recoverCkpt_atomic hI he' m hm k
    rcases hcase with ⟨hcd, hd⟩ | ⟨hcd, hd⟩
    · obtain ⟨h1, h2⟩ := reopen_finds hsafe hdd hcd n' hfresh
      exact Or.inl ⟨h1, h2.trans (by rw [hd])⟩
    · obtain ⟨h1, h2⟩ := reopen_finds hsafe hdd hcd n' hfresh
      exact Or.inr ⟨h1, h2.trans (by rw [hd]; rfl)⟩

/-- non-vacuity: a checkpoint-format saver, a snapshot-format receiver holding something else -/
example :
    let a : Rep := ({ fmt := .checkpoint } : Rep).setDb [([1], ByteArray.empty)]
    let b : Rep := ({ fmt := .snapshot } : Rep).setDb [([2], ByteArray.empty)]
    (recover b ⟨header a.fmt, prepare a⟩ false).1.db = [([1], ByteArray.empty)] ∧
    (recover b ⟨header a.fmt, prepare a⟩ false).2 = .done := by
  simp [recover, recovererOf, header, Fmt.code, Rep.db, Rep.setDb, prepare]

end Regatta.Props.C08
