import Regatta.Props.C03
import Regatta.Props.C08
/-
  C03 ∘ C08 — a replica that is caught up by an in-cluster snapshot and then carries on with the
  rest of the log converges with the replicas that applied the whole log entry by entry.

  This is the situation mode `cluster3` produces in about nine catch-ups out of ten (a stopped node
  comes back, dragonboat sends it a snapshot of a peer, the node applies the entries after the
  snapshot index): `c03_any_partition` speaks about ONE store fed with batches, `c08_faithful` about
  ONE transfer; the statements below glue them for every log, every snapshot position, every
  batching on either side, every pair of formats and whatever the lagging replica held before.
-/
namespace Regatta.Props.C03
open Regatta Regatta.Fsm Regatta.Refine Regatta.Key Regatta.Snap

/-- the fold over apply calls used by the C03 statements -/
abbrev applyBatches (db : Db) (batches : List (List Entry)) : Except Fsm.Err Db :=
  batches.foldlM (fun d b => (update d b).map (·.1)) db

/-- `c03_any_partition` with the invariant carried along: the store reached is well formed again,
so anything may follow (more batches, a snapshot, a reopen) -/
theorem c03_any_partition_wf (batches : List (List Entry)) (hb : ∀ b ∈ batches, b ≠ [] ∧ ∀ e ∈ b, EntryWF e)
    (db : Db) (h : WF db) :
    ∃ db', applyBatches db batches = .ok db' ∧ WF db' ∧
      absT db' = (Spec.applyLog (absT db) batches.flatten).1 := by
  induction batches generalizing db with
  | nil => exact ⟨db, rfl, h, rfl⟩
  | cons b rest ih =>
    obtain ⟨hne, hes⟩ := hb b (by simp)
    obtain ⟨db1, n, e1, w1, a1⟩ := update_refines db h b hne hes
    obtain ⟨db', e2, w2, a2⟩ := ih (fun x hx => hb x (by simp [hx])) db1 w1
    refine ⟨db', ?_, w2, ?_⟩
    · simp only [applyBatches, List.foldlM_cons, e1, Except.map, bind, Except.bind]
      exact e2
    · rw [a2, a1, List.flatten_cons, Spec.applyLog_append]

/-- **catch-up by snapshot = catch-up by log.**  Replica `A` applied the log prefix `p.flatten`
(cut into the apply calls `p`), then took a snapshot; meanwhile it may have applied anything more
(`later`).  Replica `B` - whatever it held, whichever format either side is configured with -
installs that snapshot and applies the calls `q`.  Replica `C` applied the calls `r` from empty.
If `B`'s log is `C`'s (`p.flatten ++ q.flatten = r.flatten`), `B` and `C` hold the same table:
content, applied index and leader index. -/
theorem c03_snapshot_catchup (p q r : List (List Entry))
    (hp : ∀ b ∈ p, b ≠ [] ∧ ∀ e ∈ b, EntryWF e) (hq : ∀ b ∈ q, b ≠ [] ∧ ∀ e ∈ b, EntryWF e)
    (hr : ∀ b ∈ r, b ≠ [] ∧ ∀ e ∈ b, EntryWF e) (hlog : p.flatten ++ q.flatten = r.flatten)
    (a b : Rep) (ha : applyBatches [] p = .ok a.db) (later : Db) :
    ∃ s dB dC, save (a.setDb later) (prepare a) false = some s ∧ (recover b s false).2 = .done ∧
      applyBatches (recover b s false).1.db q = .ok dB ∧ applyBatches [] r = .ok dC ∧
      absT dB = absT dC := by
  obtain ⟨dA, eA, wA, aA⟩ := c03_any_partition_wf p hp [] wf_nil
  rw [ha] at eA; cases eA
  obtain ⟨s, hs, hd, hdb⟩ := C08.c08_faithful a b later
  obtain ⟨dB, eB, _, aB⟩ := c03_any_partition_wf q hq (recover b s false).1.db (by rw [hdb]; exact wA)
  obtain ⟨dC, eC, _, aC⟩ := c03_any_partition_wf r hr [] wf_nil
  refine ⟨s, dB, dC, hs, hd, eB, eC, ?_⟩
  rw [aB, aC, hdb, aA, ← hlog, Spec.applyLog_append]

/-- … and the catch-up may itself be repeated any number of times along the log: a chain of
replicas, each installing the previous one's snapshot and applying the next stretch of the log,
ends in the state of the whole log.  `stretches` are the apply calls of the successive replicas. -/
theorem c03_snapshot_chain (stretches : List (List (List Entry)))
    (hs : ∀ p ∈ stretches, ∀ b ∈ p, b ≠ [] ∧ ∀ e ∈ b, EntryWF e) (db : Db) (h : WF db) :
    ∃ db', stretches.foldlM (fun d p => applyBatches d p) db = .ok db' ∧ WF db' ∧
      absT db' = (Spec.applyLog (absT db) (stretches.map List.flatten).flatten).1 := by
  induction stretches generalizing db with
  | nil => exact ⟨db, rfl, h, rfl⟩
  | cons p rest ih =>
    obtain ⟨d1, e1, w1, a1⟩ := c03_any_partition_wf p (hs p (by simp)) db h
    obtain ⟨d2, e2, w2, a2⟩ := ih (fun x hx => hs x (by simp [hx])) d1 w1
    refine ⟨d2, ?_, w2, ?_⟩
    · simp only [List.foldlM_cons, e1, bind, Except.bind]
      exact e2
    · rw [a2, a1, List.map_cons, List.flatten_cons, Spec.applyLog_append]

/-- the hypotheses of `c03_snapshot_catchup` are met by a concrete history: a put applied by `A`,
snapshot, a delete applied by `B` after the install, `C` applying both in one call -/
example : ∃ dA, applyBatches [] [[⟨1, none, .put [107] ⟨#[118]⟩ false⟩]] = .ok dA ∧
    [[(⟨1, none, .put [107] ⟨#[118]⟩ false⟩ : Entry)]].flatten ++ [[(⟨2, none, .del [107] none false false⟩ : Entry)]].flatten
      = [[(⟨1, none, .put [107] ⟨#[118]⟩ false⟩ : Entry), ⟨2, none, .del [107] none false false⟩]].flatten := by
  obtain ⟨d, e, _, _⟩ := c03_any_partition_wf [[⟨1, none, .put [107] ⟨#[118]⟩ false⟩]]
    (by intro b hb; simp at hb; subst hb; refine ⟨by simp, ?_⟩; intro e he; simp at he; subst he
        simp [EntryWF, CmdWF]) [] wf_nil
  exact ⟨d, e, rfl⟩

end Regatta.Props.C03
