import Regatta.Model.ApiBridge
import Regatta.Proofs.Refine
/-
  C16 ∘ C01 — what the public API accepts is well-formed for the table state machine.

  C01's refinement theorem (`update_refines`) needs `CmdWF`: no empty key anywhere in a command —
  the hypothesis the proof forced, and exactly what defect D9 let through for operations nested in a
  transaction.  These theorems discharge it for every command that table.go builds from a request
  the acceptance model lets through, so the two properties compose: every command that reaches a
  table's log through the public API is executed as the sorted-map specification says.
-/
namespace Regatta.Props.C16Compose
open Regatta Regatta.Fsm Regatta.Refine Regatta.ApiBridge

theorem ne_nil_of_length {α : Type} (l : List α) (h : l.length ≠ 0) : l ≠ [] := by
  intro e; rw [e] at h; exact h rfl

/-- Put: `Command{Type: PUT, Kv{Key, Value}, PrevKvs}` -/
theorem accepted_put_wf (tables : List Bytes) (t k : Bytes) (v : Val) (pk : Bool)
    (h : Api.kvPut tables ⟨t, k.length, v.size⟩ = .ok) : CmdWF (.put k v pk) := by
  unfold Api.kvPut at h
  simp only at h
  by_cases h1 : t.isEmpty = true
  · rw [if_pos h1] at h; cases h
  rw [if_neg h1] at h
  by_cases h2 : k.length = 0
  · rw [if_pos h2] at h; cases h
  exact ne_nil_of_length k h2

/-- DeleteRange: `Command{Type: DELETE, Kv{Key}, RangeEnd, PrevKvs, Count}` -/
theorem accepted_delete_wf (tables : List Bytes) (t k : Bytes) (e : Option Bytes) (pk cnt : Bool)
    (h : Api.kvDelete tables ⟨t, k.length, (e.getD []).length⟩ = .ok) : CmdWF (.del k e pk cnt) := by
  unfold Api.kvDelete at h
  simp only at h
  by_cases h1 : t.isEmpty = true
  · rw [if_pos h1] at h; cases h
  rw [if_neg h1] at h
  by_cases h2 : k.length = 0
  · rw [if_pos h2] at h; cases h
  exact ne_nil_of_length k h2

theorem opOK_wf (o : ReqOp) (h : Api.opOK (apiOp o) = true) : ReqOpWF o := by
  cases o with
  | range r => simp [apiOp, Api.opOK] at h; exact h.1.1
  | put k v pk => simp [apiOp, Api.opOK] at h; exact h.1.1
  | del k e pk cnt => simp [apiOp, Api.opOK] at h; exact h.1
  | none => trivial

/-- Txn: `Command{Type: TXN, Txn{Compare, Success, Failure}}` — every comparison and every operation
of both branches -/
theorem accepted_txn_wf (tables : List Bytes) (t : Bytes) (c : List Compare) (s f : List ReqOp)
    (h : Api.kvTxn tables (apiTxn t c s f) = .ok) : CmdWF (.txn c s f) := by
  unfold Api.kvTxn apiTxn at h
  simp only at h
  by_cases h1 : t.isEmpty = true
  · rw [if_pos h1] at h; cases h
  rw [if_neg h1] at h
  by_cases h2 : (!tables.contains t) = true
  · rw [if_pos h2] at h; cases h
  rw [if_neg h2] at h
  by_cases h3 : (!(c.map apiCmp).all Api.cmpOK) = true
  · rw [if_pos h3] at h; cases h
  rw [if_neg h3] at h
  by_cases h4 : (!(s.map apiOp).all Api.opOK) = true
  · rw [if_pos h4] at h; cases h
  rw [if_neg h4] at h
  by_cases h5 : (!(f.map apiOp).all Api.opOK) = true
  · rw [if_pos h5] at h; cases h
  have h3' : (c.map apiCmp).all Api.cmpOK = true := by simpa using h3
  have h4' : (s.map apiOp).all Api.opOK = true := by simpa using h4
  have h5' : (f.map apiOp).all Api.opOK = true := by simpa using h5
  refine ⟨?_, ?_, ?_⟩
  · intro x hx
    have := List.all_eq_true.mp h3' (apiCmp x) (List.mem_map_of_mem hx)
    simp [Api.cmpOK, apiCmp] at this
    exact this.1.1
  · intro o ho
    exact opOK_wf o (List.all_eq_true.mp h4' (apiOp o) (List.mem_map_of_mem ho))
  · intro o ho
    exact opOK_wf o (List.all_eq_true.mp h5' (apiOp o) (List.mem_map_of_mem ho))

/-- the composition: a log whose entries were all built from accepted requests (indices below 2^64,
as Raft's are) satisfies the hypothesis of C01's refinement theorem; so its application is the
sorted map's -/
theorem accepted_log_refines (db : Db) (hdb : WF db) (es : List Entry) (hne : es ≠ [])
    (hacc : ∀ e ∈ es, CmdWF e.cmd) (hidx : ∀ e ∈ es, e.index < 18446744073709551616 ∧ e.leaderIndex = none) :
    ∃ db' n, update db es = .ok (db', (Spec.applyLog (absT db) es).2, n) ∧ WF db' ∧
      absT db' = (Spec.applyLog (absT db) es).1 :=
  update_refines db hdb es hne (fun e he => ⟨hacc e he, (hidx e he).1, fun li hli => by rw [(hidx e he).2] at hli; cases hli⟩)


/-- non-vacuity: a Put with a 3-byte key on an existing table and a transaction with one comparison
and one operation per branch are accepted, so the theorems above apply to them -/
example :
    Api.kvPut [[116]] ⟨[116], ([1, 2, 3] : Bytes).length, (ByteArray.mk #[7]).size⟩ = .ok ∧
    Api.kvTxn [[116]] (apiTxn [116] [⟨.equal, [97], none, none⟩] [.put [98] (ByteArray.mk #[2]) false]
      [.del [99] none false false]) = .ok := by
  decide

end Regatta.Props.C16Compose
