import Regatta.Proofs.Restore
/-
  C07 — Restoring a table stream reproduces exactly the content that was captured.

  Model: `Regatta.SnapStream` — `commandSnapshot` (the stream: one PUT per user pair of a
  point-in-time view plus the index), the terminating DUMMY of the leader stream, `readIntoTable`
  (batching by half of the in-memory log size, leader-index hand-over, the final proposal), applied
  to a fresh shard by the table state machine model (`Fsm.update`, PUT_BATCH).  Framing and chunking
  of the transport are C18.  Tied to the code by restoring real backup files and real leader
  streams through Manager.Restore on real engines configured with MaxInMemLogSize in
  {0, 4096, 4097, 6000, 8192, 65536, 6 MiB}.
-/
namespace Regatta.Props.C07
open Regatta Regatta.Fsm Regatta.Key Regatta.Refine Regatta.SnapStream

/-- **restore is exact, for every configuration**: for every well-formed source table, every
`MaxInMemLogSize` (0 = unlimited included), every assignment of byte sizes to the stream's messages
(i.e. wherever the batch thresholds fall — on any record, on the terminating DUMMY, nowhere):
loading the backup stream or the leader stream into a fresh shard succeeds and the restored shard's
user map is exactly the captured one — no pair lost (what defect D2 broke), altered or added; and
after loading a leader stream the recorded leader index is the index the stream declares -/
theorem c07_restore_exact (src : Db) (h : WF src) (maxInMem : Nat) (msgs : List (Nat × Msg))
    (hsmall : msgs.length + 3 < 18446744073709551616)
    (hidx : readIndex src sysLocalIndex < 18446744073709551616)
    (hstream : msgs.map (·.2) = backupStream src ∨ msgs.map (·.2) = leaderStream src) :
    ∃ db' rs n, update [] (toEntries 1 (readIntoTable maxInMem msgs)) = .ok (db', rs, n) ∧ WF db' ∧
      absU db' = absU src ∧
      (msgs.map (·.2) = leaderStream src → readIndex db' sysLeaderIndex = readIndex src sysLocalIndex) :=
  restore_exact src h maxInMem msgs hsmall hidx hstream

/-- the batches of all proposals, concatenated, are the pairs of all messages in order, whatever
the thresholds -/
theorem c07_no_record_dropped (maxInMem : Nat) (msgs : List (Nat × Msg)) :
    ((readIntoTable maxInMem msgs).map (·.batch)).flatten = msgs.map (·.2.kv) := by
  have := readLoop_batches maxInMem msgs 0 [] none
  simpa [readIntoTable] using this

/-- **nothing of the pre-restore content survives**: the stream is loaded into a *fresh* shard (the
theorem above starts from the empty store), and the table is switched to that shard afterwards — the
catalogue side of the switch (new id from the sequence, never used before) is C14 -/
theorem c07_fresh_shard : WF ([] : Db) ∧ absU ([] : Db) = [] := ⟨wf_nil, rfl⟩

/-- **the stream is a function of one store value**: its PUT commands are exactly the pairs of the
user map of the store it was taken from, in key order — bookkeeping records and the
empty-user-key record contribute nothing — and the index it declares is that store's applied index.
(That the store value is a point-in-time view while writes continue is Pebble's snapshot; the
correspondence run checks it against concurrent writers.) -/
theorem c07_stream_is_snapshot (db : Db) (h : WF db) :
    ((commandSnapshot db).1.map Msg.kv).filter (fun p => !p.1.isEmpty) = absU db ∧
    (commandSnapshot db).2 = readIndex db sysLocalIndex :=
  ⟨commandSnapshot_pairs db h, rfl⟩

/-- observation O1: the terminating DUMMY of a leader stream is appended to the batch as an
empty pair and becomes a record with an *empty* user key in the restored shard; it is invisible —
below every expressible range, never a user pair of the stream taken from the restored table -/
theorem c07_empty_key_invisible (lo hi : Bytes) (hlo : lo ≠ []) :
    SMap.inRange (bounds lo hi).1 (bounds lo hi).2 emptyUserKey = false ∧ decodeUserExact emptyUserKey = none :=
  ⟨emptyUser_outside lo hi hlo, dec_emptyUser⟩

/-- checksum refusal, as decision logic over an abstract hash: `backup.Restore` sends a table's
file only if its MD5 equals the manifest's -/
def restoreSends (md5OfFile manifestMd5 : String) : Bool := md5OfFile == manifestMd5

theorem c07_checksum_refused (f m : String) (h : f ≠ m) : restoreSends f m = false := by
  simp [restoreSends, h]

/-- non-vacuity / regression for D2: three records, `MaxInMemLogSize = 20` so that every record
crosses the threshold, and 0 (unlimited): in both cases all three pairs are proposed -/
example :
    let msgs : List (Nat × Msg) := [(15, .put [1] ⟨#[1]⟩), (15, .put [2] ⟨#[2]⟩), (15, .put [3] ⟨#[3]⟩)]
    ((readIntoTable 20 msgs).map (fun p => p.batch.map (·.1))) = [[[1]], [[2]], [[3]], []] ∧
    ((readIntoTable 0 msgs).map (fun p => p.batch.map (·.1))) = [[[1], [2], [3]]] := by decide

end Regatta.Props.C07
