import Regatta.Extracted.Facts
import Regatta.Proofs.MetaSys
/-
  C15 — At most one follower node holds a table's replication lease at a time.

  `World.step` on `Call.leaseStart / leaseSet / returnStart / returnDel` transcribes
  Manager.LeaseTable / ReturnTable (storage/table/manager.go) as read-then-write pairs of single
  metadata-store calls; `System.run` is any interleaving of such calls of any number of nodes with a
  shared non-decreasing clock (`Ev.tick`).  The lease record in the store is the only source of
  holding: a node holds the lease of a table while the record names it and is not expired.
-/
namespace Regatta.Props.C15
open Regatta.Meta

/-- the invariant holds in every reachable state, for every interleaving, any number of nodes -/
theorem c15_invariant (evs : List Ev) : LInv (System.run {} evs) := linv_run evs {} linv_init

/-- **a request gets to its write only if, at its read, the table was unclaimed, leased to the
caller, or the previous lease had expired** -/
theorem c15_request_condition (w : World) (node : Nat) (name : String) (dur : Int) (rv : Nat)
    (h : (w.step (.leaseStart node name dur)).2 = .leaseSet node name dur rv) :
    w.store.get? (leaseKey name) = none ∨
    ∃ p l, w.store.get? (leaseKey name) = some p ∧ p.value = .lease l ∧ p.ver = rv ∧
      (l.id = node ∨ l.expires < w.now) := by
  simp only [World.step] at h
  split at h
  · rename_i hg; exact Or.inl hg
  · rename_i k l ver hg
    split at h
    · rename_i hdec
      injection h with _ _ _ hrv
      exact Or.inr ⟨_, l, hg, rfl, hrv, hdec⟩
    · cases h
  · cases h

/-- **no stealing**: in every reachable state, when the write of a pending lease request succeeds,
the record it replaces was absent, named the caller, or was expired — an unexpired lease of another
node is never overwritten, whatever happened between the request's read and its write -/
theorem c15_no_steal (evs : List Ev) (id node : Nat) (name : String) (dur : Int) (rv : Nat)
    (hmem : (id, Call.leaseSet node name dur rv) ∈ (System.run {} evs).calls)
    (hok : ((System.run {} evs).w.step (.leaseSet node name dur rv)).2 = .doneOk) :
    (System.run {} evs).w.store.get? (leaseKey name) = none ∨
    ∃ p l, (System.run {} evs).w.store.get? (leaseKey name) = some p ∧ p.value = .lease l ∧
      (l.id = node ∨ l.expires < (System.run {} evs).w.now) := by
  have hinv := c15_invariant evs
  generalize System.run {} evs = s at *
  have hc : LeaseOK s.w (.leaseSet node name dur rv) := hinv.calls _ hmem
  obtain ⟨_, h2⟩ := hc
  cases hg : s.w.store.get? (leaseKey name) with
  | none => exact Or.inl rfl
  | some p =>
    right
    -- the write succeeded, so the stored version is the one that was read
    have hv : p.ver = rv := by
      by_cases hv : p.ver = rv
      · exact hv
      · exfalso
        simp only [World.step, World.propose] at hok
        have := (applyUpd_existing s.w.store s.w.index ⟨.set, leaseKey name, .lease ⟨node, s.w.now + dur⟩, rv⟩ p hg).1 hv
        rw [this] at hok
        simp at hok
    obtain ⟨l, hl, hor⟩ := h2 p hg hv
    exact ⟨p, l, rfl, hl, hor⟩

/-- **of racing requests at most one succeeds**: two pending requests for the same table; once the
write of one has succeeded, the write of the other is refused with a version mismatch (the version
it read is older than the one the winner stamped) -/
theorem c15_race_one_winner (evs : List Ev) (i j n1 n2 : Nat) (name : String) (d1 d2 : Int) (rv1 rv2 : Nat)
    (_h1 : (i, Call.leaseSet n1 name d1 rv1) ∈ (System.run {} evs).calls)
    (h2 : (j, Call.leaseSet n2 name d2 rv2) ∈ (System.run {} evs).calls)
    (hok : ((System.run {} evs).w.step (.leaseSet n1 name d1 rv1)).2 = .doneOk) :
    (((System.run {} evs).w.step (.leaseSet n1 name d1 rv1)).1.step (.leaseSet n2 name d2 rv2)).2
      = .doneErr .versionMismatch := by
  have hinv := c15_invariant evs
  generalize System.run {} evs = s at *
  obtain ⟨hrv2, _⟩ : LeaseOK s.w (.leaseSet n2 name d2 rv2) := hinv.calls _ h2
  -- the winner's write stored the record under version `s.w.index`
  have hstore : ((s.w.step (.leaseSet n1 name d1 rv1)).1.store.get? (leaseKey name)) =
      some ⟨leaseKey name, .lease ⟨n1, s.w.now + d1⟩, s.w.index⟩ := by
    simp only [World.step, World.propose] at hok ⊢
    rcases applyUpd_cases s.w.store s.w.index ⟨.set, leaseKey name, .lease ⟨n1, s.w.now + d1⟩, rv1⟩ with ⟨he, _⟩ | ⟨cur, _, _, he⟩
    · rw [he] at hok ⊢
      simp only [applyOp] at hok ⊢
      exact get?_put_same _ _
    · rw [he] at hok; simp at hok
  generalize (s.w.step (.leaseSet n1 name d1 rv1)).1 = w' at *
  simp only [World.step, World.propose]
  have := (applyUpd_existing w'.store w'.index ⟨.set, leaseKey name, .lease ⟨n2, w'.now + d2⟩, rv2⟩ _ hstore).1
    (by simp only; omega)
  rw [this]

/-- **returning only ever removes the caller's own lease**: a return request proceeds to its delete
only if the record it read names the caller, and the delete takes effect only on that very record
version -/
theorem c15_return_own_only (w : World) (node : Nat) (name : String) (ver : Nat)
    (h : (w.step (.returnStart node name)).2 = .returnDel node name ver) :
    ∃ p l, w.store.get? (leaseKey name) = some p ∧ p.value = .lease l ∧ l.id = node ∧ p.ver = ver := by
  simp only [World.step] at h
  split at h
  · cases h
  · rename_i k l v hg
    split at h
    · cases h
    · rename_i hid
      injection h with _ _ hv
      exact ⟨_, l, hg, rfl, by simpa using hid, hv⟩
  · cases h

theorem c15_return_cas (w : World) (node : Nat) (name : String) (ver : Nat) (p : Pair CVal)
    (hg : w.store.get? (leaseKey name) = some p) (hne : p.ver ≠ ver) :
    (w.step (.returnDel node name ver)).2 = .doneErr .versionMismatch ∧
    (w.step (.returnDel node name ver)).1.store = w.store := by
  simp only [World.step, World.propose]
  have := (applyUpd_existing w.store w.index ⟨.delete, leaseKey name, .none_, ver⟩ p hg).1 hne
  rw [this]
  exact ⟨rfl, rfl⟩

/-- non-vacuity: the classic race — A reads, B reads, A writes, B writes: A acquires, B gets a
version mismatch; then time passes beyond A's lease and B acquires -/
example :
    let s := System.run {} [.start 1 (.leaseStart 1 "t" 10), .start 2 (.leaseStart 2 "t" 10),
      .sched 1, .sched 2, .sched 1, .sched 2, .tick 11, .start 3 (.leaseStart 2 "t" 10), .sched 3, .sched 3]
    (s.calls.map (fun c => (c.1, match c.2 with | .doneOk => 1 | .doneErr .versionMismatch => 2 | _ => 0)))
      = [(3, 1), (2, 2), (1, 1)] := by decide

end Regatta.Props.C15

namespace Regatta.Props.C15

/-! ### what a replication worker BELIEVES (replication/worker.go, the lease routine of `Start`)

Every `leaseInterval` the worker asks `LeaseTable(table, 4 × leaseInterval)`; its `leased` flag becomes
true exactly when that request succeeds and false when it fails - for WHATEVER reason - and the
replication routine does nothing while the flag is false.  The flag is the link between the lease in
the store (this file) and C05's assumption that one worker per table is active. -/

/-- one tick of the lease routine as the flag sees it: the time of the tick and whether the request succeeded -/
structure Renewal where
  time : Int
  ok : Bool

/-- the flag after a sequence of ticks (oldest first): the outcome of the last one; false before the first -/
def flagAfter (rs : List Renewal) : Bool := (rs.getLast?.map (·.ok)).getD false

/-- the expiry the last successful request wrote, if the last request succeeded -/
def believedUntil (dur : Int) (rs : List Renewal) : Option Int :=
  match rs.getLast? with
  | some r => if r.ok then some (r.time + dur) else none
  | none => none

/-- **the flag is true only on the strength of the LAST request**: if the worker believes it holds the
lease, its last request succeeded, i.e. (by `c15_request_condition` / `c15_no_steal`) at that moment the
store recorded this node as holder until `time + dur`; a failed request - lost race, time-out, store
unavailable, anything - clears the belief at once (this is what seeded change C15-e removed) -/
theorem c15_flag_means_last_request_succeeded (dur : Int) (rs : List Renewal) (h : flagAfter rs = true) :
    ∃ r, rs.getLast? = some r ∧ r.ok = true ∧ believedUntil dur rs = some (r.time + dur) := by
  unfold flagAfter at h
  cases hl : rs.getLast? with
  | none => rw [hl] at h; simp at h
  | some r =>
    rw [hl] at h
    simp only [Option.map_some, Option.getD_some] at h
    exact ⟨r, rfl, h, by simp [believedUntil, hl, h]⟩

/-- … so, as long as ticks are not later than the lease lasts (`now < time + dur`: the routine ticks every
`dur / 4`), a worker that believes it holds the lease holds an unexpired one; two nodes whose workers
both believe so at one instant would both hold unexpired leases of the table, which the store never
shows (`c15_invariant`: the record names one node) -/
theorem c15_belief_within_lease (dur now : Int) (rs : List Renewal) (h : flagAfter rs = true)
    (htick : ∀ r, rs.getLast? = some r → now < r.time + dur) :
    ∃ u, believedUntil dur rs = some u ∧ now < u := by
  obtain ⟨r, hl, _, hb⟩ := c15_flag_means_last_request_succeeded dur rs h
  exact ⟨r.time + dur, hb, htick r hl⟩

/-- a failed request ends the belief whatever came before -/
theorem c15_failed_request_clears (rs : List Renewal) (t : Int) : flagAfter (rs ++ [⟨t, false⟩]) = false := by
  simp [flagAfter]

example : flagAfter [⟨0, true⟩, ⟨5, true⟩] = true ∧ flagAfter [⟨0, true⟩, ⟨5, false⟩] = false ∧ flagAfter [] = false := by
  decide

/-- **the lease routine of the current source is the one modelled**: the clause of `(*worker).Start` that
calls `LeaseTable`, read with go/parser on every run (the function's own identifiers renamed in order of declaration: x1 = the
worker, x3 = err, x4 = prev) - the request with four lease intervals, then the
flag set on `err == nil` and cleared on EVERY other outcome, nothing in between - and the uses of the
flag in the function: the two swaps and the one load that gates the replication routine -/
theorem c15_worker_lease_clause_matches_source :
    Regatta.Extracted.workerLeaseClause =
      "x3 := x1.engine.LeaseTable(x1.table, x1.leaseInterval*4) ; if x3 == nil { x4 := x1.leased.Swap(true) if !x4 { x1.metrics.replicationLeased.Set(1) } } else { x4 := x1.leased.Swap(false) if x4 { x1.metrics.replicationLeased.Set(0) } } ; " ∧
    Regatta.Extracted.workerLeasedUses = ["x1.leased.Swap(true)", "x1.leased.Swap(false)", "x1.leased.Load()"] :=
  ⟨rfl, rfl⟩

end Regatta.Props.C15
