import Regatta.Proofs.Wire
import Regatta.Proofs.WireMsg
import Regatta.Proofs.WireTree
/-
  C18 — Wire codecs and stream framing are lossless for every message and chunking.

  Model: `Regatta.Wire` — protobuf varints, the vtproto encoding of KeyValue / Compare / RequestOp /
  Txn / Command (recursive) / SnapshotChunk, the 8-byte little-endian length-prefixed command file,
  the chunk stream (Writer.ReadFrom, Reader.WriteTo, Reader.Read).  The encoders are tied to the
  code byte for byte (the registered codec's output for random message trees must equal the Lean
  encoding); decoding (`Model/WireDec.lean`, the shape of the generated UnmarshalVT) is proved to
  invert the encoding for every one of these messages — all oneof arms, absent vs present-empty
  optional fields, arbitrary nesting depth of Command — plus the pool-reuse law for SnapshotChunk,
  the type the stream readers recycle; the real decoder is checked against the same bytes.
  Compression algorithms (snappy, gzip, zstd) are third-party and not modelled: their round trips
  under concurrent use of the pooled state are *tests* in the correspondence run, not theorems.
-/
namespace Regatta.Props.C18
open Regatta Regatta.Wire

/-- varints round-trip, for every value and whatever follows in the stream -/
theorem c18_varint (n : Nat) (rest : Bytes) : decVarint (encVarint n ++ rest) = some (n, rest) :=
  dec_enc_varint n rest

/-- **framing**: a sequence of commands written to the snapshot file is read back as the same
sequence with the same message boundaries (empty messages are not written) -/
theorem c18_frames (ms : List Bytes) (hok : MsgsOK ms) :
    parseFrames (frames ms).length (frames ms) = some (ms.filter (fun m => !m.isEmpty)) := by
  apply parse_frames ms hok
  -- every non-empty message occupies at least one byte of the file, so the file length bounds
  -- the number of reads
  clear hok
  induction ms with
  | nil => simp
  | cons m rest ih =>
    have hfr : frames (m :: rest) = (if m.isEmpty then [] else le64 m.length ++ m) ++ frames rest := by
      simp [frames]
    rw [hfr, List.length_append, List.filter_cons]
    by_cases hm : m.isEmpty = true
    · simp only [hm, Bool.not_true, Bool.false_eq_true, if_false, if_true, List.length_nil]
      omega
    · simp only [hm, Bool.false_eq_true, if_false, Bool.not_eq_true', Bool.not_false, if_true, List.length_cons,
        List.length_append, le64_length]
      omega

/-- **any sequence of writes, also empty ones, arrives as their concatenation**: `Writer.Write` sends
one chunk per call whatever the size of the slice, `Reader.WriteTo` writes the data of every chunk it
receives (into one recycled chunk object: an empty chunk must not repeat the previous one's data -
the run `ship` of mode frames drives the real reader with such streams) -/
theorem c18_ship_any_writes (ps : List Bytes) : readerWriteTo (ps.map writerWrite) = ps.flatten := by
  simp [readerWriteTo, writerWrite, List.map_map, Function.comp_def]

/-- **chunking**: whatever the chunk size and wherever chunk boundaries fall (whatever the reads of
the file return), the receiver reassembles exactly the sender's byte stream … -/
theorem c18_chunks (reads : List Bytes) : readerWriteTo (writerReadFrom reads) = reads.flatten :=
  chunks_identity reads

/-- … hence, with the framing theorem, the command sequence survives file → chunk stream → file:
for every way of cutting the file into reads -/
theorem c18_ship (ms : List Bytes) (hok : MsgsOK ms) (reads : List Bytes) (hcut : reads.flatten = frames ms) :
    parseFrames (readerWriteTo (writerReadFrom reads)).length (readerWriteTo (writerReadFrom reads)) =
      some (ms.filter (fun m => !m.isEmpty)) := by
  rw [c18_chunks, hcut]
  exact c18_frames ms hok

/-- `Reader.Read` hands a chunk's data through unchanged when the buffer is large enough (it
refuses with short-buffer otherwise) -/
theorem c18_reader_read (reads : List Bytes) (c : SnapshotChunk) (hc : c ∈ writerReadFrom reads) (n : Nat)
    (hn : c.len ≤ n) : readerRead c n = some c.data :=
  reader_read c n (chunks_len reads c hc).1 hn

/-- **messages**: SnapshotChunk survives encode / decode unchanged … -/
theorem c18_chunk_message (c : SnapshotChunk) : SnapshotChunk.dec c.enc = some c := SnapshotChunk.dec_enc c

/-- … also when the receiving object is recycled from the pool (`ResetVT`), whatever it held before;
without the reset a stale field would survive (witness) -/
theorem c18_pool_reuse (dirty : SnapshotChunk) (b : Bytes) :
    SnapshotChunk.decInto dirty.resetVT b = SnapshotChunk.dec b := SnapshotChunk.pool_reuse dirty b

theorem c18_pool_needs_reset_witness :
    SnapshotChunk.decInto ⟨[7], 1, 9⟩ (SnapshotChunk.enc ⟨[5], 1, 0⟩) = some ⟨[5], 1, 9⟩ ∧
    SnapshotChunk.dec (SnapshotChunk.enc ⟨[5], 1, 0⟩) = some ⟨[5], 1, 0⟩ := SnapshotChunk.no_reset_witness

/-- **every mvcc message survives encode / decode**: KeyValue, RequestOp (range / put / delete arm
and the empty oneof), Compare (with and without the oneof value), Txn … -/
theorem c18_keyvalue_message (kv : KeyValue) : KeyValue.decode kv.enc = some kv := KeyValue.decode_enc kv

/-- **recycled receivers**: a batch element decoded into a retained object that went through
`Reset()` is the original, whatever the object held before … -/
theorem c18_recycled_keyvalue (old kv : KeyValue) : KeyValue.decodeInto old.reset kv.enc = some kv :=
  KeyValue.decode_enc kv

/-- … and so is a whole batch decoded into the retained objects of a recycled `Command`, whatever
their number and former content (more, fewer or as many as the message has elements) -/
theorem c18_recycled_batch (ret kvs : List KeyValue) :
    batchInto (ret.map KeyValue.reset) (kvs.map KeyValue.enc) = some kvs := by
  induction kvs generalizing ret with
  | nil => cases ret <;> rfl
  | cons kv kvs ih =>
    cases ret with
    | nil =>
      have := ih []
      simp only [List.map_nil] at this
      simp [batchInto, KeyValue.decode_enc, this]
    | cons r ret =>
      simp only [List.map_cons, batchInto, c18_recycled_keyvalue, ih ret]
      rfl

/-- the `Reset()` is needed (what seeded change C18-g removed): a retained object that still holds a
value gives it to every later element whose own value is empty - proto3 does not put an empty value
on the wire, so nothing overwrites it -/
theorem c18_recycled_needs_reset :
    ∃ old kv : KeyValue, KeyValue.decodeInto old kv.enc ≠ some kv :=
  ⟨⟨[], 0, 0, [1]⟩, ⟨[], 0, 0, []⟩, by
    simp [KeyValue.decodeInto, KeyValue.enc, bytesField, varintField, fieldsOf, decFields,
      KeyValue.ofFieldsInto]⟩
theorem c18_requestop_message (o : RequestOp) : RequestOp.decode o.enc = some o := RequestOp.decode_enc o
theorem c18_compare_message (c : Compare) : Compare.decode c.enc = some c := Compare.decode_enc c
theorem c18_txn_message (t : Txn) : Txn.decode t.enc = some t := Txn.decode_enc t

/-- … and **Command**, the recursive one (sequences of sequences …): for every command tree, with
the decoder's nesting budget at least the tree's depth, decoding its encoding gives exactly the
tree back — table, type, the optional KeyValue, the optional leader index (absent ≠ 0), the batch in
order, the optional Txn, the optional range end (absent ≠ present-and-empty), both flags, and every
sub-command in order -/
theorem c18_command_message (c : Command) (fuel : Nat) (h : c.depth ≤ fuel) : Command.decode fuel c.enc = some c :=
  Command.decode_enc c fuel h

/-- consequently the encoding is injective: two different command trees never share an encoding -/
theorem c18_command_injective (c d : Command) (h : c.enc = d.enc) : c = d := by
  have h1 := Command.decode_enc c (max c.depth d.depth) (Nat.le_max_left _ _)
  have h2 := Command.decode_enc d (max c.depth d.depth) (Nat.le_max_right _ _)
  rw [h, h2] at h1
  exact (Option.some.inj h1).symm

/-- absent and present-but-empty are different messages and stay different: `range_end` of a
DELETE command (what `handleDelete` branches on) and the leader index 0 of a table reset -/
example :
    Command.enc (.mk [116] 1 none none [] none (some []) false [] false) ≠
      Command.enc (.mk [116] 1 none none [] none none false [] false) ∧
    Command.enc (.mk [116] 2 none (some 0) [] none none false [] false) ≠
      Command.enc (.mk [116] 2 none none [] none none false [] false) := by
  refine ⟨fun h => ?_, fun h => ?_⟩
  · have := c18_command_injective _ _ h; cases this
  · have := c18_command_injective _ _ h; cases this

/-- **EVERY message of EVERY message type survives encode / decode**: a message value is the tree
of its populated fields (varint, 64-bit, 32-bit, length-delimited scalars; embedded messages — one
per element of a repeated field, oneof arm or map entry), a schema says which field numbers are
embedded messages; for every schema, every tree that conforms to it and every nesting budget above
the tree's depth, decoding the encoding gives exactly the tree back.  The schemas of all 51 message
types of the API (incl. `google.protobuf.Struct` inside the status response) are read from the
compiled descriptors on every run (mode `gmsg`), where this decoder and encoder are compared with
the registered codec on random values of every type -/
theorem c18_any_message (s : Schema) (ts : List Tree) (fuel : Nat) (hc : Tree.conformsList s ts = true)
    (hd : Tree.depthList ts ≤ fuel) : Tree.decode (fuel + 1) s (Tree.encList ts) = some ts :=
  Tree.decode_enc s ts fuel hc hd

/-- non-vacuity: a schema with an embedded message at field 7 that itself embeds one at field 1; a
tree with all four wire types and two levels of nesting conforms and round-trips -/
example :
    let s : Schema := .mk [(7, .mk [(1, .mk [])])]
    let t : List Tree := [.varint 2 300, .bytes 1 [1, 2, 3], .fixed64 9 [1, 2, 3, 4, 5, 6, 7, 8],
      .sub 7 [.sub 1 [.varint 3 1], .sub 1 [], .fixed32 4 [9, 9, 9, 9]], .bytes 8 []]
    Tree.conformsList s t = true ∧ Tree.depthList t = 2 ∧ Tree.decode 3 s (Tree.encList t) = some t := by
  refine ⟨by decide, by decide, ?_⟩
  exact Tree.decode_enc _ _ 2 (by decide) (by decide)

/-- any sequence of small-numbered fields decodes to itself (the building block of the message
decoders) -/
theorem c18_fields (fs : List Field) (hf : ∀ f ∈ fs, f.num < 15) :
    decFields (encFields fs).length (encFields fs) = some fs :=
  decFields_enc fs hf _ (encFields_length fs)

/-- non-vacuity: three messages, one of them empty, one of 300 bytes (two-byte varint territory) -/
example : MsgsOK [[1, 2, 3], [], [7, 7, 7, 7, 7]] ∧
    (frames [[1, 2, 3], [], [7, 7, 7, 7, 7]]).length = 8 + 3 + 8 + 5 := by
  refine ⟨fun m hm => ?_, by decide⟩
  simp only [List.mem_cons, List.mem_nil_iff, or_false] at hm
  rcases hm with rfl | rfl | rfl <;> simp

end Regatta.Props.C18
