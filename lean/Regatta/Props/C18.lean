import Regatta.Proofs.Wire
/-
  C18 — Wire codecs and stream framing are lossless for every message and chunking.

  Model: `Regatta.Wire` — protobuf varints, the vtproto encoding of KeyValue / Compare / RequestOp /
  Txn / Command (recursive) / SnapshotChunk, the 8-byte little-endian length-prefixed command file,
  the chunk stream (Writer.ReadFrom, Reader.WriteTo, Reader.Read).  The encoders are tied to the
  code byte for byte (the registered codec's output for random message trees must equal the Lean
  encoding); decoding is proved for the flat messages (SnapshotChunk — the type the stream readers
  recycle — with the pool-reuse law) and checked against the real decoder for all of them.
  Compression algorithms (snappy, gzip, zstd) are third-party and not modelled: their round trips
  under concurrent use of the pooled state are *tests* in the correspondence run, not theorems.
-/
namespace Regatta.Props.C18
open Regatta Regatta.Wire

/-- varints round-trip, for every value and whatever follows in the stream -/
theorem c18_varint (n : Nat) (rest : Bytes) : decVarint (encVarint n ++ rest) = some (n, rest) :=
  dec_enc_varint n rest

/-- **framing**: a sequence of commands written to the snapshot file is read back as the same
sequence with the same message boundaries (empty messages are not written) -/
theorem c18_frames (ms : List Bytes) (hok : MsgsOK ms) :
    parseFrames (frames ms).length (frames ms) = some (ms.filter (fun m => !m.isEmpty)) := by
  apply parse_frames ms hok
  -- every non-empty message occupies at least one byte of the file, so the file length bounds
  -- the number of reads
  clear hok
  induction ms with
  | nil => simp
  | cons m rest ih =>
    have hfr : frames (m :: rest) = (if m.isEmpty then [] else le64 m.length ++ m) ++ frames rest := by
      simp [frames]
    rw [hfr, List.length_append, List.filter_cons]
    by_cases hm : m.isEmpty = true
    · simp only [hm, Bool.not_true, Bool.false_eq_true, if_false, if_true, List.length_nil]
      omega
    · simp only [hm, Bool.false_eq_true, if_false, Bool.not_eq_true', Bool.not_false, if_true, List.length_cons,
        List.length_append, le64_length]
      omega

/-- **chunking**: whatever the chunk size and wherever chunk boundaries fall (whatever the reads of
the file return), the receiver reassembles exactly the sender's byte stream … -/
theorem c18_chunks (reads : List Bytes) : readerWriteTo (writerReadFrom reads) = reads.flatten :=
  chunks_identity reads

/-- … hence, with the framing theorem, the command sequence survives file → chunk stream → file:
for every way of cutting the file into reads -/
theorem c18_ship (ms : List Bytes) (hok : MsgsOK ms) (reads : List Bytes) (hcut : reads.flatten = frames ms) :
    parseFrames (readerWriteTo (writerReadFrom reads)).length (readerWriteTo (writerReadFrom reads)) =
      some (ms.filter (fun m => !m.isEmpty)) := by
  rw [c18_chunks, hcut]
  exact c18_frames ms hok

/-- `Reader.Read` hands a chunk's data through unchanged when the buffer is large enough (it
refuses with short-buffer otherwise) -/
theorem c18_reader_read (reads : List Bytes) (c : SnapshotChunk) (hc : c ∈ writerReadFrom reads) (n : Nat)
    (hn : c.len ≤ n) : readerRead c n = some c.data :=
  reader_read c n (chunks_len reads c hc).1 hn

/-- **messages**: SnapshotChunk survives encode / decode unchanged … -/
theorem c18_chunk_message (c : SnapshotChunk) : SnapshotChunk.dec c.enc = some c := SnapshotChunk.dec_enc c

/-- … also when the receiving object is recycled from the pool (`ResetVT`), whatever it held before;
without the reset a stale field would survive (witness) -/
theorem c18_pool_reuse (dirty : SnapshotChunk) (b : Bytes) :
    SnapshotChunk.decInto dirty.resetVT b = SnapshotChunk.dec b := SnapshotChunk.pool_reuse dirty b

theorem c18_pool_needs_reset_witness :
    SnapshotChunk.decInto ⟨[7], 1, 9⟩ (SnapshotChunk.enc ⟨[5], 1, 0⟩) = some ⟨[5], 1, 9⟩ ∧
    SnapshotChunk.dec (SnapshotChunk.enc ⟨[5], 1, 0⟩) = some ⟨[5], 1, 0⟩ := SnapshotChunk.no_reset_witness

/-- any sequence of small-numbered fields decodes to itself (the building block of the message
decoders) -/
theorem c18_fields (fs : List Field) (hf : ∀ f ∈ fs, f.num < 15) :
    decFields (encFields fs).length (encFields fs) = some fs :=
  decFields_enc fs hf _ (encFields_length fs)

/-- non-vacuity: three messages, one of them empty, one of 300 bytes (two-byte varint territory) -/
example : MsgsOK [[1, 2, 3], [], [7, 7, 7, 7, 7]] ∧
    (frames [[1, 2, 3], [], [7, 7, 7, 7, 7]]).length = 8 + 3 + 8 + 5 := by
  refine ⟨fun m hm => ?_, by decide⟩
  simp only [List.mem_cons, List.mem_nil_iff, or_false] at hm
  rcases hm with rfl | rfl | rfl <;> simp

end Regatta.Props.C18
