import Regatta.Proofs.Refine
import Regatta.Proofs.SpecKv
/-
  C03 — Replicas converge: state depends only on the log, not on how it is batched.
-/
namespace Regatta.Props.C03
open Regatta Regatta.Fsm Regatta.Refine Regatta.Key

/-- **batching independence**: cutting a log `a ++ b` into two apply calls gives the same visible
content, the same applied and leader index and the same per-entry results as applying it in one
call (by induction: any partition into consecutive non-empty batches) -/
theorem c03_batching_independent (db : Db) (h : WF db) (a b : List Entry) (ha : a ≠ []) (hb : b ≠ [])
    (hea : ∀ e ∈ a, EntryWF e) (heb : ∀ e ∈ b, EntryWF e) :
    ∃ dbAll n dbA n1 dbB n2 rsAll rsA rsB,
      update db (a ++ b) = .ok (dbAll, rsAll, n) ∧
      update db a = .ok (dbA, rsA, n1) ∧ update dbA b = .ok (dbB, rsB, n2) ∧
      absT dbAll = absT dbB ∧ rsAll = rsA ++ rsB := by
  obtain ⟨dbAll, n, e0, _, a0⟩ := update_refines db h (a ++ b) (by simp [ha])
    (fun e he => by rcases List.mem_append.mp he with h | h; exact hea e h; exact heb e h)
  obtain ⟨dbA, n1, e1, w1, a1⟩ := update_refines db h a ha hea
  obtain ⟨dbB, n2, e2, _, a2⟩ := update_refines dbA w1 b hb heb
  refine ⟨dbAll, n, dbA, n1, dbB, n2, _, _, _, e0, e1, e2, ?_, ?_⟩
  · rw [a0, a2, a1, Spec.applyLog_append]
  · rw [a1, Spec.applyLog_append]

/-- … for every partition into consecutive non-empty apply calls -/
theorem c03_any_partition (batches : List (List Entry)) (hb : ∀ b ∈ batches, b ≠ [] ∧ ∀ e ∈ b, EntryWF e)
    (db : Db) (h : WF db) :
    ∃ db', batches.foldlM (fun d b => (update d b).map (·.1)) db = .ok db' ∧
      absT db' = (Spec.applyLog (absT db) batches.flatten).1 := by
  induction batches generalizing db with
  | nil => exact ⟨db, rfl, rfl⟩
  | cons b rest ih =>
    obtain ⟨hne, hes⟩ := hb b (by simp)
    obtain ⟨db1, n, e1, w1, a1⟩ := update_refines db h b hne hes
    obtain ⟨db', e2, a2⟩ := ih (fun x hx => hb x (by simp [hx])) db1 w1
    refine ⟨db', ?_, ?_⟩
    · simp only [List.foldlM_cons, e1, Except.map, bind, Except.bind]
      exact e2
    · rw [a2, a1, List.flatten_cons, Spec.applyLog_append]

/-- hence two replicas that applied the same log prefix under *different* batchings are equal in
content and bookkeeping -/
theorem c03_replicas_agree (p q : List (List Entry)) (hp : ∀ b ∈ p, b ≠ [] ∧ ∀ e ∈ b, EntryWF e)
    (hq : ∀ b ∈ q, b ≠ [] ∧ ∀ e ∈ b, EntryWF e) (hsame : p.flatten = q.flatten) :
    ∃ d1 d2, p.foldlM (fun d b => (update d b).map (·.1)) [] = .ok d1 ∧
      q.foldlM (fun d b => (update d b).map (·.1)) [] = .ok d2 ∧ absT d1 = absT d2 := by
  obtain ⟨d1, e1, a1⟩ := c03_any_partition p hp [] wf_nil
  obtain ⟨d2, e2, a2⟩ := c03_any_partition q hq [] wf_nil
  exact ⟨d1, d2, e1, e2, by rw [a1, a2, hsame]⟩

/-- the leader index a replica records depends only on the log: it is the one carried by the last
entry that carried one (this is what defect D3 broke: `[li = 77, none]` in one call gave 0) -/
theorem c03_leader_index_of_log (db : Db) (h : WF db) (es : List Entry) (hne : es ≠ []) (hes : ∀ e ∈ es, EntryWF e)
    (db' : Db) (rs : List Result) (n : Nat) (hu : update db es = .ok (db', rs, n)) :
    readIndex db' sysLeaderIndex = Spec.lastLeader (readIndex db sysLeaderIndex) es := by
  obtain ⟨db2, n2, e, _, a⟩ := update_refines db h es hne hes
  rw [hu] at e
  injection e with e; injection e with e1 _; subst e1
  have := congrArg Spec.Table.leader a
  simp only [absT] at this
  rw [this, Spec.applyLog_leader]

/-- regression witness for D3 -/
example : Spec.lastLeader 0 [⟨1, some 77, .dummy⟩, ⟨2, none, .dummy⟩] = 77 := by decide

/-- the applied-index listener is told the leader index when the batch carried one, else the local
index of its last entry -/
theorem c03_notified (c : Ctx) : c.notified = c.leaderIndex.getD c.index := by
  unfold Ctx.notified; cases c.leaderIndex <;> rfl

end Regatta.Props.C03
