import Regatta.Proofs.Crash
import Regatta.Extracted.Facts
import Regatta.Props.C03
/-
  C04 — Crash recovery exposes exactly a prefix of the log, atomically and only once.

  Model: `Regatta.Crash` — the file-system steps of FSM.Open (first run / re-run), Update, Sync,
  Close, both snapshot recoverers and the helpers of pebble/dir.go over a volatile/durable image of
  the table directory; a crash may fall after ANY step of ANY operation, any number of times.  The
  content of a Pebble directory is abstract ("the state after the first j log entries", data and
  applied index in one batch, flushed atomically): that this state is exactly the specification's
  (and that re-applying the rest of the log converges, C03) is the refinement theorem of C01/C03;
  Pebble's own crash safety is assumed, and exercised by the crash runs on the real code.

  Tie: the harness records the file-system calls of every operation of the real FSM on Pebble's
  strict MemFS and the driver compares them with `Crash.ops`; it then crashes the real code after
  every sync of a scenario, reopens, and `Crash.oracle` decides the property on what it reports.
-/
namespace Regatta.Props.C04
open Regatta.Crash

/-- one step of a history: an operation that completes, or one cut by a crash after `k` of its
file-system steps (`k = 0`: a crash between operations) -/
inductive Step
  | run (e : Event)
  | crash (e : Event) (k : Nat)

def exec (s : St) : Step → St
  | .run e => s.run (ops s e)
  | .crash e k => (s.run ((ops s e).take k)).crash

def Step.event : Step → Event
  | .run e => e
  | .crash e _ => e

/-- the states a table directory can be in: any history of enabled operations and crashes from an
empty (not yet existing) directory under a durable base directory -/
inductive Reach : St → Prop
  | init : Reach {}
  | step {s : St} (st : Step) : Reach s → Enabled s st.event → Reach (exec s st)

theorem inv_init : Inv ({} : St) := by
  refine ⟨⟨?_, fun _ => rfl⟩, ?_, fun _ => rfl, rfl, ?_, ?_, fun _ => Nat.le_refl _, ?_⟩
  · intro h; cases h
  · intro f hf; cases hf
  · intro h; cases h
  · intro h; cases h
  · intro m hm; cases hm

/-- every operation keeps every intermediate state crash-safe and re-establishes the invariant -/
theorem event_ok {s : St} {e : Event} (h : Inv s) (he : Enabled s e) :
    SafeAlong s (ops s e) ∧ Inv (s.run (ops s e)) := by
  cases e with
  | «open» n =>
    cases hc : s.cur with
    | none => exact ⟨(open_new_ok h he hc).1, (open_new_ok h he hc).2.1⟩
    | some f => exact ⟨(open_rerun_ok h he (by rw [hc]; rfl)).1, (open_rerun_ok h he (by rw [hc]; rfl)).2.1⟩
  | update j => exact update_ok h he
  | sync => exact ⟨(sync_ok h he).1, (sync_ok h he).2.1⟩
  | flush => exact flush_ok h he
  | recoverSnap n j => exact ⟨(recoverSnap_ok h he).1, (recoverSnap_ok h he).2.1⟩
  | recoverCkpt n j => exact ⟨(recoverCkpt_ok h he).1, (recoverCkpt_ok h he).2.1⟩
  | saveCkpt => exact saveCkpt_ok h
  | close => exact ⟨(close_ok h he).1, (close_ok h he).2.1⟩

/-- **the invariant holds in every reachable state**, whatever the history and wherever the
crashes fell (repeated crashes, crashes during recovery from a crash included) -/
theorem c04_invariant {s : St} (h : Reach s) : Inv s := by
  induction h with
  | init => exact inv_init
  | step st _ he ih =>
    cases st with
    | run e => exact (event_ok ih he).2
    | crash e k => exact (inv_crash ((event_ok ih he).1 k)).1

/-- **reopening after a crash at any point succeeds with a prefix not behind the last completed
sync**: take any reachable state, any enabled operation, a crash after any number `k` of its
file-system steps; opening the directory again (with any fresh random name at hand) ends with a
live store whose applied index `i` — and, by the abstraction, whose content is the log prefix up to
`i`, all of it and nothing else — is at least the index covered by the last `Sync()` that had
returned before the crash; the ghost `lastSync` survives the crash and the reopen unchanged, and the
invariant holds again, so the same is true of the next crash. -/
theorem c04_reopen_after_crash {s : St} (h : Reach s) (e : Event) (he : Enabled s e) (k : Nat) (n : Name) :
    let atCrash := s.run ((ops s e).take k)
    let c := atCrash.crash
    (n ∉ c.ents ∧ n ∉ c.entsD) →
    let s' := c.run (ops c (.open n))
    ∃ i, s'.liveIdx = some i ∧ atCrash.lastSync ≤ i ∧ s'.lastSync = atCrash.lastSync ∧ Inv s' := by
  intro atCrash c hfresh s'
  have hI := c04_invariant h
  have hsafe := (event_ok hI he).1 k
  obtain ⟨hIc, hlive, hls⟩ := inv_crash hsafe
  have hen : Enabled c (.open n) := ⟨hlive, hfresh.1, hfresh.2⟩
  cases hc : c.cur with
  | none =>
    obtain ⟨_, h2, h3, h4, h5⟩ := open_new_ok hIc hen hc
    refine ⟨0, h3, ?_, ?_, h2⟩
    · show atCrash.lastSync ≤ 0
      rw [← hls, h4]; exact Nat.le_refl _
    · show _ = atCrash.lastSync
      rw [h5, ← hls, h4]
  | some f =>
    obtain ⟨_, h2, ⟨i, h3, h4⟩, h5⟩ := open_rerun_ok hIc hen (by rw [hc]; rfl)
    exact ⟨i, h3, by rw [← hls]; exact h4, by rw [← hls]; exact h5, h2⟩

/-- a `Sync()` that returns leaves the live store exactly at the recorded index: what is synced is
what is applied, and the ghost never overstates it -/
theorem c04_sync_covers_applied {s : St} (h : Reach s) (he : Enabled s .sync) :
    (s.run (ops s .sync)).liveIdx = some (s.run (ops s .sync)).lastSync :=
  (sync_ok (c04_invariant h) he).2.2

/-- after the reopen the rest of the log can be applied and the replica is where the crash-free run
would be (at the level of this model: the index; for the content this is C03's determinism) -/
theorem c04_replay_converges {s : St} (m : Name) (hm : s.live = some m) (j : Nat) : (s.run (ops s (.update j))).liveIdx = some j := by
  have e : s.apply (.dbApply j) = s.setPd m ⟨.db j, (s.pd m).dur⟩ := by simp [St.apply, hm]
  have hr : s.run (ops s (.update j)) = s.setPd m ⟨.db j, (s.pd m).dur⟩ := by simp [ops, St.run, e]
  rw [hr]; simp [St.liveIdx, St.setPd, hm, Content.idx]

/-- … and for the content (C04 ∘ C03): the store found after a crash is the result of applying a
prefix `done` of the log (the abstraction of this model, C01); re-applying the rest `rest` — in
whatever batches the Raft library replays it — gives the very table (content, applied index, leader
index) that applying the whole log without a crash gives -/
theorem c04_replay_same_table (done rest : List Regatta.Fsm.Entry) (hd : done ≠ []) (hr : rest ≠ [])
    (hwd : ∀ e ∈ done, Regatta.Refine.EntryWF e) (hwr : ∀ e ∈ rest, Regatta.Refine.EntryWF e) :
    ∃ dbAll n dbA n1 dbB n2 rsAll rsA rsB,
      Regatta.Fsm.update [] (done ++ rest) = .ok (dbAll, rsAll, n) ∧
      Regatta.Fsm.update [] done = .ok (dbA, rsA, n1) ∧ Regatta.Fsm.update dbA rest = .ok (dbB, rsB, n2) ∧
      Regatta.Refine.absT dbAll = Regatta.Refine.absT dbB ∧ rsAll = rsA ++ rsB :=
  Regatta.Props.C03.c03_batching_independent [] Regatta.Refine.wf_nil done rest hd hr hwd hwr

/-- a snapshot recovery that completes leaves the replica exactly at the snapshot's index (C08) -/
theorem c04_recover_installs {s : St} (h : Reach s) (n : Name) (j : Nat) :
    (Enabled s (.recoverSnap n j) → (s.run (ops s (.recoverSnap n j))).liveIdx = some j) ∧
    (Enabled s (.recoverCkpt n j) → (s.run (ops s (.recoverCkpt n j))).liveIdx = some j) :=
  ⟨fun he => (recoverSnap_ok (c04_invariant h) he).2.2.1, fun he => (recoverCkpt_ok (c04_invariant h) he).2.2.1⟩

/-- **regression D8**: the first-open protocol as it was before the fix — `current` published before
the directory it names exists, the directory then created by Pebble and never linked durably —
reaches, after one applied batch and a completed `Sync()`, a state that is NOT crash-safe: the
durable `current` names a directory that has no durable entry. -/
def oldOpenNew (n : Name) : List FsOp := [.mkTableDir, .syncAnc] ++ publish n ++ [.dbOpen n, .setLive n]

theorem c04_d8_old_protocol_unsafe :
    ¬ DurSafe ((({} : St).run (oldOpenNew 7)).run [.dbApply 3, .dbFlush, .noteSync]) := by
  intro h
  obtain ⟨n, hn, hmem, _⟩ := h.1 rfl ⟨some 7, some 7⟩ rfl
  cases hmem

/-- the abstraction "a store holds the state after j log entries, index included" rests on data and
applied index reaching Pebble in ONE batch commit per apply call: in the current source (fact
regenerated on every run) the state machine package commits a batch at exactly one place,
`updateContext.Commit`, which writes the index into the same batch first -/
theorem c04_single_commit_site : Regatta.Extracted.fsmBatchCommitSites = ["command.go:Commit"] := rfl

/-- non-vacuity: a concrete history — first open, two batches, sync, a checkpoint-format recovery to
index 9, crash after the rename but before the directory sync of the switch, reopen — is reachable,
and the reopen reports index 5 (the old directory, still the durable `current`), not behind the
sync at 5 -/
example :
    let s1 := exec {} (.run (.open 1))
    let s2 := exec s1 (.run (.update 3))
    let s3 := exec s2 (.run (.update 5))
    let s4 := exec s3 (.run .sync)
    let s5 := exec s4 (.crash (.recoverCkpt 2 9) 8)
    let s6 := exec s5 (.run (.open 3))
    s4.lastSync = 5 ∧ s5.curName = some 1 ∧ s6.liveIdx = some 5 ∧
    (exec s4 (.crash (.recoverCkpt 2 9) 9)).curName = some 2 := by
  decide

end Regatta.Props.C04
