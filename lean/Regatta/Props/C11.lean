import Regatta.Proofs.QueueInv
import Regatta.Proofs.Refine
/-
  C11 — Writes through a follower are read-your-writes; waiting never wedges the node.

  Model: `Regatta.Queue` — the array heap of util/heap transcribed operation by operation and the
  event loop of storage.IndexNotificationQueue (Add / Notify / the one-second sweep / Len) with the
  capacity-1 waiter channels; a send that would block the loop goroutine and a send on / close of a
  closed channel are explicit outcomes (`Status.blocked`, `.panicked`).  Tied to the code by the
  queue correspondence run (real queue, real time) and the heap run (backing slice compared after
  every operation).  The apply-side half (what the state machine tells the listener, and when) is
  `Fsm.update` / `Fsm.Ctx.notified`, tied by the fsm runs, which record what a reader sees at the
  moment of each notification.
-/
namespace Regatta.Props.C11
open Regatta.Queue

/-- events of the queue -/
inductive QEv
  | add (w : Nat) (t : String) (rev ctx : Nat)
  | notify (t : String) (n : Nat)
  | sweep
  | cancel (c : Nat) (e : CtxErr)

def ev (s : QState) : QEv → QState
  | .add w t rev ctx => s.add w t rev ctx
  | .notify t n => s.notify t n
  | .sweep => s.sweep
  | .cancel c e => s.cancel c e

/-- every `Add` brings a new channel (waiter id not in use) -/
def RunOK : QState → List QEv → Prop
  | _, [] => True
  | s, e :: rest => (match e with | .add w _ _ _ => FreshId s w | _ => True) ∧ RunOK (ev s e) rest

def run (s : QState) (evs : List QEv) : QState := evs.foldl ev s

/-- **heap order is an invariant of all heap operations the queue uses** -/
theorem c11_heap_inv (l : Heap) (x : Item) (h : IsHeap l) :
    IsHeap (push l x) ∧ (l ≠ [] → IsHeap (pop l).1) ∧ IsHeap (heapify l) :=
  ⟨push_heap l x h, fun hne => pop_heap l hne h, (heapify_heap l).1⟩

/-- … they permute the slice (`Pop` removing exactly the root, which is a minimum) -/
theorem c11_heap_perm (l : Heap) (x : Item) :
    (push l x).Perm (l ++ [x]) ∧ (heapify l).Perm l ∧
    (l ≠ [] → ((pop l).1 ++ [(pop l).2]).Perm l ∧ (IsHeap l → ∀ y ∈ l, (pop l).2.rev ≤ y.rev)) := by
  refine ⟨push_perm l x, (heapify_heap l).2, fun hne => ?_⟩
  rw [pop_item l hne]
  exact ⟨pop_perm l hne, fun hh y hy => root_min_mem l hh y hy⟩

/-- **waiting never wedges the node**: for every mix and order of waiters being added (any
revisions, any tables), apply notifications, cancellations / deadlines at any time relative to the
sweep, and sweeps: the event loop never blocks and never panics (status stays `running`), every
waiter still queued has an empty open channel (it has not been answered yet), every heap is in heap
order with one entry per waiter -/
theorem c11_never_blocks (evs : List QEv) (hok : RunOK {} evs) : QInv (run {} evs) := by
  suffices H : ∀ (s : QState), QInv s → RunOK s evs → QInv (run s evs) from H {} qinv_init hok
  clear hok
  induction evs with
  | nil => intro s hq _; exact hq
  | cons e rest ih =>
    intro s hq hr
    obtain ⟨h1, h2⟩ := hr
    apply ih (ev s e) _ h2
    cases e with
    | add w t rev ctx => exact qinv_add s hq w t rev ctx h1
    | notify t n => exact (qinv_notify s hq t n).1
    | sweep => exact qinv_sweep s hq
    | cancel c e => exact qinv_cancel s hq c e

/-- `Len`, `Add`, `Notify` are therefore always answered, and `Len` is the number of waiters of
the table that have not been answered yet -/
theorem c11_len (evs : List QEv) (hok : RunOK {} evs) (t : String) :
    (run {} evs).len t = some ((run {} evs).heaps t).length := by
  have := (c11_never_blocks evs hok).running
  simp [QState.len, this, QState.heap]

/-- **a notification releases every waiter at or below the notified revision**: after `Notify(t, n)`
no waiter with `revision ≤ n` is left on the table — each of them was answered (closed channel if
its context is live, its context's error otherwise) and removed, exactly once -/
theorem c11_notify_releases (evs : List QEv) (hok : RunOK {} evs) (t : String) (n : Nat) :
    ∀ it ∈ ((run {} evs).notify t n).heaps t, n < it.rev :=
  (qinv_notify _ (c11_never_blocks evs hok) t n).2

/-- the loop behind it, with the exactly-once accounting: the removed waiters are answered with
close / context error, nobody else's channel is touched, what stays is fresh and above `n` -/
theorem c11_notify_exactly_once (s : QState) (hq : QInv s) (t : String) (n : Nat) :
    ∃ removed : List Item,
      ((notifyLoop n (s.heaps t).length s (s.heaps t)).2 ++ removed).Perm (s.heaps t) ∧
      (∀ it ∈ removed, (notifyLoop n (s.heaps t).length s (s.heaps t)).1.chan it.id = answerOf s n it ∧
        (it.rev ≤ n ∨ (s.ctxErr it.ctx).isSome)) ∧
      (∀ w, w ∉ removed.map (·.id) → (notifyLoop n (s.heaps t).length s (s.heaps t)).1.chan w = s.chan w) := by
  obtain ⟨removed, _, r2, _, _, _, _, r7, r8⟩ :=
    notifyLoop_spec n (s.heaps t).length s (s.heaps t) hq.running (hq.ord t) (hq.fresh t) (hq.nodup t) (Nat.le_refl _)
  exact ⟨removed, r2, r7, r8.other⟩

theorem eq_of_nodup_map {α β : Type} (f : α → β) (l : List α) (h : (l.map f).Nodup) (a b : α) (ha : a ∈ l)
    (hb : b ∈ l) (e : f a = f b) : a = b := by
  induction l with
  | nil => cases ha
  | cons x rest ih =>
    simp only [List.map_cons, List.nodup_cons, List.mem_map, not_exists, not_and] at h
    rcases List.mem_cons.mp ha with rfl | ha' <;> rcases List.mem_cons.mp hb with rfl | hb'
    · rfl
    · exact absurd e.symm (h.1 b hb')
    · exact absurd e (h.1 a ha')
    · exact ih h.2 ha' hb'

/-- **acknowledged without error ⇒ already applied**: a waiter whose call is answered without error
by a notification (its channel is closed rather than given an error) had a live context and a
revision at or below the notified index — and the notified index is the leader index the node has
just committed (`c11_notified_is_committed`); so a following read on the node observes the write -/
theorem c11_ok_answer_means_applied (s : QState) (hq : QInv s) (t : String) (n : Nat) (it : Item)
    (hit : it ∈ s.heaps t)
    (hc : (notifyLoop n (s.heaps t).length s (s.heaps t)).1.chan it.id = { closed := true }) :
    it.rev ≤ n ∧ s.ctxErr it.ctx = none := by
  obtain ⟨removed, hperm, h2, h3⟩ := c11_notify_exactly_once s hq t n
  by_cases hr : it.id ∈ removed.map (·.id)
  · -- the waiter was answered by this notification
    obtain ⟨it', hit', hid⟩ := List.mem_map.mp hr
    have hmem' : it' ∈ s.heaps t := hperm.subset (List.mem_append_right _ hit')
    -- one entry per waiter id
    have heq : it' = it := by
      have hnd := hq.nodup t
      unfold IdsNodup at hnd
      exact eq_of_nodup_map (·.id) _ hnd it' it hmem' hit hid
    subst heq
    obtain ⟨hans, hcase⟩ := h2 it' hit'
    rw [hans] at hc
    unfold answerOf at hc
    cases he : s.ctxErr it'.ctx with
    | some e => rw [he] at hc; simp at hc
    | none =>
      rcases hcase with h | h
      · exact ⟨h, rfl⟩
      · rw [he] at h; simp at h
  · -- untouched: a queued waiter's channel is empty, not closed
    rw [h3 it.id hr, hq.fresh t it hit] at hc
    simp at hc

/-- **the sweep answers every expired waiter, once, and keeps every live one** (this is what defect
D5 broke: expired waiters that were not at the root stayed queued and were sent to again) -/
theorem c11_sweep_table (s : QState) (hq : QInv s) (t : String) :
    (sweepItems s (s.heaps t)).1.status = .running ∧
    (sweepItems s (s.heaps t)).2 = (s.heaps t).filter (fun it => (s.ctxErr it.ctx).isNone) ∧
    (∀ it ∈ s.heaps t, ∀ e, s.ctxErr it.ctx = some e → (sweepItems s (s.heaps t)).1.chan it.id = { buf := some e }) := by
  obtain ⟨r1, r2, r3, _⟩ := sweepItems_spec (s.heaps t) s hq.running (hq.fresh t) (hq.nodup t)
  exact ⟨r1, r2, r3⟩

/-- **read-your-writes, apply side**: what `FSM.Update` tells the listener is the leader index when
the batch carried one, and that very value is what the committed store reports as leader index —
the notification is computed from the context that was just committed, never ahead of it -/
theorem c11_notified_is_committed (db : Regatta.Fsm.Db) (h : Regatta.Refine.WF db) (es : List Regatta.Fsm.Entry)
    (hne : es ≠ []) (hes : ∀ e ∈ es, Regatta.Refine.EntryWF e) :
    ∃ db' rs n, Regatta.Fsm.update db es = .ok (db', rs, n) ∧
      (n = Regatta.Fsm.readIndex db' Regatta.Key.sysLeaderIndex ∨
       (n = Regatta.Fsm.readIndex db' Regatta.Key.sysLocalIndex ∧ ∀ e ∈ es, e.leaderIndex = none)) :=
  Regatta.Refine.update_notified db h es hne hes

/-- known finding K5 (kept as a witness, the statement "answered as soon as the node has applied
the revision" is false when the notification precedes the add): `Notify(t, 5)` then `Add(t, 5)` —
the waiter is still queued with an untouched channel; only its deadline (via the sweep) answers it -/
theorem c11_late_add_witness :
    let s := run {} [.notify "t" 5, .add 1 "t" 5 7]
    (s.heaps "t").length = 1 ∧ s.chan 1 = {} ∧
    ((ev (ev s (.cancel 7 .deadline)) .sweep).chan 1 = { buf := some .deadline }) := by
  decide

/-- non-vacuity and regression for D5: three live waiters and one cancelled leaf, three sweeps:
the loop keeps running, the cancelled waiter got exactly its error, `Len` is 3, and a notification
then releases the live ones in order -/
example :
    let s := run {} [.add 1 "t" 1 11, .add 2 "t" 2 12, .add 3 "t" 3 13, .add 4 "t" 4 14, .cancel 14 .canceled,
      .sweep, .sweep, .sweep]
    s.status = .running ∧ s.len "t" = some 3 ∧ s.chan 4 = { buf := some .canceled } ∧
    ((ev s (.notify "t" 2)).heaps "t").map (·.id) = [3] ∧ (ev s (.notify "t" 2)).chan 1 = { closed := true } := by
  decide

end Regatta.Props.C11
