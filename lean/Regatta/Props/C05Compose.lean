import Regatta.Props.C05
import Regatta.Props.C06
import Regatta.Props.C07
/-
  C05 ∘ C06 — a whole poll of the replication worker, end to end: the leader's `Replicate` stream
  (C06: exactly the log entries after the requested index, in non-empty batches, then one final
  message) is what `c05_round` needs; however the stream is cut into messages and the messages into
  proposals, the follower ends with the leader's content at the index it records — and with the
  leader's latest state when the stream ran to its end.
-/
namespace Regatta.Props.C05Compose
open Regatta Regatta.Fsm Regatta.Repl Regatta.LogReader

/-- the leader's log as C05 sees it: the command of every index 1..a (`payload i` is what
`entryToCommand` makes of entry `i`: the proposed command, or DUMMY for a non-application entry) -/
def leaderLog (payload : Nat → Cmd) (a : Nat) : LLog := (List.range' 1 a).map payload

theorem leaderLog_length (payload : Nat → Cmd) (a : Nat) : (leaderLog payload a).length = a := by
  simp [leaderLog]

/-- the commands of a run of log entries are the corresponding slice of the leader's log -/
theorem run_commands (H : Nat → LEntry) (hH : IdxOK H) (payload : Nat → Cmd) (a li j : Nat) (h : li + j ≤ a) :
    (run H (li + 1) j).map (fun e => payload e.index) = ((leaderLog payload a).drop li).take j := by
  unfold run leaderLog
  rw [List.map_map, ← List.map_drop, ← List.map_take]
  have hidx : (fun e => payload e.index) ∘ H = payload := by
    funext i; simp [hH i]
  rw [hidx]
  congr 1
  rw [List.drop_range', List.take_range'_of_length_ge (by omega)]
  congr 1; omega

/-- **one poll, end to end**: a follower satisfying the invariant asks for `li + 1`; the leader
(any exact query function: the uncached or the cached log reader, C06) streams; the worker turns
the commands of the stream into proposals, cut wherever the message and proposal size limits fall
(`chunks`: any cutting of the streamed commands).  Then the invariant holds afterwards, the recorded
index has advanced by exactly the number of streamed commands `j`, and if the stream ended with the
"up to date" message, the follower holds the leader's content at its applied index `a`. -/
theorem c05_poll_end_to_end {σ : Type} (H : Nat → LEntry) (hH : IdxOK H) (payload : Nat → Cmd) (a stale : Nat)
    (q : σ → Nat → Nat → Except LogErr (List LEntry) × σ) (I : σ → Prop) (hq : QExact H a q I) (s : σ) (hI : I s)
    (f : Follower) (hf : Inv (leaderLog payload a) f)
    (chunks : List (List Cmd))
    (hcut : chunks.flatten = (commandsOf (replicate q s (f.li + 1) a stale).1).map (fun e => payload e.index)) :
    Inv (leaderLog payload a) (proposeAll f chunks) ∧
    (∃ j, (proposeAll f chunks).li = f.li + j ∧ j ≤ a - f.li ∧
      ((replicate q s (f.li + 1) a stale).1.getLast? = some (.upToDate stale) →
        (proposeAll f chunks).li = a ∧ (proposeAll f chunks).kv = leaderAt (leaderLog payload a) a)) := by
  have hli : f.li ≤ a := by have := hf.2; rwa [leaderLog_length] at this
  obtain ⟨j, hj, hcmds, _, ⟨m, hlast, _, hup⟩, _⟩ :=
    C06.c06_stream H hH a stale q I hq s hI (f.li + 1) (by omega) (by omega)
  have hj' : f.li + j ≤ a := by omega
  rw [hcmds, run_commands H hH payload a f.li j hj'] at hcut
  have hlen : chunks.flatten.length = j := by
    rw [hcut, List.length_take, List.length_drop, leaderLog_length]; omega
  obtain ⟨hinv, hlin⟩ := C05.c05_round (leaderLog payload a) f chunks hf (by rw [hlen]; exact hcut)
    (by rw [hlen, leaderLog_length]; exact hj')
  refine ⟨hinv, j, by rw [hlin, hlen], by omega, ?_⟩
  intro hfin
  have hm : m = .upToDate stale := by rw [hlast] at hfin; exact Option.some.inj hfin
  have hjeq : j = a + 1 - (f.li + 1) := hup.mp hm
  have : (proposeAll f chunks).li = a := by rw [hlin, hlen]; omega
  exact ⟨this, by rw [hinv.1, this]⟩


/-- the same for the two readers the server can be configured with: the uncached one and the
cached one with ANY cache satisfying the cache invariant (which every cache reachable from an empty
one does, C06) — so the hypothesis "exact query function" of the poll theorem is not vacuous -/
theorem c05_poll_with_cached_reader (H : Nat → LEntry) (hH : IdxOK H) (payload : Nat → Cmd) (l : Log)
    (hl : EntriesSpec H l) (a stale mx : Nat) (hal : a ≤ l.last) (c : Cache) (hc : CacheInv H a c)
    (f : Follower) (hf : Inv (leaderLog payload a) f) (chunks : List (List Cmd))
    (hcut : chunks.flatten =
      (commandsOf (replicate (fun c F L => cachedQuery l c F L mx) c (f.li + 1) a stale).1).map (fun e => payload e.index)) :
    Inv (leaderLog payload a) (proposeAll f chunks) :=
  (c05_poll_end_to_end H hH payload a stale _ (CacheInv H a) (C06.c06_cached_qexact H hH l hl a mx hal) c hc f hf
    chunks hcut).1

/-- **snapshot recovery, end to end** (C05 ∘ C07): the leader's store `src` holds the leader's
content at index `s` (C01: its user map is the specification's after `s` entries) and its applied
index is `s`; the follower loads the leader's snapshot stream — whatever the in-memory-log threshold
and wherever the batch limits fall — into a fresh shard with the real restore loop and the real
state machine (models of C07 / C01).  Then the follower's store, seen as C05's follower (user map
and recorded leader index), satisfies the replication invariant at index `s`. -/
theorem c05_recover_end_to_end (L : LLog) (s : Nat) (hs : s ≤ L.length)
    (src : Db) (h : Refine.WF src) (hsrc : Refine.absU src = leaderAt L s)
    (hidx : readIndex src Key.sysLocalIndex = s) (hs64 : s < 18446744073709551616)
    (maxInMem : Nat) (msgs : List (Nat × SnapStream.Msg)) (hsmall : msgs.length + 3 < 18446744073709551616)
    (hstream : msgs.map (·.2) = SnapStream.leaderStream src) :
    ∃ db' rs n, update [] (SnapStream.toEntries 1 (SnapStream.readIntoTable maxInMem msgs)) = .ok (db', rs, n) ∧
      Inv L ⟨Refine.absU db', readIndex db' Key.sysLeaderIndex⟩ := by
  obtain ⟨db', rs, n, hu, _, habs, hli⟩ :=
    C07.c07_restore_exact src h maxInMem msgs hsmall (by rw [hidx]; exact hs64) (Or.inr hstream)
  refine ⟨db', rs, n, hu, ?_, ?_⟩
  · show Refine.absU db' = leaderAt L (readIndex db' Key.sysLeaderIndex)
    rw [hli hstream, hidx, habs, hsrc]
  · show readIndex db' Key.sysLeaderIndex ≤ L.length
    rw [hli hstream, hidx]; exact hs

end Regatta.Props.C05Compose
