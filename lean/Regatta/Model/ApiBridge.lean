import Regatta.Model.Fsm
import Regatta.Model.Api
/-
  What the acceptance model (C16) sees of the requests the table state machine executes: the
  lengths of the byte fields.  Used by the read-path driver and by the composition theorem
  "accepted by the API ⇒ well-formed for the state machine".
-/
namespace Regatta.ApiBridge
open Regatta Regatta.Fsm

def apiOp : ReqOp → Api.Op
  | .range r => .range r.key.length (r.rangeEnd.getD []).length
  | .put k v _ => .put k.length v.size
  | .del k e _ _ => .del k.length (e.getD []).length
  | .none => .none

def apiCmp (c : Compare) : Api.Cmp := ⟨c.key.length, (c.rangeEnd.getD []).length⟩

/-- the TxnRequest as the acceptance model sees it -/
def apiTxn (table : Bytes) (c : List Compare) (s f : List ReqOp) : Api.TxnReq :=
  ⟨table, c.map apiCmp, s.map apiOp, f.map apiOp⟩

end Regatta.ApiBridge
