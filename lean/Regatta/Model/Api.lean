import Regatta.Basic.Bytes
import Regatta.Extracted.Consts
/-
  Request validation and status mapping of the public API (C16): regattaserver/kv.go
  (KVServer.Range / IterateRange / Put / DeleteRange / Txn, ForwardingKVServer), regattaserver/
  tables.go (TablesServer, ReadonlyTablesServer), storage/engine.go (table lookup),
  storage/table/table.go (ActiveTable.Range / Iterator / Put / Delete / Txn with validateTxnOps) and
  storage/table/manager.go validTableName — as decision functions in the code's order of checks.
  Only what decides acceptance is kept of a request: which table, how long the byte fields are,
  the flags and filters; an accepted request goes on to the table state machine (C01, C02, C09, C10).
-/
namespace Regatta.Api
open Regatta

inductive Code
  | ok | invalidArgument | notFound | failedPrecondition | unimplemented | unavailable | unauthenticated | internal
  deriving DecidableEq, Repr

/-- the gRPC status code numbers -/
def Code.num : Code → Nat
  | .ok => 0 | .invalidArgument => 3 | .notFound => 5 | .failedPrecondition => 9 | .unimplemented => 12
  | .internal => 13 | .unavailable => 14 | .unauthenticated => 16

def maxKey : Nat := Extracted.latestVersionLen
def maxVal : Nat := Extracted.maxValueLen

structure RangeReq where
  table : Bytes
  klen : Nat
  relen : Nat
  limit : Int := 0
  keysOnly : Bool := false
  countOnly : Bool := false
  minMod : Int := 0
  maxMod : Int := 0
  minCreate : Int := 0
  maxCreate : Int := 0

/-- the request-shape checks of KVServer.Range and KVServer.IterateRange, in order -/
def rangeShape (r : RangeReq) : Option Code :=
  if r.limit < 0 then some .invalidArgument
  else if r.keysOnly && r.countOnly then some .invalidArgument
  else if r.minMod > 0 then some .unimplemented
  else if r.maxMod > 0 then some .unimplemented
  else if r.minCreate > 0 then some .unimplemented
  else if r.maxCreate > 0 then some .unimplemented
  else if r.table.isEmpty then some .invalidArgument
  else if r.klen = 0 then some .invalidArgument
  else none

/-- ActiveTable.Range / ActiveTable.Iterator: a storage error that is neither "table not found" nor
retryable is reported as FailedPrecondition -/
def rangeLimits (r : RangeReq) : Option Code :=
  if r.klen > maxKey then some .failedPrecondition
  else if r.relen > maxKey then some .failedPrecondition
  else none

def kvRange (tables : List Bytes) (r : RangeReq) : Code :=
  match rangeShape r with
  | some c => c
  | none =>
    if !tables.contains r.table then .notFound
    else match rangeLimits r with
      | some c => c
      | none => .ok

/-- IterateRange goes through ActiveTable.Iterator -/
def kvIterate (tables : List Bytes) (r : RangeReq) : Code := kvRange tables r

structure PutReq where
  table : Bytes
  klen : Nat
  vlen : Nat

def kvPut (tables : List Bytes) (r : PutReq) : Code :=
  if r.table.isEmpty then .invalidArgument
  else if r.klen = 0 then .invalidArgument
  else if !tables.contains r.table then .notFound
  else if r.klen > maxKey then .failedPrecondition
  else if r.vlen > maxVal then .failedPrecondition
  else .ok

structure DelReq where
  table : Bytes
  klen : Nat
  relen : Nat

def kvDelete (tables : List Bytes) (r : DelReq) : Code :=
  if r.table.isEmpty then .invalidArgument
  else if r.klen = 0 then .invalidArgument
  else if !tables.contains r.table then .notFound
  else if r.klen > maxKey then .failedPrecondition
  else .ok

/-- an operation nested in a transaction; `none`: a RequestOp whose oneof is not set -/
inductive Op
  | range (klen relen : Nat)
  | put (klen vlen : Nat)
  | del (klen relen : Nat)
  | none
  deriving DecidableEq, Repr

structure Cmp where
  klen : Nat
  relen : Nat
  deriving DecidableEq, Repr

structure TxnReq where
  table : Bytes
  compare : List Cmp
  success : List Op
  failure : List Op

/-- validateTxnOps, one operation -/
def opOK : Op → Bool
  | .range k e => k ≠ 0 && k ≤ maxKey && e ≤ maxKey
  | .put k v => k ≠ 0 && k ≤ maxKey && v ≤ maxVal
  | .del k _ => k ≠ 0 && k ≤ maxKey
  | .none => false

def cmpOK (c : Cmp) : Bool := c.klen ≠ 0 && c.klen ≤ maxKey && c.relen ≤ maxKey

def kvTxn (tables : List Bytes) (r : TxnReq) : Code :=
  if r.table.isEmpty then .invalidArgument
  else if !tables.contains r.table then .notFound
  else if !r.compare.all cmpOK then .failedPrecondition
  else if !r.success.all opOK then .failedPrecondition
  else if !r.failure.all opOK then .failedPrecondition
  else .ok

/-- `TxnRequest.IsReadonly` -/
def TxnReq.readonly (r : TxnReq) : Bool :=
  (r.success ++ r.failure).all fun o => match o with | .range _ _ => true | _ => false

/-- does an accepted request propose a change? -/
def TxnReq.proposes (r : TxnReq) : Bool := !r.readonly

/-! ### table names -/

/-- `utf8.Valid` (RFC 3629 well-formedness: no overlong forms, no surrogates, nothing above U+10FFFF) -/
def validUtf8 : Bytes → Bool
  | [] => true
  | b0 :: rest =>
    if b0 < 0x80 then validUtf8 rest
    else if b0 < 0xC2 then false
    else if b0 < 0xE0 then
      match rest with
      | b1 :: rest => 0x80 ≤ b1 && b1 ≤ 0xBF && validUtf8 rest
      | _ => false
    else if b0 < 0xF0 then
      match rest with
      | b1 :: b2 :: rest =>
        let lo : UInt8 := if b0 = 0xE0 then 0xA0 else 0x80
        let hi : UInt8 := if b0 = 0xED then 0x9F else 0xBF
        lo ≤ b1 && b1 ≤ hi && 0x80 ≤ b2 && b2 ≤ 0xBF && validUtf8 rest
      | _ => false
    else if b0 < 0xF5 then
      match rest with
      | b1 :: b2 :: b3 :: rest =>
        let lo : UInt8 := if b0 = 0xF0 then 0x90 else 0x80
        let hi : UInt8 := if b0 = 0xF4 then 0x8F else 0xBF
        lo ≤ b1 && b1 ≤ hi && 0x80 ≤ b2 && b2 ≤ 0xBF && 0x80 ≤ b3 && b3 ≤ 0xBF && validUtf8 rest
      | _ => false
    else false

def maxTableNameLen : Nat := Extracted.maxTableNameLen

/-- `validTableName` on the bytes of the name -/
def validName (n : Bytes) : Bool :=
  !n.isEmpty && n.length ≤ maxTableNameLen && validUtf8 n && !n.contains 0x2F && !n.contains 0

/-- TablesServer.Create / Delete (leader); the new table set -/
def tablesCreate (tables : List Bytes) (n : Bytes) : Code × List Bytes :=
  if n.isEmpty then (.invalidArgument, tables)
  else if !validName n then (.invalidArgument, tables)
  else if tables.contains n then (.invalidArgument, tables)
  else (.ok, n :: tables)

def tablesDelete (tables : List Bytes) (n : Bytes) : Code × List Bytes :=
  if n.isEmpty then (.invalidArgument, tables)
  else if !validName n then (.invalidArgument, tables)
  else if !tables.contains n then (.invalidArgument, tables)
  else (.ok, tables.filter (· != n))

/-- ReadonlyTablesServer (follower): table mutations are not served -/
def followerTablesMutation : Code := .unimplemented

/-- ForwardingKVServer: writes are sent to the leader and its status code is passed on; reads and
read-only transactions are served locally by the embedded KVServer -/
def followerTxn (leaderTables followerTables : List Bytes) (r : TxnReq) : Code :=
  if r.readonly then kvTxn followerTables r else kvTxn leaderTables r

end Regatta.Api
