import Regatta.Basic.Bytes
import Regatta.Extracted.Consts
/-
  Model of storage/table/key (key.go, v1.go) and of the range bounds built in
  storage/table/fsm (iter.go iterOptionsForBounds, fsm.go incrementRightmostByte, maxUserKey,
  sysLocalIndex, sysLeaderIndex).  Constants come from `Regatta.Extracted.Consts`, regenerated from
  the source on every run.
-/
namespace Regatta.Key
open Regatta

/-- `[version, 0, 0, 0]` (`keyHeaderLen` bytes, version at `keyVersionHeaderPos = 0`) -/
def hdr : Bytes := Extracted.keyV1 :: List.replicate (Extracted.keyHeaderLen - 1) 0

def typeUser : UInt8 := Extracted.typeUser
def typeSystem : UInt8 := Extracted.typeSystem

/-- `Encoder.Encode` for a key of the latest version: header, type byte, key bytes. No length check. -/
def encode (t : UInt8) (k : Bytes) : Bytes := hdr ++ t :: k

/-- `encodeUserKey` -/
def encodeUser (k : Bytes) : Bytes := encode typeUser k

inductive Err | missingHeader | malformedHeader | unknownVersion | missingType
  deriving DecidableEq, Repr

/-- `v1DecodeRaw`: a body of length ≤ 1 yields type 0 and no key -/
def v1DecodeRaw (body : Bytes) : UInt8 × Bytes :=
  match body with
  | t :: (k :: ks) => (t, k :: ks)
  | _ => (Extracted.typeUnknown, [])

/-- `DecodeBytes` (the production decoder): only length and version byte are checked -/
def decodeBytes (raw : Bytes) : Except Err (UInt8 × Bytes) :=
  if raw.length < Extracted.keyHeaderLen then .error .missingHeader
  else if raw.head? = some Extracted.keyV1 then .ok (v1DecodeRaw (raw.drop Extracted.keyHeaderLen))
  else .error .unknownVersion

/-- `Decoder.Decode` (stream form): padding checked, body limited to `keyV1BodyLen` bytes -/
def decodeStream (raw : Bytes) : Except Err (UInt8 × Bytes) :=
  if raw.length < Extracted.keyHeaderLen then .error .missingHeader
  else if ((raw.take Extracted.keyHeaderLen).drop 1).any (· != 0) then .error .malformedHeader
  else if raw.head? = some Extracted.keyV1 then
    match (raw.drop Extracted.keyHeaderLen).take Extracted.keyV1BodyLen with
    | [] => .error .missingType
    | t :: ks => .ok (t, ks)
  else .error .unknownVersion

/-- the user key stored under `raw`, if `raw` is a user-typed key with a non-empty key part
(what the iterator loop and `commandSnapshot` treat as a user pair) -/
def decodeUser (raw : Bytes) : Option Bytes :=
  match decodeBytes raw with
  | .ok (t, k) => if t = typeUser ∧ k ≠ [] then some k else none
  | .error _ => none

/-- `incrementRightmostByte` on the reversed list: returns the incremented reversed list and
whether the carry ran off the left end -/
def incRev : Bytes → Bytes × Bool
  | [] => ([], true)
  | b :: rest =>
    if b + 1 != 0 then ((b + 1) :: rest, false)
    else
      let (r, c) := incRev rest
      (0 :: r, c)

/-- `incrementRightmostByte`: add one to the byte string read as a big-endian number; a carry out
of the first byte prepends `1` -/
def incrementRightmostByte (b : Bytes) : Bytes :=
  if b = [] then [] else
  let (r, c) := incRev b.reverse
  if c then 1 :: r.reverse else r.reverse

def maxUserKey : Bytes := encode typeUser (List.replicate Extracted.latestMaxKeyLen 255)

/-- upper bound used for the `\0` wildcard -/
def wildcardBound : Bytes := incrementRightmostByte maxUserKey

def sysLocalIndex : Bytes := Extracted.sysLocalIndex
def sysLeaderIndex : Bytes := Extracted.sysLeaderIndex

/-- upper bound of a range whose `range_end` is `hi` -/
def upperBound (hi : Bytes) : Bytes :=
  if hi = Extracted.wildcard then wildcardBound else encodeUser hi

/-- `iterOptionsForBounds` -/
def bounds (lo hi : Bytes) : Bytes × Bytes := (encodeUser lo, upperBound hi)

end Regatta.Key
