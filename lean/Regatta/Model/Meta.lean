import Regatta.Extracted.Consts
/-
  Model of the metadata store (storage/kv: raft.go LFSM.Update / Lookup, map.go MapStore) — a
  versioned register map with compare-and-set — and of what storage/table/manager.go builds on it:
  the table catalogue (createTable, DeleteTable, incAndGetIDSeq, getTables, diffTables, the id
  handed out by Restore) and the replication lease (LeaseTable, ReturnTable).

  Manager operations are sequences of single store calls; they are modelled as explicit little state
  machines (`Call`) so that any interleaving of the store calls of several managers is a sequence of
  `World.step`s.  The store is generic in the value type: the LFSM itself stores strings (`ν = String`),
  the catalogue model stores typed values (`CVal`).
-/
namespace Regatta.Meta

/-- kv.Pair -/
structure Pair (ν : Type) where
  key : String
  value : ν
  ver : Nat
  deriving DecidableEq, Repr

/-- MapStore: at most one pair per key -/
abbrev Store (ν : Type) := List (Pair ν)

variable {ν : Type}

def Store.get? (s : Store ν) (k : String) : Option (Pair ν) := s.find? (·.key == k)
def Store.put (s : Store ν) (p : Pair ν) : Store ν := p :: s.filter (·.key != p.key)
def Store.erase (s : Store ν) (k : String) : Store ν := s.filter (·.key != k)

inductive Op | set | delete | other
  deriving DecidableEq, Repr

/-- kv.Update: the operation and the pair with the version the proposer saw -/
structure Upd (ν : Type) where
  op : Op
  key : String
  value : ν
  ver : Nat

/-- result of one entry: success with the stamped pair, or version mismatch with the current pair -/
inductive Res (ν : Type)
  | ok (p : Pair ν)
  | mismatch (cur : Pair ν)

/-- the effect of an entry that passed the version check: stamp the entry's log index, then set /
delete / (unknown operation) do nothing -/
def applyOp (s : Store ν) (index : Nat) (u : Upd ν) : Store ν × Res ν :=
  match u.op with
  | .set => (s.put ⟨u.key, u.value, index⟩, .ok ⟨u.key, u.value, index⟩)
  | .delete => (s.erase u.key, .ok ⟨u.key, u.value, index⟩)
  | .other => (s, .ok ⟨u.key, u.value, index⟩)

/-- one entry of `LFSM.Update`: an existing key is only touched if the supplied version equals the
stored one; an absent key is not checked at all; success stamps the entry's log index -/
def applyUpd (s : Store ν) (index : Nat) (u : Upd ν) : Store ν × Res ν :=
  match s.get? u.key with
  | some cur => if cur.ver ≠ u.ver then (s, .mismatch cur) else applyOp s index u
  | none => applyOp s index u

/-- an apply batch: entries with their indices -/
def applyBatch (s : Store ν) : List (Nat × Upd ν) → Store ν × List (Res ν)
  | [] => (s, [])
  | (i, u) :: rest =>
    let (s1, r) := applyUpd s i u
    let (s', rs) := applyBatch s1 rest
    (s', r :: rs)

/-- `LFSM.RecoverFromSnapshot` (storage/kv/raft.go): the receiver's map is REPLACED by the decoded
snapshot - nothing of what it held before survives (seeded change C13-c merged instead: a lagging
node kept deleted records); `SaveSnapshot` of a store is the store (`PrepareSnapshot` copies it) -/
def restoreSnapshot (_old snap : Store ν) : Store ν := snap

/-! ### lookups of the string store -/

/-- `path.Match` for the pattern shapes the callers use: a literal, or a literal prefix followed by
one `*` (which does not cross `/`) -/
def globMatch (pattern name : String) : Bool :=
  if pattern.endsWith "*" then
    let pre := (pattern.dropEnd 1).toString
    name.startsWith pre && !((name.drop pre.length).toString.contains '/')
  else pattern == name

def sortStrings (l : List String) : List String := l.mergeSort (fun a b => decide (a ≤ b))

def dedup (l : List String) : List String := l.foldr (fun x acc => if acc.contains x then acc else x :: acc) []

/-- `GetAll`: matching pairs, sorted by key -/
def getAll (s : Store String) (pattern : String) : List (Pair String) :=
  (s.filter (fun p => globMatch pattern p.key)).mergeSort (fun a b => decide (a.key ≤ b.key))

/-- `GetAllValues`: their values, sorted -/
def getAllValues (s : Store String) (pattern : String) : List String :=
  sortStrings ((getAll s pattern).map (·.value))

/-- `pathToTerms` on clean paths (`/a/b`) -/
def terms (p : String) : List String := p.splitOn "/"

/-- `path.Dir` on clean paths with at least two segments -/
def dirOf (key : String) : String := "/".intercalate ((terms key).dropLast)

def samePrefixTerms (pre test : List String) : Bool := pre.length ≤ test.length && test.take pre.length == pre

def trimPrefix (s pre : String) : String := if s.startsWith pre then (s.drop pre.length).toString else s

/-- `List` -/
def list (s : Store String) (path : String) : List String :=
  sortStrings (dedup (s.filterMap (fun p =>
    if p.key == path then some ((terms p.key).getLast?.getD "")
    else if samePrefixTerms (terms path) (terms (dirOf p.key)) then
      some (((trimPrefix (trimPrefix p.key path) "/").splitOn "/").headD "")
    else none)))

/-- `ListDir` -/
def listDir (s : Store String) (path : String) : List String :=
  sortStrings (dedup (s.filterMap (fun p =>
    if p.key.startsWith path then
      let items := terms (dirOf p.key)
      let pre := terms path
      if samePrefixTerms pre items && items.length - pre.length ≥ 1 then some ((items.drop pre.length).headD "") else none
    else none)))

/-! ### the catalogue and the lease on top of the store -/

/-- table.Table -/
structure Table where
  name : String
  clusterID : Nat
  recoverID : Nat
  deriving DecidableEq, Repr

/-- table.Lease; `expires` (Until) on the model clock -/
structure Lease where
  id : Nat
  expires : Int
  deriving DecidableEq, Repr

/-- typed values of the catalogue store -/
inductive CVal
  | table (t : Table)
  | lease (l : Lease)
  | seq (n : Nat)
  | none_
  deriving DecidableEq, Repr

def keyPrefix : String := "/tables/"
def sequenceKey : String := "/tables/sys/idseq"
def tableIDsRangeStart : Nat := Regatta.Extracted.tableIDsRangeStart
def tableKey (name : String) : String := keyPrefix ++ name
def leaseKey (name : String) : String := keyPrefix ++ name ++ "/lease"

/-- `validTableName` (length and UTF-8 validity are checked by the harness's name pool; the model
keeps the structural part: non-empty, no `/`, no NUL) -/
def validTableName (name : String) : Bool :=
  !name.toList.isEmpty && name.utf8ByteSize ≤ 200 && !name.toList.contains '/' && !name.toList.contains (Char.ofNat 0)

inductive CErr | tableExists | tableNotFound | invalidName | versionMismatch | leaseNotAcquired
  deriving DecidableEq, Repr

/-- the world the managers act on: the store, the next log index, the clock -/
structure World where
  store : Store CVal := []
  index : Nat := 1
  now : Int := 0
  /-- ghost history (not in the code): the ids handed out by the sequence so far, oldest first -/
  issued : List Nat := []

/-- a proposal: applied at the next index -/
def World.propose (w : World) (u : Upd CVal) : World × Res CVal :=
  let (s', r) := applyUpd w.store w.index u
  ({ w with store := s', index := w.index + 1 }, r)

/-- what an id from the sequence (`incAndGetIDSeq`) is wanted for: a new table, or the recovery shard
of a restore that has read the table record `tbl` at version `tver` (the zero record and version 0
when there is none) -/
inductive Purpose
  | create
  | restore (tbl : Table) (tver : Nat)
  deriving Repr

/-- a manager call in progress: which store call comes next, and what it remembers -/
inductive Call
  -- createTable
  | createStart (name : String)
  | createGetSeq (name : String) (k : Purpose)              -- incAndGetIDSeq, for createTable or for Restore
  | createSetSeq (name : String) (cur ver : Nat) (k : Purpose)
  | createSetRec (name : String) (id : Nat)
  -- Restore: getTableVersion, incAndGetIDSeq (the two steps above), setTableVersion{RecoverID := id},
  -- [start the shard, wait for its leader, load the stream: no store call], getTableVersion,
  -- setTableVersion{ClusterID := id, RecoverID := 0}
  | restoreStart (name : String)
  | restoreMark (name : String) (tbl : Table) (tver : Nat) (id : Nat)
  | restoreReread (name : String) (id : Nat)
  | restoreSwitch (name : String) (id : Nat) (tbl : Table) (ver : Nat)
  -- DeleteTable
  | deleteStart (name : String)
  | deleteDel (name : String) (ver : Nat)
  -- LeaseTable
  | leaseStart (node : Nat) (name : String) (dur : Int)
  | leaseSet (node : Nat) (name : String) (dur : Int) (readVer : Nat)
  -- ReturnTable
  | returnStart (node : Nat) (name : String)
  | returnDel (node : Nat) (name : String) (ver : Nat)
  -- finished
  | doneTable (t : Table)
  | doneOk
  | doneBool (b : Bool)
  | doneErr (e : CErr)
  deriving Repr

/-- what the id is used for next -/
def afterSeq (name : String) (id : Nat) : Purpose → Call
  | .create => .createSetRec name id
  | .restore tbl tver => .restoreMark name tbl tver id

def Call.isDone : Call → Bool
  | .doneTable _ | .doneOk | .doneBool _ | .doneErr _ => true
  | _ => false

/-- one store call of a manager call -/
def World.step (w : World) : Call → World × Call
  | .createStart name =>
    if !validTableName name then (w, .doneErr .invalidName)
    else if (w.store.get? (tableKey name)).isSome then (w, .doneErr .tableExists)   -- Exists
    else (w, .createGetSeq name .create)
  | .createGetSeq name k =>   -- incAndGetIDSeq: Get
    match w.store.get? sequenceKey with
    | some ⟨_, .seq n, ver⟩ => (w, .createSetSeq name n ver k)
    | some _ => (w, .doneErr .versionMismatch)   -- unparsable sequence value (not reachable)
    | none => (w, .createSetSeq name tableIDsRangeStart 0 k)
  | .createSetSeq name cur ver k =>   -- incAndGetIDSeq: Set with the version read
    match w.propose ⟨.set, sequenceKey, .seq (cur + 1), ver⟩ with
    | (w', .ok _) => ({ w' with issued := w'.issued ++ [cur + 1] }, afterSeq name (cur + 1) k)
    | (w', .mismatch _) => (w', .doneErr .versionMismatch)
  | .createSetRec name id =>   -- setTableVersion(tab, 0)
    match w.propose ⟨.set, tableKey name, .table ⟨name, id, 0⟩, 0⟩ with
    | (w', .ok _) => (w', .doneTable ⟨name, id, 0⟩)
    | (w', .mismatch _) => (w', .doneErr .tableExists)
  | .restoreStart name =>   -- validTableName, getTableVersion (a missing record is not an error)
    if !validTableName name then (w, .doneErr .invalidName)
    else match w.store.get? (tableKey name) with
      | some ⟨_, .table t, ver⟩ => (w, .createGetSeq name (.restore t ver))
      | some _ => (w, .doneErr .versionMismatch)   -- unparsable record (not reachable)
      | none => (w, .createGetSeq name (.restore ⟨"", 0, 0⟩ 0))
  | .restoreMark name tbl tver id =>   -- setTableVersion(tbl{Name, RecoverID := id}, version read at the start)
    match w.propose ⟨.set, tableKey name, .table ⟨name, tbl.clusterID, id⟩, tver⟩ with
    | (w', .ok _) => (w', .restoreReread name id)
    | (w', .mismatch _) => (w', .doneErr .versionMismatch)
  | .restoreReread name id =>   -- after the load: getTableVersion again
    match w.store.get? (tableKey name) with
    | some ⟨_, .table t, ver⟩ => (w, .restoreSwitch name id t ver)
    | _ => (w, .doneErr .tableNotFound)
  | .restoreSwitch name id tbl ver =>   -- setTableVersion(tbl{ClusterID := id, RecoverID := 0}, version just read)
    match w.propose ⟨.set, tableKey name, .table ⟨tbl.name, id, 0⟩, ver⟩ with
    | (w', .ok _) => (w', .doneOk)
    | (w', .mismatch _) => (w', .doneErr .versionMismatch)
  | .deleteStart name =>
    if !validTableName name then (w, .doneErr .invalidName)
    else match w.store.get? (tableKey name) with
      | some p => (w, .deleteDel name p.ver)
      | none => (w, .doneErr .tableNotFound)
  | .deleteDel name ver =>
    match w.propose ⟨.delete, tableKey name, .none_, ver⟩ with
    | (w', .ok _) => (w', .doneOk)
    | (w', .mismatch _) => (w', .doneErr .versionMismatch)
  | .leaseStart node name dur =>   -- Get, then decide on what was read, at the time of the read
    match w.store.get? (leaseKey name) with
    | none => (w, .leaseSet node name dur 0)
    | some ⟨_, .lease l, ver⟩ =>
      if l.id = node ∨ l.expires < w.now then (w, .leaseSet node name dur ver) else (w, .doneErr .leaseNotAcquired)
    | some _ => (w, .doneErr .leaseNotAcquired)
  | .leaseSet node name dur readVer =>   -- Set with the version that was read
    match w.propose ⟨.set, leaseKey name, .lease ⟨node, w.now + dur⟩, readVer⟩ with
    | (w', .ok _) => (w', .doneOk)
    | (w', .mismatch _) => (w', .doneErr .versionMismatch)
  | .returnStart node name =>
    match w.store.get? (leaseKey name) with
    | none => (w, .doneBool false)
    | some ⟨_, .lease l, ver⟩ => if l.id ≠ node then (w, .doneBool false) else (w, .returnDel node name ver)
    | some _ => (w, .doneBool false)
  | .returnDel _ name ver =>
    match w.propose ⟨.delete, leaseKey name, .none_, ver⟩ with
    | (w', .ok _) => (w', .doneBool true)
    | (w', .mismatch _) => (w', .doneErr .versionMismatch)
  | c => (w, c)

/-- run a call to completion without interleaving (what a single manager does under its mutex) -/
def World.run (w : World) (c : Call) : World × Call :=
  let rec go (fuel : Nat) (w : World) (c : Call) : World × Call :=
    match fuel with
    | 0 => (w, c)
    | fuel + 1 => if c.isDone then (w, c) else let (w', c') := w.step c; go fuel w' c'
  go 8 w c

/-- several managers at work: the world and the calls in progress -/
structure System where
  w : World := {}
  calls : List (Nat × Call) := []

/-- what can happen: a manager starts a call (it is parked before its first store call), a parked
call performs its next store call, time passes -/
inductive Ev
  | start (id : Nat) (c : Call)
  | sched (id : Nat)
  | tick (d : Nat)

def Call.isInitial : Call → Bool
  | .createStart _ | .deleteStart _ | .leaseStart .. | .returnStart .. | .restoreStart _ => true
  | _ => false

def System.ev (s : System) : Ev → System
  | .start id c => if c.isInitial then { s with calls := (id, c) :: s.calls.filter (·.1 != id) } else s
  | .sched id =>
    match s.calls.find? (·.1 == id) with
    | some (_, c) =>
      let r := s.w.step c
      { w := r.1, calls := (id, r.2) :: s.calls.filter (·.1 != id) }
    | none => s
  | .tick d => { s with w := { s.w with now := s.w.now + d } }

def System.run (s : System) (evs : List Ev) : System := evs.foldl System.ev s

/-- `getTables`: the table records (glob `/tables/*` does not cross `/`) -/
def World.tables (w : World) : List Table :=
  w.store.filterMap (fun p => match p.value with
    | .table t => if globMatch "/tables/*" p.key then some t else none
    | _ => none)

/-- `diffTables`: shards to start (catalogued ids — cluster or recover — beyond the reserved range
that are not running) and to stop (running ids beyond the reserved range that are not catalogued) -/
def diffTables (tables : List Table) (running : List Nat) : List Nat × List Nat :=
  let ids := (tables.map (·.clusterID) ++ tables.map (·.recoverID)).filter (· ≠ 0)
  ((ids.filter (fun i => !running.contains i && i > tableIDsRangeStart)).eraseDups,
   (running.filter (fun r => !ids.contains r && r > tableIDsRangeStart)).eraseDups)

end Regatta.Meta
