/-
  Model of util/heap/heap.go (array binary heap: up, down, Push, Pop, Remove, Fix, New) and of the
  event loop of storage.IndexNotificationQueue (storage/queue.go Run / Add / Notify / Len) with the
  capacity-1 waiter channels.  A send that would block the loop goroutine, a send on / close of a
  closed channel are explicit outcomes (`blocked`, `panicked`), so that "waiting never wedges the
  node" is a statement about the model.
-/
namespace Regatta.Queue

/-- a waiter: `item` of storage/queue.go (`id` identifies its channel, `ctx` its context) -/
structure Item where
  id : Nat
  rev : Nat
  ctx : Nat
  deriving DecidableEq, Repr

instance : Inhabited Item := ⟨⟨0, 0, 0⟩⟩

/-- `(*item).less` -/
def less (a b : Item) : Bool := a.rev < b.rev

/-- `Heap.Slice` -/
abbrev Heap := List Item

def hget (l : Heap) (i : Nat) : Item := l.getD i default

def swap (l : Heap) (i j : Nat) : Heap := (l.set i (hget l j)).set j (hget l i)

/-- Go's truncating `(j - 1) / 2` for `j ≥ 0` (`j = 0` gives 0) -/
def parent (j : Nat) : Nat := (j - 1) / 2

/-- `up` with an iteration bound (structural, so that the kernel can evaluate it) -/
def upF : Nat → Heap → Nat → Heap
  | 0, l, _ => l
  | f + 1, l, j =>
    if parent j = j then l else
    if !less (hget l j) (hget l (parent j)) then l
    else upF f (swap l (parent j) j) (parent j)

/-- `up`: the loop runs at most `j` times (`parent j < j` until `j = 0`) -/
def up (l : Heap) (j : Nat) : Heap := upF j l j

def child (l : Heap) (i n : Nat) : Nat :=
  if 2 * i + 2 < n ∧ less (hget l (2 * i + 2)) (hget l (2 * i + 1)) then 2 * i + 2 else 2 * i + 1

/-- `down` with an iteration bound; returns the new slice and the final position (the code returns
`i > i0`) -/
def downF : Nat → Heap → Nat → Nat → Heap × Nat
  | 0, l, i, _ => (l, i)
  | f + 1, l, i, n =>
    if 2 * i + 1 ≥ n then (l, i) else
    if !less (hget l (child l i n)) (hget l i) then (l, i)
    else downF f (swap l i (child l i n)) (child l i n) n

/-- `down`: the loop runs at most `n - i` times (`i` strictly increases, stays below `n`) -/
def down (l : Heap) (i n : Nat) : Heap × Nat := downF (n - i) l i n

def push (l : Heap) (x : Item) : Heap := up (l ++ [x]) l.length

/-- `Pop`: the new slice and the popped element (the code panics on an empty slice) -/
def pop (l : Heap) : Heap × Item :=
  let n := l.length - 1
  let l1 := (down (swap l 0 n) 0 n).1
  (l1.dropLast, hget l1 n)

/-- `Remove(i)` -/
def remove (l : Heap) (i : Nat) : Heap × Item :=
  let n := l.length - 1
  let l1 := if n ≠ i then
      let s := swap l i n
      let (d, pos) := down s i n
      if pos > i then d else up d i
    else l
  (l1.dropLast, hget l1 n)

/-- `Fix(i)` -/
def fix (l : Heap) (i : Nat) : Heap :=
  let (d, pos) := down l i l.length
  if pos > i then d else up d i

/-- `New`: bottom-up heapify, `for i := n/2 - 1; i >= 0; i--` -/
def heapify (l : Heap) : Heap :=
  let n := l.length
  (List.range (n / 2)).reverse.foldl (fun acc i => (down acc i n).1) l

/-! ### the notification queue -/

inductive CtxErr | canceled | deadline
  deriving DecidableEq, Repr

/-- a waiter's channel (`make(chan error, 1)`): buffered value and closed flag -/
structure Chan where
  buf : Option CtxErr := none
  closed : Bool := false
  deriving DecidableEq, Repr

inductive Status | running | blocked | panicked
  deriving DecidableEq, Repr

structure QState where
  /-- the per-table heaps (`q.items`) -/
  heaps : String → Heap := fun _ => []
  /-- tables that have an entry in `q.items` -/
  tables : List String := []
  /-- the waiters' channels -/
  chans : Nat → Chan := fun _ => {}
  /-- contexts whose `Err()` is non-nil -/
  ended : List (Nat × CtxErr) := []
  status : Status := .running

def QState.heap (s : QState) (t : String) : Heap := s.heaps t
def QState.setHeap (s : QState) (t : String) (h : Heap) : QState :=
  { s with heaps := fun t' => if t' = t then h else s.heaps t', tables := if s.tables.contains t then s.tables else t :: s.tables }
def QState.chan (s : QState) (w : Nat) : Chan := s.chans w
def QState.setChan (s : QState) (w : Nat) (c : Chan) : QState :=
  { s with chans := fun w' => if w' = w then c else s.chans w' }
def QState.ctxErr (s : QState) (c : Nat) : Option CtxErr := (s.ended.find? (·.1 == c)).map (·.2)

/-- `elem.waitCh <- err` executed by the loop goroutine -/
def QState.send (s : QState) (w : Nat) (e : CtxErr) : QState :=
  let c := s.chan w
  if c.closed then { s with status := .panicked }
  else if c.buf.isSome then { s with status := .blocked }
  else s.setChan w { c with buf := some e }

/-- `close(elem.waitCh)` -/
def QState.close (s : QState) (w : Nat) : QState :=
  let c := s.chan w
  if c.closed then { s with status := .panicked } else s.setChan w { c with closed := true }

/-- `Add`: a fresh channel, the item pushed on the table's heap -/
def QState.add (s : QState) (w : Nat) (t : String) (rev ctx : Nat) : QState :=
  if s.status ≠ .running then s else
  (s.setChan w {}).setHeap t (push (s.heap t) ⟨w, rev, ctx⟩)

/-- the loop of the `notif` case: at most `fuel = h.Len()` iterations -/
def notifyLoop (n : Nat) : Nat → QState → Heap → QState × Heap
  | 0, s, h => (s, h)
  | fuel + 1, s, h =>
    if s.status ≠ .running then (s, h) else
    match h with
    | [] => (s, h)
    | root :: _ =>
      match s.ctxErr root.ctx with
      | some e => notifyLoop n fuel (s.send root.id e) (pop h).1
      | none => if root.rev ≤ n then notifyLoop n fuel (s.close root.id) (pop h).1 else (s, h)

def QState.notify (s : QState) (t : String) (n : Nat) : QState :=
  if s.status ≠ .running then s else
  let h := s.heap t
  let (s', h') := notifyLoop n h.length s h
  if s'.status = .running then s'.setHeap t h' else s'

/-- the first pass of the sweep over one heap's slice (after fix D5): answer every expired waiter,
collect the live ones in slice order; a send that blocks stops everything -/
def sweepItems (s : QState) : List Item → QState × List Item
  | [] => (s, [])
  | it :: rest =>
    match s.ctxErr it.ctx with
    | some e =>
      let s1 := s.send it.id e
      if s1.status ≠ .running then (s1, []) else sweepItems s1 rest
    | none =>
      let r := sweepItems s rest
      (r.1, it :: r.2)

/-- the sweep over one table's heap: answer and drop every expired waiter, re-heapify the rest -/
def sweepHeap (s : QState) (h : Heap) : QState × Heap :=
  let r := sweepItems s h
  (r.1, heapify r.2)

def QState.sweepTable (acc : QState) (t : String) : QState :=
  if acc.status ≠ .running then acc else
  let r := sweepHeap acc (acc.heap t)
  if r.1.status = .running then r.1.setHeap t r.2 else r.1

def QState.sweep (s : QState) : QState :=
  if s.status ≠ .running then s else s.tables.foldl QState.sweepTable s

def QState.cancel (s : QState) (c : Nat) (e : CtxErr) : QState :=
  if (s.ctxErr c).isSome then s else { s with ended := (c, e) :: s.ended }

/-- `Len` (answered by the loop goroutine: hangs if the loop is wedged) -/
def QState.len (s : QState) (t : String) : Option Nat :=
  if s.status ≠ .running then none else some (s.heap t).length

/-- the caller's (non-blocking) receive on its channel -/
def QState.recv (s : QState) (w : Nat) : QState × Option (Option CtxErr) :=
  let c := s.chan w
  match c.buf with
  | some e => (s.setChan w { c with buf := none }, some (some e))
  | none => if c.closed then (s, some none) else (s, none)

end Regatta.Queue
