import Regatta.Model.Wire
/-
  The protobuf wire format for ANY message type (C18, "every API message"): a message value is the
  tree of its populated fields (proto3: an unset field and a zero / empty one are the same value,
  `optional` fields and embedded messages carry presence by being in the tree or not); a schema says
  which field numbers hold embedded messages (recursively).  The schemas of all message types of
  the API are read from the compiled descriptors on every run; the harness compares this decoder and
  encoder with the registered codec on random values of every one of them.

  Wire types 0 (varint), 1 (64-bit), 2 (length-delimited) and 5 (32-bit) are modelled — all that
  proto3 has besides the deprecated groups; the API's own .proto files use 0 and 2 only, the 64-bit
  type comes in through `google.protobuf.Struct` (doubles in the configuration a status response
  carries).
-/
namespace Regatta.Wire
open Regatta

/-- a populated field: a varint scalar (integers, enums, booleans), a bytes / string value, or an
embedded message (one element of a repeated field, a oneof arm, a map entry) with its own fields -/
inductive Tree
  | varint (f n : Nat)
  | bytes (f : Nat) (b : Bytes)
  | fixed64 (f : Nat) (b : Bytes)     -- 8 bytes (double, fixed64, sfixed64)
  | fixed32 (f : Nat) (b : Bytes)     -- 4 bytes (float, fixed32, sfixed32)
  | sub (f : Nat) (kids : List Tree)

/-- one (field number, wire type, payload) triple with all four wire types -/
inductive XField
  | varint (f n : Nat)
  | bytes (f : Nat) (b : Bytes)
  | fixed64 (f : Nat) (b : Bytes)
  | fixed32 (f : Nat) (b : Bytes)

def decXField (b : Bytes) : Option (XField × Bytes) := do
  let (t, r) ← decVarint b
  if t % 8 = 0 then
    let (n, r) ← decVarint r
    pure (.varint (t / 8) n, r)
  else if t % 8 = 2 then
    let (l, r) ← decVarint r
    if r.length < l then none else pure (.bytes (t / 8) (r.take l), r.drop l)
  else if t % 8 = 1 then
    if r.length < 8 then none else pure (.fixed64 (t / 8) (r.take 8), r.drop 8)
  else if t % 8 = 5 then
    if r.length < 4 then none else pure (.fixed32 (t / 8) (r.take 4), r.drop 4)
  else none

def decXFields (fuel : Nat) (b : Bytes) : Option (List XField) :=
  match fuel with
  | 0 => if b.isEmpty then some [] else none
  | fuel + 1 =>
    if b.isEmpty then some [] else do
      let (f, r) ← decXField b
      let fs ← decXFields fuel r
      pure (f :: fs)

/-- which field numbers are embedded messages, and their schemas -/
inductive Schema
  | mk (subs : List (Nat × Schema))

def Schema.subs : Schema → List (Nat × Schema)
  | .mk l => l

def Schema.sub? (s : Schema) (f : Nat) : Option Schema := (s.subs.find? (·.1 == f)).map (·.2)

mutual
def Tree.enc : Tree → Bytes
  | .varint f n => tag f 0 ++ encVarint n
  | .bytes f b => tag f 2 ++ encVarint b.length ++ b
  | .fixed64 f b => tag f 1 ++ b
  | .fixed32 f b => tag f 5 ++ b
  | .sub f kids => tag f 2 ++ encVarint (Tree.encList kids).length ++ Tree.encList kids
def Tree.encList : List Tree → Bytes
  | [] => []
  | t :: rest => t.enc ++ Tree.encList rest
end

/-- the decoder of one level, given the decoder of embedded messages -/
def Tree.ofField (s : Schema) (dec : Schema → Bytes → Option (List Tree)) : XField → Option Tree
  | .varint f n => some (.varint f n)
  | .fixed64 f b => some (.fixed64 f b)
  | .fixed32 f b => some (.fixed32 f b)
  | .bytes f d =>
    match s.sub? f with
    | none => some (.bytes f d)
    | some s' => (dec s' d).map (.sub f)

/-- decode a message of schema `s`; the fuel bounds the nesting depth -/
def Tree.decode : Nat → Schema → Bytes → Option (List Tree)
  | 0, _, _ => none
  | fuel + 1, s, b => do
    let fs ← decXFields b.length b
    fs.mapM (Tree.ofField s (Tree.decode fuel))

mutual
def Tree.depth : Tree → Nat
  | .varint _ _ => 0
  | .bytes _ _ => 0
  | .fixed64 _ _ => 0
  | .fixed32 _ _ => 0
  | .sub _ kids => Tree.depthList kids + 1
def Tree.depthList : List Tree → Nat
  | [] => 0
  | t :: rest => max t.depth (Tree.depthList rest)
end

mutual
/-- the tree uses embedded messages exactly where the schema has them (and fixed-width payloads
have their width) -/
def Tree.conforms : Schema → Tree → Bool
  | _, .varint _ _ => true
  | _, .fixed64 _ b => b.length == 8
  | _, .fixed32 _ b => b.length == 4
  | s, .bytes f _ => (s.sub? f).isNone
  | s, .sub f kids => match s.sub? f with
    | none => false
    | some s' => Tree.conformsList s' kids
def Tree.conformsList : Schema → List Tree → Bool
  | _, [] => true
  | s, t :: rest => Tree.conforms s t && Tree.conformsList s rest
end

end Regatta.Wire
