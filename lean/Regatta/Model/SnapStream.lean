import Regatta.Model.Fsm
/-
  Model of the table stream and its restore:
    storage/table/fsm/query.go commandSnapshot (one PUT command per user pair of a point-in-time
    view, in key order; bookkeeping keys and the empty-user-key record skipped; plus the local index),
    regattaserver/replication.go SnapshotServer.Stream (the trailing DUMMY carrying that index as
    leader index) / maintenance.go Backup (no DUMMY),
    storage/table/manager.go readIntoTable (message by message, batch until half of the in-memory
    log size, propose, leader index hand-over, one more proposal at the end).
-/
namespace Regatta.SnapStream
open Regatta Regatta.Fsm Regatta.Key

/-- one command of the stream -/
inductive Msg
  | put (key : Bytes) (value : Val)      -- Command{Type: PUT, Kv}
  | dummy (leaderIndex : Nat)            -- the terminating Command{Type: DUMMY, LeaderIndex}

/-- `commandSnapshot`: every stored key is decoded; user-typed keys become PUT commands -/
def commandSnapshot (db : Db) : List Msg × Nat :=
  (db.filterMap (fun p =>
    match decodeBytes p.1 with
    | .ok (t, k) => if t = typeUser then some (Msg.put k p.2) else none
    | .error _ => none),
   readIndex db sysLocalIndex)

/-- the stream a follower receives: the snapshot plus the DUMMY with the index it was taken at -/
def leaderStream (db : Db) : List Msg :=
  let (ms, idx) := commandSnapshot db
  ms ++ [.dummy idx]

/-- the stream a backup file holds -/
def backupStream (db : Db) : List Msg := (commandSnapshot db).1

/-- a PUT_BATCH proposal of the restore -/
structure Proposal where
  batch : List (Bytes × Val)
  leaderIndex : Option Nat

/-- what a message contributes to the pending batch command: its `Kv` (nil for the DUMMY, which
marshals as an empty pair) and its leader index (copied, also when absent) -/
def Msg.kv : Msg → Bytes × Val
  | .put k v => (k, v)
  | .dummy _ => ([], ByteArray.empty)

def Msg.li : Msg → Option Nat
  | .put _ _ => none
  | .dummy li => some li

/-- the loop of `readIntoTable` (after fix D2) over the messages with the byte size each read
returned; `size` is the estimated size so far, `batch` / `li` the pending batch command -/
def readLoop (maxInMem : Nat) : List (Nat × Msg) → Nat → List (Bytes × Val) → Option Nat → List Proposal
  | [], _, batch, li => [⟨batch, li⟩]      -- EOF: one more (possibly empty) proposal
  | (n, m) :: rest, size, batch, _ =>
    let size := size + n
    let batch := batch ++ [m.kv]
    let li := m.li
    if maxInMem = 0 ∨ size < maxInMem / 2 then readLoop maxInMem rest size batch li
    else ⟨batch, li⟩ :: readLoop maxInMem rest 0 [] none

def readIntoTable (maxInMem : Nat) (msgs : List (Nat × Msg)) : List Proposal := readLoop maxInMem msgs 0 [] none

/-- the proposals as log entries of the fresh shard (indices from `first`) -/
def toEntries (first : Nat) : List Proposal → List Entry
  | [] => []
  | p :: rest => ⟨first, p.leaderIndex, .putBatch p.batch⟩ :: toEntries (first + 1) rest

end Regatta.SnapStream
