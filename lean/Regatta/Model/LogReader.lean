/-
  Model of storage/logreader (logreader.go, cache.go) and of the loop of
  regattaserver.LogServer.Replicate (regattaserver/replication.go).

  The Raft log of a shard appears as: the available range `[first, last]` (dragonboat's
  `GetRange`), the immutable history `ent : index ↦ entry` and a function `entriesFn` standing for
  dragonboat's `Entries(low, high, maxSize)`.  The theorems assume about `entriesFn` only that it
  returns a non-empty prefix of the history's `[low, high)`; the driver instantiates it with the
  policy of the harness's stub log (entries while the running size stays ≤ maxSize, at least one).
-/
namespace Regatta.LogReader

/-- a Raft log entry: its index, `SizeUpperLimit()`, and whether it is an `EncodedEntry` (carrying
a regatta command) or any other type (shipped as DUMMY) -/
structure LEntry where
  index : Nat
  size : Nat
  encoded : Bool
  deriving DecidableEq, Repr

/-- what the reader sees of the Raft log -/
structure Log where
  first : Nat                      -- rFirst: first index still in the log
  last : Nat                       -- rLast
  ent : Nat → LEntry               -- the (immutable) history
  entriesFn : Nat → Nat → Nat → List LEntry   -- dragonboat Entries(low, high, maxSize)

inductive LogErr | behind | ahead
  deriving DecidableEq, Repr

/-- the stub log's `Entries`: `[low, high)` clipped to `last`, cut when the running size exceeds
`maxSize`, never before the first entry -/
def stubEntries (ent : Nat → LEntry) (last : Nat) (low high maxSize : Nat) : List LEntry :=
  let rec go (fuel i size : Nat) (acc : List LEntry) : List LEntry :=
    match fuel with
    | 0 => acc.reverse
    | fuel + 1 =>
      if i < high ∧ i ≤ last then
        let e := ent i
        let size := size + e.size
        if !acc.isEmpty ∧ size > maxSize then acc.reverse else go fuel (i + 1) size (e :: acc)
      else acc.reverse
  go (high - low) low 0 []

/-- `readLog`: the three comparisons, then the log -/
def readLog (l : Log) (first last maxSize : Nat) : Except LogErr (List LEntry) :=
  if l.last + 1 = first then .ok []
  else if l.last < first then .error .behind
  else if first < l.first then .error .ahead
  else .ok (l.entriesFn first last maxSize)

/-- `Simple.QueryRaftLog` -/
def simpleQuery (l : Log) (first last maxSize : Nat) : Except LogErr (List LEntry) :=
  if first = last then .ok [] else readLog l first last maxSize

/-- the tail of `fixSize`'s loop: `size` is the running sum so far; cut *before* the entry with
which the sum reaches `maxSize` -/
def fixRest (rest : List LEntry) (size maxSize : Nat) : List LEntry :=
  match rest with
  | [] => []
  | e :: r => if size + e.size ≥ maxSize then [] else e :: fixRest r (size + e.size) maxSize

/-- `fixSize` (after fix D7: the first entry is never cut) -/
def fixSize (entries : List LEntry) (maxSize : Nat) : List LEntry :=
  match entries with
  | [] => []
  | e :: rest => e :: fixRest rest e.size maxSize

/-- the per-shard entry cache -/
structure Cache where
  buffer : List LEntry := []
  size : Nat

def Cache.smallest (c : Cache) : Nat := (c.buffer.head?.map (·.index)).getD 0
def Cache.largest (c : Cache) : Nat := (c.buffer.getLast?.map (·.index)).getD 0

/-- `findIndex`: position of the first entry whose index satisfies the (monotone) predicate -/
def findIndex (es : List LEntry) (f : Nat → Bool) : Nat := (es.takeWhile (fun e => !f e.index)).length

/-- `makeRoomAndAppend` -/
def Cache.makeRoomAndAppend (c : Cache) (es : List LEntry) : Cache :=
  let buf := if c.size < es.length + c.buffer.length then c.buffer.drop (es.length + c.buffer.length - c.size) else c.buffer
  { c with buffer := buf ++ es }

/-- `cache.put` -/
def Cache.put (c : Cache) (es : List LEntry) : Cache :=
  if es.isEmpty then c else
  let es := if es.length > c.size then es.drop (es.length - c.size) else es
  let maxIndex := c.largest
  if maxIndex = 0 then c.makeRoomAndAppend es
  else
    let i := findIndex es (fun idx => idx > maxIndex)
    if i = es.length then c else c.makeRoomAndAppend (es.drop i)

/-- `cache.get`: cached entries of `[first, last)`, and the ranges to read from the log before and
after them (`(0, 0)` = nothing to read) -/
def Cache.get (c : Cache) (first last : Nat) : List LEntry × (Nat × Nat) × (Nat × Nat) :=
  if c.buffer.isEmpty then ([], (first, last), (0, 0))
  else if c.smallest > last then ([], (first, last), (0, 0))
  else if c.largest < first then ([], (0, 0), (first, last))
  else
    let start := findIndex c.buffer (fun idx => idx ≥ first)
    let stop := findIndex c.buffer (fun idx => idx ≥ last)
    let entries := (c.buffer.take stop).drop start
    if entries.isEmpty then (entries, (0, 0), (0, 0))
    else
      (entries,
       if first < c.smallest then (first, c.smallest) else (0, 0),
       if last > c.largest + 1 then (c.largest + 1, last) else (0, 0))

/-- `Cached.QueryRaftLog` (for a shard whose cache exists); returns the answer and the new cache -/
def cachedQuery (l : Log) (c : Cache) (first last maxSize : Nat) : Except LogErr (List LEntry) × Cache :=
  if first = last then (.ok [], c) else
  let (cached, pre, app) := c.get first last
  if pre.1 ≠ 0 ∧ pre.2 ≠ 0 then
    match readLog l pre.1 pre.2 maxSize with
    | .error e => (.error e, c)
    | .ok le =>
      if le.isEmpty then (.ok (fixSize cached maxSize), c)
      else if !cached.isEmpty ∧ (le.getLast?.map (·.index)) = (cached.head?.map (·.index - 1)) then
        (.ok (fixSize (le ++ cached) maxSize), c)
      else (.ok le, if c.buffer.length = 0 then c.put le else c)
  else if app.1 ≠ 0 ∧ app.2 ≠ 0 then
    match readLog l app.1 app.2 maxSize with
    | .error e => (.error e, c)
    | .ok le =>
      if le.isEmpty then (.ok (fixSize cached maxSize), c)
      else if !cached.isEmpty then (.ok (fixSize (cached ++ le) maxSize), c.put le)
      else (.ok le, if (le.head?.map (·.index - 1)) = some c.largest then c.put le else c)
  else (.ok (fixSize cached maxSize), c)

/-- messages of the `Replicate` stream -/
inductive Msg
  | commands (es : List LEntry)      -- each command labelled with its entry's index
  | upToDate (applied : Nat)         -- empty batch carrying the applied index
  | leaderBehind
  | useSnapshot
  deriving Repr

/-- the loop of `LogServer.Replicate` for a query function `q first last` (Simple or Cached with its
state threaded through `σ`); `fuel` bounds the number of iterations (the range length + 1 always
suffices because every non-empty answer advances `first`) -/
def replicateLoop {σ : Type} (q : σ → Nat → Nat → Except LogErr (List LEntry) × σ) (staleApplied : Nat) :
    Nat → σ → Nat → Nat → List Msg × σ
  | 0, s, _, _ => ([], s)
  | fuel + 1, s, first, last =>
    match q s first last with
    | (.error .behind, s') => ([.leaderBehind], s')
    | (.error .ahead, s') => ([.useSnapshot], s')
    | (.ok [], s') => ([.upToDate staleApplied], s')
    | (.ok (e :: es), s') =>
      let next := ((e :: es).getLast?.map (·.index)).getD 0 + 1
      let (ms, s'') := replicateLoop q staleApplied fuel s' (min next last) last
      (.commands (e :: es) :: ms, s'')

/-- `LogServer.Replicate` after the table lookup: `applied` is the linearizable local index read at
the start, `staleApplied` the one read when the stream ends -/
def replicate {σ : Type} (q : σ → Nat → Nat → Except LogErr (List LEntry) × σ) (s : σ)
    (req applied staleApplied : Nat) : List Msg × σ :=
  if applied + 1 < req then ([.leaderBehind], s)
  else replicateLoop q staleApplied (applied + 2 - req + 1) s req (applied + 1)

end Regatta.LogReader
