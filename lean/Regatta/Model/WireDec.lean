import Regatta.Model.Wire
/-
  Decoders of the mvcc messages (regattapb/mvcc_vtproto.pb.go UnmarshalVT: KeyValue, Compare,
  RequestOp with its three arms, Txn, Command — recursive through `sequence`), in the shape of the
  generated code: the bytes are a sequence of (field number, wire type, payload) triples; scalar
  fields are overwritten by a later occurrence, repeated fields are appended, a oneof arm replaces
  whatever arm was there, unknown fields are skipped, a malformed embedded message fails the whole
  decode.  (The generated decoder merges a repeated occurrence of the same oneof arm or embedded
  message into the existing one; the encoder never produces such input, and the model replaces.)
-/
namespace Regatta.Wire
open Regatta

/-- all (field, payload) triples of a message -/
def fieldsOf (b : Bytes) : Option (List Field) := decFields b.length b

def KeyValue.ofFields (fs : List Field) : KeyValue :=
  fs.foldl (fun c f => match f with
    | .bytes 1 d => { c with key := d }
    | .varint 2 n => { c with createRev := n }
    | .varint 3 n => { c with modRev := n }
    | .bytes 4 d => { c with value := d }
    | _ => c) ⟨[], 0, 0, []⟩

def KeyValue.decode (b : Bytes) : Option KeyValue := (fieldsOf b).map KeyValue.ofFields

/-! ### decoding into a recycled receiver

`Command.ResetVT` keeps the backing array of `Batch` and the `KeyValue` objects in it (each one
`Reset()`), and `UnmarshalVT` decodes the i-th batch element INTO the i-th retained object when there
is one: only the fields present on the wire are assigned, everything else is whatever the object
held.  Proto3 omits empty bytes and zero numbers, so the retained object must be in its default
state for the decode to be lossless (seeded change C18-g skipped the `Reset()`). -/

/-- `UnmarshalVT` into an existing `KeyValue` -/
def KeyValue.ofFieldsInto (base : KeyValue) (fs : List Field) : KeyValue :=
  fs.foldl (fun c f => match f with
    | .bytes 1 d => { c with key := d }
    | .varint 2 n => { c with createRev := n }
    | .varint 3 n => { c with modRev := n }
    | .bytes 4 d => { c with value := d }
    | _ => c) base

def KeyValue.decodeInto (base : KeyValue) (b : Bytes) : Option KeyValue :=
  (fieldsOf b).map (KeyValue.ofFieldsInto base)

/-- `(*KeyValue).Reset()` -/
def KeyValue.reset (_ : KeyValue) : KeyValue := ⟨[], 0, 0, []⟩

/-- the batch of a message decoded into the retained objects `ret` of a recycled `Command`: element
i goes into `ret[i]` while there is one, into a fresh object afterwards -/
def batchInto : List KeyValue → List Bytes → Option (List KeyValue)
  | _, [] => some []
  | [], b :: bs => do
    let kv ← KeyValue.decode b
    let rest ← batchInto [] bs
    pure (kv :: rest)
  | r :: ret, b :: bs => do
    let kv ← KeyValue.decodeInto r b
    let rest ← batchInto ret bs
    pure (kv :: rest)

/-- the embedded messages of the three RequestOp arms -/
structure RangeMsg where
  key : Bytes := []
  rangeEnd : Bytes := []
  limit : Nat := 0
  keysOnly : Bool := false
  countOnly : Bool := false

def RangeMsg.ofFields (fs : List Field) : RangeMsg :=
  fs.foldl (fun c f => match f with
    | .bytes 1 d => { c with key := d }
    | .bytes 2 d => { c with rangeEnd := d }
    | .varint 3 n => { c with limit := n }
    | .varint 4 n => { c with keysOnly := n != 0 }
    | .varint 5 n => { c with countOnly := n != 0 }
    | _ => c) {}

structure PutMsg where
  key : Bytes := []
  value : Bytes := []
  prevKv : Bool := false

def PutMsg.ofFields (fs : List Field) : PutMsg :=
  fs.foldl (fun c f => match f with
    | .bytes 1 d => { c with key := d }
    | .bytes 2 d => { c with value := d }
    | .varint 3 n => { c with prevKv := n != 0 }
    | _ => c) {}

structure DelMsg where
  key : Bytes := []
  rangeEnd : Bytes := []
  prevKv : Bool := false
  count : Bool := false

def DelMsg.ofFields (fs : List Field) : DelMsg :=
  fs.foldl (fun c f => match f with
    | .bytes 1 d => { c with key := d }
    | .bytes 2 d => { c with rangeEnd := d }
    | .varint 4 n => { c with prevKv := n != 0 }
    | .varint 5 n => { c with count := n != 0 }
    | _ => c) {}

def RequestOp.step (cur : RequestOp) (f : Field) : Option RequestOp :=
  match f with
  | .bytes 1 d => (fieldsOf d).map fun fs => let m := RangeMsg.ofFields fs; .range m.key m.rangeEnd m.limit m.keysOnly m.countOnly
  | .bytes 2 d => (fieldsOf d).map fun fs => let m := PutMsg.ofFields fs; .put m.key m.value m.prevKv
  | .bytes 3 d => (fieldsOf d).map fun fs => let m := DelMsg.ofFields fs; .del m.key m.rangeEnd m.prevKv m.count
  | _ => some cur

def RequestOp.decode (b : Bytes) : Option RequestOp := do
  let fs ← fieldsOf b
  fs.foldlM RequestOp.step .none

def Compare.ofFields (fs : List Field) : Compare :=
  fs.foldl (fun c f => match f with
    | .varint 1 n => { c with result := n }
    | .varint 2 n => { c with target := n }
    | .bytes 3 d => { c with key := d }
    | .bytes 4 d => { c with value := some d }
    | .bytes 64 d => { c with rangeEnd := d }
    | _ => c) ⟨0, 0, [], none, []⟩

def Compare.decode (b : Bytes) : Option Compare := (fieldsOf b).map Compare.ofFields

def Txn.step (t : Txn) (f : Field) : Option Txn :=
  match f with
  | .bytes 1 d => (Compare.decode d).map fun c => { t with compare := t.compare ++ [c] }
  | .bytes 2 d => (RequestOp.decode d).map fun o => { t with success := t.success ++ [o] }
  | .bytes 3 d => (RequestOp.decode d).map fun o => { t with failure := t.failure ++ [o] }
  | _ => some t

def Txn.decode (b : Bytes) : Option Txn := do
  let fs ← fieldsOf b
  fs.foldlM Txn.step ⟨[], [], []⟩

/-- a Command under construction (named fields; `Command` itself is positional) -/
structure CmdAcc where
  table : Bytes := []
  type : Nat := 0
  kv : Option KeyValue := none
  leaderIndex : Option Nat := none
  batch : List KeyValue := []
  txn : Option Txn := none
  rangeEnd : Option Bytes := none
  prevKvs : Bool := false
  sequence : List Command := []
  count : Bool := false

def CmdAcc.toCommand (a : CmdAcc) : Command :=
  .mk a.table a.type a.kv a.leaderIndex a.batch a.txn a.rangeEnd a.prevKvs a.sequence a.count

def CmdAcc.step (dec : Bytes → Option Command) (a : CmdAcc) (f : Field) : Option CmdAcc :=
  match f with
  | .bytes 1 d => some { a with table := d }
  | .varint 2 n => some { a with type := n }
  | .bytes 3 d => (KeyValue.decode d).map fun kv => { a with kv := some kv }
  | .varint 5 n => some { a with leaderIndex := some n }
  | .bytes 6 d => (KeyValue.decode d).map fun kv => { a with batch := a.batch ++ [kv] }
  | .bytes 7 d => (Txn.decode d).map fun t => { a with txn := some t }
  | .bytes 8 d => some { a with rangeEnd := some d }
  | .varint 9 n => some { a with prevKvs := n != 0 }
  | .bytes 10 d => (dec d).map fun c => { a with sequence := a.sequence ++ [c] }
  | .varint 11 n => some { a with count := n != 0 }
  | _ => some a

/-- `Command.UnmarshalVT`; the fuel bounds the nesting depth of `sequence` -/
def Command.decode : Nat → Bytes → Option Command
  | 0, _ => none
  | fuel + 1, b => do
    let fs ← fieldsOf b
    let a ← fs.foldlM (CmdAcc.step (Command.decode fuel)) {}
    pure a.toCommand

mutual
/-- nesting depth (a command without sub-commands has depth 1) -/
def Command.depth : Command → Nat
  | .mk _ _ _ _ _ _ _ _ sq _ => Command.depthList sq + 1
def Command.depthList : List Command → Nat
  | [] => 0
  | c :: rest => max c.depth (Command.depthList rest)
end

end Regatta.Wire
