/-
  Crash model of a table directory (C04, C08): the file-system protocol of storage/table/fsm
  (FSM.Open first-run and re-run branch, Update, Sync, Close, snapshot.recover, checkpoint.recover)
  and pebble/dir.go (CreateNodeDataDir, SaveCurrentDBDirName, ReplaceCurrentDBFile,
  CleanupNodeDataDir) as lists of file-system steps over a two-level (volatile / durable) image of
  the directory, under the property's fault model: file data is durable up to the file's last
  sync, directory entries up to the directory's last sync.

  A Pebble directory is abstract: its content is "the state after applying the first j log
  entries" (`db j`), or an empty directory; data and applied index travel in one batch and the WAL
  is off, so a flush (Sync, Close, Pebble's own) makes the volatile content the durable one
  atomically (Pebble assumption), and that the content of the store after j entries is exactly the
  specification's state is C01/C03's refinement theorem.
-/
namespace Regatta.Crash

abbrev Name := Nat

/-- what a DB directory holds -/
inductive Content
  | empty            -- the directory exists, Pebble has not created a store in it
  | db (j : Nat)     -- a store whose content is the log prefix of length j (applied index included)
  deriving DecidableEq, Repr

/-- the index `Open` reads from a store; opening an empty directory creates an empty store -/
def Content.idx : Content → Nat
  | .empty => 0
  | .db j => j

/-- `current` / `current.updating`: what `GetCurrentDBDirName` parses from the bytes written so far
(`none`: empty, short or bad checksum) and from the bytes as of the file's last sync -/
structure SFile where
  data : Option Name
  sdata : Option Name
  deriving DecidableEq, Repr

structure PDir where
  vol : Content
  dur : Content
  deriving DecidableEq, Repr

structure St where
  /-- the table directory exists -/
  dirV : Bool := false
  cur : Option SFile := none
  upd : Option SFile := none
  /-- DB directories (and other garbage) linked in the table directory -/
  ents : List Name := []
  /-- the table directory is reachable through durable entries from the (durable) base directory -/
  dirD : Bool := false
  curD : Option SFile := none
  updD : Option SFile := none
  entsD : List Name := []
  pd : Name → PDir := fun _ => ⟨.empty, .empty⟩
  /-- the store the running state machine has open -/
  live : Option Name := none
  /-- ghost: the index covered by the last completed `Sync()` -/
  lastSync : Nat := 0

def St.setPd (s : St) (n : Name) (p : PDir) : St := { s with pd := fun m => if m = n then p else s.pd m }

/-- the name `current` holds right now -/
def St.curName (s : St) : Option Name := s.cur.bind (·.data)

inductive FsOp
  | mkTableDir            -- MkdirAll(<base>/<host>/<table>)
  | syncAnc               -- sync of every ancestor that received a new entry (CreateNodeDataDir)
  | mkDb (n : Name)       -- MkdirAll(dbdir)
  | createUpd | writeUpd (n : Name) | syncUpd      -- SaveCurrentDBDirName: create, write, f.Sync
  | syncDir               -- syncDir(table directory)
  | renameUpd             -- ReplaceCurrentDBFile: rename current.updating -> current
  | removeUpd             -- CleanupNodeDataDir: RemoveAll(current.updating)
  | removeOthers          -- CleanupNodeDataDir: list, remove everything but `current` and the directory it names
  | dbOpen (n : Name)     -- pebble.Open(dbdir)
  | dbIngest (n : Name) (j : Nat)   -- write ingest files, db.Ingest: the store holds snapshot state j, durably
  | dbFiles (n : Name) (j : Nat)    -- checkpoint recover: files copied (each synced), directory not synced
  | dbApply (j : Nat)     -- Update: one batch with data and index into the memtable
  | dbFlush               -- db.Flush()
  | noteSync              -- ghost: Sync() returned
  | setLive (n : Name)    -- pebble.Store / Swap
  | dropLive              -- db.Close()
  deriving DecidableEq, Repr

def St.apply (s : St) : FsOp → St
  | .mkTableDir => { s with dirV := true }
  | .syncAnc => { s with dirD := s.dirV }
  | .mkDb n => if n ∈ s.ents then s else { s with ents := n :: s.ents }.setPd n ⟨.empty, .empty⟩
  | .createUpd => { s with upd := some ⟨none, none⟩ }
  | .writeUpd n => { s with upd := s.upd.map fun f => { f with data := some n } }
  | .syncUpd => { s with upd := s.upd.map fun f => { f with sdata := f.data } }
  | .syncDir => { s with curD := s.cur, updD := s.upd, entsD := s.ents }
  | .renameUpd => match s.upd with
    | some f => { s with cur := some f, upd := none }
    | none => s
  | .removeUpd => { s with upd := none }
  | .removeOthers => { s with ents := s.ents.filter (fun m => s.curName == some m) }
  | .dbOpen n =>
    -- creates the directory if it is missing; whatever the directory holds is durable inside it
    -- once Open returns (Pebble syncs the directory it opens)
    let s := if n ∈ s.ents then s else { s with ents := n :: s.ents }.setPd n ⟨.empty, .empty⟩
    s.setPd n ⟨.db (s.pd n).vol.idx, .db (s.pd n).vol.idx⟩
  | .dbIngest n j => s.setPd n ⟨.db j, .db j⟩
  | .dbFiles n j => s.setPd n ⟨.db j, .empty⟩
  | .dbApply j => match s.live with
    | some m => s.setPd m ⟨.db j, (s.pd m).dur⟩
    | none => s
  | .dbFlush => match s.live with
    | some m => s.setPd m ⟨(s.pd m).vol, (s.pd m).vol⟩
    | none => s
  | .noteSync => match s.live with
    | some m => { s with lastSync := (s.pd m).vol.idx }
    | none => s
  | .setLive n => { s with live := some n }
  | .dropLive => { s with live := none }

def St.run (s : St) (ops : List FsOp) : St := ops.foldl St.apply s

/-- SaveCurrentDBDirName + ReplaceCurrentDBFile -/
def publish (n : Name) : List FsOp := [.createUpd, .writeUpd n, .syncUpd, .syncDir, .renameUpd, .syncDir]

inductive Event
  | open (n : Name)                    -- n: the random directory name drawn (used on a first run)
  | update (j : Nat)
  | sync
  | flush                              -- a memtable flush Pebble performs on its own
  | recoverSnap (n : Name) (j : Nat)   -- snapshot format, random name n, snapshot of state j
  | recoverCkpt (n : Name) (j : Nat)   -- checkpoint format
  | saveCkpt                           -- checkpoint-format PrepareSnapshot: Pebble syncs the table directory
  | close
  deriving DecidableEq, Repr

/-- the file-system steps of each operation, in the order the code performs them -/
def ops (s : St) : Event → List FsOp
  | .open n =>
    if s.cur.isNone then
      [.mkTableDir, .syncAnc, .mkDb n] ++ publish n ++ [.dbOpen n, .setLive n]
    else match s.curName with
      | some m => [.mkTableDir, .syncAnc, .removeUpd, .removeOthers, .dbOpen m, .setLive m]
      | none => [.mkTableDir, .syncAnc, .removeUpd, .removeOthers]   -- unreadable `current`: Open goes wrong
  | .update j => [.dbApply j]
  | .sync => [.dbFlush, .noteSync]
  | .flush => [.dbFlush]
  | .recoverSnap n j => [.dbOpen n, .dbIngest n j] ++ publish n ++ [.setLive n, .removeUpd, .removeOthers]
  | .recoverCkpt n j => [.mkDb n, .dbFiles n j, .dbOpen n] ++ publish n ++ [.setLive n, .removeUpd, .removeOthers]
  | .saveCkpt => [.syncDir]
  | .close => [.dbFlush, .dropLive]

/-- a crash: everything that is not durable is gone, the process too -/
def St.crash (s : St) : St :=
  let reset (f : SFile) : SFile := ⟨f.sdata, f.sdata⟩
  if s.dirD then
    { s with dirV := true, cur := s.curD.map reset, curD := s.curD.map reset, upd := s.updD.map reset,
             updD := s.updD.map reset, ents := s.entsD,
             pd := fun n => ⟨(s.pd n).dur, (s.pd n).dur⟩, live := none }
  else
    { s with dirV := false, cur := none, curD := none, upd := none, updD := none, ents := [], entsD := [],
             pd := fun n => ⟨(s.pd n).dur, (s.pd n).dur⟩, live := none }

/-- what `Open` returns: the index of the store it ends up with -/
def St.liveIdx (s : St) : Option Nat := s.live.map fun m => (s.pd m).vol.idx

/-- the token the harness' normalised trace shows for a step (`none`: not visible at that level) -/
def FsOp.token : FsOp → Option String
  | .mkTableDir => some "mkTableDir"
  | .syncAnc => some "syncAnc"
  | .mkDb _ => some "mkdirDb"
  | .createUpd => some "createUpd"
  | .writeUpd _ => some "writeUpd"
  | .syncUpd => some "syncUpd"
  | .syncDir => some "syncDir"
  | .renameUpd => some "renameUpd"
  | .removeUpd => some "removeUpd"
  | .removeOthers => some "removeOthers"
  | .dbOpen _ => some "mkdirDb"
  | _ => none

def trace (l : List FsOp) : String := " ".intercalate (l.filterMap FsOp.token)

/-- the decision on one observation after a crash: `prefixes` = (index, state hash) after each
prefix of the log (the empty one included), `final` the hash after the whole log -/
def oracle (prefixes : List (Nat × UInt64)) (final : UInt64) (lastSync idx : Nat) (h hAfter : UInt64) : String :=
  match prefixes.find? (·.1 == idx) with
  | none => "bad reported-index-is-no-log-position"
  | some (_, hj) =>
    if hj != h then "bad content-is-not-the-prefix-of-the-reported-index"
    else if idx < lastSync then "bad index-behind-last-completed-sync"
    else if hAfter != final then "bad replay-does-not-converge"
    else "ok"

end Regatta.Crash
