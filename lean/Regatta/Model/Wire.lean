import Regatta.Basic.Bytes
/-
  Model of the wire formats: protobuf varints and the vtproto encoding of the mvcc messages
  (regattapb/mvcc_vtproto.pb.go MarshalVT: KeyValue, Compare, RequestOp, Txn, Command — recursive —
  and SnapshotChunk), the 8-byte little-endian length-prefixed command framing of the snapshot file
  (replication/snapshot/snapshot.go snapshotFile.Read/Write), and the chunk stream over it
  (snapshot.Writer.ReadFrom / Reader.WriteTo / Reader.Read, backup's reader/writer are the same
  shape).  Compression (snappy / gzip / zstd) is outside the model.
-/
namespace Regatta.Wire
open Regatta

/-- protobuf base-128 varint -/
def encVarint (n : Nat) : Bytes :=
  if h : n < 128 then [n.toUInt8] else (n % 128 + 128).toUInt8 :: encVarint (n / 128)
termination_by n
decreasing_by omega

def decVarint : Bytes → Option (Nat × Bytes)
  | [] => none
  | b :: rest =>
    if b.toNat < 128 then some (b.toNat, rest)
    else match decVarint rest with
      | none => none
      | some (v, r) => some (b.toNat - 128 + 128 * v, r)

def tag (field wt : Nat) : Bytes := encVarint (field * 8 + wt)

/-- a plain `bytes` field: omitted when empty -/
def bytesField (f : Nat) (b : Bytes) : Bytes := if b.isEmpty then [] else tag f 2 ++ encVarint b.length ++ b
/-- an `optional bytes` field: emitted when present, even if empty -/
def optBytesField (f : Nat) : Option Bytes → Bytes
  | none => []
  | some b => tag f 2 ++ encVarint b.length ++ b
/-- a scalar varint field: omitted when zero -/
def varintField (f n : Nat) : Bytes := if n = 0 then [] else tag f 0 ++ encVarint n
def optVarintField (f : Nat) : Option Nat → Bytes
  | none => []
  | some n => tag f 0 ++ encVarint n
def boolField (f : Nat) (b : Bool) : Bytes := if b then tag f 0 ++ [1] else []
/-- an embedded message (present sub-message, or one element of a repeated field): always emitted -/
def msgField (f : Nat) (m : Bytes) : Bytes := tag f 2 ++ encVarint m.length ++ m

structure KeyValue where
  key : Bytes
  createRev : Nat
  modRev : Nat
  value : Bytes
  deriving DecidableEq, Repr

def KeyValue.enc (kv : KeyValue) : Bytes :=
  bytesField 1 kv.key ++ varintField 2 kv.createRev ++ varintField 3 kv.modRev ++ bytesField 4 kv.value

inductive RequestOp
  | range (key rangeEnd : Bytes) (limit : Nat) (keysOnly countOnly : Bool)
  | put (key value : Bytes) (prevKv : Bool)
  | del (key rangeEnd : Bytes) (prevKv count : Bool)
  | none
  deriving DecidableEq, Repr

def RequestOp.enc : RequestOp → Bytes
  | .range k e l ko co => msgField 1 (bytesField 1 k ++ bytesField 2 e ++ varintField 3 l ++ boolField 4 ko ++ boolField 5 co)
  | .put k v pk => msgField 2 (bytesField 1 k ++ bytesField 2 v ++ boolField 3 pk)
  | .del k e pk c => msgField 3 (bytesField 1 k ++ bytesField 2 e ++ boolField 4 pk ++ boolField 5 c)
  | .none => []

structure Compare where
  result : Nat
  target : Nat
  key : Bytes
  value : Option Bytes      -- the oneof target_union
  rangeEnd : Bytes
  deriving DecidableEq, Repr

/-- the oneof is written after all other fields: 1, 2, 3, 64, 4 -/
def Compare.enc (c : Compare) : Bytes :=
  varintField 1 c.result ++ varintField 2 c.target ++ bytesField 3 c.key ++ bytesField 64 c.rangeEnd ++
    optBytesField 4 c.value

structure Txn where
  compare : List Compare
  success : List RequestOp
  failure : List RequestOp
  deriving DecidableEq, Repr

def Txn.enc (t : Txn) : Bytes :=
  (t.compare.map (fun c => msgField 1 c.enc)).flatten ++ (t.success.map (fun o => msgField 2 o.enc)).flatten ++
    (t.failure.map (fun o => msgField 3 o.enc)).flatten

inductive Command
  | mk (table : Bytes) (type : Nat) (kv : Option KeyValue) (leaderIndex : Option Nat) (batch : List KeyValue)
       (txn : Option Txn) (rangeEnd : Option Bytes) (prevKvs : Bool) (sequence : List Command) (count : Bool)

mutual
def Command.enc : Command → Bytes
  | .mk table type kv li batch txn re pk sq cnt =>
    bytesField 1 table ++ varintField 2 type ++
    (match kv with | some kv => msgField 3 kv.enc | none => []) ++
    optVarintField 5 li ++ (batch.map (fun kv => msgField 6 kv.enc)).flatten ++
    (match txn with | some t => msgField 7 t.enc | none => []) ++
    optBytesField 8 re ++ boolField 9 pk ++ Command.encList sq ++ boolField 11 cnt
def Command.encList : List Command → Bytes
  | [] => []
  | c :: rest => msgField 10 c.enc ++ Command.encList rest
end

structure SnapshotChunk where
  data : Bytes
  len : Nat
  index : Nat
  deriving DecidableEq, Repr

def SnapshotChunk.enc (c : SnapshotChunk) : Bytes :=
  bytesField 1 c.data ++ varintField 2 c.len ++ varintField 3 c.index

/-! ### decoding of the flat messages -/

/-- one (field, wire type, payload) triple of a message: varint value or length-delimited bytes -/
inductive Field
  | varint (f n : Nat)
  | bytes (f : Nat) (b : Bytes)
  deriving DecidableEq, Repr

def decField (b : Bytes) : Option (Field × Bytes) := do
  let (t, r) ← decVarint b
  if t % 8 = 0 then
    let (n, r) ← decVarint r
    pure (.varint (t / 8) n, r)
  else if t % 8 = 2 then
    let (l, r) ← decVarint r
    if r.length < l then none else pure (.bytes (t / 8) (r.take l), r.drop l)
  else none

def decFields (fuel : Nat) (b : Bytes) : Option (List Field) :=
  match fuel with
  | 0 => if b.isEmpty then some [] else none
  | fuel + 1 =>
    if b.isEmpty then some [] else do
      let (f, r) ← decField b
      let fs ← decFields fuel r
      pure (f :: fs)

/-- SnapshotChunk.UnmarshalVT into a zero message: later fields overwrite earlier ones -/
def SnapshotChunk.dec (b : Bytes) : Option SnapshotChunk := do
  let fs ← decFields b.length b
  pure (fs.foldl (fun c f => match f with
    | .bytes 1 d => { c with data := d }
    | .varint 2 n => { c with len := n }
    | .varint 3 n => { c with index := n }
    | _ => c) ⟨[], 0, 0⟩)

def KeyValue.dec (b : Bytes) : Option KeyValue := do
  let fs ← decFields b.length b
  pure (fs.foldl (fun c f => match f with
    | .bytes 1 d => { c with key := d }
    | .varint 2 n => { c with createRev := n }
    | .varint 3 n => { c with modRev := n }
    | .bytes 4 d => { c with value := d }
    | _ => c) ⟨[], 0, 0, []⟩)

/-! ### command framing of the snapshot file and the chunk stream -/

/-- 8-byte little-endian length -/
def le64 (n : Nat) : Bytes :=
  [(n % 256).toUInt8, (n / 256 % 256).toUInt8, (n / 65536 % 256).toUInt8, (n / 16777216 % 256).toUInt8,
   (n / 4294967296 % 256).toUInt8, (n / 1099511627776 % 256).toUInt8, (n / 281474976710656 % 256).toUInt8,
   (n / 72057594037927936 % 256).toUInt8]

def unLe64 (b : Bytes) : Nat :=
  (b.getD 0 0).toNat + (b.getD 1 0).toNat * 256 + (b.getD 2 0).toNat * 65536 + (b.getD 3 0).toNat * 16777216 +
  (b.getD 4 0).toNat * 4294967296 + (b.getD 5 0).toNat * 1099511627776 +
  (b.getD 6 0).toNat * 281474976710656 + (b.getD 7 0).toNat * 72057594037927936

/-- `snapshotFile.Write` for each message in turn: length prefix then the message; an empty message
is not written at all -/
def frames (ms : List Bytes) : Bytes := (ms.map (fun m => if m.isEmpty then [] else le64 m.length ++ m)).flatten

/-- `snapshotFile.Read` repeated until the end of the stream; `none` = a read fails (truncated) -/
def parseFrames (fuel : Nat) (b : Bytes) : Option (List Bytes) :=
  match fuel with
  | 0 => if b.isEmpty then some [] else none
  | fuel + 1 =>
    if b.isEmpty then some [] else
    let hd := b.take 8
    if hd.length < 8 then none else
    let n := unLe64 hd
    let rest := b.drop 8
    let m := rest.take n
    if m.length < n then none else
    match parseFrames fuel (rest.drop n) with
    | some ms => some (m :: ms)
    | none => none

/-- `Writer.ReadFrom`: one chunk per non-empty read of the underlying reader, whatever sizes the
reads return -/
def writerReadFrom (reads : List Bytes) : List SnapshotChunk :=
  (reads.filter (fun r => !r.isEmpty)).map (fun r => ⟨r, r.length, 0⟩)

/-- `Writer.Write(p)`: one chunk carrying `p`, whatever its size - also none at all -/
def writerWrite (p : Bytes) : SnapshotChunk := ⟨p, p.length, 0⟩

/-- `Reader.WriteTo`: the data of every received chunk, in order -/
def readerWriteTo (chunks : List SnapshotChunk) : Bytes := (chunks.map (·.data)).flatten

/-- `Reader.Read(p)` with `len(p) = n`: the chunk's data, or short-buffer -/
def readerRead (c : SnapshotChunk) (n : Nat) : Option Bytes := if n < c.len then none else some (c.data.take n)

end Regatta.Wire
