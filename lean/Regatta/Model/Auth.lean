import Regatta.Basic.Bytes
/-
  Access control (C17): cmd/common.go authFunc (bearer token compare on top of
  go-grpc-middleware's AuthFromMD: first `authorization` value, cut at the first space, scheme
  compared case-insensitively with "bearer", token compared exactly), the per-service override
  (TablesServer / BackupServer / ResetServer.AuthFuncOverride vs. the default, accept-all, function
  of the interceptor chain) and security/tls.go ServerConfig (client-certificate policy).  Chain
  verification and hostname matching are crypto/x509's: abstract fields of `ClientCert`.
-/
namespace Regatta.Auth
open Regatta

/-- ASCII lower case -/
def lower (b : UInt8) : UInt8 := if 65 ≤ b && b ≤ 90 then b + 32 else b

def bearer : Bytes := [98, 101, 97, 114, 101, 114]

/-- `strings.EqualFold(scheme, "bearer")`: none of b, e, a, r has a non-ASCII case variant -/
def isBearer (scheme : Bytes) : Bool := scheme.map lower == bearer

/-- `strings.Cut(v, " ")` -/
def cut : Bytes → Option (Bytes × Bytes)
  | [] => none
  | b :: rest =>
    if b = 32 then some ([], rest)
    else match cut rest with
      | some (a, c) => some (b :: a, c)
      | none => none

/-- `authFunc(token)` applied to the values of the `authorization` metadata key, in order -/
def authorize (configured : Bytes) (values : List Bytes) : Bool :=
  if configured.isEmpty then true
  else match values with
    | [] => false
    | v :: _ =>
      if v.isEmpty then false
      else match cut v with
        | none => false
        | some (scheme, token) => isBearer scheme && token == configured

inductive Service | kv | cluster | tables | maintenance
  deriving DecidableEq, Repr

structure Tokens where
  tables : Bytes
  maintenance : Bytes

/-- what the interceptor decides for a call of a method of `svc` — unary or streaming alike: both
chains start with the auth interceptor, which asks the service's override if it has one -/
def allowCall (t : Tokens) (svc : Service) (values : List Bytes) : Bool :=
  match svc with
  | .tables => authorize t.tables values
  | .maintenance => authorize t.maintenance values
  | .kv => authorize [] values
  | .cluster => authorize [] values

/-! ### TLS client-certificate policy -/

structure TlsOpts where
  trustedCA : Bool           -- TrustedCAFile set
  clientCertAuth : Bool
  allowedCN : Option String
  allowedHostname : Option String

/-- a client's certificate as crypto/x509 judges it -/
structure ClientCert where
  chainsToTrustedCA : Bool         -- verifies against ClientCAs
  cn : String                      -- leaf Subject.CommonName
  validFor : String → Bool         -- leaf.VerifyHostname

/-- `ServerConfig()` fails when both restrictions are given -/
def configOK (o : TlsOpts) : Bool := !(o.allowedCN.isSome && o.allowedHostname.isSome)

/-- is the handshake of a client presenting `cert` (or none) accepted? -/
def accepts (o : TlsOpts) (cert : Option ClientCert) : Bool :=
  if o.trustedCA || o.clientCertAuth then
    -- RequireAndVerifyClientCert, then VerifyPeerCertificate on the verified chain's leaf
    match cert with
    | none => false
    | some c =>
      c.chainsToTrustedCA &&
      (match o.allowedCN with | some cn => c.cn == cn | none => true) &&
      (match o.allowedHostname with | some h => c.validFor h | none => true)
  else true   -- NoClientCert: no certificate is requested, nothing is verified

end Regatta.Auth
