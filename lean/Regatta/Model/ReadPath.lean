import Regatta.Model.Fsm
/-
  Which read path a request takes (C10): storage/table/table.go readTable and its callers
  (ActiveTable.Range, Iterator, Txn; LocalIndex / LeaderIndex), over a replica that may lag.

  A Raft group as far as reads are concerned: the committed log and the prefix this replica has
  applied.  `SyncRead` (dragonboat ReadIndex) is answered from a state that contains every entry
  committed before the read started; `StaleRead` from whatever the local replica has applied.
-/
namespace Regatta.ReadPath
open Regatta Regatta.Fsm

inductive Kind
  | range        -- KV.Range
  | iterate      -- KV.IterateRange
  | txn          -- KV.Txn
  deriving DecidableEq, Repr

/-- `TxnRequest.IsReadonly` -/
def readonlyOps (ops : List ReqOp) : Bool := ops.all fun o => match o with | .range _ => true | _ => false

structure Request where
  kind : Kind
  linearizable : Bool := false      -- RangeRequest.linearizable
  success : List ReqOp := []
  failure : List ReqOp := []
  /-- every other field of a RangeRequest (key, range_end, limit, keys_only, count_only): carried so
  that the routing statements quantify over them - the routing must not look at them (seeded change
  C10-g sent linearizable COUNT-ONLY reads down the local path) -/
  range : Option RangeReq := none

def Request.readonlyTxn (r : Request) : Bool := r.kind == .txn && readonlyOps r.success && readonlyOps r.failure

/-- how the request reaches the state machine -/
inductive Path | consensusRead | localRead | proposal
  deriving DecidableEq, Repr

/-- `readTable(t, ctx, linearizable, …)` as called by Range / Iterator (the request's flag) and by Txn
(always `true` for a read-only transaction; anything else is proposed through the log) -/
def path (r : Request) : Path :=
  match r.kind with
  | .range => if r.linearizable then .consensusRead else .localRead
  | .iterate => if r.linearizable then .consensusRead else .localRead
  | .txn => if r.readonlyTxn then .consensusRead else .proposal

/-- a replica: the entries committed in the group and how many of them this replica has applied -/
structure Replica where
  committed : Nat
  applied : Nat
  lag : applied ≤ committed

/-- the log position whose state answers a read -/
def observedAt (rep : Replica) : Path → Nat
  | .consensusRead => rep.committed
  | .localRead => rep.applied
  | .proposal => rep.committed + 1    -- applied as the next entry

end Regatta.ReadPath
