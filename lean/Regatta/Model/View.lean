/-
  Model of storage/cluster/view.go: mergeShardInfo and shardView.update.
-/
namespace Regatta.View

/-- dragonboat.ShardView restricted to what the merge looks at; `replicas` is the sorted id list
(a nil and an empty map are not distinguished) -/
structure ShardView where
  shard : Nat
  replicas : List Nat
  cci : Nat
  leader : Nat
  term : Nat
  deriving DecidableEq, Repr

def noLeader : Nat := 0

/-- `mergeShardInfo` -/
def merge (cur upd : ShardView) : ShardView :=
  let c1 := if cur.cci < upd.cci then { cur with replicas := upd.replicas, cci := upd.cci } else cur
  if upd.leader ≠ noLeader then
    if c1.leader = noLeader ∨ upd.term > c1.term then { c1 with leader := upd.leader, term := upd.term }
    else c1
  else c1

def empty (id : Nat) : ShardView := ⟨id, [], 0, 0, 0⟩

/-- the view: association list shard id → ShardView -/
abbrev View := List (Nat × ShardView)

def View.get (v : View) (id : Nat) : Option ShardView := (v.find? (·.1 == id)).map (·.2)

def View.put (v : View) (id : Nat) (s : ShardView) : View :=
  match v with
  | [] => [(id, s)]
  | (i, t) :: rest => if i == id then (id, s) :: rest else (i, t) :: View.put rest id s

/-- one iteration of the loop in `shardView.update` -/
def View.update1 (v : View) (u : ShardView) : View :=
  let cur := (v.get u.shard).getD (empty u.shard)
  v.put u.shard (merge cur u)

def View.update (v : View) (us : List ShardView) : View := us.foldl View.update1 v

/-- `shardInfo`: the zero value for an unknown shard -/
def View.shardInfo (v : View) (id : Nat) : ShardView := (v.get id).getD ⟨0, [], 0, 0, 0⟩

/-- `shardView.copy`: the stored views (the code shuffles them; each shard occurs once, so the
order is irrelevant for a following `update` — proved in Props/C19) -/
def View.copy (v : View) : List ShardView := v.map (·.2)

/-- a node: its local Raft information (`infoF`) and its merged view -/
structure Node where
  info : List ShardView := []
  view : View := []

/-- `Cluster.Notify` / `NotifyJoin` / `NotifyLeave` / `NotifyUpdate`: merge the local information -/
def Node.notify (n : Node) : Node := { n with view := n.view.update n.info }

/-- `delegate.LocalState` on the sender (which first merges its own information) followed by
`delegate.MergeRemoteState` on the receiver -/
def gossip (src dst : Node) : Node × Node :=
  let src' := src.notify
  (src', { dst with view := dst.view.update src'.view.copy })

end Regatta.View
