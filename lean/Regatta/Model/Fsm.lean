import Regatta.Basic.SMap
import Regatta.Model.Key
/-
  Model of the table state machine, storage/table/fsm:
    command.go (updateContext, parseCommand, Commit), command_put.go, command_delete.go,
    command_sequence.go, command_dummy.go, command_txn.go, query.go (lookup, singleLookup,
    rangeLookup, readLocalIndex), iter.go (iterate and its fill/size functions), fsm.go (Update,
    Lookup, GetHash).

  Pebble appears as a strictly sorted association list from stored keys to values (`Db`).  The
  apply batch is represented by its *view* (the base store with the batch's operations applied) and
  by the flag that says whether the batch is indexed; reading a batch that is not indexed is an
  error (`Err.notIndexed`, Pebble's ErrNotIndexed), so "the code indexes the batch before every
  in-batch read" is a statement about the model (`update` never fails).  Committing the batch
  replaces the store by the view: atomicity of a Pebble batch commit is the assumption.
-/
namespace Regatta.Fsm
open Regatta Regatta.Key

abbrev Val := ByteArray
/-- the Pebble store: stored key ↦ value, strictly ascending in bytewise order -/
abbrev Db := List (Bytes × Val)

/-- bytes.Compare on values -/
def valLt (a b : Val) : Bool := bytesLt a.toList b.toList

/-- mvcc KeyValue as it appears in responses (a nil and an empty value are the same on the wire) -/
structure KV where
  key : Bytes
  value : Val

instance : BEq KV := ⟨fun a b => a.key == b.key && a.value.toList == b.value.toList⟩

/-- RequestOp_Range (the fields the state machine reads) -/
structure RangeReq where
  key : Bytes
  rangeEnd : Option Bytes := none
  limit : Int := 0
  keysOnly : Bool := false
  countOnly : Bool := false

/-- ResponseOp_Range -/
structure RangeResp where
  kvs : List KV := []
  more : Bool := false
  count : Nat := 0

inductive CmpResult | equal | greater | less | notEqual | unknown
  deriving DecidableEq, Repr

/-- Compare; `target = none` ⇔ `TargetUnion == nil` (existence test) -/
structure Compare where
  result : CmpResult
  key : Bytes
  rangeEnd : Option Bytes
  target : Option Val

/-- RequestOp; `none` = empty oneof -/
inductive ReqOp
  | range (r : RangeReq)
  | put (key : Bytes) (val : Val) (prevKv : Bool)
  | del (key : Bytes) (rangeEnd : Option Bytes) (prevKv count : Bool)
  | none

/-- ResponseOp -/
inductive RespOp
  | range (r : RangeResp)
  | put (prev : Option KV)
  | del (deleted : Nat) (prevKvs : List KV)

/-- Command (by type) -/
inductive Cmd
  | put (key : Bytes) (val : Val) (prevKv : Bool)
  | del (key : Bytes) (rangeEnd : Option Bytes) (prevKv count : Bool)
  | putBatch (kvs : List (Bytes × Val))
  | delBatch (keys : List Bytes)
  | txn (cmp : List Compare) (succ fail : List ReqOp)
  | seq (cmds : List Cmd)
  | dummy

/-- a Raft log entry carrying a command, with the optional leader index of the proposal -/
structure Entry where
  index : Nat
  leaderIndex : Option Nat
  cmd : Cmd

inductive Err | notIndexed | panicDecode | panicNil
  deriving DecidableEq, Repr

/-! ### sizes as vtproto's SizeVT computes them -/

/-- protohelpers.SizeOfVarint -/
def sov (x : Nat) : Nat :=
  if x < 128 then 1 else if x < 16384 then 2 else if x < 2097152 then 3 else if x < 268435456 then 4
  else if x < 34359738368 then 5 else if x < 4398046511104 then 6 else if x < 562949953421312 then 7
  else if x < 72057594037927936 then 8 else if x < 9223372036854775808 then 9 else 10

def lenField (l : Nat) : Nat := if l > 0 then 1 + l + sov l else 0

/-- KeyValue.SizeVT (create/mod revision are never set) -/
def KV.sizeVT (kv : KV) : Nat := lenField kv.key.length + lenField kv.value.size

/-- ResponseOp_Range.SizeVT -/
def RangeResp.sizeVT (r : RangeResp) : Nat :=
  (r.kvs.map (fun kv => 1 + kv.sizeVT + sov kv.sizeVT)).sum + (if r.more then 2 else 0) +
    (if r.count ≠ 0 then 1 + sov r.count else 0)

def maxRangeSize : Nat := Extracted.maxRangeSize

/-! ### reads (query.go, iter.go) -/

/-- `singleLookup`: exact match on the stored key (prefix seek with Split = len) -/
def singleLookup (db : Db) (r : RangeReq) : RangeResp :=
  match SMap.get? (encodeUser r.key) db with
  | none => {}
  | some v =>
    let value := if r.keysOnly || r.countOnly then ByteArray.empty else v
    { kvs := if r.countOnly then [] else [⟨r.key, value⟩], more := false, count := 1 }

inductive FillKind | full | keysOnly | countOnly
  deriving DecidableEq

/-- `iterFuncsFromReq`: keys-only wins over count-only -/
def fillKind (r : RangeReq) : FillKind :=
  if r.keysOnly then .keysOnly else if r.countOnly then .countOnly else .full

def fill (k : FillKind) (key : Bytes) (v : Val) (resp : RangeResp) : RangeResp :=
  match k with
  | .full => { resp with kvs := resp.kvs ++ [⟨key, v⟩], count := resp.kvs.length + 1 }
  | .keysOnly => { resp with kvs := resp.kvs ++ [⟨key, ByteArray.empty⟩], count := resp.count + 1 }
  | .countOnly => { resp with count := resp.count + 1 }

def sizeOf (k : FillKind) (key : Bytes) (v : Val) : Nat :=
  match k with
  | .full => key.length + v.size
  | .keysOnly => key.length
  | .countOnly => 0

/-- the loop of `iterate` over the pairs of the bounded Pebble iterator; `i` pairs were emitted
so far, `resp` is the response under construction; returns the remaining chunks -/
def iterLoop (k : FillKind) (limit : Int) : List (Bytes × Val) → Nat → RangeResp → List RangeResp
  | [], _, resp => [resp]   -- not reached: the loop is entered with a pair and leaves when `Next` fails
  | (key, v) :: rest, i, resp =>
    if (i : Int) = limit ∧ limit ≠ 0 then [{ resp with more := true }]
    else
      let cut := resp.sizeVT + sizeOf k key v ≥ maxRangeSize
      let resp' := fill k key v (if cut then {} else resp)
      let tail := if rest.isEmpty then [resp'] else iterLoop k limit rest (i + 1) resp'
      if cut then { resp with more := true } :: tail else tail

/-- the key part `DecodeBytes` returns for a stored key (`iterate` panics on a decode error) -/
def decodeKeyPart (raw : Bytes) : Except Err Bytes :=
  match decodeBytes raw with
  | .ok (_, k) => .ok k
  | .error _ => .error .panicDecode

/-- `iterate`: the list of chunks the sequence yields when fully consumed -/
def iterate (db : Db) (r : RangeReq) : Except Err (List RangeResp) := do
  let (lo, hi) := bounds r.key (r.rangeEnd.getD [])
  let raw := SMap.range lo hi db
  let pairs ← raw.mapM (fun p => do let k ← decodeKeyPart p.1; pure (k, p.2))
  if pairs.isEmpty then pure [{}]
  else pure (iterLoop (fillKind r) r.limit pairs 0 {})

/-- `rangeLookup`: the first chunk -/
def rangeLookup (db : Db) (r : RangeReq) : Except Err RangeResp := do
  let chunks ← iterate db r
  pure (chunks.headD {})

/-- `lookup`: a range read iff `RangeEnd != nil` -/
def lookup (db : Db) (r : RangeReq) : Except Err RangeResp :=
  if r.rangeEnd.isSome then rangeLookup db r else pure (singleLookup db r)

/-- `iteratorLookup` fully consumed -/
def iteratorLookup (db : Db) (r : RangeReq) : Except Err (List RangeResp) :=
  if r.rangeEnd.isSome then iterate db r else pure [singleLookup db r]

/-- `binary.LittleEndian.PutUint64` -/
def le64 (n : Nat) : Val :=
  ⟨#[UInt8.ofNat (n % 256), UInt8.ofNat (n / 256 % 256), UInt8.ofNat (n / 65536 % 256),
     UInt8.ofNat (n / 16777216 % 256), UInt8.ofNat (n / 4294967296 % 256),
     UInt8.ofNat (n / 1099511627776 % 256), UInt8.ofNat (n / 281474976710656 % 256),
     UInt8.ofNat (n / 72057594037927936 % 256)]⟩

/-- `binary.LittleEndian.Uint64` (of the first 8 bytes) -/
def unLe64 (v : Val) : Nat :=
  (v.get! 0).toNat + (v.get! 1).toNat * 256 + (v.get! 2).toNat * 65536 + (v.get! 3).toNat * 16777216 +
  (v.get! 4).toNat * 4294967296 + (v.get! 5).toNat * 1099511627776 +
  (v.get! 6).toNat * 281474976710656 + (v.get! 7).toNat * 72057594037927936

/-- `readLocalIndex`: 0 when the key is absent -/
def readIndex (db : Db) (sysKey : Bytes) : Nat :=
  match SMap.get? sysKey db with
  | none => 0
  | some v => unLe64 v

/-! ### transactions (command_txn.go) -/

/-- `txnCompareSingle`: stored value on the left; no target ⇒ true; unknown operator ⇒ true -/
def txnCompareSingle (c : Compare) (value : Val) : Bool :=
  match c.target with
  | none => true
  | some t =>
    match c.result with
    | .equal => value.toList == t.toList
    | .notEqual => !(value.toList == t.toList)
    | .greater => valLt t value
    | .less => valLt value t
    | .unknown => true

/-- one predicate: missing key ⇒ false; empty range ⇒ false; a range holds iff every value does -/
def txnCompare1 (db : Db) (c : Compare) : Bool :=
  match c.rangeEnd with
  | some hi =>
    let (lo, up) := bounds c.key hi
    let r := SMap.range lo up db
    !r.isEmpty && r.all (fun p => txnCompareSingle c p.2)
  | none =>
    match SMap.get? (encodeUser c.key) db with
    | none => false
    | some v => txnCompareSingle c v

/-- `txnCompare`: conjunction, left to right -/
def txnCompare (db : Db) (cs : List Compare) : Bool := cs.all (txnCompare1 db)

/-! ### the apply batch and context (command.go) -/

/-- the Pebble batch of an apply call: its view (base store with the batch's operations applied) and
whether it is an indexed batch -/
structure Batch where
  view : Db
  indexed : Bool := false

/-- `EnsureIndexed`: flavour changes, content does not -/
def Batch.ensureIndexed (c : Batch) : Batch := { c with indexed := true }

/-- a read through `ctx.batch` -/
def Batch.reader (c : Batch) : Except Err Db := if c.indexed then .ok c.view else .error .notIndexed

/-- `updateContext`: the batch plus the index and leader index taken from the parsed entries.  The
command handlers read `index` (it becomes the revision) and never write either field, so they are
modelled as functions of the batch alone. -/
structure Ctx where
  batch : Batch
  index : Nat := 0
  leaderIndex : Option Nat := none

/-- upper bound of a range delete -/
def deleteEnd (rangeEnd : Bytes) : Bytes := upperBound rangeEnd

/-- `handlePut` -/
def handlePut (c : Batch) (key : Bytes) (val : Val) (prevKv : Bool) : Except Err (Batch × Option KV) := do
  if prevKv then
    let c := c.ensureIndexed
    let db ← c.reader
    let rng := singleLookup db { key := key }
    let prev := match rng.kvs with
      | [kv] => some kv
      | _ => none
    pure ({ c with view := SMap.set (encodeUser key) val c.view }, prev)
  else
    pure ({ c with view := SMap.set (encodeUser key) val c.view }, none)

/-- `handleDelete` -/
def handleDelete (c : Batch) (key : Bytes) (rangeEnd : Option Bytes) (prevKv count : Bool) :
    Except Err (Batch × Nat × List KV) := do
  match rangeEnd with
  | some hi =>
    let (c, deleted, prevs) ← (if prevKv || count then do
        let c := c.ensureIndexed
        let db ← c.reader
        let rng ← rangeLookup db { key := key, rangeEnd := some hi, countOnly := count && !prevKv }
        pure (c, rng.count, rng.kvs)
      else pure (c, 0, []) : Except Err (Batch × Nat × List KV))
    pure ({ c with view := SMap.eraseRange (encodeUser key) (deleteEnd hi) c.view }, deleted, prevs)
  | none =>
    let (c, deleted, prevs) ← (if prevKv || count then do
        let c := c.ensureIndexed
        let db ← c.reader
        let rng := singleLookup db { key := key, countOnly := count && !prevKv }
        pure (c, rng.count, rng.kvs)
      else pure (c, 0, []) : Except Err (Batch × Nat × List KV))
    pure ({ c with view := SMap.erase (encodeUser key) c.view }, deleted, prevs)

/-- `handleTxnOps`: in order, each on the same (indexed) batch; an empty oneof is skipped -/
def handleTxnOps (c : Batch) : List ReqOp → Except Err (Batch × List RespOp)
  | [] => pure (c, [])
  | op :: rest => do
    match op with
    | .range r =>
      let db ← c.reader
      let resp ← lookup db r
      let (c', rs) ← handleTxnOps c rest
      pure (c', .range resp :: rs)
    | .put k v pk =>
      let (c1, prev) ← handlePut c k v pk
      let (c', rs) ← handleTxnOps c1 rest
      pure (c', .put prev :: rs)
    | .del k e pk cnt =>
      let (c1, d, prevs) ← handleDelete c k e pk cnt
      let (c', rs) ← handleTxnOps c1 rest
      pure (c', .del d prevs :: rs)
    | .none => handleTxnOps c rest

/-- `handleTxn` -/
def handleTxn (c : Batch) (cmp : List Compare) (succ fail : List ReqOp) :
    Except Err (Batch × Bool × List RespOp) := do
  let c := c.ensureIndexed
  let db ← c.reader
  let ok := txnCompare db cmp
  let (c', rs) ← handleTxnOps c (if ok then succ else fail)
  pure (c', ok, rs)

def resultSuccess : Nat := Extracted.resultSuccess
def resultFailure : Nat := Extracted.resultFailure

def foldPuts (c : Batch) : List (Bytes × Val) → Except Err (Batch × List RespOp)
  | [] => pure (c, [])
  | (k, v) :: rest => do
    let (c1, prev) ← handlePut c k v false
    let (c', rs) ← foldPuts c1 rest
    pure (c', .put prev :: rs)

def foldDels (c : Batch) : List Bytes → Except Err (Batch × List RespOp)
  | [] => pure (c, [])
  | k :: rest => do
    let (c1, d, prevs) ← handleDelete c k none false false
    let (c', rs) ← foldDels c1 rest
    pure (c', .del d prevs :: rs)

mutual
/-- `command.handle`: result value and responses (the revision is always the entry's index) -/
def handle (c : Batch) : Cmd → Except Err (Batch × Nat × List RespOp)
  | .put k v pk => do
    let (c', prev) ← handlePut c k v pk
    pure (c', resultSuccess, [.put prev])
  | .del k e pk cnt => do
    let (c', d, prevs) ← handleDelete c k e pk cnt
    pure (c', resultSuccess, [.del d prevs])
  | .putBatch kvs => do
    let (c', rs) ← foldPuts c kvs
    pure (c', resultSuccess, rs)
  | .delBatch ks => do
    let (c', rs) ← foldDels c ks
    pure (c', resultSuccess, rs)
  | .txn cmp s f => do
    let (c', ok, rs) ← handleTxn c cmp s f
    pure (c', if ok then resultSuccess else resultFailure, rs)
  | .seq cmds => do
    let (c', rs) ← handleSeq c cmds
    pure (c', resultSuccess, rs)
  | .dummy => pure (c, resultSuccess, [])
/-- `commandSequence.handle`: inner commands in order, responses concatenated, inner result values
and inner leader indices ignored -/
def handleSeq (c : Batch) : List Cmd → Except Err (Batch × List RespOp)
  | [] => pure (c, [])
  | cmd :: rest => do
    let (c1, _, rs1) ← handle c cmd
    let (c', rs) ← handleSeq c1 rest
    pure (c', rs1 ++ rs)
end

def Cmd.isTxn : Cmd → Bool
  | .txn .. => true
  | _ => false

/-- what `FSM.Update` writes into an entry's `Result` -/
structure Result where
  value : Nat
  /-- `Result.Data`: present iff the command is a TXN or produced responses -/
  data : Option (Nat × List RespOp)

/-- `parseCommand`: the entry's index, and its leader index if it carries one -/
def Ctx.parse (c : Ctx) (e : Entry) : Ctx :=
  { c with index := e.index, leaderIndex := if e.leaderIndex.isSome then e.leaderIndex else c.leaderIndex }

/-- one iteration of the loop in `FSM.Update`: `parseCommand`, `handle`, fill the result -/
def applyEntry (c : Ctx) (e : Entry) : Except Err (Ctx × Result) := do
  let c := c.parse e
  let (b', value, rs) ← handle c.batch e.cmd
  let data := if e.cmd.isTxn || !rs.isEmpty then some (c.index, rs) else none
  pure ({ c with batch := b' }, ⟨value, data⟩)

def applyEntries (c : Ctx) : List Entry → Except Err (Ctx × List Result)
  | [] => pure (c, [])
  | e :: rest => do
    let (c1, r) ← applyEntry c e
    let (c', rs) ← applyEntries c1 rest
    pure (c', r :: rs)

/-- `updateContext.Commit`: leader index (if any entry carried one), then the local index, then
the batch commit — the store becomes the view -/
def commit (c : Ctx) : Db :=
  SMap.set sysLocalIndex (le64 c.index) (match c.leaderIndex with
    | some li => SMap.set sysLeaderIndex (le64 li) c.batch.view
    | none => c.batch.view)

/-- what `FSM.Update` tells the applied-index listener after the commit -/
def Ctx.notified (c : Ctx) : Nat :=
  match c.leaderIndex with
  | some li => li
  | none => c.index

/-- `FSM.Update` on one apply batch -/
def update (db : Db) (entries : List Entry) : Except Err (Db × List Result × Nat) := do
  let (c, rs) ← applyEntries { batch := { view := db } } entries
  pure (commit c, rs, c.notified)

/-! ### lookups through FSM.Lookup -/

/-- `Lookup(*TxnRequest)`: the read-only path on a snapshot; a non-range operation makes the real
code dereference a nil request (it is only called for read-only transactions) -/
def lookupTxnOp (db : Db) : ReqOp → Except Err RespOp
  | .range r => do let resp ← lookup db r; pure (RespOp.range resp)
  | _ => .error .panicNil

def lookupTxn (db : Db) (cmp : List Compare) (succ fail : List ReqOp) : Except Err (Bool × List RespOp) := do
  let ok := txnCompare db cmp
  let rs ← (if ok then succ else fail).mapM (lookupTxnOp db)
  pure (ok, rs)

/-- `ReqOp` list is read-only (`TxnRequest.IsReadonly`) -/
def ReqOp.isRange : ReqOp → Bool
  | .range _ => true
  | _ => false

def isReadonly (succ fail : List ReqOp) : Bool := succ.all ReqOp.isRange && fail.all ReqOp.isRange

end Regatta.Fsm
