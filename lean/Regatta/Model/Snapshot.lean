import Regatta.Model.Fsm
/-
  In-cluster snapshots (C08): storage/table/fsm/fsm.go PrepareSnapshot / SaveSnapshot /
  RecoverFromSnapshot with the 8-byte header that names the format, and the two recoverers
  (snapshot_snapshot.go: SSTs of a pinned Pebble snapshot, ingested into a new store;
  snapshot_checkpoint.go: tar of a flushed checkpoint directory, unpacked into a new store) at the
  level of store values and store handles: what is pinned, what the receiver ends up with, which
  handle a read uses.  The file-system side of an install (new directory, `current` switch, cleanup,
  crashes) is Model/Crash.lean; the byte formats of SSTs and tar archives are outside the model.
-/
namespace Regatta.Snap
open Regatta Regatta.Fsm

inductive Fmt | snapshot | checkpoint
  deriving DecidableEq, Repr

/-- `RecoveryTypeSnapshot = iota`, `RecoveryTypeCheckpoint` -/
def Fmt.code : Fmt → UInt8
  | .snapshot => 0
  | .checkpoint => 1

/-- `getHeader()`: byte 6 names the format, nothing else is set -/
def header (f : Fmt) : Bytes := [0, 0, 0, 0, 0, 0, f.code, 0]

/-- `getRecoverer(header.snapshotType())`; `none`: unknown type, the process panics -/
def recovererOf (h : Bytes) : Option Fmt :=
  if h.getD 6 0 = 0 then some .snapshot else if h.getD 6 0 = 1 then some .checkpoint else none

/-- a saved snapshot: the header and every key of the store (system keys included) as of the prepare -/
structure Stream where
  hdr : Bytes
  body : Db

/-- a replica's state machine: configured format, live store handle, the stores behind the handles -/
structure Rep where
  fmt : Fmt := .snapshot
  cur : Nat := 0
  store : Nat → Db := fun _ => []
  closed : Nat → Bool := fun _ => false

def Rep.db (r : Rep) : Db := r.store r.cur
def Rep.setDb (r : Rep) (db : Db) : Rep := { r with store := fun h => if h = r.cur then db else r.store h }

/-- PrepareSnapshot pins the store's value (a Pebble snapshot; or a checkpoint taken after a flush) -/
def prepare (r : Rep) : Db := r.db

/-- SaveSnapshot: the saver's configured format names the header; streams the pinned value; a stop
signal ends it with nothing usable -/
def save (r : Rep) (pinned : Db) (stopped : Bool) : Option Stream :=
  if stopped then none else some ⟨header r.fmt, pinned⟩

inductive Outcome | done | stopped | panic
  deriving DecidableEq, Repr

/-- RecoverFromSnapshot: the recoverer is chosen by the stream's header, not by the receiver's
configuration; either one builds a new store from the stream, swaps the live handle to it and closes
the old one; a stop signal seen at a check point leaves everything as it was -/
def recover (r : Rep) (s : Stream) (stopped : Bool) : Rep × Outcome :=
  match recovererOf s.hdr with
  | none => (r, .panic)
  | some _ =>
    if stopped then (r, .stopped) else
    ({ r with cur := r.cur + 1,
              store := fun h => if h = r.cur + 1 then s.body else r.store h,
              closed := fun h => if h = r.cur then true else r.closed h }, .done)

/-- a lazy range read captures the handle at lookup time and opens its iterator when consumed -/
structure LazyRead where
  handle : Nat
  req : RangeReq

def lookupIter (r : Rep) (q : RangeReq) : LazyRead := ⟨r.cur, q⟩

/-- consuming a lazy read; on a closed handle Pebble panics ("pebble: closed"): `none` -/
def consume (r : Rep) (l : LazyRead) : Option (Except Err (List RangeResp)) :=
  if r.closed l.handle then none else some (iteratorLookup (r.store l.handle) l.req)

end Regatta.Snap
