/-
  Concurrent client histories on one table (C10) against a sequential specification.

  A history is the committed log - every entry with the timing of the client call that proposed it
  and the state machine's answer - together with the completed reads, each with the number of log
  entries the state that answered it reflects.  Times are points of one global clock; a call `x`
  precedes a call `y` in real time when `x` returned before `y` was invoked.

  Everything here is executable: the driver runs `checkHistory` on the histories recorded from the
  real cluster (mode `conc`); `Regatta/Proofs/Linearizable.lean` proves that a history which passes
  the check is linearizable.
-/
namespace Regatta.History

/-- the sequential specification: a state machine with writes and reads -/
structure Seq (S W Q A B : Type) where
  write : S → W → S × A
  read : S → Q → B

/-- a committed log entry: its position (1-based), the call that proposed it, the answer of the
state machine (delivered to the client iff the call returned) -/
structure WEntry (W A : Type) where
  pos : Nat
  cmd : W
  inv : Nat
  resp : Option Nat     -- `none`: the call never returned (timed out); the entry is in the log all the same
  out : A

/-- a completed read -/
structure ROp (Q B : Type) where
  req : Q
  inv : Nat
  resp : Nat
  seen : Nat             -- number of log entries the answering state reflects
  out : B

inductive Op (W Q A B : Type)
  | w (e : WEntry W A)
  | r (o : ROp Q B)

variable {S W Q A B : Type}

def Op.inv : Op W Q A B → Nat
  | .w e => e.inv
  | .r o => o.inv

def Op.resp? : Op W Q A B → Option Nat
  | .w e => e.resp
  | .r o => some o.resp

def Op.out : Op W Q A B → Sum A B
  | .w e => .inl e.out
  | .r o => .inr o.out

/-- `x` returned before `y` was invoked -/
def before (resp? : Option Nat) (inv : Nat) : Bool :=
  match resp? with
  | some t => decide (t < inv)
  | none => false

def Op.prec (x y : Op W Q A B) : Bool := before x.resp? y.inv

/-- sequential execution: final state and the answers in order -/
def exec (sp : Seq S W Q A B) : S → List (Op W Q A B) → S × List (Sum A B)
  | s, [] => (s, [])
  | s, .w e :: l =>
    let (s', a) := sp.write s e.cmd
    let (s'', outs) := exec sp s' l
    (s'', .inl a :: outs)
  | s, .r o :: l =>
    let (s'', outs) := exec sp s l
    (s'', .inr (sp.read s o.req) :: outs)

/-- the state after the first `n` commands -/
def advance (sp : Seq S W Q A B) (s : S) : List (WEntry W A) → Nat → S
  | [], _ => s
  | _, 0 => s
  | e :: l, n + 1 => advance sp (sp.write s e.cmd).1 l n

/-! ### the real-time conditions, as decidable checks -/

/-- H1: a later log entry never precedes an earlier one in real time -/
def wwOK (log : List (WEntry W A)) : Bool :=
  match log with
  | [] => true
  | e :: l => l.all (fun e2 => !before e2.resp e.inv) && wwOK l

/-- H2: a write that returned before the read started is reflected -/
def wrOK (log : List (WEntry W A)) (rs : List (ROp Q B)) : Bool :=
  log.all fun e => rs.all fun r => !before e.resp r.inv || decide (e.pos ≤ r.seen)

/-- H3: a write invoked after the read returned is not reflected -/
def rwOK (log : List (WEntry W A)) (rs : List (ROp Q B)) : Bool :=
  log.all fun e => rs.all fun r => !before (some r.resp) e.inv || decide (r.seen < e.pos)

/-- H4: reads do not go back -/
def rrOK (rs : List (ROp Q B)) : Bool :=
  rs.all fun r1 => rs.all fun r2 => !before (some r1.resp) r2.inv || decide (r1.seen ≤ r2.seen)

def readsWF (n : Nat) (rs : List (ROp Q B)) : Bool := rs.all fun r => decide (r.inv ≤ r.resp) && decide (r.seen ≤ n)

/-- positions are 1, 2, 3, … -/
def positionsFrom (k : Nat) : List (WEntry W A) → Bool
  | [] => true
  | e :: l => decide (e.pos = k + 1) && positionsFrom (k + 1) l

/-- the whole real-time check -/
def checkHistory (log : List (WEntry W A)) (rs : List (ROp Q B)) : Bool :=
  positionsFrom 0 log && readsWF log.length rs && wwOK log && wrOK log rs && rwOK log rs && rrOK rs

/-! ### the linearization -/

def sortInv (rs : List (ROp Q B)) : List (ROp Q B) := rs.mergeSort (fun a b => decide (a.inv ≤ b.inv))

/-- the reads that reflect exactly the entries before `e` go before `e`, in invocation order -/
def build : List (WEntry W A) → List (ROp Q B) → List (Op W Q A B)
  | [], rs => (sortInv rs).map .r
  | e :: l, rs =>
    (sortInv (rs.filter (fun r => decide (r.seen < e.pos)))).map .r ++
      .w e :: build l (rs.filter (fun r => !decide (r.seen < e.pos)))

end Regatta.History
