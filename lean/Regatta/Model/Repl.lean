import Regatta.Spec.Kv
/-
  Cross-cluster replication of one table (C05) at the level of the table specification:
  replication/worker.go (`do`: ask for leader_index+1, `proposeBatch`: wrap the received commands
  into SEQUENCE proposals tagged with the last command's leader index, `recover`: load a leader
  snapshot into a fresh shard and switch to it), regattaserver/replication.go (what the leader
  streams: C06) and storage/table/fsm/command_sequence.go (a SEQUENCE applies its commands in order,
  atomically, and records the leader index in the same batch).

  The leader table is its log: the command of every leader index 1..n (DUMMY for entries that are
  not application commands — they are replicated as such).  That the real state machines refine
  `Spec.step` / `Spec.applyEntry` is C01-C03; that a restart leaves the follower's state machine at a
  prefix of its own log is C04; that the stream is the requested range is C06; that a restored
  snapshot is the leader's content is C07.
-/
namespace Regatta.Repl
open Regatta Regatta.Fsm Regatta.Spec

abbrev LLog := List Cmd

/-- the leader's content after its first `i` log entries -/
def leaderAt (L : LLog) (i : Nat) : UMap := (L.take i).foldl (fun m c => (Spec.step m c).1) []

/-- the follower's table: content and the leader index recorded with it (one batch) -/
structure Follower where
  kv : UMap := []
  li : Nat := 0

/-- one proposal: the commands of the next `chunk.length` leader indices as one SEQUENCE entry,
tagged with the leader index of the last one -/
def applySeq (f : Follower) (chunk : List Cmd) : Follower :=
  ⟨(Spec.step f.kv (.seq chunk)).1, f.li + chunk.length⟩

/-- the proposals of a round, in order; the round may end after any of them (time-out, error,
restart): every prefix is a possible outcome -/
def proposeAll (f : Follower) : List (List Cmd) → Follower
  | [] => f
  | chunk :: rest => proposeAll (applySeq f chunk) rest

/-- a round of the worker that read leader index `readLi` (with a fresh read, `readLi = f.li`): the
leader streams the commands after `readLi`, cut into proposals by `cuts` -/
def roundFrom (f : Follower) (readLi : Nat) (chunks : List (List Cmd)) : Follower :=
  -- the proposals are tagged relative to the index that was read
  (proposeAll ⟨f.kv, readLi⟩ chunks)

/-- snapshot recovery: the content of the leader at the snapshot index, recorded with that index -/
def recoverTo (L : LLog) (s : Nat) : Follower := ⟨leaderAt L s, s⟩

/-- `Manager.reconcileTables` (replication/replication.go): follower tables the leader does not
list are deleted, leader tables the follower does not have are created — matched by NAME -/
def reconcileTables (leader follower : List String) : List String :=
  let toDelete := follower.filter (fun f => !leader.contains f)
  let toCreate := leader.filter (fun l => !follower.contains l)
  follower.filter (fun f => !toDelete.contains f) ++ toCreate

/-- `Manager.reconcileWorkers`: a worker for every table without one, none for tables that are gone -/
def reconcileWorkers (tables workers : List String) : List String :=
  workers.filter (fun w => tables.contains w) ++ tables.filter (fun t => !workers.contains t)

/-- the invariant of C05 -/
def Inv (L : LLog) (f : Follower) : Prop := f.kv = leaderAt L f.li ∧ f.li ≤ L.length

end Regatta.Repl
