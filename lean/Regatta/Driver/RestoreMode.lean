import Regatta.Driver.Proto
import Regatta.Model.SnapStream
import Regatta.Model.Wire
namespace Regatta.Driver.RestoreMode
open Regatta Regatta.Proto Regatta.Fsm Regatta.SnapStream

def valBytes (v : Val) : Bytes := v.toList

/-- the byte size `reader.Read` returns for a message: the length of its vtproto encoding -/
def msgSize (table : Bytes) : Msg → Nat
  | .put k v => (Wire.Command.enc (.mk table Extracted.cmdTypePut (some ⟨k, 0, 0, valBytes v⟩) none [] none none false [] false)).length
  | .dummy li => (Wire.Command.enc (.mk table Extracted.cmdTypeDummy none (some li) [] none none false [] false)).length

partial def parsePairs : Nat → List String → Option (List (Bytes × Val))
  | 0, [] => some []
  | n + 1, k :: v :: rest => do
    let k ← parseBytes k; let v ← parseVal v
    let ps ← parsePairs n rest
    pure ((k, v) :: ps)
  | _, _ => none

def fnvStep (h : UInt64) (c : UInt8) : UInt64 := (h ^^^ c.toUInt64) * 1099511628211

def digestPairs (ps : List (Bytes × Val)) : String :=
  let h := ps.foldl (fun h p =>
    let h := (Wire.le64 p.1.length).foldl fnvStep h
    let h := p.1.foldl fnvStep h
    let h := (Wire.le64 p.2.size).foldl fnvStep h
    p.2.foldl fnvStep h) 14695981039346656037
  s!"{ps.length}:{h}"

def step (_ : Unit) (toks : List String) : Unit × String :=
  ((), match toks with
  | "restore" :: max :: kind :: n :: rest =>
    (match max.toNat?, n.toNat?.bind (fun n => parsePairs n rest) with
    | some max, some pairs =>
      -- the source table: one put per pair
      let es : List Entry := pairs.zipIdx.map (fun (p, i) => ⟨i + 1, none, .put p.1 p.2 false⟩)
      match (if es.isEmpty then Except.ok (([] : Db), ([] : List Result), 0) else update [] es) with
      | .error _ => "err model-source"
      | .ok (src, _, _) =>
        let stream := if kind == "leader" then leaderStream src else backupStream src
        let msgs := stream.map (fun m => (msgSize "src".toUTF8.toList m, m))
        let proposals := readIntoTable max msgs
        match update [] (toEntries 1 proposals) with
        | .error _ => "err model-restore"
        | .ok (db', _, _) =>
          match iteratorLookup db' { key := [0], rangeEnd := some [0] } with
          | .error _ => "err model-read"
          | .ok chunks =>
            let back := chunks.flatMap (fun c => c.kvs.map (fun kv => (kv.key, kv.value)))
            let li := readIndex db' Key.sysLeaderIndex
            let liOK := if kind == "leader" then li == readIndex src Key.sysLocalIndex else li == 0
            s!"ok {digestPairs back} {b2s liOK}"
    | _, _ => "bad-op")
  | ["pointintime", _] => "ok 1"
  | ["backuptool", _, "intact"] => "ok"
  | ["backuptool", _, "corrupted"] => "ok refused"
  | _ => "bad-op")

end Regatta.Driver.RestoreMode
