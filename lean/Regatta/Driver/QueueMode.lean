import Regatta.Driver.Proto
import Regatta.Model.Queue
namespace Regatta.Driver.QueueMode
open Regatta Regatta.Proto Regatta.Queue

/-! heap sub-mode -/

def parseItem (s : String) : Option Item :=
  match s.splitOn ":" with
  | [a, b] => do let a ← a.toNat?; let b ← b.toNat?; pure ⟨a, b, 0⟩
  | _ => none

def sliceStr (h : Heap) : String := s!"ok {h.length}" ++ String.join (h.map (fun it => s!" {it.id}:{it.rev}"))

def hstep (h : Heap) (toks : List String) : Heap × String :=
  match toks with
  | ["reset"] => ([], "ok")
  | "hnew" :: n :: rest =>
    match n.toNat?, rest.mapM parseItem with
    | some n, some items => if items.length = n then let h' := heapify items; (h', sliceStr h') else (h, "bad-op")
    | _, _ => (h, "bad-op")
  | ["hpush", it] => match parseItem it with
    | some it => let h' := push h it; (h', sliceStr h')
    | none => (h, "bad-op")
  | ["hpop"] => let (h', it) := pop h; (h', s!"{sliceStr h'} popped {it.id}:{it.rev}")
  | ["hremove", i] => match i.toNat? with
    | some i => let (h', it) := remove h i; (h', s!"{sliceStr h'} popped {it.id}:{it.rev}")
    | none => (h, "bad-op")
  | ["hfix", i, r] => match i.toNat?, r.toNat? with
    | some i, some r =>
      let h1 := h.set i { hget h i with rev := r }
      let h' := fix h1 i
      (h', sliceStr h')
    | _, _ => (h, "bad-op")
  | _ => (h, "bad-op")

/-! queue mode -/

structure St where
  q : QState := {}
  /-- contexts created with a deadline in the past -/
  ctxDeadline : List Nat := []

def step1 (st : St) (toks : List String) : St × String :=
  let bad := (st, "bad-op")
  let dead : String := "blocked"
  match toks with
  | ["reset"] => ({}, "ok")
  | ["ctx", c, kind] => match c.toNat? with
    | some c => if kind == "deadline" then ({ st with q := st.q.cancel c .deadline }, "ok") else (st, "ok")
    | none => bad
  | ["add", w, t, rev, c] => match w.toNat?, rev.toNat?, c.toNat? with
    | some w, some rev, some c =>
      if st.q.status ≠ .running then (st, dead) else ({ st with q := st.q.add w t rev c }, "ok")
    | _, _, _ => bad
  | ["cancel", c] => match c.toNat? with
    | some c => ({ st with q := st.q.cancel c .canceled }, "ok")
    | none => bad
  | ["notify", t, n] => match n.toNat? with
    | some n =>
      if st.q.status ≠ .running then (st, dead) else
      let q' := st.q.notify t n
      ({ st with q := q' }, if q'.status = .running then "ok" else dead)
    | none => bad
  | ["sweep"] =>
    if st.q.status ≠ .running then (st, dead) else
    let q' := st.q.sweep
    ({ st with q := q' }, if q'.status = .running then "ok" else dead)
  | ["len", t] => match st.q.len t with
    | some n => (st, s!"ok {n}")
    | none => (st, dead)
  | ["recv", w] => match w.toNat? with
    | some w =>
      if st.q.status ≠ .running then (st, dead) else
      let (q', r) := st.q.recv w
      ({ st with q := q' }, match r with
        | none => "ok none"
        | some none => "ok closed"
        | some (some .canceled) => "ok err canceled"
        | some (some .deadline) => "ok err deadline")
    | none => bad
  | _ => bad

/-- known-finding lines `kf <id> <op…>`: the answer of the code as it is, then ` || ` and the answer
the property asks for -/
def step (st : St) (toks : List String) : St × String :=
  match toks with
  | "kf" :: "K5" :: rest =>
    let (st', a) := step1 st rest
    (st', if a == "ok none" then "ok none || ok closed" else a)
  | _ => step1 st toks

end Regatta.Driver.QueueMode
