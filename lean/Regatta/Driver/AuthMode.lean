import Regatta.Driver.Proto
import Regatta.Model.Auth
namespace Regatta.Driver.AuthMode
open Regatta Regatta.Proto Regatta.Auth

structure St where
  tokens : Tokens := ⟨[], []⟩

def svcOf : String → Option Service
  | "kv" => some .kv | "cluster" => some .cluster | "tables" => some .tables | "maintenance" => some .maintenance
  | _ => none

def optStr (s : String) : Option String := if s == "-" then none else some s

def step (st : St) (toks : List String) : St × String :=
  let bad := (st, "bad-op")
  match toks with
  | ["cfg", a, b] => match parseBytes a, parseBytes b with
    | some a, some b => ({ tokens := ⟨a, b⟩ }, "ok")
    | _, _ => bad
  | ["alive"] => (st, "ok")
  | "call" :: _ :: svc :: method :: _ :: vals =>
    match svcOf svc, vals.mapM parseBytes with
    | some svc, some vs =>
      if allowCall st.tokens svc vs then (st, "pass")
      else
        -- an unauthenticated call has no effect; the harness observes one for these methods
        let observed := (svc == .tables && (method == "create" || method == "delete")) ||
                        (svc == .maintenance && method == "restore")
        (st, if observed then "16 noeffect" else "16")
    | _, _ => bad
  | ["tlscfg", _, _, cn, host] =>
    (st, if configOK ⟨false, false, optStr cn, optStr host⟩ then "ok" else "config-error")
  | "tls" :: ca :: cca :: cn :: host :: client =>
    let o : TlsOpts := ⟨ca == "1", cca == "1", optStr cn, optStr host⟩
    match client with
    | ["none"] => (st, if accepts o none then "accept" else "reject")
    | ["cert", chains, ccn, valid] =>
      match parseBytes ccn with
      | some ccn =>
        let c : ClientCert := ⟨chains == "1", String.fromUTF8! ⟨ccn.toArray⟩, fun _ => valid == "1"⟩
        (st, if accepts o (some c) then "accept" else "reject")
      | none => bad
    | _ => bad
  | _ => bad

end Regatta.Driver.AuthMode
