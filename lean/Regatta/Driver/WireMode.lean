import Regatta.Driver.Proto
import Regatta.Model.Wire
import Regatta.Model.WireDec
namespace Regatta.Driver.WireMode
open Regatta Regatta.Proto Regatta.Wire

abbrev P (α : Type) := List String → Option (α × List String)

def pNat : P Nat
  | t :: r => t.toNat?.map (·, r)
  | [] => none
def pBool : P Bool
  | "1" :: r => some (true, r)
  | "0" :: r => some (false, r)
  | _ => none
def pBytes : P Bytes
  | t :: r => (parseBytes t).map (·, r)
  | [] => none
def pOptBytes : P (Option Bytes)
  | t :: r => (parseOptBytes t).map (·, r)
  | [] => none

def pMany {α : Type} (p : P α) : Nat → P (List α)
  | 0, ts => some ([], ts)
  | n + 1, ts => do
    let (x, ts) ← p ts
    let (xs, ts) ← pMany p n ts
    pure (x :: xs, ts)
def pList {α : Type} (p : P α) : P (List α) := fun ts => do let (n, ts) ← pNat ts; pMany p n ts

def pKV : P KeyValue
  | "K" :: ts => do
    let (k, ts) ← pBytes ts; let (c, ts) ← pNat ts; let (m, ts) ← pNat ts; let (v, ts) ← pBytes ts
    pure (⟨k, c, m, v⟩, ts)
  | _ => none

def pReqOp : P RequestOp
  | "r" :: ts => do
    let (k, ts) ← pBytes ts; let (e, ts) ← pBytes ts; let (l, ts) ← pNat ts; let (ko, ts) ← pBool ts; let (co, ts) ← pBool ts
    pure (.range k e l ko co, ts)
  | "p" :: ts => do
    let (k, ts) ← pBytes ts; let (v, ts) ← pBytes ts; let (pk, ts) ← pBool ts
    pure (.put k v pk, ts)
  | "d" :: ts => do
    let (k, ts) ← pBytes ts; let (e, ts) ← pBytes ts; let (pk, ts) ← pBool ts; let (c, ts) ← pBool ts
    pure (.del k e pk c, ts)
  | "none" :: ts => some (.none, ts)
  | _ => none

def pCompare : P Compare := fun ts => do
  let (res, ts) ← pNat ts; let (tg, ts) ← pNat ts; let (k, ts) ← pBytes ts
  match ts with
  | v :: ts =>
    let val : Option (Option Bytes) := if v == "-" then some none else
      if v.startsWith "v" then (parseBytes (v.drop 1).toString).map some else none
    let val ← val
    let (re, ts) ← pBytes ts
    pure (⟨res, tg, k, val, re⟩, ts)
  | [] => none

partial def pCommand : P Command
  | "C" :: ts => do
    let (table, ts) ← pBytes ts
    let (type, ts) ← pNat ts
    let (kv, ts) ← (match ts with
      | "-" :: ts => some (none, ts)
      | _ => (pKV ts).map (fun (kv, ts) => (some kv, ts)) : Option (Option KeyValue × List String))
    let (li, ts) ← (match ts with
      | "-" :: ts => some (none, ts)
      | t :: ts => t.toNat?.map (fun n => (some n, ts))
      | [] => none : Option (Option Nat × List String))
    let (batch, ts) ← pList pKV ts
    let (txn, ts) ← (match ts with
      | "-" :: ts => some (none, ts)
      | "T" :: ts => do
        let (c, ts) ← pList pCompare ts
        let (s, ts) ← pList pReqOp ts
        let (f, ts) ← pList pReqOp ts
        pure (some ⟨c, s, f⟩, ts)
      | _ => none : Option (Option Txn × List String))
    let (re, ts) ← pOptBytes ts
    let (pk, ts) ← pBool ts
    let (n, ts) ← pNat ts
    let rec go : Nat → List String → Option (List Command × List String)
      | 0, ts => some ([], ts)
      | n + 1, ts => do
        let (c, ts) ← pCommand ts
        let (cs, ts) ← go n ts
        pure (c :: cs, ts)
    let (sq, ts) ← go n ts
    let (cnt, ts) ← pBool ts
    pure (.mk table type kv li batch txn re pk sq cnt, ts)
  | _ => none

/-- the LCG both sides derive the test messages from -/
def lcgNext (x : Nat) : Nat := (x * 1103515245 + 12345) % 2147483648

def genMsgs (seed n min max : Nat) : List Bytes := Id.run do
  let mut x := seed
  let mut out : Array Bytes := #[]
  for i in [0:n] do
    x := lcgNext x
    let sz := min + x % (max - min + 1)
    let xi := x
    out := out.push ((List.range sz).map (fun j => UInt8.ofNat ((i * 31 + j * 7 + xi) % 251)))
  return out.toList

def digest (ms : List Bytes) : String :=
  let h := ms.foldl (fun h m => m.foldl (fun h c => (h ^^^ c.toUInt64) * 1099511628211)
    ((le64 m.length).foldl (fun h c => (h ^^^ c.toUInt64) * 1099511628211) h)) 14695981039346656037
  s!"{ms.length}:{h}"

/-- everything but the recycled-receiver flag of a command line (see `step`) -/
def stepPure (toks : List String) : String :=
  (match toks with
  | ["msg", "S", d, l, i] => (match parseBytes d, l.toNat?, i.toNat? with
    | some d, some l, some i =>
      let c : SnapshotChunk := ⟨d, l, i⟩
      -- the Lean decoder must give the message back as well
      s!"ok {hx c.enc} {b2s (SnapshotChunk.dec c.enc == some c)} 1"
    | _, _, _ => "bad-op")
  | "msg" :: "K" :: rest => (match pKV ("K" :: rest) with
    | some (kv, []) => s!"ok {hx kv.enc} {b2s (KeyValue.dec kv.enc == some kv)} 1"
    | _ => "bad-op")
  | ["file", seed, n, mn, mx] => (match seed.toNat?, n.toNat?, mn.toNat?, mx.toNat? with
    | some seed, some n, some mn, some mx =>
      let ms := genMsgs seed n mn mx
      -- write the file (frames), read it back (parseFrames); ship it in chunks and read it back again
      let file := frames ms
      match parseFrames file.length file with
      | some back =>
        let shipped := readerWriteTo (writerReadFrom [file.take 1000, [], file.drop 1000])
        (match parseFrames shipped.length shipped with
        | some back2 => s!"ok {digest back} {digest back2}"
        | none => "err read2")
      | none => "err read"
    | _, _, _, _ => "bad-op")
  | "ship" :: pieces =>
    -- arbitrary Writer.Write calls (also of nothing) through Reader.WriteTo
    (match pieces.mapM parseBytes with
    | some ps => s!"ok {hx (readerWriteTo (ps.map writerWrite))}"
    | none => "bad-op")
  | "compress" :: _ => "ok"
  | ["kf", "K7", "pooled-command"] => "ok mismatch || ok same"
  | _ => "bad-op")


/-- the state is the batch of the previous command line: the harness fills the recycled receiver
with the previous generated command, so these are the objects `ResetVT` retains; the third flag of
a command line is the model's decode of the batch into them (`batchInto`, theorem
`c18_recycled_batch`: always the original) -/
def step (prev : List KeyValue) (toks : List String) : List KeyValue × String :=
  match toks with
  | "msg" :: "C" :: rest => (match pCommand ("C" :: rest) with
    | some (c, []) =>
      -- the Lean decoder (the one `c18_command_message` is about) run on the encoding: it must
      -- give a command with the same encoding back (equal commands, by `c18_command_injective`)
      let back := match Command.decode c.depth c.enc with
        | some c' => c'.enc == c.enc
        | none => false
      let batch := match c with | .mk _ _ _ _ batch _ _ _ _ _ => batch
      let pooled := batchInto (prev.map KeyValue.reset) (batch.map KeyValue.enc) == some batch
      (batch, s!"ok {hx c.enc} {b2s back} {b2s pooled}")
    | _ => (prev, "bad-op"))
  | _ => (prev, stepPure toks)

end Regatta.Driver.WireMode
