import Regatta.Basic.Bytes
/-
  Line-protocol helpers shared by all driver modes (DESIGN.md Appendix C): tokens, hex with
  run-length segments, FNV-64a for long values.  Core Lean only.
-/
namespace Regatta.Proto
open Regatta

def hexDigit (c : Char) : Option Nat :=
  if '0' ≤ c ∧ c ≤ '9' then some (c.toNat - '0'.toNat)
  else if 'a' ≤ c ∧ c ≤ 'f' then some (c.toNat - 'a'.toNat + 10)
  else none

def hexChar (n : Nat) : Char := if n < 10 then Char.ofNat (n + 48) else Char.ofNat (n - 10 + 97)

def hexOfByte (b : UInt8) : String :=
  String.singleton (hexChar (b.toNat / 16)) ++ String.singleton (hexChar (b.toNat % 16))

partial def parseHexChars : List Char → Option (List UInt8)
  | [] => some []
  | a :: b :: rest => do
    let x ← hexDigit a
    let y ← hexDigit b
    let r ← parseHexChars rest
    pure (UInt8.ofNat (x * 16 + y) :: r)
  | _ => none

/-- one segment: hex, or `r<hh>x<n>` -/
def parseSeg (s : String) : Option (List UInt8) :=
  match s.toList with
  | 'r' :: a :: b :: 'x' :: n => do
    let x ← hexDigit a
    let y ← hexDigit b
    let k ← (String.ofList n).toNat?
    pure (List.replicate k (UInt8.ofNat (x * 16 + y)))
  | cs => parseHexChars cs

/-- optional bytes: `-` = nil (absent), `e` = present and empty -/
def parseOptBytes (s : String) : Option (Option Bytes) :=
  if s = "-" then some none
  else if s = "e" then some (some [])
  else do
    let segs ← (s.splitOn "+").mapM parseSeg
    pure (some segs.flatten)

/-- bytes where nil and empty are the same thing -/
def parseBytes (s : String) : Option Bytes := (parseOptBytes s).map (·.getD [])

/-- the Go harness's `hx`: maximal runs of more than 8 equal bytes are written `r<hh>x<n>` -/
partial def runs : List UInt8 → List (UInt8 × Nat)
  | [] => []
  | b :: rest =>
    let same := rest.takeWhile (· == b)
    (b, same.length + 1) :: runs (rest.drop same.length)

def hxRuns (rs : List (UInt8 × Nat)) : String := Id.run do
  let mut segs : Array String := #[]
  let mut lit : String := ""
  for (b, n) in rs do
    if n > 8 then
      if lit ≠ "" then
        segs := segs.push lit
        lit := ""
      segs := segs.push s!"r{hexOfByte b}x{n}"
    else
      for _ in [0:n] do
        lit := lit ++ hexOfByte b
  if lit ≠ "" then segs := segs.push lit
  return "+".intercalate segs.toList

def hx (b : Bytes) : String := if b = [] then "e" else hxRuns (runs b)
def hxOpt : Option Bytes → String
  | none => "-"
  | some b => hx b

/-- FNV-64a, as hash/fnv New64a -/
def fnv64a (b : ByteArray) : UInt64 :=
  b.foldl (fun h c => (h ^^^ c.toUInt64) * 1099511628211) 14695981039346656037

/-- FNV-64 (multiply, then xor), as hash/fnv New64 — what FSM.GetHash uses -/
def fnv64Step (h : UInt64) (c : UInt8) : UInt64 := (h * 1099511628211) ^^^ c.toUInt64
def fnv64Init : UInt64 := 14695981039346656037

def baOfBytes (b : Bytes) : ByteArray := ⟨b.toArray⟩

def parseVal (s : String) : Option ByteArray :=
  if s = "-" ∨ s = "e" then some ByteArray.empty
  else do
    let segs ← (s.splitOn "+").mapM parseSeg
    pure (segs.foldl (fun acc seg => seg.foldl (fun a c => a.push c) acc) ByteArray.empty)

/-- values in answers: empty `e`, up to 64 bytes hex (no run-length form), longer `<len>:<fnv64a>` -/
def hxv (v : ByteArray) : String :=
  if v.size = 0 then "e"
  else if v.size ≤ 64 then String.join (v.toList.map hexOfByte)
  else s!"{v.size}:{fnv64a v}"

def tokens (line : String) : List String := (line.splitOn " ").filter (· ≠ "")

def b2s (b : Bool) : String := if b then "1" else "0"

end Regatta.Proto
