import Regatta.Driver.Proto
import Regatta.Model.LogReader
namespace Regatta.Driver.LogMode
open Regatta Regatta.Proto Regatta.LogReader

structure St where
  first : Nat := 1
  ents : Array LEntry := #[]     -- entry with index i at position i-1
  applied : Nat := 0
  cache : Cache := { size := 1 }

def St.ent (st : St) (i : Nat) : LEntry := st.ents.getD (i - 1) ⟨i, 0, false⟩

def St.log (st : St) : Log :=
  { first := st.first, last := st.ents.size, ent := st.ent,
    entriesFn := stubEntries st.ent st.ents.size }

def idxStr (es : List LEntry) : String :=
  s!"{es.length}" ++ String.join (es.map (fun e => s!" {e.index}"))

def ansStr : Except LogErr (List LEntry) → String
  | .ok es => "ok " ++ idxStr es
  | .error .behind => "err behind"
  | .error .ahead => "err ahead"

def msgStr : Msg → String
  | .commands es => s!"cmds {es.length}" ++ String.join (es.map (fun e =>
      s!" {e.index}:{e.index}:" ++ (if e.encoded then s!"put{e.index}" else "dummy")))
  | .upToDate a => s!"empty {a}"
  | .useSnapshot => "error 0"
  | .leaderBehind => "error 1"

partial def parseAppend : Nat → List String → Nat → List LEntry → Option (List LEntry × List String)
  | 0, ts, _, acc => some (acc.reverse, ts)
  | n + 1, sz :: enc :: ts, idx, acc => do
    let sz ← sz.toNat?
    parseAppend n ts (idx + 1) (⟨idx, sz, enc == "1"⟩ :: acc)
  | _, _, _, _ => none

def step (st : St) (toks : List String) : St × String :=
  let bad := (st, "bad-op")
  match toks with
  | ["reset", cs] => match cs.toNat? with
    | some cs => ({ cache := { size := cs } }, "ok")
    | none => bad
  | "append" :: n :: rest => match n.toNat? with
    | some n => match parseAppend n rest (st.ents.size + 1) [] with
      | some (es, [a]) => match a.toNat? with
        | some a => ({ st with ents := st.ents ++ es.toArray, applied := a }, "ok")
        | none => bad
      | _ => bad
    | none => bad
  | ["compact", f, inval] => match f.toNat? with
    | some f => ({ st with first := f, cache := if inval == "1" then { size := st.cache.size } else st.cache }, "ok")
    | none => bad
  | ["q", which, from_, max] => match from_.toNat?, max.toNat? with
    | some f, some m =>
      if which == "s" then (st, ansStr (simpleQuery st.log f (st.applied + 1) m))
      else
        let (ans, c) := cachedQuery st.log st.cache f (st.applied + 1) m
        ({ st with cache := c }, ansStr ans)
    | _, _ => bad
  | ["repl", which, from_, max] => match from_.toNat?, max.toNat? with
    | some f, some m =>
      if f = 0 then (st, "rpcerr 3") else
      if which == "s" then
        let (ms, _) := replicate (fun (_ : Unit) a b => (simpleQuery st.log a b m, ())) () f st.applied st.applied
        (st, s!"ok {ms.length}" ++ String.join (ms.map (fun x => " " ++ msgStr x)))
      else
        let (ms, c) := replicate (fun c a b => cachedQuery st.log c a b m) st.cache f st.applied st.applied
        ({ st with cache := c }, s!"ok {ms.length}" ++ String.join (ms.map (fun x => " " ++ msgStr x)))
    | _, _ => bad
  | _ => bad

end Regatta.Driver.LogMode
