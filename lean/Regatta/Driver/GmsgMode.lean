import Regatta.Driver.Proto
import Regatta.Model.WireTree
namespace Regatta.Driver.GmsgMode
open Regatta Regatta.Proto Regatta.Wire

/-- the schema as the harness writes it: embedded-message fields, maps marked -/
inductive DS
  | mk (subs : List (Nat × Bool × DS))

def DS.subs : DS → List (Nat × Bool × DS)
  | .mk l => l

instance : Inhabited Schema := ⟨.mk []⟩

partial def DS.toSchema : DS → Schema
  | .mk l => .mk (l.map fun (f, _, d) => (f, d.toSchema))

def DS.isMap (d : DS) (f : Nat) : Bool := (d.subs.find? (·.1 == f)).any (·.2.1)
def DS.sub (d : DS) (f : Nat) : DS := ((d.subs.find? (·.1 == f)).map (·.2.2)).getD (.mk [])

/-- `(` entries `)` with entries `<num>[m]:<schema>` separated by commas -/
partial def pSchema : List Char → Option (DS × List Char)
  | '(' :: rest => pEntries rest []
  | _ => none
where
  pEntries : List Char → List (Nat × Bool × DS) → Option (DS × List Char)
    | ')' :: rest, acc => some (.mk acc.reverse, rest)
    | ',' :: rest, acc => pEntries rest acc
    | cs, acc =>
      let digits := cs.takeWhile Char.isDigit
      if digits.isEmpty then none else
      let rest := cs.drop digits.length
      let num := (String.ofList digits).toNat!
      let (isMap, rest) := match rest with | 'm' :: r => (true, r) | r => (false, r)
      match rest with
      | ':' :: r => match pSchema r with
        | some (d, r') => pEntries r' ((num, isMap, d) :: acc)
        | none => none
      | _ => none

def fnum : Tree → Nat
  | .varint f _ => f
  | .bytes f _ => f
  | .fixed64 f _ => f
  | .fixed32 f _ => f
  | .sub f _ => f

/-- stable insertion sort by a key -/
def sortBy {α : Type} (key : α → Nat) (l : List α) : List α :=
  l.foldl (fun acc x => let (a, b) := acc.span (fun y => key y ≤ key x); a ++ x :: b) []

partial def render (d : DS) (ts : List Tree) : String :=
  let sorted := sortBy fnum ts
  -- the entries of a map field carry no order: sort them by their rendering
  let one (t : Tree) : String := match t with
    | .varint f n => s!"v{f}={n}"
    | .bytes f b => s!"b{f}={hx b}"
    | .fixed64 f b => s!"x{f}={hx b}"
    | .fixed32 f b => s!"y{f}={hx b}"
    | .sub f kids => s!"s{f}{render (d.sub f) kids}"
  let groups := sorted.splitBy (fun a b => fnum a == fnum b)
  let parts := groups.flatMap fun g =>
    let rs := g.map one
    match g with
    | t :: _ => if d.isMap (fnum t) then rs.toArray.qsort (· < ·) |>.toList else rs
    | [] => rs
  "(" ++ " ".intercalate parts ++ ")"

def step (_ : Unit) (toks : List String) : Unit × String :=
  ((), match toks with
  | ["gmsg", _, fuel, schema, hex] =>
    match fuel.toNat?, pSchema schema.toList, parseBytes hex with
    | some fuel, some (d, []), some b =>
      match Tree.decode (fuel + 1) d.toSchema b with
      | none => "err decode"
      | some ts => s!"ok {b2s (Tree.encList ts == b)} {render d ts}"
    | _, _, _ => "bad-op"
  | _ => "bad-op")

end Regatta.Driver.GmsgMode
