import Regatta.Driver.Proto
import Regatta.Model.Fsm
import Regatta.Model.Snapshot
import Regatta.Model.ReadPath
import Regatta.Model.ApiBridge
/-
  fsm mode of the driver (DESIGN.md Appendix C): parses the operation lines written by the Go
  harness, runs `Regatta.Fsm`, prints answers in the harness's canonical form.
-/
namespace Regatta.Driver.FsmMode
open Regatta Regatta.Proto Regatta.Fsm

abbrev P (α : Type) := List String → Option (α × List String)

def pNat : P Nat
  | t :: r => t.toNat?.map (·, r)
  | [] => none

def pInt : P Int
  | t :: r => t.toInt?.map (·, r)
  | [] => none

def pBool : P Bool
  | "1" :: r => some (true, r)
  | "0" :: r => some (false, r)
  | _ => none

def pBytes : P Bytes
  | t :: r => (parseBytes t).map (·, r)
  | [] => none

def pOptBytes : P (Option Bytes)
  | t :: r => (parseOptBytes t).map (·, r)
  | [] => none

def pVal : P Val
  | t :: r => (parseVal t).map (·, r)
  | [] => none

def pMany {α : Type} (p : P α) : Nat → P (List α)
  | 0, ts => some ([], ts)
  | n + 1, ts => do
    let (x, ts) ← p ts
    let (xs, ts) ← pMany p n ts
    pure (x :: xs, ts)

def pList {α : Type} (p : P α) : P (List α) := fun ts => do
  let (n, ts) ← pNat ts
  pMany p n ts

def pRange : P RangeReq := fun ts => do
  let (k, ts) ← pBytes ts
  let (e, ts) ← pOptBytes ts
  let (l, ts) ← pInt ts
  let (ko, ts) ← pBool ts
  let (co, ts) ← pBool ts
  pure ({ key := k, rangeEnd := e, limit := l, keysOnly := ko, countOnly := co }, ts)

def pCmpResult : P CmpResult
  | "0" :: r => some (.equal, r)
  | "1" :: r => some (.greater, r)
  | "2" :: r => some (.less, r)
  | "3" :: r => some (.notEqual, r)
  | _ :: r => some (.unknown, r)
  | [] => none

def pCompare : P Compare := fun ts => do
  let (res, ts) ← pCmpResult ts
  let (k, ts) ← pBytes ts
  let (e, ts) ← pOptBytes ts
  match ts with
  | "v" :: ts => do
    let (v, ts) ← pVal ts
    pure (⟨res, k, e, some v⟩, ts)
  | "nov" :: ts => pure (⟨res, k, e, none⟩, ts)
  | _ => none

def pReqOp : P ReqOp
  | "r" :: ts => do let (r, ts) ← pRange ts; pure (.range r, ts)
  | "p" :: ts => do
    let (k, ts) ← pBytes ts; let (v, ts) ← pVal ts; let (pk, ts) ← pBool ts
    pure (.put k v pk, ts)
  | "d" :: ts => do
    let (k, ts) ← pBytes ts; let (e, ts) ← pOptBytes ts; let (pk, ts) ← pBool ts; let (c, ts) ← pBool ts
    pure (.del k e pk c, ts)
  | "none" :: ts => some (.none, ts)
  | _ => none

def pTxn : P (List Compare × List ReqOp × List ReqOp) := fun ts => do
  let (c, ts) ← pList pCompare ts
  let (s, ts) ← pList pReqOp ts
  let (f, ts) ← pList pReqOp ts
  pure ((c, s, f), ts)

partial def pCmd : P Cmd
  | "put" :: ts => do
    let (k, ts) ← pBytes ts; let (v, ts) ← pVal ts; let (pk, ts) ← pBool ts
    pure (.put k v pk, ts)
  | "del" :: ts => do
    let (k, ts) ← pBytes ts; let (e, ts) ← pOptBytes ts; let (pk, ts) ← pBool ts; let (c, ts) ← pBool ts
    pure (.del k e pk c, ts)
  | "pbatch" :: ts => do
    let (kvs, ts) ← pList (fun ts => do let (k, ts) ← pBytes ts; let (v, ts) ← pVal ts; pure ((k, v), ts)) ts
    pure (.putBatch kvs, ts)
  | "dbatch" :: ts => do
    let (ks, ts) ← pList pBytes ts
    pure (.delBatch ks, ts)
  | "dummy" :: ts => some (.dummy, ts)
  | "txn" :: ts => do
    let ((c, s, f), ts) ← pTxn ts
    pure (.txn c s f, ts)
  | "seq" :: ts => do
    let (n, ts) ← pNat ts
    let rec go : Nat → List String → Option (List Cmd × List String)
      | 0, ts => some ([], ts)
      | n + 1, ts => do
        let (c, ts) ← pCmd ts
        let (cs, ts) ← go n ts
        pure (c :: cs, ts)
    let (cs, ts) ← go n ts
    pure (.seq cs, ts)
  | _ => none

def pEntry : P Entry := fun ts => do
  let (i, ts) ← pNat ts
  match ts with
  | "-" :: ts => do let (c, ts) ← pCmd ts; pure (⟨i, none, c⟩, ts)
  | li :: ts => do let li ← li.toNat?; let (c, ts) ← pCmd ts; pure (⟨i, some li, c⟩, ts)
  | [] => none

/-! printing -/

def kvStr (kv : KV) : String := s!"{hx kv.key} {hxv kv.value}"

def kvsStr (kvs : List KV) : String :=
  s!"{kvs.length}" ++ String.join (kvs.map (fun kv => " " ++ kvStr kv))

def rrStr (r : RangeResp) : String := s!"rr {b2s r.more} {r.count} {kvsStr r.kvs}"

def respStr : RespOp → String
  | .range r => rrStr r
  | .put none => "rp -"
  | .put (some kv) => "rp " ++ kvStr kv
  | .del d kvs => s!"rd {d} {kvsStr kvs}"

def respsStr (rs : List RespOp) : String :=
  s!"{rs.length}" ++ String.join (rs.map (fun r => " " ++ respStr r))

def resultStr (r : Result) : String :=
  match r.data with
  | none => s!"{r.value} -"
  | some (rev, rs) => s!"{r.value} {rev} {respsStr rs}"

def errStr : Err → String
  | .notIndexed => "err notindexed"
  | .panicDecode => "panic decode"
  | .panicNil => "panic nil"

def hashDb (db : Db) : UInt64 :=
  db.foldl (fun h p => p.2.foldl fnv64Step (p.1.foldl fnv64Step h)) fnv64Init

structure St where
  /-- the replicas: configured format (as far as the driver is told), live handle, stores -/
  reps : List (Nat × Snap.Rep) := []
  /-- parked lazy sequences: slot ↦ (instance, lazy read, eager answer of a single-key request,
  the instance's store when the read was obtained) -/
  parked : List (Nat × Nat × Snap.LazyRead × Option RangeResp × Db) := []
  /-- pinned snapshot values (PrepareSnapshot) -/
  pins : List (Nat × Db) := []
  /-- rpath mode: the log index of the last entry applied where consensus reads are answered, and
  the result of that entry -/
  lastCommitted : Nat := 0
  lastResult : Option Result := none

def St.rep (st : St) (i : Nat) : Option Snap.Rep := (st.reps.find? (·.1 == i)).map (·.2)
def St.putRep (st : St) (i : Nat) (r : Snap.Rep) : St := { st with reps := (i, r) :: st.reps.filter (·.1 != i) }
def St.get (st : St) (i : Nat) : Option Db := (st.rep i).map (·.db)
def St.set (st : St) (i : Nat) (db : Db) : St := st.putRep i (((st.rep i).getD {}).setDb db)

def fmtOf : String → Option Snap.Fmt
  | "0" => some .snapshot
  | "1" => some .checkpoint
  | _ => none

/-- the table layer's checks in front of the state machine (ActiveTable.Range / Iterator / Txn), via
the acceptance model of C16 -/
def rangeAccepted (r : RangeReq) : Bool :=
  (Api.rangeLimits { table := [1], klen := r.key.length, relen := (r.rangeEnd.getD []).length }).isNone

def txnAccepted (c : List Compare) (s f : List ReqOp) : Bool :=
  Api.kvTxn [[1]] (ApiBridge.apiTxn [1] c s f) == .ok

def chunksStr (chunks : List RangeResp) : String :=
  s!"ok {chunks.length}" ++ String.join (chunks.map (fun c => " " ++ rrStr c))

def step (st : St) (toks : List String) : St × String :=
  let bad := (st, "bad-op")
  match toks with
  | ["reset"] => ({}, "ok")
  | ["alive"] => (st, "ok")
  | ["msgsize", _, _] => (st, "ok")   -- c09_chunk_size: every chunk fits the transport, whatever the sizes
  | ["headers"] => (st, "ok")
  | "iterh" :: i :: slot :: rest =>
    match i.toNat?, slot.toNat?, pRange rest with
    | some i, some slot, some (r, []) =>
      -- `iteratorLookup`: a single-key request is answered eagerly, a range lazily
      match st.rep i with
      | some rep =>
        let eager := if r.rangeEnd.isSome then none else some (singleLookup rep.db r)
        ({ st with parked := (slot, i, Snap.lookupIter rep r, eager, rep.db) :: st.parked }, "ok")
      | none => bad
    | _, _, _ => bad
  | ["cons", slot] =>
    match slot.toNat?.bind (fun s => st.parked.find? (·.1 == s)) with
    | some (slot, i, lz, eager, _) => match st.rep i with
      | some rep =>
        let st := { st with parked := st.parked.filter (·.1 != slot) }
        match eager with
        | some resp => (st, chunksStr [resp])
        | none => match Snap.consume rep lz with
          | none => (st, "panic closed")
          | some (.ok chunks) => (st, chunksStr chunks)
          | some (.error e) => (st, errStr e)
      | none => bad
    | none => bad
  | ["kf", "K1", "cons", slot] =>
    -- a lazy read consumed after an install: the code panics on the closed store; the property
    -- admits the old state, the new state or a clean error
    match slot.toNat?.bind (fun s => st.parked.find? (·.1 == s)) with
    | some (slot, i, lz, eager, old) => match st.rep i with
      | some rep =>
        let st := { st with parked := st.parked.filter (·.1 != slot) }
        let asCode := match eager with
          | some resp => chunksStr [resp]
          | none => match Snap.consume rep lz with
            | none => "panic closed"
            | some (.ok chunks) => chunksStr chunks
            | some (.error e) => errStr e
        let alt (db : Db) : String := match iteratorLookup db lz.req with
          | .ok chunks => chunksStr chunks
          | .error e => errStr e
        (st, s!"{asCode} || {alt rep.db} || {alt old} || err other")
      | none => bad
    | none => bad
  | ["swap", a, b] =>
    match a.toNat?, b.toNat? with
    | some a, some b => match st.rep a, st.rep b with
      | some ra, some rb => ((st.putRep a rb).putRep b ra, "ok")
      | _, _ => bad
    | _, _ => bad
  | ["pin", i, slot] =>
    match i.toNat?.bind st.rep, slot.toNat? with
    | some rep, some slot => ({ st with pins := (slot, Snap.prepare rep) :: st.pins.filter (·.1 != slot) }, "ok")
    | _, _ => bad
  | ["save", slot, fmt, stopped] =>
    -- the stream's first 8 bytes, or that the save was stopped
    match slot.toNat?.bind (fun s => st.pins.find? (·.1 == s)), fmtOf fmt with
    | some (_, pinned), some f =>
      match Snap.save { fmt := f } pinned (stopped == "1") with
      | some s => (st, s!"ok {hx s.hdr}")
      | none => (st, "stopped")
    | _, _ => bad
  | ["install", slot, fmt, b, outcome] =>
    -- RecoverFromSnapshot of the stream saved from `slot` by a replica of format `fmt`; the harness
    -- reports whether its stop signal was seen (`stopped`) or came too late (`done`)
    match slot.toNat?.bind (fun s => st.pins.find? (·.1 == s)), fmtOf fmt, b.toNat? with
    | some (_, pinned), some f, some b =>
      match st.rep b, Snap.save { fmt := f } pinned false with
      | some rep, some stream =>
        let (rep', out) := Snap.recover rep stream (outcome == "stopped")
        (st.putRep b rep', match out with | .done => "done" | .stopped => "stopped" | .panic => "panic other")
      | _, _ => bad
    | _, _, _ => bad
  | ["new", i] => match i.toNat? with
    | some i => (st.putRep i {}, "ok")
    | none => bad
  | ["copy", a, b] => match a.toNat?, b.toNat? with
    | some a, some b => match st.get a with
      | some db => (st.set b db, "ok")
      | none => bad
    | _, _ => bad
  | "apply" :: i :: rest =>
    match i.toNat?, pEntry rest with
    | some i, some (e, []) => match st.get i with
      | some db => match update db [e] with
        | .ok (db', rs, _) =>
          let st := st.set i db'
          (if i == 0 then { st with lastCommitted := e.index, lastResult := rs.head? } else st, "ok")
        | .error err => (st, errStr err)
      | none => bad
    | _, _ => bad
  | ["acked", what] =>
    -- an acknowledged put / delete / transaction reports the log index of its entry, and the API
    -- response is built from the apply result (table.go Put / Delete / Txn)
    let body := match st.lastResult.bind (fun (r : Result) => r.data) with
      | some (_, rs) =>
        if what == "txn" then
          s!"{b2s ((st.lastResult.map (fun (r : Result) => r.value)).getD 0 == resultSuccess)} {respsStr rs}"
        else (rs.head?.map respStr).getD "r?"
      | none => "r?"
    (st, s!"rev {st.lastCommitted} {body}")
  | "rread" :: kind :: lin :: rest =>
    -- which state answers: the routing of table.go (ReadPath.path); instance 0 has everything
    -- committed, instance 1 is the lagging local replica
    let inst (p : ReadPath.Path) : Nat := match p with | .localRead => 1 | _ => 0
    match kind with
    | "range" => match pRange rest with
      | some (r, []) =>
        if !rangeAccepted r then (st, "err other") else
        match st.get (inst (ReadPath.path { kind := .range, linearizable := lin == "1", range := some r })) with
        | some db => match lookup db r with
          | .ok resp => (st, "ok " ++ rrStr resp)
          | .error e => (st, errStr e)
        | none => bad
      | _ => bad
    | "iter" => match pRange rest with
      | some (r, []) =>
        if !rangeAccepted r then (st, "err other") else
        match st.get (inst (ReadPath.path { kind := .iterate, linearizable := lin == "1", range := some r })) with
        | some db => match iteratorLookup db r with
          | .ok chunks => (st, chunksStr chunks)
          | .error e => (st, errStr e)
        | none => bad
      | _ => bad
    | "txn" => match pTxn rest with
      | some ((c, s, f), []) =>
        if !txnAccepted c s f then (st, "err other") else
        match ReadPath.path { kind := .txn, success := s, failure := f } with
        | .proposal => bad
        | p => match st.get (inst p) with
          | some db => match lookupTxn db c s f with
            | .ok (ok, rs) => (st, s!"ok {b2s ok} {respsStr rs}")
            | .error e => (st, errStr e)
          | none => bad
      | _ => bad
    | _ => bad
  | "kf" :: "K2" :: "upd" :: i :: rest =>
    -- a range delete with prev_kv: the code reports the first message of the range read (known
    -- finding K2 when the range exceeds the message budget); the property wants every removed pair
    match i.toNat?, pList pEntry rest with
    | some i, some ([e], []) => match st.get i with
      | some db => match update db [e] with
        | .ok (db', rs, notified) =>
          let hdr := s!"ok {notified}@{readIndex db' Key.sysLocalIndex} {rs.length}"
          let asCode := hdr ++ String.join (rs.map (fun r => " " ++ resultStr r))
          let conforming := match e.cmd with
            | .del k (some hi) true _ =>
              match iteratorLookup db { key := k, rangeEnd := some hi } with
              | .ok chunks =>
                let all := chunks.flatMap (·.kvs)
                hdr ++ " " ++ resultStr ⟨resultSuccess, some (e.index, [.del all.length all])⟩
              | .error _ => asCode
            | _ => asCode
          (st.set i db', if conforming == asCode then asCode else s!"{asCode} || {conforming}")
        | .error err => (st, errStr err)
      | none => bad
    | _, _ => bad
  | "upd" :: i :: rest =>
    match i.toNat?, pList pEntry rest with
    | some i, some (es, []) => match st.get i with
      | some db => match update db es with
        | .ok (db', rs, notified) =>
          (st.set i db', s!"ok {notified}@{readIndex db' Key.sysLocalIndex} {rs.length}" ++ String.join (rs.map (fun r => " " ++ resultStr r)))
        | .error e => (st, errStr e)
      | none => bad
    | _, _ => bad
  | "look" :: i :: rest =>
    match i.toNat?, pRange rest with
    | some i, some (r, []) => match st.get i with
      | some db => match lookup db r with
        | .ok resp => (st, "ok " ++ rrStr resp)
        | .error e => (st, errStr e)
      | none => bad
    | _, _ => bad
  | "iter" :: i :: rest =>
    match i.toNat?, pRange rest with
    | some i, some (r, []) => match st.get i with
      | some db => match iteratorLookup db r with
        | .ok chunks => (st, s!"ok {chunks.length}" ++ String.join (chunks.map (fun c => " " ++ rrStr c)))
        | .error e => (st, errStr e)
      | none => bad
    | _, _ => bad
  | "ltxn" :: i :: rest =>
    match i.toNat?, pTxn rest with
    | some i, some ((c, s, f), []) => match st.get i with
      | some db => match lookupTxn db c s f with
        | .ok (ok, rs) => (st, s!"ok {b2s ok} {respsStr rs}")
        | .error e => (st, errStr e)
      | none => bad
    | _, _ => bad
  | ["reopen", i] => match i.toNat?.bind st.get with
    | some db =>
      -- FSM.Open: returns the local index, tells the listener the leader index if there is one
      let idx := readIndex db Key.sysLocalIndex
      let li := readIndex db Key.sysLeaderIndex
      (st, s!"ok {idx} {if li ≠ 0 then li else idx}@{idx}")
    | none => bad
  | ["xfer", a, b] => match a.toNat?, b.toNat? with
    | some a, some b => match st.get a with
      | some db => (st.set b db, "ok")
      | none => bad
    | _, _ => bad
  | ["idx", i] => match i.toNat?.bind st.get with
    | some db => (st, s!"ok {readIndex db Key.sysLocalIndex}")
    | none => bad
  | ["lidx", i] => match i.toNat?.bind st.get with
    | some db => (st, s!"ok {readIndex db Key.sysLeaderIndex}")
    | none => bad
  | ["hash", i] => match i.toNat?.bind st.get with
    | some db => (st, s!"ok {hashDb db}")
    | none => bad
  | _ => bad

end Regatta.Driver.FsmMode
