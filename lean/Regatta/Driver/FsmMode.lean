import Regatta.Driver.Proto
import Regatta.Model.Fsm
/-
  fsm mode of the driver (DESIGN.md Appendix C): parses the operation lines written by the Go
  harness, runs `Regatta.Fsm`, prints answers in the harness's canonical form.
-/
namespace Regatta.Driver.FsmMode
open Regatta Regatta.Proto Regatta.Fsm

abbrev P (α : Type) := List String → Option (α × List String)

def pNat : P Nat
  | t :: r => t.toNat?.map (·, r)
  | [] => none

def pInt : P Int
  | t :: r => t.toInt?.map (·, r)
  | [] => none

def pBool : P Bool
  | "1" :: r => some (true, r)
  | "0" :: r => some (false, r)
  | _ => none

def pBytes : P Bytes
  | t :: r => (parseBytes t).map (·, r)
  | [] => none

def pOptBytes : P (Option Bytes)
  | t :: r => (parseOptBytes t).map (·, r)
  | [] => none

def pVal : P Val
  | t :: r => (parseVal t).map (·, r)
  | [] => none

def pMany {α : Type} (p : P α) : Nat → P (List α)
  | 0, ts => some ([], ts)
  | n + 1, ts => do
    let (x, ts) ← p ts
    let (xs, ts) ← pMany p n ts
    pure (x :: xs, ts)

def pList {α : Type} (p : P α) : P (List α) := fun ts => do
  let (n, ts) ← pNat ts
  pMany p n ts

def pRange : P RangeReq := fun ts => do
  let (k, ts) ← pBytes ts
  let (e, ts) ← pOptBytes ts
  let (l, ts) ← pInt ts
  let (ko, ts) ← pBool ts
  let (co, ts) ← pBool ts
  pure ({ key := k, rangeEnd := e, limit := l, keysOnly := ko, countOnly := co }, ts)

def pCmpResult : P CmpResult
  | "0" :: r => some (.equal, r)
  | "1" :: r => some (.greater, r)
  | "2" :: r => some (.less, r)
  | "3" :: r => some (.notEqual, r)
  | _ :: r => some (.unknown, r)
  | [] => none

def pCompare : P Compare := fun ts => do
  let (res, ts) ← pCmpResult ts
  let (k, ts) ← pBytes ts
  let (e, ts) ← pOptBytes ts
  match ts with
  | "v" :: ts => do
    let (v, ts) ← pVal ts
    pure (⟨res, k, e, some v⟩, ts)
  | "nov" :: ts => pure (⟨res, k, e, none⟩, ts)
  | _ => none

def pReqOp : P ReqOp
  | "r" :: ts => do let (r, ts) ← pRange ts; pure (.range r, ts)
  | "p" :: ts => do
    let (k, ts) ← pBytes ts; let (v, ts) ← pVal ts; let (pk, ts) ← pBool ts
    pure (.put k v pk, ts)
  | "d" :: ts => do
    let (k, ts) ← pBytes ts; let (e, ts) ← pOptBytes ts; let (pk, ts) ← pBool ts; let (c, ts) ← pBool ts
    pure (.del k e pk c, ts)
  | "none" :: ts => some (.none, ts)
  | _ => none

def pTxn : P (List Compare × List ReqOp × List ReqOp) := fun ts => do
  let (c, ts) ← pList pCompare ts
  let (s, ts) ← pList pReqOp ts
  let (f, ts) ← pList pReqOp ts
  pure ((c, s, f), ts)

partial def pCmd : P Cmd
  | "put" :: ts => do
    let (k, ts) ← pBytes ts; let (v, ts) ← pVal ts; let (pk, ts) ← pBool ts
    pure (.put k v pk, ts)
  | "del" :: ts => do
    let (k, ts) ← pBytes ts; let (e, ts) ← pOptBytes ts; let (pk, ts) ← pBool ts; let (c, ts) ← pBool ts
    pure (.del k e pk c, ts)
  | "pbatch" :: ts => do
    let (kvs, ts) ← pList (fun ts => do let (k, ts) ← pBytes ts; let (v, ts) ← pVal ts; pure ((k, v), ts)) ts
    pure (.putBatch kvs, ts)
  | "dbatch" :: ts => do
    let (ks, ts) ← pList pBytes ts
    pure (.delBatch ks, ts)
  | "dummy" :: ts => some (.dummy, ts)
  | "txn" :: ts => do
    let ((c, s, f), ts) ← pTxn ts
    pure (.txn c s f, ts)
  | "seq" :: ts => do
    let (n, ts) ← pNat ts
    let rec go : Nat → List String → Option (List Cmd × List String)
      | 0, ts => some ([], ts)
      | n + 1, ts => do
        let (c, ts) ← pCmd ts
        let (cs, ts) ← go n ts
        pure (c :: cs, ts)
    let (cs, ts) ← go n ts
    pure (.seq cs, ts)
  | _ => none

def pEntry : P Entry := fun ts => do
  let (i, ts) ← pNat ts
  match ts with
  | "-" :: ts => do let (c, ts) ← pCmd ts; pure (⟨i, none, c⟩, ts)
  | li :: ts => do let li ← li.toNat?; let (c, ts) ← pCmd ts; pure (⟨i, some li, c⟩, ts)
  | [] => none

/-! printing -/

def kvStr (kv : KV) : String := s!"{hx kv.key} {hxv kv.value}"

def kvsStr (kvs : List KV) : String :=
  s!"{kvs.length}" ++ String.join (kvs.map (fun kv => " " ++ kvStr kv))

def rrStr (r : RangeResp) : String := s!"rr {b2s r.more} {r.count} {kvsStr r.kvs}"

def respStr : RespOp → String
  | .range r => rrStr r
  | .put none => "rp -"
  | .put (some kv) => "rp " ++ kvStr kv
  | .del d kvs => s!"rd {d} {kvsStr kvs}"

def respsStr (rs : List RespOp) : String :=
  s!"{rs.length}" ++ String.join (rs.map (fun r => " " ++ respStr r))

def resultStr (r : Result) : String :=
  match r.data with
  | none => s!"{r.value} -"
  | some (rev, rs) => s!"{r.value} {rev} {respsStr rs}"

def errStr : Err → String
  | .notIndexed => "err notindexed"
  | .panicDecode => "panic decode"
  | .panicNil => "panic nil"

def hashDb (db : Db) : UInt64 :=
  db.foldl (fun h p => p.2.foldl fnv64Step (p.1.foldl fnv64Step h)) fnv64Init

structure St where
  dbs : List (Nat × Db) := []
  /-- parked lazy sequences: slot ↦ (instance, request); the Pebble iterator is created at the
  first pull, so the pairs are those of the instance's store at consumption time -/
  parked : List (Nat × Nat × RangeReq × Option RangeResp) := []

def St.get (st : St) (i : Nat) : Option Db := (st.dbs.find? (·.1 == i)).map (·.2)
def St.set (st : St) (i : Nat) (db : Db) : St := { st with dbs := (i, db) :: st.dbs.filter (·.1 != i) }

def step (st : St) (toks : List String) : St × String :=
  let bad := (st, "bad-op")
  match toks with
  | ["reset"] => ({}, "ok")
  | "iterh" :: i :: slot :: rest =>
    match i.toNat?, slot.toNat?, pRange rest with
    | some i, some slot, some (r, []) =>
      -- `iteratorLookup`: a single-key request is answered eagerly, a range lazily
      let eager := if r.rangeEnd.isSome then none else (st.get i).map (fun db => singleLookup db r)
      ({ st with parked := (slot, i, r, eager) :: st.parked }, "ok")
    | _, _, _ => bad
  | ["cons", slot] =>
    match slot.toNat?.bind (fun s => st.parked.find? (·.1 == s)) with
    | some (slot, i, r, eager) => match st.get i with
      | some db =>
        let st := { st with parked := st.parked.filter (·.1 != slot) }
        match (match eager with | some resp => (Except.ok [resp] : Except Err (List RangeResp)) | none => iteratorLookup db r) with
        | .ok chunks => (st, s!"ok {chunks.length}" ++ String.join (chunks.map (fun c => " " ++ rrStr c)))
        | .error e => (st, errStr e)
      | none => bad
    | none => bad
  | ["new", i] => match i.toNat? with
    | some i => (st.set i [], "ok")
    | none => bad
  | ["copy", a, b] => match a.toNat?, b.toNat? with
    | some a, some b => match st.get a with
      | some db => (st.set b db, "ok")
      | none => bad
    | _, _ => bad
  | "upd" :: i :: rest =>
    match i.toNat?, pList pEntry rest with
    | some i, some (es, []) => match st.get i with
      | some db => match update db es with
        | .ok (db', rs, notified) =>
          (st.set i db', s!"ok {notified}@{readIndex db' Key.sysLocalIndex} {rs.length}" ++ String.join (rs.map (fun r => " " ++ resultStr r)))
        | .error e => (st, errStr e)
      | none => bad
    | _, _ => bad
  | "look" :: i :: rest =>
    match i.toNat?, pRange rest with
    | some i, some (r, []) => match st.get i with
      | some db => match lookup db r with
        | .ok resp => (st, "ok " ++ rrStr resp)
        | .error e => (st, errStr e)
      | none => bad
    | _, _ => bad
  | "iter" :: i :: rest =>
    match i.toNat?, pRange rest with
    | some i, some (r, []) => match st.get i with
      | some db => match iteratorLookup db r with
        | .ok chunks => (st, s!"ok {chunks.length}" ++ String.join (chunks.map (fun c => " " ++ rrStr c)))
        | .error e => (st, errStr e)
      | none => bad
    | _, _ => bad
  | "ltxn" :: i :: rest =>
    match i.toNat?, pTxn rest with
    | some i, some ((c, s, f), []) => match st.get i with
      | some db => match lookupTxn db c s f with
        | .ok (ok, rs) => (st, s!"ok {b2s ok} {respsStr rs}")
        | .error e => (st, errStr e)
      | none => bad
    | _, _ => bad
  | ["reopen", i] => match i.toNat?.bind st.get with
    | some db =>
      -- FSM.Open: returns the local index, tells the listener the leader index if there is one
      let idx := readIndex db Key.sysLocalIndex
      let li := readIndex db Key.sysLeaderIndex
      (st, s!"ok {idx} {if li ≠ 0 then li else idx}@{idx}")
    | none => bad
  | ["xfer", a, b] => match a.toNat?, b.toNat? with
    | some a, some b => match st.get a with
      | some db => (st.set b db, "ok")
      | none => bad
    | _, _ => bad
  | ["idx", i] => match i.toNat?.bind st.get with
    | some db => (st, s!"ok {readIndex db Key.sysLocalIndex}")
    | none => bad
  | ["lidx", i] => match i.toNat?.bind st.get with
    | some db => (st, s!"ok {readIndex db Key.sysLeaderIndex}")
    | none => bad
  | ["hash", i] => match i.toNat?.bind st.get with
    | some db => (st, s!"ok {hashDb db}")
    | none => bad
  | _ => bad

end Regatta.Driver.FsmMode
