import Regatta.Driver.Proto
import Regatta.Model.View
namespace Regatta.Driver.ViewMode
open Regatta Regatta.Proto Regatta.View

/-- `<shard> <cci> <leader> <term> r <n> <id>×n`; returns the view and the remaining tokens -/
def parseSV : List String → Option (ShardView × List String)
  | s :: c :: l :: t :: "r" :: n :: rest => do
    let s ← s.toNat?; let c ← c.toNat?; let l ← l.toNat?; let t ← t.toNat?; let n ← n.toNat?
    let ids ← (rest.take n).mapM String.toNat?
    if ids.length ≠ n then none
    pure (⟨s, ids, c, l, t⟩, rest.drop n)
  | _ => none

def svStr (v : ShardView) : String :=
  s!"{v.shard} {v.cci} {v.leader} {v.term} r {v.replicas.length}" ++
    String.join (v.replicas.map (fun i => s!" {i}"))

partial def parseSVs : List String → Option (List ShardView)
  | [] => some []
  | ";" :: rest => do
    let (v, rest') ← parseSV rest
    let vs ← parseSVs rest'
    pure (v :: vs)
  | _ => none

structure St where
  view : View := []
  nodes : List (Nat × Node) := []

def St.node (st : St) (i : Nat) : Node := ((st.nodes.find? (·.1 == i)).map (·.2)).getD {}
def St.setNode (st : St) (i : Nat) (n : Node) : St :=
  { st with nodes := (i, n) :: st.nodes.filter (·.1 != i) }

def stepNodes (st : St) (toks : List String) : Option (St × String) :=
  match toks with
  | ["nnew", i] => do let i ← i.toNat?; pure (st.setNode i {}, "ok")
  | "local" :: i :: n :: rest => do
    let i ← i.toNat?; let n ← n.toNat?; let us ← parseSVs rest
    if us.length ≠ n then none
    pure (st.setNode i { st.node i with info := us }, "ok")
  | ["notify", i] => do let i ← i.toNat?; pure (st.setNode i (st.node i).notify, "ok")
  | ["gossip", i, j] => do
    let i ← i.toNat?; let j ← j.toNat?
    if i = j then
      -- a node merging its own state
      let n := (st.node i).notify
      pure (st.setNode i { n with view := n.view.update n.view.copy }, "ok")
    else
      let (a, b) := gossip (st.node i) (st.node j)
      pure ((st.setNode i a).setNode j b, "ok")
  | ["nget", i, id] => do
    let i ← i.toNat?; let id ← id.toNat?
    pure (st, "ok " ++ svStr ((st.node i).view.shardInfo id))
  | _ => none

def stepView (st : View) (toks : List String) : View × String :=
  match toks with
  | ["reset"] => ([], "ok")
  | ["new"] => ([], "ok")
  | "merge" :: rest =>
    match parseSV rest with
    | some (cur, "|" :: rest') =>
      match parseSV rest' with
      | some (upd, []) => (st, "ok " ++ svStr (merge cur upd))
      | _ => (st, "bad-op")
    | _ => (st, "bad-op")
  | "upd" :: n :: rest =>
    match n.toNat?, parseSVs rest with
    | some n, some us => if us.length = n then (st.update us, "ok") else (st, "bad-op")
    | _, _ => (st, "bad-op")
  | ["get", id] =>
    match id.toNat? with
    | some id => (st, "ok " ++ svStr (st.shardInfo id))
    | none => (st, "bad-op")
  | _ => (st, "bad-op")

def step (st : St) (toks : List String) : St × String :=
  match stepNodes st toks with
  | some r => r
  | none =>
    if toks = ["reset"] then ({}, "ok") else
    let (v, a) := stepView st.view toks
    ({ st with view := v }, a)

end Regatta.Driver.ViewMode
