import Regatta.Driver.FsmMode
import Regatta.Model.Crash
namespace Regatta.Driver.CrashMode
open Regatta Regatta.Proto Regatta.Fsm Regatta.Driver.FsmMode

structure St where
  /-- (applied index, store) after each prefix of the scenario's log, the empty prefix first -/
  prefixes : List (Nat × Db) := [(0, [])]
  final : UInt64 := hashDb []

/-- the model store after each prefix of the log, entry by entry -/
def prefixesOf (es : List Entry) : Except Err (List (Nat × Db)) := do
  let mut db : Db := []
  let mut acc : List (Nat × Db) := [(0, [])]
  for e in es do
    let (db', _, _) ← update db [e]
    db := db'
    acc := (e.index, db') :: acc
  return acc.reverse

def dummyRerun : Crash.St := { cur := some ⟨some 1, some 1⟩, dirV := true, dirD := true }

def step (st : St) (toks : List String) : St × String :=
  match toks with
  | ["reset"] => ({}, "ok")
  | "clog" :: rest =>
    match pList pEntry rest with
    | some (es, []) =>
      match prefixesOf es with
      | .ok ps =>
        let fin := hashDb ((ps.getLast?.map (·.2)).getD [])
        ({ prefixes := ps, final := fin }, s!"ok {fin}")
      | .error e => (st, errStr e)
    | _ => (st, "bad-op")
  | ["trace", ev] =>
    let t := match ev with
      | "open-new" => some (Crash.trace (Crash.ops {} (.open 1)))
      | "open-rerun" => some (Crash.trace (Crash.ops dummyRerun (.open 2)))
      | "upd" => some (Crash.trace (Crash.ops dummyRerun (.update 1)))
      | "sync" => some (Crash.trace (Crash.ops dummyRerun .sync))
      | "close" => some (Crash.trace (Crash.ops dummyRerun .close))
      | "recover-0" => some (Crash.trace (Crash.ops dummyRerun (.recoverSnap 2 1)))
      | "recover-1" => some (Crash.trace (Crash.ops dummyRerun (.recoverCkpt 2 1)))
      | "save-0" => some ""
      | "save-0-again" => some ""
      | "save-1-again" => some ""
      | "save-1" => some (Crash.trace (Crash.ops dummyRerun .saveCkpt))
      | _ => none
    (st, t.getD "bad-op")
  | ["crash", _, lastSync, idx, h, h2] =>
    match lastSync.toNat?, idx.toNat?, h.toNat?, h2.toNat? with
    | some ls, some idx, some h, some h2 =>
      -- hash only the prefix the observation points at
      let ps := (st.prefixes.filter (·.1 == idx)).map (fun p => (p.1, hashDb p.2))
      (st, Crash.oracle ps st.final ls idx (UInt64.ofNat h) (UInt64.ofNat h2))
    | _, _, _, _ => (st, "bad-op")
  | ["crash", _, _, what] => (st, s!"bad {what}")
  | _ => (st, "bad-op")

end Regatta.Driver.CrashMode
