import Regatta.Driver.Proto
import Regatta.Model.Meta
namespace Regatta.Driver.MetaMode
open Regatta Regatta.Proto Regatta.Meta

def parseStr (s : String) : Option String := (parseBytes s).bind (fun b => String.fromUTF8? ⟨b.toArray⟩)
def hs (s : String) : String := hx s.toUTF8.toList

/-! ### meta mode: the LFSM -/

abbrev St := List (Nat × Store String)
def St.get (st : St) (i : Nat) : Store String := ((st.find? (·.1 == i)).map (·.2)).getD []
def St.set (st : St) (i : Nat) (s : Store String) : St := (i, s) :: st.filter (·.1 != i)

def pairStr (p : Pair String) : String := s!"{hs p.key} {hs p.value} {p.ver}"

partial def parseUpds : Nat → List String → Option (List (Nat × Upd String))
  | 0, [] => some []
  | n + 1, idx :: op :: k :: v :: ver :: rest => do
    let idx ← idx.toNat?; let k ← parseStr k; let v ← parseStr v; let ver ← ver.toNat?
    let op ← (match op with | "s" => some Op.set | "d" => some Op.delete | "o" => some Op.other | _ => none)
    let us ← parseUpds n rest
    pure ((idx, ⟨op, k, v, ver⟩) :: us)
  | _, _ => none

def resStr : Res String → String
  | .ok p => s!"1 {pairStr p}"
  | .mismatch cur => s!"2 {pairStr cur}"

def strsStr (l : List String) : String := s!"ok {l.length}" ++ String.join (l.map (fun s => " " ++ hs s))

def step (st : St) (toks : List String) : St × String :=
  let bad := (st, "bad-op")
  match toks with
  | ["reset"] => ([], "ok")
  | ["mnew", i] => match i.toNat? with
    | some i => (st.set i [], "ok")
    | none => bad
  | "mbatch" :: i :: n :: rest => match i.toNat?, n.toNat? with
    | some i, some n => match parseUpds n rest with
      | some us =>
        let (s', rs) := applyBatch (st.get i) us
        (st.set i s', s!"ok {rs.length}" ++ String.join (rs.map (fun r => " " ++ resStr r)))
      | none => bad
    | _, _ => bad
  | ["msnap", a, b] => match a.toNat?, b.toNat? with
    | some a, some b => (st.set b (restoreSnapshot (st.get b) (st.get a)), "ok")
    | _, _ => bad
  | [op, i, k] => match i.toNat?, parseStr k with
    | some i, some k =>
      let s := st.get i
      match op with
      | "mget" => match s.get? k with
        | some p => (st, "ok " ++ pairStr p)
        | none => (st, "err notexist")
      | "mexists" => (st, "ok " ++ b2s (s.get? k).isSome)
      | "mall" => let ps := getAll s k; (st, s!"ok {ps.length}" ++ String.join (ps.map (fun p => " " ++ pairStr p)))
      | "mvals" => (st, strsStr (getAllValues s k))
      | "mlist" => (st, strsStr (list s k))
      | "mlistdir" => (st, strsStr (listDir s k))
      | _ => bad
    | _, _ => bad
  | _ => bad

/-! ### catalog mode: managers interleaved at store-call granularity -/

structure CSt where
  w : World := {}
  calls : List (Nat × Call) := []

def callStr : Call → String
  | .doneTable t => s!"done table {hs t.name} {t.clusterID} {t.recoverID}"
  | .doneOk => "done ok"
  | .doneBool b => s!"done bool {b2s b}"
  | .doneErr .tableExists => "done err exists"
  | .doneErr .tableNotFound => "done err notfound"
  | .doneErr .invalidName => "done err invalidname"
  | .doneErr .versionMismatch => "done err mismatch"
  | .doneErr .leaseNotAcquired => "done err notacquired"
  | _ => "parked"

def natList (l : List Nat) : String := "[" ++ " ".intercalate (l.map toString) ++ "]"

def sortNat (l : List Nat) : List Nat := l.mergeSort (fun a b => decide (a ≤ b))

partial def parseTabs : Nat → List String → Option (List Table × List String)
  | 0, ts => some ([], ts)
  | n + 1, c :: r :: ts => do
    let c ← c.toNat?; let r ← r.toNat?
    let (l, ts) ← parseTabs n ts
    pure (⟨"", c, r⟩ :: l, ts)
  | _, _ => none

/-- a call as the harness describes it; an invalid table name is refused before any store call -/
def parseCall : List String → Option Call
  | ["create", n] => (parseStr n).map (fun n => if validTableName n then Call.createStart n else .doneErr .invalidName)
  | ["delete", n] => (parseStr n).map (fun n => if validTableName n then Call.deleteStart n else .doneErr .invalidName)
  | ["restore", n] => (parseStr n).map (fun n => if validTableName n then Call.restoreStart n else .doneErr .invalidName)
  | ["lease", node, n, dur] => do
    let node ← node.toNat?; let n ← parseStr n; let dur ← dur.toInt?
    pure (Call.leaseStart node n dur)
  | ["return", node, n] => do
    let node ← node.toNat?; let n ← parseStr n
    pure (Call.returnStart node n)
  | _ => none

def cstep (st : CSt) (toks : List String) : CSt × String :=
  let bad := (st, "bad-op")
  match toks with
  | ["reset"] => ({}, "ok")
  | "call" :: id :: rest =>
    match id.toNat? with
    | none => bad
    | some id =>
      -- a call is registered parked before its first store call
      match parseCall rest with
      | some c => ({ st with calls := (id, c) :: st.calls }, callStr c)
      | none => bad
  | "runcall" :: rest =>
    -- a call of a single manager run to completion (mode catreal: the real engine, one call at a time)
    match parseCall rest with
    | some c =>
      let (w', c') := st.w.run c
      ({ st with w := w' }, callStr c')
    | none => bad
  | ["sched", id] =>
    match id.toNat?.bind (fun i => st.calls.find? (·.1 == i)) with
    | some (id, c) =>
      let (w', c') := st.w.step c
      ({ w := w', calls := (id, c') :: st.calls.filter (·.1 != id) }, callStr c')
    | none => bad
  | ["tables"] =>
    let ts := st.w.tables.mergeSort (fun a b => decide (a.name ≤ b.name))
    (st, s!"ok {ts.length}" ++ String.join (ts.map (fun t => s!" {hs t.name} {t.clusterID} {t.recoverID}")))
  | ["leaseof", n] =>
    match parseStr n with
    | some n => match st.w.store.get? (leaseKey n) with
      | some ⟨_, .lease l, _⟩ => (st, s!"ok {l.id} {b2s (decide (l.expires > st.w.now))}")
      | _ => (st, "ok none")
    | none => bad
  | "diff" :: nt :: rest =>
    match nt.toNat?.bind (fun n => parseTabs n rest) with
    | some (tabs, nr :: rest') =>
      match nr.toNat?, rest'.mapM String.toNat? with
      | some nr, some running =>
        if running.length ≠ nr then bad else
        let (start, stop) := diffTables tabs running
        (st, s!"ok start {natList (sortNat start)} stop {natList (sortNat stop)}")
      | _, _ => bad
    | _ => bad
  | _ => bad

end Regatta.Driver.MetaMode
