import Regatta.Driver.FsmMode
import Regatta.Driver.RestoreMode
namespace Regatta.Driver.ReplMode
open Regatta Regatta.Proto Regatta.Fsm Regatta.Driver.FsmMode

/-- one leader table as the model sees it: the store after every acknowledged write (ascending
revisions, the empty table first) and the last follower index observed -/
structure Tab where
  name : Bytes
  hist : Array (Nat × Db) := #[(0, [])]
  lastLi : Nat := 0
  /-- cluster3 mode: the last applied index observed per node (indices of different nodes are not
  comparable with each other) -/
  nodeLi : List (Nat × Nat) := []

/-- `<hex name>` or `<hex name>@<node>` -/
def parseNameNode (s : String) : Option (Bytes × Option Nat) :=
  match s.splitOn "@" with
  | [n] => (parseBytes n).map (·, none)
  | [n, k] => do pure (← parseBytes n, some (← k.toNat?))
  | _ => none

def Tab.last (t : Tab) (node : Option Nat) : Nat :=
  match node with
  | none => t.lastLi
  | some k => ((t.nodeLi.find? (·.1 == k)).map (·.2)).getD 0

def Tab.setLast (t : Tab) (node : Option Nat) (v : Nat) : Tab :=
  match node with
  | none => { t with lastLi := max t.lastLi v }
  | some k => { t with nodeLi := (k, max (t.last (some k)) v) :: t.nodeLi.filter (·.1 != k) }

structure St where
  tabs : List Tab := []

def St.get (st : St) (n : Bytes) : Option Tab := st.tabs.find? (·.name == n)
def St.put (st : St) (t : Tab) : St := { tabs := t :: st.tabs.filter (·.name != t.name) }

def userDigest (db : Db) : String :=
  match iteratorLookup db { key := [0], rangeEnd := some [0] } with
  | .ok chunks => RestoreMode.digestPairs (chunks.flatMap (fun c => c.kvs.map (fun kv => (kv.key, kv.value))))
  | .error _ => "model-read-error"

/-- the leader's states that are current at some index in `[l1, l2]`: the state of revision `r` is
current from `r` up to the next revision -/
def candidates (hist : Array (Nat × Db)) (l1 l2 : Nat) : List Db := Id.run do
  let mut out : List Db := []
  for i in [0:hist.size] do
    let (r, db) := hist[i]!
    let next := if i + 1 < hist.size then hist[i + 1]!.1 else l2 + 1
    if r ≤ l2 && l1 < next then out := db :: out
  return out

def hexNames (ts : List Tab) : String :=
  " ".intercalate ((ts.map (fun t => hx t.name)).toArray.qsort (· < ·)).toList

def step (st : St) (toks : List String) : St × String :=
  let bad := (st, "bad-op")
  match toks with
  | ["reset"] => ({}, "ok")
  | ["ltable", n] => match parseBytes n with
    | some n => (st.put { name := n }, "ok")
    | none => bad
  | ["ldrop", n] => match parseBytes n with
    | some n => ({ tabs := st.tabs.filter (·.name != n) }, "ok")
    | none => bad
  | "lop" :: n :: rest =>
    match parseBytes n, pEntry rest with
    | some n, some (e, []) => match st.get n with
      | some t =>
        let cur := (t.hist.back?.map (·.2)).getD []
        match update cur [e] with
        | .ok (db', _, _) => (st.put { t with hist := t.hist.push (e.index, db') }, "ok")
        | .error err => (st, errStr err)
      | none => bad
    | _, _ => bad
  | ["sample", n, l1, dg, l2] =>
    match parseNameNode n, l1.toNat?, l2.toNat? with
    | some (n, node), some l1, some l2 => match st.get n with
      | some t =>
        let st' := st.put (t.setLast node l2)
        if l1 < t.last node then (st', s!"bad leader-index-moved-backwards {t.last node}->{l1}")
        else if l2 < l1 then (st', "bad leader-index-moved-backwards-within-sample")
        else if (candidates t.hist l1 l2).any (fun db => userDigest db == dg) then (st', "ok")
        else (st', "bad content-is-not-the-leader's-at-any-index-between-the-two-index-reads")
      | none => bad
    | _, _, _ => bad
  | ["lin", n, dg, acked] =>
    -- a linearizable read: the content at an index at or beyond everything acknowledged before it started
    match parseBytes n, acked.toNat? with
    | some n, some acked => match st.get n with
      | some t =>
        let last := (t.hist.back?.map (·.1)).getD 0
        if (candidates t.hist acked (max acked last)).any (fun db => userDigest db == dg) then (st, "ok")
        else (st, "bad linearizable-read-misses-acknowledged-writes-or-shows-a-state-that-never-existed")
      | none => bad
    | _, _ => bad
  | ["terms"] => (st, "ok")
  | ["final", n, li, dg, lastRev] =>
    match parseNameNode n, li.toNat?, lastRev.toNat? with
    | some (n, node), some li, some lastRev => match st.get n with
      | some t =>
        let fin := (t.hist.back?.map (·.2)).getD []
        if li < lastRev then (st, "bad follower-did-not-reach-the-leader's-last-revision")
        else if li < t.last node then (st, "bad leader-index-moved-backwards")
        else if userDigest fin != dg then (st, "bad final-content-differs-from-the-leader's")
        else (st, "ok")
      | none => bad
    | _, _, _ => bad
  | "restore3" :: _ => (st, "ok")    -- Manager.Restore on a three-node cluster must succeed
  | ["restored", n, idx, dg, fresh] =>
    -- a table restored (on a cluster of several nodes) from a stream of table `n` taken at index `idx`:
    -- exactly the source's content at that index (C07), under an id above every id handed out before (C14)
    match parseNameNode n, idx.toNat? with
    | some (n, _), some idx => match st.get n with
      | some t =>
        if fresh != "1" then (st, "bad restored-table-reuses-an-id")
        else if (candidates t.hist idx idx).any (fun db => userDigest db == dg) then (st, "ok")
        else (st, "bad restored-content-is-not-the-source's-at-the-stream's-index")
      | none => bad
    | _, _ => bad
  | ["tables"] => (st, hexNames st.tabs)
  | ["kf", "K4", "recreate", _] => (st, "diverged || converged")
  | ["kf", "K3", "dynamic"] => (st, "diverged || converged")
  | ["kf", "K3", "worker.tableState"] => (st, "nonlinearizable || linearizable")
  | _ => bad

end Regatta.Driver.ReplMode
