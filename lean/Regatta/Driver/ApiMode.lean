import Regatta.Driver.Proto
import Regatta.Model.Api
namespace Regatta.Driver.ApiMode
open Regatta Regatta.Proto Regatta.Api

structure St where
  leader : List Bytes := []
  follower : List Bytes := []

def ans (c : Code) : String := if c = .ok then "0" else s!"{c.num} unchanged"

def pInt (s : String) : Option Int := s.toInt?

partial def pOps : Nat → List String → Option (List Op × List String)
  | 0, ts => some ([], ts)
  | n + 1, "r" :: k :: e :: ts => do
    let (os, ts) ← pOps n ts
    pure (.range (← k.toNat?) (← e.toNat?) :: os, ts)
  | n + 1, "p" :: k :: v :: ts => do
    let (os, ts) ← pOps n ts
    pure (.put (← k.toNat?) (← v.toNat?) :: os, ts)
  | n + 1, "d" :: k :: e :: ts => do
    let (os, ts) ← pOps n ts
    pure (.del (← k.toNat?) (← e.toNat?) :: os, ts)
  | n + 1, "n" :: ts => do
    let (os, ts) ← pOps n ts
    pure (.none :: os, ts)
  | _, _ => none

partial def pCmps : Nat → List String → Option (List Cmp × List String)
  | 0, ts => some ([], ts)
  | n + 1, k :: e :: ts => do
    let (cs, ts) ← pCmps n ts
    pure (⟨← k.toNat?, ← e.toNat?⟩ :: cs, ts)
  | _, _ => none

def pTxn (table : Bytes) (ts : List String) : Option TxnReq := do
  match ts with
  | nc :: ts =>
    let (cs, ts) ← pCmps (← nc.toNat?) ts
    match ts with
    | ns :: ts =>
      let (succ, ts) ← pOps (← ns.toNat?) ts
      match ts with
      | nf :: ts =>
        let (fail, ts) ← pOps (← nf.toNat?) ts
        if ts.isEmpty then pure ⟨table, cs, succ, fail⟩ else none
      | _ => none
    | _ => none
  | _ => none

def step (st : St) (toks : List String) : St × String :=
  let bad := (st, "bad-op")
  match toks with
  | ["start"] => ({}, "ok")
  | ["alive"] => (st, "ok")
  | ["fresh-table", _] => (st, "empty")
  | ["recreate-isolation", _] => (st, "others-unchanged")
  | ["follower-sync"] => ({ st with follower := st.leader }, "ok")
  | "req" :: s :: "txn" :: t :: rest =>
    match (parseBytes t).bind (fun t => pTxn t rest) with
    | some r => (st, ans (if s == "F" then followerTxn st.leader st.follower r else kvTxn st.leader r))
    | none => bad
  | ["req", s, m, t, k, e, lim, ko, co, mm, xm, mc, xc] =>
    if m != "range" && m != "iter" then bad else
    match parseBytes t, k.toNat?, e.toNat?, pInt lim, pInt mm, pInt xm, pInt mc, pInt xc with
    | some t, some k, some e, some lim, some mm, some xm, some mc, some xc =>
      let r : RangeReq := { table := t, klen := k, relen := e, limit := lim, keysOnly := ko == "1", countOnly := co == "1",
                            minMod := mm, maxMod := xm, minCreate := mc, maxCreate := xc }
      let tables := if s == "F" then st.follower else st.leader
      (st, ans (if m == "range" then kvRange tables r else kvIterate tables r))
    | _, _, _, _, _, _, _, _ => bad
  | ["req", _, "put", t, k, v] =>
    -- on the follower the write is forwarded: the leader decides
    match parseBytes t, k.toNat?, v.toNat? with
    | some t, some k, some v => (st, ans (kvPut st.leader ⟨t, k, v⟩))
    | _, _, _ => bad
  | ["req", _, "del", t, k, e] =>
    match parseBytes t, k.toNat?, e.toNat? with
    | some t, some k, some e => (st, ans (kvDelete st.leader ⟨t, k, e⟩))
    | _, _, _ => bad
  | ["req", s, "tcreate", n] =>
    match parseBytes n with
    | some n =>
      if s == "F" then (st, ans followerTablesMutation) else
      let (c, ts) := tablesCreate st.leader n
      ({ st with leader := ts }, ans c)
    | none => bad
  | ["req", s, "tdelete", n] =>
    match parseBytes n with
    | some n =>
      if s == "F" then (st, ans followerTablesMutation) else
      let (c, ts) := tablesDelete st.leader n
      ({ st with leader := ts }, ans c)
    | none => bad
  | ["raw", _, "put", what] =>
    -- the gRPC framework's decoding of the request bytes (trusted): what cannot be decoded never
    -- reaches a handler; unknown fields are ignored
    (st, match what with
      | "truncated" => ans .internal
      | "garbage" => ans .internal
      | "unknownfield" => ans (kvPut st.leader ⟨"t1".toUTF8.toList, 6, 8⟩)
      | _ => "bad-op")
  | _ => bad

end Regatta.Driver.ApiMode
