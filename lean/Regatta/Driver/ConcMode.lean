import Regatta.Driver.FsmMode
import Regatta.Model.History
/-
  conc mode of the driver (C10, concurrent client histories): the harness records a history of
  concurrent clients on a real cluster and writes

    cw <what> <inv> <resp> <entry…>            every acknowledged write, in revision order; the answer is
                                               the API response the model derives from the apply result
    cr <lin> <inv> <resp> <kind> <request…> :: <the answer the client got>
                                               every completed read, in return order; the driver looks for
                                               a log position whose state gives exactly this answer: for a
                                               linearizable read / read-only transaction the smallest one at
                                               or above every write and read that had returned before it
                                               started; for a default read any position; never a position
                                               at or above a write that was invoked after the read returned
    linearizable                               runs `History.checkHistory` - the check the theorem
                                               `c10_history_linearizable` is about - on the whole history
-/
namespace Regatta.Driver.ConcMode
open Regatta Regatta.Proto Regatta.Fsm Regatta.Driver.FsmMode Regatta.History

structure St where
  /-- `states[p]` = the store after the first `p` acknowledged writes -/
  states : Array Db := #[[]]
  log : Array (WEntry Unit Unit) := #[]
  reads : Array (ROp Unit Unit) := #[]

def St.db (st : St) : Db := st.states.back?.getD []

/-- the model's answer for a read on a store, in the harness's rendering -/
def answer (db : Db) (kind : String) (rest : List String) : Option String :=
  match kind with
  | "range" => match pRange rest with
    | some (r, []) =>
      if !rangeAccepted r then some "err other" else
      match lookup db r with
      | .ok resp => some ("ok " ++ rrStr resp)
      | .error e => some (errStr e)
    | _ => none
  | "iter" => match pRange rest with
    | some (r, []) =>
      if !rangeAccepted r then some "err other" else
      match iteratorLookup db r with
      | .ok chunks => some (chunksStr chunks)
      | .error e => some (errStr e)
    | _ => none
  | "txn" => match pTxn rest with
    | some ((c, s, f), []) =>
      if !txnAccepted c s f then some "err other" else
      match lookupTxn db c s f with
      | .ok (ok, rs) => some s!"ok {b2s ok} {respsStr rs}"
      | .error e => some (errStr e)
    | _ => none
  | _ => none

/-- first position in `lo … hi` (ascending) or `hi … lo` (descending) whose state gives the answer -/
def findPos (st : St) (kind : String) (req : List String) (want : String) (lo hi : Nat) (ascending : Bool) : Option Nat :=
  let cands := (List.range (hi + 1 - lo)).map (fun i => if ascending then lo + i else hi - i)
  cands.find? fun p => match st.states[p]? with
    | some db => answer db kind req == some want
    | none => false

def splitAt (sep : String) (l : List String) : List String × List String :=
  (l.takeWhile (· != sep), (l.dropWhile (· != sep)).drop 1)

def step (st : St) (toks : List String) : St × String :=
  let bad := (st, "bad-op")
  match toks with
  | ["reset"] => ({}, "ok")
  | "cw" :: what :: inv :: resp :: rest =>
    match inv.toNat?, resp.toNat?, pEntry rest with
    | some inv, some resp, some (e, []) =>
      match update st.db [e] with
      | .ok (db', rs, _) =>
        let body := match (rs.head?).bind (fun (r : Result) => r.data) with
          | some (_, ops) =>
            if what == "txn" then
              s!"{b2s ((rs.head?.map (fun (r : Result) => r.value)).getD 0 == resultSuccess)} {respsStr ops}"
            else (ops.head?.map respStr).getD "r?"
          | none => "r?"
        let rev := ((rs.head?).bind (fun (r : Result) => r.data)).map (·.1) |>.getD 0
        ({ st with states := st.states.push db',
                   log := st.log.push { pos := st.log.size + 1, cmd := (), inv := inv, resp := some resp, out := () } },
         s!"rev {rev} {body}")
      | .error err => (st, errStr err)
    | _, _, _ => bad
  | "cr" :: lin :: inv :: resp :: kind :: rest =>
    match inv.toNat?, resp.toNat? with
    | some inv, some resp =>
      let (req, ans) := splitAt "::" rest
      let want := " ".intercalate ans
      let n := st.log.size
      -- not beyond a write invoked after the read returned
      let hi := st.log.foldl (fun h e => if before (some resp) e.inv then min h (e.pos - 1) else h) n
      if lin == "1" then
        let lo := st.log.foldl (fun l e => if before e.resp inv then max l e.pos else l) 0
        let lo := st.reads.foldl (fun l r => if before (some r.resp) inv then max l r.seen else l) lo
        match findPos st kind req want lo hi true with
        | some p => ({ st with reads := st.reads.push { req := (), inv := inv, resp := resp, seen := p, out := () } }, "ok")
        | none =>
          let atLo := (st.states[lo]?.bind (fun db => answer db kind req)).getD "?"
          (st, s!"NO-STATE-EXPLAINS lo={lo} hi={hi} n={n} model-at-lo: {atLo}")
      else
        match findPos st kind req want 0 hi false with
        | some _ => (st, "ok")
        | none =>
          let atHi := (st.states[hi]?.bind (fun db => answer db kind req)).getD "?"
          (st, s!"NO-STATE-EXPLAINS lo=0 hi={hi} n={n} model-at-hi: {atHi}")
    | _, _ => bad
  | ["linearizable"] =>
    (st, if checkHistory st.log.toList st.reads.toList then "ok" else "HISTORY-FAILS-REAL-TIME-CHECK")
  | _ => bad

end Regatta.Driver.ConcMode
