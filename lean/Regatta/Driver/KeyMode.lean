import Regatta.Driver.Proto
import Regatta.Model.Key
namespace Regatta.Driver.KeyMode
open Regatta Regatta.Proto Regatta.Key

def errStr : Key.Err → String
  | .missingHeader => "err missingheader"
  | .malformedHeader => "err malformedheader"
  | .unknownVersion => "err unknownversion"
  | .missingType => "err missingtype"

def sgn (a b : Bytes) : Int := bytesCompare a b

def step (toks : List String) : String :=
  match toks with
  | ["sys"] => s!"ok {hx sysLocalIndex} {hx sysLeaderIndex} {hx maxUserKey} {hx Extracted.wildcard}"
  | ["enc", t, k] =>
    match t.toNat?, parseBytes k with
    | some t, some k => "ok " ++ hx (encode (UInt8.ofNat t) k)
    | _, _ => "bad-op"
  | ["decb", raw] =>
    match parseBytes raw with
    | some raw => match decodeBytes raw with
      | .ok (t, k) => s!"ok {t.toNat} {hx k}"
      | .error e => errStr e
    | none => "bad-op"
  | ["decs", raw] =>
    match parseBytes raw with
    | some raw => match decodeStream raw with
      | .ok (t, k) => s!"ok {t.toNat} {hx k}"
      | .error e => errStr e
    | none => "bad-op"
  | ["bounds", lo, hi] =>
    match parseBytes lo, parseBytes hi with
    | some lo, some hi => let (l, h) := bounds lo hi; s!"ok {hx l} {hx h}"
    | _, _ => "bad-op"
  | ["inc", b] =>
    match parseBytes b with
    | some b => "ok " ++ hx (incrementRightmostByte b)
    | none => "bad-op"
  | ["cmp", a, b] =>
    match parseBytes a, parseBytes b with
    | some a, some b =>
      let ea := encodeUser a
      let eb := encodeUser b
      s!"ok {sgn ea eb} {sgn a b} {sgn ea wildcardBound} {sgn ea sysLocalIndex} {sgn ea sysLeaderIndex}"
    | _, _ => "bad-op"
  | _ => "bad-op"

end Regatta.Driver.KeyMode
