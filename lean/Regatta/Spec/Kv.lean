import Regatta.Model.Fsm
/-
  The specification the table properties talk about: a plain sorted map from non-empty user keys to
  values that applies the commands one after another, plus the two indices.  No key encoding, no
  bookkeeping keys, no batch, no indexing, no error cases.  Responses have the shape of the API
  messages (`RangeResp`, `RespOp` — shared with the model, they are data, not behaviour); paging of
  a range answer (`iterLoop`, the limit/size chunking) is shared as well and has its own theorems
  in Props/C09.
-/
namespace Regatta.Spec
open Regatta Regatta.Fsm

/-- the sorted map: user key ↦ value -/
abbrev UMap := List (Bytes × Val)

/-- `[lo, hi)` in user-key space; `hi = \0` (the wildcard) means "no upper bound" -/
def inRange (lo hi k : Bytes) : Bool := bytesLe lo k && (hi == Extracted.wildcard || bytesLt k hi)

def rangePairs (m : UMap) (lo hi : Bytes) : UMap := m.filter (fun p => inRange lo hi p.1)
def eraseRange (m : UMap) (lo hi : Bytes) : UMap := m.filter (fun p => !inRange lo hi p.1)

/-- single-key read -/
def single (m : UMap) (r : RangeReq) : RangeResp :=
  match SMap.get? r.key m with
  | none => {}
  | some v =>
    { kvs := if r.countOnly then [] else [⟨r.key, if r.keysOnly || r.countOnly then ByteArray.empty else v⟩],
      more := false, count := 1 }

/-- range read, as the list of messages of the stream -/
def iterate (m : UMap) (r : RangeReq) : List RangeResp :=
  let ps := rangePairs m r.key (r.rangeEnd.getD [])
  if ps.isEmpty then [{}] else iterLoop (fillKind r) r.limit ps 0 {}

def rangeLookup (m : UMap) (r : RangeReq) : RangeResp := (iterate m r).headD {}

def lookup (m : UMap) (r : RangeReq) : RangeResp :=
  if r.rangeEnd.isSome then rangeLookup m r else single m r

/-- put: previous pair (if asked for and present), then overwrite -/
def put (m : UMap) (k : Bytes) (v : Val) (prevKv : Bool) : UMap × Option KV :=
  (SMap.set k v m, if prevKv then (SMap.get? k m).map (fun old => ⟨k, old⟩) else none)

/-- delete of one key or of `[k, hi)`: what the answer reports, then the removal -/
def delete (m : UMap) (k : Bytes) (rangeEnd : Option Bytes) (prevKv count : Bool) : UMap × Nat × List KV :=
  match rangeEnd with
  | some hi =>
    let rep := if prevKv || count then
        let rng := rangeLookup m { key := k, rangeEnd := some hi, countOnly := count && !prevKv }
        (rng.count, rng.kvs)
      else (0, [])
    (eraseRange m k hi, rep)
  | none =>
    let rep := if prevKv || count then
        let rng := single m { key := k, countOnly := count && !prevKv }
        (rng.count, rng.kvs)
      else (0, [])
    (SMap.erase k m, rep)

def compare1 (m : UMap) (c : Compare) : Bool :=
  match c.rangeEnd with
  | some hi =>
    let r := rangePairs m c.key hi
    !r.isEmpty && r.all (fun p => txnCompareSingle c p.2)
  | none =>
    match SMap.get? c.key m with
    | none => false
    | some v => txnCompareSingle c v

def compare (m : UMap) (cs : List Compare) : Bool := cs.all (compare1 m)

/-- the operations of a transaction branch, in order, each seeing the earlier ones -/
def txnOps (m : UMap) : List ReqOp → UMap × List RespOp
  | [] => (m, [])
  | .range r :: rest => let (m', rs) := txnOps m rest; (m', .range (lookup m r) :: rs)
  | .put k v pk :: rest =>
    let (m1, prev) := put m k v pk
    let (m', rs) := txnOps m1 rest
    (m', .put prev :: rs)
  | .del k e pk cnt :: rest =>
    let (m1, d, ps) := delete m k e pk cnt
    let (m', rs) := txnOps m1 rest
    (m', .del d ps :: rs)
  | .none :: rest => txnOps m rest

/-- if/then/else -/
def txn (m : UMap) (cmp : List Compare) (succ fail : List ReqOp) : UMap × Bool × List RespOp :=
  let ok := compare m cmp
  let (m', rs) := txnOps m (if ok then succ else fail)
  (m', ok, rs)

mutual
/-- one command: new map, result value, responses.  (A PUT_BATCH pair with an empty key — the restore
path produces one from the terminating DUMMY of a leader snapshot stream, observation O1 — is
invisible: the map holds non-empty keys only.) -/
def step (m : UMap) : Cmd → UMap × Nat × List RespOp
  | .put k v pk => let (m', prev) := put m k v pk; (m', resultSuccess, [.put prev])
  | .del k e pk cnt => let (m', d, ps) := delete m k e pk cnt; (m', resultSuccess, [.del d ps])
  | .putBatch kvs => ((kvs.filter (fun p => !p.1.isEmpty)).foldl (fun m p => SMap.set p.1 p.2 m) m, resultSuccess, kvs.map (fun _ => .put none))
  | .delBatch ks => (ks.foldl (fun m k => SMap.erase k m) m, resultSuccess, ks.map (fun _ => .del 0 []))
  | .txn cmp s f => let (m', ok, rs) := txn m cmp s f; (m', if ok then resultSuccess else resultFailure, rs)
  | .seq cmds => let (m', rs) := stepSeq m cmds; (m', resultSuccess, rs)
  | .dummy => (m, resultSuccess, [])
def stepSeq (m : UMap) : List Cmd → UMap × List RespOp
  | [] => (m, [])
  | c :: rest =>
    let (m1, _, rs1) := step m c
    let (m', rs) := stepSeq m1 rest
    (m', rs1 ++ rs)
end

/-- the table as the properties see it -/
structure Table where
  kv : UMap := []
  applied : Nat := 0
  leader : Nat := 0

/-- applying one log entry: the command, then the bookkeeping -/
def applyEntry (t : Table) (e : Entry) : Table × Result :=
  let (m', value, rs) := step t.kv e.cmd
  ({ kv := m', applied := e.index, leader := e.leaderIndex.getD t.leader },
   ⟨value, if e.cmd.isTxn || !rs.isEmpty then some (e.index, rs) else none⟩)

/-- applying a log (any number of entries), one after another -/
def applyLog (t : Table) : List Entry → Table × List Result
  | [] => (t, [])
  | e :: rest =>
    let (t1, r) := applyEntry t e
    let (t', rs) := applyLog t1 rest
    (t', r :: rs)

end Regatta.Spec
