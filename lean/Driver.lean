import Regatta.Driver.Proto
import Regatta.Driver.KeyMode
import Regatta.Driver.ViewMode
import Regatta.Driver.FsmMode
import Regatta.Driver.LogMode
import Regatta.Driver.MetaMode
import Regatta.Driver.QueueMode
import Regatta.Driver.WireMode
import Regatta.Driver.RestoreMode
import Regatta.Driver.CrashMode
import Regatta.Driver.ApiMode
import Regatta.Driver.AuthMode
import Regatta.Driver.ReplMode
import Regatta.Driver.GmsgMode
import Regatta.Driver.ConcMode
/-
  Model driver: one operation per input line, one answer per output line.
  usage: driver <mode> < ops.txt > model.txt
-/
open Regatta Regatta.Proto

partial def loop {σ : Type} (h : IO.FS.Stream) (out : IO.FS.Stream) (step : σ → List String → σ × String) (s : σ) : IO Unit := do
  let line ← h.getLine
  if line.isEmpty then return ()
  let line := (line.dropEndWhile (fun c => c = '\n' || c = '\r')).toString
  let (s', ans) := step s (tokens line)
  out.putStrLn ans
  loop h out step s'

def main (args : List String) : IO UInt32 := do
  let stdin ← IO.getStdin
  let stdout ← IO.getStdout
  match args with
  | ["key"] => loop stdin stdout (fun (_ : Unit) t => ((), Driver.KeyMode.step t)) ()
  | ["view"] => loop stdin stdout Driver.ViewMode.step ({} : Driver.ViewMode.St)
  | ["fsm"] => loop stdin stdout Driver.FsmMode.step ({} : Driver.FsmMode.St)
  | ["log"] => loop stdin stdout Driver.LogMode.step ({} : Driver.LogMode.St)
  | ["meta"] => loop stdin stdout Driver.MetaMode.step ([] : Driver.MetaMode.St)
  | ["catalog"] => loop stdin stdout Driver.MetaMode.cstep ({} : Driver.MetaMode.CSt)
  | ["queue"] => loop stdin stdout Driver.QueueMode.step ({} : Driver.QueueMode.St)
  | ["heap"] => loop stdin stdout Driver.QueueMode.hstep ([] : Queue.Heap)
  | ["wire"] => loop stdin stdout Driver.WireMode.step []
  | ["gmsg"] => loop stdin stdout Driver.GmsgMode.step ()
  | ["repl"] => loop stdin stdout Driver.ReplMode.step ({} : Driver.ReplMode.St)
  | ["conc"] => loop stdin stdout Driver.ConcMode.step ({} : Driver.ConcMode.St)
  | ["auth"] => loop stdin stdout Driver.AuthMode.step ({} : Driver.AuthMode.St)
  | ["api"] => loop stdin stdout Driver.ApiMode.step ({} : Driver.ApiMode.St)
  | ["crash"] => loop stdin stdout Driver.CrashMode.step ({} : Driver.CrashMode.St)
  | ["restore"] => loop stdin stdout Driver.RestoreMode.step ()
  | _ => IO.eprintln "usage: driver <mode>"; return 2
  stdout.flush
  return 0
