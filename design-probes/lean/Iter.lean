namespace I

variable {P : Type}

structure Chunk (P : Type) where
  kvs : List P
  more : Bool
deriving Repr

/-- the loop of `iterate` positioned on a valid pair `p` with `rest` behind it.
    `i` = pairs filled so far, `resp` = chunk under construction (pairs in order). -/
def loop (limit maxSize : Nat) (sz : P → Nat) (rsz : List P → Nat) : Nat → List P → List P → List (Chunk P)
  | _, resp, [] => [⟨resp, false⟩]        -- unreachable from `iterate` (kept total)
  | i, resp, p :: rest =>
    if i = limit ∧ limit ≠ 0 then [⟨resp, true⟩]          -- after fix D1 (`More = true`)
    else
      let cut := rsz resp + sz p ≥ maxSize
      let out : List (Chunk P) := if cut then [⟨resp, true⟩] else []
      let resp' := (if cut then [] else resp) ++ [p]
      match rest with
      | [] => out ++ [⟨resp', false⟩]
      | q :: rest' => out ++ loop limit maxSize sz rsz (i + 1) resp' (q :: rest')

def iterate (limit maxSize : Nat) (sz : P → Nat) (rsz : List P → Nat) (ps : List P) : List (Chunk P) :=
  match ps with
  | [] => [⟨[], false⟩]
  | _ => loop limit maxSize sz rsz 0 [] ps

def pairsOf (cs : List (Chunk P)) : List P := cs.flatMap (·.kvs)

theorem loop_pairs (limit maxSize : Nat) (sz : P → Nat) (rsz : List P → Nat)
    (ps : List P) (hps : ps ≠ []) :
    ∀ (i : Nat) (resp : List P), (limit = 0 ∨ i ≤ limit) →
    pairsOf (loop limit maxSize sz rsz i resp ps) =
      resp ++ (if limit = 0 then ps else ps.take (limit - i)) := by
  induction ps with
  | nil => exact absurd rfl hps
  | cons p rest ih =>
    intro i resp hi
    unfold loop
    by_cases hl : i = limit ∧ limit ≠ 0
    · simp only [hl, and_self, if_true]
      obtain ⟨h1, h2⟩ := hl
      subst h1
      simp [pairsOf, h2]
    · simp only [hl, if_false]
      cases rest with
      | nil =>
        by_cases hc : rsz resp + sz p ≥ maxSize
        · by_cases h0 : limit = 0
          · simp [pairsOf, hc, h0]
          · have : limit - i ≥ 1 := by
              rcases hi with h | h
              · exact absurd h h0
              · have : i ≠ limit := fun e => hl ⟨e, h0⟩
                omega
            have e : List.take (limit - i) [p] = [p] := by
              rw [List.take_of_length_le]; simpa using this
            simp [pairsOf, hc, h0, e]
        · by_cases h0 : limit = 0
          · simp [pairsOf, hc, h0]
          · have : limit - i ≥ 1 := by
              rcases hi with h | h
              · exact absurd h h0
              · have : i ≠ limit := fun e => hl ⟨e, h0⟩
                omega
            have e : List.take (limit - i) [p] = [p] := by
              rw [List.take_of_length_le]; simpa using this
            simp [pairsOf, hc, h0, e]
      | cons q rest' =>
        have ih' := ih (by simp) (i + 1)
        by_cases h0 : limit = 0
        · by_cases hc : rsz resp + sz p ≥ maxSize
          · have := ih' ([] ++ [p]) (Or.inl h0)
            simp only [pairsOf] at this ⊢
            simp [hc, h0, this] at *
            try simp [this]
          · have := ih' (resp ++ [p]) (Or.inl h0)
            simp only [pairsOf] at this ⊢
            simp [hc, h0, this] at *
            try simp [this]
        · have hlt : i < limit := by
            rcases hi with h | h
            · exact absurd h h0
            · have : i ≠ limit := fun e => hl ⟨e, h0⟩
              omega
          have e : limit - i = (limit - (i + 1)) + 1 := by omega
          by_cases hc : rsz resp + sz p ≥ maxSize
          · have := ih' ([] ++ [p]) (Or.inr (by omega))
            simp only [pairsOf] at this ⊢
            simp [hc, h0, this, e, List.take_succ_cons] at *
            try simp [this]
          · have := ih' (resp ++ [p]) (Or.inr (by omega))
            simp only [pairsOf] at this ⊢
            simp [hc, h0, this, e, List.take_succ_cons] at *
            try simp [this]

end I
