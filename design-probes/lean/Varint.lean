namespace W

abbrev Bytes := List UInt8

def encVarint (n : Nat) : Bytes :=
  if h : n < 128 then [n.toUInt8] else (n % 128 + 128).toUInt8 :: encVarint (n / 128)
termination_by n
decreasing_by omega

/-- decode: returns value and rest; `shift` counts 7-bit groups consumed so far -/
def decVarint : Bytes → Option (Nat × Bytes)
  | [] => none
  | b :: rest =>
    if b.toNat < 128 then some (b.toNat, rest)
    else match decVarint rest with
      | none => none
      | some (v, r) => some (b.toNat - 128 + 128 * v, r)

theorem toUInt8_toNat_lt (n : Nat) (h : n < 256) : n.toUInt8.toNat = n := by
  simp [Nat.toUInt8, UInt8.toNat_ofNat, Nat.mod_eq_of_lt h]

theorem dec_enc (n : Nat) (rest : Bytes) : decVarint (encVarint n ++ rest) = some (n, rest) := by
  induction n using Nat.strongRecOn with
  | _ n ih =>
    unfold encVarint
    split
    · rename_i h
      simp [decVarint, toUInt8_toNat_lt n (by omega), h]
    · rename_i h
      have h1 : (n % 128 + 128).toUInt8.toNat = n % 128 + 128 := toUInt8_toNat_lt _ (by omega)
      simp only [List.cons_append, decVarint, h1]
      have : ¬ (n % 128 + 128 < 128) := by omega
      simp only [this, if_false]
      rw [ih (n / 128) (by omega)]
      simp
      omega

/-- 8-byte little endian length prefix framing -/
def le64 (n : Nat) : Bytes := (List.range 8).map (fun i => (n / 256 ^ i % 256).toUInt8)

def frames (ms : List Bytes) : Bytes := ms.flatMap (fun m => le64 m.length ++ m)

end W
