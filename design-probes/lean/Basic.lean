namespace P

class LinOrd (κ : Type) where
  lt : κ → κ → Bool
  irrefl : ∀ a, lt a a = false
  trans : ∀ a b c, lt a b = true → lt b c = true → lt a c = true
  tri : ∀ a b, lt a b = true ∨ a = b ∨ lt b a = true

open LinOrd

set_option linter.unusedSectionVars false

variable {κ ν : Type} [LinOrd κ] [DecidableEq κ]

def set (k : κ) (v : ν) : List (κ × ν) → List (κ × ν)
  | [] => [(k, v)]
  | (k', v') :: t =>
    if lt k k' then (k, v) :: (k', v') :: t
    else if lt k' k then (k', v') :: set k v t
    else (k, v) :: t

def get? (k : κ) : List (κ × ν) → Option ν
  | [] => none
  | (k', v') :: t => if k = k' then some v' else get? k t

def Sorted (s : List (κ × ν)) : Prop := s.Pairwise (fun a b => lt a.1 b.1 = true)

theorem asymm (a b : κ) (h : lt a b = true) : lt b a = false := by
  cases hb : lt b a with
  | false => rfl
  | true => have := trans a b a h hb; rw [irrefl] at this; cases this

theorem lt_ne (a b : κ) (h : lt a b = true) : a ≠ b := by
  intro e; subst e; rw [irrefl] at h; cases h

theorem set_keys_ge (k : κ) (v : ν) (lo : κ) (s : List (κ × ν))
    (hs : ∀ p ∈ s, lt lo p.1 = true) (hk : lt lo k = true) : ∀ p ∈ set k v s, lt lo p.1 = true := by
  induction s with
  | nil => intro p hp; simp [set] at hp; subst hp; exact hk
  | cons hd t ih =>
    obtain ⟨k', v'⟩ := hd
    intro p hp
    simp only [set] at hp
    split at hp
    · simp at hp; rcases hp with rfl | rfl | h
      · exact hk
      · exact hs _ (by simp)
      · exact hs _ (by simp [h])
    · split at hp
      · simp at hp; rcases hp with rfl | h
        · exact hs _ (by simp)
        · exact ih (fun q hq => hs q (by simp [hq])) p h
      · simp at hp; rcases hp with rfl | h
        · exact hk
        · exact hs _ (by simp [h])

theorem sorted_set (k : κ) (v : ν) (s : List (κ × ν)) (h : Sorted s) : Sorted (set k v s) := by
  induction s with
  | nil => simp [set, Sorted]
  | cons hd t ih =>
    obtain ⟨k', v'⟩ := hd
    unfold Sorted at h ⊢
    rw [List.pairwise_cons] at h
    obtain ⟨h1, h2⟩ := h
    simp only [set]
    split
    · rename_i hlt
      rw [List.pairwise_cons]
      refine ⟨?_, List.pairwise_cons.mpr ⟨h1, h2⟩⟩
      intro p hp
      simp at hp
      rcases hp with rfl | hp
      · exact hlt
      · exact trans _ _ _ hlt (h1 p hp)
    · split
      · rename_i _ hlt
        rw [List.pairwise_cons]
        exact ⟨set_keys_ge k v k' t h1 hlt, ih h2⟩
      · rename_i h3 h4
        have : k = k' := by
          rcases tri k k' with h | h | h
          · simp [h] at h3
          · exact h
          · simp [h] at h4
        subst this
        rw [List.pairwise_cons]
        exact ⟨h1, h2⟩

theorem get_set (k k' : κ) (v : ν) (s : List (κ × ν)) (h : Sorted s) :
    get? k' (set k v s) = if k' = k then some v else get? k' s := by
  induction s with
  | nil => simp [set, get?]
  | cons hd t ih =>
    obtain ⟨k0, v0⟩ := hd
    unfold Sorted at h
    rw [List.pairwise_cons] at h
    obtain ⟨h1, h2⟩ := h
    simp only [set]
    split
    · simp [get?]
    · split
      · rename_i _ hlt
        simp only [get?]
        by_cases e : k' = k0
        · subst e
          have : k' ≠ k := lt_ne _ _ hlt
          simp [this]
        · simp [e, ih h2]
      · rename_i h3 h4
        have : k = k0 := by
          rcases tri k k0 with h | h | h
          · simp [h] at h3
          · exact h
          · simp [h] at h4
        subst this
        simp only [get?]
        by_cases e : k' = k <;> simp [e]

variable {κ' : Type} [LinOrd κ'] [DecidableEq κ']

def absMap (dec : κ → Option κ') (s : List (κ × ν)) : List (κ' × ν) :=
  s.filterMap (fun p => (dec p.1).map (fun k => (k, p.2)))

theorem abs_set_enc (enc : κ' → κ) (dec : κ → Option κ')
    (hde : ∀ a, dec (enc a) = some a)
    (hed : ∀ x a, dec x = some a → x = enc a)
    (hmono : ∀ a b, lt (enc a) (enc b) = lt a b)
    (k : κ') (v : ν) (s : List (κ × ν)) (hs : Sorted s)
    (habove : ∀ p ∈ s, dec p.1 = none → ∀ a, lt (enc a) p.1 = true) :
    absMap dec (set (enc k) v s) = set k v (absMap dec s) := by
  induction s with
  | nil => simp [set, absMap, hde]
  | cons hd t ih =>
    obtain ⟨x, w⟩ := hd
    unfold Sorted at hs
    rw [List.pairwise_cons] at hs
    obtain ⟨h1, h2⟩ := hs
    have iht := ih h2 (fun p hp => habove p (by simp [hp]))
    simp only [set]
    cases hx : dec x with
    | none =>
      have hab := habove (x, w) (by simp) hx
      have h3 : lt (enc k) x = true := hab k
      simp only [h3, if_true]
      have hnone : ∀ p ∈ t, dec p.1 = none := by
        intro p hp
        cases hp' : dec p.1 with
        | none => rfl
        | some a =>
          have e := hed _ _ hp'
          have l1 := h1 p hp
          have l2 := hab a
          rw [← e] at l2
          have l3 := asymm _ _ l1
          simp at l1 l3
          rw [l2] at l3; cases l3
      have hnil : absMap dec t = [] := by
        unfold absMap
        rw [List.filterMap_eq_nil_iff]
        intro p hp
        simp [hnone p hp]
      have e1 : absMap dec ((x, w) :: t) = [] := by
        simp only [absMap, List.filterMap_cons, hx, Option.map_none] at hnil ⊢
        exact hnil
      have e2 : absMap dec ((enc k, v) :: (x, w) :: t) = [(k, v)] := by
        simp only [absMap, List.filterMap_cons, hx, hde, Option.map_none, Option.map_some] at hnil ⊢
        rw [hnil]
      rw [e1, e2]
      simp [set]
    | some a =>
      have e := hed _ _ hx
      subst e
      rw [hmono, hmono]
      split
      · simp [absMap, hde, set, *]
      · split
        · simp only [absMap, List.filterMap_cons, hde, Option.map_some] at iht ⊢
          simp [set, *]
        · simp only [absMap, List.filterMap_cons, hde, Option.map_some]
          simp [set, *]

end P
