namespace V

structure SV where
  replicas : List (Nat × String)
  cci : Nat
  leader : Nat
  term : Nat
deriving DecidableEq, Repr

def merge (c u : SV) : SV :=
  let c1 := if c.cci < u.cci then { c with replicas := u.replicas, cci := u.cci } else c
  if u.leader ≠ 0 then
    if c1.leader = 0 ∨ u.term > c1.term then { c1 with leader := u.leader, term := u.term } else c1
  else c1

def init : SV := ⟨[], 0, 0, 0⟩

def view (us : List SV) (s : SV := init) : SV := us.foldl merge s

/-- invariant of views built from `init`: no leader ⇒ term 0 -/
def Inv (s : SV) : Prop := s.leader = 0 → s.term = 0

theorem inv_init : Inv init := by intro _; rfl

theorem inv_merge (c u : SV) (h : Inv c) : Inv (merge c u) := by
  unfold Inv merge at *
  simp only
  split <;> split <;> (try split) <;> simp_all

theorem merge_idem (c u : SV) : merge (merge c u) u = merge c u := by
  unfold merge
  simp only
  split <;> split <;> (try split) <;> simp_all <;> omega

theorem term_mono (c u : SV) (h : Inv c) : c.term ≤ (merge c u).term := by
  unfold merge Inv at *
  simp only
  split <;> split <;> (try split) <;> simp_all <;> omega

/-- two updates are consistent if they do not contradict Raft's guarantees -/
def Cons (a b : SV) : Prop :=
  (a.leader ≠ 0 → b.leader ≠ 0 → a.term = b.term → a.leader = b.leader) ∧
  (a.cci = b.cci → a.replicas = b.replicas)

/-- the two halves of the record evolve independently -/
def mem (c : SV) : List (Nat × String) × Nat := (c.replicas, c.cci)
def lead (c : SV) : Nat × Nat := (c.leader, c.term)

def mergeMem (c u : List (Nat × String) × Nat) : List (Nat × String) × Nat :=
  if c.2 < u.2 then u else c
def mergeLead (c u : Nat × Nat) : Nat × Nat :=
  if u.1 ≠ 0 then (if c.1 = 0 ∨ u.2 > c.2 then u else c) else c

theorem mem_merge (c u : SV) : mem (merge c u) = mergeMem (mem c) (mem u) := by
  unfold merge mem mergeMem
  simp only
  split <;> split <;> (try split) <;> simp_all

theorem lead_merge (c u : SV) : lead (merge c u) = mergeLead (lead c) (lead u) := by
  unfold merge lead mergeLead
  simp only
  split <;> split <;> (try split) <;> simp_all

theorem sv_ext (a b : SV) (h1 : mem a = mem b) (h2 : lead a = lead b) : a = b := by
  rcases a with ⟨ar, ac, al, at'⟩
  rcases b with ⟨br, bc, bl, bt⟩
  simp [mem, lead] at h1 h2
  simp [h1, h2]

theorem mergeMem_comm (c a b : List (Nat × String) × Nat) (h : a.2 = b.2 → a.1 = b.1) :
    mergeMem (mergeMem c a) b = mergeMem (mergeMem c b) a := by
  rcases c with ⟨cr, cc⟩; rcases a with ⟨ar, ac⟩; rcases b with ⟨br, bc⟩
  unfold mergeMem
  simp only at *
  by_cases e1 : cc < ac <;> by_cases e2 : cc < bc <;> simp only [e1, e2, if_true, if_false]
  · by_cases e3 : ac < bc
    · have : ¬ bc < ac := by omega
      simp [e3, this]
    · by_cases e4 : bc < ac
      · simp [e3, e4]
      · have e : ac = bc := by omega
        simp [e3, e4, h e, e]
  · have : ¬ ac < bc := by omega
    simp [this, e1]
  · have : ¬ bc < ac := by omega
    simp [this, e2]

theorem mergeLead_comm (c a b : Nat × Nat) (hc : c.1 = 0 → c.2 = 0)
    (h : a.1 ≠ 0 → b.1 ≠ 0 → a.2 = b.2 → a.1 = b.1)
    (ha : a.1 ≠ 0 → 0 < a.2) (hb : b.1 ≠ 0 → 0 < b.2) :
    mergeLead (mergeLead c a) b = mergeLead (mergeLead c b) a := by
  rcases c with ⟨cl, ct⟩; rcases a with ⟨al, at'⟩; rcases b with ⟨bl, bt⟩
  unfold mergeLead
  simp only at *
  by_cases l1 : al = 0
  · subst l1; simp
  by_cases l2 : bl = 0
  · subst l2; simp
  have ha' := ha l1
  have hb' := hb l2
  have h' := h l1 l2
  simp only [ne_eq, l1, l2, not_false_eq_true, if_true]
  by_cases l3 : cl = 0
  · have := hc l3; subst l3; subst this
    simp only [true_or, if_true, l1, l2, false_or]
    by_cases t3 : at' < bt
    · have : ¬ bt < at' := by omega
      simp [t3, this]
    · by_cases t4 : bt < at'
      · simp [t3, t4]
      · have e : at' = bt := by omega
        simp [t3, t4, h' e, e]
  · simp only [l3, false_or]
    by_cases t1 : ct < at' <;> by_cases t2 : ct < bt <;> simp only [t1, t2, if_true, if_false, l1, l2, l3, false_or]
    · by_cases t3 : at' < bt
      · have : ¬ bt < at' := by omega
        simp [t3, this]
      · by_cases t4 : bt < at'
        · simp [t3, t4]
        · have e : at' = bt := by omega
          simp [t3, t4, h' e, e]
    · have : ¬ at' < bt := by omega
      simp [this, t1]
    · have : ¬ bt < at' := by omega
      simp [this, t2]

theorem merge_comm (c a b : SV) (h : Inv c) (hab : Cons a b)
    (ha : a.leader ≠ 0 → 0 < a.term) (hb : b.leader ≠ 0 → 0 < b.term) :
    merge (merge c a) b = merge (merge c b) a := by
  apply sv_ext
  · rw [mem_merge, mem_merge, mem_merge, mem_merge]
    exact mergeMem_comm _ _ _ hab.2
  · rw [lead_merge, lead_merge, lead_merge, lead_merge]
    exact mergeLead_comm _ _ _ h hab.1 ha hb

end V
