namespace H

def get (l : List Nat) (i : Nat) : Nat := l.getD i 0

def swap (l : List Nat) (i j : Nat) : List Nat :=
  (l.set i (get l j)).set j (get l i)

theorem length_swap (l : List Nat) (i j : Nat) : (swap l i j).length = l.length := by
  simp [swap]

theorem get_swap (l : List Nat) (i j k : Nat) (hi : i < l.length) (hj : j < l.length) :
    get (swap l i j) k = if k = j then get l i else if k = i then get l j else get l k := by
  unfold swap get
  by_cases e1 : k = j
  · subst e1
    simp [List.getD_eq_getElem?_getD, List.getElem?_set, hi, hj]
  · by_cases e2 : k = i
    · subst e2
      have : ¬ j = k := fun h => e1 h.symm
      simp [List.getD_eq_getElem?_getD, List.getElem?_set, hi, hj, e1, this]
    · have h1 : ¬ j = k := fun h => e1 h.symm
      have h2 : ¬ i = k := fun h => e2 h.symm
      simp [List.getD_eq_getElem?_getD, List.getElem?_set, e1, e2, h1, h2]

def parent (k : Nat) : Nat := (k - 1) / 2

/-- sift up, as in util/heap `up` -/
def up (l : List Nat) (j : Nat) : List Nat :=
  if h : j = 0 then l else
  if get l j < get l (parent j) then up (swap l (parent j) j) (parent j) else l
termination_by j
decreasing_by unfold parent; omega

def Heap (l : List Nat) : Prop := ∀ k, 0 < k → k < l.length → get l (parent k) ≤ get l k

/-- heap everywhere except possibly between `j` and its parent; children of `j` already dominate `j`'s parent -/
def HeapExceptUp (l : List Nat) (j : Nat) : Prop :=
  (∀ k, 0 < k → k < l.length → k ≠ j → get l (parent k) ≤ get l k) ∧
  (∀ c, 0 < c → c < l.length → parent c = j → 0 < j → get l (parent j) ≤ get l c)

theorem length_up (l : List Nat) (j : Nat) : (up l j).length = l.length := by
  induction j using Nat.strongRecOn generalizing l with
  | _ j ih =>
    unfold up
    split
    · rfl
    · split
      · rw [ih (parent j) (by unfold parent; omega)]
        exact length_swap _ _ _
      · rfl

theorem up_heap (l : List Nat) (j : Nat) (hj : j < l.length) (h : HeapExceptUp l j) : Heap (up l j) := by
  induction j using Nat.strongRecOn generalizing l with
  | _ j ih =>
    obtain ⟨h1, h2⟩ := h
    unfold up
    split
    · rename_i h0
      subst h0
      intro k hk hkl
      exact h1 k hk hkl (by omega)
    · rename_i h0
      have hpj : parent j < j := by unfold parent; omega
      have hpl : parent j < l.length := by omega
      split
      · rename_i hlt
        apply ih (parent j) hpj (swap l (parent j) j) (by rw [length_swap]; exact hpl)
        constructor
        · intro k hk hkl hne
          rw [length_swap] at hkl
          rw [get_swap _ _ _ _ hpl hj, get_swap _ _ _ _ hpl hj]
          by_cases e1 : k = j
          · subst e1
            have : parent k ≠ k := by omega
            simp [this]
            omega
          · simp only [e1, if_false, hne, if_false]
            by_cases e2 : parent k = j
            · simp only [e2, if_true]
              have := h2 k hk hkl e2 (by omega)
              exact this
            · simp only [e2, if_false]
              by_cases e3 : parent k = parent j
              · simp only [e3, if_true]
                have := h1 k hk hkl e1
                rw [e3] at this
                omega
              · simp only [e3, if_false]
                exact h1 k hk hkl e1
        · intro c hc hcl hpc hp0
          rw [length_swap] at hcl
          rw [get_swap _ _ _ _ hpl hj, get_swap _ _ _ _ hpl hj]
          have hpp : parent (parent j) ≠ j := by unfold parent at *; omega
          have hpp2 : parent (parent j) ≠ parent j := by unfold parent at *; omega
          simp only [hpp, if_false, hpp2]
          by_cases e1 : c = j
          · simp only [e1, if_true]
            have := h1 (parent j) hp0 hpl (by omega)
            exact this
          · simp only [e1, if_false]
            have e2 : c ≠ parent j := by
              intro e; rw [e] at hpc; unfold parent at *; omega
            simp only [e2, if_false]
            have a := h1 c hc hcl e1
            rw [hpc] at a
            have b := h1 (parent j) hp0 hpl (by omega)
            omega
      · rename_i hge
        intro k hk hkl
        by_cases e : k = j
        · subst e; omega
        · exact h1 k hk hkl e

end H
