package main

import (
	"bufio"
	"encoding/hex"
	"encoding/json"
	"fmt"
	"github.com/jamf/regatta/regattapb"
	"hash/fnv"
	"math/rand"
	"os"
	"sort"
	"strconv"
	"strings"
	"sync"
)

// Out writes the operation stream (ops.txt = the replay) and the implementation's answers
// (impl.txt), one answer line per op line, flushed per line.
type Out struct {
	ops, impl *bufio.Writer
	fo, fi    *os.File
	n         int
	Stats     map[string]int
	Samples   []string
	dir       string
	mu        sync.Mutex // Line, Count and Add may be called from several goroutines
}

func NewOut(dir string) *Out {
	must(os.MkdirAll(dir, 0o755))
	fo, err := os.Create(dir + "/ops.txt")
	must(err)
	fi, err := os.Create(dir + "/impl.txt")
	must(err)
	return &Out{ops: bufio.NewWriterSize(fo, 1<<20), impl: bufio.NewWriterSize(fi, 1<<20), fo: fo, fi: fi, Stats: map[string]int{}, dir: dir}
}

// Line records one operation and the implementation's answer to it.
func (o *Out) Line(op, ans string) {
	o.mu.Lock()
	defer o.mu.Unlock()
	if strings.ContainsAny(op, "\n\r") || strings.ContainsAny(ans, "\n\r") {
		panic("newline in protocol line")
	}
	o.ops.WriteString(op)
	o.ops.WriteByte('\n')
	o.impl.WriteString(ans)
	o.impl.WriteByte('\n')
	o.n++
	if len(o.Samples) < 6 && o.n%97 == 5 {
		s := op + " => " + ans
		if len(s) > 400 {
			s = s[:400] + "..."
		}
		o.Samples = append(o.Samples, s)
	}
}

func (o *Out) Count(k string) { o.Add(k, 1) }

func (o *Out) Add(k string, n int) {
	o.mu.Lock()
	o.Stats[k] += n
	o.mu.Unlock()
}

func (o *Out) Close() {
	must(o.ops.Flush())
	must(o.impl.Flush())
	o.fo.Close()
	o.fi.Close()
	st := map[string]any{"lines": o.n, "stats": o.Stats, "samples": o.Samples}
	b, _ := json.MarshalIndent(st, "", " ")
	must(os.WriteFile(o.dir+"/stats.json", b, 0o644))
}

func must(err error) {
	if err != nil {
		panic(err)
	}
}

// hx renders bytes: "-" nil, "e" present but empty, otherwise '+'-joined segments, each lowercase
// hex or r<hh>x<n> for a run of n > 8 equal bytes.
func hx(b []byte) string {
	if b == nil {
		return "-"
	}
	if len(b) == 0 {
		return "e"
	}
	var sb strings.Builder
	lit := 0 // start of pending literal
	flush := func(to int) {
		if to > lit {
			if sb.Len() > 0 {
				sb.WriteByte('+')
			}
			sb.WriteString(hex.EncodeToString(b[lit:to]))
		}
	}
	for i := 0; i < len(b); {
		j := i
		for j < len(b) && b[j] == b[i] {
			j++
		}
		if j-i > 8 {
			flush(i)
			if sb.Len() > 0 {
				sb.WriteByte('+')
			}
			fmt.Fprintf(&sb, "r%02xx%d", b[i], j-i)
			lit = j
		}
		i = j
	}
	flush(len(b))
	return sb.String()
}

// hxv renders a value in an answer: short ones in hex, long ones as <len>:<fnv64>.
func hxv(b []byte) string {
	if len(b) == 0 {
		return "e"
	}
	if len(b) <= 64 {
		return hex.EncodeToString(b)
	}
	h := fnv.New64a()
	h.Write(b)
	return fmt.Sprintf("%d:%d", len(b), h.Sum64())
}

func unhx(s string) []byte {
	switch s {
	case "-":
		return nil
	case "e":
		return []byte{}
	}
	out := []byte{}
	for _, seg := range strings.Split(s, "+") {
		if seg[0] == 'r' {
			i := strings.IndexByte(seg, 'x')
			b, err := hex.DecodeString(seg[1:i])
			must(err)
			n, err := strconv.Atoi(seg[i+1:])
			must(err)
			for j := 0; j < n; j++ {
				out = append(out, b[0])
			}
			continue
		}
		b, err := hex.DecodeString(seg)
		must(err)
		out = append(out, b...)
	}
	return out
}

// rep renders n copies of byte c in the compact form understood by both sides.
func rep(c byte, n int) string { return fmt.Sprintf("r%02xx%d", c, n) }

func b2i(b bool) string {
	if b {
		return "1"
	}
	return "0"
}

func seedFromEnv() int64 {
	s := os.Getenv("VERIF_SEED")
	if s == "" {
		return 1
	}
	n, err := strconv.ParseInt(s, 10, 64)
	if err != nil {
		return 1
	}
	return n
}

func envInt(name string, def int) int {
	s := os.Getenv(name)
	if s == "" {
		return def
	}
	n, err := strconv.Atoi(s)
	if err != nil {
		return def
	}
	return n
}

func newRand(salt int64) *rand.Rand { return rand.New(rand.NewSource(seedFromEnv()*1000003 + salt)) }

func sortedKeys(m map[string]int) []string {
	ks := make([]string, 0, len(m))
	for k := range m {
		ks = append(ks, k)
	}
	sort.Strings(ks)
	return ks
}

// hxn renders bytes without distinguishing nil from empty.
func hxn(b []byte) string {
	if len(b) == 0 {
		return "e"
	}
	return hx(b)
}

// txnIsReadonly: every operation of both branches is a range read.  The harness's OWN classification (what
// the model calls readonly), not regattapb's TxnRequest.IsReadonly, which is part of the code under test.
func txnIsReadonly(rq *regattapb.TxnRequest) bool {
	for _, ops := range [][]*regattapb.RequestOp{rq.Success, rq.Failure} {
		for _, op := range ops {
			if _, ok := op.Request.(*regattapb.RequestOp_RequestRange); !ok {
				return false
			}
		}
	}
	return true
}
