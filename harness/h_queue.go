package main

import (
	"context"
	"errors"
	"fmt"
	"math/rand"
	"strings"
	"sync"
	"time"

	"github.com/jamf/regatta/regattapb"
	"github.com/jamf/regatta/regattaserver"
	"github.com/jamf/regatta/storage"
	"github.com/jamf/regatta/util/heap"
	"google.golang.org/grpc"
)

// stubLeader is the leader cluster's KV client as the forwarding server sees it: every write is
// acknowledged with the revision the script chose.
type stubLeader struct{ regattapb.KVClient }

func revOf(ctx context.Context) uint64 { return ctx.Value(revKey{}).(uint64) }

type revKey struct{}

func (stubLeader) Put(ctx context.Context, _ *regattapb.PutRequest, _ ...grpc.CallOption) (*regattapb.PutResponse, error) {
	return &regattapb.PutResponse{Header: &regattapb.ResponseHeader{Revision: revOf(ctx)}}, nil
}

func (stubLeader) DeleteRange(ctx context.Context, _ *regattapb.DeleteRangeRequest, _ ...grpc.CallOption) (*regattapb.DeleteRangeResponse, error) {
	return &regattapb.DeleteRangeResponse{Header: &regattapb.ResponseHeader{Revision: revOf(ctx)}}, nil
}

func (stubLeader) Txn(ctx context.Context, _ *regattapb.TxnRequest, _ ...grpc.CallOption) (*regattapb.TxnResponse, error) {
	return &regattapb.TxnResponse{Header: &regattapb.ResponseHeader{Revision: revOf(ctx)}}, nil
}

func init() {
	modes["queue"] = hQueue
	modes["heap"] = hHeap
}

// ---------------------------------------------------------------- util/heap directly

type hitem struct{ id, rev int }

func hslice(h *heap.Heap[*hitem]) string {
	var sb strings.Builder
	fmt.Fprintf(&sb, "ok %d", len(h.Slice))
	for _, it := range h.Slice {
		fmt.Fprintf(&sb, " %d:%d", it.id, it.rev)
	}
	return sb.String()
}

// hHeap: random Push / Pop / Remove / Fix / New sequences on the real generic heap; the whole
// backing slice is compared after every operation.
func hHeap(dir string) {
	out := NewOut(dir)
	defer out.Close()
	n := envInt("VERIF_N", 3000)
	less := func(a, b *hitem) bool { return a.rev < b.rev }
	for sc := 0; sc < n; sc++ {
		r := newRand(int64(11000 + sc))
		out.Line("reset", "ok")
		nextID := 0
		mk := func() *hitem { nextID++; return &hitem{id: nextID, rev: r.Intn(12)} }
		var items []*hitem
		var sb strings.Builder
		k := r.Intn(10)
		for i := 0; i < k; i++ {
			it := mk()
			items = append(items, it)
			fmt.Fprintf(&sb, " %d:%d", it.id, it.rev)
		}
		h := heap.New(less, items...)
		out.Line(fmt.Sprintf("hnew %d%s", k, sb.String()), hslice(h))
		for step := 0; step < 12+r.Intn(12); step++ {
			switch x := r.Intn(10); {
			case x < 4:
				it := mk()
				h.Push(it)
				out.Line(fmt.Sprintf("hpush %d:%d", it.id, it.rev), hslice(h))
				out.Count("push")
			case x < 6:
				if h.Len() == 0 {
					continue
				}
				it := h.Pop()
				out.Line("hpop", fmt.Sprintf("%s popped %d:%d", hslice(h), it.id, it.rev))
				out.Count("pop")
			case x < 8:
				if h.Len() == 0 {
					continue
				}
				i := r.Intn(h.Len())
				it := h.Remove(i)
				out.Line(fmt.Sprintf("hremove %d", i), fmt.Sprintf("%s popped %d:%d", hslice(h), it.id, it.rev))
				out.Count("remove")
			default:
				if h.Len() == 0 {
					continue
				}
				i := r.Intn(h.Len())
				nr := r.Intn(12)
				h.Slice[i].rev = nr
				h.Fix(i)
				out.Line(fmt.Sprintf("hfix %d %d", i, nr), hslice(h))
				out.Count("fix")
			}
		}
	}
}

// ---------------------------------------------------------------- the notification queue in real time

type qRun struct {
	ops, ans []string
	discard  bool
	stats    map[string]int
}

func ctxKind(err error) string {
	switch {
	case errors.Is(err, context.Canceled):
		return "canceled"
	case errors.Is(err, context.DeadlineExceeded):
		return "deadline"
	}
	return "other"
}

// guarded runs f on its own goroutine; a call that does not return within 3 s counts as blocked
// (the event loop of the queue is wedged).
func guarded(f func()) bool {
	done := make(chan struct{})
	go func() { f(); close(done) }()
	select {
	case <-done:
		return true
	case <-time.After(3 * time.Second):
		return false
	}
}

func runQueueScript(seed int64) qRun {
	r := rand.New(rand.NewSource(seed))
	res := qRun{stats: map[string]int{}}
	line := func(op, ans string) { res.ops = append(res.ops, op); res.ans = append(res.ans, ans) }
	q := storage.NewNotificationQueue()
	go q.Run()
	defer q.Close()
	chans := map[int]<-chan error{}
	fwd := regattaserver.NewForwardingKVServer(nil, stubLeader{}, q)
	forwarded := map[int]bool{}
	// addWaiter registers waiter w either directly with the queue or through a write call of the real
	// ForwardingKVServer (which must return exactly when and what the queue answers)
	addWaiter := func(w int, c context.Context, t string, rev uint64) func() {
		if r.Intn(2) == 0 {
			return func() { chans[w] = q.Add(c, t, rev); q.Len("__sync") }
		}
		forwarded[w] = true
		kind := r.Intn(3)
		return func() {
			before := q.Len(t)
			ch := make(chan error, 1)
			chans[w] = ch
			go func() {
				cc := context.WithValue(c, revKey{}, rev)
				var err error
				switch kind {
				case 0:
					_, err = fwd.Put(cc, &regattapb.PutRequest{Table: []byte(t), Key: []byte("k")})
				case 1:
					_, err = fwd.DeleteRange(cc, &regattapb.DeleteRangeRequest{Table: []byte(t), Key: []byte("k")})
				default:
					_, err = fwd.Txn(cc, &regattapb.TxnRequest{Table: []byte(t), Success: []*regattapb.RequestOp{{Request: &regattapb.RequestOp_RequestPut{RequestPut: &regattapb.RequestOp_Put{Key: []byte("k")}}}}})
				}
				if err == nil {
					close(ch)
				} else {
					ch <- err
				}
			}()
			for i := 0; i < 2000 && q.Len(t) != before+1; i++ {
				time.Sleep(time.Millisecond)
			}
		}
	}
	settle := func(w int) {
		if forwarded[w] {
			time.Sleep(5 * time.Millisecond) // let the forwarding call return after the queue answered it
		}
	}
	segStart := time.Now()
	type wctx struct {
		ctx    context.Context
		cancel context.CancelFunc
	}
	ctxs := map[int]*wctx{}
	tables := []string{"t1", "t2"}
	nextW, nextC := 0, 0
	blocked := false
	newCtx := func() int {
		nextC++
		if r.Intn(6) == 0 {
			c, cancel := context.WithDeadline(context.Background(), time.Now().Add(-time.Second))
			ctxs[nextC] = &wctx{c, cancel}
			line(fmt.Sprintf("ctx %d deadline", nextC), "ok")
		} else {
			c, cancel := context.WithCancel(context.Background())
			ctxs[nextC] = &wctx{c, cancel}
			line(fmt.Sprintf("ctx %d live", nextC), "ok")
		}
		return nextC
	}
	sweeps := 0
	doSweep := func() {
		// wait for the next real sweep: a sentinel waiter with an ended context on a private table is
		// only ever answered by the sweep; a following Len is a rendezvous with the loop, so the sweep
		// iteration has finished when it returns.
		sweeps++
		sctx, cancel := context.WithCancel(context.Background())
		cancel()
		ok := guarded(func() {
			ch := q.Add(sctx, fmt.Sprintf("__sentinel%d", sweeps), 1)
			<-ch
			q.Len(fmt.Sprintf("__sentinel%d", sweeps))
		})
		if !ok {
			blocked = true
			line("sweep", "blocked")
			return
		}
		line("sweep", "ok")
		res.stats["sweep"]++
		segStart = time.Now()
	}
	checkSeg := func() {
		if time.Since(segStart) > 600*time.Millisecond {
			res.discard = true
		}
	}
	nEvents := 10 + r.Intn(16)
	dense := r.Intn(2) == 0
	if dense {
		// a deep heap on one table: many waiters in random revision order, a few of them cancelled,
		// then (below) sweeps and notifications stepping upwards, looking at every channel in between
		nw := 6 + r.Intn(9)
		for i := 0; i < nw && !blocked; i++ {
			nextW++
			w := nextW
			c := newCtx()
			rev := uint64(r.Intn(30))
			if !guarded(addWaiter(w, ctxs[c].ctx, "t1", rev)) {
				blocked = true
				line(fmt.Sprintf("add %d t1 %d %d", w, rev, c), "blocked")
				break
			}
			line(fmt.Sprintf("add %d t1 %d %d", w, rev, c), "ok")
			res.stats["add"]++
		}
		for i := 0; i < 1+r.Intn(3); i++ {
			c := 1 + r.Intn(len(ctxs))
			ctxs[c].cancel()
			line(fmt.Sprintf("cancel %d", c), "ok")
			res.stats["cancel"]++
		}
		nEvents = 0
		level := uint64(0)
		for round := 0; round < 5 && !blocked && !res.discard; round++ {
			if r.Intn(2) == 0 || round == 0 {
				checkSeg()
				if res.discard {
					break
				}
				doSweep()
			}
			level += uint64(1 + r.Intn(8))
			lv := level
			if !guarded(func() { q.Notify("t1", lv); q.Len("__sync") }) {
				blocked = true
				line(fmt.Sprintf("notify t1 %d", lv), "blocked")
				break
			}
			line(fmt.Sprintf("notify t1 %d", lv), "ok")
			res.stats["notify"]++
			for w := 1; w <= nextW; w++ {
				settle(w)
				select {
				case err, open := <-chans[w]:
					if !open {
						line(fmt.Sprintf("recv %d", w), "ok closed")
					} else {
						line(fmt.Sprintf("recv %d", w), "ok err "+ctxKind(err))
					}
				default:
					line(fmt.Sprintf("recv %d", w), "ok none")
				}
			}
			if r.Intn(3) == 0 {
				c := 1 + r.Intn(len(ctxs))
				ctxs[c].cancel()
				line(fmt.Sprintf("cancel %d", c), "ok")
			}
			checkSeg()
		}
		res.stats["dense"]++
	}
	for ev := 0; ev < nEvents && !blocked && !res.discard; ev++ {
		switch x := r.Intn(20); {
		case x < 7: // add
			nextW++
			w := nextW
			c := 0
			if len(ctxs) > 0 && r.Intn(3) == 0 {
				c = 1 + r.Intn(len(ctxs)) // shared context
			} else {
				c = newCtx()
			}
			t := tables[r.Intn(2)]
			rev := uint64(r.Intn(9))
			ok := guarded(addWaiter(w, ctxs[c].ctx, t, rev))
			if !ok {
				blocked = true
				line(fmt.Sprintf("add %d %s %d %d", w, t, rev, c), "blocked")
				break
			}
			line(fmt.Sprintf("add %d %s %d %d", w, t, rev, c), "ok")
			res.stats["add"]++
		case x < 10: // cancel
			if len(ctxs) == 0 {
				continue
			}
			c := 1 + r.Intn(len(ctxs))
			ctxs[c].cancel()
			line(fmt.Sprintf("cancel %d", c), "ok")
			res.stats["cancel"]++
		case x < 14: // notify
			t := tables[r.Intn(2)]
			n := uint64(r.Intn(9))
			// Notify returns once the loop goroutine has taken the message; the following Len is a
			// rendezvous after which the notification has been processed (otherwise a cancel issued
			// next would race with it)
			ok := guarded(func() { q.Notify(t, n); q.Len("__sync") })
			if !ok {
				blocked = true
				line(fmt.Sprintf("notify %s %d", t, n), "blocked")
				break
			}
			line(fmt.Sprintf("notify %s %d", t, n), "ok")
			res.stats["notify"]++
		case x < 16: // sweep
			checkSeg()
			if res.discard {
				break
			}
			doSweep()
		case x < 18: // len
			t := tables[r.Intn(2)]
			var l int
			ok := guarded(func() { l = q.Len(t) })
			if !ok {
				blocked = true
				line("len "+t, "blocked")
				break
			}
			line("len "+t, fmt.Sprintf("ok %d", l))
		default: // the caller looks at its channel
			if nextW == 0 {
				continue
			}
			w := 1 + r.Intn(nextW)
			// Notify / Add return as soon as the loop goroutine has taken the message; a Len is a
			// rendezvous after which everything sent before has been processed
			if !guarded(func() { q.Len("__sync") }) {
				blocked = true
				line(fmt.Sprintf("recv %d", w), "blocked")
				break
			}
			settle(w)
			select {
			case err, open := <-chans[w]:
				if !open {
					line(fmt.Sprintf("recv %d", w), "ok closed")
				} else {
					line(fmt.Sprintf("recv %d", w), "ok err "+ctxKind(err))
				}
			default:
				line(fmt.Sprintf("recv %d", w), "ok none")
			}
		}
		checkSeg()
	}
	if !blocked && !res.discard {
		// two more sweeps (the unrepaired sweep needed three to wedge), then look at everything
		for i := 0; i < 2 && !blocked; i++ {
			doSweep()
		}
		for w := 1; w <= nextW && !blocked; w++ {
			settle(w)
			select {
			case err, open := <-chans[w]:
				if !open {
					line(fmt.Sprintf("recv %d", w), "ok closed")
				} else {
					line(fmt.Sprintf("recv %d", w), "ok err "+ctxKind(err))
				}
			default:
				line(fmt.Sprintf("recv %d", w), "ok none")
			}
		}
		for _, t := range tables {
			var l int
			if guarded(func() { l = q.Len(t) }) {
				line("len "+t, fmt.Sprintf("ok %d", l))
			} else {
				line("len "+t, "blocked")
				blocked = true
			}
		}
	}
	if !blocked && !res.discard && seed%7 == 0 {
		// known finding K5: a waiter added after the notification that covers it is not answered
		// (until its deadline): Notify(t, 5) then Add(t, 5)
		kctx, kcancel := context.WithCancel(context.Background())
		var kch <-chan error
		if guarded(func() { q.Notify("k5", 5); q.Len("__sync"); kch = q.Add(kctx, "k5", 5); q.Len("__sync") }) {
			line("notify k5 5", "ok")
			line("ctx 9999 live", "ok")
			line("add 9999 k5 5 9999", "ok")
			select {
			case _, open := <-kch:
				if !open {
					line("kf K5 recv 9999", "ok closed")
				} else {
					line("kf K5 recv 9999", "ok err other")
				}
			default:
				line("kf K5 recv 9999", "ok none")
			}
		}
		kcancel()
	}
	for _, c := range ctxs {
		c.cancel()
	}
	if blocked {
		res.stats["blocked"]++
	}
	return res
}

// hQueue: generated event scripts against the real queue, in real time; scripts are idle most of the
// time (waiting for the one-second sweep), so many run concurrently.
func hQueue(dir string) {
	out := NewOut(dir)
	defer out.Close()
	n := envInt("VERIF_N", 300)
	results := make([]qRun, n)
	sem := make(chan struct{}, 150)
	var wg sync.WaitGroup
	for i := 0; i < n; i++ {
		wg.Add(1)
		go func(i int) {
			defer wg.Done()
			sem <- struct{}{}
			defer func() { <-sem }()
			for attempt := 0; attempt < 4; attempt++ {
				results[i] = runQueueScript(seedFromEnv()*1000003 + int64(15000+i))
				if !results[i].discard {
					return
				}
			}
		}(i)
	}
	wg.Wait()
	for i := range results {
		if results[i].discard {
			out.Count("discarded_for_timing")
			continue
		}
		out.Line("reset", "ok")
		for j := range results[i].ops {
			out.Line(results[i].ops[j], results[i].ans[j])
		}
		for k, v := range results[i].stats {
			out.Stats[k] += v
		}
	}
}
