package main

import (
	"bytes"
	"fmt"
	"math/rand"

	"github.com/jamf/regatta/storage/table/fsm"
	"github.com/jamf/regatta/storage/table/key"
)

func init() { modes["key"] = hKey }

// keyPool: keys chosen to collide, nest and hit the 0x00 / 0xFF / maximal-length edges.
func keyPool(r *rand.Rand) [][]byte {
	ff := func(n int) []byte { return bytes.Repeat([]byte{0xff}, n) }
	pool := [][]byte{
		{0}, {0xff}, {0, 0}, {0x61}, {0x61, 0}, {0x61, 0xff}, {0x61, 0x62}, {0xff, 0xff}, {1}, {2}, {0, 1}, {1, 0},
		ff(1018), ff(1019), ff(1020), ff(1024), append(ff(1018), 0xfe), append(ff(1019), 0),
		bytes.Repeat([]byte{0}, 1019), bytes.Repeat([]byte{0}, 1024),
	}
	for i := 0; i < 12; i++ {
		n := 1 + r.Intn(6)
		b := make([]byte, n)
		for j := range b {
			switch r.Intn(4) {
			case 0:
				b[j] = 0
			case 1:
				b[j] = 0xff
			default:
				b[j] = byte(r.Intn(256))
			}
		}
		pool = append(pool, b)
	}
	return pool
}

func keyErr(err error) string {
	switch err {
	case key.ErrMissingKeyHeader:
		return "err missingheader"
	case key.ErrMalformedKeyHeader:
		return "err malformedheader"
	case key.ErrUnknownKeyVersion:
		return "err unknownversion"
	case key.ErrMissingKeyType:
		return "err missingtype"
	}
	return "err other"
}

func hKey(dir string) {
	out := NewOut(dir)
	defer out.Close()
	r := newRand(12)
	n := envInt("VERIF_N", 4000)
	out.Line("sys", fmt.Sprintf("ok %s %s %s %s", hxn(fsm.VerifSysLocalIndex()), hxn(fsm.VerifSysLeaderIndex()), hxn(fsm.VerifMaxUserKey()), hxn(fsm.VerifWildcard())))
	pool := keyPool(r)
	pick := func() []byte {
		if r.Intn(10) == 0 {
			b := make([]byte, r.Intn(40))
			r.Read(b)
			return b
		}
		return pool[r.Intn(len(pool))]
	}
	for i := 0; i < n; i++ {
		switch r.Intn(8) {
		case 0: // encode with any type
			k := pick()
			t := byte(r.Intn(4))
			var buf bytes.Buffer
			_, err := key.NewEncoder(&buf).Encode(&key.Key{KeyType: key.Type(t), Key: k})
			ans := "ok " + hxn(buf.Bytes())
			if err != nil {
				ans = keyErr(err)
			}
			out.Line(fmt.Sprintf("enc %d %s", t, hxn(append([]byte{}, k...))), ans)
			out.Count("enc")
		case 1, 2: // DecodeBytes on an encoding or on junk
			var raw []byte
			if r.Intn(3) > 0 {
				var buf bytes.Buffer
				key.NewEncoder(&buf).Encode(&key.Key{KeyType: key.Type(r.Intn(3)), Key: pick()})
				raw = buf.Bytes()
				if r.Intn(5) == 0 && len(raw) > 0 {
					raw = raw[:r.Intn(len(raw)+1)]
				}
				if r.Intn(8) == 0 && len(raw) > 0 {
					raw[r.Intn(min(len(raw), 5))] = byte(r.Intn(3))
				}
			} else {
				raw = make([]byte, r.Intn(9))
				for j := range raw {
					raw[j] = byte(r.Intn(3))
				}
			}
			op := "decb"
			var k key.Key
			var err error
			if r.Intn(2) == 0 {
				k, err = key.DecodeBytes(raw)
			} else {
				op = "decs"
				err = key.NewDecoder(bytes.NewReader(raw)).Decode(&k)
			}
			ans := fmt.Sprintf("ok %d %s", k.KeyType, hxn(append([]byte{}, k.Key...)))
			if err != nil {
				ans = keyErr(err)
				out.Count(op + "_err")
			} else {
				out.Count(op + "_ok")
			}
			out.Line(op+" "+hxn(append([]byte{}, raw...)), ans)
		case 3: // bounds
			lo, hi := pick(), pick()
			if r.Intn(3) == 0 {
				hi = []byte{0}
			}
			l, h, err := fsm.VerifIterBounds(lo, hi)
			ans := "ok " + hxn(l) + " " + hxn(h)
			if err != nil {
				ans = "err other"
			}
			out.Line("bounds "+hxn(append([]byte{}, lo...))+" "+hxn(append([]byte{}, hi...)), ans)
			out.Count("bounds")
		case 4: // increment
			var b []byte
			switch r.Intn(4) {
			case 0:
				b = bytes.Repeat([]byte{0xff}, r.Intn(5))
			case 1:
				b = fsm.VerifMaxUserKey()
			default:
				b = pick()
			}
			out.Line("inc "+hxn(append([]byte{}, b...)), "ok "+hxn(fsm.VerifIncrementRightmostByte(b)))
			out.Count("inc")
		default: // order of two encoded user keys and their position relative to the wildcard bound and system keys
			a, b := pick(), pick()
			if len(a) == 0 {
				a = []byte{0}
			}
			if len(b) == 0 {
				b = []byte{0}
			}
			ea, _ := fsm.VerifEncodeUserKey(a)
			eb, _ := fsm.VerifEncodeUserKey(b)
			_, wb, _ := fsm.VerifIterBounds([]byte{0}, []byte{0})
			out.Line("cmp "+hxn(a)+" "+hxn(b), fmt.Sprintf("ok %d %d %d %d %d", bytes.Compare(ea, eb), bytes.Compare(a, b), bytes.Compare(ea, wb), bytes.Compare(ea, fsm.VerifSysLocalIndex()), bytes.Compare(ea, fsm.VerifSysLeaderIndex())))
			out.Count("cmp")
			if bytes.Compare(a, b) == 0 {
				out.Count("cmp_equal")
			}
		}
	}
}
