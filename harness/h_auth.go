//go:build verif

package main

// Mode auth (C17): (1) real leader and follower processes started with --tables.token and
// --maintenance.token; every method of Tables and Maintenance (unary, server-streaming,
// client-streaming) and of KV / Cluster is called with ~20 shapes of the `authorization` metadata;
// Unauthenticated must coincide with the model's decision and an unauthenticated call must have no
// effect.  (2) real TLS handshakes against security.TLSInfo.ServerConfig() for the option
// combinations x client certificates of two CAs, self-signed, CN and SAN variants.

import (
	"context"
	"crypto/ecdsa"
	"crypto/elliptic"
	crand "crypto/rand"
	"crypto/tls"
	"crypto/x509"
	"crypto/x509/pkix"
	"encoding/pem"
	"fmt"
	"io"
	"math/big"
	"net"
	"os"
	"path/filepath"
	"strings"
	"time"

	"github.com/jamf/regatta/regattapb"
	"github.com/jamf/regatta/security"
	"google.golang.org/grpc"
	"google.golang.org/grpc/codes"
	"google.golang.org/grpc/credentials"
	"google.golang.org/grpc/metadata"
	"google.golang.org/grpc/status"
)

func init() {
	modes["auth"] = hAuth
}

// the configured tokens of the current round (the thorough tier runs several sets)
var (
	tabTok = "tabl3s-Secret"
	mntTok = "m41ntenance.Secret"
)

func mdCtx(values []string) (context.Context, context.CancelFunc) {
	ctx, cancel := context.WithTimeout(context.Background(), 15*time.Second)
	var kv []string
	for _, v := range values {
		kv = append(kv, "authorization", v)
	}
	if len(kv) > 0 {
		ctx = metadata.AppendToOutgoingContext(ctx, kv...)
	}
	return ctx, cancel
}

func variants(right, other string) [][]string {
	if right == "" {
		right = "x" // nothing is configured: every shape must pass
	}
	up := strings.ToUpper(right)
	return [][]string{
		nil, {""}, {"Bearer " + right}, {"bearer " + right}, {"BEARER " + right}, {"BeArEr " + right},
		{"Bearer " + right[:len(right)-1]}, {"Bearer " + right + "x"}, {"Bearer " + up}, {"Bearer " + strings.ToLower(right)},
		{"Bearer " + other}, {"Basic " + right}, {"Bearer  " + right}, {right}, {"Bearer" + right}, {"Bearer " + right + " "},
		{"Bearer wrong", "Bearer " + right}, {"Bearer " + right, "Bearer wrong"}, {"Bearer"}, {" Bearer " + right}, {"Bearer "},
		{"Token " + right},
	}
}

func renderValues(vs []string) string {
	var sb strings.Builder
	fmt.Fprintf(&sb, "%d", len(vs))
	for _, v := range vs {
		sb.WriteString(" " + hx([]byte(v)))
	}
	return sb.String()
}

type authEnv struct {
	out      *Out
	leader   *proc
	follower *proc
}

func (e *authEnv) listed(p *proc, name string) bool {
	ctx, cancel := mdCtx([]string{"Bearer " + tabTok})
	defer cancel()
	l, err := regattapb.NewTablesClient(p.conn).List(ctx, &regattapb.ListTablesRequest{})
	if err != nil {
		return false
	}
	for _, t := range l.Tables {
		if t.Name == name {
			return true
		}
	}
	return false
}

func (e *authEnv) content(p *proc, table string) string {
	ctx, cancel := mdCtx(nil)
	defer cancel()
	st, err := regattapb.NewKVClient(p.conn).IterateRange(ctx, &regattapb.RangeRequest{Table: []byte(table), Key: []byte{0}, RangeEnd: []byte{0}, Linearizable: true})
	if err != nil {
		return "err"
	}
	var ps []pair
	for {
		r, err := st.Recv()
		if err == io.EOF {
			break
		}
		if err != nil {
			return "err " + status.Code(err).String()
		}
		for _, kv := range r.Kvs {
			ps = append(ps, pair{kv.Key, kv.Value})
		}
	}
	return pairsDigest(ps)
}

func (e *authEnv) one(s string, p *proc, svc, method string, vs []string, i int) {
	ctx, cancel := mdCtx(vs)
	defer cancel()
	var err error
	effect := ""
	switch svc + "." + method {
	case "tables.create":
		name := fmt.Sprintf("zz%s%d", strings.ToLower(s), i)
		_, err = regattapb.NewTablesClient(p.conn).Create(ctx, &regattapb.CreateTableRequest{Name: name})
		if status.Code(err) == codes.Unauthenticated {
			effect = " noeffect"
			if e.listed(p, name) {
				effect = " EFFECT"
			}
		} else if err == nil {
			c2, cancel2 := mdCtx([]string{"Bearer " + tabTok})
			_, _ = regattapb.NewTablesClient(p.conn).Delete(c2, &regattapb.DeleteTableRequest{Name: name})
			cancel2()
		}
	case "tables.delete":
		_, err = regattapb.NewTablesClient(p.conn).Delete(ctx, &regattapb.DeleteTableRequest{Name: "keep"})
		if status.Code(err) == codes.Unauthenticated {
			effect = " noeffect"
			if !e.listed(p, "keep") {
				effect = " EFFECT"
			}
		} else if err == nil {
			// put it back for the next calls
			c2, cancel2 := mdCtx([]string{"Bearer " + tabTok})
			_, _ = regattapb.NewTablesClient(p.conn).Create(c2, &regattapb.CreateTableRequest{Name: "keep"})
			cancel2()
			e.fill()
		}
	case "tables.list":
		_, err = regattapb.NewTablesClient(p.conn).List(ctx, &regattapb.ListTablesRequest{})
	case "maintenance.backup":
		var st regattapb.Maintenance_BackupClient
		st, err = regattapb.NewMaintenanceClient(p.conn).Backup(ctx, &regattapb.BackupRequest{Table: []byte("keep")})
		for err == nil {
			_, err = st.Recv()
		}
		if err == io.EOF {
			err = nil
		}
	case "maintenance.restore":
		before := e.content(p, "keep")
		var st regattapb.Maintenance_RestoreClient
		st, err = regattapb.NewMaintenanceClient(p.conn).Restore(ctx)
		if err == nil {
			// an (empty) replacement content for the table `keep`
			_ = st.Send(&regattapb.RestoreMessage{Data: &regattapb.RestoreMessage_Info{Info: &regattapb.RestoreInfo{Table: []byte("keep")}}})
			_, err = st.CloseAndRecv()
		}
		if status.Code(err) == codes.Unauthenticated {
			effect = " noeffect"
			if e.content(p, "keep") != before {
				effect = " EFFECT"
			}
		} else {
			e.fill()
		}
	case "maintenance.reset":
		_, err = regattapb.NewMaintenanceClient(p.conn).Reset(ctx, &regattapb.ResetRequest{Table: []byte("keep")})
	case "kv.range":
		_, err = regattapb.NewKVClient(p.conn).Range(ctx, &regattapb.RangeRequest{Table: []byte("keep"), Key: []byte("a")})
	case "kv.iterate":
		var st regattapb.KV_IterateRangeClient
		st, err = regattapb.NewKVClient(p.conn).IterateRange(ctx, &regattapb.RangeRequest{Table: []byte("keep"), Key: []byte("a"), RangeEnd: []byte("z")})
		for err == nil {
			_, err = st.Recv()
		}
		if err == io.EOF {
			err = nil
		}
	case "kv.put":
		_, err = regattapb.NewKVClient(p.conn).Put(ctx, &regattapb.PutRequest{Table: []byte("keep"), Key: []byte("")})
	case "cluster.status":
		_, err = regattapb.NewClusterClient(p.conn).Status(ctx, &regattapb.StatusRequest{})
	case "cluster.members":
		_, err = regattapb.NewClusterClient(p.conn).MemberList(ctx, &regattapb.MemberListRequest{})
	}
	ans := "pass"
	if status.Code(err) == codes.Unauthenticated {
		ans = "16" + effect
	}
	if !p.alive() {
		ans = "DIED"
	}
	e.out.Line(fmt.Sprintf("call %s %s %s %s", s, svc, method, renderValues(vs)), ans)
	e.out.Count(svc + "_" + ans[:2])
}

// fill (re)creates the content of table `keep` on the leader.
func (e *authEnv) fill() {
	for i := 0; i < 3; i++ {
		ctx, cancel := mdCtx(nil)
		_, _ = regattapb.NewKVClient(e.leader.conn).Put(ctx, &regattapb.PutRequest{Table: []byte("keep"), Key: []byte(fmt.Sprintf("k%d", i)), Value: []byte("v")})
		cancel()
	}
}

func hAuth(dir string) {
	out := NewOut(dir)
	defer out.Close()
	sets := [][2]string{{"tabl3s-Secret", "m41ntenance.Secret"}}
	if envInt("VERIF_N", 1) > 0 {
		// tokens with a space inside, with separators, one a prefix of the other, one empty (= unprotected)
		sets = append(sets, [2]string{"two words", "p@ss:w0rd/=+"}, [2]string{"abc", "abcd"}, [2]string{"", "only-maintenance"})
	}
	for _, ts := range sets {
		tabTok, mntTok = ts[0], ts[1]
		authRound(out)
	}
	hTLS(out)
}

func authRound(out *Out) {
	tokCtx := func(ctx context.Context) context.Context {
		return metadata.AppendToOutgoingContext(ctx, "authorization", "Bearer "+tabTok)
	}
	leader := startProc("leader", "--tables.token="+tabTok, "--maintenance.token="+mntTok)
	defer leader.stop()
	if !leader.waitReady(tokCtx) {
		out.Line("start leader", "err not-ready "+strings.ReplaceAll(leader.logTail(), "\n", " | "))
		return
	}
	follower := startProc("follower", fmt.Sprintf("--replication.leader-address=http://127.0.0.1:%d", leader.repl),
		"--replication.poll-interval=50ms", "--replication.reconcile-interval=200ms", "--replication.lease-interval=1s",
		"--tables.token="+tabTok, "--maintenance.token="+mntTok)
	defer follower.stop()
	if !follower.waitReady(tokCtx) {
		out.Line("start follower", "err not-ready "+strings.ReplaceAll(follower.logTail(), "\n", " | "))
		return
	}
	e := &authEnv{out: out, leader: leader, follower: follower}
	out.Line(fmt.Sprintf("cfg %s %s", hx([]byte(tabTok)), hx([]byte(mntTok))), "ok")
	{
		ctx, cancel := mdCtx([]string{"Bearer " + tabTok})
		_, err := regattapb.NewTablesClient(leader.conn).Create(ctx, &regattapb.CreateTableRequest{Name: "keep"})
		cancel()
		if err != nil {
			out.Line("setup", "err "+err.Error())
			return
		}
		for i := 0; i < 100 && !e.listed(follower, "keep"); i++ {
			time.Sleep(100 * time.Millisecond)
		}
		for i := 0; i < 100; i++ {
			ctx, cancel := mdCtx(nil)
			_, err := regattapb.NewKVClient(leader.conn).Range(ctx, &regattapb.RangeRequest{Table: []byte("keep"), Key: []byte("a"), Linearizable: true})
			cancel()
			if err == nil {
				break
			}
			time.Sleep(100 * time.Millisecond)
		}
		e.fill()
	}
	type target struct {
		s        string
		p        *proc
		svc, met string
	}
	targets := []target{
		{"L", leader, "tables", "create"}, {"L", leader, "tables", "delete"}, {"L", leader, "tables", "list"},
		{"L", leader, "maintenance", "backup"}, {"L", leader, "maintenance", "restore"}, {"L", leader, "maintenance", "reset"},
		{"L", leader, "kv", "range"}, {"L", leader, "kv", "iterate"}, {"L", leader, "kv", "put"}, {"L", leader, "cluster", "status"}, {"L", leader, "cluster", "members"},
		{"F", follower, "tables", "create"}, {"F", follower, "tables", "list"}, {"F", follower, "maintenance", "reset"},
		{"F", follower, "maintenance", "backup"}, {"F", follower, "kv", "range"}, {"F", follower, "cluster", "status"},
	}
	i := 0
	quickN := envInt("VERIF_N", 1)
	for _, t := range targets {
		right, other := tabTok, mntTok
		if t.svc == "maintenance" {
			right, other = mntTok, tabTok
		}
		vs := variants(right, other)
		if quickN == 0 && (t.svc == "kv" || t.svc == "cluster") {
			vs = vs[:4]
		}
		for _, v := range vs {
			i++
			// creating / restoring for real is slow: the passing variants of those are sampled
			e.one(t.s, t.p, t.svc, t.met, v, i)
		}
	}
	if leader.alive() && follower.alive() {
		out.Line("alive", "ok")
	} else {
		out.Line("alive", "DIED")
	}
}

// ---- TLS ----

type testCA struct {
	cert *x509.Certificate
	key  *ecdsa.PrivateKey
	pem  []byte
}

func newTestCA(cn string) testCA {
	k, _ := ecdsa.GenerateKey(elliptic.P256(), crand.Reader)
	tpl := &x509.Certificate{SerialNumber: big.NewInt(time.Now().UnixNano()), Subject: pkix.Name{CommonName: cn}, NotBefore: time.Now().Add(-time.Hour), NotAfter: time.Now().Add(time.Hour),
		IsCA: true, KeyUsage: x509.KeyUsageCertSign | x509.KeyUsageDigitalSignature, BasicConstraintsValid: true}
	der, err := x509.CreateCertificate(crand.Reader, tpl, tpl, &k.PublicKey, k)
	must(err)
	c, err := x509.ParseCertificate(der)
	must(err)
	return testCA{c, k, pem.EncodeToMemory(&pem.Block{Type: "CERTIFICATE", Bytes: der})}
}

func issueCert(c *testCA, cn string, dns []string, ips []net.IP, server bool) tls.Certificate {
	k, _ := ecdsa.GenerateKey(elliptic.P256(), crand.Reader)
	tpl := &x509.Certificate{SerialNumber: big.NewInt(time.Now().UnixNano()), Subject: pkix.Name{CommonName: cn}, NotBefore: time.Now().Add(-time.Hour), NotAfter: time.Now().Add(time.Hour),
		KeyUsage: x509.KeyUsageDigitalSignature, DNSNames: dns, IPAddresses: ips}
	if server {
		tpl.ExtKeyUsage = []x509.ExtKeyUsage{x509.ExtKeyUsageServerAuth}
	} else {
		tpl.ExtKeyUsage = []x509.ExtKeyUsage{x509.ExtKeyUsageClientAuth}
	}
	parent, pk := tpl, k
	if c != nil {
		parent, pk = c.cert, c.key
	}
	der, err := x509.CreateCertificate(crand.Reader, tpl, parent, &k.PublicKey, pk)
	must(err)
	leaf, _ := x509.ParseCertificate(der)
	return tls.Certificate{Certificate: [][]byte{der}, PrivateKey: k, Leaf: leaf}
}

func handshake(cfg *tls.Config, rootPEM []byte, client *tls.Certificate) string {
	l, err := tls.Listen("tcp", "127.0.0.1:0", cfg)
	must(err)
	defer l.Close()
	go func() {
		for {
			c, err := l.Accept()
			if err != nil {
				return
			}
			go func() {
				defer c.Close()
				buf := make([]byte, 4)
				if _, err := io.ReadFull(c, buf); err == nil {
					_, _ = c.Write([]byte("pong"))
				}
			}()
		}
	}()
	pool := x509.NewCertPool()
	pool.AppendCertsFromPEM(rootPEM)
	cc := &tls.Config{RootCAs: pool, ServerName: "127.0.0.1"}
	if client != nil {
		cc.Certificates = []tls.Certificate{*client}
	}
	c, err := tls.DialWithDialer(&net.Dialer{Timeout: 3 * time.Second}, "tcp", l.Addr().String(), cc)
	if err != nil {
		return "reject"
	}
	defer c.Close()
	_ = c.SetDeadline(time.Now().Add(3 * time.Second))
	if _, err := c.Write([]byte("ping")); err != nil {
		return "reject"
	}
	buf := make([]byte, 4)
	if _, err := io.ReadFull(c, buf); err != nil {
		return "reject"
	}
	return "accept"
}

func hTLS(out *Out) {
	dir, err := os.MkdirTemp(procRoot(), "tls")
	must(err)
	defer os.RemoveAll(filepath.Dir(dir))
	ca1, ca2 := newTestCA("ca1"), newTestCA("ca2")
	caFile := filepath.Join(dir, "ca1.pem")
	must(os.WriteFile(caFile, ca1.pem, 0o600))
	srv := issueCert(&ca1, "server", nil, []net.IP{net.ParseIP("127.0.0.1")}, true)
	cf, kf := filepath.Join(dir, "server.crt"), filepath.Join(dir, "server.key")
	must(os.WriteFile(cf, pem.EncodeToMemory(&pem.Block{Type: "CERTIFICATE", Bytes: srv.Certificate[0]}), 0o600))
	kb, err := x509.MarshalECPrivateKey(srv.PrivateKey.(*ecdsa.PrivateKey))
	must(err)
	must(os.WriteFile(kf, pem.EncodeToMemory(&pem.Block{Type: "EC PRIVATE KEY", Bytes: kb}), 0o600))
	type cl struct {
		name   string
		cert   *tls.Certificate
		chains bool
	}
	mk := func(name string, c *testCA, chains bool, cn string, dns []string, ips []net.IP) cl {
		crt := issueCert(c, cn, dns, ips, false)
		return cl{name, &crt, chains}
	}
	clients := []cl{
		{"none", nil, false},
		mk("ca1-good", &ca1, true, "good", nil, nil), mk("ca1-bad", &ca1, true, "bad", nil, nil), mk("ca1-Good", &ca1, true, "Good", nil, nil),
		mk("ca1-goodx", &ca1, true, "goodx", nil, nil), mk("ca1-goo", &ca1, true, "goo", nil, nil), mk("ca1-empty", &ca1, true, "", nil, nil),
		mk("ca2-good", &ca2, false, "good", nil, nil), mk("self-good", nil, false, "good", nil, nil),
		mk("ca1-san", &ca1, true, "x", []string{"client.example"}, nil), mk("ca1-wild", &ca1, true, "x", []string{"*.example"}, nil),
		mk("ca1-cn-nosan", &ca1, true, "client.example", nil, nil), mk("ca2-san", &ca2, false, "x", []string{"client.example"}, nil),
		mk("ca1-othersan", &ca1, true, "good", []string{"other.example"}, nil), mk("ca1-ip", &ca1, true, "x", nil, []net.IP{net.ParseIP("10.1.2.3")}),
	}
	type opt struct {
		ca, cca  bool
		cn, host string
	}
	opts := []opt{
		{true, false, "good", ""}, {true, true, "good", ""}, {true, false, "", "client.example"}, {true, false, "", "10.1.2.3"},
		{true, false, "", ""}, {false, false, "", ""}, {false, false, "good", ""}, {true, false, "good", "client.example"},
		{true, false, "", "sub.example"},
	}
	dash := func(s string) string {
		if s == "" {
			return "-"
		}
		return s
	}
	for _, o := range opts {
		ti := security.TLSInfo{CertFile: cf, KeyFile: kf, ClientCertAuth: o.cca, AllowedCN: o.cn, AllowedHostname: o.host}
		if o.ca {
			ti.TrustedCAFile = caFile
		}
		cfg, err := ti.ServerConfig()
		if err != nil {
			out.Line(fmt.Sprintf("tlscfg %s %s %s %s", b2i(o.ca), b2i(o.cca), dash(o.cn), dash(o.host)), "config-error")
			continue
		}
		out.Line(fmt.Sprintf("tlscfg %s %s %s %s", b2i(o.ca), b2i(o.cca), dash(o.cn), dash(o.host)), "ok")
		for _, c := range clients {
			desc := "none"
			if c.cert != nil {
				valid := false
				if o.host != "" {
					valid = c.cert.Leaf.VerifyHostname(o.host) == nil
				}
				desc = fmt.Sprintf("cert %s %s %s", b2i(c.chains), hx([]byte(c.cert.Leaf.Subject.CommonName)), b2i(valid))
			}
			// ClientCertAuth without a CA file verifies against the system roots: nothing of ours chains
			if !o.ca && o.cca && c.cert != nil {
				desc = fmt.Sprintf("cert 0 %s 0", hx([]byte(c.cert.Leaf.Subject.CommonName)))
			}
			out.Line(fmt.Sprintf("tls %s %s %s %s %s", b2i(o.ca), b2i(o.cca), dash(o.cn), dash(o.host), desc), handshake(cfg, ca1.pem, c.cert))
			out.Count("tls")
		}
	}
	// the same decisions on a real leader PROCESS whose API listens on https: the flags of cmd/ have to
	// reach security.TLSInfo (api.ca-filename, api.allowed-cn, api.allowed-hostname, api.client-cert-auth)
	for _, o := range []opt{{true, false, "good", ""}, {true, false, "", "client.example"}, {true, false, "", ""}} {
		args := []string{"--api.cert-filename=" + cf, "--api.key-filename=" + kf, "--api.ca-filename=" + caFile}
		if o.cn != "" {
			args = append(args, "--api.allowed-cn="+o.cn)
		}
		if o.host != "" {
			args = append(args, "--api.allowed-hostname="+o.host)
		}
		p := startProcTLS("leader", args...)
		pool := x509.NewCertPool()
		pool.AppendCertsFromPEM(ca1.pem)
		call := func(c *tls.Certificate) error {
			cc := &tls.Config{RootCAs: pool, ServerName: "127.0.0.1"}
			if c != nil {
				cc.Certificates = []tls.Certificate{*c}
			}
			conn, err := grpc.NewClient(fmt.Sprintf("127.0.0.1:%d", p.api), grpc.WithTransportCredentials(credentials.NewTLS(cc)))
			if err != nil {
				return err
			}
			defer conn.Close()
			ctx, cancel := context.WithTimeout(context.Background(), 5*time.Second)
			defer cancel()
			_, err = regattapb.NewClusterClient(conn).MemberList(ctx, &regattapb.MemberListRequest{})
			return err
		}
		// readiness: a client that every one of these configurations accepts
		var okClient *tls.Certificate
		for _, c := range clients {
			if c.name == "ca1-good" && o.host == "" || c.name == "ca1-san" && o.host != "" {
				okClient = c.cert
			}
		}
		ready := false
		for i := 0; i < 600 && p.alive() && !ready; i++ {
			if call(okClient) == nil {
				ready = true
			} else {
				time.Sleep(100 * time.Millisecond)
			}
		}
		if !ready {
			out.Line(fmt.Sprintf("tlsproc %s %s", dash(o.cn), dash(o.host)), "err not-ready "+strings.ReplaceAll(p.logTail(), "\n", " | "))
			p.stop()
			continue
		}
		for _, c := range clients {
			desc := "none"
			if c.cert != nil {
				valid := false
				if o.host != "" {
					valid = c.cert.Leaf.VerifyHostname(o.host) == nil
				}
				desc = fmt.Sprintf("cert %s %s %s", b2i(c.chains), hx([]byte(c.cert.Leaf.Subject.CommonName)), b2i(valid))
			}
			ans := "accept"
			if err := call(c.cert); err != nil {
				ans = "reject"
			}
			out.Line(fmt.Sprintf("tls %s %s %s %s %s", b2i(o.ca), b2i(o.cca), dash(o.cn), dash(o.host), desc), ans)
			out.Count("tls_process")
		}
		p.stop()
	}
	// ... and on the REPLICATION listener of a real leader process - the endpoint the follower clusters
	// authenticate to with client certificates (replication.ca-filename, replication.client-cert-auth,
	// replication.allowed-cn reaching security.TLSInfo in cmd/leader.go createReplicationServer)
	// (replication.allowed-cn / allowed-hostname are read by the code but have no command-line flag)
	for _, o := range []opt{{true, true, "", ""}, {true, false, "", ""}, {false, true, "", ""}} {
		args := []string{"--replication.cert-filename=" + cf, "--replication.key-filename=" + kf}
		if o.ca {
			args = append(args, "--replication.ca-filename="+caFile)
		}
		if o.cca {
			args = append(args, "--replication.client-cert-auth=true")
		}
		if o.cn != "" {
			args = append(args, "--replication.allowed-cn="+o.cn)
		}
		p := startProcSchemes("http", "https", "leader", args...)
		if !p.waitReady(nil) {
			out.Line(fmt.Sprintf("tlsproc-repl %s %s", b2i(o.cca), dash(o.cn)), "err not-ready "+strings.ReplaceAll(p.logTail(), "\n", " | "))
			p.stop()
			continue
		}
		pool := x509.NewCertPool()
		pool.AppendCertsFromPEM(ca1.pem)
		for _, c := range clients {
			desc := "none"
			if c.cert != nil {
				desc = fmt.Sprintf("cert %s %s 0", b2i(c.chains), hx([]byte(c.cert.Leaf.Subject.CommonName)))
			}
			// ClientCertAuth without a CA file verifies against the system roots: nothing of ours chains
			if !o.ca && o.cca && c.cert != nil {
				desc = fmt.Sprintf("cert 0 %s 0", hx([]byte(c.cert.Leaf.Subject.CommonName)))
			}
			cc := &tls.Config{RootCAs: pool, ServerName: "127.0.0.1"}
			if c.cert != nil {
				cc.Certificates = []tls.Certificate{*c.cert}
			}
			ans := "accept"
			conn, err := grpc.NewClient(fmt.Sprintf("127.0.0.1:%d", p.repl), grpc.WithTransportCredentials(credentials.NewTLS(cc)))
			if err == nil {
				ctx, cancel := context.WithTimeout(context.Background(), 5*time.Second)
				_, err = regattapb.NewMetadataClient(conn).Get(ctx, &regattapb.MetadataRequest{})
				cancel()
				conn.Close()
			}
			if err != nil {
				ans = "reject"
			}
			out.Line(fmt.Sprintf("tls %s %s %s %s %s", b2i(o.ca), b2i(o.cca), dash(o.cn), dash(o.host), desc), ans)
			out.Count("tls_process_replication")
		}
		p.stop()
	}
}
