//go:build verif

package main

// Mode gmsg (C18, "every API message"): every message type of the four .proto files, found through
// the compiled descriptors, filled with random values (all oneof arms, optional fields absent /
// zero / set, embedded messages nil / empty / filled, repeated fields, the one map, negative and
// 64-bit integers, empty and long byte strings, nesting), encoded by the registered codec, decoded
// by it into a fresh object.  The line carries the schema (which field numbers are embedded
// messages, from the descriptor) and the bytes; the Lean side decodes them with the generic
// field-tree decoder, re-encodes, and renders the tree; this side renders the populated fields of
// the DECODED message through protoreflect.  Both must agree, and the bytes must re-encode exactly.

import (
	"encoding/binary"
	"fmt"
	"math"
	"math/rand"
	"sort"
	"strings"

	"github.com/jamf/regatta/regattapb"
	"google.golang.org/grpc/encoding"
	"google.golang.org/protobuf/proto"
	"google.golang.org/protobuf/reflect/protoreflect"
	"google.golang.org/protobuf/reflect/protoregistry"
)

func init() { modes["gmsg"] = hGmsg }

func allMessages(fd protoreflect.FileDescriptor) []protoreflect.MessageDescriptor {
	var out []protoreflect.MessageDescriptor
	var walk func(ms protoreflect.MessageDescriptors)
	walk = func(ms protoreflect.MessageDescriptors) {
		for i := 0; i < ms.Len(); i++ {
			m := ms.Get(i)
			if m.IsMapEntry() {
				continue
			}
			out = append(out, m)
			walk(m.Messages())
		}
	}
	walk(fd.Messages())
	return out
}

type gfill struct{ r *rand.Rand }

func (g gfill) bytes() []byte {
	switch g.r.Intn(6) {
	case 0:
		return []byte{}
	case 1:
		return []byte{0}
	case 2:
		b := make([]byte, 100+g.r.Intn(300))
		for i := range b {
			b[i] = byte(g.r.Intn(256))
		}
		return b
	default:
		b := make([]byte, 1+g.r.Intn(6))
		for i := range b {
			b[i] = byte(g.r.Intn(256))
		}
		return b
	}
}

func (g gfill) str() string {
	const al = "abc/é\x00-_Z9 "
	n := g.r.Intn(8)
	if g.r.Intn(5) == 0 {
		n = 0
	}
	var sb strings.Builder
	for i := 0; i < n; i++ {
		sb.WriteByte("abcdefXYZ019-_ ."[g.r.Intn(16)])
	}
	_ = al
	return sb.String()
}

func (g gfill) u64() uint64 {
	switch g.r.Intn(6) {
	case 0:
		return 0
	case 1:
		return uint64(g.r.Intn(128))
	case 2:
		return uint64(g.r.Intn(1 << 20))
	case 3:
		return ^uint64(0)
	case 4:
		return 1 << 63
	default:
		return g.r.Uint64()
	}
}

func (g gfill) scalar(fd protoreflect.FieldDescriptor) protoreflect.Value {
	switch fd.Kind() {
	case protoreflect.BoolKind:
		return protoreflect.ValueOfBool(g.r.Intn(2) == 0)
	case protoreflect.EnumKind:
		vs := fd.Enum().Values()
		return protoreflect.ValueOfEnum(vs.Get(g.r.Intn(vs.Len())).Number())
	case protoreflect.Int32Kind:
		return protoreflect.ValueOfInt32(int32(g.u64()))
	case protoreflect.Int64Kind:
		return protoreflect.ValueOfInt64(int64(g.u64()))
	case protoreflect.Uint32Kind:
		return protoreflect.ValueOfUint32(uint32(g.u64()))
	case protoreflect.Uint64Kind:
		return protoreflect.ValueOfUint64(g.u64())
	case protoreflect.StringKind:
		return protoreflect.ValueOfString(g.str())
	case protoreflect.BytesKind:
		return protoreflect.ValueOfBytes(g.bytes())
	case protoreflect.DoubleKind:
		return protoreflect.ValueOfFloat64([]float64{0, 1, -1.5, 3.141592653589793, 1e300, -1e-300, 42}[g.r.Intn(7)])
	case protoreflect.FloatKind:
		return protoreflect.ValueOfFloat32([]float32{0, 1, -1.5, 3.1415927, 1e30}[g.r.Intn(5)])
	case protoreflect.Fixed64Kind:
		return protoreflect.ValueOfUint64(g.u64())
	case protoreflect.Sfixed64Kind:
		return protoreflect.ValueOfInt64(int64(g.u64()))
	case protoreflect.Fixed32Kind:
		return protoreflect.ValueOfUint32(uint32(g.u64()))
	case protoreflect.Sfixed32Kind:
		return protoreflect.ValueOfInt32(int32(g.u64()))
	}
	panic("field kind outside the model: " + fd.Kind().String() + " in " + string(fd.FullName()))
}

func (g gfill) fill(m protoreflect.Message, depth int) {
	fds := m.Descriptor().Fields()
	done := map[string]bool{} // one arm per oneof
	for i := 0; i < fds.Len(); i++ {
		fd := fds.Get(i)
		if oo := fd.ContainingOneof(); oo != nil && !oo.IsSynthetic() {
			if done[string(oo.FullName())] {
				continue
			}
			// choose among the arms (or none) when meeting the first arm
			arms := oo.Fields()
			pick := g.r.Intn(arms.Len() + 1)
			done[string(oo.FullName())] = true
			if pick == arms.Len() {
				continue
			}
			fd = arms.Get(pick)
		} else if g.r.Intn(4) == 0 {
			continue // left unset
		}
		switch {
		case fd.IsMap():
			mp := m.Mutable(fd).Map()
			for k := g.r.Intn(3); k > 0; k-- {
				key := protoreflect.ValueOfString(fmt.Sprintf("k%d", g.r.Intn(50))).MapKey()
				if fd.MapValue().Kind() == protoreflect.MessageKind {
					v := mp.NewValue()
					if depth > 0 {
						g.fill(v.Message(), depth-1)
					}
					mp.Set(key, v)
				} else {
					mp.Set(key, g.scalar(fd.MapValue()))
				}
			}
		case fd.IsList():
			l := m.Mutable(fd).List()
			for k := g.r.Intn(4); k > 0; k-- {
				if fd.Kind() == protoreflect.MessageKind {
					if depth == 0 {
						break
					}
					e := l.NewElement()
					g.fill(e.Message(), depth-1)
					l.Append(e)
				} else {
					l.Append(g.scalar(fd))
				}
			}
		case fd.Kind() == protoreflect.MessageKind:
			if depth == 0 {
				continue
			}
			sub := m.Mutable(fd).Message() // present, possibly without any field
			if g.r.Intn(4) > 0 {
				g.fill(sub, depth-1)
			}
		default:
			m.Set(fd, g.scalar(fd))
		}
	}
}

// schemaOf: the embedded-message fields of a descriptor, to the given depth; a map is marked "m".
func schemaOf(md protoreflect.MessageDescriptor, depth int) string {
	if depth < 0 {
		return "()"
	}
	var parts []string
	fds := md.Fields()
	for i := 0; i < fds.Len(); i++ {
		fd := fds.Get(i)
		switch {
		case fd.IsMap():
			inner := "()"
			if fd.MapValue().Kind() == protoreflect.MessageKind {
				inner = "(2:" + schemaOf(fd.MapValue().Message(), depth-2) + ")"
			}
			parts = append(parts, fmt.Sprintf("%dm:%s", fd.Number(), inner))
		case fd.Kind() == protoreflect.MessageKind:
			parts = append(parts, fmt.Sprintf("%d:%s", fd.Number(), schemaOf(fd.Message(), depth-1)))
		}
	}
	return "(" + strings.Join(parts, ",") + ")"
}

func renderScalar(num protoreflect.FieldNumber, fd protoreflect.FieldDescriptor, v protoreflect.Value) string {
	switch fd.Kind() {
	case protoreflect.BoolKind:
		if v.Bool() {
			return fmt.Sprintf("v%d=1", num)
		}
		return fmt.Sprintf("v%d=0", num)
	case protoreflect.EnumKind:
		return fmt.Sprintf("v%d=%d", num, uint64(int64(v.Enum())))
	case protoreflect.Int32Kind, protoreflect.Int64Kind:
		return fmt.Sprintf("v%d=%d", num, uint64(v.Int()))
	case protoreflect.Uint32Kind, protoreflect.Uint64Kind:
		return fmt.Sprintf("v%d=%d", num, v.Uint())
	case protoreflect.StringKind:
		return fmt.Sprintf("b%d=%s", num, hx([]byte(v.String())))
	case protoreflect.BytesKind:
		return fmt.Sprintf("b%d=%s", num, hx(v.Bytes()))
	case protoreflect.DoubleKind:
		return fmt.Sprintf("x%d=%s", num, hx(binary.LittleEndian.AppendUint64(nil, math.Float64bits(v.Float()))))
	case protoreflect.Fixed64Kind:
		return fmt.Sprintf("x%d=%s", num, hx(binary.LittleEndian.AppendUint64(nil, v.Uint())))
	case protoreflect.Sfixed64Kind:
		return fmt.Sprintf("x%d=%s", num, hx(binary.LittleEndian.AppendUint64(nil, uint64(v.Int()))))
	case protoreflect.FloatKind:
		return fmt.Sprintf("y%d=%s", num, hx(binary.LittleEndian.AppendUint32(nil, math.Float32bits(float32(v.Float())))))
	case protoreflect.Fixed32Kind:
		return fmt.Sprintf("y%d=%s", num, hx(binary.LittleEndian.AppendUint32(nil, uint32(v.Uint()))))
	case protoreflect.Sfixed32Kind:
		return fmt.Sprintf("y%d=%s", num, hx(binary.LittleEndian.AppendUint32(nil, uint32(v.Int()))))
	}
	panic("kind")
}

// renderMsg: the populated fields, by field number (repeated fields in order, map entries sorted).
func renderMsg(m protoreflect.Message) string {
	type ent struct {
		num int
		seq int
		s   string
	}
	var ents []ent
	m.Range(func(fd protoreflect.FieldDescriptor, v protoreflect.Value) bool {
		num := fd.Number()
		switch {
		case fd.IsMap():
			var es []string
			v.Map().Range(func(k protoreflect.MapKey, mv protoreflect.Value) bool {
				ks := renderScalar(1, fd.MapKey(), k.Value())
				var vs string
				if fd.MapValue().Kind() == protoreflect.MessageKind {
					vs = "s2" + renderMsg(mv.Message())
				} else {
					vs = renderScalar(2, fd.MapValue(), mv)
				}
				es = append(es, fmt.Sprintf("s%d(%s %s)", num, ks, vs))
				return true
			})
			sort.Strings(es)
			for i, e := range es {
				ents = append(ents, ent{int(num), i, e})
			}
		case fd.IsList():
			l := v.List()
			for i := 0; i < l.Len(); i++ {
				if fd.Kind() == protoreflect.MessageKind {
					ents = append(ents, ent{int(num), i, fmt.Sprintf("s%d%s", num, renderMsg(l.Get(i).Message()))})
				} else {
					ents = append(ents, ent{int(num), i, renderScalar(num, fd, l.Get(i))})
				}
			}
		case fd.Kind() == protoreflect.MessageKind:
			ents = append(ents, ent{int(num), 0, fmt.Sprintf("s%d%s", num, renderMsg(v.Message()))})
		default:
			ents = append(ents, ent{int(num), 0, renderScalar(num, fd, v)})
		}
		return true
	})
	sort.SliceStable(ents, func(i, j int) bool {
		if ents[i].num != ents[j].num {
			return ents[i].num < ents[j].num
		}
		return ents[i].seq < ents[j].seq
	})
	ss := make([]string, len(ents))
	for i, e := range ents {
		ss[i] = e.s
	}
	return "(" + strings.Join(ss, " ") + ")"
}

func hGmsg(dir string) {
	out := NewOut(dir)
	defer out.Close()
	n := envInt("VERIF_N", 40)
	codec := encoding.GetCodec("proto")
	var mds []protoreflect.MessageDescriptor
	for _, fd := range []protoreflect.FileDescriptor{regattapb.File_mvcc_proto, regattapb.File_regatta_proto, regattapb.File_replication_proto, regattapb.File_maintenance_proto} {
		mds = append(mds, allMessages(fd)...)
	}
	out.Stats["message_types"] = len(mds)
	r := newRand(9900)
	g := gfill{r}
	for _, md := range mds {
		mt, err := protoregistry.GlobalTypes.FindMessageByName(md.FullName())
		must(err)
		for i := 0; i < n; i++ {
			depth := 1 + r.Intn(3)
			if i%7 == 0 {
				depth = 0
			}
			msg := mt.New()
			g.fill(msg, depth)
			b := mustMarshal(codec, msg.Interface())
			fresh := mt.New()
			ans := ""
			if err := codec.Unmarshal(b, fresh.Interface()); err != nil {
				ans = "err decode"
			} else {
				ans = fmt.Sprintf("ok %s %s", b2i(proto.Equal(fresh.Interface(), msg.Interface())), renderMsg(fresh))
			}
			// the value's nesting depth is at most depth+1 (a map entry adds one level)
			out.Line(fmt.Sprintf("gmsg %s %d %s %s", md.FullName(), depth+3, schemaOf(md, depth+3), hxn(b)), ans)
			out.Count("gmsg")
			if len(b) == 0 {
				out.Count("gmsg_empty")
			}
		}
	}
}
