//go:build verif

package main

// Mode rpath (C10, read paths): the real table.ActiveTable (Range, Iterator, Txn, Put, Delete) over
// a stub Raft handler backed by two real state machines: instance 0 has applied everything that is
// committed (it answers consensus reads, and proposals are applied to it before they are
// acknowledged), instance 1 is this node's replica and lags by a controlled number of entries (it
// answers local reads).  Which of the two states a request's answer reflects must be the model's
// (table.go readTable routing), and every acknowledged write carries its log index as revision.

import (
	"context"
	"fmt"
	"math/rand"
	"time"

	"github.com/jamf/regatta/regattapb"
	"github.com/jamf/regatta/storage/table"
	"github.com/jamf/regatta/storage/table/fsm"
	"github.com/jamf/regatta/util/iter"
	"github.com/lni/dragonboat/v4/client"
	sm "github.com/lni/dragonboat/v4/statemachine"
)

func init() {
	modes["rpath"] = func(dir string) {
		out := NewOut(dir)
		defer out.Close()
		n := envInt("VERIF_N", 60)
		for h := 0; h < n; h++ {
			out.Line("reset", "ok")
			rpathHistory(out, newRand(int64(9700+h)))
		}
	}
}

type lagNH struct {
	out     *Out
	ahead   *fsmInst // everything committed is applied here
	local   *fsmInst // this node's replica
	idx     uint64
	pending []fsmEntry // committed, not yet applied locally
	r       *rand.Rand
}

func (h *lagNH) SyncRead(_ context.Context, _ uint64, req interface{}) (interface{}, error) {
	return h.ahead.f.Lookup(req)
}

func (h *lagNH) StaleRead(_ uint64, req interface{}) (interface{}, error) {
	return h.local.f.Lookup(req)
}

func (h *lagNH) GetNoOPSession(id uint64) *client.Session { return &client.Session{ShardID: id} }

// SyncPropose: the entry is committed and applied where consensus reads are answered before the
// proposal is acknowledged; the local replica gets it later.
func (h *lagNH) SyncPropose(_ context.Context, _ *client.Session, b []byte) (sm.Result, error) {
	h.idx += 1 + uint64(h.r.Intn(2))
	c := &regattapb.Command{}
	must(c.UnmarshalVT(b))
	e := fsmEntry{index: h.idx, cmd: c, wire: append([]byte{}, b...), seen: c}
	// the protocol line of the apply on instance 0 (the model applies the same entry)
	res, err := h.ahead.f.Update([]sm.Entry{{Index: e.index, Cmd: append([]byte{}, b...)}})
	if err != nil {
		return sm.Result{}, err
	}
	h.out.Line(fmt.Sprintf("apply 0 %s", e.render()), "ok")
	h.ahead.notif, h.ahead.vis = nil, nil
	h.pending = append(h.pending, e)
	return res[0].Result, nil
}

// catchUp applies k of the pending entries to the local replica.
func (h *lagNH) catchUp(k int) {
	if k > len(h.pending) {
		k = len(h.pending)
	}
	for _, e := range h.pending[:k] {
		_, err := h.local.f.Update([]sm.Entry{{Index: e.index, Cmd: append([]byte{}, e.wire...)}})
		must(err)
		h.out.Line(fmt.Sprintf("apply 1 %s", e.render()), "ok")
	}
	h.local.notif, h.local.vis = nil, nil
	h.pending = h.pending[k:]
}

func rpathHistory(out *Out, r *rand.Rand) {
	g := newFsmGen(r)
	m := len(g.keys)
	a, b := newFsmInst(fsm.RecoveryTypeSnapshot), newFsmInst(fsm.RecoveryTypeSnapshot)
	defer func() { a.f.Close(); b.f.Close() }()
	a.notif, a.vis, b.notif, b.vis = nil, nil, nil, nil
	out.Line("new 0", "ok")
	out.Line("new 1", "ok")
	nh := &lagNH{out: out, ahead: a, local: b, r: r}
	at := table.Table{Name: "tab", ClusterID: 10001}.AsActive(nh)
	ctx, cancel := context.WithTimeout(context.Background(), 30*time.Second)
	defer cancel()
	for step := 0; step < 25+r.Intn(25); step++ {
		switch k := r.Intn(12); {
		case k < 4: // an acknowledged write through the table API; its revision must be its log index
			c := g.cmd(m, 0)
			var rev uint64
			var err error
			what, rendered := "", ""
			switch c.Type {
			case regattapb.Command_PUT:
				var resp *regattapb.PutResponse
				resp, err = at.Put(ctx, &regattapb.PutRequest{Key: c.Kv.Key, Value: c.Kv.Value, PrevKv: c.PrevKvs})
				if err == nil {
					rev = resp.Header.Revision
					// the API response is built from the apply result: previous pair
					rendered = aResp(&regattapb.ResponseOp{Response: &regattapb.ResponseOp_ResponsePut{ResponsePut: &regattapb.ResponseOp_Put{PrevKv: resp.PrevKv}}})
				}
				what = "put"
			case regattapb.Command_DELETE:
				var resp *regattapb.DeleteRangeResponse
				resp, err = at.Delete(ctx, &regattapb.DeleteRangeRequest{Key: c.Kv.Key, RangeEnd: c.RangeEnd, PrevKv: c.PrevKvs, Count: c.Count})
				if err == nil {
					rev = resp.Header.Revision
					rendered = aResp(&regattapb.ResponseOp{Response: &regattapb.ResponseOp_ResponseDeleteRange{ResponseDeleteRange: &regattapb.ResponseOp_DeleteRange{Deleted: resp.Deleted, PrevKvs: resp.PrevKvs}}})
				}
				what = "del"
			case regattapb.Command_TXN:
				rq := &regattapb.TxnRequest{Compare: c.Txn.Compare, Success: c.Txn.Success, Failure: c.Txn.Failure}
				if txnIsReadonly(rq) {
					continue
				}
				var resp *regattapb.TxnResponse
				resp, err = at.Txn(ctx, rq)
				if err == nil {
					rev = resp.Header.Revision
					rendered = fmt.Sprintf("%s %s", b2i(resp.Succeeded), aResps(resp.Responses))
				}
				what = "txn"
			default:
				continue
			}
			if err != nil {
				continue // refused by validation before anything was proposed
			}
			out.Line("acked "+what, fmt.Sprintf("rev %d %s", rev, rendered))
			out.Count("acked")
		case k < 5:
			nh.catchUp(1 + r.Intn(3))
		case k < 6:
			nh.catchUp(len(nh.pending))
		default:
			q := g.rangeReq(m)
			if r.Intn(3) == 0 {
				q = fullRange()
			}
			lin := r.Intn(2) == 0
			rq := &regattapb.RangeRequest{Key: q.Key, RangeEnd: q.RangeEnd, Limit: q.Limit, KeysOnly: q.KeysOnly, CountOnly: q.CountOnly, Linearizable: lin}
			switch r.Intn(3) {
			case 0:
				ans := guard(func() string {
					resp, err := at.Range(ctx, rq)
					if err != nil {
						return "err other"
					}
					return "ok " + aRR(&regattapb.ResponseOp_Range{Kvs: resp.Kvs, More: resp.More, Count: resp.Count})
				})
				out.Line(fmt.Sprintf("rread range %s %s", b2i(lin), rRange(q)), ans)
				out.Count("rread_range")
			case 1:
				ans := guard(func() string {
					seq, err := at.Iterator(ctx, rq)
					if err != nil {
						return "err other"
					}
					var sb []byte
					n := 0
					iter.Seq[*regattapb.ResponseOp_Range](seq)(func(rr *regattapb.ResponseOp_Range) bool {
						sb = append(sb, (" " + aRR(rr))...)
						n++
						return true
					})
					return fmt.Sprintf("ok %d%s", n, sb)
				})
				out.Line(fmt.Sprintf("rread iter %s %s", b2i(lin), rRange(q)), ans)
				out.Count("rread_iter")
			default:
				// a read-only transaction: with or without comparisons, ranges only
				t := g.txn(m, true)
				if r.Intn(2) == 0 {
					t.Compare = nil
				}
				rq := &regattapb.TxnRequest{Compare: t.Compare, Success: t.Success, Failure: t.Failure}
				if !txnIsReadonly(rq) {
					continue
				}
				ans := guard(func() string {
					resp, err := at.Txn(ctx, rq)
					if err != nil {
						return "err other"
					}
					return fmt.Sprintf("ok %s %s", b2i(resp.Succeeded), aResps(resp.Responses))
				})
				out.Line(fmt.Sprintf("rread txn 0 %s", rTxn(t.Compare, t.Success, t.Failure)), ans)
				out.Count("rread_txn")
			}
			if len(nh.pending) > 0 {
				out.Count("reads_while_lagging")
			}
		}
	}
}
