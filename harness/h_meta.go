package main

import (
	"bytes"
	"encoding/json"
	"errors"
	"fmt"
	"math/rand"
	"sort"
	"strings"
	"sync"
	"time"

	serrors "github.com/jamf/regatta/storage/errors"
	"github.com/jamf/regatta/storage/kv"
	"github.com/jamf/regatta/storage/table"
	"github.com/lni/dragonboat/v4"
	dbsm "github.com/lni/dragonboat/v4/statemachine"
)

func init() {
	modes["meta"] = hMeta
	modes["catalog"] = hCatalog
}

func hs(s string) string { return hxn([]byte(s)) }

func pairStr(p kv.Pair) string { return fmt.Sprintf("%s %s %d", hs(p.Key), hs(p.Value), p.Ver) }

// ---------------------------------------------------------------- C13: the LFSM itself

type lfsmInst struct {
	f *kv.LFSM
}

func newLfsm() *lfsmInst { return &lfsmInst{f: kv.NewLFSM()(1, 1).(*kv.LFSM)} }

func metaLookups(out *Out, id int, in *lfsmInst, keys []string) {
	for _, k := range keys {
		v, err := in.f.Lookup(kv.QueryKey{Key: k})
		if err != nil {
			out.Line(fmt.Sprintf("mget %d %s", id, hs(k)), "err notexist")
		} else {
			out.Line(fmt.Sprintf("mget %d %s", id, hs(k)), "ok "+pairStr(v.(kv.Pair)))
		}
		e, _ := in.f.Lookup(kv.QueryExist{Key: k})
		out.Line(fmt.Sprintf("mexists %d %s", id, hs(k)), "ok "+b2i(e.(bool)))
	}
	for _, pat := range []string{"/tables/*", "/tables/a*", "/cleanup/1/*", "/tables/a/lease", "/tables/sys/*", "/x*"} {
		v, err := in.f.Lookup(kv.QueryAll{Pattern: pat})
		must(err)
		ps := v.([]kv.Pair)
		var sb strings.Builder
		fmt.Fprintf(&sb, "ok %d", len(ps))
		for _, p := range ps {
			sb.WriteString(" " + pairStr(p))
		}
		out.Line(fmt.Sprintf("mall %d %s", id, hs(pat)), sb.String())
		vv, err := in.f.Lookup(kv.QueryAllValues{Pattern: pat})
		must(err)
		vs := vv.([]string)
		sb.Reset()
		fmt.Fprintf(&sb, "ok %d", len(vs))
		for _, s := range vs {
			sb.WriteString(" " + hs(s))
		}
		out.Line(fmt.Sprintf("mvals %d %s", id, hs(pat)), sb.String())
	}
	for _, p := range []string{"/tables", "/tables/a", "/cleanup", "/cleanup/1", "/tables/sys"} {
		for _, op := range []string{"mlist", "mlistdir"} {
			var v interface{}
			var err error
			if op == "mlist" {
				v, err = in.f.Lookup(kv.QueryList{Path: p})
			} else {
				v, err = in.f.Lookup(kv.QueryListDir{Path: p})
			}
			must(err)
			vs := v.([]string)
			var sb strings.Builder
			fmt.Fprintf(&sb, "ok %d", len(vs))
			for _, s := range vs {
				sb.WriteString(" " + hs(s))
			}
			out.Line(fmt.Sprintf("%s %d %s", op, id, hs(p)), sb.String())
		}
	}
}

// hMeta: random set / delete / unknown-op sequences with stale, current, zero and future versions on
// the real LFSM; two instances fed the same updates under different batchings; snapshot + restore
// into fresh and into non-empty instances; every lookup kind after every step.
func hMeta(dir string) {
	out := NewOut(dir)
	defer out.Close()
	n := envInt("VERIF_N", 150)
	keys := []string{"/tables/a", "/tables/b", "/tables/a/lease", "/tables/sys/idseq", "/cleanup/1/10001", "/cleanup/1/10002", "/cleanup/2/10001", "/tables/ab", "/tables/sys", "/xy/z"}
	for sc := 0; sc < n; sc++ {
		r := newRand(int64(13000 + sc))
		out.Line("reset", "ok")
		ins := []*lfsmInst{newLfsm(), newLfsm()}
		out.Line("mnew 0", "ok")
		out.Line("mnew 1", "ok")
		// a lagging replica: applies only a prefix of the log, later catches up by snapshot
		lagger := newLfsm()
		out.Line("mnew 3", "ok")
		lagSteps := 2 + r.Intn(8)
		vers := map[string]uint64{} // last known version per key (what a well-behaved caller would supply)
		idx := uint64(0)
		var pending []dbsm.Entry
		var pendingStr []string
		flush := func(id int, ents []dbsm.Entry, strs []string) {
			cp := make([]dbsm.Entry, len(ents))
			for i, e := range ents {
				cp[i] = dbsm.Entry{Index: e.Index, Cmd: append([]byte{}, e.Cmd...)}
			}
			target := lagger
			if id < 3 {
				target = ins[id]
			}
			res, err := target.f.Update(cp)
			must(err)
			var sb strings.Builder
			fmt.Fprintf(&sb, "ok %d", len(res))
			for _, e := range res {
				var p kv.Pair
				must(json.Unmarshal(e.Result.Data, &p))
				fmt.Fprintf(&sb, " %d %s", e.Result.Value, pairStr(p))
				if id == 0 && e.Result.Value == kv.ResultCodeSuccess {
					vers[p.Key] = p.Ver
				}
				if e.Result.Value == kv.ResultCodeVersionMismatch {
					out.Count("mismatch")
				} else {
					out.Count("success")
				}
			}
			out.Line(fmt.Sprintf("mbatch %d %d %s", id, len(ents), strings.Join(strs, " ")), sb.String())
		}
		for step := 0; step < 10+r.Intn(12); step++ {
			k := 1 + r.Intn(4)
			pending, pendingStr = nil, nil
			for i := 0; i < k; i++ {
				idx += 1 + uint64(r.Intn(2))
				key := keys[r.Intn(len(keys))]
				op := []string{kv.UpdateOpSet, kv.UpdateOpSet, kv.UpdateOpSet, kv.UpdateOpDelete, "noop"}[r.Intn(5)]
				var ver uint64
				switch r.Intn(5) {
				case 0:
					ver = 0
				case 1:
					ver = idx + 5 // future
				case 2:
					ver = uint64(r.Intn(int(idx) + 1)) // stale or accidental hit
				default:
					ver = vers[key] // current as of the last flushed batch
				}
				val := fmt.Sprintf("v%d", r.Intn(4))
				if r.Intn(6) == 0 {
					val = ""
				}
				b, err := json.Marshal(kv.Update{Op: op, KVPair: kv.Pair{Key: key, Value: val, Ver: ver}})
				must(err)
				pending = append(pending, dbsm.Entry{Index: idx, Cmd: b})
				opc := map[string]string{kv.UpdateOpSet: "s", kv.UpdateOpDelete: "d", "noop": "o"}[op]
				pendingStr = append(pendingStr, fmt.Sprintf("%d %s %s %s %d", idx, opc, hs(key), hs(val), ver))
			}
			// instance 0: the whole batch at once; instance 1: one entry per Update call
			flush(0, pending, pendingStr)
			for i := range pending {
				flush(1, pending[i:i+1], pendingStr[i:i+1])
			}
			if step < lagSteps {
				flush(3, pending, pendingStr)
			}
			if r.Intn(3) == 0 {
				metaLookups(out, r.Intn(2), ins[r.Intn(2)], keys[:4+r.Intn(6)])
			}
			if r.Intn(5) == 0 {
				// snapshot of instance 0 restored into a fresh instance and over instance 1 (non-empty)
				ctx, err := ins[0].f.PrepareSnapshot()
				must(err)
				var buf bytes.Buffer
				must(ins[0].f.SaveSnapshot(ctx, &buf, nil, nil))
				data := buf.Bytes()
				fresh := newLfsm()
				must(fresh.f.RecoverFromSnapshot(bytes.NewReader(data), nil, nil))
				must(ins[1].f.RecoverFromSnapshot(bytes.NewReader(data), nil, nil))
				out.Line("msnap 0 1", "ok")
				out.Line("msnap 0 2", "ok")
				ins = append(ins[:2], fresh)
				metaLookups(out, 2, fresh, keys)
				metaLookups(out, 1, ins[1], keys)
				out.Count("snapshot")
			}
		}
		metaLookups(out, 0, ins[0], keys)
		metaLookups(out, 1, ins[1], keys)
		{
			ctx, err := ins[0].f.PrepareSnapshot()
			must(err)
			var buf bytes.Buffer
			must(ins[0].f.SaveSnapshot(ctx, &buf, nil, nil))
			must(lagger.f.RecoverFromSnapshot(bytes.NewReader(buf.Bytes()), nil, nil))
			out.Line("msnap 0 3", "ok")
			metaLookups(out, 3, lagger, keys)
		}
	}
}

// ---------------------------------------------------------------- C14 / C15: managers over the real LFSM

// schedStore is the store the managers use: the real LFSM behind it, every call parked until the
// scheduler lets it proceed.
type schedStore struct {
	sys    *metaSys
	callID *int // which manager call is running on this goroutine (set per call through the wrapper)
}

type metaSys struct {
	mu     sync.Mutex
	f      *kv.LFSM
	idx    uint64
	parked chan parkEv
}

type parkEv struct {
	id   int
	done bool
	res  string
	gate chan struct{}
}

func (s *metaSys) propose(u kv.Update) (kv.Pair, uint64) {
	s.mu.Lock()
	defer s.mu.Unlock()
	s.idx++
	b, _ := json.Marshal(u)
	res, err := s.f.Update([]dbsm.Entry{{Index: s.idx, Cmd: b}})
	must(err)
	var p kv.Pair
	must(json.Unmarshal(res[0].Result.Data, &p))
	return p, res[0].Result.Value
}

// callStore is a node's view: parks before every store call, under the id of the call that the node
// is currently running (a node runs one manager call at a time).
type callStore struct {
	sys *metaSys
	id  int
}

func (c *callStore) park() {
	g := make(chan struct{})
	c.sys.parked <- parkEv{id: c.id, gate: g}
	<-g
}

func (c *callStore) Exists(key string) (bool, error) {
	c.park()
	v, err := c.sys.f.Lookup(kv.QueryExist{Key: key})
	return v.(bool), err
}

func (c *callStore) Get(key string) (kv.Pair, error) {
	c.park()
	v, err := c.sys.f.Lookup(kv.QueryKey{Key: key})
	if err != nil {
		return kv.Pair{}, err
	}
	return v.(kv.Pair), nil
}

func (c *callStore) GetAll(pattern string) ([]kv.Pair, error) {
	c.park()
	v, err := c.sys.f.Lookup(kv.QueryAll{Pattern: pattern})
	if err != nil {
		return nil, err
	}
	return v.([]kv.Pair), nil
}

func (c *callStore) Set(key, value string, ver uint64) (kv.Pair, error) {
	c.park()
	p, code := c.sys.propose(kv.Update{Op: kv.UpdateOpSet, KVPair: kv.Pair{Key: key, Value: value, Ver: ver}})
	if code == kv.ResultCodeVersionMismatch {
		return p, kv.ErrVersionMismatch
	}
	return p, nil
}

func (c *callStore) Delete(key string, ver uint64) error {
	c.park()
	_, code := c.sys.propose(kv.Update{Op: kv.UpdateOpDelete, KVPair: kv.Pair{Key: key, Ver: ver}})
	if code == kv.ResultCodeVersionMismatch {
		return kv.ErrVersionMismatch
	}
	return nil
}

func catErr(err error) string {
	switch {
	case err == nil:
		return "ok"
	case errors.Is(err, serrors.ErrTableExists):
		return "err exists"
	case errors.Is(err, serrors.ErrTableNotFound):
		return "err notfound"
	case errors.Is(err, serrors.ErrInvalidTableName):
		return "err invalidname"
	case errors.Is(err, kv.ErrVersionMismatch):
		return "err mismatch"
	case errors.Is(err, serrors.ErrLeaseNotAcquired):
		return "err notacquired"
	}
	return "err other"
}

type catCall struct {
	id   int
	desc string
	run  func(m *table.Manager) string
	node uint64
}

// startCall launches a manager call on its own goroutine with its own parking store and waits until
// it parks before its first store call or finishes.
func (s *metaSys) startCall(c catCall, st *callStore, m *table.Manager) parkEv {
	st.id = c.id
	go func() {
		res := c.run(m)
		s.parked <- parkEv{id: c.id, done: true, res: res}
	}()
	return <-s.parked
}

func evStr(e parkEv) string {
	if e.done {
		return "done " + e.res
	}
	return "parked"
}

func (s *metaSys) tablesLine(out *Out) {
	v, err := s.f.Lookup(kv.QueryAll{Pattern: table.VerifKeyPrefix + "*"})
	must(err)
	var ts []table.Table
	for _, p := range v.([]kv.Pair) {
		var t table.Table
		must(json.Unmarshal([]byte(p.Value), &t))
		ts = append(ts, t)
	}
	sort.Slice(ts, func(i, j int) bool { return ts[i].Name < ts[j].Name })
	var sb strings.Builder
	fmt.Fprintf(&sb, "ok %d", len(ts))
	for _, t := range ts {
		fmt.Fprintf(&sb, " %s %d %d", hs(t.Name), t.ClusterID, t.RecoverID)
	}
	out.Line("tables", sb.String())
	// the lease records, without their timestamps
	for _, n := range []string{"a", "b"} {
		p, err := s.f.Lookup(kv.QueryKey{Key: table.VerifKeyPrefix + n + "/lease"})
		if err != nil {
			out.Line("leaseof "+hs(n), "ok none")
			continue
		}
		var l table.Lease
		must(json.Unmarshal([]byte(p.(kv.Pair).Value), &l))
		out.Line("leaseof "+hs(n), fmt.Sprintf("ok %d %s", l.ID, b2i(l.Until.After(time.Now()))))
	}
}

// hCatalog: create / delete / id hand-out / lease / return calls of 2-3 managers over the real LFSM,
// interleaved at the granularity of single store calls by a seeded scheduler (all orders of up to
// three concurrent calls are reachable; the quick tier samples, the thorough tier samples more), with
// hostile table names in the pool, plus diffTables on random catalogue / running-shard sets.
func hCatalog(dir string) {
	out := NewOut(dir)
	defer out.Close()
	n := envInt("VERIF_N", 400)
	names := []string{"a", "b", "a", "b", "sys", "ab", "a/lease", "sys/idseq", "", strings.Repeat("n", 200), strings.Repeat("n", 201), "x\x00y", "a[b", "é",
		strings.Repeat("é", 100), strings.Repeat("é", 101), strings.Repeat("é", 150)}
	for sc := 0; sc < n; sc++ {
		r := newRand(int64(14000 + sc))
		out.Line("reset", "ok")
		sys := &metaSys{f: kv.NewLFSM()(1, 1).(*kv.LFSM), parked: make(chan parkEv)}
		nextID := 0
		stores := map[uint64]*callStore{}
		mgrs := map[uint64]*table.Manager{}
		for node := uint64(1); node <= 3; node++ {
			stores[node] = &callStore{sys: sys}
			mgrs[node] = table.NewManager(nil, nil, stores[node], table.Config{NodeID: node, Table: table.TableConfig{TableCacheSize: 8}})
		}
		busy := map[uint64]bool{}
		pendingCalls := map[int]catCall{}
		mkCall := func() catCall {
			nextID++
			node := uint64(1 + r.Intn(3))
			for busy[node] {
				node = node%3 + 1
			}
			name := names[r.Intn(len(names))]
			if r.Intn(3) > 0 {
				name = names[r.Intn(4)]
			}
			switch x := r.Intn(10); {
			case x < 3:
				return catCall{id: nextID, node: node, desc: fmt.Sprintf("create %s", hs(name)), run: func(m *table.Manager) string {
					t, err := m.VerifCreateTable(name)
					if err != nil {
						return catErr(err)
					}
					return fmt.Sprintf("table %s %d %d", hs(t.Name), t.ClusterID, t.RecoverID)
				}}
			case x < 5:
				return catCall{id: nextID, node: node, desc: fmt.Sprintf("delete %s", hs(name)), run: func(m *table.Manager) string { return catErr(m.DeleteTable(name)) }}
			case x < 8:
				dur := int64(3600)
				if r.Intn(3) == 0 {
					dur = -3600
				}
				ln := names[r.Intn(2)]
				return catCall{id: nextID, node: node, desc: fmt.Sprintf("lease %d %s %d", node, hs(ln), dur), run: func(m *table.Manager) string {
					return catErr(m.LeaseTable(ln, time.Duration(dur)*time.Second))
				}}
			default:
				ln := names[r.Intn(2)]
				return catCall{id: nextID, node: node, desc: fmt.Sprintf("return %d %s", node, hs(ln)), run: func(m *table.Manager) string {
					ok, err := m.ReturnTable(ln)
					if err != nil {
						return catErr(err)
					}
					return "bool " + b2i(ok)
				}}
			}
		}
		for step := 0; step < 30+r.Intn(30); step++ {
			if len(pendingCalls) < 3 && (len(pendingCalls) == 0 || r.Intn(3) == 0) {
				c := mkCall()
				ev := sys.startCall(c, stores[c.node], mgrs[c.node])
				out.Line(fmt.Sprintf("call %d %s", c.id, c.desc), evStr(ev))
				out.Count(strings.Fields(c.desc)[0])
				if !ev.done {
					pendingCalls[c.id] = c
					gates[c.id] = ev.gate
					busy[c.node] = true
				}
				continue
			}
			// let one parked call perform its next store call
			ids := make([]int, 0, len(pendingCalls))
			for id := range pendingCalls {
				ids = append(ids, id)
			}
			sort.Ints(ids)
			id := ids[r.Intn(len(ids))]
			close(gates[id])
			ev := <-sys.parked
			if ev.id != id {
				panic("scheduler: unexpected call progressed")
			}
			out.Line(fmt.Sprintf("sched %d", id), evStr(ev))
			if ev.done {
				busy[pendingCalls[id].node] = false
				delete(pendingCalls, id)
				delete(gates, id)
				if strings.HasPrefix(ev.res, "err mismatch") || strings.HasPrefix(ev.res, "err exists") {
					out.Count("lost_race_or_exists")
				}
			} else {
				gates[id] = ev.gate
			}
			if r.Intn(4) == 0 {
				sys.tablesLine(out)
			}
		}
		// drain
		for len(pendingCalls) > 0 {
			ids := make([]int, 0, len(pendingCalls))
			for id := range pendingCalls {
				ids = append(ids, id)
			}
			sort.Ints(ids)
			id := ids[0]
			close(gates[id])
			ev := <-sys.parked
			out.Line(fmt.Sprintf("sched %d", id), evStr(ev))
			if ev.done {
				delete(pendingCalls, id)
			} else {
				gates[id] = ev.gate
			}
		}
		sys.tablesLine(out)
		// diffTables on random sets
		for k := 0; k < 3; k++ {
			tabs := map[string]table.Table{}
			var sb strings.Builder
			nt := r.Intn(4)
			for i := 0; i < nt; i++ {
				t := table.Table{Name: fmt.Sprintf("t%d", i), ClusterID: uint64([]int{0, 9999, 10000, 10001, 10002, 10003}[r.Intn(6)]), RecoverID: uint64([]int{0, 0, 10001, 10004, 10005}[r.Intn(5)])}
				tabs[t.Name] = t
				fmt.Fprintf(&sb, " %d %d", t.ClusterID, t.RecoverID)
			}
			var running []dragonboat.ShardInfo
			var rb strings.Builder
			nr := r.Intn(5)
			for i := 0; i < nr; i++ {
				id := uint64([]int{1, 1000, 10000, 10001, 10002, 10004, 10006}[r.Intn(7)])
				running = append(running, dragonboat.ShardInfo{ShardID: id})
				fmt.Fprintf(&rb, " %d", id)
			}
			start, stop := table.VerifDiffTables(tabs, running)
			var st []uint64
			for id := range start {
				st = append(st, id)
			}
			sort.Slice(st, func(i, j int) bool { return st[i] < st[j] })
			sort.Slice(stop, func(i, j int) bool { return stop[i] < stop[j] })
			out.Line(fmt.Sprintf("diff %d%s %d%s", nt, sb.String(), nr, rb.String()), fmt.Sprintf("ok start %v stop %v", st, dedupU64(stop)))
			out.Count("diff")
		}
	}
}

var gates = map[int]chan struct{}{}

func dedupU64(xs []uint64) []uint64 {
	var out []uint64
	for i, x := range xs {
		if i == 0 || x != xs[i-1] {
			out = append(out, x)
		}
	}
	return out
}

var _ = rand.Int
