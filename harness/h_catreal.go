//go:build verif

package main

// Mode catreal (C14, C07): the catalogue model against a REAL single-node engine, one call at a time:
// create / delete / restore (Manager.Restore from a small backup stream) of a few names - one of them
// invalid - in random order.  After every call its outcome and the whole catalogue (names, shard ids,
// recovery ids) must be the model's (driver mode catalog, `runcall` = the call's store steps run to
// completion): in particular the id a restore draws from the sequence, that the table serves from
// exactly that id afterwards, and that the recovery id is cleared.

import (
	"fmt"
	"os"
	"sort"
	"strings"

	"github.com/jamf/regatta/replication/snapshot"
	"github.com/jamf/regatta/storage"
)

func init() { modes["catreal"] = hCatReal }

func catRealTables(out *Out, e *storage.Engine) {
	ts, err := e.GetTables()
	must(err)
	sort.Slice(ts, func(i, j int) bool { return ts[i].Name < ts[j].Name })
	var sb strings.Builder
	fmt.Fprintf(&sb, "ok %d", len(ts))
	for _, t := range ts {
		fmt.Fprintf(&sb, " %s %d %d", hs(t.Name), t.ClusterID, t.RecoverID)
	}
	out.Line("tables", sb.String())
}

func hCatReal(dir string) {
	out := NewOut(dir)
	defer out.Close()
	n := envInt("VERIF_N", 8)
	r := newRand(14500)
	e := newEngine(engineOpts{maxInMem: 6 * 1024 * 1024})
	defer e.Close()
	out.Line("reset", "ok")
	create := func(name string) {
		t, err := e.CreateTable(name)
		ans := "done " + catErr(err)
		if err == nil {
			ans = fmt.Sprintf("done table %s %d %d", hs(t.Name), t.ClusterID, t.RecoverID)
			waitTable(e, name)
		}
		out.Line("runcall create "+hs(name), ans)
		out.Count("create")
	}
	// a small stream to restore from
	create("src")
	putAll(e, "src", genContent(r, 5, false, 50))
	path, _ := streamToFile(e, "src", false)
	defer os.Remove(path)
	names := []string{"a", "b", "src", "a/b"}
	for i := 0; i < n; i++ {
		name := names[r.Intn(len(names))]
		switch r.Intn(6) {
		case 0, 1:
			create(name)
		case 2:
			out.Line("runcall delete "+hs(name), "done "+catErr(e.DeleteTable(name)))
			out.Count("delete")
		default:
			f, err := snapshot.OpenFile(path)
			must(err)
			err = e.Restore(name, f)
			f.Close()
			out.Line("runcall restore "+hs(name), "done "+catErr(err))
			out.Count("restore")
			if err == nil {
				waitTable(e, name)
			}
		}
		catRealTables(out, e)
	}
}
