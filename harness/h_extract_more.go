package main

import "strings"

// extractMore is extended as more areas are modelled.
func extractMore(sb *strings.Builder) {}
