package main

import (
	"fmt"
	"strings"

	"github.com/jamf/regatta/regattaserver"
)

// extractMore is extended as more areas are modelled.
func extractMore(sb *strings.Builder) {
	fmt.Fprintf(sb, "def defaultMaxGRPCSize : Nat := %d\n", regattaserver.DefaultMaxGRPCSize)
}
