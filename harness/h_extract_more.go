package main

import (
	"fmt"
	"strings"

	"github.com/jamf/regatta/regattapb"
	"github.com/jamf/regatta/regattaserver"
	"github.com/jamf/regatta/storage/table"
)

// extractMore is extended as more areas are modelled.
func extractMore(sb *strings.Builder) {
	fmt.Fprintf(sb, "def defaultMaxGRPCSize : Nat := %d\n", regattaserver.DefaultMaxGRPCSize)
	fmt.Fprintf(sb, "def maxTableNameLen : Nat := %d\n", table.VerifMaxTableNameLen)
	fmt.Fprintf(sb, "def tableIDsRangeStart : Nat := %d\n", table.VerifTableIDsRangeStart)
	fmt.Fprintf(sb, "def metaKeyPrefix : String := %q\n", table.VerifKeyPrefix)
	fmt.Fprintf(sb, "def metaSequenceKey : String := %q\n", table.VerifSequenceKey)
	fmt.Fprintf(sb, "def cmdTypePut : Nat := %d\n", regattapb.Command_PUT)
	fmt.Fprintf(sb, "def cmdTypeDummy : Nat := %d\n", regattapb.Command_DUMMY)
	fmt.Fprintf(sb, "def cmdTypePutBatch : Nat := %d\n", regattapb.Command_PUT_BATCH)
}
