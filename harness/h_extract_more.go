package main

import (
	"fmt"
	"strings"

	"github.com/jamf/regatta/regattaserver"
	"github.com/jamf/regatta/storage/table"
)

// extractMore is extended as more areas are modelled.
func extractMore(sb *strings.Builder) {
	fmt.Fprintf(sb, "def defaultMaxGRPCSize : Nat := %d\n", regattaserver.DefaultMaxGRPCSize)
	fmt.Fprintf(sb, "def maxTableNameLen : Nat := %d\n", table.VerifMaxTableNameLen)
	fmt.Fprintf(sb, "def tableIDsRangeStart : Nat := %d\n", table.VerifTableIDsRangeStart)
}
