//go:build verif

package main

// Mode e2e (C01 C02 C09 C10 end to end): a real leader PROCESS (the production binary) driven
// through its public gRPC API with random puts, range deletes, transactions, unary and streamed
// range reads and read-only transactions on one table.  Every acknowledged write is replayed in
// the model as the log entry with the revision the server reported, and the API's answers - previous
// pairs, deleted counts, transaction responses, range pages with their `more` / `count`, stream
// chunks - must be the model's.  The protocol lines are those of the rpath mode (driver mode fsm).

import (
	"context"
	"fmt"
	"io"
	"strings"

	"github.com/jamf/regatta/regattapb"
)

func init() { modes["e2e"] = hE2E }

func hE2E(dir string) {
	out := NewOut(dir)
	defer out.Close()
	n := envInt("VERIF_N", 400)
	leader := startProc("leader")
	defer leader.stop()
	if !leader.waitReady(nil) {
		out.Line("start leader", "err not-ready "+strings.ReplaceAll(leader.logTail(), "\n", " | "))
		return
	}
	kv := regattapb.NewKVClient(leader.conn)
	tc := regattapb.NewTablesClient(leader.conn)
	// C19 / C10: the term reported in response headers never moves backwards, revisions of
	// acknowledged writes strictly increase per table
	var lastTerm, lastRev, shardID uint64
	termsOK, revsOK := true, true
	seeHeader := func(h *regattapb.ResponseHeader, write bool) {
		if h == nil {
			return
		}
		if h.RaftTerm < lastTerm {
			termsOK = false
		}
		lastTerm = h.RaftTerm
		// a single-node cluster: replica 1 answers, the leader - once there is one - is replica 1, the shard
		// id is the table's (beyond the reserved range) and the same in every answer about the table
		if h.ReplicaId != 1 || h.RaftLeaderId > 1 || h.ShardId <= 10000 || (shardID != 0 && h.ShardId != shardID) {
			termsOK = false
			out.Count(fmt.Sprintf("header_fields_replica%d_leader%d_shard%d", h.ReplicaId, h.RaftLeaderId, h.ShardId))
		}
		shardID = h.ShardId
		if write {
			if h.Revision <= lastRev {
				revsOK = false
			}
			lastRev = h.Revision
		}
	}
	for sc := 0; sc < 1+n/200; sc++ {
		r := newRand(int64(9800 + sc))
		g := newFsmGen(r)
		m := len(g.keys)
		tname := []byte(fmt.Sprintf("e%d", sc))
		ctx, cancel := ctxT()
		_, err := tc.Create(ctx, &regattapb.CreateTableRequest{Name: string(tname)})
		cancel()
		must(err)
		for i := 0; i < 300; i++ {
			ctx, cancel := ctxT()
			_, err := kv.Range(ctx, &regattapb.RangeRequest{Table: tname, Key: []byte("x"), Linearizable: true})
			cancel()
			if err == nil {
				break
			}
		}
		lastRev, lastTerm, shardID = 0, 0, 0 // per table: every table is a Raft shard with terms of its own
		out.Line("reset", "ok")
		out.Line("new 0", "ok")
		out.Line("new 1", "ok")
		steps := 200
		if n < 200 {
			steps = n
		}
		for step := 0; step < steps*4 && out.Stats["useful"] < steps*(sc+1) && leader.alive(); step++ {
			ctx, cancel := ctxT()
			switch k := r.Intn(10); {
			case k < 5: // a write
				c := g.cmd(m, 0)
				var rev uint64
				var err error
				what, rendered := "", ""
				var cmd *regattapb.Command
				switch c.Type {
				case regattapb.Command_PUT:
					var resp *regattapb.PutResponse
					resp, err = kv.Put(ctx, &regattapb.PutRequest{Table: tname, Key: c.Kv.Key, Value: c.Kv.Value, PrevKv: c.PrevKvs})
					if err == nil {
						seeHeader(resp.Header, true)
						rev = resp.Header.Revision
						rendered = aResp(&regattapb.ResponseOp{Response: &regattapb.ResponseOp_ResponsePut{ResponsePut: &regattapb.ResponseOp_Put{PrevKv: resp.PrevKv}}})
					}
					what = "put"
					cmd = &regattapb.Command{Type: regattapb.Command_PUT, Kv: &regattapb.KeyValue{Key: c.Kv.Key, Value: c.Kv.Value}, PrevKvs: c.PrevKvs}
				case regattapb.Command_DELETE:
					var resp *regattapb.DeleteRangeResponse
					resp, err = kv.DeleteRange(ctx, &regattapb.DeleteRangeRequest{Table: tname, Key: c.Kv.Key, RangeEnd: c.RangeEnd, PrevKv: c.PrevKvs, Count: c.Count})
					if err == nil {
						seeHeader(resp.Header, true)
						rev = resp.Header.Revision
						rendered = aResp(&regattapb.ResponseOp{Response: &regattapb.ResponseOp_ResponseDeleteRange{ResponseDeleteRange: &regattapb.ResponseOp_DeleteRange{Deleted: resp.Deleted, PrevKvs: resp.PrevKvs}}})
					}
					what = "del"
					// over the wire a bytes field is empty or not: an empty range_end arrives as nil
					re := c.RangeEnd
					if len(re) == 0 {
						re = nil
					}
					cmd = &regattapb.Command{Type: regattapb.Command_DELETE, Kv: &regattapb.KeyValue{Key: c.Kv.Key}, PrevKvs: c.PrevKvs, RangeEnd: re, Count: c.Count}
				case regattapb.Command_TXN:
					rq := &regattapb.TxnRequest{Table: tname, Compare: c.Txn.Compare, Success: c.Txn.Success, Failure: c.Txn.Failure}
					if txnIsReadonly(rq) {
						cancel()
						continue
					}
					var resp *regattapb.TxnResponse
					resp, err = kv.Txn(ctx, rq)
					if err == nil {
						seeHeader(resp.Header, true)
						rev = resp.Header.Revision
						rendered = fmt.Sprintf("%s %s", b2i(resp.Succeeded), aResps(resp.Responses))
					}
					what = "txn"
					cmd = &regattapb.Command{Type: regattapb.Command_TXN, Txn: &regattapb.Txn{Compare: c.Txn.Compare, Success: c.Txn.Success, Failure: c.Txn.Failure}}
				default:
					cancel()
					continue
				}
				cancel()
				if err != nil {
					out.Count("refused")
					continue // refused by validation: no effect (C16)
				}
				e := mkEntry(rev, cmd)
				out.Line("apply 0 "+e.render(), "ok")
				out.Line("apply 1 "+e.render(), "ok")
				out.Line("acked "+what, fmt.Sprintf("rev %d %s", rev, rendered))
				out.Count("acked_" + what)
				out.Count("useful")
			default: // a read
				q := g.rangeReq(m)
				if r.Intn(3) == 0 {
					q = fullRange()
				}
				lin := r.Intn(2) == 0
				rq := &regattapb.RangeRequest{Table: tname, Key: q.Key, RangeEnd: q.RangeEnd, Limit: q.Limit, KeysOnly: q.KeysOnly, CountOnly: q.CountOnly, Linearizable: lin}
				// as the wire delivers it
				wq := &regattapb.RequestOp_Range{Key: q.Key, RangeEnd: q.RangeEnd, Limit: q.Limit, KeysOnly: q.KeysOnly, CountOnly: q.CountOnly}
				if len(wq.RangeEnd) == 0 {
					wq.RangeEnd = nil
				}
				if len(wq.Key) == 0 {
					wq.Key = nil
				}
				switch r.Intn(3) {
				case 0:
					resp, err := kv.Range(ctx, rq)
					if err != nil {
						out.Count("refused")
						break
					}
					seeHeader(resp.Header, false)
					out.Line(fmt.Sprintf("rread range %s %s", b2i(lin), rRange(wq)), "ok "+aRR(&regattapb.ResponseOp_Range{Kvs: resp.Kvs, More: resp.More, Count: resp.Count}))
					out.Count("rread_range")
					out.Count("useful")
				case 1:
					st, err := kv.IterateRange(ctx, rq)
					var sb []byte
					nch := 0
					for err == nil {
						var resp *regattapb.RangeResponse
						resp, err = st.Recv()
						if err == nil {
							sb = append(sb, (" " + aRR(&regattapb.ResponseOp_Range{Kvs: resp.Kvs, More: resp.More, Count: resp.Count}))...)
							nch++
						}
					}
					if err != io.EOF {
						out.Count("refused")
						break
					}
					out.Line(fmt.Sprintf("rread iter %s %s", b2i(lin), rRange(wq)), fmt.Sprintf("ok %d%s", nch, sb))
					out.Count("rread_iter")
					out.Count("useful")
				default:
					t := g.txn(m, true)
					if r.Intn(2) == 0 {
						t.Compare = nil
					}
					trq := &regattapb.TxnRequest{Table: tname, Compare: t.Compare, Success: t.Success, Failure: t.Failure}
					if !txnIsReadonly(trq) {
						break
					}
					resp, err := kv.Txn(ctx, trq)
					if err != nil {
						out.Count("refused")
						break
					}
					// what the server saw of the request
					b, _ := (&regattapb.Txn{Compare: t.Compare, Success: t.Success, Failure: t.Failure}).MarshalVT()
					seen := &regattapb.Txn{}
					must(seen.UnmarshalVT(b))
					out.Line(fmt.Sprintf("rread txn 0 %s", rTxn(seen.Compare, seen.Success, seen.Failure)), fmt.Sprintf("ok %s %s", b2i(resp.Succeeded), aResps(resp.Responses)))
					out.Count("rread_txn")
					out.Count("useful")
				}
				cancel()
			}
		}
		// a deterministic paging sweep at the end of every table's history: three more keys, then the whole
		// table unary and streamed, with limits around the number of pairs, in the full, keys-only and
		// count-only variants (the `more` flag, the count and the flags as the API layers pass them on)
		for _, k := range []string{"pg1", "pg2", "pg3"} {
			ctx, cancel := ctxT()
			resp, err := kv.Put(ctx, &regattapb.PutRequest{Table: tname, Key: []byte(k), Value: []byte("v" + k)})
			cancel()
			if err != nil {
				out.Count("refused")
				continue
			}
			seeHeader(resp.Header, true)
			e := mkEntry(resp.Header.Revision, &regattapb.Command{Type: regattapb.Command_PUT, Kv: &regattapb.KeyValue{Key: []byte(k), Value: []byte("v" + k)}})
			out.Line("apply 0 "+e.render(), "ok")
			out.Line("apply 1 "+e.render(), "ok")
			out.Line("acked put", fmt.Sprintf("rev %d %s", resp.Header.Revision, aResp(&regattapb.ResponseOp{Response: &regattapb.ResponseOp_ResponsePut{ResponsePut: &regattapb.ResponseOp_Put{}}})))
		}
		for _, lim := range []int64{1, 2, 3, 0} {
			for variant := 0; variant < 3; variant++ {
				wq := &regattapb.RequestOp_Range{Key: []byte{0}, RangeEnd: []byte{0}, Limit: lim, KeysOnly: variant == 1, CountOnly: variant == 2}
				rq := &regattapb.RangeRequest{Table: tname, Key: wq.Key, RangeEnd: wq.RangeEnd, Limit: lim, KeysOnly: wq.KeysOnly, CountOnly: wq.CountOnly, Linearizable: true}
				ctx, cancel := ctxT()
				if resp, err := kv.Range(ctx, rq); err == nil {
					out.Line(fmt.Sprintf("rread range 1 %s", rRange(wq)), "ok "+aRR(&regattapb.ResponseOp_Range{Kvs: resp.Kvs, More: resp.More, Count: resp.Count}))
					out.Count("sweep_range")
				}
				if st, err := kv.IterateRange(ctx, rq); err == nil {
					var sb []byte
					nch := 0
					for {
						resp, err := st.Recv()
						if err != nil {
							if err == io.EOF {
								out.Line(fmt.Sprintf("rread iter 1 %s", rRange(wq)), fmt.Sprintf("ok %d%s", nch, sb))
								out.Count("sweep_iter")
							}
							break
						}
						sb = append(sb, (" " + aRR(&regattapb.ResponseOp_Range{Kvs: resp.Kvs, More: resp.More, Count: resp.Count}))...)
						nch++
					}
				}
				cancel()
			}
		}
	}
	hs := "ok"
	if !termsOK {
		hs = "TERM-MOVED-BACKWARDS"
	} else if !revsOK {
		hs = "REVISION-NOT-INCREASING"
	}
	out.Line("headers", hs)
	if leader.alive() {
		out.Line("alive", "ok")
	} else {
		out.Line("alive", "DIED")
	}
	_ = context.Background
}
