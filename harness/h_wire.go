package main

import (
	"bytes"
	"context"
	"encoding/binary"
	"fmt"
	"hash/fnv"
	"io"
	"math/rand"
	"os"
	"strings"
	"sync"
	"sync/atomic"

	"github.com/jamf/regatta/regattapb"
	_ "github.com/jamf/regatta/regattaserver/encoding/gzip"
	_ "github.com/jamf/regatta/regattaserver/encoding/proto"
	_ "github.com/jamf/regatta/regattaserver/encoding/snappy"
	_ "github.com/jamf/regatta/regattaserver/encoding/zstd"
	"github.com/jamf/regatta/replication/snapshot"
	"google.golang.org/grpc"
	"google.golang.org/grpc/encoding"
	"google.golang.org/grpc/metadata"
	pb "google.golang.org/protobuf/proto"
)

func init() {
	modes["wire"] = hWire
	modes["frames"] = hFrames
}

// ---------------------------------------------------------------- messages through the registered codec

type wgen struct{ r *rand.Rand }

func (g wgen) bs(allowNil bool) []byte {
	switch g.r.Intn(6) {
	case 0:
		if allowNil {
			return nil
		}
		return []byte{}
	case 1:
		return []byte{}
	case 2:
		return bytes.Repeat([]byte{byte(g.r.Intn(256))}, 100+g.r.Intn(200)) // length needs a 2-byte varint
	default:
		b := make([]byte, 1+g.r.Intn(5))
		g.r.Read(b)
		return b
	}
}

func (g wgen) num() uint64 {
	switch g.r.Intn(5) {
	case 0:
		return 0
	case 1:
		return uint64(g.r.Intn(128))
	case 2:
		return uint64(128 + g.r.Intn(100000))
	case 3:
		return 1<<63 - 1 - uint64(g.r.Intn(1000))
	default:
		return uint64(g.r.Int63())
	}
}

func (g wgen) kv() *regattapb.KeyValue {
	kv := &regattapb.KeyValue{Key: g.bs(true), Value: g.bs(true)}
	if g.r.Intn(4) == 0 {
		kv.CreateRevision = int64(g.num() >> 1)
		kv.ModRevision = int64(g.num() >> 1)
	}
	return kv
}

func wKV(kv *regattapb.KeyValue) string {
	return fmt.Sprintf("K %s %d %d %s", hxn(kv.Key), kv.CreateRevision, kv.ModRevision, hxn(kv.Value))
}

func (g wgen) reqOp() *regattapb.RequestOp {
	switch g.r.Intn(4) {
	case 0:
		return &regattapb.RequestOp{Request: &regattapb.RequestOp_RequestRange{RequestRange: &regattapb.RequestOp_Range{Key: g.bs(true), RangeEnd: g.bs(true), Limit: int64(g.num() >> 1), KeysOnly: g.r.Intn(2) == 0, CountOnly: g.r.Intn(2) == 0}}}
	case 1:
		return &regattapb.RequestOp{Request: &regattapb.RequestOp_RequestPut{RequestPut: &regattapb.RequestOp_Put{Key: g.bs(true), Value: g.bs(true), PrevKv: g.r.Intn(2) == 0}}}
	case 2:
		return &regattapb.RequestOp{Request: &regattapb.RequestOp_RequestDeleteRange{RequestDeleteRange: &regattapb.RequestOp_DeleteRange{Key: g.bs(true), RangeEnd: g.bs(true), PrevKv: g.r.Intn(2) == 0, Count: g.r.Intn(2) == 0}}}
	}
	return &regattapb.RequestOp{}
}

func wReqOp(o *regattapb.RequestOp) string {
	switch x := o.Request.(type) {
	case *regattapb.RequestOp_RequestRange:
		q := x.RequestRange
		return fmt.Sprintf("r %s %s %d %s %s", hxn(q.Key), hxn(q.RangeEnd), q.Limit, b2i(q.KeysOnly), b2i(q.CountOnly))
	case *regattapb.RequestOp_RequestPut:
		return fmt.Sprintf("p %s %s %s", hxn(x.RequestPut.Key), hxn(x.RequestPut.Value), b2i(x.RequestPut.PrevKv))
	case *regattapb.RequestOp_RequestDeleteRange:
		d := x.RequestDeleteRange
		return fmt.Sprintf("d %s %s %s %s", hxn(d.Key), hxn(d.RangeEnd), b2i(d.PrevKv), b2i(d.Count))
	}
	return "none"
}

func (g wgen) compare() *regattapb.Compare {
	c := &regattapb.Compare{Result: regattapb.Compare_CompareResult(g.r.Intn(4)), Key: g.bs(true), RangeEnd: g.bs(true)}
	if g.r.Intn(3) > 0 {
		c.TargetUnion = &regattapb.Compare_Value{Value: g.bs(true)}
	}
	return c
}

func wCompare(c *regattapb.Compare) string {
	v := "-"
	if c.TargetUnion != nil {
		v = "v" + hxn(c.GetValue())
	}
	return fmt.Sprintf("%d %d %s %s %s", c.Result, c.Target, hxn(c.Key), v, hxn(c.RangeEnd))
}

func (g wgen) command(depth int) *regattapb.Command {
	c := &regattapb.Command{Table: g.bs(true), Type: regattapb.Command_CommandType(g.r.Intn(7))}
	if g.r.Intn(3) > 0 {
		c.Kv = g.kv()
	}
	if g.r.Intn(3) == 0 {
		v := g.num()
		c.LeaderIndex = &v
	}
	for i := g.r.Intn(3); i > 0; i-- {
		c.Batch = append(c.Batch, g.kv())
	}
	if g.r.Intn(3) == 0 {
		t := &regattapb.Txn{}
		for i := g.r.Intn(3); i > 0; i-- {
			t.Compare = append(t.Compare, g.compare())
		}
		for i := g.r.Intn(3); i > 0; i-- {
			t.Success = append(t.Success, g.reqOp())
		}
		for i := g.r.Intn(3); i > 0; i-- {
			t.Failure = append(t.Failure, g.reqOp())
		}
		c.Txn = t
	}
	switch g.r.Intn(4) {
	case 0:
		c.RangeEnd = []byte{}
	case 1:
		c.RangeEnd = g.bs(false)
	}
	c.PrevKvs = g.r.Intn(2) == 0
	c.Count = g.r.Intn(2) == 0
	if depth < 2 {
		for i := g.r.Intn(3); i > 0; i-- {
			c.Sequence = append(c.Sequence, g.command(depth+1))
		}
	}
	return c
}

func wCommand(c *regattapb.Command) string {
	var sb strings.Builder
	fmt.Fprintf(&sb, "C %s %d ", hxn(c.Table), c.Type)
	if c.Kv == nil {
		sb.WriteString("-")
	} else {
		sb.WriteString(wKV(c.Kv))
	}
	if c.LeaderIndex == nil {
		sb.WriteString(" -")
	} else {
		fmt.Fprintf(&sb, " %d", *c.LeaderIndex)
	}
	fmt.Fprintf(&sb, " %d", len(c.Batch))
	for _, kv := range c.Batch {
		sb.WriteString(" " + wKV(kv))
	}
	if c.Txn == nil {
		sb.WriteString(" -")
	} else {
		fmt.Fprintf(&sb, " T %d", len(c.Txn.Compare))
		for _, x := range c.Txn.Compare {
			sb.WriteString(" " + wCompare(x))
		}
		fmt.Fprintf(&sb, " %d", len(c.Txn.Success))
		for _, x := range c.Txn.Success {
			sb.WriteString(" " + wReqOp(x))
		}
		fmt.Fprintf(&sb, " %d", len(c.Txn.Failure))
		for _, x := range c.Txn.Failure {
			sb.WriteString(" " + wReqOp(x))
		}
	}
	fmt.Fprintf(&sb, " %s %s %d", hx(c.RangeEnd), b2i(c.PrevKvs), len(c.Sequence))
	for _, s := range c.Sequence {
		sb.WriteString(" " + wCommand(s))
	}
	sb.WriteString(" " + b2i(c.Count))
	return sb.String()
}

// hWire: random messages through the registered "proto" codec: the bytes must be what the Lean
// encoder produces; decoding them into a fresh object and (for the type the stream readers recycle)
// into a pooled one must give the original message back.
func hWire(dir string) {
	out := NewOut(dir)
	defer out.Close()
	n := envInt("VERIF_N", 3000)
	codec := encoding.GetCodec("proto")
	if codec == nil {
		panic("proto codec not registered")
	}
	r := newRand(18)
	g := wgen{r}
	pooledCmdMismatch := 0
	prevCmd := &regattapb.Command{RangeEnd: []byte("x"), Table: []byte("t")}
	for i := 0; i < n; i++ {
		switch r.Intn(5) {
		case 0: // SnapshotChunk, decoded into a recycled object as snapshot.Reader does
			c := &regattapb.SnapshotChunk{Data: g.bs(true), Len: g.num(), Index: g.num()}
			b, err := codec.Marshal(c)
			must(err)
			fresh := &regattapb.SnapshotChunk{}
			must(codec.Unmarshal(b, fresh))
			// dirty a pooled object with a differently shaped message first
			p := regattapb.SnapshotChunkFromVTPool()
			must(codec.Unmarshal(mustMarshal(codec, &regattapb.SnapshotChunk{Data: bytes.Repeat([]byte{7}, 50), Len: 50, Index: 9}), p))
			p.ResetVT()
			must(codec.Unmarshal(b, p))
			okF := pb.Equal(fresh, c)
			okP := bytes.Equal(p.Data, c.Data) && p.Len == c.Len && p.Index == c.Index
			p.ReturnToVTPool()
			out.Line(fmt.Sprintf("msg S %s %d %d", hxn(c.Data), c.Len, c.Index), fmt.Sprintf("ok %s %s %s", hxn(b), b2i(okF), b2i(okP)))
			out.Count("chunk")
		case 1:
			kv := g.kv()
			b, err := codec.Marshal(kv)
			must(err)
			fresh := &regattapb.KeyValue{}
			must(codec.Unmarshal(append([]byte{}, b...), fresh))
			out.Line("msg "+wKV(kv), fmt.Sprintf("ok %s %s 1", hxn(b), b2i(pb.Equal(fresh, kv))))
			out.Count("kv")
		default:
			c := g.command(0)
			b, err := codec.Marshal(c)
			must(err)
			fresh := &regattapb.Command{}
			must(codec.Unmarshal(append([]byte{}, b...), fresh))
			out.Count("command")
			// decoded into a recycled object: the receiver is first filled with the PREVIOUS generated
			// command (batches with values and revisions, nested sequences, transactions) and a
			// range_end, reset, then decoded into.  Known finding K7: a Command recycled by ResetVT keeps
			// a non-nil empty RangeEnd (here and in the retained nested commands); that difference -
			// and only that one - is counted for the kf line and taken out; whatever else differs from
			// the original (a stale batch value, revision, nested field) is the third flag of the line.
			p := regattapb.CommandFromVTPool()
			dirty := pb.Clone(prevCmd).(*regattapb.Command)
			if dirty.RangeEnd == nil {
				dirty.RangeEnd = []byte("x")
			}
			must(p.UnmarshalVT(mustMarshal(codec, dirty)))
			p.ResetVT()
			must(p.UnmarshalVT(b))
			if k7 := stripK7(p, c); k7 > 0 {
				pooledCmdMismatch++
			}
			okP := pb.Equal(p, c)
			if !okP {
				out.Stats["pooled_command_other_mismatch"]++
			}
			out.Line("msg "+wCommand(c), fmt.Sprintf("ok %s %s %s", hxn(b), b2i(pb.Equal(fresh, c)), b2i(okP)))
			prevCmd = c
		}
	}
	if pooledCmdMismatch > 0 {
		out.Line("kf K7 pooled-command", "ok mismatch")
	} else {
		out.Line("kf K7 pooled-command", "ok same")
	}
	out.Stats["pooled_command_mismatches"] = pooledCmdMismatch
}

// stripK7 removes known finding K7 from a decoded pooled command: wherever the original has no
// range_end and the recycled receiver shows an empty non-nil one, the receiver's is set to nil.
// Returns how many places that was.
func stripK7(p, c *regattapb.Command) int {
	n := 0
	if c.RangeEnd == nil && p.RangeEnd != nil && len(p.RangeEnd) == 0 {
		p.RangeEnd = nil
		n++
	}
	for i := range c.Sequence {
		if i < len(p.Sequence) && p.Sequence[i] != nil && c.Sequence[i] != nil {
			n += stripK7(p.Sequence[i], c.Sequence[i])
		}
	}
	return n
}

func mustMarshal(c encoding.Codec, m interface{}) []byte {
	b, err := c.Marshal(m)
	must(err)
	return b
}

// ---------------------------------------------------------------- snapshot file framing, chunk stream, compressors

type lcg struct{ x uint64 }

func (l *lcg) next() uint64 {
	l.x = (l.x*1103515245 + 12345) % 2147483648
	return l.x
}

// genMsgs: the message sequence both sides derive from (seed, n, min, max)
func genMsgs(seed uint64, n, min, max int) [][]byte {
	l := &lcg{x: seed}
	ms := make([][]byte, n)
	for i := range ms {
		sz := min + int(l.next()%uint64(max-min+1))
		b := make([]byte, sz)
		for j := range b {
			b[j] = byte((uint64(i)*31 + uint64(j)*7 + l.x) % 251)
		}
		ms[i] = b
	}
	return ms
}

func framesDigest(ms [][]byte) string {
	h := fnv.New64a()
	var lb [8]byte
	for _, m := range ms {
		binary.LittleEndian.PutUint64(lb[:], uint64(len(m)))
		h.Write(lb[:])
		h.Write(m)
	}
	return fmt.Sprintf("%d:%d", len(ms), h.Sum64())
}

func readAllFrames(path string, maxLen int) ([][]byte, error) {
	f, err := snapshot.OpenFile(path)
	if err != nil {
		return nil, err
	}
	defer f.Close()
	var ms [][]byte
	buf := make([]byte, maxLen+16)
	for {
		n, err := f.Read(buf)
		if err == io.EOF {
			return ms, nil
		}
		if err != nil {
			return ms, err
		}
		ms = append(ms, append([]byte{}, buf[:n]...))
	}
}

type chunkStream struct {
	chunks [][]byte // marshalled SnapshotChunk messages, as they travel
	pos    int
	codec  encoding.Codec
}

func (s *chunkStream) Send(c *regattapb.SnapshotChunk) error {
	s.chunks = append(s.chunks, mustMarshal(s.codec, c))
	return nil
}
func (s *chunkStream) SetHeader(metadata.MD) error  { return nil }
func (s *chunkStream) SendHeader(metadata.MD) error { return nil }
func (s *chunkStream) SetTrailer(metadata.MD)       {}
func (s *chunkStream) Context() context.Context     { return context.Background() }
func (s *chunkStream) SendMsg(interface{}) error    { return nil }
func (s *chunkStream) Header() (metadata.MD, error) { return nil, nil }
func (s *chunkStream) Trailer() metadata.MD         { return nil }
func (s *chunkStream) CloseSend() error             { return nil }
func (s *chunkStream) Recv() (*regattapb.SnapshotChunk, error) {
	c := &regattapb.SnapshotChunk{}
	return c, s.RecvMsg(c)
}
func (s *chunkStream) RecvMsg(m interface{}) error {
	if s.pos >= len(s.chunks) {
		return io.EOF
	}
	b := s.chunks[s.pos]
	s.pos++
	return s.codec.Unmarshal(b, m)
}

var _ grpc.ServerStream = (*chunkStream)(nil)

// randReader returns reads of random sizes (what bufio / the file system may do).
type randReader struct {
	r   io.Reader
	rnd *rand.Rand
}

func (rr randReader) Read(p []byte) (int, error) {
	n := 1 + rr.rnd.Intn(len(p))
	if rr.rnd.Intn(3) == 0 {
		n = 1 + rr.rnd.Intn(4096)
		if n > len(p) {
			n = len(p)
		}
	}
	return rr.r.Read(p[:n])
}

// hFrames: command sequences written to a real snapshot file, read back message-wise; then the raw
// file shipped as a chunk stream (Writer.ReadFrom over reads of random sizes, chunks marshalled by
// the codec, Reader.WriteTo with its pooled chunk object) into a second file and read back again;
// and the three registered compressors under concurrent use of their pooled state.
func hFrames(dir string) {
	out := NewOut(dir)
	defer out.Close()
	n := envInt("VERIF_N", 12)
	r := newRand(181)
	codec := encoding.GetCodec("proto")
	for i := 0; i < n; i++ {
		seed := uint64(1 + r.Intn(1<<30))
		cnt, min, max := 2000+r.Intn(20000), 1+r.Intn(60), 80+r.Intn(200)
		switch r.Intn(4) {
		case 0:
			cnt, min, max = 5+r.Intn(40), 10000, 300000 // few large messages
		case 1:
			cnt, min, max = r.Intn(4), 1, 10
		}
		ms := genMsgs(seed, cnt, min, max)
		op := fmt.Sprintf("file %d %d %d %d", seed, cnt, min, max)
		ans := guard(func() string {
			f, err := snapshot.NewTemp()
			must(err)
			defer os.Remove(f.Path())
			for _, m := range ms {
				if _, err := f.Write(m); err != nil {
					return "err write"
				}
			}
			if err := f.Sync(); err != nil {
				return "err sync"
			}
			must(f.Close())
			back, err := readAllFrames(f.Path(), max)
			if err != nil {
				return "err read " + framesDigest(back)
			}
			// ship the raw file as a chunk stream into a second file
			raw, err := os.Open(f.Path())
			must(err)
			defer raw.Close()
			st := &chunkStream{codec: codec}
			if _, err := (&snapshot.Writer{Sender: st}).ReadFrom(randReader{raw, r}); err != nil {
				return "err send"
			}
			dst, err := os.CreateTemp("", "verif-frames-*.bin")
			must(err)
			defer os.Remove(dst.Name())
			if _, err := (snapshot.Reader{Stream: st}).WriteTo(dst); err != nil {
				return "err recv"
			}
			must(dst.Close())
			back2, err := readAllFrames(dst.Name(), max)
			if err != nil {
				return "err read2 " + framesDigest(back2)
			}
			out.Stats["chunks"] += len(st.chunks)
			return "ok " + framesDigest(back) + " " + framesDigest(back2)
		})
		out.Line(op, ans)
		out.Count("file")
	}
	// arbitrary Writer.Write calls - slices of any size, also empty ones, also after large ones - through
	// the real Reader.WriteTo and its recycled chunk object
	for i := 0; i < n*4; i++ {
		st := &chunkStream{codec: codec}
		w := &snapshot.Writer{Sender: st}
		var pieces []string
		for k := 1 + r.Intn(7); k > 0; k-- {
			var p []byte
			switch r.Intn(5) {
			case 0:
				p = []byte{}
			case 1:
				p = nil
			case 2:
				p = bytes.Repeat([]byte{byte(r.Intn(256))}, 100+r.Intn(3000))
			default:
				p = make([]byte, 1+r.Intn(12))
				r.Read(p)
			}
			if _, err := w.Write(p); err != nil {
				panic(err)
			}
			pieces = append(pieces, hx(p))
		}
		var buf bytes.Buffer
		ans := guard(func() string {
			if _, err := (snapshot.Reader{Stream: st}).WriteTo(&buf); err != nil {
				return "err recv"
			}
			return "ok " + hxn(buf.Bytes()) // an empty buffer has a nil slice: nothing was written either way
		})
		out.Line("ship "+strings.Join(pieces, " "), ans)
		out.Count("ship")
	}
	// compressors: random payloads through every registered compressor from many goroutines at once
	for _, name := range []string{"gzip", "snappy", "zstd"} {
		comp := encoding.GetCompressor(name)
		if comp == nil {
			out.Line("compress "+name, "err not-registered")
			continue
		}
		var failures int64
		var wg sync.WaitGroup
		workers, iters := 32, envInt("VERIF_COMPRESS_ITERS", 150)
		for w := 0; w < workers; w++ {
			wg.Add(1)
			go func(w int) {
				defer wg.Done()
				defer func() {
					if recover() != nil {
						atomic.AddInt64(&failures, 1)
					}
				}()
				rr := rand.New(rand.NewSource(seedFromEnv()*977 + int64(w)))
				for it := 0; it < iters; it++ {
					sz := rr.Intn(3000)
					if rr.Intn(20) == 0 {
						sz = rr.Intn(1 << 20)
					}
					payload := make([]byte, sz)
					if rr.Intn(2) == 0 {
						rr.Read(payload)
					}
					var buf bytes.Buffer
					wc, err := comp.Compress(&buf)
					if err != nil {
						atomic.AddInt64(&failures, 1)
						continue
					}
					// written in pieces, as gRPC does
					for off := 0; off < len(payload); {
						k := 1 + rr.Intn(len(payload)-off)
						wc.Write(payload[off : off+k])
						off += k
					}
					if err := wc.Close(); err != nil {
						atomic.AddInt64(&failures, 1)
						continue
					}
					rd, err := comp.Decompress(bytes.NewReader(buf.Bytes()))
					if err != nil {
						atomic.AddInt64(&failures, 1)
						continue
					}
					got, err := io.ReadAll(rd)
					if err != nil || !bytes.Equal(got, payload) {
						atomic.AddInt64(&failures, 1)
					}
				}
			}(w)
		}
		wg.Wait()
		ans := "ok"
		if failures > 0 {
			ans = fmt.Sprintf("err %d-failures", failures)
		}
		out.Line(fmt.Sprintf("compress %s %d %d", name, workers, iters), ans)
		out.Stats["compress_roundtrips"] += workers * iters
	}
}
