// Command harness runs regatta's real code on generated operation streams and prints the
// operations and the implementation's canonicalised answers (see DESIGN.md, Appendix C).
package main

import (
	"fmt"
	"os"
)

var modes = map[string]func(dir string){}

func main() {
	if len(os.Args) < 3 {
		fmt.Fprintln(os.Stderr, "usage: harness <mode> <outdir>")
		os.Exit(2)
	}
	f, ok := modes[os.Args[1]]
	if !ok {
		fmt.Fprintln(os.Stderr, "unknown mode", os.Args[1])
		os.Exit(2)
	}
	f(os.Args[2])
}
