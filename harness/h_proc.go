//go:build verif

package main

// Real server processes: the regatta binary built from /repo's working tree (no verif tag),
// started as `regatta leader` / `regatta follower` on loopback ports with data under the work
// directory.  Used by the api (C16) and auth (C17) modes, where the wiring of cmd/ is part of
// what is checked and where "the process is still alive" is an observation.

import (
	"context"
	"fmt"
	"os"
	"os/exec"
	"path/filepath"
	"sync/atomic"
	"syscall"
	"time"

	"github.com/jamf/regatta/regattapb"
	"google.golang.org/grpc"
	"google.golang.org/grpc/credentials/insecure"
)

type proc struct {
	args   []string
	cmd    *exec.Cmd
	api    int
	repl   int
	dir    string
	exited atomic.Bool
	done   chan struct{}
	conn   *grpc.ClientConn
}

func regattaBin() string {
	if b := os.Getenv("VERIF_REGATTA_BIN"); b != "" {
		return b
	}
	return "/verif/.work/regatta"
}

func procRoot() string {
	root := os.Getenv("VERIF_PROC_DIR")
	if root == "" {
		root = "/verif/.work/procs"
	}
	must(os.MkdirAll(root, 0o755))
	d, err := os.MkdirTemp(root, "p")
	must(err)
	return d
}

func startProc(kind string, extra ...string) *proc { return startProcScheme("http", kind, extra...) }

// startProcTLS: the API listens on https (the caller passes the certificate flags).
func startProcTLS(kind string, extra ...string) *proc {
	return startProcScheme("https", kind, extra...)
}

func startProcScheme(scheme, kind string, extra ...string) *proc {
	return startProcSchemes(scheme, "http", kind, extra...)
}

// startProcSchemes: schemes of the API listener and (leader) of the replication listener.
func startProcSchemes(scheme, replScheme, kind string, extra ...string) *proc {
	p := &proc{dir: procRoot(), api: freePort(), repl: freePort(), done: make(chan struct{})}
	raft, rest, ml := freePort(), freePort(), freePort()
	args := []string{
		kind,
		fmt.Sprintf("--raft.address=127.0.0.1:%d", raft),
		fmt.Sprintf("--raft.initial-members=1=127.0.0.1:%d", raft),
		fmt.Sprintf("--api.address=%s://127.0.0.1:%d", scheme, p.api),
		fmt.Sprintf("--rest.address=http://127.0.0.1:%d", rest),
		fmt.Sprintf("--memberlist.address=127.0.0.1:%d", ml),
		"--raft.node-host-dir=" + filepath.Join(p.dir, "nh"), "--raft.state-machine-dir=" + filepath.Join(p.dir, "sm"),
		"--raft.rtt=10ms", "--raft.election-rtt=10", "--raft.heartbeat-rtt=1", "--log-level=ERROR",
	}
	if kind == "leader" {
		args = append(args, fmt.Sprintf("--replication.address=%s://127.0.0.1:%d", replScheme, p.repl))
	}
	args = append(args, extra...)
	p.args = args
	p.launch()
	return p
}

// launch starts (or, after halt, starts again on the same directories and ports) the process.
func (p *proc) launch() {
	p.done = make(chan struct{})
	p.exited.Store(false)
	p.cmd = exec.Command(regattaBin(), p.args...)
	lf, err := os.OpenFile(filepath.Join(p.dir, "log.txt"), os.O_CREATE|os.O_WRONLY|os.O_APPEND, 0o644)
	must(err)
	p.cmd.Stdout, p.cmd.Stderr = lf, lf
	p.cmd.Dir = p.dir
	must(p.cmd.Start())
	done := p.done
	go func() {
		_ = p.cmd.Wait()
		p.exited.Store(true)
		close(done)
		lf.Close()
	}()
}

// halt stops the process (SIGTERM, the way an operator restarts a node) and keeps its directories.
func (p *proc) halt() {
	if p.conn != nil {
		p.conn.Close()
		p.conn = nil
	}
	if p.alive() {
		_ = p.cmd.Process.Signal(syscall.SIGTERM)
		select {
		case <-p.done:
		case <-time.After(15 * time.Second):
			_ = p.cmd.Process.Kill()
			<-p.done
		}
	}
}

func (p *proc) alive() bool { return !p.exited.Load() }

func (p *proc) dial(opts ...grpc.DialOption) *grpc.ClientConn {
	if len(opts) == 0 {
		opts = []grpc.DialOption{grpc.WithTransportCredentials(insecure.NewCredentials())}
	}
	opts = append(opts, grpc.WithDefaultCallOptions(grpc.MaxCallRecvMsgSize(64<<20), grpc.MaxCallSendMsgSize(64<<20)))
	c, err := grpc.NewClient(fmt.Sprintf("127.0.0.1:%d", p.api), opts...)
	must(err)
	return c
}

// waitReady polls until the API answers (Tables.List with the given context decoration).
func (p *proc) waitReady(ctxf func(context.Context) context.Context) bool {
	if p.conn == nil {
		p.conn = p.dial()
	}
	tc := regattapb.NewTablesClient(p.conn)
	for i := 0; i < 900 && p.alive(); i++ {
		ctx, cancel := context.WithTimeout(context.Background(), time.Second)
		if ctxf != nil {
			ctx = ctxf(ctx)
		}
		_, err := tc.List(ctx, &regattapb.ListTablesRequest{})
		cancel()
		if err == nil {
			return true
		}
		time.Sleep(100 * time.Millisecond)
	}
	return false
}

func (p *proc) stop() {
	if p.conn != nil {
		p.conn.Close()
	}
	if p.alive() {
		_ = p.cmd.Process.Signal(syscall.SIGTERM)
		select {
		case <-p.done:
		case <-time.After(10 * time.Second):
			_ = p.cmd.Process.Kill()
			<-p.done
		}
	}
	os.RemoveAll(p.dir)
}

// logTail returns the end of the process's output (for a replay when it died).
func (p *proc) logTail() string {
	b, _ := os.ReadFile(filepath.Join(p.dir, "log.txt"))
	if len(b) > 1500 {
		b = b[len(b)-1500:]
	}
	return string(b)
}
