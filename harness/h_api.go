//go:build verif

package main

// Mode api (C16): a real leader process and a real follower process (the binary built from /repo,
// wired by cmd/), generated valid and invalid requests to every KV and Tables method of both.
// Per request: the gRPC status code (the model predicts it), for every refused request whether
// the content of all tables is unchanged, and whether both processes are still alive.

import (
	"bytes"
	"context"
	"fmt"
	"io"
	"math/rand"
	"sort"
	"strings"
	"time"

	"github.com/jamf/regatta/regattapb"
	"google.golang.org/grpc"
	"google.golang.org/grpc/codes"
	"google.golang.org/grpc/encoding"
	"google.golang.org/grpc/status"
)

func init() {
	modes["api"] = hAPI
}

type rawMsg struct{ b []byte }

type rawCodec struct{}

func (rawCodec) Marshal(v any) ([]byte, error) { return v.(*rawMsg).b, nil }
func (rawCodec) Unmarshal(data []byte, v any) error {
	v.(*rawMsg).b = append([]byte{}, data...)
	return nil
}
func (rawCodec) Name() string { return "proto" }

var _ encoding.Codec = rawCodec{}

type apiEnv struct {
	out        *Out
	leader     *proc
	follower   *proc
	lkv, fkv   regattapb.KVClient
	ltab, ftab regattapb.TablesClient
	tables     map[string]bool // on the leader
	r          *rand.Rand
	big        int
	// forceName: the next table request is a creation of exactly this name on the leader
	forceName []byte
}

// bumpLastCount: the tokens written so far end with "<n> <ops of n operations>"; n was `old`.
func bumpLastCount(f []string, old int) []string {
	// the count token is the one followed by exactly the tokens of `old` operations: search from the end
	for i := len(f) - 1; i >= 0; i-- {
		if f[i] == fmt.Sprint(old) && opTokens(f[i+1:]) == old {
			g := append([]string{}, f...)
			g[i] = fmt.Sprint(old + 1)
			return g
		}
	}
	panic("bumpLastCount")
}

// opTokens counts the operations in a token list, -1 if it is not a list of operations.
func opTokens(f []string) int {
	n := 0
	for i := 0; i < len(f); {
		switch f[i] {
		case "r", "p", "d":
			i += 3
		case "n":
			i++
		default:
			return -1
		}
		n++
	}
	return n
}

func code(err error) string {
	if err == nil {
		return "0"
	}
	return fmt.Sprintf("%d", status.Code(err))
}

func ctxT() (context.Context, context.CancelFunc) {
	return context.WithTimeout(context.Background(), 20*time.Second)
}

// digestOf: digest() restricted to the tables other than `except`.
func digestOthers(d, except string) string {
	var keep []string
	for _, part := range strings.Split(d, ";") {
		if part != "" && !strings.HasPrefix(part, except+"=") {
			keep = append(keep, part)
		}
	}
	return strings.Join(keep, ";")
}

// digest of all tables of the leader (linearizable full reads).
func (e *apiEnv) digest() string {
	var names []string
	for n := range e.tables {
		names = append(names, n)
	}
	sort.Strings(names)
	var sb strings.Builder
	for _, n := range names {
		ctx, cancel := ctxT()
		st, err := e.lkv.IterateRange(ctx, &regattapb.RangeRequest{Table: []byte(n), Key: []byte{0}, RangeEnd: []byte{0}, Linearizable: true})
		if err != nil {
			cancel()
			return "digest-error " + err.Error()
		}
		var ps []pair
		for {
			resp, err := st.Recv()
			if err == io.EOF {
				break
			}
			if err != nil {
				cancel()
				return "digest-error " + err.Error()
			}
			for _, kv := range resp.Kvs {
				ps = append(ps, pair{kv.Key, kv.Value})
			}
		}
		cancel()
		fmt.Fprintf(&sb, "%s=%s;", n, pairsDigest(ps))
	}
	return sb.String()
}

func (e *apiEnv) bothAlive() bool { return e.leader.alive() && e.follower.alive() }

// record one request: line, status, unchanged?, alive?
func (e *apiEnv) record(line string, before string, err error) {
	e.recordW(line, before, err, "")
}

// recordW: as record; for an accepted write to table `wtable` every OTHER table must be unchanged.
func (e *apiEnv) recordW(line string, before string, err error, wtable string) {
	c := code(err)
	ans := c
	if c == "0" && wtable != "" && before != "" && e.bothAlive() {
		if after := e.digest(); digestOthers(after, wtable) != digestOthers(before, wtable) {
			ans = "0 OTHER-TABLE-CHANGED " + before + " -> " + after
		}
	}
	if c == "14" {
		// connection refused / reset: give a dying process the time to be reaped
		time.Sleep(300 * time.Millisecond)
	}
	if !e.bothAlive() {
		ans = "DIED " + strings.ReplaceAll(e.leader.logTail()+e.follower.logTail(), "\n", " | ")
		if len(ans) > 600 {
			ans = ans[:600]
		}
	} else if c != "0" {
		if after := e.digest(); after == before || before == "" {
			ans += " unchanged"
		} else {
			ans += " CHANGED " + before + " -> " + after
		}
	}
	e.out.Line(line, ans)
	e.out.Count("code_" + c)
}

func kOf(n int) []byte {
	if n == 0 {
		return nil
	}
	return bytes.Repeat([]byte("k"), n)
}

func (e *apiEnv) pick(xs []int) int { return xs[e.r.Intn(len(xs))] }

var (
	klens  = []int{0, 1, 1, 3, 3, 7, 1019, 1024, 1025, 3000}
	relens = []int{0, 0, 0, 1, 4, 1024, 1025}
	vlens  = []int{0, 1, 10, 10, 100, 5000}
)

func (e *apiEnv) table() string {
	switch e.r.Intn(8) {
	case 0:
		return ""
	case 1:
		return "nope"
	default:
		var names []string
		for n := range e.tables {
			names = append(names, n)
		}
		sort.Strings(names)
		if len(names) == 0 {
			return "nope"
		}
		return names[e.r.Intn(len(names))]
	}
}

func (e *apiEnv) server() (string, regattapb.KVClient) {
	if e.r.Intn(3) == 0 {
		return "F", e.fkv
	}
	return "L", e.lkv
}

func (e *apiEnv) vlen() int {
	if e.r.Intn(14) == 0 {
		return []int{2 * 1024 * 1024, 2*1024*1024 + 1}[e.r.Intn(2)]
	}
	return e.pick(vlens)
}

func (e *apiEnv) genRange(stream bool) {
	s, kv := e.server()
	rq := &regattapb.RangeRequest{Table: []byte(e.table()), Key: kOf(e.pick(klens)), RangeEnd: kOf(e.pick(relens)), Linearizable: e.r.Intn(2) == 0}
	if e.r.Intn(3) == 0 {
		rq.Limit = []int64{-1, -5, 1, 2, 1 << 40, 1<<63 - 1, -1 << 63, 1 << 31, 1<<32 + 1}[e.r.Intn(9)]
	}
	rq.KeysOnly = e.r.Intn(4) == 0
	rq.CountOnly = e.r.Intn(4) == 0
	if e.r.Intn(8) == 0 {
		// an otherwise valid read of a non-empty range with extreme numbers
		rq.Table, rq.Key, rq.RangeEnd = []byte("t1"), []byte("a"), []byte("z")
		rq.Limit = []int64{1 << 40, 1<<63 - 1, 1 << 31, 1<<32 + 1, 1, 3}[e.r.Intn(6)]
		rq.CountOnly = rq.CountOnly && !rq.KeysOnly
	} else if e.r.Intn(6) == 0 {
		v := []int64{1, 7, -1, 1<<63 - 1, -1 << 63}[e.r.Intn(5)]
		switch e.r.Intn(4) {
		case 0:
			rq.MinModRevision = v
		case 1:
			rq.MaxModRevision = v
		case 2:
			rq.MinCreateRevision = v
		default:
			rq.MaxCreateRevision = v
		}
	}
	before := e.digest()
	ctx, cancel := ctxT()
	defer cancel()
	var err error
	m := "range"
	if stream {
		m = "iter"
		var st regattapb.KV_IterateRangeClient
		st, err = kv.IterateRange(ctx, rq)
		for err == nil {
			_, err = st.Recv()
		}
		if err == io.EOF {
			err = nil
		}
	} else {
		_, err = kv.Range(ctx, rq)
	}
	e.record(fmt.Sprintf("req %s %s %s %d %d %d %s %s %d %d %d %d", s, m, hx(rq.Table), len(rq.Key), len(rq.RangeEnd), rq.Limit,
		b2i(rq.KeysOnly), b2i(rq.CountOnly), rq.MinModRevision, rq.MaxModRevision, rq.MinCreateRevision, rq.MaxCreateRevision), before, err)
}

func (e *apiEnv) genPut() {
	s, kv := e.server()
	rq := &regattapb.PutRequest{Table: []byte(e.table()), Key: kOf(e.pick(klens)), PrevKv: e.r.Intn(3) == 0}
	if s == "F" {
		// only refused writes go through the follower here: an accepted forwarded write waits for the
		// follower to catch up, which is C11's subject (and known finding K5 can make it time out)
		rq.Key = kOf(e.pick([]int{0, 1025, 3000}))
	}
	vl := e.vlen()
	if vl > 100000 && e.r.Intn(3) > 0 {
		// the size limit is only reached by a request that passes every earlier check
		rq.Table, rq.Key = []byte("t1"), []byte("big")
		if s == "F" {
			rq.Key = kOf(1025)
		}
	}
	rq.Value = bytes.Repeat([]byte("v"), vl)
	before := e.digest()
	ctx, cancel := ctxT()
	_, err := kv.Put(ctx, rq)
	cancel()
	e.recordW(fmt.Sprintf("req %s put %s %d %d", s, hx(rq.Table), len(rq.Key), vl), before, err, string(rq.Table))
	if err == nil && vl > 100000 {
		// keep the tables small: remove the big value again (a valid request of its own)
		ctx, cancel := ctxT()
		_, err := e.lkv.DeleteRange(ctx, &regattapb.DeleteRangeRequest{Table: rq.Table, Key: rq.Key})
		cancel()
		e.record(fmt.Sprintf("req L del %s %d 0", hx(rq.Table), len(rq.Key)), "", err)
	}
}

func (e *apiEnv) genDel() {
	s, kv := e.server()
	rq := &regattapb.DeleteRangeRequest{Table: []byte(e.table()), Key: kOf(e.pick(klens)), RangeEnd: kOf(e.pick(relens)), PrevKv: e.r.Intn(3) == 0, Count: e.r.Intn(3) == 0}
	if s == "F" {
		rq.Key = kOf(e.pick([]int{0, 1025, 3000}))
	}
	before := e.digest()
	ctx, cancel := ctxT()
	_, err := kv.DeleteRange(ctx, rq)
	cancel()
	e.recordW(fmt.Sprintf("req %s del %s %d %d", s, hx(rq.Table), len(rq.Key), len(rq.RangeEnd)), before, err, string(rq.Table))
}

func (e *apiEnv) genOps(sb *strings.Builder, readonly bool) []*regattapb.RequestOp {
	n := e.r.Intn(4)
	var ops []*regattapb.RequestOp
	fmt.Fprintf(sb, " %d", n)
	for i := 0; i < n; i++ {
		// mostly valid lengths, so that whole transactions are accepted often enough
		kl := e.pick([]int{1, 1, 3, 3, 3, 7, 1024, 0, 1025, 2000})
		k := e.r.Intn(10)
		if readonly {
			k = 0
		}
		switch {
		case k < 4:
			re := e.pick(relens)
			ops = append(ops, &regattapb.RequestOp{Request: &regattapb.RequestOp_RequestRange{RequestRange: &regattapb.RequestOp_Range{Key: kOf(kl), RangeEnd: kOf(re)}}})
			fmt.Fprintf(sb, " r %d %d", kl, re)
		case k < 7:
			vl := e.pick(vlens)
			if e.r.Intn(30) == 0 && e.big == 0 {
				// at most one: two of them exceed the server's 4 MiB message limit (gRPC answers ResourceExhausted)
				vl = 2*1024*1024 + e.r.Intn(2)
				e.big++
			}
			ops = append(ops, &regattapb.RequestOp{Request: &regattapb.RequestOp_RequestPut{RequestPut: &regattapb.RequestOp_Put{Key: kOf(kl), Value: bytes.Repeat([]byte("w"), vl)}}})
			fmt.Fprintf(sb, " p %d %d", kl, vl)
		case k < 9:
			re := e.pick(relens)
			ops = append(ops, &regattapb.RequestOp{Request: &regattapb.RequestOp_RequestDeleteRange{RequestDeleteRange: &regattapb.RequestOp_DeleteRange{Key: kOf(kl), RangeEnd: kOf(re)}}})
			fmt.Fprintf(sb, " d %d %d", kl, re)
		default:
			ops = append(ops, &regattapb.RequestOp{})
			sb.WriteString(" n")
		}
	}
	return ops
}

func (e *apiEnv) genTxn() {
	s, kv := e.server()
	rq := &regattapb.TxnRequest{Table: []byte(e.table())}
	var sb strings.Builder
	nc := e.r.Intn(3)
	fmt.Fprintf(&sb, "%d", nc)
	for i := 0; i < nc; i++ {
		kl, re := e.pick([]int{1, 3, 3, 7, 0, 1025}), e.pick(relens)
		rq.Compare = append(rq.Compare, &regattapb.Compare{Key: kOf(kl), RangeEnd: kOf(re), Result: regattapb.Compare_EQUAL, Target: regattapb.Compare_VALUE, TargetUnion: &regattapb.Compare_Value{Value: []byte("v")}})
		fmt.Fprintf(&sb, " %d %d", kl, re)
	}
	ro := e.r.Intn(4) == 0
	e.big = 0
	rq.Success = e.genOps(&sb, ro)
	if s == "F" && !ro {
		// make sure the leader refuses it (see genPut): one more operation, with an over-long key
		rq.Success = append(rq.Success, &regattapb.RequestOp{Request: &regattapb.RequestOp_RequestPut{RequestPut: &regattapb.RequestOp_Put{Key: kOf(1025)}}})
		f := strings.Fields(sb.String())
		// bump the count of success operations (the last count written) and append the operation
		sb.Reset()
		sb.WriteString(strings.Join(bumpLastCount(f, len(rq.Success)-1), " "))
		sb.WriteString(" p 1025 0")
	}
	rq.Failure = e.genOps(&sb, ro)
	before := e.digest()
	ctx, cancel := ctxT()
	_, err := kv.Txn(ctx, rq)
	cancel()
	e.recordW(fmt.Sprintf("req %s txn %s %s", s, hx(rq.Table), sb.String()), before, err, string(rq.Table))
	// big values written by an accepted transaction are removed again
	if err == nil {
		for _, op := range append(rq.Success, rq.Failure...) {
			if p := op.GetRequestPut(); p != nil && len(p.Value) > 100000 {
				ctx, cancel := ctxT()
				_, err := e.lkv.DeleteRange(ctx, &regattapb.DeleteRangeRequest{Table: rq.Table, Key: p.Key})
				cancel()
				e.record(fmt.Sprintf("req L del %s %d 0", hx(rq.Table), len(p.Key)), "", err)
			}
		}
	}
}

// txnShape sends one transaction of a fixed shape to the leader: nc comparisons (EQUAL "v" on a 3-byte key -
// false on every table this mode builds, whose values are all made of "w"), and operations given as
// "r"ange / "p"ut / "d"elete on 3-byte keys.  Which branch runs and whether the transaction goes through the
// log or the read path must not matter to the outcome: the request is valid and the server stays up.
func (e *apiEnv) txnShape(nc int, succ, fail string) {
	rq := &regattapb.TxnRequest{Table: []byte("t1")}
	var sb strings.Builder
	fmt.Fprintf(&sb, "%d", nc)
	for i := 0; i < nc; i++ {
		rq.Compare = append(rq.Compare, &regattapb.Compare{Key: kOf(3), Result: regattapb.Compare_EQUAL, Target: regattapb.Compare_VALUE, TargetUnion: &regattapb.Compare_Value{Value: []byte("v")}})
		sb.WriteString(" 3 0")
	}
	ops := func(spec string) []*regattapb.RequestOp {
		var out []*regattapb.RequestOp
		fmt.Fprintf(&sb, " %d", len(spec))
		for _, c := range spec {
			switch c {
			case 'r':
				out = append(out, &regattapb.RequestOp{Request: &regattapb.RequestOp_RequestRange{RequestRange: &regattapb.RequestOp_Range{Key: kOf(3)}}})
				sb.WriteString(" r 3 0")
			case 'p':
				out = append(out, &regattapb.RequestOp{Request: &regattapb.RequestOp_RequestPut{RequestPut: &regattapb.RequestOp_Put{Key: kOf(3), Value: []byte("w")}}})
				sb.WriteString(" p 3 1")
			case 'd':
				out = append(out, &regattapb.RequestOp{Request: &regattapb.RequestOp_RequestDeleteRange{RequestDeleteRange: &regattapb.RequestOp_DeleteRange{Key: kOf(3)}}})
				sb.WriteString(" d 3 0")
			}
		}
		return out
	}
	rq.Success = ops(succ)
	rq.Failure = ops(fail)
	before := e.digest()
	ctx, cancel := ctxT()
	_, err := e.lkv.Txn(ctx, rq)
	cancel()
	e.recordW(fmt.Sprintf("req L txn %s %s", hx(rq.Table), sb.String()), before, err, string(rq.Table))
	e.out.Count("txn_shape")
}

var hostileNames = [][]byte{
	[]byte(""), []byte("a/b"), []byte("a/lease"), []byte("sys/idseq"), []byte("a\x00b"), bytes.Repeat([]byte("n"), 200), bytes.Repeat([]byte("n"), 201),
	bytes.Repeat([]byte("n"), 300), []byte("caf\xc3\xa9"), []byte("bad\xff\xfe"), []byte("\xed\xa0\x80"), []byte("\xc0\xaf"), []byte("..")[:2], []byte("a b"), []byte("t1"), []byte("nope"),
	// the limit is in BYTES (the name becomes part of a directory name): 100 two-byte characters fit, 101 and 150 do not
	bytes.Repeat([]byte("\xc3\xa9"), 100), bytes.Repeat([]byte("\xc3\xa9"), 101), bytes.Repeat([]byte("\xc3\xa9"), 150),
}

// followerHas waits until the follower lists exactly the leader's tables.
func (e *apiEnv) followerSync() bool {
	for i := 0; i < 1200; i++ {
		ctx, cancel := ctxT()
		l, err := e.ftab.List(ctx, &regattapb.ListTablesRequest{})
		cancel()
		if err == nil && len(l.Tables) == len(e.tables) {
			ok := true
			for _, t := range l.Tables {
				if !e.tables[t.Name] {
					ok = false
				}
			}
			for n := range e.tables {
				ctx, cancel := context.WithTimeout(context.Background(), 2*time.Second)
				if _, err := e.fkv.Range(ctx, &regattapb.RangeRequest{Table: []byte(n), Key: []byte("x"), Linearizable: true}); err != nil {
					ok = false
				}
				// a freshly started shard answers Unavailable until it has elected its leader
				if _, err := e.lkv.Range(ctx, &regattapb.RangeRequest{Table: []byte(n), Key: []byte("x"), Linearizable: true}); err != nil {
					ok = false
				}
				cancel()
			}
			if ok {
				return true
			}
		}
		time.Sleep(50 * time.Millisecond)
	}
	return false
}

func (e *apiEnv) genTables() {
	s, tc := "L", e.ltab
	if e.r.Intn(4) == 0 {
		s, tc = "F", e.ftab
	}
	name := hostileNames[e.r.Intn(len(hostileNames))]
	if e.r.Intn(3) == 0 {
		name = []byte(fmt.Sprintf("t%d", 1+e.r.Intn(4)))
	}
	if e.forceName != nil {
		name, s = e.forceName, "L"
	}
	before := e.digest()
	// the request is sent as raw bytes: the typed client refuses to marshal a string that is not UTF-8
	var b []byte
	if len(name) > 0 {
		b = append(b, 0x0a)
		b = appendVarint(b, uint64(len(name)))
		b = append(b, name...)
	}
	create := e.r.Intn(3) > 0 || e.forceName != nil
	method, what := regattapb.Tables_Create_FullMethodName, "tcreate"
	if !create {
		method, what = regattapb.Tables_Delete_FullMethodName, "tdelete"
	}
	conn := e.leader.conn
	if s == "F" {
		conn = e.follower.conn
	}
	ctx, cancel := ctxT()
	err := conn.Invoke(ctx, method, &rawMsg{b}, &rawMsg{}, grpc.ForceCodec(rawCodec{}))
	cancel()
	if err == nil && s == "L" {
		if create {
			e.tables[string(name)] = true
		} else {
			delete(e.tables, string(name))
		}
	}
	if err == nil {
		// deleted tables have no content any more; compare what is left
		before = ""
	}
	e.record(fmt.Sprintf("req %s %s %s", s, what, hx(name)), before, err)
	if err == nil && s == "L" {
		ans := "ok"
		if !e.followerSync() {
			ans = "follower-did-not-converge"
		}
		e.out.Line("follower-sync", ans)
		if create {
			e.freshCheck(string(name))
		}
	}
	_ = tc
}

// freshCheck: a table that has just been created - possibly under a name used before - is empty.
func (e *apiEnv) freshCheck(name string) {
	ctx, cancel := ctxT()
	defer cancel()
	r, err := e.lkv.Range(ctx, &regattapb.RangeRequest{Table: []byte(name), Key: []byte{0}, RangeEnd: []byte{0}, Linearizable: true, CountOnly: true})
	ans := "empty"
	if err != nil {
		ans = "err " + code(err)
	} else if r.Count != 0 {
		ans = fmt.Sprintf("NOT-EMPTY %d", r.Count)
	}
	e.out.Line("fresh-table "+hx([]byte(name)), ans)
	e.out.Count("fresh_table")
}

func appendVarint(b []byte, v uint64) []byte {
	for v >= 0x80 {
		b = append(b, byte(v)|0x80)
		v >>= 7
	}
	return append(b, byte(v))
}

func (e *apiEnv) genRaw() {
	before := e.digest()
	valid, _ := (&regattapb.PutRequest{Table: []byte("t1"), Key: []byte("rawkey"), Value: []byte("rawvalue")}).MarshalVT()
	var b []byte
	what := ""
	switch e.r.Intn(3) {
	case 0:
		what, b = "truncated", valid[:len(valid)-3]
	case 1:
		what, b = "unknownfield", append(append([]byte{}, valid...), 0xf8, 0x06, 0x01)
	default:
		what, b = "garbage", []byte{0xff, 0xff, 0xff, 0xff}
	}
	ctx, cancel := ctxT()
	err := e.leader.conn.Invoke(ctx, regattapb.KV_Put_FullMethodName, &rawMsg{b}, &rawMsg{}, grpc.ForceCodec(rawCodec{}))
	cancel()
	e.record("raw L put "+what, before, err)
}

func hAPI(dir string) {
	out := NewOut(dir)
	defer out.Close()
	n := envInt("VERIF_N", 300)
	r := newRand(9100)
	leader := startProc("leader")
	defer leader.stop()
	if !leader.waitReady(nil) {
		out.Line("start leader", "err not-ready "+strings.ReplaceAll(leader.logTail(), "\n", " | "))
		return
	}
	follower := startProc("follower", fmt.Sprintf("--replication.leader-address=http://127.0.0.1:%d", leader.repl),
		"--replication.poll-interval=50ms", "--replication.reconcile-interval=200ms", "--replication.lease-interval=1s")
	defer follower.stop()
	if !follower.waitReady(nil) {
		out.Line("start follower", "err not-ready "+strings.ReplaceAll(follower.logTail(), "\n", " | "))
		return
	}
	out.Line("start", "ok")
	e := &apiEnv{out: out, leader: leader, follower: follower, tables: map[string]bool{}, r: r,
		lkv: regattapb.NewKVClient(leader.conn), fkv: regattapb.NewKVClient(follower.conn),
		ltab: regattapb.NewTablesClient(leader.conn), ftab: regattapb.NewTablesClient(follower.conn)}
	for _, t := range []string{"t1", "t2"} {
		ctx, cancel := ctxT()
		_, err := e.ltab.Create(ctx, &regattapb.CreateTableRequest{Name: t})
		cancel()
		if err == nil {
			e.tables[t] = true
		}
		e.record("req L tcreate "+hx([]byte(t)), "", err)
		ans := "ok"
		if !e.followerSync() {
			ans = "follower-did-not-converge"
		}
		out.Line("follower-sync", ans)
	}
	// the name limit is in bytes: creations just beyond it - in one-byte and in two-byte characters - in every run
	for _, nm := range [][]byte{bytes.Repeat([]byte("n"), 201), bytes.Repeat([]byte("\xc3\xa9"), 101), bytes.Repeat([]byte("\xc3\xa9"), 150)} {
		e.forceName = nm
		e.genTables()
	}
	e.forceName = nil
	// every combination of "reads only" / "writes" / "nothing" in the two branches, with the comparison false
	// and true, in every run (the routing of transactions between the log and the read path)
	for _, nc := range []int{1, 0} {
		for _, sh := range [][2]string{{"r", "p"}, {"p", "r"}, {"", "p"}, {"p", ""}, {"rr", "rd"}, {"r", "r"}, {"", ""}} {
			e.txnShape(nc, sh[0], sh[1])
		}
	}
	// some content
	for i := 0; i < 6; i++ {
		ctx, cancel := ctxT()
		_, err := e.lkv.Put(ctx, &regattapb.PutRequest{Table: []byte("t1"), Key: []byte(fmt.Sprintf("seed%d", i)), Value: []byte("x")})
		cancel()
		e.record(fmt.Sprintf("req L put %s 5 1", hx([]byte("t1"))), "", err)
	}
	ntab := 0
	for i := 0; i < n && e.bothAlive(); i++ {
		switch k := r.Intn(20); {
		case k < 4:
			e.genRange(false)
		case k < 7:
			e.genRange(true)
		case k < 11:
			e.genPut()
		case k < 14:
			e.genDel()
		case k < 18:
			e.genTxn()
		case k < 19:
			if ntab < envInt("VERIF_TABLE_OPS", 25) {
				ntab++
				e.genTables()
			}
		default:
			e.genRaw()
		}
	}
	// a table with content is deleted and created again under the same name: the new one is empty, the
	// others are what they were
	if e.bothAlive() {
		for _, name := range []string{"t1", "t2"} {
			if !e.tables[name] {
				continue
			}
			ctx, cancel := ctxT()
			_, perr := e.lkv.Put(ctx, &regattapb.PutRequest{Table: []byte(name), Key: []byte("left-over"), Value: []byte("x")})
			cancel()
			e.record(fmt.Sprintf("req L put %s 9 1", hx([]byte(name))), "", perr)
			before := e.digest()
			ctx, cancel = ctxT()
			_, derr := e.ltab.Delete(ctx, &regattapb.DeleteTableRequest{Name: name})
			cancel()
			if derr == nil {
				delete(e.tables, name)
			}
			e.record("req L tdelete "+hx([]byte(name)), "", derr)
			ans := "ok"
			if !e.followerSync() {
				ans = "follower-did-not-converge"
			}
			out.Line("follower-sync", ans)
			ctx, cancel = ctxT()
			_, cerr := e.ltab.Create(ctx, &regattapb.CreateTableRequest{Name: name})
			cancel()
			if cerr == nil {
				e.tables[name] = true
			}
			e.record("req L tcreate "+hx([]byte(name)), "", cerr)
			ans = "ok"
			if !e.followerSync() {
				ans = "follower-did-not-converge"
			}
			out.Line("follower-sync", ans)
			if cerr == nil {
				e.freshCheck(name)
			}
			oth := "others-unchanged"
			if digestOthers(e.digest(), name) != digestOthers(before, name) {
				oth = "OTHER-TABLE-CHANGED"
			}
			out.Line("recreate-isolation "+hx([]byte(name)), oth)
			break
		}
	}
	if !e.bothAlive() {
		out.Line("alive", "DIED")
	} else {
		out.Line("alive", "ok")
	}
	_ = codes.OK
}
