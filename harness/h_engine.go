package main

import (
	"bytes"
	"context"
	"encoding/binary"
	"fmt"
	"hash/fnv"
	"io"
	"math/rand"
	"net"
	"os"
	"sort"
	"strings"
	"sync"
	"time"

	pvfs "github.com/cockroachdb/pebble/vfs"
	"github.com/jamf/regatta/regattapb"
	"github.com/jamf/regatta/regattaserver"
	"github.com/jamf/regatta/replication/backup"
	"github.com/jamf/regatta/replication/snapshot"
	"github.com/jamf/regatta/storage"
	"github.com/jamf/regatta/storage/table"
	lvfs "github.com/lni/vfs"
	"go.uber.org/zap"
	"google.golang.org/grpc"
	"google.golang.org/grpc/credentials/insecure"
	"google.golang.org/grpc/encoding"
	"google.golang.org/grpc/test/bufconn"
)

// apiOverBufconn serves the cluster and maintenance services of an engine over an in-memory listener.
func apiOverBufconn(e *storage.Engine) (*grpc.ClientConn, func()) {
	lis := bufconn.Listen(1 << 20)
	srv := grpc.NewServer()
	regattapb.RegisterClusterServer(srv, &regattaserver.ClusterServer{Cluster: e, Config: func() map[string]any { return nil }})
	regattapb.RegisterMaintenanceServer(srv, &regattaserver.BackupServer{Tables: e, AuthFunc: func(ctx context.Context) (context.Context, error) { return ctx, nil }})
	go srv.Serve(lis)
	conn, err := grpc.NewClient("passthrough:///bufnet", grpc.WithContextDialer(func(context.Context, string) (net.Conn, error) { return lis.Dial() }), grpc.WithTransportCredentials(insecure.NewCredentials()))
	must(err)
	return conn, func() { conn.Close(); srv.Stop() }
}

func init() { modes["restore"] = hRestore }

func freePort() int {
	l, err := net.Listen("tcp", "127.0.0.1:0")
	must(err)
	defer l.Close()
	return l.Addr().(*net.TCPAddr).Port
}

type engineOpts struct {
	maxInMem     uint64
	recoveryType table.SnapshotRecoveryType
	logCache     int
	applied      func(table string, rev uint64)
	// leader-side log compaction (0: dragonboat defaults)
	snapshotEntries    uint64
	compactionOverhead uint64
}

// engineState is what a restart of the same node needs: its file systems and its ports.
type engineState struct {
	fs      lvfs.FS
	tableFS pvfs.FS
	rp, gp  int
}

// newEngine starts a real single-node storage.Engine on in-memory file systems and loopback ports.
func newEngine(o engineOpts) *storage.Engine {
	e, _ := newEngineState(o, nil)
	return e
}

// newEngineState starts a fresh node (st == nil; file systems and ports are picked, again on every
// failed attempt: a free port may be taken by someone else in between, and a failed start leaves its
// listeners behind) or restarts the node described by st.
func newEngineState(o engineOpts, st *engineState) (*storage.Engine, *engineState) {
	var err error
	for attempt := 0; attempt < 8; attempt++ {
		cur := st
		if cur == nil {
			cur = &engineState{fs: lvfs.NewMem(), tableFS: pvfs.NewMem(), rp: freePort(), gp: freePort()}
		} else {
			// Engine.Close leaves the gossip listener of the previous incarnation open: the raft address has
			// to stay, the gossip address need not
			cur.gp = freePort()
		}
		cfg := storage.Config{
			Log:            zap.NewNop().Sugar(),
			NodeID:         1,
			InitialMembers: map[uint64]string{1: fmt.Sprintf("127.0.0.1:%d", cur.rp)},
			WALDir:         "/wal",
			NodeHostDir:    "/nh",
			RTTMillisecond: 5,
			RaftAddress:    fmt.Sprintf("127.0.0.1:%d", cur.rp),
			Gossip:         storage.GossipConfig{BindAddress: fmt.Sprintf("127.0.0.1:%d", cur.gp), InitialMembers: []string{fmt.Sprintf("127.0.0.1:%d", cur.gp)}},
			Table: storage.TableConfig{FS: cur.tableFS, TableCacheSize: 1024, ElectionRTT: 10, HeartbeatRTT: 1, MaxInMemLogSize: o.maxInMem, RecoveryType: o.recoveryType, AppliedIndexListener: o.applied,
				SnapshotEntries: o.snapshotEntries, CompactionOverhead: o.compactionOverhead},
			Meta:         storage.MetaConfig{ElectionRTT: 10, HeartbeatRTT: 1},
			FS:           cur.fs,
			LogCacheSize: o.logCache,
		}
		var e *storage.Engine
		e, err = storage.New(cfg)
		if err != nil {
			time.Sleep(300 * time.Millisecond)
			continue
		}
		// production reconciles the table shards every 30 s; a restarted node would sit idle that long
		e.Manager.VerifSetIntervals(1500*time.Millisecond, 30*time.Second) // (Restore waits for a leader for twice this period, in 500 ms steps)
		if err = e.Start(); err != nil {
			_ = e.Close()
			time.Sleep(300 * time.Millisecond)
			continue
		}
		ctx, cancel := context.WithTimeout(context.Background(), 30*time.Second)
		err = e.WaitUntilReady(ctx)
		cancel()
		if err == nil {
			return e, cur
		}
		_ = e.Close()
	}
	panic(fmt.Sprintf("engine does not start: %v", err))
}

func waitTable(e *storage.Engine, name string) {
	for i := 0; i < 800; i++ {
		tb, err := e.GetTable(name)
		if err == nil {
			ctx, cancel := context.WithTimeout(context.Background(), time.Second)
			_, err = tb.LocalIndex(ctx, true)
			cancel()
			if err == nil {
				return
			}
		}
		time.Sleep(25 * time.Millisecond)
	}
	panic("table " + name + " not ready")
}

type pair struct{ k, v []byte }

func pairsDigest(ps []pair) string {
	h := fnv.New64a()
	var lb [8]byte
	for _, p := range ps {
		binary.LittleEndian.PutUint64(lb[:], uint64(len(p.k)))
		h.Write(lb[:])
		h.Write(p.k)
		binary.LittleEndian.PutUint64(lb[:], uint64(len(p.v)))
		h.Write(lb[:])
		h.Write(p.v)
	}
	return fmt.Sprintf("%d:%d", len(ps), h.Sum64())
}

// readAll reads the whole table through the streaming API (linearizable).
func readAll(e *storage.Engine, name string) ([]pair, error) {
	ctx, cancel := context.WithTimeout(context.Background(), 60*time.Second)
	defer cancel()
	seq, err := e.IterateRange(ctx, &regattapb.RangeRequest{Table: []byte(name), Key: []byte{0}, RangeEnd: []byte{0}, Linearizable: true})
	if err != nil {
		return nil, err
	}
	var ps []pair
	seq(func(r *regattapb.RangeResponse) bool {
		for _, kv := range r.Kvs {
			ps = append(ps, pair{append([]byte{}, kv.Key...), append([]byte{}, kv.Value...)})
		}
		return true
	})
	return ps, nil
}

func putAll(e *storage.Engine, name string, ps []pair) {
	for _, p := range ps {
		ctx, cancel := context.WithTimeout(context.Background(), 30*time.Second)
		_, err := e.Put(ctx, &regattapb.PutRequest{Table: []byte(name), Key: p.k, Value: p.v})
		cancel()
		must(err)
	}
}

// streamToFile produces the table stream the way the servers do: backup = table.Snapshot into a
// snapshot file; leader = the real SnapshotServer.Stream (snapshot + terminating DUMMY carrying the
// index), shipped as a chunk stream and received by snapshot.Reader.WriteTo as the worker does.
func streamToFile(e *storage.Engine, name string, leader bool) (path string, declared uint64) {
	if !leader {
		tb, err := e.GetTable(name)
		must(err)
		sf, err := snapshot.NewTemp()
		must(err)
		ctx, cancel := context.WithTimeout(context.Background(), 60*time.Second)
		defer cancel()
		resp, err := tb.Snapshot(ctx, sf)
		must(err)
		must(sf.Sync())
		must(sf.Close())
		return sf.Path(), resp.Index
	}
	st := &chunkStream{codec: encoding.GetCodec("proto")}
	srv := &regattaserver.SnapshotServer{Tables: e}
	must(srv.Stream(&regattapb.SnapshotRequest{Table: []byte(name)}, st))
	dst, err := os.CreateTemp("", "verif-leaderstream-*.bin")
	must(err)
	_, err = (snapshot.Reader{Stream: st}).WriteTo(dst)
	must(err)
	must(dst.Close())
	// the declared index is in the terminating DUMMY
	ms, err := readAllFrames(dst.Name(), 4*1024*1024)
	must(err)
	last := &regattapb.Command{}
	must(last.UnmarshalVT(ms[len(ms)-1]))
	if last.Type != regattapb.Command_DUMMY || last.LeaderIndex == nil {
		panic("leader stream does not end with a DUMMY carrying the index")
	}
	return dst.Name(), *last.LeaderIndex
}

// genContent: n distinct keys; maxVal bounds the value size (dragonboat refuses proposals that do not
// fit the in-memory log size).
func genContent(r *rand.Rand, n int, big bool, maxVal int) []pair {
	seen := map[string]bool{}
	var ps []pair
	for len(ps) < n {
		k := make([]byte, 1+r.Intn(12))
		for i := range k {
			k[i] = byte(0x61 + r.Intn(6))
		}
		if r.Intn(10) == 0 {
			k = append(k, 0xff, 0x00)
		}
		if seen[string(k)] {
			continue
		}
		seen[string(k)] = true
		vl := r.Intn(40)
		switch r.Intn(8) {
		case 0:
			vl = 0
		case 1:
			vl = 900 + r.Intn(3000) // around the 2-4 KiB thresholds
		case 2:
			if big {
				vl = 100000 + r.Intn(1900000)
			}
		}
		if vl > maxVal {
			vl = r.Intn(maxVal + 1)
		}
		ps = append(ps, pair{k, bytes.Repeat([]byte{byte(0x30 + r.Intn(40))}, vl)})
	}
	sort.Slice(ps, func(i, j int) bool { return bytes.Compare(ps[i].k, ps[j].k) < 0 })
	return ps
}

func pairsStr(ps []pair) string {
	var sb strings.Builder
	fmt.Fprintf(&sb, "%d", len(ps))
	for _, p := range ps {
		fmt.Fprintf(&sb, " %s %s", hxn(p.k), hxn(p.v))
	}
	return sb.String()
}

// hRestore: tables of 0..N pairs (values from empty to ~2 MiB) captured as backup file and as leader
// snapshot stream, restored by the real Manager.Restore into (a) a table that does not exist and
// (b) a table with other content, on engines with MaxInMemLogSize in {0, 4096, 4097, 6000, 8192,
// 65536, 6 MiB} so that batch thresholds fall on every record position; the restored table is read
// back in full; a corrupted backup is refused by backup.Restore's checksum (separate line); and a
// stream taken while writes continue must equal the content at exactly the index it declares.
func hRestore(dir string) {
	out := NewOut(dir)
	defer out.Close()
	r := newRand(7)
	nTables := envInt("VERIF_N", 3)
	configs := []uint64{0, 4096, 4097, 6000, 8192, 65536, 6 * 1024 * 1024}
	if envInt("VERIF_CONFIGS", 0) > 0 {
		r.Shuffle(len(configs), func(i, j int) { configs[i], configs[j] = configs[j], configs[i] })
		configs = configs[:envInt("VERIF_CONFIGS", len(configs))]
	}
	for _, max := range configs {
		e := newEngine(engineOpts{maxInMem: max})
		for t := 0; t < nTables; t++ {
			src := fmt.Sprintf("src%d", t)
			_, err := e.CreateTable(src)
			must(err)
			waitTable(e, src)
			n := r.Intn(60)
			if t == 0 {
				n = []int{0, 1, 2}[r.Intn(3)]
			}
			maxVal := 2 * 1024 * 1024
			if max != 0 && max < 1<<20 {
				maxVal = int(max) / 4
			}
			content := genContent(r, n, r.Intn(3) == 0, maxVal)
			if t == 1 && max != 0 && max < 1<<20 {
				// the batch threshold (MaxInMemLogSize/2) falls exactly on the terminating DUMMY of the
				// leader stream: total size of the PUT messages just below the threshold
				content = genContent(r, 3, false, 20)
				msgSize := func(p pair) int {
					b, err := (&regattapb.Command{Table: []byte(src), Type: regattapb.Command_PUT, Kv: &regattapb.KeyValue{Key: p.k, Value: p.v}}).MarshalVT()
					must(err)
					return len(b)
				}
				dmin := len(src) + 2 + 2 + 2 // table field, type field, leader index field with a 1-byte index
				total := 0
				for _, p := range content {
					total += msgSize(p)
				}
				target := int(max)/2 - 1 - r.Intn(dmin-1)
				pad := pair{[]byte("zzzzpad"), nil}
				for l := 0; l < int(max); l++ {
					pad.v = bytes.Repeat([]byte{0x70}, l)
					if total+msgSize(pad) >= target {
						break
					}
				}
				content = append(content, pad)
				out.Count("dummy_on_threshold_tables")
			}
			putAll(e, src, content)
			for _, leader := range []bool{false, true} {
				path, declared := streamToFile(e, src, leader)
				kind := "backup"
				if leader {
					kind = "leader"
				}
				// (a) into a table that does not exist, (b) over a table holding other pairs
				for _, pre := range []bool{false, true} {
					dst := fmt.Sprintf("dst%d%s%v", t, kind, pre)
					if pre {
						_, err := e.CreateTable(dst)
						must(err)
						waitTable(e, dst)
						putAll(e, dst, []pair{{[]byte("zzz-pre-existing"), []byte("x")}, {[]byte("a"), []byte("old")}})
					}
					f, err := snapshot.OpenFile(path)
					must(err)
					err = e.Restore(dst, f)
					f.Close()
					ans := ""
					if err != nil {
						ans = "err restore"
					} else {
						waitTable(e, dst)
						back, err := readAll(e, dst)
						if err != nil {
							ans = "err read"
						} else {
							tb, err := e.GetTable(dst)
							must(err)
							ctx, cancel := context.WithTimeout(context.Background(), 10*time.Second)
							li, err := tb.LeaderIndex(ctx, true)
							cancel()
							must(err)
							liOK := "0"
							if (leader && li.Index == declared) || (!leader && li.Index == 0) {
								liOK = "1"
							}
							ans = fmt.Sprintf("ok %s %s", pairsDigest(back), liOK)
						}
					}
					out.Line(fmt.Sprintf("restore %d %s %s", max, kind, pairsStr(content)), ans)
					out.Count("restore_" + kind)
				}
				os.Remove(path)
			}
		}
		// the backup tool end to end over gRPC: backup all tables into a directory, restore from it;
		// then corrupt one table file: the restore must be refused and leave the table alone
		{
			conn, closeAPI := apiOverBufconn(e)
			bdir, err := os.MkdirTemp("", "verif-backup-*")
			must(err)
			before, err := readAll(e, "src0")
			must(err)
			b := &backup.Backup{Conn: conn, Dir: bdir, Timeout: 2 * time.Minute}
			_, err = b.Backup()
			ans := "ok"
			if err != nil {
				ans = "err backup"
			} else if err := (&backup.Backup{Conn: conn, Dir: bdir, Timeout: 2 * time.Minute}).Restore(); err != nil {
				ans = "err restore"
			} else {
				waitTable(e, "src0")
				after, err := readAll(e, "src0")
				if err != nil || pairsDigest(after) != pairsDigest(before) {
					ans = "err content-differs"
				}
			}
			out.Line(fmt.Sprintf("backuptool %d intact", max), ans)
			// corrupt: flip one byte of the largest table file
			ans = "ok refused"
			ents, _ := os.ReadDir(bdir)
			var victim string
			var vsize int64
			for _, en := range ents {
				if fi, err := en.Info(); err == nil && strings.HasSuffix(en.Name(), ".bak") && fi.Size() > vsize {
					victim, vsize = en.Name(), fi.Size()
				}
			}
			if victim != "" {
				data, err := os.ReadFile(bdir + "/" + victim)
				must(err)
				data[len(data)/2] ^= 0x40
				must(os.WriteFile(bdir+"/"+victim, data, 0o644))
				tname := strings.TrimSuffix(victim, ".bak")
				waitTable(e, tname)
				pre, err := readAll(e, tname)
				must(err)
				err = (&backup.Backup{Conn: conn, Dir: bdir, Timeout: 2 * time.Minute}).Restore()
				if err == nil || !strings.Contains(err.Error(), "checksum") {
					ans = "err accepted-corrupted-file"
				} else {
					waitTable(e, tname)
					post, err := readAll(e, tname)
					if err != nil || pairsDigest(post) != pairsDigest(pre) {
						ans = "err table-changed-by-refused-restore"
					}
				}
			}
			out.Line(fmt.Sprintf("backuptool %d corrupted", max), ans)
			os.RemoveAll(bdir)
			closeAPI()
			out.Count("backuptool")
		}
		// two restores of ONE table that overlap: the first is held inside its load while the second starts
		// and is held too; each restore that returns nil must have made the table exactly its own stream
		doubleRestore(out, e, r, max)
		// point-in-time: a stream taken while a writer keeps writing equals the content at the index it declares
		{
			_, err := e.CreateTable("live")
			must(err)
			waitTable(e, "live")
			// large enough for the stream to take a while: several writes land while it is being produced
			base := genContent(r, 3000, false, 1500)
			putAll(e, "live", base)
			type wr struct {
				k, v []byte
				rev  uint64
			}
			var writes []wr
			var mu sync.Mutex
			stop := make(chan struct{})
			var wg sync.WaitGroup
			wg.Add(1)
			go func() {
				defer wg.Done()
				for i := 0; ; i++ {
					select {
					case <-stop:
						return
					default:
					}
					k, v := []byte(fmt.Sprintf("live%04d", i%50)), []byte(fmt.Sprintf("v%d", i))
					ctx, cancel := context.WithTimeout(context.Background(), 10*time.Second)
					resp, err := e.Put(ctx, &regattapb.PutRequest{Table: []byte("live"), Key: k, Value: v})
					cancel()
					if err == nil {
						mu.Lock()
						writes = append(writes, wr{k, v, resp.Header.Revision})
						mu.Unlock()
					}
				}
			}()
			// several streams while the writer keeps going; each must be the content at the index it declares
			type taken struct {
				path     string
				declared uint64
			}
			var streams []taken
			for k := 0; k < 6; k++ {
				time.Sleep(15 * time.Millisecond)
				mu.Lock()
				w0 := len(writes)
				mu.Unlock()
				path, declared := streamToFile(e, "live", true)
				mu.Lock()
				out.Stats["pit_writes_during_stream"] += len(writes) - w0
				mu.Unlock()
				streams = append(streams, taken{path, declared})
			}
			time.Sleep(10 * time.Millisecond)
			close(stop)
			wg.Wait()
			sort.Slice(writes, func(i, j int) bool { return writes[i].rev < writes[j].rev })
			same := true
			for _, st := range streams {
				ms, err := readAllFrames(st.path, 4*1024*1024)
				must(err)
				os.Remove(st.path)
				got := map[string]string{}
				for _, m := range ms {
					c := &regattapb.Command{}
					must(c.UnmarshalVT(m))
					if c.Type == regattapb.Command_PUT {
						got[string(c.Kv.Key)] = string(c.Kv.Value)
					}
				}
				want := map[string]string{}
				for _, p := range base {
					want[string(p.k)] = string(p.v)
				}
				for _, w := range writes {
					if w.rev <= st.declared {
						want[string(w.k)] = string(w.v)
					}
				}
				if len(got) != len(want) {
					same = false
				}
				for k, v := range want {
					if got[k] != v {
						same = false
					}
				}
				out.Count("pit_streams")
			}
			out.Line(fmt.Sprintf("pointintime %d", max), fmt.Sprintf("ok %s", b2i(same)))
			out.Stats["pit_writes"] += len(writes)
		}
		must(e.Close())
	}
}

var _ = io.EOF

// gatedReader hands out the stream's records; after `after` reads it reports that it got there and
// waits to be let through.
type gatedReader struct {
	r       io.Reader
	after   int
	reached chan struct{}
	gate    chan struct{}
}

func (g *gatedReader) Read(p []byte) (int, error) {
	if g.after == 0 {
		close(g.reached)
		<-g.gate
	}
	g.after--
	return g.r.Read(p)
}

func doubleRestore(out *Out, e *storage.Engine, r *rand.Rand, max uint64) {
	maxVal := 300
	contents := [2][]pair{genContent(r, 6+r.Intn(10), false, maxVal), genContent(r, 6+r.Intn(10), false, maxVal)}
	var paths [2]string
	for i, c := range contents {
		src := fmt.Sprintf("dblsrc%d", i)
		_, err := e.CreateTable(src)
		must(err)
		waitTable(e, src)
		putAll(e, src, c)
		paths[i], _ = streamToFile(e, src, false)
		defer os.Remove(paths[i])
	}
	dst := "dbl"
	var gr [2]*gatedReader
	var done [2]chan error
	for i := range gr {
		f, err := snapshot.OpenFile(paths[i])
		must(err)
		defer f.Close()
		gr[i] = &gatedReader{r: f, after: 2, reached: make(chan struct{}), gate: make(chan struct{})}
		done[i] = make(chan error, 1)
		go func(i int) { done[i] <- e.Restore(dst, gr[i]) }(i)
		select {
		case <-gr[i].reached:
		case err := <-done[i]:
			// it did not get as far as loading (lost a race on the catalogue record ...): nothing is claimed
			done[i] <- err
		case <-time.After(60 * time.Second):
			panic("doubleRestore: a restore neither loads nor returns")
		}
	}
	report := func(which int) {
		waitTable(e, dst)
		back, err := readAll(e, dst)
		ans := "err read"
		if err == nil {
			ans = fmt.Sprintf("ok %s 1", pairsDigest(back))
		}
		out.Line(fmt.Sprintf("restore %d backup %s", max, pairsStr(contents[which])), ans)
		out.Count("restore_overlapping")
	}
	last := -1
	for i := range gr {
		close(gr[i].gate)
		var err error
		select {
		case err = <-done[i]:
		case <-time.After(120 * time.Second):
			panic("doubleRestore: a restore does not return")
		}
		if err == nil {
			last = i
			report(i)
		} else {
			out.Count("restore_overlapping_refused")
			if last >= 0 {
				// a restore that failed leaves the table as the last successful one made it
				report(last)
			}
		}
	}
}
