package main

import (
	"context"
	"encoding/binary"
	"errors"
	"fmt"
	"io"
	"math/rand"
	"strings"

	"github.com/jamf/regatta/regattapb"
	"github.com/jamf/regatta/regattaserver"
	serrors "github.com/jamf/regatta/storage/errors"
	"github.com/jamf/regatta/storage/logreader"
	"github.com/jamf/regatta/storage/table"
	"github.com/jamf/regatta/storage/table/fsm"
	"github.com/lni/dragonboat/v4"
	"github.com/lni/dragonboat/v4/client"
	"github.com/lni/dragonboat/v4/raftpb"
	sm "github.com/lni/dragonboat/v4/statemachine"
	"go.uber.org/zap"
	"google.golang.org/grpc/metadata"
	"google.golang.org/grpc/status"
)

func init() { modes["log"] = hLog }

// stubLog is the Raft log the readers query (dragonboat.ReadonlyLogReader). Entries(low, high,
// maxSize) returns the entries of [low, high) while the running SizeUpperLimit stays <= maxSize,
// at least one - the contract of dragonboat's own LogReader.Entries.
type stubLog struct {
	first, last uint64
	ents        map[uint64]raftpb.Entry
}

func (f *stubLog) GetRange() (uint64, uint64) { return f.first, f.last }
func (f *stubLog) NodeState() (raftpb.State, raftpb.Membership) {
	return raftpb.State{}, raftpb.Membership{}
}
func (f *stubLog) Term(uint64) (uint64, error) { return 1, nil }
func (f *stubLog) Snapshot() raftpb.Snapshot   { return raftpb.Snapshot{} }
func (f *stubLog) Entries(low, high, maxSize uint64) ([]raftpb.Entry, error) {
	if low < f.first {
		return nil, errors.New("compacted")
	}
	var out []raftpb.Entry
	size := 0
	for i := low; i < high && i <= f.last; i++ {
		e := f.ents[i]
		size += e.SizeUpperLimit()
		if len(out) > 0 && uint64(size) > maxSize {
			break
		}
		out = append(out, e)
	}
	return out, nil
}

type stubLogQ struct{ l *stubLog }

func (q stubLogQ) GetLogReader(uint64) (dragonboat.ReadonlyLogReader, error) { return q.l, nil }

// stubNH answers the index lookups of table.ActiveTable (raftHandler).
type stubNH struct{ applied, stale uint64 }

func (s *stubNH) SyncRead(_ context.Context, _ uint64, req interface{}) (interface{}, error) {
	if _, ok := req.(fsm.LocalIndexRequest); ok {
		return &fsm.IndexResponse{Index: s.applied}, nil
	}
	return nil, errors.New("unexpected request")
}
func (s *stubNH) StaleRead(_ uint64, req interface{}) (interface{}, error) {
	if _, ok := req.(fsm.LocalIndexRequest); ok {
		return &fsm.IndexResponse{Index: s.stale}, nil
	}
	return nil, errors.New("unexpected request")
}
func (s *stubNH) SyncPropose(context.Context, *client.Session, []byte) (sm.Result, error) {
	return sm.Result{}, errors.New("no proposals here")
}
func (s *stubNH) GetNoOPSession(id uint64) *client.Session { return &client.Session{ShardID: id} }

type stubTables struct{ nh *stubNH }

func (s stubTables) GetTables() ([]table.Table, error) { return nil, nil }
func (s stubTables) GetTable(name string) (table.ActiveTable, error) {
	if name != "tab" {
		return table.ActiveTable{}, serrors.ErrTableNotFound
	}
	return table.Table{Name: name, ClusterID: 1}.AsActive(s.nh), nil
}
func (s stubTables) Restore(string, io.Reader) error         { return nil }
func (s stubTables) CreateTable(string) (table.Table, error) { return table.Table{}, nil }
func (s stubTables) DeleteTable(string) error                { return nil }

type stubReplStream struct {
	ctx  context.Context
	msgs []*regattapb.ReplicateResponse
}

func (s *stubReplStream) Send(m *regattapb.ReplicateResponse) error {
	s.msgs = append(s.msgs, m)
	return nil
}
func (s *stubReplStream) SetHeader(metadata.MD) error  { return nil }
func (s *stubReplStream) SendHeader(metadata.MD) error { return nil }
func (s *stubReplStream) SetTrailer(metadata.MD)       {}
func (s *stubReplStream) Context() context.Context     { return s.ctx }
func (s *stubReplStream) SendMsg(interface{}) error    { return nil }
func (s *stubReplStream) RecvMsg(interface{}) error    { return nil }

func logErr(err error) string {
	switch {
	case errors.Is(err, serrors.ErrLogBehind):
		return "err behind"
	case errors.Is(err, serrors.ErrLogAhead):
		return "err ahead"
	}
	return "err other"
}

func entIdx(es []raftpb.Entry) string {
	var sb strings.Builder
	fmt.Fprintf(&sb, "%d", len(es))
	for _, e := range es {
		fmt.Fprintf(&sb, " %d", e.Index)
	}
	return sb.String()
}

// mkLogEntry builds an entry of the given Raft type whose command part has cmdLen bytes; an encoded
// entry carries a PUT whose key is the big-endian index, so that the shipped command identifies it.
func mkLogEntry(idx uint64, typ raftpb.EntryType, cmdLen int) raftpb.Entry {
	e := raftpb.Entry{Index: idx, Term: 1, Type: typ}
	if typ == raftpb.EncodedEntry {
		k := make([]byte, 8)
		binary.BigEndian.PutUint64(k, idx)
		c := &regattapb.Command{Table: []byte("tab"), Type: regattapb.Command_PUT, Kv: &regattapb.KeyValue{Key: k, Value: make([]byte, cmdLen)}}
		b, err := c.MarshalVT()
		must(err)
		e.Cmd = append([]byte{0}, b...)
	} else {
		e.Cmd = make([]byte, cmdLen)
	}
	return e
}

// hLog: random scripts (append / apply / compact with or without cache invalidation / query /
// replicate) against logreader.Simple, logreader.Cached (all cache sizes 1..12, size limits from 1
// byte) and the real LogServer.Replicate loop; the end of a queried range is always applied+1.
func hLog(dir string) {
	out := NewOut(dir)
	defer out.Close()
	n := envInt("VERIF_N", 2000)
	for sc := 0; sc < n; sc++ {
		r := newRand(int64(6000 + sc))
		cacheSize := 1 + r.Intn(12)
		if r.Intn(6) == 0 {
			cacheSize = 13 + r.Intn(52)
		}
		l := &stubLog{first: 1, last: 0, ents: map[uint64]raftpb.Entry{}}
		shardCache := logreader.NewShardCache(cacheSize)
		cached := &logreader.Cached{LogQuerier: stubLogQ{l}, ShardCache: shardCache}
		simple := &logreader.Simple{LogQuerier: stubLogQ{l}}
		nh := &stubNH{}
		out.Line(fmt.Sprintf("reset %d", cacheSize), "ok")
		applied := uint64(0)
		bigMax := r.Intn(3) == 0
		for step := 0; step < 25+r.Intn(30); step++ {
			switch x := r.Intn(12); {
			case x < 3: // append + apply (applied only grows, never beyond last)
				k := 1 + r.Intn(5)
				var sb strings.Builder
				for i := 0; i < k; i++ {
					l.last++
					typ := raftpb.EncodedEntry
					if r.Intn(5) == 0 {
						typ = []raftpb.EntryType{raftpb.ApplicationEntry, raftpb.ConfigChangeEntry, raftpb.MetadataEntry}[r.Intn(3)]
					}
					cl := r.Intn(300)
					if r.Intn(8) == 0 {
						cl = 1500 + r.Intn(1500)
					}
					e := mkLogEntry(l.last, typ, cl)
					l.ents[l.last] = e
					fmt.Fprintf(&sb, " %d %s", e.SizeUpperLimit(), b2i(typ == raftpb.EncodedEntry))
				}
				na := l.last - uint64(r.Intn(3))
				if na > applied && na <= l.last {
					applied = na
				}
				out.Line(fmt.Sprintf("append %d%s %d", k, sb.String(), applied), "ok")
				out.Count("append")
			case x == 3: // compaction; invalidation of the cache is asynchronous in production, so both orders occur
				if applied > 2 {
					l.first = 1 + uint64(r.Intn(int(applied)))
					inval := r.Intn(4) != 0
					if inval {
						shardCache.LogCompacted(1)
					}
					out.Line(fmt.Sprintf("compact %d %s", l.first, b2i(inval)), "ok")
					out.Count("compact")
				}
			default:
				if applied == 0 {
					continue
				}
				var from uint64
				switch r.Intn(10) {
				case 0:
					from = applied + 1
				case 1:
					from = applied + 2 + uint64(r.Intn(3))
				case 2:
					from = 1
				default:
					from = 1 + uint64(r.Intn(int(applied)))
				}
				max := uint64(1 + r.Intn(2000))
				if bigMax {
					max = uint64(500 + r.Intn(6000))
				}
				which := "c"
				var rd regattaserver.LogReaderService = cached
				if r.Intn(3) == 0 {
					which, rd = "s", simple
				}
				if r.Intn(4) == 0 {
					// the whole server loop
					nh.applied, nh.stale = applied, applied
					srv := regattaserver.NewLogServer(stubTables{nh}, rd, zap.NewNop(), max)
					st := &stubReplStream{ctx: context.Background()}
					err := srv.Replicate(&regattapb.ReplicateRequest{Table: []byte("tab"), LeaderIndex: from}, st)
					var sb strings.Builder
					fmt.Fprintf(&sb, "ok %d", len(st.msgs))
					for _, m := range st.msgs {
						switch resp := m.Response.(type) {
						case *regattapb.ReplicateResponse_CommandsResponse:
							fmt.Fprintf(&sb, " cmds %d", len(resp.CommandsResponse.Commands))
							for _, c := range resp.CommandsResponse.Commands {
								kind := "dummy"
								if c.Command.Type == regattapb.Command_PUT {
									kind = fmt.Sprintf("put%d", binary.BigEndian.Uint64(c.Command.Kv.Key))
								}
								li := uint64(0)
								if c.Command.LeaderIndex != nil {
									li = *c.Command.LeaderIndex
								}
								fmt.Fprintf(&sb, " %d:%d:%s", c.LeaderIndex, li, kind)
							}
						case *regattapb.ReplicateResponse_ErrorResponse:
							fmt.Fprintf(&sb, " error %d", resp.ErrorResponse.Error)
						default:
							fmt.Fprintf(&sb, " empty %d", m.LeaderIndex)
						}
					}
					ans := sb.String()
					if err != nil {
						ans = fmt.Sprintf("rpcerr %d", status.Code(err))
					}
					out.Line(fmt.Sprintf("repl %s %d %d", which, from, max), ans)
					out.Count("repl_" + which)
					continue
				}
				if from > applied+1 {
					from = applied + 1
				}
				es, err := rd.QueryRaftLog(context.Background(), 1, dragonboat.LogRange{FirstIndex: from, LastIndex: applied + 1}, max)
				ans := "ok " + entIdx(es)
				if err != nil {
					ans = logErr(err)
					out.Count("q_err")
				} else if len(es) == 0 {
					out.Count("q_empty")
				}
				out.Line(fmt.Sprintf("q %s %d %d", which, from, max), ans)
				out.Count("q_" + which)
			}
		}
	}
}

var _ = rand.Int
