package main

import (
	"fmt"
	"sort"
	"strings"

	"github.com/jamf/regatta/storage/cluster"
	"github.com/lni/dragonboat/v4"
)

func init() { modes["view"] = hView }

func svStr(v dragonboat.ShardView) string {
	ids := make([]uint64, 0, len(v.Replicas))
	for id := range v.Replicas {
		ids = append(ids, id)
	}
	sort.Slice(ids, func(i, j int) bool { return ids[i] < ids[j] })
	var sb strings.Builder
	fmt.Fprintf(&sb, "%d %d %d %d r %d", v.ShardID, v.ConfigChangeIndex, v.LeaderID, v.Term, len(ids))
	for _, id := range ids {
		fmt.Fprintf(&sb, " %d", id)
	}
	return sb.String()
}

// hView: random multisets of shard updates delivered in several orders, with duplicates and split
// across update calls, through the real mergeShardInfo / shardView.update.
func hView(dir string) {
	out := NewOut(dir)
	defer out.Close()
	r := newRand(19)
	n := envInt("VERIF_N", 1500)
	for c := 0; c < n; c++ {
		// one case: a multiset of updates for 1..3 shards
		k := 1 + r.Intn(7)
		ups := make([]dragonboat.ShardView, k)
		for i := range ups {
			u := dragonboat.ShardView{ShardID: uint64(1 + r.Intn(2))}
			u.ConfigChangeIndex = uint64(r.Intn(4))
			// membership is a function of (shard, cci) in consistent cases, arbitrary otherwise
			consistent := c%4 != 0
			nrep := r.Intn(4)
			if consistent {
				nrep = int(u.ConfigChangeIndex) % 4
			}
			if nrep > 0 || r.Intn(2) == 0 {
				u.Replicas = map[uint64]string{}
				for j := 0; j < nrep; j++ {
					u.Replicas[uint64(j+1)] = ""
				}
			}
			u.Term = uint64(r.Intn(4))
			if r.Intn(3) > 0 {
				if consistent {
					u.LeaderID = 1 + (u.Term*7+u.ShardID)%3
				} else {
					u.LeaderID = uint64(1 + r.Intn(3))
				}
			}
			ups[i] = u
		}
		out.Line("reset", "ok")
		// direct merges first
		cur := dragonboat.ShardView{ShardID: ups[0].ShardID}
		for _, u := range ups {
			if u.ShardID != cur.ShardID {
				continue
			}
			cur2 := cluster.VerifMergeShardInfo(cur, u)
			out.Line("merge "+svStr(cur)+" | "+svStr(u), "ok "+svStr(cur2))
			cur = cur2
			out.Count("merge")
		}
		// several delivery orders through shardView.update, split into random calls, with duplicates
		for ord := 0; ord < 3; ord++ {
			perm := r.Perm(len(ups))
			seq := make([]dragonboat.ShardView, 0, 2*len(ups))
			for _, i := range perm {
				seq = append(seq, ups[i])
				if r.Intn(4) == 0 {
					seq = append(seq, ups[r.Intn(len(ups))])
				}
			}
			v := cluster.VerifNewView()
			out.Line("new", "ok")
			for len(seq) > 0 {
				m := 1 + r.Intn(len(seq))
				var sb strings.Builder
				fmt.Fprintf(&sb, "upd %d", m)
				for _, u := range seq[:m] {
					sb.WriteString(" ; " + svStr(u))
				}
				v.Update(seq[:m])
				seq = seq[m:]
				out.Line(sb.String(), "ok")
				out.Count("upd")
			}
			for _, id := range []uint64{1, 2, 3} {
				out.Line(fmt.Sprintf("get %d", id), "ok "+svStr(v.ShardInfo(id)))
			}
		}
		// node level: the real Cluster event handlers and memberlist delegate (LocalState /
		// MergeRemoteState) of 2-3 nodes exchanging state in random order
		nn := 2 + r.Intn(2)
		nodes := make([]*cluster.VerifNode, nn)
		for i := range nodes {
			nodes[i] = cluster.VerifNewNode()
			out.Line(fmt.Sprintf("nnew %d", i), "ok")
		}
		for step := 0; step < 4+r.Intn(8); step++ {
			i := r.Intn(nn)
			switch r.Intn(4) {
			case 0: // local raft info changes: a subset of the updates, one per shard
				var l []dragonboat.ShardInfo
				seen := map[uint64]bool{}
				var sb strings.Builder
				cnt := 0
				for _, j := range r.Perm(len(ups)) {
					u := ups[j]
					if seen[u.ShardID] || r.Intn(2) == 0 {
						continue
					}
					seen[u.ShardID] = true
					l = append(l, dragonboat.ShardInfo{ShardID: u.ShardID, Replicas: u.Replicas, ConfigChangeIndex: u.ConfigChangeIndex, LeaderID: u.LeaderID, Term: u.Term})
					sb.WriteString(" ; " + svStr(u))
					cnt++
				}
				nodes[i].SetLocal(l)
				out.Line(fmt.Sprintf("local %d %d%s", i, cnt, sb.String()), "ok")
			case 1:
				if r.Intn(2) == 0 {
					nodes[i].Notify()
				} else {
					nodes[i].NotifyJoin()
				}
				out.Line(fmt.Sprintf("notify %d", i), "ok")
			default:
				j := r.Intn(nn)
				join := r.Intn(2) == 0
				nodes[j].MergeRemoteState(nodes[i].LocalState(join), join)
				out.Line(fmt.Sprintf("gossip %d %d", i, j), "ok")
				out.Count("gossip")
			}
			for k := range nodes {
				for _, id := range []uint64{1, 2} {
					out.Line(fmt.Sprintf("nget %d %d", k, id), "ok "+svStr(nodes[k].ShardInfo(id)))
				}
			}
		}
	}
}
