package main

import (
	"fmt"
	"sort"
	"strings"
	"time"

	"github.com/jamf/regatta/storage/cluster"
	"github.com/lni/dragonboat/v4"
)

func init() { modes["view"] = hView }

func svStr(v dragonboat.ShardView) string {
	ids := make([]uint64, 0, len(v.Replicas))
	for id := range v.Replicas {
		ids = append(ids, id)
	}
	sort.Slice(ids, func(i, j int) bool { return ids[i] < ids[j] })
	var sb strings.Builder
	fmt.Fprintf(&sb, "%d %d %d %d r %d", v.ShardID, v.ConfigChangeIndex, v.LeaderID, v.Term, len(ids))
	for _, id := range ids {
		fmt.Fprintf(&sb, " %d", id)
	}
	return sb.String()
}

// hView: random multisets of shard updates delivered in several orders, with duplicates and split
// across update calls, through the real mergeShardInfo / shardView.update.
// realGossip: two nodes built by the real cluster.New (the wiring of the Cluster, its memberlist delegate and
// the shard view they share is the constructor's, not the harness's) over a real memberlist on loopback.
// Each node knows one shard's state from its own Raft information; the second joins the first (memberlist
// exchanges the full state on join); afterwards BOTH nodes must report, through Cluster.ShardInfo - what
// response headers are built from -, the model's merge of the two: the leader of the higher term, the
// membership of the higher configuration-change index.
func realGossip(out *Out, sc int) {
	type local struct{ l []dragonboat.ShardInfo }
	locals := []*local{{}, {}}
	mk := func(i int) (*cluster.Cluster, string) {
		addr := fmt.Sprintf("127.0.0.1:%d", freePort())
		c, err := cluster.New(addr, "", "verif-view", fmt.Sprintf("n%d-%d-%s", sc, i, addr), func() cluster.Info {
			return cluster.Info{NodeID: uint64(i + 1), ShardInfoList: locals[i].l}
		})
		must(err)
		return c, addr
	}
	ups := [][]dragonboat.ShardView{
		{{ShardID: 1, Replicas: map[uint64]string{1: "a", 2: "b", 3: "c"}, ConfigChangeIndex: 1, LeaderID: 1, Term: uint64(5 + sc)},
			{ShardID: 2, Replicas: map[uint64]string{1: "a"}, ConfigChangeIndex: 4, LeaderID: 0, Term: 9}},
		{{ShardID: 1, Replicas: map[uint64]string{1: "a", 2: "b", 3: "c", 4: "d"}, ConfigChangeIndex: 3, LeaderID: 2, Term: uint64(7 + sc)},
			{ShardID: 2, Replicas: map[uint64]string{1: "a", 2: "b"}, ConfigChangeIndex: 2, LeaderID: 1, Term: 3}},
	}
	a, addrA := mk(0)
	defer a.Close()
	b, _ := mk(1)
	defer b.Close()
	out.Line("reset", "ok")
	nodes := []*cluster.Cluster{a, b}
	for i := range nodes {
		out.Line(fmt.Sprintf("nnew %d", i), "ok")
		var sb strings.Builder
		for _, u := range ups[i] {
			locals[i].l = append(locals[i].l, dragonboat.ShardInfo{ShardID: u.ShardID, Replicas: u.Replicas, ConfigChangeIndex: u.ConfigChangeIndex, LeaderID: u.LeaderID, Term: u.Term})
			sb.WriteString(" ; " + svStr(u))
		}
		out.Line(fmt.Sprintf("local %d %d%s", i, len(ups[i]), sb.String()), "ok")
		nodes[i].Notify()
		out.Line(fmt.Sprintf("notify %d", i), "ok")
	}
	a.Start(nil)
	b.Start([]string{addrA})
	out.Line("gossip 1 0", "ok")
	out.Line("gossip 0 1", "ok")
	// what both must converge to: node 0 after hearing node 1 (the model's answer); poll the real nodes
	want := map[uint64]string{}
	for k := range nodes {
		for _, id := range []uint64{1, 2} {
			got := ""
			for i := 0; i < 150; i++ {
				got = svStr(nodes[k].ShardInfo(id))
				if w, ok := want[id]; !ok || w == got {
					if k == 0 && i < 20 && !ok {
						// node 0: give the join's state exchange a moment before taking its answer as it is
						other := svStr(nodes[1].ShardInfo(id))
						if other != got {
							time.Sleep(100 * time.Millisecond)
							continue
						}
					}
					break
				}
				time.Sleep(100 * time.Millisecond)
			}
			if k == 0 {
				want[id] = got
			}
			out.Line(fmt.Sprintf("nget %d %d", k, id), "ok "+got)
		}
	}
	out.Count("real_gossip")
}

func hView(dir string) {
	out := NewOut(dir)
	defer out.Close()
	r := newRand(19)
	n := envInt("VERIF_N", 1500)
	for sc := 0; sc < 1+n/100000; sc++ {
		realGossip(out, sc)
	}
	for c := 0; c < n; c++ {
		// one case: a multiset of updates for 1..3 shards
		k := 1 + r.Intn(7)
		ups := make([]dragonboat.ShardView, k)
		for i := range ups {
			u := dragonboat.ShardView{ShardID: uint64(1 + r.Intn(2))}
			u.ConfigChangeIndex = uint64(r.Intn(4))
			// membership is a function of (shard, cci) in consistent cases, arbitrary otherwise
			consistent := c%4 != 0
			nrep := r.Intn(4)
			if consistent {
				nrep = int(u.ConfigChangeIndex) % 4
			}
			if nrep > 0 || r.Intn(2) == 0 {
				u.Replicas = map[uint64]string{}
				for j := 0; j < nrep; j++ {
					u.Replicas[uint64(j+1)] = ""
				}
			}
			u.Term = uint64(r.Intn(4))
			if r.Intn(3) > 0 {
				if consistent {
					u.LeaderID = 1 + (u.Term*7+u.ShardID)%3
				} else {
					u.LeaderID = uint64(1 + r.Intn(3))
				}
			}
			ups[i] = u
		}
		out.Line("reset", "ok")
		// direct merges first
		cur := dragonboat.ShardView{ShardID: ups[0].ShardID}
		for _, u := range ups {
			if u.ShardID != cur.ShardID {
				continue
			}
			cur2 := cluster.VerifMergeShardInfo(cur, u)
			out.Line("merge "+svStr(cur)+" | "+svStr(u), "ok "+svStr(cur2))
			cur = cur2
			out.Count("merge")
		}
		// several delivery orders through shardView.update, split into random calls, with duplicates
		for ord := 0; ord < 3; ord++ {
			perm := r.Perm(len(ups))
			seq := make([]dragonboat.ShardView, 0, 2*len(ups))
			for _, i := range perm {
				seq = append(seq, ups[i])
				if r.Intn(4) == 0 {
					seq = append(seq, ups[r.Intn(len(ups))])
				}
			}
			v := cluster.VerifNewView()
			out.Line("new", "ok")
			for len(seq) > 0 {
				m := 1 + r.Intn(len(seq))
				var sb strings.Builder
				fmt.Fprintf(&sb, "upd %d", m)
				for _, u := range seq[:m] {
					sb.WriteString(" ; " + svStr(u))
				}
				v.Update(seq[:m])
				seq = seq[m:]
				out.Line(sb.String(), "ok")
				out.Count("upd")
			}
			for _, id := range []uint64{1, 2, 3} {
				out.Line(fmt.Sprintf("get %d", id), "ok "+svStr(v.ShardInfo(id)))
			}
		}
		// node level: the real Cluster event handlers and memberlist delegate (LocalState /
		// MergeRemoteState) of 2-3 nodes exchanging state in random order
		nn := 2 + r.Intn(2)
		nodes := make([]*cluster.VerifNode, nn)
		for i := range nodes {
			nodes[i] = cluster.VerifNewNode()
			out.Line(fmt.Sprintf("nnew %d", i), "ok")
		}
		for step := 0; step < 4+r.Intn(8); step++ {
			i := r.Intn(nn)
			switch r.Intn(4) {
			case 0: // local raft info changes: a subset of the updates, one per shard
				var l []dragonboat.ShardInfo
				seen := map[uint64]bool{}
				var sb strings.Builder
				cnt := 0
				for _, j := range r.Perm(len(ups)) {
					u := ups[j]
					if seen[u.ShardID] || r.Intn(2) == 0 {
						continue
					}
					seen[u.ShardID] = true
					l = append(l, dragonboat.ShardInfo{ShardID: u.ShardID, Replicas: u.Replicas, ConfigChangeIndex: u.ConfigChangeIndex, LeaderID: u.LeaderID, Term: u.Term})
					sb.WriteString(" ; " + svStr(u))
					cnt++
				}
				nodes[i].SetLocal(l)
				out.Line(fmt.Sprintf("local %d %d%s", i, cnt, sb.String()), "ok")
			case 1:
				if r.Intn(2) == 0 {
					nodes[i].Notify()
				} else {
					nodes[i].NotifyJoin()
				}
				out.Line(fmt.Sprintf("notify %d", i), "ok")
			default:
				j := r.Intn(nn)
				join := r.Intn(2) == 0
				nodes[j].MergeRemoteState(nodes[i].LocalState(join), join)
				out.Line(fmt.Sprintf("gossip %d %d", i, j), "ok")
				out.Count("gossip")
			}
			for k := range nodes {
				for _, id := range []uint64{1, 2} {
					out.Line(fmt.Sprintf("nget %d %d", k, id), "ok "+svStr(nodes[k].ShardInfo(id)))
				}
			}
		}
	}
}
