//go:build verif

package main

// Mode cluster3 (C03 C08 C10 C19 in situ): a real three-node cluster (three storage.Engines in one
// process, real dragonboat transport on loopback, snapshot formats differing between the nodes, log
// compaction every few entries).  One node at a time is stopped - the shard leader included - while
// writes go on, and restarted, so that it has to catch up through dragonboat's own snapshot transfer
// (SaveSnapshot on one replica, RecoverFromSnapshot on another, possibly of the other format).
//
// What is observed (driver mode repl, an oracle over the model's replay of the acknowledged writes):
//   sample: local (stale) reads on any node, bracketed by reads of its applied index, must be the
//           table's content at an index in between - a prefix of the acknowledged writes (C10);
//   lin:    linearizable reads on any node - also one that has just been restarted and lags - must
//           contain every write acknowledged before the read started (C10, the ReadIndex assumption);
//   final:  once everything is up and quiet, every replica holds the content after all writes (C03,
//           C08: also the replicas that were rebuilt from a snapshot of the other format);
//   terms:  the Raft term reported in the response headers of a node never moves backwards (C19).

import (
	"context"
	"errors"
	"fmt"
	"math/rand"
	"os"
	"strings"
	"sync"
	"time"

	pvfs "github.com/cockroachdb/pebble/vfs"
	rp "github.com/jamf/regatta/pebble"
	"github.com/jamf/regatta/regattapb"
	"github.com/jamf/regatta/replication/snapshot"
	"github.com/jamf/regatta/storage"
	serrors "github.com/jamf/regatta/storage/errors"
	"github.com/jamf/regatta/storage/table"
	lvfs "github.com/lni/vfs"
	"go.uber.org/zap"
)

func init() { modes["cluster3"] = hCluster3 }

type cnode struct {
	id      uint64
	e       *storage.Engine
	st      *engineState
	rt      table.SnapshotRecoveryType
	members map[uint64]string
	seeds   []string
	up      bool
}

func (n *cnode) start() error {
	if n.st == nil {
		n.st = &engineState{fs: lvfs.NewMem(), tableFS: pvfs.NewMem()}
	}
	gp := freePort()
	cfg := storage.Config{
		Log:            zap.NewNop().Sugar(),
		NodeID:         n.id,
		InitialMembers: n.members,
		WALDir:         "/wal",
		NodeHostDir:    "/nh",
		RTTMillisecond: 5,
		RaftAddress:    n.members[n.id],
		Gossip:         storage.GossipConfig{BindAddress: fmt.Sprintf("127.0.0.1:%d", gp), InitialMembers: append([]string{fmt.Sprintf("127.0.0.1:%d", gp)}, n.seeds...), NodeName: fmt.Sprintf("n%d-%d", n.id, gp)},
		Table: storage.TableConfig{FS: n.st.tableFS, TableCacheSize: 1024, ElectionRTT: 10, HeartbeatRTT: 1, MaxInMemLogSize: 6 * 1024 * 1024, RecoveryType: n.rt,
			SnapshotEntries: 15, CompactionOverhead: 3},
		Meta: storage.MetaConfig{ElectionRTT: 10, HeartbeatRTT: 1},
		FS:   n.st.fs,
	}
	e, err := storage.New(cfg)
	if err != nil {
		return err
	}
	e.Manager.VerifSetIntervals(1500*time.Millisecond, 30*time.Second)
	if err := e.Start(); err != nil {
		_ = e.Close()
		return err
	}
	n.e = e
	n.up = true
	return nil
}

func (n *cnode) stop() {
	if n.up {
		_ = n.e.Close()
		n.up = false
	}
}

func (n *cnode) ready(d time.Duration) bool {
	ctx, cancel := context.WithTimeout(context.Background(), d)
	defer cancel()
	return n.e.WaitUntilReady(ctx) == nil
}

func localIdx(e *storage.Engine, tname string) (uint64, error) {
	tb, err := e.GetTable(tname)
	if err != nil {
		return 0, err
	}
	ctx, cancel := context.WithTimeout(context.Background(), 5*time.Second)
	defer cancel()
	r, err := tb.LocalIndex(ctx, false)
	if err != nil {
		return 0, err
	}
	return r.Index, nil
}

// startCluster3 brings up three nodes with a table on all of them.  Setting a cluster up is not what is
// being judged: a port taken by someone else in between, a proposal dropped by an election right after
// the start (CreateTable times out; a retry finds the table created or creates it) are tried again; a
// scenario that cannot be set up is counted (setup_failed_*) and skipped without a verdict - the mode
// reports an error only if NO scenario could be set up.
func startCluster3(out *Out, r *rand.Rand, tname string) []*cnode {
	formats := []table.SnapshotRecoveryType{table.SnapshotRecoveryType(r.Intn(2)), table.SnapshotRecoveryType(r.Intn(2)), table.SnapshotRecoveryType(r.Intn(2))}
	for attempt := 0; attempt < 3; attempt++ {
		members := map[uint64]string{}
		for i := uint64(1); i <= 3; i++ {
			members[i] = fmt.Sprintf("127.0.0.1:%d", freePort())
		}
		nodes := make([]*cnode, 3)
		for i := range nodes {
			nodes[i] = &cnode{id: uint64(i + 1), members: members, rt: formats[i]}
		}
		stopAll := func() {
			for _, n := range nodes {
				n.stop()
			}
		}
		// the nodes need a quorum to get ready: start them together
		var wg sync.WaitGroup
		errs := make([]error, 3)
		for i := range nodes {
			wg.Add(1)
			go func(i int) { defer wg.Done(); errs[i] = nodes[i].start() }(i)
		}
		wg.Wait()
		why := ""
		for _, err := range errs {
			if err != nil {
				why = "node_start"
			}
		}
		if why == "" {
			for _, n := range nodes {
				if !n.ready(60 * time.Second) {
					why = "not_ready"
					break
				}
			}
		}
		if why == "" {
			var err error
			for i := 0; i < 6; i++ {
				if _, err = nodes[0].e.CreateTable(tname); err == nil || errors.Is(err, serrors.ErrTableExists) {
					err = nil
					break
				}
				time.Sleep(300 * time.Millisecond)
			}
			if err != nil {
				why = "create_table"
			}
		}
		if why == "" {
			func() {
				defer func() {
					if recover() != nil {
						why = "table_not_ready"
					}
				}()
				for _, n := range nodes {
					waitTable(n.e, tname)
				}
			}()
		}
		if why == "" {
			return nodes
		}
		out.Count("setup_failed_" + why)
		stopAll()
	}
	return nil
}

func cluster3Scenario(out *Out, r *rand.Rand, sc int) {
	tname := "c3"
	nodes := startCluster3(out, r, tname)
	if nodes == nil {
		return
	}
	defer func() {
		for _, n := range nodes {
			n.stop()
		}
	}()
	out.Count("scenarios_set_up")
	out.Line("reset", "ok")
	out.Line("ltable "+hx([]byte(tname)), "ok")
	out.Stats[fmt.Sprintf("formats_%d%d%d", nodes[0].rt, nodes[1].rt, nodes[2].rt)]++
	g := newFsmGen(r)
	m := len(g.keys)
	var lastAcked uint64
	// the view a node reports from lives in its process: a restarted node starts a new one (epoch)
	terms := map[uint64]uint64{}
	epoch := map[uint64]int{}
	termEpoch := map[uint64]int{}
	leaderOfTerm := map[uint64]uint64{}
	termsOK := true
	seeTerm := func(node uint64, h *regattapb.ResponseHeader) {
		if h == nil {
			return
		}
		// the header names the shard and the replica that answered, and (C19 / Raft: one leader per term) no
		// two headers - of whatever node - name different leaders for one term
		if tid := tableID(nodes[node-1], tname); h.ShardId != tid && tid != 0 {
			termsOK = false
			out.Count(fmt.Sprintf("header_shard_%d_instead_of_%d", h.ShardId, tid))
		}
		if h.ReplicaId != node {
			termsOK = false
			out.Count(fmt.Sprintf("header_replica_%d_instead_of_%d", h.ReplicaId, node))
		}
		if h.RaftLeaderId != 0 {
			if l, ok := leaderOfTerm[h.RaftTerm]; ok && l != h.RaftLeaderId {
				termsOK = false
				out.Count(fmt.Sprintf("two_leaders_in_term_%d", h.RaftTerm))
			}
			leaderOfTerm[h.RaftTerm] = h.RaftLeaderId
			if h.RaftLeaderId > 3 {
				termsOK = false
				out.Count(fmt.Sprintf("header_leader_%d_is_no_member", h.RaftLeaderId))
			}
		}
		if termEpoch[node] != epoch[node] {
			if h.RaftTerm < terms[node] {
				out.Count("term_lower_after_restart")
			}
			termEpoch[node] = epoch[node]
		} else if h.RaftTerm < terms[node] {
			termsOK = false
			out.Count(fmt.Sprintf("term_regressed_node%d_%d_to_%d", node, terms[node], h.RaftTerm))
		}
		terms[node] = h.RaftTerm
	}
	upNodes := func() []*cnode {
		var u []*cnode
		for _, n := range nodes {
			if n.up {
				u = append(u, n)
			}
		}
		return u
	}
	write := func() {
		u := upNodes()
		n := u[r.Intn(len(u))]
		c := g.cmd(m, 0)
		ctx, cancel := context.WithTimeout(context.Background(), 10*time.Second)
		defer cancel()
		var rev uint64
		var err error
		var cmd *regattapb.Command
		var hdr *regattapb.ResponseHeader
		switch c.Type {
		case regattapb.Command_PUT:
			var resp *regattapb.PutResponse
			resp, err = n.e.Put(ctx, &regattapb.PutRequest{Table: []byte(tname), Key: c.Kv.Key, Value: c.Kv.Value, PrevKv: c.PrevKvs})
			if err == nil {
				rev, hdr = resp.Header.Revision, resp.Header
			}
			cmd = &regattapb.Command{Type: regattapb.Command_PUT, Kv: &regattapb.KeyValue{Key: c.Kv.Key, Value: c.Kv.Value}, PrevKvs: c.PrevKvs}
		case regattapb.Command_DELETE:
			var resp *regattapb.DeleteRangeResponse
			resp, err = n.e.Delete(ctx, &regattapb.DeleteRangeRequest{Table: []byte(tname), Key: c.Kv.Key, RangeEnd: c.RangeEnd, PrevKv: c.PrevKvs, Count: c.Count})
			if err == nil {
				rev, hdr = resp.Header.Revision, resp.Header
			}
			cmd = &regattapb.Command{Type: regattapb.Command_DELETE, Kv: &regattapb.KeyValue{Key: c.Kv.Key}, PrevKvs: c.PrevKvs, RangeEnd: c.RangeEnd, Count: c.Count}
		case regattapb.Command_TXN:
			rq := &regattapb.TxnRequest{Table: []byte(tname), Compare: c.Txn.Compare, Success: c.Txn.Success, Failure: c.Txn.Failure}
			if txnIsReadonly(rq) {
				return
			}
			var resp *regattapb.TxnResponse
			resp, err = n.e.Txn(ctx, rq)
			if err == nil {
				rev, hdr = resp.Header.Revision, resp.Header
			}
			cmd = &regattapb.Command{Type: regattapb.Command_TXN, Txn: &regattapb.Txn{Compare: c.Txn.Compare, Success: c.Txn.Success, Failure: c.Txn.Failure}}
		default:
			return
		}
		if err != nil || rev == 0 {
			// refused by validation - or timed out during an election: the outcome of a timed-out
			// proposal is unknown, the scenario is abandoned (not judged) in that case
			if err != nil {
				out.Count("werr_" + strings.ReplaceAll(fmt.Sprint(err), " ", "_"))
			}
			if err != nil && ctx.Err() != nil {
				out.Count("abandon_write_timeout")
				panic("abandon")
			}
			return
		}
		seeTerm(n.id, hdr)
		out.Line(fmt.Sprintf("lop %s %s", hx([]byte(tname)), mkEntry(rev, cmd).render()), "ok")
		lastAcked = rev
		out.Count("write")
	}
	sample := func() {
		u := upNodes()
		n := u[r.Intn(len(u))]
		if r.Intn(2) == 0 {
			// a linearizable read: everything acknowledged so far has to be in it
			acked := lastAcked
			ps, err := fullPairs(n.e, tname, true)
			if err != nil {
				return
			}
			out.Line(fmt.Sprintf("lin %s %s %d", hx([]byte(tname)), pairsDigest(ps), acked), "ok")
			out.Count("lin")
			return
		}
		l1, err := localIdx(n.e, tname)
		if err != nil {
			return
		}
		ps, err := fullPairs(n.e, tname, false)
		if err != nil {
			return
		}
		l2, err := localIdx(n.e, tname)
		if err != nil {
			return
		}
		// indices of different nodes are not comparable with each other: one stream of samples per node
		out.Line(fmt.Sprintf("sample %s@%d %d %s %d", hx([]byte(tname)), n.id, l1, pairsDigest(ps), l2), "ok")
		out.Count("sample")
	}
	// after a membership event: wait until the table's shard has a leader among the running nodes
	// (a proposal made while there is none is dropped and only times out)
	waitLeader := func() {
		for i := 0; i < 300; i++ {
			okAll := true
			for _, n := range upNodes() {
				tb, err := n.e.GetTable(tname)
				if err != nil {
					okAll = false
					break
				}
				lid, _, valid, err := n.e.NodeHost.GetLeaderID(tb.ClusterID)
				if err != nil || !valid || !nodes[lid-1].up {
					okAll = false
					break
				}
			}
			if okAll {
				return
			}
			time.Sleep(20 * time.Millisecond)
		}
	}
	abandoned := false
	func() {
		defer func() {
			if x := recover(); x != nil {
				if x == "abandon" {
					abandoned = true
					return
				}
				panic(x)
			}
		}()
		for round := 0; round < 3+r.Intn(3); round++ {
			for i := 0; i < 10+r.Intn(15); i++ {
				write()
				if r.Intn(3) == 0 {
					sample()
				}
			}
			// one node goes down - possibly the shard's leader - while the others carry on beyond the
			// next snapshot + compaction, then it comes back and has to catch up
			victim := nodes[r.Intn(3)]
			dirBefore := currentDir(victim, tname)
			victim.stop()
			out.Count("node_stopped")
			waitLeader()
			for i := 0; i < 25+r.Intn(25); i++ {
				write()
				if r.Intn(4) == 0 {
					sample()
				}
			}
			epoch[victim.id]++
			if err := victim.start(); err != nil {
				out.Count("abandon_restart_" + strings.ReplaceAll(fmt.Sprint(err), " ", "_")[:40])
				panic("abandon")
			}
			if !victim.ready(60 * time.Second) {
				out.Count("abandon_not_ready")
				panic("abandon")
			}
			waitTable(victim.e, tname)
			waitLeader()
			// did it catch up through a snapshot transfer? (the live DB directory was replaced)
			for i := 0; i < 100; i++ {
				if li, err := localIdx(victim.e, tname); err == nil && li >= lastAcked {
					break
				}
				time.Sleep(50 * time.Millisecond)
			}
			if d := currentDir(victim, tname); d != "" && dirBefore != "" && d != dirBefore {
				out.Count("caught_up_by_snapshot")
			} else {
				out.Count("caught_up_by_log")
			}
			// reads on the node that has just come back
			for i := 0; i < 6; i++ {
				sample()
				if r.Intn(2) == 0 {
					write()
				}
			}
		}
	}()
	if abandoned {
		out.Count("abandoned")
		out.Line("reset", "ok")
		return
	}
	// quiescence: every replica applies everything
	deadline := time.Now().Add(60 * time.Second)
	for time.Now().Before(deadline) {
		ok := true
		for _, n := range nodes {
			li, err := localIdx(n.e, tname)
			if err != nil || li < lastAcked {
				ok = false
			}
		}
		if ok {
			break
		}
		time.Sleep(100 * time.Millisecond)
	}
	for _, n := range nodes {
		li, err1 := localIdx(n.e, tname)
		ps, err2 := fullPairs(n.e, tname, false)
		for try := 0; try < 5 && (err1 != nil || err2 != nil); try++ {
			// a read that times out on a loaded machine is tried again; a replica that cannot be read at all is reported
			time.Sleep(time.Second)
			li, err1 = localIdx(n.e, tname)
			ps, err2 = fullPairs(n.e, tname, false)
		}
		if err1 != nil || err2 != nil {
			out.Line(fmt.Sprintf("final %s@%d 0 - %d", hx([]byte(tname)), n.id, lastAcked), "err replica-read")
			continue
		}
		out.Line(fmt.Sprintf("final %s@%d %d %s %d", hx([]byte(tname)), n.id, li, pairsDigest(ps), lastAcked), "ok")
	}
	// a restore in the running three-node cluster (C07 / C14 in situ): the node that is asked creates the
	// recovery shard and records it in the catalogue; the OTHER nodes have to start it from their
	// reconciliation loop or it never gets a quorum; afterwards every node must serve the restored table
	// - exactly the source's content at the stream's index, under an id never used before.
	restore3(out, r, nodes, tname)
	ts := "ok"
	if !termsOK {
		ts = "TERM-MOVED-BACKWARDS"
	}
	out.Line("terms", ts)
}

func hCluster3(dir string) {
	out := NewOut(dir)
	defer out.Close()
	n := envInt("VERIF_N", 2)
	for sc := 0; sc < n; sc++ {
		cluster3Scenario(out, newRand(int64(9900+sc)), sc)
	}
	if out.Stats["scenarios_set_up"] == 0 {
		out.Line("cluster-setup", "err no scenario could be set up")
	}
}

// currentDir: the name of the live DB directory of the node's replica of the table.
func currentDir(n *cnode, tname string) string {
	if !n.up {
		return ""
	}
	tb, err := n.e.GetTable(tname)
	if err != nil {
		return ""
	}
	host, _ := os.Hostname()
	d, err := rp.GetCurrentDBDirName(n.st.tableFS, rp.GetNodeDBDirName("", host, fmt.Sprintf("%s-%d", tname, tb.ClusterID)))
	if err != nil {
		return ""
	}
	return d
}

func tableID(n *cnode, name string) uint64 {
	tb, err := n.e.GetTable(name)
	if err != nil {
		return 0
	}
	return tb.ClusterID
}

func restore3(out *Out, r *rand.Rand, nodes []*cnode, tname string) {
	src := nodes[r.Intn(3)]
	path, idx := streamToFile(src.e, tname, false)
	defer os.Remove(path)
	dst := tname
	if r.Intn(2) == 0 {
		dst = tname + "r"
	}
	var maxID uint64
	for _, n := range nodes {
		if id := tableID(n, tname); id > maxID {
			maxID = id
		}
	}
	via := nodes[r.Intn(3)]
	var err error
	// the wait for the recovery shard's leader is bounded by twice the reconcile interval (3 s here): on a
	// loaded machine one attempt may run out of time; a cluster that cannot do it in four attempts cannot do it
	for attempt := 0; attempt < 4; attempt++ {
		f, ferr := snapshot.OpenFile(path)
		must(ferr)
		err = via.e.Restore(dst, f)
		f.Close()
		if err == nil {
			break
		}
		out.Count("restore3_attempt_failed")
	}
	if err != nil {
		out.Line(fmt.Sprintf("restore3 %s via %d", dst, via.id), "err "+strings.ReplaceAll(err.Error(), "\n", " "))
		return
	}
	out.Line(fmt.Sprintf("restore3 %s via %d", dst, via.id), "ok")
	for _, n := range nodes {
		var ps []pair
		var rerr error
		var id uint64
		for i := 0; i < 200; i++ {
			id = tableID(n, dst)
			if id > maxID {
				if ps, rerr = fullPairs(n.e, dst, true); rerr == nil {
					break
				}
			} else {
				rerr = fmt.Errorf("table id %d not above %d", id, maxID)
			}
			time.Sleep(100 * time.Millisecond)
		}
		if rerr != nil {
			out.Line(fmt.Sprintf("restored %s@%d %d - 0", hx([]byte(tname)), n.id, idx), "err "+strings.ReplaceAll(rerr.Error(), " ", "_"))
			continue
		}
		out.Line(fmt.Sprintf("restored %s@%d %d %s %s", hx([]byte(tname)), n.id, idx, pairsDigest(ps), b2i(id > maxID)), "ok")
		out.Count("restored_replica")
	}
}
