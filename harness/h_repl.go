//go:build verif

package main

// Mode repl (C05): a real leader engine with its replication servers (metadata, log, snapshot) on a
// loopback listener and a real follower engine with the real replication.Manager and workers.
// The leader executes a random history through its public methods (puts, range deletes,
// non-idempotent transactions) on several tables; every acknowledged write is recorded with its
// revision (= leader log index).  While that goes on, and across leader log compaction, late
// follower start, replication-manager restarts and follower engine restarts, the follower is
// sampled: recorded leader index, full content, recorded leader index again.  The driver replays the
// leader history in the model and accepts a sample iff the content is the leader's at an index
// between the two index reads; indices must never move backwards; after quiescence content and
// index must be the leader's; the follower's table set must converge to the leader's.

import (
	"bytes"
	"context"
	"fmt"
	"go/ast"
	"math/rand"
	"net"
	"sort"
	"strings"
	"sync"
	"sync/atomic"
	"time"

	"github.com/jamf/regatta/regattapb"
	"github.com/jamf/regatta/regattaserver"
	"github.com/jamf/regatta/replication"
	"github.com/jamf/regatta/storage"
	"go.uber.org/zap"
	"google.golang.org/grpc"
	"google.golang.org/grpc/credentials/insecure"
)

func init() {
	modes["repl"] = hRepl
}

type replEnv struct {
	out      *Out
	mu       sync.Mutex // serialises protocol lines
	r        *rand.Rand
	leader   *storage.Engine
	srv      *regattaserver.RegattaServer
	addr     string
	follower *storage.Engine
	q        *storage.IndexNotificationQueue
	conn     *grpc.ClientConn
	mgr      *replication.Manager
	fstate   *engineState
	lastRev  map[string]uint64
	gens     map[string]*fsmGen
	cfg      replication.Config
	// the follower's MaxInMemLogSize: half of it is the flush threshold of Restore's readIntoTable
	fMaxInMem uint64
}

func (e *replEnv) line(op, ans string) {
	e.mu.Lock()
	defer e.mu.Unlock()
	e.out.Line(op, ans)
}

func (e *replEnv) startFollower() {
	e.q = storage.NewNotificationQueue()
	go e.q.Run()
	if e.fMaxInMem == 0 {
		e.fMaxInMem = 6 * 1024 * 1024
	}
	e.follower, e.fstate = newEngineState(engineOpts{maxInMem: e.fMaxInMem, applied: e.q.Notify}, e.fstate)
}

// leaderBulk: n acknowledged puts of 1.5 - 2.5 KiB values on keys of their own, so that a table recovered
// from the leader's snapshot crosses the flush threshold of readIntoTable several times.
func (e *replEnv) leaderBulk(tname string, n int) {
	for i := 0; i < n; i++ {
		k := []byte(fmt.Sprintf("bulk-%03d", i))
		v := bytes.Repeat([]byte{byte(0x41 + e.r.Intn(26))}, 1536+e.r.Intn(1024))
		ctx, cancel := context.WithTimeout(context.Background(), 10*time.Second)
		r, err := e.leader.Put(ctx, &regattapb.PutRequest{Table: []byte(tname), Key: k, Value: v})
		cancel()
		if err != nil || r.Header.Revision == 0 {
			continue
		}
		cmd := &regattapb.Command{Type: regattapb.Command_PUT, Kv: &regattapb.KeyValue{Key: k, Value: v}}
		e.line(fmt.Sprintf("lop %s %s", hx([]byte(tname)), mkEntry(r.Header.Revision, cmd).render()), "ok")
		e.mu.Lock()
		e.lastRev[tname] = r.Header.Revision
		e.out.Count("leader_write")
		e.mu.Unlock()
	}
}

func (e *replEnv) startManager() {
	conn, err := grpc.NewClient(e.addr, grpc.WithTransportCredentials(insecure.NewCredentials()))
	must(err)
	e.conn = conn
	e.mgr = replication.NewManager(e.follower, e.q, conn, e.cfg)
	must(e.mgr.Start())
}

func (e *replEnv) stopManager() {
	e.mgr.Close()
	e.conn.Close()
}

// one random acknowledged write on the leader; recorded with its revision.
func (e *replEnv) leaderWrite(tname string) {
	e.mu.Lock()
	g := e.gens[tname]
	e.mu.Unlock()
	m := len(g.keys)
	c := g.cmd(m, 0)
	c.Table = []byte(tname)
	ctx, cancel := context.WithTimeout(context.Background(), 10*time.Second)
	defer cancel()
	var rev uint64
	var err error
	var cmd *regattapb.Command
	switch c.Type {
	case regattapb.Command_PUT:
		var r *regattapb.PutResponse
		r, err = e.leader.Put(ctx, &regattapb.PutRequest{Table: c.Table, Key: c.Kv.Key, Value: c.Kv.Value, PrevKv: c.PrevKvs})
		if err == nil {
			rev = r.Header.Revision
		}
		cmd = &regattapb.Command{Type: regattapb.Command_PUT, Table: c.Table, Kv: &regattapb.KeyValue{Key: c.Kv.Key, Value: c.Kv.Value}, PrevKvs: c.PrevKvs}
	case regattapb.Command_DELETE:
		var r *regattapb.DeleteRangeResponse
		r, err = e.leader.Delete(ctx, &regattapb.DeleteRangeRequest{Table: c.Table, Key: c.Kv.Key, RangeEnd: c.RangeEnd, PrevKv: c.PrevKvs, Count: c.Count})
		if err == nil {
			rev = r.Header.Revision
		}
		cmd = &regattapb.Command{Type: regattapb.Command_DELETE, Table: c.Table, Kv: &regattapb.KeyValue{Key: c.Kv.Key}, PrevKvs: c.PrevKvs, RangeEnd: c.RangeEnd, Count: c.Count}
	case regattapb.Command_TXN:
		rq := &regattapb.TxnRequest{Table: c.Table, Compare: c.Txn.Compare, Success: c.Txn.Success, Failure: c.Txn.Failure}
		if txnIsReadonly(rq) {
			return
		}
		var r *regattapb.TxnResponse
		r, err = e.leader.Txn(ctx, rq)
		if err == nil {
			rev = r.Header.Revision
		}
		cmd = &regattapb.Command{Type: regattapb.Command_TXN, Table: c.Table, Txn: &regattapb.Txn{Compare: c.Txn.Compare, Success: c.Txn.Success, Failure: c.Txn.Failure}}
	default:
		return
	}
	if err != nil || rev == 0 {
		return // refused by validation (empty key in a generated command, ...): no effect, nothing to record
	}
	cmd.Table = nil // the model has one table per `lop` stream
	e.line(fmt.Sprintf("lop %s %s", hx([]byte(tname)), mkEntry(rev, cmd).render()), "ok")
	e.mu.Lock()
	e.lastRev[tname] = rev
	e.out.Count("leader_write")
	e.mu.Unlock()
}

func fullPairs(en *storage.Engine, tname string, lin bool) ([]pair, error) {
	ctx, cancel := context.WithTimeout(context.Background(), 10*time.Second)
	defer cancel()
	seq, err := en.IterateRange(ctx, &regattapb.RangeRequest{Table: []byte(tname), Key: []byte{0}, RangeEnd: []byte{0}, Linearizable: lin})
	if err != nil {
		return nil, err
	}
	var ps []pair
	seq(func(r *regattapb.RangeResponse) bool {
		for _, kv := range r.Kvs {
			ps = append(ps, pair{append([]byte{}, kv.Key...), append([]byte{}, kv.Value...)})
		}
		return true
	})
	return ps, nil
}

func leaderIdx(en *storage.Engine, tname string) (uint64, error) {
	tb, err := en.GetTable(tname)
	if err != nil {
		return 0, err
	}
	ctx, cancel := context.WithTimeout(context.Background(), 5*time.Second)
	defer cancel()
	r, err := tb.LeaderIndex(ctx, false)
	if err != nil {
		return 0, err
	}
	return r.Index, nil
}

// sample the follower: index, content, index.
func (e *replEnv) sample(tname string) {
	if e.follower == nil {
		return
	}
	l1, err := leaderIdx(e.follower, tname)
	if err != nil {
		return
	}
	ps, err := fullPairs(e.follower, tname, false)
	if err != nil {
		return
	}
	l2, err := leaderIdx(e.follower, tname)
	if err != nil {
		return
	}
	e.line(fmt.Sprintf("sample %s %d %s %d", hx([]byte(tname)), l1, pairsDigest(ps), l2), "ok")
	e.mu.Lock()
	e.out.Count("sample")
	if l1 != l2 {
		e.out.Count("sample_moving")
	}
	e.mu.Unlock()
}

func (e *replEnv) followerTables() string {
	ts, err := e.follower.GetTables()
	if err != nil {
		return "err"
	}
	var names []string
	for _, t := range ts {
		names = append(names, hx([]byte(t.Name)))
	}
	sort.Strings(names)
	return strings.Join(names, " ")
}

func (e *replEnv) leaderTables() string {
	ts, err := e.leader.GetTables()
	if err != nil {
		return "err"
	}
	var names []string
	for _, t := range ts {
		names = append(names, hx([]byte(t.Name)))
	}
	sort.Strings(names)
	return strings.Join(names, " ")
}

// waitConverged waits until the follower has the leader's tables, each at (or beyond) the leader's
// last acknowledged revision.
func (e *replEnv) waitConverged(names []string, d time.Duration) {
	deadline := time.Now().Add(d)
	for time.Now().Before(deadline) {
		ok := e.followerTables() == e.leaderTables()
		for _, n := range names {
			li, err := leaderIdx(e.follower, n)
			if err != nil || li < e.lastRev[n] {
				ok = false
			}
		}
		if ok {
			return
		}
		time.Sleep(50 * time.Millisecond)
	}
}

func replScenario(out *Out, r *rand.Rand, sc int) {
	e := &replEnv{out: out, r: r, lastRev: map[string]uint64{}, gens: map[string]*fsmGen{}}
	out.Line("reset", "ok")
	snapEntries := uint64(10 + r.Intn(40))
	out.Count(fmt.Sprintf("leader_log_cache_%d", []int{1024, 8, 0}[sc%3]))
	e.leader = newEngine(engineOpts{maxInMem: 6 * 1024 * 1024, snapshotEntries: snapEntries, compactionOverhead: uint64(2 + r.Intn(6)), logCache: []int{1024, 8, 0}[sc%3]})
	defer e.leader.Close()
	l, err := net.Listen("tcp", "127.0.0.1:0")
	must(err)
	e.addr = l.Addr().String()
	e.srv = regattaserver.NewServer(l, zap.NewNop().Sugar())
	maxMsg := []uint64{600, 2048, 64 * 1024, 0}[r.Intn(4)]
	regattapb.RegisterMetadataServer(e.srv, &regattaserver.MetadataServer{Tables: e.leader})
	regattapb.RegisterSnapshotServer(e.srv, &regattaserver.SnapshotServer{Tables: e.leader})
	regattapb.RegisterLogServer(e.srv, regattaserver.NewLogServer(e.leader, e.leader.LogReader, zap.NewNop(), maxMsg))
	go e.srv.Serve()
	defer e.srv.Shutdown()
	e.cfg = replication.Config{
		ReconcileInterval: 100 * time.Millisecond,
		Workers: replication.WorkerConfig{PollInterval: time.Duration(20+r.Intn(80)) * time.Millisecond, LeaseInterval: 50 * time.Millisecond,
			LogRPCTimeout: 30 * time.Second, SnapshotRPCTimeout: 30 * time.Second, MaxRecoveryInFlight: 1},
	}
	names := []string{"ta", "tb"}
	for _, n := range names {
		_, err := e.leader.CreateTable(n)
		must(err)
		waitTable(e.leader, n)
		e.gens[n] = newFsmGen(r)
		out.Line("ltable "+hx([]byte(n)), "ok")
	}
	// the follower may start before anything is written, or only after the leader has compacted its log
	late := r.Intn(2) == 0 || sc == 0
	if !late {
		e.startFollower()
		e.startManager()
	}
	pre := 20 + r.Intn(3*int(snapEntries))
	if late && (sc == 0 || r.Intn(2) == 0) {
		// the follower will have to recover a table of ~100 KiB with a flush threshold of 32 KiB
		e.fMaxInMem = 64 * 1024
		e.leaderBulk(names[0], 50)
		out.Count("late_bulk_recovery")
	}
	for i := 0; i < pre; i++ {
		e.leaderWrite(names[r.Intn(len(names))])
		if !late && r.Intn(6) == 0 {
			e.sample(names[r.Intn(len(names))])
		}
	}
	if late {
		time.Sleep(300 * time.Millisecond) // snapshot + compaction on the leader
		e.startFollower()
		e.startManager()
	}
	out.Count(fmt.Sprintf("late_%v", late))
	// concurrent phase: the leader keeps writing, the follower is sampled, things get restarted
	stop := make(chan struct{})
	var wg sync.WaitGroup
	wg.Add(1)
	wr := rand.New(rand.NewSource(r.Int63()))
	wnames := append([]string{}, names...)
	go func() {
		defer wg.Done()
		for i := 0; i < 150+wr.Intn(250); i++ {
			select {
			case <-stop:
				return
			default:
			}
			e.leaderWriteWith(wr, wnames[wr.Intn(len(wnames))])
			time.Sleep(time.Duration(wr.Intn(25)) * time.Millisecond)
		}
	}()
	// a second consumer of the leader's log - another follower cluster, as far as the leader can tell: it
	// asks for random positions of the same tables all the time and throws the answers away (what it leaves
	// behind in the leader's log cache must not change what OUR follower is told)
	var wg2 sync.WaitGroup
	stop2 := make(chan struct{})
	wg2.Add(1)
	cr := rand.New(rand.NewSource(r.Int63()))
	go func() {
		defer wg2.Done()
		conn, err := grpc.NewClient(e.addr, grpc.WithTransportCredentials(insecure.NewCredentials()))
		if err != nil {
			return
		}
		defer conn.Close()
		lc := regattapb.NewLogClient(conn)
		for {
			select {
			case <-stop2:
				return
			default:
			}
			n := wnames[cr.Intn(len(wnames))]
			e.mu.Lock()
			last := e.lastRev[n]
			e.mu.Unlock()
			if last > 2 {
				ctx, cancel := context.WithTimeout(context.Background(), 5*time.Second)
				// half of the time close to the tail - ahead of what our follower has asked for so far
				at := 1 + uint64(cr.Int63n(int64(last)))
				if cr.Intn(2) == 0 {
					at = last - uint64(cr.Intn(3))
				}
				if st, err := lc.Replicate(ctx, &regattapb.ReplicateRequest{Table: []byte(n), LeaderIndex: at}); err == nil {
					for {
						if _, err := st.Recv(); err != nil {
							break
						}
					}
					e.out.Count("second_consumer_polls")
				}
				cancel()
			}
			time.Sleep(time.Duration(5+cr.Intn(40)) * time.Millisecond)
		}
	}()
	events := 2 + r.Intn(3)
	for ev := 0; ev < events; ev++ {
		for i := 0; i < 25+r.Intn(25); i++ {
			e.sample(names[r.Intn(len(names))])
			time.Sleep(time.Duration(10+r.Intn(50)) * time.Millisecond)
		}
		switch r.Intn(4) {
		case 0, 1: // the whole follower node (engine, replication manager, workers) is restarted on its file systems
			e.stopManager()
			_ = e.follower.Close()
			e.q.Close()
			e.startFollower()
			e.startManager()
			out.Count("follower_restart")
		case 2: // a table appears on the leader
			n := fmt.Sprintf("tc%d", ev)
			if _, err := e.leader.CreateTable(n); err == nil {
				waitTable(e.leader, n)
				e.mu.Lock()
				e.gens[n] = newFsmGen(r)
				e.mu.Unlock()
				e.line("ltable "+hx([]byte(n)), "ok")
				names = append(names, n)
				out.Count("table_created")
			}
		default:
		}
	}
	wg.Wait()
	close(stop)
	close(stop2)
	wg2.Wait()
	// quiescence: content and index must become the leader's
	e.waitConverged(names, 90*time.Second)
	for _, n := range names {
		li, err1 := leaderIdx(e.follower, n)
		ps, err2 := fullPairs(e.follower, n, false)
		if err1 != nil || err2 != nil {
			e.line(fmt.Sprintf("final %s 0 - %d", hx([]byte(n)), e.lastRev[n]), "err follower-read")
			continue
		}
		e.line(fmt.Sprintf("final %s %d %s %d", hx([]byte(n)), li, pairsDigest(ps), e.lastRev[n]), "ok")
	}
	// a table disappears on the leader
	if r.Intn(2) == 0 {
		victim := names[len(names)-1]
		if err := e.leader.DeleteTable(victim); err == nil {
			e.line("ldrop "+hx([]byte(victim)), "ok")
			names = names[:len(names)-1]
			out.Count("table_deleted")
		}
	}
	e.waitConverged(names, 60*time.Second)
	e.line("tables", e.followerTables())
	// known finding K4: a table deleted and created again on the leader (a new, empty table with a
	// log of its own) while the follower still has the old one
	if envInt("VERIF_K4", 1) > 0 && sc%3 == 0 {
		victim := names[0]
		if err := e.leader.DeleteTable(victim); err == nil {
			if _, err := e.leader.CreateTable(victim); err == nil {
				waitTable(e.leader, victim)
				ctx, cancel := context.WithTimeout(context.Background(), 10*time.Second)
				_, _ = e.leader.Put(ctx, &regattapb.PutRequest{Table: []byte(victim), Key: []byte("fresh"), Value: []byte("start")})
				cancel()
				time.Sleep(time.Duration(envInt("VERIF_K4_WAIT_MS", 1500)) * time.Millisecond)
				lp, err1 := fullPairs(e.leader, victim, true)
				fp, err2 := fullPairs(e.follower, victim, false)
				ans := "converged"
				if err1 != nil || err2 != nil || pairsDigest(lp) != pairsDigest(fp) {
					ans = "diverged"
				}
				e.line("kf K4 recreate "+hx([]byte(victim)), ans)
			}
		}
	}
	e.stopManager()
	_ = e.follower.Close()
	e.q.Close()
}

func (e *replEnv) leaderWriteWith(r *rand.Rand, tname string) {
	// the generator of a table is used by one goroutine at a time
	e.mu.Lock()
	g := e.gens[tname]
	g.r = r
	e.mu.Unlock()
	e.leaderWrite(tname)
}

func hRepl(dir string) {
	if envInt("VERIF_DEBUG", 0) > 0 {
		l, _ := zap.NewDevelopment()
		zap.ReplaceGlobals(l)
	}
	out := NewOut(dir)
	defer out.Close()
	n := envInt("VERIF_N", 3)
	replProposeBatch(out, newRand(9400), envInt("VERIF_PB_ROUNDS", 10))
	for sc := 0; sc < n; sc++ {
		replScenario(out, newRand(int64(9500+sc)), sc)
	}
	// known finding K3 shown dynamically (thorough tier): tiny log RPC time-outs make proposals time out
	// for the worker while they still commit; with a stale index read the next round re-applies them
	if k3 := envInt("VERIF_K3_ATTEMPTS", 0); k3 > 0 {
		ans := "converged"
		for i := 0; i < k3 && ans == "converged"; i++ {
			if replK3Attempt(time.Duration(5+i%5)*time.Millisecond, out) {
				ans = "diverged"
			}
		}
		out.Line("kf K3 dynamic", ans)
	}
	// known finding K3, identified by its call site: the worker decides what to ask the leader for from
	// a local (non-linearizable) read of the recorded leader index
	out.Line("kf K3 worker.tableState", workerIndexRead())
}

// workerIndexRead reads, from the current source, how replication/worker.go tableState reads the index.
func workerIndexRead() string {
	ff := parseRepoFile("replication/worker.go")
	fd := ff.funcDecl("worker", "tableState")
	if fd == nil {
		return "unknown"
	}
	ans := "unknown"
	ast.Inspect(fd, func(x ast.Node) bool {
		if c, ok := x.(*ast.CallExpr); ok && strings.HasSuffix(exprStr(ff.fset, c.Fun), ".LeaderIndex") && len(c.Args) == 2 {
			switch exprStr(ff.fset, c.Args[1]) {
			case "false":
				ans = "nonlinearizable"
			case "true":
				ans = "linearizable"
			}
		}
		return true
	})
	return ans
}

// replProposeBatch drives the worker's proposeBatch directly on a real engine: responses large enough
// to be split into several SEQUENCE proposals (values of 60-150 KB against the 256 KiB proposal
// size), the round cut short after a random number of proposals (the context is cancelled when the
// k-th one has been applied - the worker's RPC deadline, a closed worker, a dying process).  After
// every round - complete or not - content and recorded index must be the leader's at that index, and
// the next round continues from the recorded index as the worker does.
func replProposeBatch(out *Out, r *rand.Rand, rounds int) {
	out.Line("reset", "ok")
	applied := make(chan uint64, 1024)
	e := newEngine(engineOpts{maxInMem: 6 * 1024 * 1024, applied: func(table string, rev uint64) {
		if table == "pb" {
			select {
			case applied <- rev:
			default:
			}
		}
	}})
	defer e.Close()
	_, err := e.CreateTable("pb")
	must(err)
	waitTable(e, "pb")
	out.Line("ltable "+hx([]byte("pb")), "ok")
	// the leader's log, generated as far as needed; index = position + 1
	var log []*regattapb.Command
	gen := func() *regattapb.Command {
		k := []byte(fmt.Sprintf("k%d", r.Intn(8)))
		switch r.Intn(6) {
		case 0:
			return &regattapb.Command{Type: regattapb.Command_DELETE, Kv: &regattapb.KeyValue{Key: k}}
		case 1:
			// not idempotent: flips between two values
			return &regattapb.Command{Type: regattapb.Command_TXN, Txn: &regattapb.Txn{
				Compare: []*regattapb.Compare{{Key: k, Result: regattapb.Compare_EQUAL, Target: regattapb.Compare_VALUE, TargetUnion: &regattapb.Compare_Value{Value: []byte("x")}}},
				Success: []*regattapb.RequestOp{{Request: &regattapb.RequestOp_RequestPut{RequestPut: &regattapb.RequestOp_Put{Key: k, Value: []byte("y")}}}},
				Failure: []*regattapb.RequestOp{{Request: &regattapb.RequestOp_RequestPut{RequestPut: &regattapb.RequestOp_Put{Key: k, Value: []byte("x")}}}},
			}}
		default:
			return &regattapb.Command{Type: regattapb.Command_PUT, Kv: &regattapb.KeyValue{Key: k, Value: bytesOf(byte(0x41+r.Intn(20)), 60000+r.Intn(90000))}}
		}
	}
	recorded := func() uint64 {
		tb, err := e.GetTable("pb")
		must(err)
		ctx, cancel := context.WithTimeout(context.Background(), 10*time.Second)
		defer cancel()
		res, err := tb.LeaderIndex(ctx, true)
		must(err)
		return res.Index
	}
	for round := 0; round < rounds; round++ {
		li := recorded()
		n := 4 + r.Intn(9)
		for uint64(len(log)) < li+uint64(n) {
			c := gen()
			log = append(log, c)
			out.Line(fmt.Sprintf("lop %s %s", hx([]byte("pb")), mkEntry(uint64(len(log)), c).render()), "ok")
		}
		var cmds []*regattapb.ReplicateCommand
		for i := uint64(0); i < uint64(n); i++ {
			cmds = append(cmds, &regattapb.ReplicateCommand{LeaderIndex: li + i + 1, Command: log[li+i]})
		}
		stopAfter := r.Intn(3) // 0: the round runs through
	drain:
		for {
			select {
			case <-applied:
			default:
				break drain
			}
		}
		ctx, cancel := context.WithTimeout(context.Background(), 30*time.Second)
		done := make(chan struct{})
		var notifications atomic.Int64
		go func() {
			seen := 0
			for {
				select {
				case <-applied:
					seen++
					notifications.Add(1)
					if stopAfter > 0 && seen == stopAfter {
						cancel()
					}
				case <-done:
					return
				}
			}
		}()
		_, perr := replication.VerifProposeBatch(ctx, e, "pb", cmds)
		close(done)
		cancel()
		out.Add("pbatch_notifications", int(notifications.Load()))
		if perr != nil {
			out.Count("pbatch_cut_short")
		} else {
			out.Count("pbatch_complete")
		}
		// a proposal that was in flight when the round ended may still be applied
		time.Sleep(150 * time.Millisecond)
		l1 := recorded()
		ps, err := fullPairs(e, "pb", true)
		must(err)
		l2 := recorded()
		out.Line(fmt.Sprintf("sample %s %d %s %d", hx([]byte("pb")), l1, pairsDigest(ps), l2), "ok")
		out.Count("pbatch_round")
	}
}

func bytesOf(b byte, n int) []byte {
	out := make([]byte, n)
	for i := range out {
		out[i] = b
	}
	return out
}

// replK3Attempt: 600 toggling (non-idempotent) transactions on the leader, a follower whose workers
// poll every 2 ms with the given log RPC time-out and 512-byte messages.  Reports whether the
// follower, once its recorded index has reached the leader's last revision, holds different content.
func replK3Attempt(logTimeout time.Duration, out *Out) bool {
	leader := newEngine(engineOpts{maxInMem: 6 * 1024 * 1024})
	defer leader.Close()
	l, err := net.Listen("tcp", "127.0.0.1:0")
	must(err)
	srv := regattaserver.NewServer(l, zap.NewNop().Sugar())
	regattapb.RegisterMetadataServer(srv, &regattaserver.MetadataServer{Tables: leader})
	regattapb.RegisterSnapshotServer(srv, &regattaserver.SnapshotServer{Tables: leader})
	regattapb.RegisterLogServer(srv, regattaserver.NewLogServer(leader, leader.LogReader, zap.NewNop(), 512))
	go srv.Serve()
	defer srv.Shutdown()
	_, err = leader.CreateTable("t1")
	must(err)
	waitTable(leader, "t1")
	q := storage.NewNotificationQueue()
	go q.Run()
	defer q.Close()
	follower := newEngine(engineOpts{maxInMem: 6 * 1024 * 1024, applied: q.Notify})
	defer follower.Close()
	conn, err := grpc.NewClient(l.Addr().String(), grpc.WithTransportCredentials(insecure.NewCredentials()))
	must(err)
	defer conn.Close()
	m := replication.NewManager(follower, q, conn, replication.Config{
		ReconcileInterval: 50 * time.Millisecond,
		Workers:           replication.WorkerConfig{PollInterval: 2 * time.Millisecond, LeaseInterval: 20 * time.Millisecond, LogRPCTimeout: logTimeout, SnapshotRPCTimeout: 10 * time.Second, MaxRecoveryInFlight: 1},
	})
	must(m.Start())
	defer m.Close()
	put := func(k, v string) *regattapb.RequestOp {
		return &regattapb.RequestOp{Request: &regattapb.RequestOp_RequestPut{RequestPut: &regattapb.RequestOp_Put{Key: []byte(k), Value: []byte(v)}}}
	}
	del := func(k string) *regattapb.RequestOp {
		return &regattapb.RequestOp{Request: &regattapb.RequestOp_RequestDeleteRange{RequestDeleteRange: &regattapb.RequestOp_DeleteRange{Key: []byte(k)}}}
	}
	var lastRev uint64
	for i := 0; i < 600; i++ {
		ctx, cancel := context.WithTimeout(context.Background(), 10*time.Second)
		r, err := leader.Txn(ctx, &regattapb.TxnRequest{Table: []byte("t1"),
			Compare: []*regattapb.Compare{{Key: []byte("flag")}},
			Success: []*regattapb.RequestOp{del("flag"), put(fmt.Sprintf("a%04d", i), "S")},
			Failure: []*regattapb.RequestOp{put("flag", "x"), put(fmt.Sprintf("a%04d", i), "F")}})
		cancel()
		if err == nil {
			lastRev = r.Header.Revision
		}
		if i%3 == 0 {
			time.Sleep(time.Millisecond)
		}
	}
	reached := false
	for i := 0; i < 500 && !reached; i++ {
		if tb, err := follower.GetTable("t1"); err == nil {
			ctx, cancel := context.WithTimeout(context.Background(), time.Second)
			r, err := tb.LeaderIndex(ctx, true)
			cancel()
			reached = err == nil && r.Index >= lastRev
		}
		if !reached {
			time.Sleep(20 * time.Millisecond)
		}
	}
	out.Count("k3_attempts")
	if !reached {
		return false
	}
	lp, err1 := fullPairs(leader, "t1", true)
	fp, err2 := fullPairs(follower, "t1", true)
	if err1 != nil || err2 != nil {
		return false
	}
	if pairsDigest(lp) != pairsDigest(fp) {
		out.Count("k3_diverged")
		return true
	}
	return false
}
