//go:build verif

package main

// Mode conc (C10, "all concurrent client histories on one table"): a real three-node cluster (three
// storage.Engines in one process) under several CONCURRENT clients that write (put, delete range,
// transactions) and read (Range / IterateRange linearizable and default, read-only transactions, also
// wide ones that read the same hot keys many times) through any node.  Every call is recorded with
// its invocation and return time on one clock.  Afterwards the history is written out
//
//   cw: the acknowledged writes in revision order - the API response must be the model's for the
//       log applied in that order ("ordering the writes by revision explains every response");
//   cr: the completed reads in return order - the answer must be the model's answer at ONE log
//       position; for a linearizable read / read-only transaction at or above every write and read
//       that had returned before it started, for a default read at any position, never at or above a
//       write invoked after the read returned;
//   linearizable: the driver runs History.checkHistory, the decidable real-time check that the
//       theorem c10_history_linearizable turns into linearizability of the whole history.
//
// A write whose outcome is unknown (timeout) makes the history unusable: the scenario is abandoned.

import (
	"context"
	"errors"
	"fmt"
	"math/rand"
	"sort"
	"strings"
	"sync"
	"sync/atomic"
	"time"

	"github.com/jamf/regatta/regattapb"
	serrors "github.com/jamf/regatta/storage/errors"
)

func init() { modes["conc"] = hConc }

type concRec struct {
	write     bool
	what      string
	lin       bool
	inv, resp int64
	rev       uint64
	line      string
	ans       string
}

func refusedByValidation(err error) bool {
	return errors.Is(err, serrors.ErrEmptyKey) || errors.Is(err, serrors.ErrKeyLengthExceeded) || errors.Is(err, serrors.ErrValueLengthExceeded)
}

func concScenario(out *Out, sc int) {
	r := newRand(int64(9950 + sc))
	tname := "cc"
	nodes := startCluster3(out, r, tname)
	if nodes == nil {
		return
	}
	defer func() {
		for _, n := range nodes {
			n.stop()
		}
	}()
	var wg sync.WaitGroup
	out.Count("scenarios_set_up")
	out.Line("reset", "ok")

	shared := newFsmGen(r)
	hot := shared.keys[:3]
	nclients := 4 + r.Intn(5)
	perClient := envInt("VERIF_CONC_OPS", 60)
	t0 := time.Now()
	now := func() int64 { return time.Since(t0).Nanoseconds() + 1 }
	var mu sync.Mutex
	var recs []concRec
	var abandoned atomic.Bool
	abandonWhy := ""
	add := func(rec concRec) { mu.Lock(); recs = append(recs, rec); mu.Unlock() }
	tb := []byte(tname)

	// in half of the scenarios one node is down when the clients start and comes back while they are at
	// work: it catches up - by log replay or by a snapshot of the other nodes (SnapshotEntries = 15) - under
	// concurrent reads and writes, and serves clients as soon as it is ready (C08: reads overlapping an install)
	var upMu sync.Mutex
	up := append([]*cnode{}, nodes...)
	pick := func(cr *rand.Rand) *cnode {
		upMu.Lock()
		defer upMu.Unlock()
		return up[cr.Intn(len(up))]
	}
	var rejoin sync.WaitGroup
	if r.Intn(2) == 0 {
		victim := nodes[r.Intn(3)]
		up = nil
		for _, n := range nodes {
			if n != victim {
				up = append(up, n)
			}
		}
		victim.stop()
		// a leader among the remaining two before anybody writes
		for i := 0; i < 300; i++ {
			ok := true
			for _, n := range up {
				tbl, err := n.e.GetTable(tname)
				if err != nil {
					ok = false
					break
				}
				lid, _, valid, err := n.e.NodeHost.GetLeaderID(tbl.ClusterID)
				if err != nil || !valid || lid == victim.id {
					ok = false
					break
				}
			}
			if ok {
				break
			}
			time.Sleep(20 * time.Millisecond)
		}
		out.Count("node_down_at_start")
		rejoin.Add(1)
		pause := time.Duration(300+r.Intn(700)) * time.Millisecond
		go func() {
			defer rejoin.Done()
			time.Sleep(pause)
			if err := victim.start(); err != nil || !victim.ready(60*time.Second) {
				out.Count("rejoin_failed")
				return
			}
			func() {
				defer func() { _ = recover() }()
				waitTable(victim.e, tname)
				upMu.Lock()
				up = append(up, victim)
				upMu.Unlock()
				out.Count("node_rejoined_during_the_run")
			}()
		}()
	}
	client := func(ci int) {
		defer wg.Done()
		cr := newRand(int64(99000 + sc*100 + ci))
		g := &fsmGen{r: cr, keys: shared.keys}
		m := len(g.keys)
		for op := 0; op < perClient && !abandoned.Load(); op++ {
			n := pick(cr)
			ctx, cancel := context.WithTimeout(context.Background(), 10*time.Second)
			if cr.Intn(100) < 45 {
				// a write
				c := g.cmd(m, 0)
				if cr.Intn(3) == 0 {
					// a put on a hot key
					c = &regattapb.Command{Type: regattapb.Command_PUT, Kv: &regattapb.KeyValue{Key: hot[cr.Intn(len(hot))], Value: g.val()}}
				}
				var rev uint64
				var err error
				var cmd *regattapb.Command
				what, rendered := "", ""
				inv := now()
				switch c.Type {
				case regattapb.Command_PUT:
					var resp *regattapb.PutResponse
					resp, err = n.e.Put(ctx, &regattapb.PutRequest{Table: tb, Key: c.Kv.Key, Value: c.Kv.Value, PrevKv: c.PrevKvs})
					if err == nil {
						rev = resp.Header.Revision
						rendered = aResp(&regattapb.ResponseOp{Response: &regattapb.ResponseOp_ResponsePut{ResponsePut: &regattapb.ResponseOp_Put{PrevKv: resp.PrevKv}}})
					}
					what = "put"
					cmd = &regattapb.Command{Type: regattapb.Command_PUT, Kv: &regattapb.KeyValue{Key: c.Kv.Key, Value: c.Kv.Value}, PrevKvs: c.PrevKvs}
				case regattapb.Command_DELETE:
					var resp *regattapb.DeleteRangeResponse
					resp, err = n.e.Delete(ctx, &regattapb.DeleteRangeRequest{Table: tb, Key: c.Kv.Key, RangeEnd: c.RangeEnd, PrevKv: c.PrevKvs, Count: c.Count})
					if err == nil {
						rev = resp.Header.Revision
						rendered = aResp(&regattapb.ResponseOp{Response: &regattapb.ResponseOp_ResponseDeleteRange{ResponseDeleteRange: &regattapb.ResponseOp_DeleteRange{Deleted: resp.Deleted, PrevKvs: resp.PrevKvs}}})
					}
					what = "del"
					cmd = &regattapb.Command{Type: regattapb.Command_DELETE, Kv: &regattapb.KeyValue{Key: c.Kv.Key}, PrevKvs: c.PrevKvs, RangeEnd: c.RangeEnd, Count: c.Count}
				case regattapb.Command_TXN:
					rq := &regattapb.TxnRequest{Table: tb, Compare: c.Txn.Compare, Success: c.Txn.Success, Failure: c.Txn.Failure}
					if txnIsReadonly(rq) {
						cancel()
						continue
					}
					var resp *regattapb.TxnResponse
					resp, err = n.e.Txn(ctx, rq)
					if err == nil {
						rev = resp.Header.Revision
						rendered = fmt.Sprintf("%s %s", b2i(resp.Succeeded), aResps(resp.Responses))
					}
					what = "txn"
					cmd = &regattapb.Command{Type: regattapb.Command_TXN, Txn: &regattapb.Txn{Compare: c.Txn.Compare, Success: c.Txn.Success, Failure: c.Txn.Failure}}
				default:
					cancel()
					continue
				}
				resp := now()
				cancel()
				if err != nil {
					if refusedByValidation(err) {
						continue
					}
					// anything else: the outcome is not known
					mu.Lock()
					abandonWhy = strings.ReplaceAll(fmt.Sprint(err), " ", "_")
					mu.Unlock()
					abandoned.Store(true)
					return
				}
				add(concRec{write: true, what: what, inv: inv, resp: resp, rev: rev, line: mkEntry(rev, cmd).render(), ans: fmt.Sprintf("rev %d %s", rev, rendered)})
				continue
			}
			// a read
			q := g.rangeReq(m)
			switch cr.Intn(4) {
			case 0:
				q = fullRange()
			case 1:
				q = &regattapb.RequestOp_Range{Key: hot[cr.Intn(len(hot))]}
			}
			lin := cr.Intn(2) == 0
			rq := &regattapb.RangeRequest{Table: tb, Key: q.Key, RangeEnd: q.RangeEnd, Limit: q.Limit, KeysOnly: q.KeysOnly, CountOnly: q.CountOnly, Linearizable: lin}
			switch cr.Intn(4) {
			case 0:
				inv := now()
				resp, err := n.e.Range(ctx, rq)
				rt := now()
				if err == nil {
					add(concRec{what: "range", lin: lin, inv: inv, resp: rt, line: rRange(q), ans: "ok " + aRR(&regattapb.ResponseOp_Range{Kvs: resp.Kvs, More: resp.More, Count: resp.Count})})
				}
			case 1:
				inv := now()
				seq, err := n.e.IterateRange(ctx, rq)
				var sb []byte
				nch := 0
				if err == nil {
					seq(func(resp *regattapb.RangeResponse) bool {
						sb = append(sb, (" " + aRR(&regattapb.ResponseOp_Range{Kvs: resp.Kvs, More: resp.More, Count: resp.Count}))...)
						nch++
						return true
					})
				}
				rt := now()
				if err == nil {
					add(concRec{what: "iter", lin: lin, inv: inv, resp: rt, line: rRange(q), ans: fmt.Sprintf("ok %d%s", nch, sb)})
				}
			default:
				// a read-only transaction (always the consensus path); half of them wide: the same hot
				// keys read again and again, so that a write landing in the middle of the evaluation
				// would show as an answer no single state gives
				t := g.txn(m, true)
				if cr.Intn(2) == 0 {
					t = &regattapb.Txn{}
					for i := 0; i < 24+cr.Intn(24); i++ {
						t.Success = append(t.Success, &regattapb.RequestOp{Request: &regattapb.RequestOp_RequestRange{RequestRange: &regattapb.RequestOp_Range{Key: hot[i%len(hot)]}}})
					}
					t.Failure = t.Success
					if cr.Intn(2) == 0 {
						t.Compare = []*regattapb.Compare{g.compare()}
					}
				}
				trq := &regattapb.TxnRequest{Table: tb, Compare: t.Compare, Success: t.Success, Failure: t.Failure}
				if !txnIsReadonly(trq) {
					break
				}
				inv := now()
				resp, err := n.e.Txn(ctx, trq)
				rt := now()
				if err == nil {
					add(concRec{what: "txn", lin: true, inv: inv, resp: rt, line: rTxn(t.Compare, t.Success, t.Failure), ans: fmt.Sprintf("ok %s %s", b2i(resp.Succeeded), aResps(resp.Responses))})
				}
			}
			cancel()
		}
	}
	// two clients that do nothing but overwrite the hot keys, two that do nothing but read them - hundreds of
	// times in ONE read-only transaction: a write that becomes visible in the middle of the evaluation of
	// such a transaction yields an answer that no single state of the table gives
	hotWriter := func(ci int) {
		defer wg.Done()
		cr := newRand(int64(99500 + sc*100 + ci))
		for op := 0; op < perClient*3 && !abandoned.Load(); op++ {
			n := pick(cr)
			k := hot[cr.Intn(len(hot))]
			v := []byte(fmt.Sprintf("h%d-%d", ci, op))
			ctx, cancel := context.WithTimeout(context.Background(), 10*time.Second)
			inv := now()
			resp, err := n.e.Put(ctx, &regattapb.PutRequest{Table: tb, Key: k, Value: v})
			rt := now()
			cancel()
			if err != nil {
				mu.Lock()
				abandonWhy = strings.ReplaceAll(fmt.Sprint(err), " ", "_")
				mu.Unlock()
				abandoned.Store(true)
				return
			}
			cmd := &regattapb.Command{Type: regattapb.Command_PUT, Kv: &regattapb.KeyValue{Key: k, Value: v}}
			add(concRec{write: true, what: "put", inv: inv, resp: rt, rev: resp.Header.Revision, line: mkEntry(resp.Header.Revision, cmd).render(),
				ans: fmt.Sprintf("rev %d %s", resp.Header.Revision, aResp(&regattapb.ResponseOp{Response: &regattapb.ResponseOp_ResponsePut{ResponsePut: &regattapb.ResponseOp_Put{}}}))})
		}
	}
	wideReader := func(ci int) {
		defer wg.Done()
		cr := newRand(int64(99700 + sc*100 + ci))
		for op := 0; op < perClient/2 && !abandoned.Load(); op++ {
			n := pick(cr)
			t := &regattapb.Txn{}
			for i := 0; i < 300+cr.Intn(300); i++ {
				t.Success = append(t.Success, &regattapb.RequestOp{Request: &regattapb.RequestOp_RequestRange{RequestRange: &regattapb.RequestOp_Range{Key: hot[i%len(hot)]}}})
			}
			ctx, cancel := context.WithTimeout(context.Background(), 10*time.Second)
			inv := now()
			resp, err := n.e.Txn(ctx, &regattapb.TxnRequest{Table: tb, Success: t.Success})
			rt := now()
			cancel()
			if err == nil {
				add(concRec{what: "txn", lin: true, inv: inv, resp: rt, line: rTxn(nil, t.Success, nil), ans: fmt.Sprintf("ok %s %s", b2i(resp.Succeeded), aResps(resp.Responses))})
				out.Count("wide_txn")
			}
		}
	}
	for ci := 0; ci < nclients; ci++ {
		wg.Add(1)
		go client(ci)
	}
	for ci := 0; ci < 2; ci++ {
		wg.Add(2)
		go hotWriter(ci)
		go wideReader(ci)
	}
	wg.Wait()
	rejoin.Wait()
	if abandoned.Load() {
		out.Count("abandoned")
		out.Count("abandon_" + abandonWhy)
		return
	}
	var ws, rs []concRec
	for _, x := range recs {
		if x.write {
			ws = append(ws, x)
		} else {
			rs = append(rs, x)
		}
	}
	sort.Slice(ws, func(i, j int) bool { return ws[i].rev < ws[j].rev })
	sort.Slice(rs, func(i, j int) bool { return rs[i].resp < rs[j].resp })
	for _, w := range ws {
		out.Line(fmt.Sprintf("cw %s %d %d %s", w.what, w.inv, w.resp, w.line), w.ans)
		out.Count("write_" + w.what)
	}
	overlapping := 0
	for _, x := range rs {
		out.Line(fmt.Sprintf("cr %s %d %d %s %s :: %s", b2i(x.lin), x.inv, x.resp, x.what, x.line, x.ans), "ok")
		if x.lin {
			out.Count("read_lin_" + x.what)
		} else {
			out.Count("read_default_" + x.what)
		}
		// how concurrent the history was: reads during which some write was acknowledged
		for _, w := range ws {
			if w.resp > x.inv && w.resp < x.resp {
				overlapping++
				break
			}
		}
	}
	out.Stats["reads_overlapping_a_write_ack"] += overlapping
	out.Stats["clients"] += nclients
	out.Line("linearizable", "ok")
}

func hConc(dir string) {
	out := NewOut(dir)
	defer out.Close()
	n := envInt("VERIF_N", 2)
	for sc := 0; sc < n; sc++ {
		concScenario(out, sc)
	}
	if out.Stats["scenarios_set_up"] == 0 {
		out.Line("cluster-setup", "err no scenario could be set up")
	}
}
