//go:build verif

package main

// Mode snap (C08): snapshots between two real state machines of either format.  A saver and a
// receiver with unrelated content; PrepareSnapshot, then more writes on the saver, then SaveSnapshot
// (optionally with a stop signal), RecoverFromSnapshot on the receiver (optionally with a stop signal
// raised after a random number of bytes has been read), reads on the receiver obtained before the
// install and consumed after it (known finding K1), and the receiver carrying on with the saver's
// later entries.  All content / index / hash answers are compared with the model.

import (
	"bytes"
	"errors"
	"fmt"
	"github.com/jamf/regatta/util/iter"
	"io"
	"math/rand"

	"github.com/jamf/regatta/regattapb"
	"github.com/jamf/regatta/storage/table/fsm"
	sm "github.com/lni/dragonboat/v4/statemachine"
)

func init() {
	modes["snap"] = func(dir string) {
		out := NewOut(dir)
		defer out.Close()
		n := envInt("VERIF_N", 100)
		for h := 0; h < n; h++ {
			r := newRand(int64(8000 + h))
			out.Line("reset", "ok")
			snapHistory(out, r)
		}
	}
}

// stopAfter closes the stop channel once k bytes have been read.
type stopAfter struct {
	r     io.Reader
	left  int
	stopc chan struct{}
	done  bool
}

func (s *stopAfter) Read(p []byte) (int, error) {
	if s.left <= 0 && !s.done {
		close(s.stopc)
		s.done = true
	}
	if !s.done && len(p) > s.left {
		p = p[:s.left]
	}
	n, err := s.r.Read(p)
	s.left -= n
	return n, err
}

func genLog(r *rand.Rand, g *fsmGen, idx *uint64, li *uint64, n int) []fsmEntry {
	var log []fsmEntry
	m := len(g.keys)
	for i := 0; i < n; i++ {
		*idx += 1 + uint64(r.Intn(2))
		c := g.cmd(m, 0)
		if r.Intn(3) == 0 {
			*li += uint64(r.Intn(3))
			v := *li
			c.LeaderIndex = &v
		}
		log = append(log, mkEntry(*idx, c))
	}
	return log
}

func snapHistory(out *Out, r *rand.Rand) {
	g := newFsmGen(r)
	m := len(g.keys)
	fa, fb := fsm.SnapshotRecoveryType(r.Intn(2)), fsm.SnapshotRecoveryType(r.Intn(2))
	a, b := newFsmInst(fa), newFsmInst(fb)
	defer func() { a.f.Close(); b.f.Close() }()
	a.notif, a.vis, b.notif, b.vis = nil, nil, nil, nil
	out.Line("new 0", "ok")
	out.Line("new 1", "ok")
	var ia, la, ib, lb uint64
	a.update(out, 0, genLog(r, g, &ia, &la, 3+r.Intn(10)))
	// the receiver holds something unrelated (nothing of it may survive an install)
	if r.Intn(4) > 0 {
		b.update(out, 1, genLog(r, g, &ib, &lb, 1+r.Intn(8)))
	}
	parked := map[int]iter.Seq[*regattapb.ResponseOp_Range]{}
	slot := 0
	for round := 0; round < 1+r.Intn(3); round++ {
		ctx, err := a.f.PrepareSnapshot()
		must(err)
		out.Line("pin 0 1", "ok")
		// writes while the snapshot is pending
		var later []fsmEntry
		for w := r.Intn(3); w > 0; w-- {
			es := genLog(r, g, &ia, &la, 1+r.Intn(3))
			a.update(out, 0, es)
			later = append(later, es...)
		}
		// a stopped save: nothing usable, the saver is unaffected
		if r.Intn(5) == 0 {
			stopc := make(chan struct{})
			close(stopc)
			var buf bytes.Buffer
			err := a.f.SaveSnapshot(ctx, &buf, stopc)
			ans := "ok -"
			if errors.Is(err, sm.ErrSnapshotStopped) {
				ans = "stopped"
			} else if err != nil {
				ans = "err other"
			}
			out.Line(fmt.Sprintf("save 1 %d 1", fa), ans)
			out.Count("save_stopped")
			a.indices(out, 0)
			ctx, err = a.f.PrepareSnapshot()
			must(err)
			out.Line("pin 0 1", "ok")
			later = nil
		}
		var buf bytes.Buffer
		must(a.f.SaveSnapshot(ctx, &buf, nil))
		out.Line(fmt.Sprintf("save 1 %d 0", fa), "ok "+hx(buf.Bytes()[:8]))
		out.Count(fmt.Sprintf("save_%d_to_%d", fa, fb))
		// reads on the receiver obtained now, consumed after the install
		var across []int
		for q := r.Intn(3); q > 0; q-- {
			slot++
			rq := g.rangeReq(m)
			if r.Intn(2) == 0 {
				rq = fullRange()
			}
			b.park(out, 1, slot, rq, parked)
			across = append(across, slot)
		}
		// install, possibly with a stop signal after k bytes
		stopc := make(chan struct{})
		var rd io.Reader = bytes.NewReader(buf.Bytes())
		withStop := r.Intn(3) == 0
		if withStop {
			k := 0
			switch r.Intn(3) {
			case 0:
				k = 0
			case 1:
				k = 8
			default:
				k = r.Intn(buf.Len() + 1)
			}
			rd = &stopAfter{r: rd, left: k, stopc: stopc}
		}
		outcome := guard(func() string {
			err := b.f.RecoverFromSnapshot(rd, stopc)
			switch {
			case err == nil:
				return "done"
			case errors.Is(err, sm.ErrSnapshotStopped):
				return "stopped"
			default:
				return "err other"
			}
		})
		// the observed outcome is part of the operation (a stop signal may come too late to be seen);
		// the model then says what the receiver has to hold
		out.Line(fmt.Sprintf("install 1 %d 1 %s", fa, outcome), outcome)
		out.Count("install_" + outcome)
		b.notif, b.vis = nil, nil
		for _, s := range across {
			if _, ok := parked[s]; !ok {
				continue
			}
			if outcome == "done" {
				seq := parked[s]
				delete(parked, s)
				ans := guard(func() string {
					var sb []byte
					n := 0
					seq(func(rr *regattapb.ResponseOp_Range) bool {
						sb = append(sb, (" " + aRR(rr))...)
						n++
						return true
					})
					return fmt.Sprintf("ok %d%s", n, sb)
				})
				out.Line(fmt.Sprintf("kf K1 cons %d", s), ans)
				out.Count("cons_across_install")
			} else {
				consume(out, s, parked)
			}
		}
		b.look(out, 1, fullRange())
		b.indices(out, 1)
		b.look(out, 1, g.rangeReq(m))
		if outcome == "done" {
			// the receiver carries on with the saver's later entries and ends up where the saver is
			if len(later) > 0 {
				b.update(out, 1, later)
			}
			a.indices(out, 0)
			b.indices(out, 1)
			ib, lb = ia, la
		} else {
			// the receiver is untouched and keeps its own history
			b.update(out, 1, genLog(r, g, &ib, &lb, 1+r.Intn(2)))
			b.indices(out, 1)
		}
		// roles may swap: the receiver saves for the saver next time
		if outcome == "done" && r.Intn(2) == 0 {
			a, b = b, a
			fa, fb = fb, fa
			out.Line("swap 0 1", "ok")
		}
	}
}
